//go:build verif

package fixture

// In-process federation cluster: N brokers in one process, each with the federation plugin
// (serf gossip + gRPC event streams on loopback ports). Used by C16 / C17.
//
// Facts: plugin/federation assigns a package-global logger in New (do not run under -race);
// the plugin's gRPC server is never stopped by Unload, so a "restarted" node needs fresh
// ports; Stop takes 1-2 s per node (serf leave) - stop nodes concurrently (StopFedNodes).

import (
	"context"
	"fmt"
	"net"
	"os"
	"sort"
	"strings"
	"sync"
	"time"

	"github.com/golang/protobuf/ptypes/empty"

	"github.com/DrmagicE/gmqtt/config"
	"github.com/DrmagicE/gmqtt/plugin/federation"
)

var (
	portMu  sync.Mutex
	portSeq int
)

// FreeLoopbackAddr returns a 127.0.0.1:<port> address whose port was free for TCP and UDP a
// moment ago (serf gossip uses both on the same port). Ports are taken from 10000-30999, below
// the ephemeral range, so that outgoing connections cannot grab them between the probe and the
// real bind. Every process walks sequentially through its own slot of 1000 ports (slot = pid
// mod 21; the shard processes of one run have neighbouring pids): a gossip port is therefore
// not reused by another process, and by this process only ~1000 allocations later. This
// matters: memberlist keeps gossiping to the addresses of members that left for 30 s, and a
// foreign node that starts on such a port is merged into the old cluster (all clusters use
// the same node names), which shows up as spurious member-fail / join events.
func FreeLoopbackAddr() (string, error) {
	var lastErr error
	for i := 0; i < 400; i++ {
		portMu.Lock()
		portSeq++
		port := 10000 + (os.Getpid()%21)*1000 + portSeq%1000
		portMu.Unlock()
		addr := fmt.Sprintf("127.0.0.1:%d", port)
		l, err := net.Listen("tcp", addr)
		if err != nil {
			lastErr = err
			continue
		}
		u, err := net.ListenPacket("udp", addr)
		l.Close()
		if err != nil {
			lastErr = err
			continue
		}
		u.Close()
		return addr, nil
	}
	return "", fmt.Errorf("no free loopback port: %v", lastErr)
}

// FedNodeOpts describes one federation member.
type FedNodeOpts struct {
	Name string
	// Join are the gossip addresses of members started earlier (retry_join).
	Join []string
	// AdvertiseFedAddr, when not empty, is advertised to the peers instead of the node's own
	// gRPC address (C16: the address of the fault proxy in front of it).
	AdvertiseFedAddr string
	// AdvertiseVia, when not nil, is called with the node's real gRPC address before the node
	// starts and returns the address to advertise (e.g. starts a proxy towards it).
	AdvertiseVia func(fedAddr string) (string, error)
	// Modify can change the broker configuration (delivery mode …) before the node starts.
	Modify func(cfg *config.Config)
}

// FedNode is a running federation member.
type FedNode struct {
	*Broker
	Name       string
	Fed        *federation.Federation
	FedAddr    string // the gRPC listener of this node
	GossipAddr string
	Advertised string // what the peers dial
}

// StartFedNode starts one broker with the federation plugin on fresh loopback ports. Port
// collisions (the ports are picked by listen-and-close) are retried with new ports.
func StartFedNode(o FedNodeOpts) (*FedNode, error) {
	var lastErr error
	for attempt := 0; attempt < 6; attempt++ {
		n, err, retry := startFedNodeOnce(o)
		if err == nil {
			return n, nil
		}
		lastErr = err
		if !retry {
			break
		}
	}
	return nil, lastErr
}

func startFedNodeOnce(o FedNodeOpts) (*FedNode, error, bool) {
	fedAddr, err := FreeLoopbackAddr()
	if err != nil {
		return nil, err, false
	}
	gossipAddr, err := FreeLoopbackAddr()
	if err != nil {
		return nil, err, false
	}
	adv := o.AdvertiseFedAddr
	if o.AdvertiseVia != nil {
		adv, err = o.AdvertiseVia(fedAddr)
		if err != nil {
			return nil, fmt.Errorf("advertise via: %w", err), false
		}
	}
	fc := &federation.Config{
		NodeName:         o.Name,
		FedAddr:          fedAddr,
		GossipAddr:       gossipAddr,
		AdvertiseFedAddr: adv,
		RetryJoin:        append([]string(nil), o.Join...),
		RetryInterval:    100 * time.Millisecond,
		RetryTimeout:     10 * time.Second,
	}
	if err := fc.Validate(); err != nil {
		return nil, fmt.Errorf("federation config: %w", err), false
	}
	cfg := BaseConfig()
	cfg.Plugins = map[string]config.Configuration{federation.Name: fc}
	cfg.PluginOrder = []string{federation.Name}
	if o.Modify != nil {
		o.Modify(&cfg)
	}
	b, err := Start(Opts{Config: cfg})
	if err != nil {
		s := err.Error()
		retry := strings.Contains(s, "address already in use") || strings.Contains(s, "bind:")
		return nil, fmt.Errorf("node %s: %w", o.Name, err), retry
	}
	n := &FedNode{Broker: b, Name: o.Name, FedAddr: fc.FedAddr, GossipAddr: fc.GossipAddr, Advertised: fc.AdvertiseFedAddr}
	for _, p := range b.Srv.Plugins() {
		if f, ok := p.(*federation.Federation); ok {
			n.Fed = f
		}
	}
	if n.Fed == nil {
		_ = b.Stop()
		return nil, fmt.Errorf("node %s: federation plugin instance not found", o.Name), false
	}
	return n, nil, false
}

// FedCluster is a set of federated nodes (full mesh).
type FedCluster struct {
	Nodes []*FedNode
}

// StartFedCluster starts n nodes named n0, n1, …; node i joins the nodes started before it.
// opts (optional) is called per node index to adjust that node's options.
func StartFedCluster(n int, opts func(i int, o *FedNodeOpts)) (*FedCluster, error) {
	c := &FedCluster{}
	var join []string
	for i := 0; i < n; i++ {
		o := FedNodeOpts{Name: fmt.Sprintf("n%d", i), Join: append([]string(nil), join...)}
		if opts != nil {
			opts(i, &o)
		}
		node, err := StartFedNode(o)
		if err != nil {
			c.Stop()
			return nil, err
		}
		c.Nodes = append(c.Nodes, node)
		join = append(join, node.GossipAddr)
	}
	return c, nil
}

// Stop stops all nodes concurrently.
func (c *FedCluster) Stop() { StopFedNodes(c.Nodes...) }

// StopQuietly tears a cluster down with as few leftovers as possible (meant for the background,
// it takes ~5 s): every node first announces its leave through the plugin's membership API, so
// that the others stop their event-stream loops towards it, then the brokers are stopped one
// after the other. Background: Federation.Unload neither ends the node's own peer loops (they
// keep re-dialling the other nodes, whose gRPC servers are never stopped either, and leak a
// client connection per failed handshake) nor shuts serf down when its Leave times out, which
// happens when all members leave at the same moment.
func (c *FedCluster) StopQuietly() { StopFedNodesQuietly(c.Nodes...) }

// StopFedNodesQuietly see FedCluster.StopQuietly.
func StopFedNodesQuietly(nodes ...*FedNode) {
	for _, n := range nodes {
		if n != nil && n.Fed != nil && !n.stopped.Load() {
			_, _ = n.Fed.Leave(context.Background(), &empty.Empty{})
		}
	}
	for i := len(nodes) - 1; i >= 0; i-- {
		if nodes[i] != nil {
			_ = nodes[i].Stop()
		}
	}
}

// StopFedNodes stops the given nodes concurrently (serf leave takes 1-2 s per node).
func StopFedNodes(nodes ...*FedNode) {
	var wg sync.WaitGroup
	for _, n := range nodes {
		if n == nil {
			continue
		}
		wg.Add(1)
		go func(n *FedNode) {
			defer wg.Done()
			_ = n.Stop()
		}(n)
	}
	wg.Wait()
}

// PollUntil polls cond every 2 ms until it is true or the timeout expires.
func PollUntil(timeout time.Duration, cond func() bool) bool {
	deadline := time.Now().Add(timeout)
	for {
		if cond() {
			return true
		}
		if !time.Now().Before(deadline) {
			return false
		}
		time.Sleep(2 * time.Millisecond)
	}
}

// PollUntilEvery is PollUntil with a caller-chosen polling interval.
func PollUntilEvery(every, timeout time.Duration, cond func() bool) bool {
	deadline := time.Now().Add(timeout)
	for {
		if cond() {
			return true
		}
		if !time.Now().Before(deadline) {
			return false
		}
		time.Sleep(every)
	}
}

// WaitPeers waits until this node's peer table holds exactly the given names.
func (n *FedNode) WaitPeers(names []string, timeout time.Duration) error {
	want := append([]string(nil), names...)
	sort.Strings(want)
	var got []string
	if PollUntil(timeout, func() bool {
		got = n.Fed.VerifPeers()
		return strings.Join(got, ",") == strings.Join(want, ",")
	}) {
		return nil
	}
	return fmt.Errorf("node %s: peers %v, want %v after %v", n.Name, got, want, timeout)
}

// WaitSessionFrom waits until this node holds an event-stream session of the given remote
// node (the remote node's Hello was accepted here).
func (n *FedNode) WaitSessionFrom(remote string, timeout time.Duration) error {
	if PollUntil(timeout, func() bool {
		_, ok := n.Fed.VerifSessionNext(remote)
		return ok
	}) {
		return nil
	}
	return fmt.Errorf("node %s: no session of %s after %v", n.Name, remote, timeout)
}

// WaitMesh waits until every node knows every other node and holds a session of each.
func (c *FedCluster) WaitMesh(timeout time.Duration) error {
	for _, n := range c.Nodes {
		var others []string
		for _, m := range c.Nodes {
			if m != n {
				others = append(others, m.Name)
			}
		}
		if err := n.WaitPeers(others, timeout); err != nil {
			return err
		}
		for _, o := range others {
			if err := n.WaitSessionFrom(o, timeout); err != nil {
				return err
			}
		}
	}
	return nil
}

// Drained reports whether this node's outgoing queues to all its peers are empty.
func (n *FedNode) Drained() bool {
	for _, p := range n.Fed.VerifPeers() {
		if pending, _, ok := n.Fed.VerifPeerQueue(p); ok && pending != 0 {
			return false
		}
	}
	return true
}

// WaitDrained waits until the outgoing queues of this node are empty.
func (n *FedNode) WaitDrained(timeout time.Duration) error {
	if PollUntil(timeout, n.Drained) {
		return nil
	}
	var rest []string
	for _, p := range n.Fed.VerifPeers() {
		pending, next, _ := n.Fed.VerifPeerQueue(p)
		rest = append(rest, fmt.Sprintf("%s: pending %d next %d %v", p, pending, next, n.Fed.VerifPeerEvents(p)))
	}
	return fmt.Errorf("node %s: outgoing federation queues not empty after %v: %s", n.Name, timeout, strings.Join(rest, "; "))
}

// NextIDs returns the id the next event to every peer will get (per peer name).
func (n *FedNode) NextIDs() map[string]uint64 {
	out := map[string]uint64{}
	for _, p := range n.Fed.VerifPeers() {
		if _, next, ok := n.Fed.VerifPeerQueue(p); ok {
			out[p] = next
		}
	}
	return out
}
