package fixture

import (
	"github.com/DrmagicE/gmqtt/config"
	"github.com/DrmagicE/gmqtt/plugin/auth"
)

// WithAuth enables the auth plugin (registered under the name "auth" by importing
// plugin/auth) on cfg: configDir is config.Config.ConfigDir (the directory of the
// configuration file in a real deployment), passwordFile and hash are the plugin's
// password_file and hash settings, handed over unmodified.
func WithAuth(cfg config.Config, configDir, passwordFile, hash string) config.Config {
	cfg.ConfigDir = configDir
	cfg.PluginOrder = append(append([]string(nil), cfg.PluginOrder...), auth.Name)
	plugins := map[string]config.Configuration{}
	for k, v := range cfg.Plugins {
		plugins[k] = v
	}
	plugins[auth.Name] = &auth.Config{PasswordFile: passwordFile, Hash: hash}
	cfg.Plugins = plugins
	return cfg
}

// AuthPlugin returns the broker's auth plugin instance (nil when it is not loaded). Its
// exported methods Update / Delete / Get / List are the account API handlers.
func (b *Broker) AuthPlugin() *auth.Auth {
	for _, p := range b.Srv.Plugins() {
		if a, ok := p.(*auth.Auth); ok {
			return a
		}
	}
	return nil
}
