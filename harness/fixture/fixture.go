// Package fixture starts a real in-process gmqtt broker per generated case and provides a
// scripted MQTT client built on the independent codec (verif/mqttwire): it sends exactly
// the packets a scenario says, acknowledges only when told, and records what it receives.
package fixture

import (
	"bufio"
	"context"
	"errors"
	"fmt"
	"io"
	"net"
	"sync"
	"sync/atomic"
	"time"

	"google.golang.org/grpc/test/bufconn"

	"github.com/DrmagicE/gmqtt/config"
	_ "github.com/DrmagicE/gmqtt/persistence"
	"github.com/DrmagicE/gmqtt/server"
	_ "github.com/DrmagicE/gmqtt/topicalias/fifo"

	mw "verif/mqttwire"
)

// BaseConfig is a validator-accepted configuration with no listeners, no API, no plugins,
// in-memory persistence. Checks modify MQTT fields on the returned value.
func BaseConfig() config.Config {
	c := config.DefaultConfig()
	c.Listeners = nil
	c.Plugins = nil
	c.PluginOrder = nil
	c.MQTT.DeliveryMode = config.Overlap
	c.MQTT.SessionExpiry = time.Hour
	c.MQTT.MessageExpiry = 0
	c.MQTT.MaxQueuedMsg = 1000
	c.MQTT.MaxInflight = 100
	return c
}

// Opts configures a broker.
type Opts struct {
	Config  config.Config
	Hooks   *server.Hooks
	TCP     bool // real loopback TCP instead of the in-memory transport
	Extra   []server.Options
	Plugins []server.Plugin
}

// Broker is a running in-process broker.
type Broker struct {
	Srv     server.Server
	buf     *bufconn.Listener
	tcp     net.Listener
	runErr  chan error
	stopped atomic.Bool
}

// Start launches a broker and waits until it accepts connections.
func Start(o Opts) (*Broker, error) {
	b := &Broker{runErr: make(chan error, 1)}
	var ln net.Listener
	if o.TCP {
		l, err := net.Listen("tcp", "127.0.0.1:0")
		if err != nil {
			return nil, err
		}
		b.tcp, ln = l, l
	} else {
		b.buf = bufconn.Listen(256 * 1024)
		ln = b.buf
	}
	opts := []server.Options{server.WithConfig(o.Config), server.WithTCPListener(ln)}
	if o.Hooks != nil {
		opts = append(opts, server.WithHook(*o.Hooks))
	}
	if len(o.Plugins) > 0 {
		opts = append(opts, server.WithPlugin(o.Plugins...))
	}
	opts = append(opts, o.Extra...)
	srv := server.New(opts...)
	if err := srv.Init(); err != nil {
		ln.Close()
		return nil, fmt.Errorf("broker init: %w", err)
	}
	b.Srv = srv
	go func() { b.runErr <- srv.Run() }()
	return b, nil
}

// Addr returns the TCP address (TCP mode only).
func (b *Broker) Addr() string {
	if b.tcp != nil {
		return b.tcp.Addr().String()
	}
	return ""
}

// DialConn opens a raw transport connection to the broker.
func (b *Broker) DialConn() (net.Conn, error) {
	if b.tcp != nil {
		return net.DialTimeout("tcp", b.tcp.Addr().String(), 5*time.Second)
	}
	return b.buf.DialContext(context.Background())
}

// ErrStopTimeout is returned by Stop when the broker did not stop within the watchdog.
var ErrStopTimeout = errors.New("fixture: broker Stop did not return within the watchdog")

// Stop stops the broker under a watchdog.
func (b *Broker) Stop() error { return b.StopWithin(10 * time.Second) }

func (b *Broker) StopWithin(d time.Duration) error {
	if b.stopped.Swap(true) {
		return nil
	}
	done := make(chan error, 1)
	go func() {
		ctx, cancel := context.WithTimeout(context.Background(), d)
		defer cancel()
		done <- b.Srv.Stop(ctx)
	}()
	select {
	case err := <-done:
		select {
		case <-b.runErr:
		case <-time.After(d):
			return ErrStopTimeout
		}
		return err
	case <-time.After(d + time.Second):
		return ErrStopTimeout
	}
}

// ---------------------------------------------------------------------------------------

// Recv is one packet received by a scripted client.
type Recv struct {
	P        *mw.Packet
	At       time.Time
	consumed bool
	// AliasResolved: P.Topic was empty on the wire and has been filled in from the connection's alias table
	AliasResolved bool
}

// Client is a scripted MQTT client.
type Client struct {
	ID   string
	V    mw.Version
	Conn net.Conn

	mu      sync.Mutex
	cond    *sync.Cond
	log     []*Recv
	rerr    error // reader termination cause (io.EOF on clean close)
	closed  bool
	wmu     sync.Mutex
	AutoAck bool // acknowledge PUBLISH/PUBREL promptly from the reader goroutine
	// OnPacket is called from the reader goroutine for every packet before it is logged.
	OnPacket func(*mw.Packet)
	br       *bufio.Reader
	sentLog  []SentRec
	SentRaw  int // bytes written
	RecvRaw  int // bytes read (sum of Raw lengths)
	done     chan struct{}

	resolveAliases bool
	aliases        map[uint16]string
}

// NewClient wraps a connection; the reader goroutine starts immediately.
func NewClient(conn net.Conn, id string, v mw.Version) *Client {
	c := &Client{ID: id, V: v, Conn: conn, br: bufio.NewReaderSize(conn, 4096), done: make(chan struct{})}
	c.cond = sync.NewCond(&c.mu)
	go c.reader()
	return c
}

func (c *Client) reader() {
	defer close(c.done)
	for {
		p, err := mw.ReadPacket(c.br, c.V, mw.ToClient)
		if err != nil {
			c.mu.Lock()
			c.rerr = err
			c.closed = true
			c.cond.Broadcast()
			c.mu.Unlock()
			return
		}
		c.mu.Lock()
		onPacket := c.OnPacket
		c.mu.Unlock()
		if onPacket != nil {
			onPacket(p)
		}
		c.mu.Lock()
		resolved := false
		if c.resolveAliases && p.Type == mw.PUBLISH && p.Props != nil && p.Props.TopicAlias != nil {
			if c.aliases == nil {
				c.aliases = map[uint16]string{}
			}
			if p.Topic != "" {
				c.aliases[*p.Props.TopicAlias] = p.Topic
			} else if t, ok := c.aliases[*p.Props.TopicAlias]; ok {
				p.Topic, resolved = t, true
			}
		}
		c.log = append(c.log, &Recv{P: p, At: time.Now(), AliasResolved: resolved})
		c.RecvRaw += len(p.Raw)
		auto := c.AutoAck
		c.cond.Broadcast()
		c.mu.Unlock()
		if auto {
			switch {
			case p.Type == mw.PUBLISH && p.QoS == 1:
				_ = c.Send(&mw.Packet{Type: mw.PUBACK, PacketID: p.PacketID})
			case p.Type == mw.PUBLISH && p.QoS == 2:
				_ = c.Send(&mw.Packet{Type: mw.PUBREC, PacketID: p.PacketID})
			case p.Type == mw.PUBREL:
				_ = c.Send(&mw.Packet{Type: mw.PUBCOMP, PacketID: p.PacketID})
			}
		}
	}
}

// SetAutoAck switches prompt acknowledgement on or off.
func (c *Client) SetAutoAck(on bool) {
	c.mu.Lock()
	c.AutoAck = on
	c.mu.Unlock()
}

// Send encodes and writes one packet.
func (c *Client) Send(p *mw.Packet) error {
	b, err := mw.Encode(p, c.V)
	if err != nil {
		return err
	}
	c.wmu.Lock()
	defer c.wmu.Unlock()
	c.sentLog = append(c.sentLog, SentRec{P: p, N: len(b)})
	return c.writeLocked(b)
}

// SentRec is one packet written with Send (its encoded length in N).
type SentRec struct {
	P *mw.Packet
	N int
}

// Sent returns a copy of everything written with Send (auto-acks included).
func (c *Client) Sent() []SentRec {
	c.wmu.Lock()
	defer c.wmu.Unlock()
	return append([]SentRec(nil), c.sentLog...)
}

// SendRaw writes bytes as they are.
func (c *Client) SendRaw(b []byte) error {
	c.wmu.Lock()
	defer c.wmu.Unlock()
	return c.writeLocked(b)
}

func (c *Client) writeLocked(b []byte) error {
	_ = c.Conn.SetWriteDeadline(time.Now().Add(10 * time.Second))
	n, err := c.Conn.Write(b)
	c.SentRaw += n
	return err
}

// ErrTimeout is returned by waits.
var ErrTimeout = errors.New("fixture: timed out waiting for a packet")

// ErrClosed is returned when the connection ended before the awaited packet arrived.
var ErrClosed = errors.New("fixture: connection closed by the broker")

// WaitFor returns the first not yet consumed packet satisfying pred, marking it consumed.
func (c *Client) WaitFor(pred func(*mw.Packet) bool, timeout time.Duration) (*mw.Packet, error) {
	deadline := time.Now().Add(timeout)
	timer := time.AfterFunc(timeout, func() { c.mu.Lock(); c.cond.Broadcast(); c.mu.Unlock() })
	defer timer.Stop()
	c.mu.Lock()
	defer c.mu.Unlock()
	for {
		for _, r := range c.log {
			if !r.consumed && pred(r.P) {
				r.consumed = true
				return r.P, nil
			}
		}
		if c.closed {
			return nil, ErrClosed
		}
		if !time.Now().Before(deadline) {
			return nil, ErrTimeout
		}
		c.cond.Wait()
	}
}

// WaitType waits for the next unconsumed packet of the given type.
func (c *Client) WaitType(t mw.Type, timeout time.Duration) (*mw.Packet, error) {
	return c.WaitFor(func(p *mw.Packet) bool { return p.Type == t }, timeout)
}

// WaitAck waits for an acknowledgement packet of type t with the given packet id.
func (c *Client) WaitAck(t mw.Type, id uint16, timeout time.Duration) (*mw.Packet, error) {
	return c.WaitFor(func(p *mw.Packet) bool { return p.Type == t && p.PacketID == id }, timeout)
}

// Take returns and consumes all currently unconsumed packets satisfying pred (nil = all).
func (c *Client) Take(pred func(*mw.Packet) bool) []*Recv {
	c.mu.Lock()
	defer c.mu.Unlock()
	var out []*Recv
	for _, r := range c.log {
		if !r.consumed && (pred == nil || pred(r.P)) {
			r.consumed = true
			out = append(out, r)
		}
	}
	return out
}

// All returns a copy of everything received so far (consumed or not).
func (c *Client) All() []*Recv {
	c.mu.Lock()
	defer c.mu.Unlock()
	return append([]*Recv(nil), c.log...)
}

// Closed reports whether the reader has terminated, and why.
func (c *Client) Closed() (bool, error) {
	c.mu.Lock()
	defer c.mu.Unlock()
	return c.closed, c.rerr
}

// WaitClosed waits until the broker closed the connection.
func (c *Client) WaitClosed(timeout time.Duration) bool {
	select {
	case <-c.done:
		return true
	case <-time.After(timeout):
		return false
	}
}

// Kill closes the transport abruptly.
func (c *Client) Kill() {
	_ = c.Conn.Close()
	<-c.done
}

// Ping sends PINGREQ and waits for PINGRESP: every packet sent before it on this
// connection has been handled by the broker when it returns nil.
func (c *Client) Ping(timeout time.Duration) error {
	if err := c.Send(&mw.Packet{Type: mw.PINGREQ}); err != nil {
		return err
	}
	_, err := c.WaitType(mw.PINGRESP, timeout)
	return err
}

// Disconnect sends a normal DISCONNECT and closes.
func (c *Client) Disconnect() {
	_ = c.Send(&mw.Packet{Type: mw.DISCONNECT})
	_ = c.Conn.Close() // the client closes the network connection after DISCONNECT; the broker does not
	<-c.done
}

// ConnectOpts describes a CONNECT.
type ConnectOpts struct {
	ID         string
	V          mw.Version
	CleanStart bool
	KeepAlive  uint16
	Props      *mw.Props
	Will       *mw.Will
	Username   *string
	Password   []byte
	AutoAck    bool
	// ResolveAliases: the client keeps the topic alias table of the connection as a real client does and fills in
	// the topic name of a PUBLISH that arrives with an alias only (Recv.AliasResolved); an unknown alias stays empty
	ResolveAliases bool
}

// DefaultWait is the generous bound used for "the broker answers" waits.
var DefaultWait = 10 * time.Second

// Connect dials, sends CONNECT and waits for CONNACK. The CONNACK is returned even when
// its code is not success (client is then usually closed by the broker).
func (b *Broker) Connect(o ConnectOpts) (*Client, *mw.Packet, error) {
	conn, err := b.DialConn()
	if err != nil {
		return nil, nil, err
	}
	c := NewClient(conn, o.ID, o.V)
	c.mu.Lock()
	c.AutoAck = o.AutoAck
	c.resolveAliases = o.ResolveAliases
	c.mu.Unlock()
	name, lvl := mw.ProtoFor(o.V)
	p := &mw.Packet{Type: mw.CONNECT, ProtoName: name, ProtoLevel: lvl, CleanStart: o.CleanStart, KeepAlive: o.KeepAlive,
		ClientID: o.ID, Will: o.Will, Props: o.Props}
	if o.Username != nil {
		p.HasUsername, p.Username = true, *o.Username
	}
	if o.Password != nil {
		p.HasPassword, p.Password = true, o.Password
	}
	if err := c.Send(p); err != nil {
		c.Kill()
		return nil, nil, err
	}
	ack, err := c.WaitType(mw.CONNACK, DefaultWait)
	if err != nil {
		return c, nil, err
	}
	return c, ack, nil
}

// Subscribe sends one SUBSCRIBE and waits for its SUBACK.
func (c *Client) Subscribe(id uint16, props *mw.Props, subs ...mw.SubReq) (*mw.Packet, error) {
	if err := c.Send(&mw.Packet{Type: mw.SUBSCRIBE, PacketID: id, Subs: subs, Props: props}); err != nil {
		return nil, err
	}
	return c.WaitAck(mw.SUBACK, id, DefaultWait)
}

// Unsubscribe sends one UNSUBSCRIBE and waits for its UNSUBACK.
func (c *Client) Unsubscribe(id uint16, filters ...string) (*mw.Packet, error) {
	if err := c.Send(&mw.Packet{Type: mw.UNSUBSCRIBE, PacketID: id, Filters: filters}); err != nil {
		return nil, err
	}
	return c.WaitAck(mw.UNSUBACK, id, DefaultWait)
}

// Publish sends a PUBLISH and completes the publisher side of the QoS flow. It returns the
// PUBACK / PUBREC packet (nil for QoS 0).
func (c *Client) Publish(p *mw.Packet) (*mw.Packet, error) {
	p.Type = mw.PUBLISH
	if err := c.Send(p); err != nil {
		return nil, err
	}
	switch p.QoS {
	case 1:
		return c.WaitAck(mw.PUBACK, p.PacketID, DefaultWait)
	case 2:
		rec, err := c.WaitAck(mw.PUBREC, p.PacketID, DefaultWait)
		if err != nil {
			return nil, err
		}
		if c.V == mw.V5 && rec.ReasonCode >= 0x80 {
			return rec, nil
		}
		if err := c.Send(&mw.Packet{Type: mw.PUBREL, PacketID: p.PacketID}); err != nil {
			return rec, err
		}
		_, err = c.WaitAck(mw.PUBCOMP, p.PacketID, DefaultWait)
		return rec, err
	}
	return nil, nil
}

// IsEOF reports whether err is a plain end of stream.
func IsEOF(err error) bool {
	return errors.Is(err, io.EOF) || errors.Is(err, io.ErrUnexpectedEOF) || errors.Is(err, net.ErrClosed) || errors.Is(err, io.ErrClosedPipe)
}

// SentinelTopic is the per-client barrier topic; no generated filter can match it.
func SentinelTopic(clientID string) string { return "$vs/" + clientID }
