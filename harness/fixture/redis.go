package fixture

import (
	"time"

	"github.com/DrmagicE/gmqtt/config"

	"verif/miniredis"
)

// StartRedis starts a fresh in-process RESP server (stand-in for redis).
func StartRedis() (*miniredis.Server, func(), error) {
	s := miniredis.New()
	if _, err := s.Start(); err != nil {
		return nil, nil, err
	}
	return s, s.Close, nil
}

// WithRedis returns cfg switched to the redis persistence backend at addr.
func WithRedis(cfg config.Config, addr string) config.Config {
	idle, active := uint(8), uint(0)
	cfg.Persistence = config.Persistence{
		Type:  config.PersistenceTypeRedis,
		Redis: config.RedisPersistence{Addr: addr, Database: 0, MaxIdle: &idle, MaxActive: &active, IdleTimeout: 4 * time.Minute},
	}
	return cfg
}
