package fixture

// WebSocket support: an in-process broker with a websocket listener on a loopback port, and
// a client-side adapter that exposes a gorilla/websocket connection as a net.Conn byte
// stream while recording the type and length of every message received (so that a scripted
// Client can run on top of it and a check can still assert on the framing).

import (
	"context"
	"fmt"
	"net"
	"net/http"
	"sync"
	"time"

	"github.com/gorilla/websocket"

	"github.com/DrmagicE/gmqtt/server"
)

// StartWS starts a broker like Start and additionally serves MQTT over WebSocket on a fresh
// loopback port (path "/", subprotocol "mqtt"). It returns the ws:// URL of the listener.
func StartWS(o Opts) (*Broker, string, error) {
	addrCh := make(chan string, 1)
	ws := &server.WsServer{
		Server: &http.Server{
			Addr: "127.0.0.1:0",
			BaseContext: func(l net.Listener) context.Context {
				select {
				case addrCh <- l.Addr().String():
				default:
				}
				return context.Background()
			},
		},
		Path: "/",
	}
	o.Extra = append(append([]server.Options(nil), o.Extra...), server.WithWebsocketServer(ws))
	b, err := Start(o)
	if err != nil {
		return nil, "", err
	}
	select {
	case a := <-addrCh:
		return b, "ws://" + a + "/", nil
	case err := <-b.runErr:
		b.runErr <- err
		_ = b.Stop()
		return nil, "", fmt.Errorf("broker exited while starting the websocket listener: %v", err)
	case <-time.After(10 * time.Second):
		_ = b.Stop()
		return nil, "", fmt.Errorf("websocket listener did not come up within 10 s")
	}
}

// WSFrame describes one data message received from the broker.
type WSFrame struct {
	Type int // websocket.BinaryMessage (2) / websocket.TextMessage (1)
	Len  int
}

// WSConn is a client-side websocket connection presented as a net.Conn. Read returns the
// concatenation of the payloads of the data messages received (whatever their type; the
// types are recorded). Write sends its argument as ONE binary message.
type WSConn struct {
	net.Conn // the underlying TCP connection (addresses, deadlines)
	C        *websocket.Conn

	pong   chan struct{} // a pong control frame arrived (capacity 1)
	wmu    sync.Mutex
	mu     sync.Mutex
	frames []WSFrame
	rbuf   []byte
	rerr   error
}

// DialWS opens a websocket connection with subprotocol "mqtt".
func DialWS(url string) (*WSConn, error) {
	d := websocket.Dialer{Subprotocols: []string{"mqtt"}, HandshakeTimeout: 10 * time.Second}
	c, resp, err := d.Dial(url, nil)
	if err != nil {
		return nil, err
	}
	if resp != nil && resp.Body != nil {
		_ = resp.Body.Close()
	}
	if sp := c.Subprotocol(); sp != "mqtt" {
		_ = c.Close()
		return nil, fmt.Errorf("websocket: negotiated subprotocol %q, want \"mqtt\"", sp)
	}
	w := &WSConn{Conn: c.UnderlyingConn(), C: c, pong: make(chan struct{}, 1)}
	c.SetPongHandler(func(string) error {
		select {
		case w.pong <- struct{}{}:
		default:
		}
		return nil
	})
	return w, nil
}

// WriteFrame writes ONE websocket frame by hand on the underlying connection (the websocket
// library only fragments a message when its write buffer fills): opcode 2/1 starts a binary/text
// message, 0 continues it, fin marks the last frame of the message; 9 is a ping. Client frames
// are masked with the given key.
func (w *WSConn) WriteFrame(opcode byte, fin bool, p []byte, key [4]byte) error {
	b := make([]byte, 0, len(p)+14)
	b0 := opcode & 0x0f
	if fin {
		b0 |= 0x80
	}
	b = append(b, b0)
	switch n := len(p); {
	case n < 126:
		b = append(b, 0x80|byte(n))
	case n < 65536:
		b = append(b, 0x80|126, byte(n>>8), byte(n))
	default:
		b = append(b, 0x80|127, 0, 0, 0, 0, byte(n>>24), byte(n>>16), byte(n>>8), byte(n))
	}
	b = append(b, key[:]...)
	for i, x := range p {
		b = append(b, x^key[i%4])
	}
	w.wmu.Lock()
	defer w.wmu.Unlock()
	_ = w.Conn.SetWriteDeadline(time.Now().Add(10 * time.Second))
	_, err := w.Conn.Write(b)
	return err
}

// PingSync sends a ping control frame (allowed in the middle of a fragmented message) and waits
// for the pong: when it returns true the peer's reader has consumed every frame written before.
func (w *WSConn) PingSync(timeout time.Duration) bool {
	select {
	case <-w.pong:
	default:
	}
	if err := w.WriteFrame(9, true, nil, [4]byte{1, 2, 3, 4}); err != nil {
		return false
	}
	select {
	case <-w.pong:
		return true
	case <-time.After(timeout):
		return false
	}
}

// Read implements io.Reader over the concatenated message payloads. Only one goroutine may
// call Read.
func (w *WSConn) Read(p []byte) (int, error) {
	for len(w.rbuf) == 0 {
		if w.rerr != nil {
			return 0, w.rerr
		}
		typ, b, err := w.C.ReadMessage()
		if err != nil {
			w.rerr = err
			return 0, err
		}
		w.mu.Lock()
		w.frames = append(w.frames, WSFrame{Type: typ, Len: len(b)})
		w.mu.Unlock()
		w.rbuf = b
	}
	n := copy(p, w.rbuf)
	w.rbuf = w.rbuf[n:]
	return n, nil
}

// Write sends p as one binary message.
func (w *WSConn) Write(p []byte) (int, error) {
	if err := w.WriteMessage(websocket.BinaryMessage, p); err != nil {
		return 0, err
	}
	return len(p), nil
}

// WriteMessage sends one data message of the given type (websocket.BinaryMessage or
// websocket.TextMessage).
func (w *WSConn) WriteMessage(typ int, p []byte) error {
	w.wmu.Lock()
	defer w.wmu.Unlock()
	_ = w.C.SetWriteDeadline(time.Now().Add(10 * time.Second))
	return w.C.WriteMessage(typ, p)
}

// Frames returns a copy of the list of data messages received so far.
func (w *WSConn) Frames() []WSFrame {
	w.mu.Lock()
	defer w.mu.Unlock()
	return append([]WSFrame(nil), w.frames...)
}

// Close closes the transport abruptly (no close handshake).
func (w *WSConn) Close() error { return w.C.Close() }

// Deadlines go to the websocket layer (it tracks its own deadlines).
func (w *WSConn) SetWriteDeadline(t time.Time) error { return w.C.SetWriteDeadline(t) }
func (w *WSConn) SetReadDeadline(t time.Time) error  { return w.C.SetReadDeadline(t) }
func (w *WSConn) SetDeadline(t time.Time) error {
	_ = w.C.SetReadDeadline(t)
	return w.C.SetWriteDeadline(t)
}

// WSBinary / WSText are the data message types.
const (
	WSText   = websocket.TextMessage
	WSBinary = websocket.BinaryMessage
)
