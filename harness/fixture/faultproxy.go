package fixture

// FaultProxy is a fault-injecting TCP proxy: it accepts connections, dials the target and
// copies both directions. A scriptable plan (consumed by the accepted connections in order)
// cuts a connection after n bytes upstream (client → target) and/or downstream (target →
// client) by closing both sockets, black-holes it (stops copying, keeps the sockets) for a
// while, and refuses new connections for a while after a cut. The same faults can be injected
// imperatively (CutNow, Hole, Refuse). Bytes are counted per connection and direction, so a cut
// can target the HTTP/2 preface / settings exchange, a unary call or a stream.

import (
	"fmt"
	"net"
	"sync"
	"time"
)

// ConnPlan is the fault script of one accepted connection. Zero values mean "no fault".
type ConnPlan struct {
	CutUp    int `json:"cut_up,omitempty"`     // forward exactly this many bytes client → target, then cut
	CutDown  int `json:"cut_down,omitempty"`   // forward exactly this many bytes target → client, then cut
	HoleAtUp int `json:"hole_at_up,omitempty"` // once this many bytes went upstream, stop copying (both directions) for HoleMs
	HoleMs   int `json:"hole_ms,omitempty"`
	RefuseMs int `json:"refuse_ms,omitempty"` // after this connection was cut, refuse new connections for this long
}

// ConnStat describes one accepted connection.
type ConnStat struct {
	Index   int
	Up      int64 // bytes forwarded client → target
	Down    int64 // bytes forwarded target → client
	Opened  time.Time
	Closed  time.Time // zero while open
	CutBy   string    // "", "up", "down", "now", "refused", "dial"
	CutAt   time.Time
	Planned bool // a plan entry was attached to this connection
}

type proxyConn struct {
	p         *FaultProxy
	idx       int
	client    net.Conn
	target    net.Conn
	mu        sync.Mutex
	plan      ConnPlan
	planned   bool
	up, down  int64
	holeUntil time.Time
	holeDone  bool
	opened    time.Time
	closedAt  time.Time
	cutBy     string
	cutAt     time.Time
	once      sync.Once
}

// FaultProxy see the package comment of this file.
type FaultProxy struct {
	ln     net.Listener
	target string

	mu          sync.Mutex
	plan        []ConnPlan
	conns       []*proxyConn
	refuseUntil time.Time
	closed      bool
	wg          sync.WaitGroup
}

// NewFaultProxy listens on a fresh loopback port and forwards to target.
func NewFaultProxy(target string) (*FaultProxy, error) {
	ln, err := net.Listen("tcp", "127.0.0.1:0")
	if err != nil {
		return nil, err
	}
	p := &FaultProxy{ln: ln, target: target}
	p.wg.Add(1)
	go p.acceptLoop()
	return p, nil
}

// Addr is the address clients dial.
func (p *FaultProxy) Addr() string { return p.ln.Addr().String() }

// SetPlan replaces the not yet consumed part of the plan.
func (p *FaultProxy) SetPlan(plan []ConnPlan) {
	p.mu.Lock()
	p.plan = append([]ConnPlan(nil), plan...)
	p.mu.Unlock()
}

// Disarm drops the rest of the plan, removes the armed faults of the open connections and
// ends any refusal window: from now on the proxy only passes traffic.
func (p *FaultProxy) Disarm() {
	p.mu.Lock()
	p.plan = nil
	p.refuseUntil = time.Time{}
	conns := append([]*proxyConn(nil), p.conns...)
	p.mu.Unlock()
	for _, c := range conns {
		c.mu.Lock()
		c.plan = ConnPlan{}
		c.holeUntil = time.Time{}
		c.mu.Unlock()
	}
}

// Refuse makes the proxy refuse (accept and immediately reset) new connections for d.
func (p *FaultProxy) Refuse(d time.Duration) {
	p.mu.Lock()
	if u := time.Now().Add(d); u.After(p.refuseUntil) {
		p.refuseUntil = u
	}
	p.mu.Unlock()
}

// CutNow closes both sockets of every open connection; it returns how many were open.
func (p *FaultProxy) CutNow() int {
	p.mu.Lock()
	conns := append([]*proxyConn(nil), p.conns...)
	p.mu.Unlock()
	n := 0
	for _, c := range conns {
		if c.cut("now") {
			n++
		}
	}
	return n
}

// Hole stops copying on every open connection (sockets stay open) for d.
func (p *FaultProxy) Hole(d time.Duration) {
	p.mu.Lock()
	conns := append([]*proxyConn(nil), p.conns...)
	p.mu.Unlock()
	until := time.Now().Add(d)
	for _, c := range conns {
		c.mu.Lock()
		if until.After(c.holeUntil) {
			c.holeUntil = until
		}
		c.mu.Unlock()
	}
}

// Passing reports whether the proxy forwards traffic right now: no refusal window and no black
// hole in effect. (Armed cuts and unconsumed plan entries do not count: until they fire the
// traffic passes, and their firing is visible in Stats.)
func (p *FaultProxy) Passing() bool {
	now := time.Now()
	p.mu.Lock()
	defer p.mu.Unlock()
	if now.Before(p.refuseUntil) {
		return false
	}
	for _, c := range p.conns {
		c.mu.Lock()
		holed := c.closedAt.IsZero() && now.Before(c.holeUntil)
		c.mu.Unlock()
		if holed {
			return false
		}
	}
	return true
}

// Stats returns a snapshot of all connections accepted so far.
func (p *FaultProxy) Stats() []ConnStat {
	p.mu.Lock()
	conns := append([]*proxyConn(nil), p.conns...)
	p.mu.Unlock()
	out := make([]ConnStat, len(conns))
	for i, c := range conns {
		c.mu.Lock()
		out[i] = ConnStat{Index: c.idx, Up: c.up, Down: c.down, Opened: c.opened, Closed: c.closedAt, CutBy: c.cutBy, CutAt: c.cutAt, Planned: c.planned}
		c.mu.Unlock()
	}
	return out
}

// Totals returns the number of accepted connections and the bytes forwarded in both directions.
func (p *FaultProxy) Totals() (conns int, bytes int64) {
	for _, s := range p.Stats() {
		conns++
		bytes += s.Up + s.Down
	}
	return
}

// Close stops the proxy and closes every connection.
func (p *FaultProxy) Close() {
	p.mu.Lock()
	if p.closed {
		p.mu.Unlock()
		return
	}
	p.closed = true
	conns := append([]*proxyConn(nil), p.conns...)
	p.mu.Unlock()
	_ = p.ln.Close()
	for _, c := range conns {
		c.cut("close")
	}
	p.wg.Wait()
}

func (p *FaultProxy) acceptLoop() {
	defer p.wg.Done()
	for {
		cl, err := p.ln.Accept()
		if err != nil {
			return
		}
		c := &proxyConn{p: p, client: cl, opened: time.Now()}
		p.mu.Lock()
		c.idx = len(p.conns)
		refused := time.Now().Before(p.refuseUntil)
		if !refused && len(p.plan) > 0 {
			c.plan, c.planned = p.plan[0], true
			p.plan = p.plan[1:]
		}
		p.conns = append(p.conns, c)
		closed := p.closed
		p.mu.Unlock()
		if closed {
			c.cut("close")
			return
		}
		if refused {
			if tc, ok := cl.(*net.TCPConn); ok {
				_ = tc.SetLinger(0)
			}
			c.cut("refused")
			continue
		}
		tg, err := net.DialTimeout("tcp", p.target, 5*time.Second)
		if err != nil {
			c.cut("dial")
			continue
		}
		c.mu.Lock()
		c.target = tg
		dead := !c.closedAt.IsZero()
		c.mu.Unlock()
		if dead {
			_ = tg.Close()
			continue
		}
		p.wg.Add(2)
		go c.pipe(true)
		go c.pipe(false)
	}
}

// cut closes both sockets once; it reports whether this call did it.
func (c *proxyConn) cut(by string) (did bool) {
	c.once.Do(func() {
		did = true
		c.mu.Lock()
		c.cutBy, c.cutAt, c.closedAt = by, time.Now(), time.Now()
		refuse := c.plan.RefuseMs
		tg := c.target
		c.mu.Unlock()
		if refuse > 0 && (by == "up" || by == "down") {
			c.p.Refuse(time.Duration(refuse) * time.Millisecond)
		}
		_ = c.client.Close()
		if tg != nil {
			_ = tg.Close()
		}
	})
	return did
}

func (c *proxyConn) pipe(up bool) {
	defer c.p.wg.Done()
	src, dst := c.client, c.target
	if !up {
		src, dst = c.target, c.client
	}
	buf := make([]byte, 16*1024)
	for {
		n, err := src.Read(buf)
		if n > 0 {
			if !c.forward(up, dst, buf[:n]) {
				return
			}
		}
		if err != nil {
			c.cut("peer")
			return
		}
	}
}

// forward writes b to dst honouring the armed faults; false = the connection is gone.
func (c *proxyConn) forward(up bool, dst net.Conn, b []byte) bool {
	for len(b) > 0 {
		// black hole: hold the data back while the hole lasts
		for {
			c.mu.Lock()
			if up && c.plan.HoleMs > 0 && !c.holeDone && c.up >= int64(c.plan.HoleAtUp) {
				c.holeDone = true
				c.holeUntil = time.Now().Add(time.Duration(c.plan.HoleMs) * time.Millisecond)
			}
			wait := time.Until(c.holeUntil)
			dead := !c.closedAt.IsZero()
			c.mu.Unlock()
			if dead {
				return false
			}
			if wait <= 0 {
				break
			}
			if wait > 5*time.Millisecond {
				wait = 5 * time.Millisecond
			}
			time.Sleep(wait)
		}
		c.mu.Lock()
		limit, count := int64(c.plan.CutDown), c.down
		if up {
			limit, count = int64(c.plan.CutUp), c.up
		}
		chunk := b
		// stop at the hole position so that the hole starts exactly there
		if up && c.plan.HoleMs > 0 && !c.holeDone && count < int64(c.plan.HoleAtUp) && count+int64(len(chunk)) > int64(c.plan.HoleAtUp) {
			chunk = chunk[:int64(c.plan.HoleAtUp)-count]
		}
		cutAfter := false
		if limit > 0 {
			if count >= limit {
				c.mu.Unlock()
				c.cut(dirName(up))
				return false
			}
			if count+int64(len(chunk)) >= limit {
				chunk = chunk[:limit-count]
				cutAfter = true
			}
		}
		c.mu.Unlock()
		_ = dst.SetWriteDeadline(time.Now().Add(10 * time.Second))
		n, err := dst.Write(chunk)
		c.mu.Lock()
		if up {
			c.up += int64(n)
		} else {
			c.down += int64(n)
		}
		c.mu.Unlock()
		if err != nil {
			c.cut("peer")
			return false
		}
		if cutAfter {
			c.cut(dirName(up))
			return false
		}
		b = b[len(chunk):]
	}
	return true
}

func dirName(up bool) string {
	if up {
		return "up"
	}
	return "down"
}

// String renders a connection statistic.
func (s ConnStat) String() string {
	st := "open"
	if !s.Closed.IsZero() {
		st = "closed by " + s.CutBy
	}
	return fmt.Sprintf("conn%d up=%d down=%d %s", s.Index, s.Up, s.Down, st)
}
