package mqttwire

import (
	"bytes"
	"fmt"
	"strings"
)

func eqPtr[T comparable](a, b *T) bool {
	if a == nil || b == nil {
		return a == nil && b == nil
	}
	return *a == *b
}

func eqBin(ha bool, a []byte, hb bool, b []byte) bool {
	if ha != hb {
		return false
	}
	return !ha || bytes.Equal(a, b)
}

// EqualProps compares two property sets semantically: nil equals empty, nil
// and empty slices are equal, pointers are compared by value. The order of
// User Properties and of Subscription Identifiers is significant.
func EqualProps(a, b *Props) bool {
	if a.IsEmpty() || b.IsEmpty() {
		return a.IsEmpty() && b.IsEmpty()
	}
	if len(a.SubscriptionIDs) != len(b.SubscriptionIDs) || len(a.User) != len(b.User) {
		return false
	}
	for i := range a.SubscriptionIDs {
		if a.SubscriptionIDs[i] != b.SubscriptionIDs[i] {
			return false
		}
	}
	for i := range a.User {
		if a.User[i] != b.User[i] {
			return false
		}
	}
	return eqPtr(a.PayloadFormat, b.PayloadFormat) &&
		eqPtr(a.MessageExpiry, b.MessageExpiry) &&
		eqPtr(a.ContentType, b.ContentType) &&
		eqPtr(a.ResponseTopic, b.ResponseTopic) &&
		eqBin(a.HasCorrelationData, a.CorrelationData, b.HasCorrelationData, b.CorrelationData) &&
		eqPtr(a.SessionExpiry, b.SessionExpiry) &&
		eqPtr(a.AssignedClientID, b.AssignedClientID) &&
		eqPtr(a.ServerKeepAlive, b.ServerKeepAlive) &&
		eqPtr(a.AuthMethod, b.AuthMethod) &&
		eqBin(a.HasAuthData, a.AuthData, b.HasAuthData, b.AuthData) &&
		eqPtr(a.RequestProblemInfo, b.RequestProblemInfo) &&
		eqPtr(a.WillDelay, b.WillDelay) &&
		eqPtr(a.RequestResponseInfo, b.RequestResponseInfo) &&
		eqPtr(a.ResponseInfo, b.ResponseInfo) &&
		eqPtr(a.ServerReference, b.ServerReference) &&
		eqPtr(a.ReasonString, b.ReasonString) &&
		eqPtr(a.ReceiveMax, b.ReceiveMax) &&
		eqPtr(a.TopicAliasMax, b.TopicAliasMax) &&
		eqPtr(a.TopicAlias, b.TopicAlias) &&
		eqPtr(a.MaximumQoS, b.MaximumQoS) &&
		eqPtr(a.RetainAvailable, b.RetainAvailable) &&
		eqPtr(a.MaxPacketSize, b.MaxPacketSize) &&
		eqPtr(a.WildcardSubAvailable, b.WildcardSubAvailable) &&
		eqPtr(a.SubIDAvailable, b.SubIDAvailable) &&
		eqPtr(a.SharedSubAvailable, b.SharedSubAvailable)
}

func equalWill(a, b *Will) bool {
	if a == nil || b == nil {
		return a == nil && b == nil
	}
	return a.QoS == b.QoS && a.Retain == b.Retain && a.Topic == b.Topic &&
		bytes.Equal(a.Payload, b.Payload) && EqualProps(a.Props, b.Props)
}

// Equal compares two packets semantically: it ignores Raw; nil and empty
// slices are equal; nil Props equals empty Props. All other fields are
// compared, whatever the Type (so fields that are not meaningful for the Type
// should be left zero). Username / Password are only compared when their Has
// flag is set.
func Equal(a, b *Packet) bool {
	if a == nil || b == nil {
		return a == nil && b == nil
	}
	if a.Type != b.Type ||
		a.ProtoName != b.ProtoName || a.ProtoLevel != b.ProtoLevel ||
		a.CleanStart != b.CleanStart || a.KeepAlive != b.KeepAlive || a.ClientID != b.ClientID ||
		a.HasUsername != b.HasUsername || a.HasPassword != b.HasPassword ||
		a.SessionPresent != b.SessionPresent || a.ReasonCode != b.ReasonCode ||
		a.Dup != b.Dup || a.QoS != b.QoS || a.Retain != b.Retain || a.Topic != b.Topic ||
		a.PacketID != b.PacketID {
		return false
	}
	if a.HasUsername && a.Username != b.Username {
		return false
	}
	if a.HasPassword && !bytes.Equal(a.Password, b.Password) {
		return false
	}
	if !equalWill(a.Will, b.Will) || !bytes.Equal(a.Payload, b.Payload) ||
		!bytes.Equal(a.ReasonCodes, b.ReasonCodes) || !EqualProps(a.Props, b.Props) {
		return false
	}
	if len(a.Subs) != len(b.Subs) || len(a.Filters) != len(b.Filters) {
		return false
	}
	for i := range a.Subs {
		if a.Subs[i] != b.Subs[i] {
			return false
		}
	}
	for i := range a.Filters {
		if a.Filters[i] != b.Filters[i] {
			return false
		}
	}
	return true
}

// ---------------------------------------------------------------------------
// Rendering

func qstr(s string) string {
	if len(s) > 48 {
		return fmt.Sprintf("%q...(%dB)", s[:40], len(s))
	}
	return fmt.Sprintf("%q", s)
}

func qbin(b []byte) string {
	if len(b) > 16 {
		return fmt.Sprintf("%x...(%dB)", b[:12], len(b))
	}
	return fmt.Sprintf("%x(%dB)", b, len(b))
}

// String renders the present properties as "{Name=value ...}"; "{}" if none.
func (p *Props) String() string {
	if p.IsEmpty() {
		return "{}"
	}
	var sb strings.Builder
	sb.WriteByte('{')
	first := true
	w := func(format string, a ...any) {
		if !first {
			sb.WriteByte(' ')
		}
		first = false
		fmt.Fprintf(&sb, format, a...)
	}
	num := func(id PropID, v any) { w("%s=%d", id, v) }
	if p.PayloadFormat != nil {
		num(PropPayloadFormat, *p.PayloadFormat)
	}
	if p.MessageExpiry != nil {
		num(PropMessageExpiry, *p.MessageExpiry)
	}
	if p.ContentType != nil {
		w("%s=%s", PropContentType, qstr(*p.ContentType))
	}
	if p.ResponseTopic != nil {
		w("%s=%s", PropResponseTopic, qstr(*p.ResponseTopic))
	}
	if p.HasCorrelationData {
		w("%s=%s", PropCorrelationData, qbin(p.CorrelationData))
	}
	if len(p.SubscriptionIDs) > 0 {
		w("%s=%v", PropSubscriptionID, p.SubscriptionIDs)
	}
	if p.SessionExpiry != nil {
		num(PropSessionExpiry, *p.SessionExpiry)
	}
	if p.AssignedClientID != nil {
		w("%s=%s", PropAssignedClientID, qstr(*p.AssignedClientID))
	}
	if p.ServerKeepAlive != nil {
		num(PropServerKeepAlive, *p.ServerKeepAlive)
	}
	if p.AuthMethod != nil {
		w("%s=%s", PropAuthMethod, qstr(*p.AuthMethod))
	}
	if p.HasAuthData {
		w("%s=%s", PropAuthData, qbin(p.AuthData))
	}
	if p.RequestProblemInfo != nil {
		num(PropRequestProblemInfo, *p.RequestProblemInfo)
	}
	if p.WillDelay != nil {
		num(PropWillDelay, *p.WillDelay)
	}
	if p.RequestResponseInfo != nil {
		num(PropRequestResponseInfo, *p.RequestResponseInfo)
	}
	if p.ResponseInfo != nil {
		w("%s=%s", PropResponseInfo, qstr(*p.ResponseInfo))
	}
	if p.ServerReference != nil {
		w("%s=%s", PropServerReference, qstr(*p.ServerReference))
	}
	if p.ReasonString != nil {
		w("%s=%s", PropReasonString, qstr(*p.ReasonString))
	}
	if p.ReceiveMax != nil {
		num(PropReceiveMax, *p.ReceiveMax)
	}
	if p.TopicAliasMax != nil {
		num(PropTopicAliasMax, *p.TopicAliasMax)
	}
	if p.TopicAlias != nil {
		num(PropTopicAlias, *p.TopicAlias)
	}
	if p.MaximumQoS != nil {
		num(PropMaximumQoS, *p.MaximumQoS)
	}
	if p.RetainAvailable != nil {
		num(PropRetainAvailable, *p.RetainAvailable)
	}
	if p.MaxPacketSize != nil {
		num(PropMaxPacketSize, *p.MaxPacketSize)
	}
	if p.WildcardSubAvailable != nil {
		num(PropWildcardSubAvailable, *p.WildcardSubAvailable)
	}
	if p.SubIDAvailable != nil {
		num(PropSubIDAvailable, *p.SubIDAvailable)
	}
	if p.SharedSubAvailable != nil {
		num(PropSharedSubAvailable, *p.SharedSubAvailable)
	}
	for _, u := range p.User {
		w("User[%s]=%s", qstr(u.K), qstr(u.V))
	}
	sb.WriteByte('}')
	return sb.String()
}

// String is a compact one-line rendering for logs, e.g.
//
//	PUBLISH{id=3 qos=1 dup=0 retain=1 topic="a/b" payload=12B props={...}}
//
// Fields that only exist in MQTT 5 are shown when they are non-zero.
func (p *Packet) String() string {
	if p == nil {
		return "<nil packet>"
	}
	var sb strings.Builder
	sb.WriteString(p.Type.String())
	sb.WriteByte('{')
	first := true
	w := func(format string, a ...any) {
		if !first {
			sb.WriteByte(' ')
		}
		first = false
		fmt.Fprintf(&sb, format, a...)
	}
	props := func() {
		if !p.Props.IsEmpty() {
			w("props=%s", p.Props)
		}
	}
	rc := func() {
		if p.ReasonCode != 0 {
			w("rc=0x%02x", p.ReasonCode)
		}
	}
	switch p.Type {
	case CONNECT:
		w("proto=%q/%d clean=%d keepalive=%d client=%s", p.ProtoName, p.ProtoLevel, b2i(p.CleanStart), p.KeepAlive, qstr(p.ClientID))
		if p.HasUsername {
			w("user=%s", qstr(p.Username))
		}
		if p.HasPassword {
			w("pass=%dB", len(p.Password))
		}
		if wl := p.Will; wl != nil {
			w("will={qos=%d retain=%d topic=%s payload=%dB", wl.QoS, b2i(wl.Retain), qstr(wl.Topic), len(wl.Payload))
			if !wl.Props.IsEmpty() {
				fmt.Fprintf(&sb, " props=%s", wl.Props)
			}
			sb.WriteByte('}')
		}
		props()
	case CONNACK:
		w("sp=%d rc=0x%02x", b2i(p.SessionPresent), p.ReasonCode)
		props()
	case PUBLISH:
		if p.QoS > 0 {
			w("id=%d", p.PacketID)
		}
		w("qos=%d dup=%d retain=%d topic=%s payload=%dB", p.QoS, b2i(p.Dup), b2i(p.Retain), qstr(p.Topic), len(p.Payload))
		props()
	case PUBACK, PUBREC, PUBREL, PUBCOMP:
		w("id=%d", p.PacketID)
		if p.Dup {
			w("dup=1")
		}
		rc()
		props()
	case SUBSCRIBE:
		w("id=%d", p.PacketID)
		if p.Dup {
			w("dup=1")
		}
		for _, s := range p.Subs {
			w("%s:q%d", qstr(s.Filter), s.QoS)
			if s.NoLocal {
				sb.WriteString(",nl")
			}
			if s.RAP {
				sb.WriteString(",rap")
			}
			if s.RH != 0 {
				fmt.Fprintf(&sb, ",rh%d", s.RH)
			}
		}
		props()
	case SUBACK, UNSUBACK:
		w("id=%d", p.PacketID)
		if len(p.ReasonCodes) > 0 {
			w("codes=%x", p.ReasonCodes)
		}
		props()
	case UNSUBSCRIBE:
		w("id=%d", p.PacketID)
		if p.Dup {
			w("dup=1")
		}
		for _, f := range p.Filters {
			w("%s", qstr(f))
		}
		props()
	case DISCONNECT, AUTH:
		rc()
		props()
	}
	sb.WriteByte('}')
	return sb.String()
}
