package mqttwire

import (
	"bufio"
	"bytes"
	"encoding/hex"
	"errors"
	"flag"
	"fmt"
	"io"
	"math/rand"
	"os"
	"runtime"
	"strings"
	"testing"

	"pgregory.net/rapid"
)

var allVersions = []Version{V31, V311, V5}
var allDirs = []Direction{ToServer, ToClient, AnyDir}

func unhex(t testing.TB, s string) []byte {
	t.Helper()
	s = strings.NewReplacer(" ", "", "\n", "", "\t", "").Replace(s)
	b, err := hex.DecodeString(s)
	if err != nil {
		t.Fatalf("bad hex %q: %v", s, err)
	}
	return b
}

func pv[T any](v T) *T { return &v }

// decVersion is the version to use to re-encode a decoded packet.
func decVersion(p *Packet, v Version) Version {
	if p.Type == CONNECT {
		return p.Version()
	}
	return v
}

// The properties are cheap, so run more cases than rapid's default of 100
// unless the caller chose a number.
func TestMain(m *testing.M) {
	flag.Parse()
	set := false
	flag.Visit(func(f *flag.Flag) { set = set || f.Name == "rapid.checks" })
	if !set {
		flag.Set("rapid.checks", "400")
	}
	os.Exit(m.Run())
}

// ---------------------------------------------------------------------------
// (1) round trip

func checkRoundTrip(t *rapid.T, p *Packet, v Version, d Direction) []byte {
	enc, err := Encode(p, v)
	if err != nil {
		t.Fatalf("Encode(%v): %v", p, err)
	}
	got, n, err := Decode(enc, v, d)
	if err != nil {
		t.Fatalf("Decode(Encode(%v)) = %v\nbytes: %x", p, err, enc)
	}
	if n != len(enc) {
		t.Fatalf("consumed %d of %d bytes for %v", n, len(enc), p)
	}
	if !Equal(p, got) {
		t.Fatalf("round trip mismatch:\n in:  %v\n out: %v\n bytes: %x", p, got, enc)
	}
	if !bytes.Equal(got.Raw, enc) {
		t.Fatalf("Raw mismatch")
	}
	// canonical: encoding the decoded packet gives the same bytes
	enc2, err := Encode(got, v)
	if err != nil || !bytes.Equal(enc, enc2) {
		t.Fatalf("re-encode differs (%v):\n %x\n %x", err, enc, enc2)
	}
	// trailing garbage after the packet is not consumed
	got2, n2, err := Decode(append(append([]byte{}, enc...), 0xff, 0x00, 0x37), v, d)
	if err != nil || n2 != len(enc) || !Equal(got2, p) {
		t.Fatalf("Decode with following bytes: n=%d err=%v", n2, err)
	}
	return enc
}

func TestRoundTrip(t *testing.T) {
	for _, v := range allVersions {
		for _, d := range allDirs {
			v, d := v, d
			t.Run(fmt.Sprintf("v%s/%s", v, d), func(t *testing.T) {
				seen := map[Type]int{}
				rapid.Check(t, func(t *rapid.T) {
					p := GenPacket(v, d).Draw(t, "p")
					seen[p.Type]++
					enc := checkRoundTrip(t, p, v, d)
					// a packet valid in a specific direction is valid in AnyDir
					if _, _, err := Decode(enc, v, AnyDir); err != nil {
						t.Fatalf("AnyDir rejects what %s accepts: %v", d, err)
					}
					if s := p.String(); !strings.HasPrefix(s, p.Type.String()+"{") {
						t.Fatalf("String() = %q", s)
					}
				})
				for _, ty := range LegalTypes(v, d) {
					if seen[ty] == 0 {
						t.Errorf("generator never produced %s", ty)
					}
				}
			})
		}
	}
}

// Every type individually, so that rare types get their full share of runs
// and all-properties packets are certain to be exercised.
func TestRoundTripPerType(t *testing.T) {
	for _, v := range allVersions {
		for _, ty := range LegalTypes(v, AnyDir) {
			for _, d := range []Direction{ToServer, ToClient} {
				if !legalIn(ty, v, d) {
					continue
				}
				v, ty, d := v, ty, d
				t.Run(fmt.Sprintf("v%s/%s/%s", v, ty, d), func(t *testing.T) {
					rapid.Check(t, func(t *rapid.T) {
						p := GenPacketOf(ty, v, d).Draw(t, "p")
						checkRoundTrip(t, p, v, d)
					})
				})
			}
		}
	}
}

func TestGeneratedPacketsAreSemanticallyValid(t *testing.T) {
	rapid.Check(t, func(t *rapid.T) {
		v := rapid.SampledFrom(allVersions).Draw(t, "v")
		d := rapid.SampledFrom(allDirs).Draw(t, "d")
		p := GenPacket(v, d).Draw(t, "p")
		if !ValidReasonCode(p.Type, v, p.ReasonCode) {
			t.Fatalf("invalid reason code: %v", p)
		}
		for _, c := range p.ReasonCodes {
			if !ValidReasonCode(p.Type, v, c) {
				t.Fatalf("invalid reason code 0x%02x: %v", c, p)
			}
		}
		if p.Type == PUBLISH && !ValidTopicName(p.Topic) {
			t.Fatalf("invalid topic: %v", p)
		}
		if p.Will != nil && !ValidTopicName(p.Will.Topic) {
			t.Fatalf("invalid will topic: %v", p)
		}
		for _, s := range p.Subs {
			if !ValidTopicFilter(s.Filter) {
				t.Fatalf("invalid filter %q", s.Filter)
			}
		}
		for _, f := range p.Filters {
			if !ValidTopicFilter(f) {
				t.Fatalf("invalid filter %q", f)
			}
		}
		if v != V5 && p.Props != nil {
			t.Fatalf("props in v3 packet: %v", p)
		}
		if v == V5 {
			allowed := setOf(AllowedProps(p.Type, d)...)
			for _, id := range p.Props.Present() {
				if !allowed.has(id) {
					t.Fatalf("property %s not allowed in %s %s", id, p.Type, d)
				}
			}
		}
	})
}

func TestGenProps(t *testing.T) {
	seen := map[PropID]bool{}
	rapid.Check(t, func(t *rapid.T) {
		p := GenProps().Draw(t, "props")
		for _, id := range p.Present() {
			seen[id] = true
		}
		enc, err := appendProps(nil, p)
		if err != nil {
			t.Fatal(err)
		}
		n := PropsLen(p, 0)
		if len(enc) != VarIntLen(uint32(n))+n {
			t.Fatalf("PropsLen=%d but encoded section is %d bytes", n, len(enc))
		}
		c := &cursor{b: enc}
		got, err := c.props(allDefinedProps, true, "props")
		if err != nil || c.left() != 0 {
			t.Fatalf("decode props: %v (left %d)", err, c.left())
		}
		if !EqualProps(p, got) {
			t.Fatalf("props mismatch:\n in:  %v\n out: %v", p, got)
		}
		// restricted generator stays within its set
		q := GenProps(PropReasonString, PropUser).Draw(t, "ackProps")
		for _, id := range q.Present() {
			if id != PropReasonString && id != PropUser {
				t.Fatalf("GenProps(ReasonString, User) produced %s", id)
			}
		}
	})
	for _, id := range AllPropIDs {
		if !seen[id] {
			t.Errorf("GenProps never produced %s", id)
		}
	}
}

func TestGenStrings(t *testing.T) {
	var long, multi bool
	rapid.Check(t, func(t *rapid.T) {
		s := GenUTF8String().Draw(t, "s")
		if c := ClassifyUTF8([]byte(s)); c != UTF8Must {
			t.Fatalf("GenUTF8String produced %v string %q", c, s)
		}
		if len(s) > 65535 {
			t.Fatalf("too long")
		}
		long = long || len(s) > 127
		multi = multi || len(s) != len([]rune(s))
		m := GenUTF8MayString().Draw(t, "may")
		if c := ClassifyUTF8([]byte(m)); c != UTF8May {
			t.Fatalf("GenUTF8MayString produced %v string %q", c, m)
		}
		if n := GenTopicName().Draw(t, "topic"); !ValidTopicName(n) || strings.HasPrefix(n, "$") {
			t.Fatalf("bad topic name %q", n)
		}
		if f := GenTopicFilter().Draw(t, "filter"); !ValidTopicFilter(f) {
			t.Fatalf("bad topic filter %q", f)
		}
		if f := GenSharedFilter().Draw(t, "shared"); !ValidTopicFilter(f) || !strings.HasPrefix(f, "$share/") {
			t.Fatalf("bad shared filter %q", f)
		}
	})
	if !long || !multi {
		t.Errorf("GenUTF8String coverage: long=%v multibyte=%v", long, multi)
	}
}

// ---------------------------------------------------------------------------
// (2) golden vectors, typed by hand from the specifications

type golden struct {
	name string
	v    Version
	d    Direction
	hex  string
	p    *Packet
}

var goldens = []golden{
	{"connect-311-minimal", V311, ToServer,
		"10 0f 00 04 4d 51 54 54 04 02 00 3c 00 03 61 62 63",
		&Packet{Type: CONNECT, ProtoName: "MQTT", ProtoLevel: 4, CleanStart: true, KeepAlive: 60, ClientID: "abc"}},
	{"connect-311-full", V311, ToServer,
		// flags: user 0x80 | pass 0x40 | will retain 0x20 | will qos 1 0x08 | will 0x04 | clean 0x02 = 0xee
		"10 1e 00 04 4d 51 54 54 04 ee 00 0a" +
			"00 01 63" + "00 03 77 2f 74" + "00 03 62 79 65" + "00 01 75" + "00 02 70 77",
		&Packet{Type: CONNECT, ProtoName: "MQTT", ProtoLevel: 4, CleanStart: true, KeepAlive: 10, ClientID: "c",
			HasUsername: true, Username: "u", HasPassword: true, Password: []byte("pw"),
			Will: &Will{QoS: 1, Retain: true, Topic: "w/t", Payload: []byte("bye")}}},
	{"connect-31", V31, ToServer,
		"10 11 00 06 4d 51 49 73 64 70 03 02 00 3c 00 03 61 62 63",
		&Packet{Type: CONNECT, ProtoName: "MQIsdp", ProtoLevel: 3, CleanStart: true, KeepAlive: 60, ClientID: "abc"}},
	{"connect-5-minimal", V5, ToServer,
		"10 10 00 04 4d 51 54 54 05 02 00 3c 00 00 03 61 62 63",
		&Packet{Type: CONNECT, ProtoName: "MQTT", ProtoLevel: 5, CleanStart: true, KeepAlive: 60, ClientID: "abc"}},
	{"connect-5-props-will", V5, ToServer,
		// spec figure 3-6 style: session expiry 10; plus a will with will delay 5; password without user name
		// flags: pass 0x40 | will 0x04 | will qos 2 0x10 = 0x54
		"10 23 00 04 4d 51 54 54 05 54 00 00" + "05 11 00 00 00 0a" +
			"00 01 63" + "05 18 00 00 00 05" + "00 01 77" + "00 02 01 02" + "00 01 ff",
		&Packet{Type: CONNECT, ProtoName: "MQTT", ProtoLevel: 5, ClientID: "c",
			HasPassword: true, Password: []byte{0xff},
			Props: &Props{SessionExpiry: pv(uint32(10))},
			Will:  &Will{QoS: 2, Topic: "w", Payload: []byte{1, 2}, Props: &Props{WillDelay: pv(uint32(5))}}}},
	{"connack-311", V311, ToClient, "20 02 01 00", &Packet{Type: CONNACK, SessionPresent: true}},
	{"connack-311-refused", V311, ToClient, "20 02 00 05", &Packet{Type: CONNACK, ReasonCode: 5}},
	{"connack-5-props", V5, ToClient,
		"20 19 01 00 16" + "11 00 00 00 0a" + "12 00 02 69 64" + "21 00 14" + "24 01" + "26 00 01 6b 00 01 76",
		&Packet{Type: CONNACK, SessionPresent: true, Props: &Props{
			SessionExpiry: pv(uint32(10)), AssignedClientID: pv("id"), ReceiveMax: pv(uint16(20)),
			MaximumQoS: pv(byte(1)), User: []UserProp{{"k", "v"}}}}},
	{"connack-5-noprops", V5, ToClient, "20 03 00 87 00", &Packet{Type: CONNACK, ReasonCode: 0x87}},
	{"publish-311-qos1", V311, AnyDir,
		"32 09 00 03 61 2f 62 00 0a 68 69",
		&Packet{Type: PUBLISH, QoS: 1, Topic: "a/b", PacketID: 10, Payload: []byte("hi")}},
	{"publish-311-qos2-dup-retain-empty", V311, AnyDir,
		"3d 07 00 03 61 2f 62 01 00",
		&Packet{Type: PUBLISH, QoS: 2, Dup: true, Retain: true, Topic: "a/b", PacketID: 256}},
	{"publish-31-qos0", V31, AnyDir,
		"30 04 00 01 74 78",
		&Packet{Type: PUBLISH, Topic: "t", Payload: []byte("x")}},
	{"publish-5-subids", V5, ToClient,
		"30 0a 00 01 74 05 0b 01 0b 80 01 78",
		&Packet{Type: PUBLISH, Topic: "t", Payload: []byte("x"), Props: &Props{SubscriptionIDs: []uint32{1, 128}}}},
	{"publish-5-qos1-props", V5, ToServer,
		"32 1b 00 01 74 00 01 13" + "01 01" + "02 00 00 00 3c" + "08 00 01 72" + "09 00 02 aa bb" + "23 00 07" + "68 69",
		&Packet{Type: PUBLISH, QoS: 1, Topic: "t", PacketID: 1, Payload: []byte("hi"), Props: &Props{
			PayloadFormat: pv(byte(1)), MessageExpiry: pv(uint32(60)), ResponseTopic: pv("r"),
			CorrelationData: []byte{0xaa, 0xbb}, HasCorrelationData: true, TopicAlias: pv(uint16(7))}}},
	{"puback-311", V311, AnyDir, "40 02 00 0a", &Packet{Type: PUBACK, PacketID: 10}},
	{"puback-5-short", V5, AnyDir, "40 02 00 0a", &Packet{Type: PUBACK, PacketID: 10}},
	{"puback-5-rc", V5, AnyDir, "40 03 00 0a 10", &Packet{Type: PUBACK, PacketID: 10, ReasonCode: 0x10}},
	{"pubrec-5-props", V5, AnyDir, "50 09 00 0a 80 05 1f 00 02 6e 6f",
		&Packet{Type: PUBREC, PacketID: 10, ReasonCode: 0x80, Props: &Props{ReasonString: pv("no")}}},
	{"pubrel-311", V311, AnyDir, "62 02 00 0a", &Packet{Type: PUBREL, PacketID: 10}},
	{"pubrel-5-rc", V5, AnyDir, "62 03 00 0a 92", &Packet{Type: PUBREL, PacketID: 10, ReasonCode: 0x92}},
	{"pubcomp-311", V311, AnyDir, "70 02 ff ff", &Packet{Type: PUBCOMP, PacketID: 65535}},
	{"subscribe-311", V311, ToServer,
		"82 0e 00 0a 00 03 61 2f 62 01 00 03 63 2f 64 02",
		&Packet{Type: SUBSCRIBE, PacketID: 10, Subs: []SubReq{{Filter: "a/b", QoS: 1}, {Filter: "c/d", QoS: 2}}}},
	{"subscribe-5", V5, ToServer,
		// options: RH 2 (0x20) | RAP (0x08) | NL (0x04) | QoS 1 = 0x2d
		"82 0b 00 0a 02 0b 07 00 03 61 2f 23 2d",
		&Packet{Type: SUBSCRIBE, PacketID: 10, Props: &Props{SubscriptionIDs: []uint32{7}},
			Subs: []SubReq{{Filter: "a/#", QoS: 1, NoLocal: true, RAP: true, RH: 2}}}},
	{"suback-311", V311, ToClient, "90 05 00 0a 00 02 80", &Packet{Type: SUBACK, PacketID: 10, ReasonCodes: []byte{0, 2, 0x80}}},
	{"suback-5", V5, ToClient, "90 05 00 0a 00 01 87", &Packet{Type: SUBACK, PacketID: 10, ReasonCodes: []byte{1, 0x87}}},
	{"unsubscribe-311", V311, ToServer, "a2 07 00 0a 00 03 61 2f 62", &Packet{Type: UNSUBSCRIBE, PacketID: 10, Filters: []string{"a/b"}}},
	{"unsubscribe-5", V5, ToServer, "a2 0f 00 0a 07 26 00 01 6b 00 01 76 00 03 61 2f 62",
		&Packet{Type: UNSUBSCRIBE, PacketID: 10, Filters: []string{"a/b"}, Props: &Props{User: []UserProp{{"k", "v"}}}}},
	{"unsuback-311", V311, ToClient, "b0 02 00 0a", &Packet{Type: UNSUBACK, PacketID: 10}},
	{"unsuback-5", V5, ToClient, "b0 05 00 0a 00 00 11", &Packet{Type: UNSUBACK, PacketID: 10, ReasonCodes: []byte{0, 0x11}}},
	{"pingreq", V311, ToServer, "c0 00", &Packet{Type: PINGREQ}},
	{"pingresp", V5, ToClient, "d0 00", &Packet{Type: PINGRESP}},
	{"disconnect-311", V311, ToServer, "e0 00", &Packet{Type: DISCONNECT}},
	{"disconnect-5-short", V5, AnyDir, "e0 00", &Packet{Type: DISCONNECT}},
	{"disconnect-5-rc", V5, ToClient, "e0 01 8e", &Packet{Type: DISCONNECT, ReasonCode: 0x8e}},
	{"disconnect-5-sei", V5, ToServer, "e0 07 04 05 11 00 00 00 00", &Packet{Type: DISCONNECT, ReasonCode: 4, Props: &Props{SessionExpiry: pv(uint32(0))}}},
	{"auth-5-short", V5, AnyDir, "f0 00", &Packet{Type: AUTH}},
	{"auth-5", V5, AnyDir, "f0 0a 18 08 15 00 01 6d 16 00 01 00",
		&Packet{Type: AUTH, ReasonCode: 0x18, Props: &Props{AuthMethod: pv("m"), AuthData: []byte{0}, HasAuthData: true}}},
}

func TestGolden(t *testing.T) {
	for _, g := range goldens {
		t.Run(g.name, func(t *testing.T) {
			want := unhex(t, g.hex)
			enc, err := Encode(g.p, g.v)
			if err != nil {
				t.Fatal(err)
			}
			if !bytes.Equal(enc, want) {
				t.Errorf("Encode:\n got  %x\n want %x", enc, want)
			}
			p, n, err := Decode(want, g.v, g.d)
			if err != nil {
				t.Fatalf("Decode: %v", err)
			}
			if n != len(want) {
				t.Errorf("consumed %d of %d", n, len(want))
			}
			if !Equal(p, g.p) {
				t.Errorf("Decode:\n got  %v\n want %v", p, g.p)
			}
			if !bytes.Equal(p.Raw, want) {
				t.Errorf("Raw = %x", p.Raw)
			}
			if Equal(p, &Packet{Type: g.p.Type, PacketID: 4242, Topic: "zz"}) {
				t.Errorf("Equal is too lax")
			}
		})
	}
}

// Non-canonical but legal encodings.
func TestDecodeAlternativeForms(t *testing.T) {
	cases := []struct {
		name string
		v    Version
		d    Direction
		hex  string
		p    *Packet
	}{
		{"puback-rc0-explicit", V5, AnyDir, "40 03 00 0a 00", &Packet{Type: PUBACK, PacketID: 10}},
		{"puback-long-empty", V5, AnyDir, "40 04 00 0a 00 00", &Packet{Type: PUBACK, PacketID: 10}},
		{"disconnect-rc0", V5, AnyDir, "e0 01 00", &Packet{Type: DISCONNECT}},
		{"disconnect-long", V5, AnyDir, "e0 02 00 00", &Packet{Type: DISCONNECT}},
		{"auth-long", V5, AnyDir, "f0 02 00 00", &Packet{Type: AUTH}},
		{"connack-31-reserved-byte", V31, ToClient, "20 02 fe 00", &Packet{Type: CONNACK}},
		{"pubrel-31-dup", V31, AnyDir, "6a 02 00 01", &Packet{Type: PUBREL, PacketID: 1, Dup: true}},
		{"subscribe-31-dup", V31, ToServer, "8a 06 00 01 00 01 61 00", &Packet{Type: SUBSCRIBE, PacketID: 1, Dup: true, Subs: []SubReq{{Filter: "a"}}}},
		{"connect-5-pass-no-user", V5, ToServer, "10 10 00 04 4d 51 54 54 05 40 00 00 00 00 00 00 01 70",
			&Packet{Type: CONNECT, ProtoName: "MQTT", ProtoLevel: 5, HasPassword: true, Password: []byte("p")}},
		{"connect-31-pass-no-user", V31, ToServer, "10 11 00 06 4d 51 49 73 64 70 03 40 00 00 00 00 00 01 70",
			&Packet{Type: CONNECT, ProtoName: "MQIsdp", ProtoLevel: 3, HasPassword: true, Password: []byte("p")}},
		{"utf8-may-accepted", V311, AnyDir, "30 05 00 03 61 01 7f", &Packet{Type: PUBLISH, Topic: "a\x01\x7f"}},
		{"utf8-bom-kept", V311, AnyDir, "30 05 00 03 ef bb bf", &Packet{Type: PUBLISH, Topic: "\ufeff"}},
		{"subids-repeat-anydir", V5, AnyDir, "30 08 00 01 74 04 0b 01 0b 02", &Packet{Type: PUBLISH, Topic: "t", Props: &Props{SubscriptionIDs: []uint32{1, 2}}}},
	}
	for _, c := range cases {
		t.Run(c.name, func(t *testing.T) {
			b := unhex(t, c.hex)
			p, n, err := Decode(b, c.v, c.d)
			if err != nil || n != len(b) {
				t.Fatalf("Decode: n=%d err=%v", n, err)
			}
			if c.p != nil && !Equal(p, c.p) {
				t.Fatalf("got %v want %v", p, c.p)
			}
		})
	}
	// the unordered property section decoded to the expected values
	p, _, err := Decode(unhex(t, "20 14 00 00 11 26 00 01 6b 00 01 76 24 00 26 00 00 00 00 21 00 01"), V5, ToClient)
	if err != nil {
		t.Fatal(err)
	}
	want := &Props{MaximumQoS: pv(byte(0)), ReceiveMax: pv(uint16(1)), User: []UserProp{{"k", "v"}, {"", ""}}}
	if !EqualProps(p.Props, want) {
		t.Fatalf("got %v want %v", p.Props, want)
	}
}

func TestEncodeOpts(t *testing.T) {
	chk := func(p *Packet, v Version, o EncodeOpts, wantHex string) {
		t.Helper()
		got, err := EncodeWith(p, v, o)
		if err != nil {
			t.Fatal(err)
		}
		if want := unhex(t, wantHex); !bytes.Equal(got, want) {
			t.Errorf("got %x want %x", got, want)
		}
	}
	ack := &Packet{Type: PUBACK, PacketID: 1}
	chk(ack, V5, EncodeOpts{}, "40 02 00 01")
	chk(ack, V5, EncodeOpts{ForceReasonCode: true}, "40 03 00 01 00")
	chk(ack, V5, EncodeOpts{ForceLongAck: true}, "40 04 00 01 00 00")
	chk(ack, V311, EncodeOpts{ForceLongAck: true}, "40 02 00 01")
	chk(&Packet{Type: DISCONNECT}, V5, EncodeOpts{ForceLongAck: true}, "e0 02 00 00")
	chk(&Packet{Type: DISCONNECT}, V5, EncodeOpts{ForceReasonCode: true}, "e0 01 00")
	chk(&Packet{Type: AUTH}, V5, EncodeOpts{ForceLongAck: true}, "f0 02 00 00")
	chk(&Packet{Type: PINGREQ}, V5, EncodeOpts{FixedFlags: pv(byte(0x0f))}, "cf 00")
	chk(&Packet{Type: SUBSCRIBE, PacketID: 1, Subs: []SubReq{{Filter: "a"}}}, V311, EncodeOpts{FixedFlags: pv(byte(0))}, "80 06 00 01 00 01 61 00")
	// CONNECT defaults its protocol name / level from the version
	chk(&Packet{Type: CONNECT}, V311, EncodeOpts{}, "10 0c 00 04 4d 51 54 54 04 00 00 00 00 00")
	chk(&Packet{Type: CONNECT, ProtoName: "MQTT", ProtoLevel: 9}, V311, EncodeOpts{}, "10 0c 00 04 4d 51 54 54 09 00 00 00 00 00")

	// things that cannot be encoded
	big := strings.Repeat("x", 65536)
	for _, p := range []*Packet{
		{Type: PUBLISH, Topic: big},
		{Type: CONNECT, ClientID: big},
		{Type: PUBLISH, Topic: "t", Props: &Props{ContentType: &big}},
		{Type: PUBLISH, Topic: "t", Props: &Props{SubscriptionIDs: []uint32{MaxVarInt + 1}}},
		{Type: PUBLISH, Topic: "t", Payload: make([]byte, MaxVarInt)},
		{Type: 0},
		{Type: 16},
	} {
		if _, err := Encode(p, V5); err == nil {
			t.Errorf("Encode(%v) succeeded", p.Type)
		}
	}
	if _, err := Encode(&Packet{Type: AUTH}, V311); err == nil {
		t.Errorf("AUTH encodes in 3.1.1")
	}
	if _, err := Encode(&Packet{Type: PINGREQ}, 6); err == nil {
		t.Errorf("version 6 encodes")
	}
	// the largest packet that can be encoded (uses about 800 MB: opt-in)
	if os.Getenv("MQTTWIRE_BIG") == "" {
		return
	}
	p := &Packet{Type: PUBLISH, Topic: "t", Payload: make([]byte, MaxVarInt-3)}
	b, err := Encode(p, V311)
	if err != nil || len(b) != 5+MaxVarInt {
		t.Fatalf("max packet: len=%d err=%v", len(b), err)
	}
	if _, n, err := Decode(b, V311, AnyDir); err != nil || n != len(b) {
		t.Fatalf("max packet decode: n=%d err=%v", n, err)
	}
}

// ---------------------------------------------------------------------------
// strictness

func TestDecodeRejects(t *testing.T) {
	M, P, U := Malformed, ProtocolError, UnsupportedVersion
	cases := []struct {
		name string
		v    Version
		d    Direction
		hex  string
		kind ErrKind
	}{
		{"type0", V311, AnyDir, "00 00", M},
		{"auth-in-311", V311, AnyDir, "f0 00", M},
		{"auth-in-31", V31, AnyDir, "f0 00", M},
		{"pingreq-flags", V311, AnyDir, "c1 00", M},
		{"connect-flags", V311, AnyDir, "11 0f 00 04 4d 51 54 54 04 02 00 3c 00 03 61 62 63", M},
		{"subscribe-flags-0", V311, AnyDir, "80 06 00 01 00 01 61 00", M},
		{"subscribe-flags-dup-311", V311, AnyDir, "8a 06 00 01 00 01 61 00", M},
		{"subscribe-flags-retain-31", V31, AnyDir, "83 06 00 01 00 01 61 00", M},
		{"pubrel-flags-0", V5, AnyDir, "60 02 00 01", M},
		{"unsubscribe-flags", V5, AnyDir, "a0 06 00 01 00 00 01 61", M},
		{"puback-flags", V311, AnyDir, "42 02 00 01", M},
		{"varint-nonminimal", V311, AnyDir, "c0 80 00", M},
		{"varint-nonminimal-3", V311, AnyDir, "c0 80 80 00", M},
		{"varint-5-bytes", V311, AnyDir, "30 ff ff ff ff 01", M},
		{"varint-4th-continues", V311, AnyDir, "30 80 80 80 80", M},
		{"publish-qos3", V311, AnyDir, "36 05 00 01 61 00 01", M},
		{"publish-dup-qos0", V311, AnyDir, "38 03 00 01 61", P},
		{"publish-id0", V311, AnyDir, "32 05 00 01 61 00 00", P},
		{"puback-id0", V311, AnyDir, "40 02 00 00", P},
		{"pubrec-id0-v5", V5, AnyDir, "50 02 00 00", P},
		{"subscribe-id0", V311, AnyDir, "82 06 00 00 00 01 61 00", P},
		{"suback-id0", V311, AnyDir, "90 03 00 00 00", P},
		{"unsubscribe-id0", V311, AnyDir, "a2 05 00 00 00 01 61", P},
		{"unsuback-id0", V311, AnyDir, "b0 02 00 00", P},
		{"topic-overlong-nul", V311, AnyDir, "30 04 00 02 c0 80", M},
		{"topic-nul", V311, AnyDir, "30 03 00 01 00", M},
		{"topic-surrogate", V311, AnyDir, "30 05 00 03 ed a0 80", M},
		{"topic-truncated-seq", V311, AnyDir, "30 04 00 02 e2 82", M},
		{"topic-above-10ffff", V311, AnyDir, "30 06 00 04 f4 90 80 80", M},
		{"topic-lone-continuation", V5, AnyDir, "30 04 00 01 80 00", M},
		{"topic-length-beyond", V311, AnyDir, "30 03 00 05 61", M},
		{"topic-length-cut", V311, AnyDir, "30 01 00", M},
		{"publish-qos1-no-id", V311, AnyDir, "32 03 00 01 61", M},
		{"publish-5-no-proplen", V5, AnyDir, "30 03 00 01 61", M},
		{"clientid-bad-utf8", V311, AnyDir, "10 0d 00 04 4d 51 54 54 04 02 00 3c 00 01 ff", M},
		{"username-nul", V311, AnyDir, "10 10 00 04 4d 51 54 54 04 82 00 3c 00 00 00 02 61 00", M},
		{"will-topic-bad", V311, AnyDir, "10 12 00 04 4d 51 54 54 04 06 00 3c 00 00 00 01 c1 00 01 61", M},
		{"filter-bad-utf8", V311, AnyDir, "82 06 00 01 00 01 fe 00", M},
		{"unsub-filter-bad-utf8", V311, AnyDir, "a2 05 00 01 00 01 fe", M},
		{"user-prop-bad-utf8", V5, AnyDir, "40 0b 00 01 00 07 26 00 01 ff 00 01 76", M},
		{"reason-string-nul", V5, AnyDir, "40 08 00 01 00 04 1f 00 01 00", M},
		{"puback-prop-not-allowed", V5, AnyDir, "40 09 00 01 00 05 11 00 00 00 01", P},
		{"publish-unknown-prop", V5, AnyDir, "30 06 00 01 61 02 7f 00", M},
		{"publish-prop-id-multibyte", V5, AnyDir, "30 07 00 01 61 03 81 01 00", M},
		{"publish-prop-id-zero", V5, AnyDir, "30 06 00 01 61 02 00 00", M},
		{"publish-will-delay", V5, AnyDir, "30 09 00 01 61 05 18 00 00 00 01", P},
		{"publish-subid-to-server", V5, ToServer, "30 06 00 01 74 02 0b 01", P},
		{"subscribe-two-subids", V5, ToServer, "82 0b 00 01 04 0b 01 0b 02 00 01 61 00", P},
		{"subscribe-subid-0", V5, ToServer, "82 09 00 01 02 0b 00 00 01 61 00", P},
		{"subscribe-subid-nonminimal", V5, ToServer, "82 0a 00 01 03 0b 81 00 00 01 61 00", M},
		{"publish-subid-0", V5, ToClient, "30 06 00 01 74 02 0b 00", P},
		{"dup-prop-expiry", V5, AnyDir, "30 0e 00 01 61 0a 02 00 00 00 01 02 00 00 00 01", P},
		{"dup-prop-reason-string", V5, AnyDir, "40 0c 00 01 00 08 1f 00 01 61 1f 00 01 61", P},
		{"dup-prop-correlation", V5, AnyDir, "30 0a 00 01 61 06 09 00 00 09 00 00", P},
		{"payload-format-2", V5, AnyDir, "30 06 00 01 61 02 01 02", P},
		{"topic-alias-0", V5, AnyDir, "30 07 00 01 61 03 23 00 00", P},
		{"connack-receive-max-0", V5, ToClient, "20 06 00 00 03 21 00 00", P},
		{"connack-max-packet-0", V5, ToClient, "20 08 00 00 05 27 00 00 00 00", P},
		{"connack-max-qos-2", V5, ToClient, "20 05 00 00 02 24 02", P},
		{"connack-retain-avail-2", V5, ToClient, "20 05 00 00 02 25 02", P},
		{"connack-wildcard-2", V5, ToClient, "20 05 00 00 02 28 ff", P},
		{"connack-subid-avail-2", V5, ToClient, "20 05 00 00 02 29 02", P},
		{"connack-shared-avail-2", V5, ToClient, "20 05 00 00 02 2a 02", P},
		{"connack-request-problem-info", V5, ToClient, "20 05 00 00 02 17 01", P},
		{"connect-request-problem-2", V5, ToServer, "10 0f 00 04 4d 51 54 54 05 02 00 00 02 17 02 00 00", P},
		{"connect-request-response-2", V5, ToServer, "10 0f 00 04 4d 51 54 54 05 02 00 00 02 19 02 00 00", P},
		{"connect-receive-max-0", V5, ToServer, "10 10 00 04 4d 51 54 54 05 02 00 00 03 21 00 00 00 00", P},
		{"connect-will-prop-in-connect", V5, ToServer, "10 12 00 04 4d 51 54 54 05 02 00 00 05 18 00 00 00 01 00 00", P},
		{"connect-connect-prop-in-will", V5, ToServer, "10 18 00 04 4d 51 54 54 05 06 00 00 00 00 00 05 11 00 00 00 01 00 01 77 00 00", P},
		{"prop-length-beyond", V5, AnyDir, "30 05 00 01 61 05 01", M},
		{"prop-value-cut", V5, AnyDir, "30 06 00 01 61 02 02 00", M},
		{"prop-length-nonminimal", V5, AnyDir, "30 06 00 01 61 80 00 78", M},
		{"pingreq-body", V311, AnyDir, "c0 01 00", M},
		{"pingresp-body", V5, AnyDir, "d0 01 00", M},
		{"puback-311-trailing", V311, AnyDir, "40 03 00 01 00", M},
		{"puback-short", V311, AnyDir, "40 01 00", M},
		{"puback-5-trailing", V5, AnyDir, "40 05 00 01 00 00 00", M},
		{"connack-311-trailing", V311, ToClient, "20 03 00 00 00", M},
		{"connack-311-short", V311, ToClient, "20 01 00", M},
		{"connack-5-no-props", V5, ToClient, "20 02 00 00", M},
		{"connack-311-reserved-bits", V311, ToClient, "20 02 02 00", M},
		{"connack-5-reserved-bits", V5, ToClient, "20 03 80 00 00", M},
		{"unsuback-311-payload", V311, ToClient, "b0 03 00 01 00", M},
		{"disconnect-311-body", V311, ToServer, "e0 01 00", M},
		{"disconnect-5-trailing", V5, AnyDir, "e0 03 00 00 00", M},
		{"auth-rc-without-proplen", V5, AnyDir, "f0 01 18", M},
		{"connect-trailing", V311, ToServer, "10 10 00 04 4d 51 54 54 04 02 00 3c 00 03 61 62 63 00", M},
		{"connect-cut", V311, ToServer, "10 0e 00 04 4d 51 54 54 04 02 00 3c 00 03 61 62", M},
		{"subscribe-empty", V311, ToServer, "82 02 00 01", P},
		{"subscribe-empty-v5", V5, ToServer, "82 03 00 01 00", P},
		{"unsubscribe-empty", V311, ToServer, "a2 02 00 01", P},
		{"unsubscribe-empty-v5", V5, ToServer, "a2 03 00 01 00", P},
		{"subscribe-no-options", V311, ToServer, "82 05 00 01 00 01 61", M},
		{"subscribe-qos3", V311, ToServer, "82 06 00 01 00 01 61 03", M},
		{"subscribe-reserved-bits-311", V311, ToServer, "82 06 00 01 00 01 61 04", M},
		{"subscribe-reserved-bits-5", V5, ToServer, "82 07 00 01 00 00 01 61 40", M},
		{"subscribe-reserved-bits-5b", V5, ToServer, "82 07 00 01 00 00 01 61 80", M},
		{"subscribe-rh3", V5, ToServer, "82 07 00 01 00 00 01 61 30", P},
		{"connect-reserved-flag", V311, ToServer, "10 0f 00 04 4d 51 54 54 04 03 00 3c 00 03 61 62 63", M},
		{"connect-reserved-flag-v5", V5, ToServer, "10 0d 00 04 4d 51 54 54 05 01 00 00 00 00 00", M},
		{"connect-reserved-flag-v31", V31, ToServer, "10 0e 00 06 4d 51 49 73 64 70 03 01 00 00 00 00", M},
		{"connect-willqos-no-will", V311, ToServer, "10 0c 00 04 4d 51 54 54 04 08 00 00 00 00", M},
		{"connect-willretain-no-will", V311, ToServer, "10 0c 00 04 4d 51 54 54 04 20 00 00 00 00", M},
		{"connect-willqos3", V311, ToServer, "10 11 00 04 4d 51 54 54 04 1c 00 00 00 00 00 01 77 00 00", M},
		{"connect-pass-no-user-311", V311, ToServer, "10 0f 00 04 4d 51 54 54 04 40 00 00 00 00 00 01 70", M},
		{"connect-name-level-3", V311, ToServer, "10 0c 00 04 4d 51 54 54 03 00 00 00 00 00", U},
		{"connect-mqisdp-level-4", V311, ToServer, "10 0e 00 06 4d 51 49 73 64 70 04 00 00 00 00 00", U},
		{"connect-level-6", V5, ToServer, "10 0c 00 04 4d 51 54 54 06 00 00 00 00 00", U},
		{"connect-name-lowercase", V311, ToServer, "10 0c 00 04 6d 71 74 74 04 00 00 00 00 00", U},
		{"connect-name-empty", V311, ToServer, "10 08 00 00 04 00 00 00 00 00", U},
		{"connect-to-client", V311, ToClient, "10 0f 00 04 4d 51 54 54 04 02 00 3c 00 03 61 62 63", P},
		{"connack-to-server", V311, ToServer, "20 02 00 00", P},
		{"subscribe-to-client", V311, ToClient, "82 06 00 01 00 01 61 00", P},
		{"suback-to-server", V311, ToServer, "90 03 00 01 00", P},
		{"unsubscribe-to-client", V311, ToClient, "a2 05 00 01 00 01 61", P},
		{"unsuback-to-server", V311, ToServer, "b0 02 00 01", P},
		{"pingreq-to-client", V311, ToClient, "c0 00", P},
		{"pingresp-to-server", V311, ToServer, "d0 00", P},
		{"disconnect-311-to-client", V311, ToClient, "e0 00", P},
		{"disconnect-sei-to-client", V5, ToClient, "e0 07 00 05 11 00 00 00 00", P},
		{"disconnect-serverref-to-server", V5, ToServer, "e0 06 00 04 1c 00 01 61", P},
		{"auth-with-session-expiry", V5, AnyDir, "f0 07 00 05 11 00 00 00 00", P},
	}
	for _, c := range cases {
		t.Run(c.name, func(t *testing.T) {
			b := unhex(t, c.hex)
			p, n, err := Decode(b, c.v, c.d)
			if err == nil {
				t.Fatalf("accepted: %v", p)
			}
			var de *DecodeError
			if !errors.As(err, &de) {
				t.Fatalf("error is not a DecodeError: %v", err)
			}
			if de.Kind != c.kind {
				t.Errorf("kind = %v, want %v (%v)", de.Kind, c.kind, err)
			}
			if errors.Is(err, ErrIncomplete) {
				t.Errorf("ErrIncomplete for a definite rejection")
			}
			if n > len(b) {
				t.Errorf("n = %d > %d", n, len(b))
			}
			if !IsMalformed(err) {
				t.Errorf("IsMalformed = false")
			}
			// ReadPacket agrees
			if _, err := ReadPacket(bufio.NewReader(bytes.NewReader(b)), c.v, c.d); !IsMalformed(err) {
				t.Errorf("ReadPacket: %v", err)
			}
		})
	}
	// the AnyDir / other-direction counterparts of the direction cases are accepted
	for _, c := range []struct {
		v   Version
		d   Direction
		hex string
	}{
		{V5, ToServer, "e0 07 00 05 11 00 00 00 00"},
		{V5, AnyDir, "e0 07 00 05 11 00 00 00 00"},
		{V5, ToClient, "e0 06 00 04 1c 00 01 61"},
		{V5, AnyDir, "e0 06 00 04 1c 00 01 61"},
		{V5, ToClient, "30 06 00 01 74 02 0b 01"},
		{V5, AnyDir, "30 06 00 01 74 02 0b 01"},
		{V311, AnyDir, "e0 00"},
		{V5, ToClient, "e0 00"},
	} {
		if _, _, err := Decode(unhex(t, c.hex), c.v, c.d); err != nil {
			t.Errorf("%s %s %s: %v", c.hex, c.v, c.d, err)
		}
	}
	if _, _, err := Decode([]byte{0xc0, 0}, 7, AnyDir); err == nil || IsMalformed(err) {
		t.Errorf("bad version argument: %v", err)
	}
	if _, _, err := Decode([]byte{0xc0, 0}, V5, 0); err == nil || IsMalformed(err) {
		t.Errorf("bad direction argument: %v", err)
	}
}

// Every property is rejected in every (type, direction) where the spec does
// not list it, and accepted where it does.
func TestPropertyPlacementMatrix(t *testing.T) {
	one := map[PropID]string{ // one well-formed instance of each property
		PropPayloadFormat: "01 01", PropMessageExpiry: "02 00 00 00 01", PropContentType: "03 00 01 61",
		PropResponseTopic: "08 00 01 61", PropCorrelationData: "09 00 01 61", PropSubscriptionID: "0b 01",
		PropSessionExpiry: "11 00 00 00 01", PropAssignedClientID: "12 00 01 61", PropServerKeepAlive: "13 00 01",
		PropAuthMethod: "15 00 01 61", PropAuthData: "16 00 01 61", PropRequestProblemInfo: "17 01",
		PropWillDelay: "18 00 00 00 01", PropRequestResponseInfo: "19 01", PropResponseInfo: "1a 00 01 61",
		PropServerReference: "1c 00 01 61", PropReasonString: "1f 00 01 61", PropReceiveMax: "21 00 01",
		PropTopicAliasMax: "22 00 01", PropTopicAlias: "23 00 01", PropMaximumQoS: "24 01",
		PropRetainAvailable: "25 01", PropUser: "26 00 01 6b 00 01 76", PropMaxPacketSize: "27 00 00 00 01",
		PropWildcardSubAvailable: "28 01", PropSubIDAvailable: "29 01", PropSharedSubAvailable: "2a 01",
	}
	// expected placement, written out independently of props.go
	type where struct {
		t Type
		d Direction // directions in which it is legal
	}
	both := AnyDir
	expect := map[PropID][]where{
		PropPayloadFormat:        {{PUBLISH, both}},
		PropMessageExpiry:        {{PUBLISH, both}},
		PropContentType:          {{PUBLISH, both}},
		PropResponseTopic:        {{PUBLISH, both}},
		PropCorrelationData:      {{PUBLISH, both}},
		PropSubscriptionID:       {{PUBLISH, ToClient}, {SUBSCRIBE, ToServer}},
		PropSessionExpiry:        {{CONNECT, ToServer}, {CONNACK, ToClient}, {DISCONNECT, ToServer}},
		PropAssignedClientID:     {{CONNACK, ToClient}},
		PropServerKeepAlive:      {{CONNACK, ToClient}},
		PropAuthMethod:           {{CONNECT, ToServer}, {CONNACK, ToClient}, {AUTH, both}},
		PropAuthData:             {{CONNECT, ToServer}, {CONNACK, ToClient}, {AUTH, both}},
		PropRequestProblemInfo:   {{CONNECT, ToServer}},
		PropWillDelay:            {},
		PropRequestResponseInfo:  {{CONNECT, ToServer}},
		PropResponseInfo:         {{CONNACK, ToClient}},
		PropServerReference:      {{CONNACK, ToClient}, {DISCONNECT, ToClient}},
		PropReasonString:         {{CONNACK, ToClient}, {PUBACK, both}, {PUBREC, both}, {PUBREL, both}, {PUBCOMP, both}, {SUBACK, ToClient}, {UNSUBACK, ToClient}, {DISCONNECT, both}, {AUTH, both}},
		PropReceiveMax:           {{CONNECT, ToServer}, {CONNACK, ToClient}},
		PropTopicAliasMax:        {{CONNECT, ToServer}, {CONNACK, ToClient}},
		PropTopicAlias:           {{PUBLISH, both}},
		PropMaximumQoS:           {{CONNACK, ToClient}},
		PropRetainAvailable:      {{CONNACK, ToClient}},
		PropUser:                 {{CONNECT, ToServer}, {CONNACK, ToClient}, {PUBLISH, both}, {PUBACK, both}, {PUBREC, both}, {PUBREL, both}, {PUBCOMP, both}, {SUBSCRIBE, ToServer}, {SUBACK, ToClient}, {UNSUBSCRIBE, ToServer}, {UNSUBACK, ToClient}, {DISCONNECT, both}, {AUTH, both}},
		PropMaxPacketSize:        {{CONNECT, ToServer}, {CONNACK, ToClient}},
		PropWildcardSubAvailable: {{CONNACK, ToClient}},
		PropSubIDAvailable:       {{CONNACK, ToClient}},
		PropSharedSubAvailable:   {{CONNACK, ToClient}},
	}
	// packet skeletons: prefix + property section + suffix
	skel := map[Type][2]string{
		CONNECT:     {"00 04 4d 51 54 54 05 02 00 00", "00 00"},
		CONNACK:     {"00 00", ""},
		PUBLISH:     {"00 01 74", "78"},
		PUBACK:      {"00 01 00", ""},
		PUBREC:      {"00 01 00", ""},
		PUBREL:      {"00 01 00", ""},
		PUBCOMP:     {"00 01 00", ""},
		SUBSCRIBE:   {"00 01", "00 01 61 00"},
		SUBACK:      {"00 01", "00"},
		UNSUBSCRIBE: {"00 01", "00 01 61"},
		UNSUBACK:    {"00 01", "00"},
		DISCONNECT:  {"00", ""},
		AUTH:        {"00", ""},
	}
	if len(one) != len(AllPropIDs) || len(expect) != len(AllPropIDs) {
		t.Fatalf("table sizes: %d %d %d", len(one), len(expect), len(AllPropIDs))
	}
	for _, id := range AllPropIDs {
		for ty, sk := range skel {
			for _, d := range allDirs {
				if !legalIn(ty, V5, d) {
					continue
				}
				want := false
				for _, w := range expect[id] {
					if w.t == ty && w.d&d != 0 {
						want = true
					}
				}
				prop := unhex(t, one[id])
				body := unhex(t, sk[0])
				body = AppendVarInt(body, uint32(len(prop)))
				body = append(body, prop...)
				body = append(body, unhex(t, sk[1])...)
				flags := byte(0)
				if ty == PUBREL || ty == SUBSCRIBE || ty == UNSUBSCRIBE {
					flags = 2
				}
				pkt := AppendVarInt([]byte{byte(ty)<<4 | flags}, uint32(len(body)))
				pkt = append(pkt, body...)
				p, _, err := Decode(pkt, V5, d)
				if want && err != nil {
					t.Errorf("%s in %s %s: rejected: %v", id, ty, d, err)
				}
				if !want && err == nil {
					t.Errorf("%s in %s %s: accepted: %v", id, ty, d, p)
				}
				if err == nil {
					if got := p.Props.Present(); len(got) != 1 || got[0] != id {
						t.Errorf("%s in %s: decoded as %v", id, ty, got)
					}
				}
				// twice: only User Property, and Subscription Identifier in PUBLISH
				if want {
					body := unhex(t, sk[0])
					body = AppendVarInt(body, uint32(2*len(prop)))
					body = append(body, prop...)
					body = append(body, prop...)
					body = append(body, unhex(t, sk[1])...)
					pkt := AppendVarInt([]byte{byte(ty)<<4 | flags}, uint32(len(body)))
					pkt = append(pkt, body...)
					_, _, err := Decode(pkt, V5, d)
					okTwice := id == PropUser || (id == PropSubscriptionID && ty == PUBLISH)
					if okTwice != (err == nil) {
						t.Errorf("%s twice in %s %s: err=%v", id, ty, d, err)
					}
				}
			}
		}
	}
	// will properties
	for _, id := range AllPropIDs {
		want := map[PropID]bool{PropWillDelay: true, PropPayloadFormat: true, PropMessageExpiry: true, PropContentType: true,
			PropResponseTopic: true, PropCorrelationData: true, PropUser: true}[id]
		prop := unhex(t, one[id])
		body := unhex(t, "00 04 4d 51 54 54 05 06 00 00 00 00 00")
		body = AppendVarInt(body, uint32(len(prop)))
		body = append(body, prop...)
		body = append(body, unhex(t, "00 01 77 00 00")...)
		pkt := append(AppendVarInt([]byte{0x10}, uint32(len(body))), body...)
		p, _, err := Decode(pkt, V5, ToServer)
		if want != (err == nil) {
			t.Errorf("%s in will properties: err=%v", id, err)
		}
		if err == nil {
			if got := p.Will.Props.Present(); len(got) != 1 || got[0] != id {
				t.Errorf("%s in will: decoded as %v", id, got)
			}
		}
	}
}

// ---------------------------------------------------------------------------
// (3) robustness

type fataler interface{ Fatalf(string, ...any) }

func checkDecodeSane(t fataler, b []byte, v Version, d Direction) {
	p, n, err := Decode(b, v, d)
	if n < 0 || n > len(b) {
		t.Fatalf("n=%d len=%d", n, len(b))
	}
	if err != nil {
		if p != nil {
			t.Fatalf("packet and error")
		}
		if errors.Is(err, ErrIncomplete) && n != 0 {
			t.Fatalf("ErrIncomplete with n=%d", n)
		}
		if !errors.Is(err, ErrIncomplete) && !IsMalformed(err) {
			t.Fatalf("unexpected error type %T: %v", err, err)
		}
		if errors.Is(err, ErrIncomplete) {
			// must really be a frame prefix: first byte fine, length missing or short
			if len(b) >= 5 {
				rl, k, verr := ReadVarInt(b[1:])
				if verr != nil || 1+k+int(rl) <= len(b) {
					t.Fatalf("ErrIncomplete but frame is complete: %x", b[:5])
				}
			}
		}
		return
	}
	if n == 0 || !bytes.Equal(p.Raw, b[:n]) {
		t.Fatalf("n=%d raw mismatch", n)
	}
	// whatever is accepted must survive canonical re-encoding
	ev := decVersion(p, v)
	enc, err := Encode(p, ev)
	if err != nil {
		t.Fatalf("accepted packet cannot be encoded: %v: %v", p, err)
	}
	q, m, err := Decode(enc, ev, d)
	if err != nil || m != len(enc) || !Equal(p, q) {
		t.Fatalf("accepted packet does not round trip: %v\n in  %x\n enc %x\n err %v", p, b[:n], enc, err)
	}
	_ = p.String()
	// the stream reader agrees
	r, err := ReadPacket(bufio.NewReader(bytes.NewReader(b)), v, d)
	if err != nil || !Equal(r, p) {
		t.Fatalf("ReadPacket disagrees: %v", err)
	}
}

func mutate(rng *rand.Rand, b []byte) []byte {
	out := append([]byte{}, b...)
	for k := rng.Intn(3) + 1; k > 0; k-- {
		if len(out) == 0 {
			out = append(out, byte(rng.Intn(256)))
			continue
		}
		i := rng.Intn(len(out))
		switch rng.Intn(7) {
		case 0:
			out[i] = byte(rng.Intn(256))
		case 1:
			out[i] ^= 1 << uint(rng.Intn(8))
		case 2:
			out = append(out[:i], out[i+1:]...)
		case 3:
			out = append(out[:i], append([]byte{byte(rng.Intn(256))}, out[i:]...)...)
		case 4:
			out = out[:i]
		case 5:
			out[i]++
		case 6:
			out[i]--
		}
	}
	return out
}

func TestDecodeRandomBytes(t *testing.T) {
	rng := rand.New(rand.NewSource(1))
	for i := 0; i < 60000; i++ {
		b := make([]byte, rng.Intn(40))
		rng.Read(b)
		if len(b) > 1 && rng.Intn(2) == 0 {
			b[1] = byte(rng.Intn(len(b))) // plausible remaining length
		}
		if len(b) > 0 && rng.Intn(2) == 0 {
			b[0] = byte(rng.Intn(15)+1)<<4 | []byte{0, 0, 0, 2, 2, byte(rng.Intn(16))}[rng.Intn(6)]
		}
		checkDecodeSane(t, b, allVersions[rng.Intn(3)], allDirs[rng.Intn(3)])
	}
}

func TestDecodeMutations(t *testing.T) {
	accepted := 0
	rapid.Check(t, func(t *rapid.T) {
		rng := rand.New(rand.NewSource(rapid.Int64().Draw(t, "seed")))
		v := rapid.SampledFrom(allVersions).Draw(t, "v")
		d := rapid.SampledFrom(allDirs).Draw(t, "d")
		p := GenPacket(v, d).Draw(t, "p")
		enc, err := Encode(p, v)
		if err != nil {
			t.Fatal(err)
		}
		if len(enc) > 4096 {
			return
		}
		for i := 0; i < 60; i++ {
			m := mutate(rng, enc)
			for _, dv := range allVersions {
				dd := allDirs[rng.Intn(3)]
				if _, _, err := Decode(m, dv, dd); err == nil {
					accepted++
				}
				checkDecodeSane(t, m, dv, dd)
			}
		}
	})
	if accepted == 0 {
		t.Errorf("no mutation was ever accepted: the mutator is too destructive to be a useful test")
	}
}

// Every single-byte corruption of a few packets: no panic, sane results.
func TestDecodeExhaustiveSingleByte(t *testing.T) {
	for _, g := range goldens {
		b := unhex(t, g.hex)
		for i := range b {
			for x := 0; x < 256; x++ {
				m := append([]byte{}, b...)
				m[i] = byte(x)
				checkDecodeSane(t, m, g.v, g.d)
			}
		}
	}
}

func FuzzDecode(f *testing.F) {
	for _, g := range goldens {
		b, _ := hex.DecodeString(strings.ReplaceAll(g.hex, " ", ""))
		f.Add(b, byte(g.v), byte(g.d))
	}
	f.Fuzz(func(t *testing.T, b []byte, v, d byte) {
		checkDecodeSane(t, b, allVersions[int(v)%3], allDirs[int(d)%3])
	})
}

// ---------------------------------------------------------------------------
// (4) truncation

func TestTruncation(t *testing.T) {
	rapid.Check(t, func(t *rapid.T) {
		v := rapid.SampledFrom(allVersions).Draw(t, "v")
		d := rapid.SampledFrom(allDirs).Draw(t, "d")
		p := GenPacket(v, d).Draw(t, "p")
		enc, err := Encode(p, v)
		if err != nil {
			t.Fatal(err)
		}
		for i := 0; i < len(enc); i++ {
			q, n, err := Decode(enc[:i], v, d)
			if !errors.Is(err, ErrIncomplete) || n != 0 || q != nil {
				t.Fatalf("prefix %d of %d of %v: n=%d err=%v", i, len(enc), p, n, err)
			}
		}
		// and the stream reader reports an unexpected EOF for each
		step := 1
		if len(enc) > 300 {
			step = len(enc) / 100
		}
		for i := 0; i < len(enc); i += step {
			_, err := ReadPacket(bufio.NewReader(bytes.NewReader(enc[:i])), v, d)
			want := io.ErrUnexpectedEOF
			if i == 0 {
				want = io.EOF
			}
			if err != want {
				t.Fatalf("ReadPacket on prefix %d of %d: %v", i, len(enc), err)
			}
		}
	})
}

func TestTruncationGolden(t *testing.T) {
	for _, g := range goldens {
		b := unhex(t, g.hex)
		for i := 0; i < len(b); i++ {
			if _, n, err := Decode(b[:i], g.v, g.d); !errors.Is(err, ErrIncomplete) || n != 0 {
				t.Errorf("%s prefix %d: n=%d err=%v", g.name, i, n, err)
			}
		}
	}
}

// ---------------------------------------------------------------------------
// stream reader

func TestReadPacketStream(t *testing.T) {
	rapid.Check(t, func(t *rapid.T) {
		v := rapid.SampledFrom(allVersions).Draw(t, "v")
		d := rapid.SampledFrom(allDirs).Draw(t, "d")
		ps := rapid.SliceOfN(GenPacket(v, d), 0, 6).Draw(t, "packets")
		var stream []byte
		for _, p := range ps {
			b, err := Encode(p, v)
			if err != nil {
				t.Fatal(err)
			}
			stream = append(stream, b...)
		}
		// a reader that returns few bytes at a time
		r := bufio.NewReaderSize(iotestOneByte{bytes.NewReader(stream)}, 16)
		for i, p := range ps {
			got, err := ReadPacket(r, v, d)
			if err != nil {
				t.Fatalf("packet %d: %v", i, err)
			}
			if !Equal(got, p) {
				t.Fatalf("packet %d: got %v want %v", i, got, p)
			}
		}
		if _, err := ReadPacket(r, v, d); err != io.EOF {
			t.Fatalf("at end: %v", err)
		}
	})
}

type iotestOneByte struct{ r io.Reader }

func (o iotestOneByte) Read(p []byte) (int, error) {
	if len(p) == 0 {
		return 0, nil
	}
	return o.r.Read(p[:1])
}

type memStats struct{ total uint64 }

func (m *memStats) read() {
	var ms runtime.MemStats
	runtime.ReadMemStats(&ms)
	m.total = ms.TotalAlloc
}

type errReader struct{ err error }

func (e errReader) Read([]byte) (int, error) { return 0, e.err }

func TestReadPacketErrors(t *testing.T) {
	// a huge declared length with almost no data: fails fast, small allocation
	b := append([]byte{0x30, 0xff, 0xff, 0xff, 0x7f}, make([]byte, 10)...)
	allocs := testing.AllocsPerRun(5, func() {
		if _, err := ReadPacket(bufio.NewReader(bytes.NewReader(b)), V311, AnyDir); err != io.ErrUnexpectedEOF {
			t.Fatalf("err = %v", err)
		}
	})
	if allocs > 20 {
		t.Errorf("allocs = %v", allocs)
	}
	var m1, m2 memStats
	m1.read()
	for i := 0; i < 10; i++ {
		ReadPacket(bufio.NewReader(bytes.NewReader(b)), V311, AnyDir)
	}
	m2.read()
	if grown := m2.total - m1.total; grown > 10*(1<<20) {
		t.Errorf("allocated %d bytes for a 15 byte input", grown)
	}
	if _, n, err := Decode(b, V311, AnyDir); !errors.Is(err, ErrIncomplete) || n != 0 {
		t.Errorf("Decode huge declared length: %v", err)
	}
	// first byte rejected without reading further
	if _, err := ReadPacket(bufio.NewReader(bytes.NewReader([]byte{0x00})), V311, AnyDir); !IsMalformed(err) {
		t.Errorf("err = %v", err)
	}
	// a transport error is passed through
	boom := errors.New("boom")
	if _, err := ReadPacket(bufio.NewReader(errReader{boom}), V311, AnyDir); err != boom {
		t.Errorf("err = %v", err)
	}
	if _, err := ReadPacket(bufio.NewReader(io.MultiReader(bytes.NewReader([]byte{0x30, 0x05, 0x00}), errReader{boom})), V311, AnyDir); err != boom {
		t.Errorf("err = %v", err)
	}
}

// ---------------------------------------------------------------------------
// varint, UTF-8, helpers

func TestVarInt(t *testing.T) {
	vectors := []struct {
		x   uint32
		hex string
	}{
		{0, "00"}, {1, "01"}, {127, "7f"}, {128, "80 01"}, {16383, "ff 7f"}, {16384, "80 80 01"},
		{2097151, "ff ff 7f"}, {2097152, "80 80 80 01"}, {268435455, "ff ff ff 7f"}, {321, "c1 02"},
	}
	for _, c := range vectors {
		want := unhex(t, c.hex)
		if got := AppendVarInt(nil, c.x); !bytes.Equal(got, want) {
			t.Errorf("AppendVarInt(%d) = %x want %x", c.x, got, want)
		}
		if VarIntLen(c.x) != len(want) {
			t.Errorf("VarIntLen(%d) = %d", c.x, VarIntLen(c.x))
		}
		x, n, err := ReadVarInt(append(want, 0x55))
		if err != nil || x != c.x || n != len(want) {
			t.Errorf("ReadVarInt(%x) = %d,%d,%v", want, x, n, err)
		}
		for i := 0; i < len(want); i++ {
			if _, n, err := ReadVarInt(want[:i]); !errors.Is(err, ErrIncomplete) || n != 0 {
				t.Errorf("ReadVarInt(%x) = %d,%v", want[:i], n, err)
			}
		}
	}
	for _, h := range []string{"80 00", "80 80 00", "80 80 80 00", "ff ff ff ff", "80 80 80 80 01", "ff ff ff ff 7f", "81 00"} {
		if _, _, err := ReadVarInt(unhex(t, h)); !IsMalformed(err) {
			t.Errorf("ReadVarInt(%s) = %v", h, err)
		}
	}
	if got := AppendVarIntN(nil, 0, 2); !bytes.Equal(got, []byte{0x80, 0x00}) {
		t.Errorf("AppendVarIntN = %x", got)
	}
	if got := AppendVarIntN(nil, 5, 4); !bytes.Equal(got, []byte{0x85, 0x80, 0x80, 0x00}) {
		t.Errorf("AppendVarIntN = %x", got)
	}
	rapid.Check(t, func(t *rapid.T) {
		x := rapid.Uint32Range(0, MaxVarInt).Draw(t, "x")
		b := AppendVarInt([]byte{9}, x)
		y, n, err := ReadVarInt(b[1:])
		if err != nil || y != x || n != len(b)-1 || n != VarIntLen(x) {
			t.Fatalf("%d -> %x -> %d,%d,%v", x, b, y, n, err)
		}
		for k := VarIntLen(x) + 1; k <= 4; k++ {
			if _, _, err := ReadVarInt(AppendVarIntN(nil, x, k)); !IsMalformed(err) {
				t.Fatalf("non-minimal %d in %d bytes accepted", x, k)
			}
		}
	})
}

func TestClassifyUTF8(t *testing.T) {
	cases := []struct {
		s    string
		want UTF8Class
	}{
		{"", UTF8Must}, {"abc/def", UTF8Must}, {"\u00e9", UTF8Must}, {"\u65e5\u672c", UTF8Must}, {"\U0001F600", UTF8Must},
		{"\ufeff", UTF8Must}, {"\ufffd", UTF8Must}, {"\ud7ff\ue000", UTF8Must}, {"\u00a0", UTF8Must}, {" ~", UTF8Must},
		{"\ufdcf\ufdf0", UTF8Must}, {"\U0010fffd", UTF8Must}, {"A\U0002A6D4", UTF8Must}, // spec example 1.5.4: U+0041 U+2A6D4
		{"\x01", UTF8May}, {"a\x1fb", UTF8May}, {"\t", UTF8May}, {"\n", UTF8May}, {"\x7f", UTF8May}, {"\u0080", UTF8May}, {"\u009f", UTF8May},
		{"\ufdd0", UTF8May}, {"\ufdef", UTF8May}, {"\ufffe", UTF8May}, {"\uffff", UTF8May}, {"\U0001fffe", UTF8May},
		{"\U0001ffff", UTF8May}, {"\U0010fffe", UTF8May}, {"\U0010ffff", UTF8May}, {"\U0008ffff", UTF8May},
		{"\x00", UTF8Bad}, {"a\x00b", UTF8Bad}, {"\x01\x00", UTF8Bad}, {"\xc0\x80", UTF8Bad}, {"\xc1\xbf", UTF8Bad},
		{"\xe0\x80\x80", UTF8Bad}, {"\xe0\x9f\xbf", UTF8Bad}, {"\xf0\x80\x80\x80", UTF8Bad}, {"\xf0\x8f\xbf\xbf", UTF8Bad},
		{"\xed\xa0\x80", UTF8Bad}, {"\xed\xbf\xbf", UTF8Bad}, {"\xed\xa0\x80\xed\xb0\x80", UTF8Bad},
		{"\xf4\x90\x80\x80", UTF8Bad}, {"\xf5\x80\x80\x80", UTF8Bad}, {"\xf8\x88\x80\x80\x80", UTF8Bad},
		{"\x80", UTF8Bad}, {"\xbf", UTF8Bad}, {"\xc2", UTF8Bad}, {"\xe2\x82", UTF8Bad}, {"\xf0\x9f\x98", UTF8Bad},
		{"\xff", UTF8Bad}, {"\xfe", UTF8Bad}, {"ab\xc2", UTF8Bad}, {"\xc2a", UTF8Bad}, {"\x7f\xff", UTF8Bad},
	}
	for _, c := range cases {
		if got := ClassifyUTF8([]byte(c.s)); got != c.want {
			t.Errorf("ClassifyUTF8(%q) = %v, want %v", c.s, got, c.want)
		}
	}
	// exhaustively: every scalar value classifies as the definition says
	for r := rune(0); r <= 0x10ffff; r++ {
		if r >= 0xd800 && r <= 0xdfff {
			continue
		}
		want := UTF8Must
		switch {
		case r == 0:
			want = UTF8Bad
		case r <= 0x1f, r >= 0x7f && r <= 0x9f, r >= 0xfdd0 && r <= 0xfdef, r&0xffff == 0xfffe, r&0xffff == 0xffff:
			want = UTF8May
		}
		if got := ClassifyUTF8([]byte(string(r))); got != want {
			t.Fatalf("U+%04X: %v, want %v", r, got, want)
		}
	}
	// surrogates encoded the CESU way
	for r := 0xd800; r <= 0xdfff; r++ {
		b := []byte{0xe0 | byte(r>>12), 0x80 | byte(r>>6)&0x3f, 0x80 | byte(r)&0x3f}
		if ClassifyUTF8(b) != UTF8Bad {
			t.Fatalf("encoded surrogate U+%04X accepted", r)
		}
	}
}

func TestTopicValidators(t *testing.T) {
	for s, want := range map[string]bool{
		"a": true, "a/b": true, "/": true, "a//b": true, "$SYS/x": true, " ": true,
		"": false, "a/+": false, "#": false, "a#": false, "a\x00": false,
	} {
		if ValidTopicName(s) != want {
			t.Errorf("ValidTopicName(%q) != %v", s, want)
		}
	}
	for s, want := range map[string]bool{
		"a": true, "#": true, "+": true, "a/#": true, "+/+": true, "/+": true, "+/": true, "a/+/b": true, "/#": true, "+/#": true,
		"$share/g/a/#": true, "/": true,
		"": false, "a#": false, "#/a": false, "a/#/b": false, "a+": false, "+a": false, "a/b+/c": false, "a/+b": false, "##": false, "a\x00": false,
	} {
		if ValidTopicFilter(s) != want {
			t.Errorf("ValidTopicFilter(%q) != %v", s, want)
		}
	}
}

func TestValidReasonCode(t *testing.T) {
	count := func(ty Type, v Version) int {
		n := 0
		for c := 0; c < 256; c++ {
			if ValidReasonCode(ty, v, byte(c)) {
				n++
			}
		}
		return n
	}
	// sizes of the reason code tables of the v5 spec
	for ty, want := range map[Type]int{CONNACK: 22, PUBACK: 9, PUBREC: 9, PUBREL: 2, PUBCOMP: 2, SUBACK: 12, UNSUBACK: 7, DISCONNECT: 29, AUTH: 3} {
		if got := count(ty, V5); got != want {
			t.Errorf("%s: %d valid v5 reason codes, want %d", ty, got, want)
		}
	}
	if count(CONNACK, V311) != 6 || count(SUBACK, V311) != 4 || count(SUBACK, V31) != 3 || count(PUBACK, V311) != 1 {
		t.Errorf("v3 tables wrong")
	}
}

func TestEqual(t *testing.T) {
	a := &Packet{Type: PUBLISH, Topic: "t", Payload: []byte{}, Props: &Props{}}
	b := &Packet{Type: PUBLISH, Topic: "t", Raw: []byte{1}}
	if !Equal(a, b) {
		t.Errorf("nil/empty should be equal")
	}
	b.Props = &Props{User: []UserProp{}, SubscriptionIDs: []uint32{}}
	if !Equal(a, b) {
		t.Errorf("empty props should equal nil props")
	}
	b.Props = &Props{HasCorrelationData: true}
	if Equal(a, b) {
		t.Errorf("present-but-empty binary differs from absent")
	}
	a.Props = &Props{HasCorrelationData: true, CorrelationData: []byte{}}
	if !Equal(a, b) {
		t.Errorf("empty binary values should be equal")
	}
	a.Props = &Props{MessageExpiry: pv(uint32(0))}
	b.Props = nil
	if Equal(a, b) {
		t.Errorf("present zero differs from absent")
	}
	if Equal(a, nil) || !Equal(nil, nil) {
		t.Errorf("nil handling")
	}
	rapid.Check(t, func(t *rapid.T) {
		v := rapid.SampledFrom(allVersions).Draw(t, "v")
		p := GenPacket(v, AnyDir).Draw(t, "p")
		q := GenPacket(v, AnyDir).Draw(t, "q")
		if !Equal(p, p) {
			t.Fatalf("not reflexive: %v", p)
		}
		bp, _ := Encode(p, v)
		bq, _ := Encode(q, v)
		if Equal(p, q) != bytes.Equal(bp, bq) {
			t.Fatalf("Equal=%v but encodings equal=%v:\n %v\n %v", Equal(p, q), bytes.Equal(bp, bq), p, q)
		}
	})
}

func TestStringExamples(t *testing.T) {
	p := &Packet{Type: PUBLISH, PacketID: 3, QoS: 1, Retain: true, Topic: "a/b", Payload: make([]byte, 12),
		Props: &Props{TopicAlias: pv(uint16(2)), User: []UserProp{{"k", "v"}}}}
	want := `PUBLISH{id=3 qos=1 dup=0 retain=1 topic="a/b" payload=12B props={TopicAlias=2 User["k"]="v"}}`
	if got := p.String(); got != want {
		t.Errorf("got  %s\nwant %s", got, want)
	}
	if got := (&Packet{Type: PINGREQ}).String(); got != "PINGREQ{}" {
		t.Errorf("got %s", got)
	}
	if CONNECT.String() != "CONNECT" || AUTH.String() != "AUTH" || Type(0).String() != "RESERVED0" || Type(77).String() != "Type(77)" {
		t.Errorf("Type.String")
	}
}
