package mqttwire

import (
	"encoding/binary"
	"fmt"
)

// EncodeOpts lets a test deviate from the canonical encoding.
type EncodeOpts struct {
	// ForceLongAck: for v5 PUBACK/PUBREC/PUBREL/PUBCOMP/DISCONNECT/AUTH always
	// emit the reason code and the property length, even when the reason code
	// is 0 and there are no properties.
	ForceLongAck bool
	// ForceReasonCode: for v5 PUBACK/PUBREC/PUBREL/PUBCOMP/DISCONNECT emit the
	// reason code even when it is 0, but still omit the property length when
	// there are no properties (the 3 byte ack / 1 byte DISCONNECT form).
	ForceReasonCode bool
	// FixedFlags overrides the low nibble of byte 1 of the fixed header.
	FixedFlags *byte
}

// Encode produces the canonical encoding for the given version. It does NOT
// validate semantic legality (so tests can produce odd-but-well-formed
// packets) except things that cannot be encoded (string > 65535 bytes,
// remaining length > 268435455, subscription identifier > 268435455, unknown
// packet type / version, AUTH in v3), which return an error.
//
// Canonical choices:
//   - v5 PUBACK/PUBREC/PUBREL/PUBCOMP: 2 byte form when ReasonCode==0 and no
//     properties; 3 byte form (no property length) when ReasonCode!=0 and no
//     properties; full form otherwise.
//   - v5 DISCONNECT: remaining length 0 when ReasonCode==0 and no properties;
//     1 when ReasonCode!=0 and no properties; full form otherwise.
//   - v5 AUTH: remaining length 0 when ReasonCode==0 and no properties; full
//     form otherwise (the spec has no 1 byte form for AUTH).
//   - properties: ascending identifier, User Properties last (see props.go).
//   - CONNECT: the layout follows v. ProtoName/ProtoLevel are taken from the
//     packet, unless both are zero, in which case they are those of v.
//     The connect flags are derived from CleanStart, Will, HasUsername,
//     HasPassword. Username / Password are only written when their Has flag is
//     set.
//   - In v3.x: Props, ReasonCode of acks / DISCONNECT, SubReq.NoLocal/RAP/RH
//     and UNSUBACK ReasonCodes are not representable and are ignored.
//   - In v3.1 only, Dup on PUBREL/SUBSCRIBE/UNSUBSCRIBE sets the DUP bit of
//     the fixed header.
func Encode(p *Packet, v Version) ([]byte, error) {
	return EncodeWith(p, v, EncodeOpts{})
}

// EncodeWith is Encode with deviations.
func EncodeWith(p *Packet, v Version, o EncodeOpts) ([]byte, error) {
	if p == nil {
		return nil, fmt.Errorf("mqttwire: Encode: nil packet")
	}
	if !v.valid() {
		return nil, fmt.Errorf("mqttwire: Encode: unknown version %d", byte(v))
	}
	if p.Type < CONNECT || p.Type > AUTH {
		return nil, fmt.Errorf("mqttwire: Encode: unknown packet type %d", byte(p.Type))
	}
	if p.Type == AUTH && v != V5 {
		return nil, fmt.Errorf("mqttwire: Encode: AUTH does not exist in MQTT %s", v)
	}
	body, err := encodeBody(p, v, o)
	if err != nil {
		return nil, fmt.Errorf("mqttwire: Encode %s: %w", p.Type, err)
	}
	// The PUBLISH payload is not part of body: it is appended directly to the
	// output so that large payloads are copied once, and not at all when the
	// packet is too large.
	var tail []byte
	if p.Type == PUBLISH {
		tail = p.Payload
	}
	rl := len(body) + len(tail)
	if rl > MaxVarInt {
		return nil, fmt.Errorf("mqttwire: Encode %s: remaining length %d: %w", p.Type, rl, ErrTooLarge)
	}
	flags := fixedFlags(p, v)
	if o.FixedFlags != nil {
		flags = *o.FixedFlags & 0x0f
	}
	out := make([]byte, 0, 1+VarIntLen(uint32(rl))+rl)
	out = append(out, byte(p.Type)<<4|flags)
	out = AppendVarInt(out, uint32(rl))
	out = append(out, body...)
	out = append(out, tail...)
	return out, nil
}

func b2i(b bool) byte {
	if b {
		return 1
	}
	return 0
}

func fixedFlags(p *Packet, v Version) byte {
	switch p.Type {
	case PUBLISH:
		return b2i(p.Dup)<<3 | (p.QoS&3)<<1 | b2i(p.Retain)
	case PUBREL, SUBSCRIBE, UNSUBSCRIBE:
		f := byte(0x02)
		if v == V31 && p.Dup {
			f |= 0x08
		}
		return f
	}
	return 0
}

// encodeBody returns everything after the fixed header, except the payload of
// a PUBLISH.
func encodeBody(p *Packet, v Version, o EncodeOpts) ([]byte, error) {
	var b []byte
	var err error
	v5 := v == V5
	switch p.Type {
	case CONNECT:
		name, level := p.ProtoName, p.ProtoLevel
		if name == "" && level == 0 {
			name, level = ProtoFor(v)
		}
		if b, err = appendString(b, name); err != nil {
			return nil, err
		}
		b = append(b, level)
		var cf byte
		if p.CleanStart {
			cf |= 0x02
		}
		if p.Will != nil {
			cf |= 0x04 | (p.Will.QoS&3)<<3
			if p.Will.Retain {
				cf |= 0x20
			}
		}
		if p.HasPassword {
			cf |= 0x40
		}
		if p.HasUsername {
			cf |= 0x80
		}
		b = append(b, cf)
		b = binary.BigEndian.AppendUint16(b, p.KeepAlive)
		if v5 {
			if b, err = appendProps(b, p.Props); err != nil {
				return nil, err
			}
		}
		if b, err = appendString(b, p.ClientID); err != nil {
			return nil, err
		}
		if w := p.Will; w != nil {
			if v5 {
				if b, err = appendProps(b, w.Props); err != nil {
					return nil, err
				}
			}
			if b, err = appendString(b, w.Topic); err != nil {
				return nil, err
			}
			if b, err = appendBinary(b, w.Payload); err != nil {
				return nil, err
			}
		}
		if p.HasUsername {
			if b, err = appendString(b, p.Username); err != nil {
				return nil, err
			}
		}
		if p.HasPassword {
			if b, err = appendBinary(b, p.Password); err != nil {
				return nil, err
			}
		}
		return b, nil

	case CONNACK:
		b = append(b, b2i(p.SessionPresent), p.ReasonCode)
		if v5 {
			return appendProps(b, p.Props)
		}
		return b, nil

	case PUBLISH:
		if b, err = appendString(b, p.Topic); err != nil {
			return nil, err
		}
		if p.QoS > 0 {
			b = binary.BigEndian.AppendUint16(b, p.PacketID)
		}
		if v5 {
			if b, err = appendProps(b, p.Props); err != nil {
				return nil, err
			}
		}
		return b, nil // payload: see EncodeWith

	case PUBACK, PUBREC, PUBREL, PUBCOMP:
		b = binary.BigEndian.AppendUint16(b, p.PacketID)
		if !v5 {
			return b, nil
		}
		empty := p.Props.IsEmpty()
		switch {
		case !empty || o.ForceLongAck:
			b = append(b, p.ReasonCode)
			return appendProps(b, p.Props)
		case p.ReasonCode != 0 || o.ForceReasonCode:
			return append(b, p.ReasonCode), nil
		}
		return b, nil

	case SUBSCRIBE:
		b = binary.BigEndian.AppendUint16(b, p.PacketID)
		if v5 {
			if b, err = appendProps(b, p.Props); err != nil {
				return nil, err
			}
		}
		for _, s := range p.Subs {
			if b, err = appendString(b, s.Filter); err != nil {
				return nil, err
			}
			opt := s.QoS & 3
			if v5 {
				opt |= b2i(s.NoLocal)<<2 | b2i(s.RAP)<<3 | (s.RH&3)<<4
			}
			b = append(b, opt)
		}
		return b, nil

	case SUBACK:
		b = binary.BigEndian.AppendUint16(b, p.PacketID)
		if v5 {
			if b, err = appendProps(b, p.Props); err != nil {
				return nil, err
			}
		}
		return append(b, p.ReasonCodes...), nil

	case UNSUBSCRIBE:
		b = binary.BigEndian.AppendUint16(b, p.PacketID)
		if v5 {
			if b, err = appendProps(b, p.Props); err != nil {
				return nil, err
			}
		}
		for _, f := range p.Filters {
			if b, err = appendString(b, f); err != nil {
				return nil, err
			}
		}
		return b, nil

	case UNSUBACK:
		b = binary.BigEndian.AppendUint16(b, p.PacketID)
		if v5 {
			if b, err = appendProps(b, p.Props); err != nil {
				return nil, err
			}
			b = append(b, p.ReasonCodes...)
		}
		return b, nil

	case PINGREQ, PINGRESP:
		return nil, nil

	case DISCONNECT:
		if !v5 {
			return nil, nil
		}
		empty := p.Props.IsEmpty()
		switch {
		case !empty || o.ForceLongAck:
			b = append(b, p.ReasonCode)
			return appendProps(b, p.Props)
		case p.ReasonCode != 0 || o.ForceReasonCode:
			return append(b, p.ReasonCode), nil
		}
		return nil, nil

	case AUTH:
		if p.Props.IsEmpty() && p.ReasonCode == 0 && !o.ForceLongAck {
			return nil, nil
		}
		b = append(b, p.ReasonCode)
		return appendProps(b, p.Props)
	}
	return nil, fmt.Errorf("unknown packet type %d", byte(p.Type))
}
