package mqttwire

// Generators (pgregory.net/rapid) of valid packets and their parts. They live
// in a non-test file so that other packages of the harness can use them.
//
// "Valid" means: Decode(Encode(p, v), v, d) succeeds and yields a packet
// Equal to p, AND the packet respects the single-packet semantic rules of the
// spec that Decode does not check (reason codes from the right table, topic
// names without wildcards, well-formed filters, DUP=0 with QoS 0, no
// Authentication Data without Authentication Method, Payload Format
// Indicator 1 only with a UTF-8 payload, Session Present only with code 0,
// ...). Whether a broker in a given state / configuration accepts the packet
// is of course another matter.

import (
	"strings"
	"unicode/utf8"

	"pgregory.net/rapid"
)

// ---------------------------------------------------------------------------
// Strings

var boundaryRunes = []rune{
	0x20, 0x7e, 0xa0, 0x7ff, 0x800, 0xd7ff, 0xe000, 0xfdcf, 0xfdf0, 0xfeff, 0xfffd,
	0x10000, 0x1fffd, 0x20000, 0x10fffd,
}

func isMayRune(r rune) bool {
	return (r >= 1 && r < 0x20) || (r >= 0x7f && r <= 0x9f) || (r >= 0xfdd0 && r <= 0xfdef) || r&0xfffe == 0xfffe
}

// GenRune generates code points that every MQTT receiver must accept
// (UTF8Must): 1, 2, 3 and 4 byte encodings, with ASCII the most frequent.
func GenRune() *rapid.Generator[rune] {
	return rapid.Custom(func(t *rapid.T) rune {
		var r rune
		switch k := rapid.IntRange(0, 11).Draw(t, "runeKind"); {
		case k <= 6:
			r = rune(rapid.IntRange(0x20, 0x7e).Draw(t, "ascii"))
		case k == 7:
			r = rune(rapid.IntRange(0xa0, 0x7ff).Draw(t, "rune2"))
		case k == 8:
			r = rune(rapid.IntRange(0x800, 0xfffd).Draw(t, "rune3"))
		case k == 9:
			r = rune(rapid.IntRange(0x10000, 0x10fffd).Draw(t, "rune4"))
		default:
			r = rapid.SampledFrom(boundaryRunes).Draw(t, "runeB")
		}
		if (r >= 0xd800 && r <= 0xdfff) || isMayRune(r) || r == 0 || !utf8.ValidRune(r) {
			r = 0x4e2d // an arbitrary harmless 3 byte code point
		}
		return r
	})
}

// GenUTF8String generates legal MQTT UTF-8 strings of class UTF8Must: a mix
// of empty / short / medium strings of ASCII and multi-byte code points, and
// long ones (> 127 bytes, up to about 1.2 kB) so that enclosing lengths need
// two byte variable byte integers.
func GenUTF8String() *rapid.Generator[string] {
	return rapid.Custom(func(t *rapid.T) string {
		switch k := rapid.IntRange(0, 9).Draw(t, "strKind"); {
		case k <= 4:
			return rapid.StringOfN(GenRune(), 0, 8, -1).Draw(t, "short")
		case k <= 7:
			return rapid.StringOfN(GenRune(), 0, 40, -1).Draw(t, "medium")
		case k == 8:
			// long, cheap to generate: a short unit repeated
			unit := rapid.StringOfN(GenRune(), 1, 6, -1).Draw(t, "unit")
			n := rapid.IntRange(128, 300).Draw(t, "repeat")
			return strings.Repeat(unit, (n+len(unit)-1)/len(unit))
		default:
			return rapid.StringOfN(GenRune(), 128, 200, -1).Draw(t, "long")
		}
	})
}

// GenUTF8MayString generates well-formed strings that contain at least one
// code point a receiver MAY reject (class UTF8May): a C0/C1 control character
// or a non-character.
func GenUTF8MayString() *rapid.Generator[string] {
	may := []rune{0x01, 0x09, 0x0a, 0x1f, 0x7f, 0x80, 0x9f, 0xfdd0, 0xfdef, 0xfffe, 0xffff, 0x1fffe, 0x10ffff}
	return rapid.Custom(func(t *rapid.T) string {
		a := rapid.StringOfN(GenRune(), 0, 6, -1).Draw(t, "pre")
		b := rapid.StringOfN(GenRune(), 0, 6, -1).Draw(t, "post")
		return a + string(rapid.SampledFrom(may).Draw(t, "may")) + b
	})
}

var topicLevels = []string{"a", "b", "c", "d", "a", "b", "é", "日本", "x y", ""}

// GenTopicName generates valid topic names (non-empty, no wildcards, never
// starting with '$') over a small alphabet of levels, 1 to 4 levels deep, so
// that names and the filters of GenTopicFilter collide often. Empty levels
// ("a//b", "/a", "a/") occur occasionally.
func GenTopicName() *rapid.Generator[string] {
	return rapid.Custom(func(t *rapid.T) string {
		lv := rapid.SliceOfN(rapid.SampledFrom(topicLevels), 1, 4).Draw(t, "levels")
		s := strings.Join(lv, "/")
		if s == "" {
			s = "a"
		}
		return s
	})
}

// GenTopicFilter generates valid topic filters over the same alphabet as
// GenTopicName, with '+' levels and an optional trailing '#'. It does not
// generate "$share/..." filters.
func GenTopicFilter() *rapid.Generator[string] {
	return rapid.Custom(func(t *rapid.T) string {
		levels := append([]string{"+", "+"}, topicLevels...)
		lv := rapid.SliceOfN(rapid.SampledFrom(levels), 0, 4).Draw(t, "levels")
		if len(lv) == 0 || rapid.IntRange(0, 3).Draw(t, "hash") == 0 {
			lv = append(lv, "#")
		}
		s := strings.Join(lv, "/")
		if s == "" {
			s = "+"
		}
		return s
	})
}

// GenSharedFilter generates "$share/<group>/<filter>" filters (MQTT 5).
func GenSharedFilter() *rapid.Generator[string] {
	return rapid.Custom(func(t *rapid.T) string {
		g := rapid.SampledFrom([]string{"g1", "g2", "grp"}).Draw(t, "group")
		return "$share/" + g + "/" + GenTopicFilter().Draw(t, "filter")
	})
}

// GenBytes generates binary data: mostly short random bytes, sometimes a
// patterned block whose size sits around the variable byte integer
// boundaries (127/128) - and, if big is set, rarely around 16383/16384.
func GenBytes(big bool) *rapid.Generator[[]byte] {
	return rapid.Custom(func(t *rapid.T) []byte {
		k := rapid.IntRange(0, 39).Draw(t, "bytesKind")
		var n int
		switch {
		case k < 30:
			return rapid.SliceOfN(rapid.Byte(), 0, 48).Draw(t, "bytes")
		case k < 39 || !big:
			n = rapid.SampledFrom([]int{100, 120, 126, 127, 128, 129, 200, 300}).Draw(t, "size")
		default:
			n = rapid.SampledFrom([]int{16380, 16383, 16384, 16400}).Draw(t, "bigSize")
		}
		seed := rapid.Byte().Draw(t, "seed")
		b := make([]byte, n)
		for i := range b {
			b[i] = seed + byte(i*7)
		}
		return b
	})
}

// ---------------------------------------------------------------------------
// Properties

func ptr[T any](v T) *T { return &v }

// GenProps generates a property set drawn from the allowed identifiers; each
// allowed property is present with probability about 1/3 (User Property:
// 0 to 3 pairs; Subscription Identifier: exactly one when present). All
// values are within their legal range. It returns nil when no property was
// selected. No allowed identifiers at all means "every property".
func GenProps(allowed ...PropID) *rapid.Generator[*Props] {
	set := setOf(allowed...)
	if len(allowed) == 0 {
		set = allDefinedProps
	}
	return rapid.Custom(func(t *rapid.T) *Props {
		p := &Props{}
		// one draw decides which properties are present: a good shrink target
		mode := rapid.IntRange(0, 5).Draw(t, "propMode") // 0: none, 5: all
		want := func(id PropID) bool {
			if !set.has(id) || mode == 0 {
				return false
			}
			if mode == 5 {
				return true
			}
			return rapid.IntRange(0, 2).Draw(t, id.String()+"?") == 0
		}
		flag := func(id PropID) *byte {
			if want(id) {
				return ptr(byte(rapid.IntRange(0, 1).Draw(t, id.String())))
			}
			return nil
		}
		u16 := func(id PropID, min int) *uint16 {
			if want(id) {
				return ptr(uint16(rapid.IntRange(min, 65535).Draw(t, id.String())))
			}
			return nil
		}
		u32 := func(id PropID, min uint32) *uint32 {
			if want(id) {
				return ptr(rapid.Uint32Min(min).Draw(t, id.String()))
			}
			return nil
		}
		str := func(id PropID) *string {
			if want(id) {
				return ptr(GenUTF8String().Draw(t, id.String()))
			}
			return nil
		}
		p.PayloadFormat = flag(PropPayloadFormat)
		p.MessageExpiry = u32(PropMessageExpiry, 0)
		p.ContentType = str(PropContentType)
		if want(PropResponseTopic) {
			p.ResponseTopic = ptr(GenTopicName().Draw(t, "ResponseTopic"))
		}
		if want(PropCorrelationData) {
			p.HasCorrelationData = true
			p.CorrelationData = GenBytes(false).Draw(t, "CorrelationData")
		}
		if want(PropSubscriptionID) {
			p.SubscriptionIDs = []uint32{genSubID().Draw(t, "SubscriptionID")}
		}
		p.SessionExpiry = u32(PropSessionExpiry, 0)
		p.AssignedClientID = str(PropAssignedClientID)
		p.ServerKeepAlive = u16(PropServerKeepAlive, 0)
		p.AuthMethod = str(PropAuthMethod)
		if want(PropAuthData) {
			p.HasAuthData = true
			p.AuthData = GenBytes(false).Draw(t, "AuthData")
		}
		p.RequestProblemInfo = flag(PropRequestProblemInfo)
		p.WillDelay = u32(PropWillDelay, 0)
		p.RequestResponseInfo = flag(PropRequestResponseInfo)
		p.ResponseInfo = str(PropResponseInfo)
		p.ServerReference = str(PropServerReference)
		p.ReasonString = str(PropReasonString)
		p.ReceiveMax = u16(PropReceiveMax, 1)
		p.TopicAliasMax = u16(PropTopicAliasMax, 0)
		p.TopicAlias = u16(PropTopicAlias, 1)
		p.MaximumQoS = flag(PropMaximumQoS)
		p.RetainAvailable = flag(PropRetainAvailable)
		if want(PropUser) {
			n := rapid.IntRange(1, 3).Draw(t, "nUser")
			for i := 0; i < n; i++ {
				p.User = append(p.User, UserProp{
					K: GenUTF8String().Draw(t, "userK"),
					V: GenUTF8String().Draw(t, "userV"),
				})
			}
		}
		p.MaxPacketSize = u32(PropMaxPacketSize, 1)
		p.WildcardSubAvailable = flag(PropWildcardSubAvailable)
		p.SubIDAvailable = flag(PropSubIDAvailable)
		p.SharedSubAvailable = flag(PropSharedSubAvailable)
		if p.IsEmpty() {
			return nil
		}
		return p
	})
}

func genSubID() *rapid.Generator[uint32] {
	return rapid.OneOf(
		rapid.Uint32Range(1, 200),
		rapid.SampledFrom([]uint32{1, 127, 128, 16383, 16384, 2097151, 2097152, MaxVarInt}),
		rapid.Uint32Range(1, MaxVarInt),
	)
}

// fixAuth removes Authentication Data that has no Authentication Method.
func fixAuth(p *Props) *Props {
	if p != nil && p.AuthMethod == nil && p.HasAuthData {
		p.HasAuthData, p.AuthData = false, nil
		if p.IsEmpty() {
			return nil
		}
	}
	return p
}

// fixPayloadFormat clears a Payload Format Indicator of 1 that does not match
// the payload.
func fixPayloadFormat(p *Props, payload []byte) {
	if p != nil && p.PayloadFormat != nil && *p.PayloadFormat == 1 && ClassifyUTF8(payload) == UTF8Bad {
		*p.PayloadFormat = 0
	}
}

// ---------------------------------------------------------------------------
// Reason codes

var (
	connackCodesV5    = []byte{0x00, 0x80, 0x81, 0x82, 0x83, 0x84, 0x85, 0x86, 0x87, 0x88, 0x89, 0x8A, 0x8C, 0x90, 0x95, 0x97, 0x99, 0x9A, 0x9B, 0x9C, 0x9D, 0x9F}
	pubackCodesV5     = []byte{0x00, 0x00, 0x00, 0x10, 0x80, 0x83, 0x87, 0x90, 0x91, 0x97, 0x99}
	pubrelCodesV5     = []byte{0x00, 0x00, 0x92}
	subackCodesV5     = []byte{0x00, 0x01, 0x02, 0x80, 0x83, 0x87, 0x8F, 0x91, 0x97, 0x9E, 0xA1, 0xA2}
	unsubackCodesV5   = []byte{0x00, 0x11, 0x80, 0x83, 0x87, 0x8F, 0x91}
	disconnectToSrv   = []byte{0x00, 0x00, 0x04, 0x80, 0x81, 0x82, 0x83, 0x90, 0x93, 0x94, 0x95, 0x96, 0x97, 0x98, 0x99}
	disconnectToCli   = []byte{0x00, 0x80, 0x81, 0x82, 0x83, 0x87, 0x89, 0x8B, 0x8D, 0x8E, 0x8F, 0x90, 0x93, 0x94, 0x95, 0x96, 0x97, 0x98, 0x99, 0x9A, 0x9B, 0x9C, 0x9D, 0x9E, 0x9F, 0xA0, 0xA1, 0xA2}
	disconnectCommonC = []byte{0x00, 0x00, 0x80, 0x81, 0x82, 0x83, 0x90, 0x93, 0x94, 0x95, 0x96, 0x97, 0x98, 0x99}
	authCodesV5       = []byte{0x00, 0x18, 0x19}
)

// ---------------------------------------------------------------------------
// Packets

// LegalTypes returns the packet types that may travel in direction d in
// version v.
func LegalTypes(v Version, d Direction) []Type {
	var out []Type
	for t := CONNECT; t <= AUTH; t++ {
		if t == AUTH && v != V5 {
			continue
		}
		if legalIn(t, v, d) {
			out = append(out, t)
		}
	}
	return out
}

// GenPacket generates valid packets of every type that is legal for version
// v in direction d, with every property that is legal there.
func GenPacket(v Version, d Direction) *rapid.Generator[*Packet] {
	types := LegalTypes(v, d)
	return rapid.Custom(func(t *rapid.T) *Packet {
		ty := rapid.SampledFrom(types).Draw(t, "type")
		return GenPacketOf(ty, v, d).Draw(t, "packet")
	})
}

func genPacketID() *rapid.Generator[uint16] {
	return rapid.OneOf(rapid.Uint16Range(1, 20), rapid.Uint16Range(1, 65535), rapid.SampledFrom([]uint16{1, 255, 256, 65535}))
}

// GenPacketOf generates valid packets of type ty for version v travelling in
// direction d. It panics (at generator construction) if the type is not legal
// there.
func GenPacketOf(ty Type, v Version, d Direction) *rapid.Generator[*Packet] {
	if !v.valid() || ty < CONNECT || ty > AUTH || (ty == AUTH && v != V5) || !legalIn(ty, v, d) {
		panic("mqttwire: GenPacketOf: " + ty.String() + " is not legal in MQTT " + v.String() + " " + d.String())
	}
	v5 := v == V5
	props := func(t *rapid.T, label string) *Props {
		if !v5 {
			return nil
		}
		return GenProps(AllowedProps(ty, d)...).Draw(t, label)
	}
	if ty == PINGREQ || ty == PINGRESP || (ty == DISCONNECT && !v5) {
		// nothing to draw (and a rapid.Custom generator must draw something)
		return rapid.Map(rapid.Just(ty), func(ty Type) *Packet { return &Packet{Type: ty} })
	}
	return rapid.Custom(func(t *rapid.T) *Packet {
		p := &Packet{Type: ty}
		switch ty {
		case CONNECT:
			p.ProtoName, p.ProtoLevel = ProtoFor(v)
			p.CleanStart = rapid.Bool().Draw(t, "clean")
			p.KeepAlive = rapid.OneOf(rapid.Uint16Range(0, 60), rapid.Uint16()).Draw(t, "keepalive")
			p.ClientID = rapid.StringMatching(`[0-9a-zA-Z]{0,23}`).Draw(t, "clientID")
			p.HasUsername = rapid.Bool().Draw(t, "hasUser")
			if p.HasUsername {
				p.Username = GenUTF8String().Draw(t, "user")
			}
			if p.HasUsername || v5 {
				p.HasPassword = rapid.Bool().Draw(t, "hasPass")
			}
			if p.HasPassword {
				p.Password = GenBytes(false).Draw(t, "pass")
			}
			if rapid.Bool().Draw(t, "hasWill") {
				w := &Will{
					QoS:     byte(rapid.IntRange(0, 2).Draw(t, "willQoS")),
					Retain:  rapid.Bool().Draw(t, "willRetain"),
					Topic:   GenTopicName().Draw(t, "willTopic"),
					Payload: GenBytes(false).Draw(t, "willPayload"),
				}
				if v5 {
					w.Props = GenProps(WillProps()...).Draw(t, "willProps")
					fixPayloadFormat(w.Props, w.Payload)
				}
				p.Will = w
			}
			p.Props = fixAuth(props(t, "props"))

		case CONNACK:
			switch {
			case v5:
				p.ReasonCode = rapid.SampledFrom(connackCodesV5).Draw(t, "rc")
			default:
				p.ReasonCode = byte(rapid.IntRange(0, 5).Draw(t, "rc"))
			}
			if rapid.IntRange(0, 2).Draw(t, "rcZero") > 0 {
				p.ReasonCode = 0
			}
			if p.ReasonCode == 0 && v != V31 {
				p.SessionPresent = rapid.Bool().Draw(t, "sp")
			}
			p.Props = fixAuth(props(t, "props"))

		case PUBLISH:
			p.QoS = byte(rapid.IntRange(0, 2).Draw(t, "qos"))
			p.Retain = rapid.Bool().Draw(t, "retain")
			if p.QoS > 0 {
				p.Dup = rapid.Bool().Draw(t, "dup")
				p.PacketID = genPacketID().Draw(t, "id")
			}
			p.Topic = GenTopicName().Draw(t, "topic")
			p.Payload = GenBytes(true).Draw(t, "payload")
			p.Props = props(t, "props")
			fixPayloadFormat(p.Props, p.Payload)
			if v5 && d&ToClient != 0 && p.Props != nil && len(p.Props.SubscriptionIDs) > 0 {
				// several matching subscriptions: several identifiers
				n := rapid.IntRange(0, 2).Draw(t, "moreSubIDs")
				for i := 0; i < n; i++ {
					p.Props.SubscriptionIDs = append(p.Props.SubscriptionIDs, genSubID().Draw(t, "subID"))
				}
			}

		case PUBACK, PUBREC, PUBREL, PUBCOMP:
			p.PacketID = genPacketID().Draw(t, "id")
			if v5 {
				codes := pubackCodesV5
				if ty == PUBREL || ty == PUBCOMP {
					codes = pubrelCodesV5
				}
				p.ReasonCode = rapid.SampledFrom(codes).Draw(t, "rc")
			}
			if v == V31 && ty == PUBREL {
				p.Dup = rapid.Bool().Draw(t, "dup")
			}
			p.Props = props(t, "props")

		case SUBSCRIBE:
			p.PacketID = genPacketID().Draw(t, "id")
			n := rapid.IntRange(1, 4).Draw(t, "nSubs")
			for i := 0; i < n; i++ {
				s := SubReq{
					Filter: GenTopicFilter().Draw(t, "filter"),
					QoS:    byte(rapid.IntRange(0, 2).Draw(t, "subQoS")),
				}
				if v5 {
					s.NoLocal = rapid.Bool().Draw(t, "nl")
					s.RAP = rapid.Bool().Draw(t, "rap")
					s.RH = byte(rapid.IntRange(0, 2).Draw(t, "rh"))
				}
				p.Subs = append(p.Subs, s)
			}
			if v == V31 {
				p.Dup = rapid.Bool().Draw(t, "dup")
			}
			p.Props = props(t, "props")

		case SUBACK:
			p.PacketID = genPacketID().Draw(t, "id")
			codes := []byte{0, 1, 2}
			switch v {
			case V311:
				codes = []byte{0, 1, 2, 0x80}
			case V5:
				codes = subackCodesV5
			}
			p.ReasonCodes = rapid.SliceOfN(rapid.SampledFrom(codes), 1, 4).Draw(t, "codes")
			p.Props = props(t, "props")

		case UNSUBSCRIBE:
			p.PacketID = genPacketID().Draw(t, "id")
			p.Filters = rapid.SliceOfN(GenTopicFilter(), 1, 4).Draw(t, "filters")
			if v == V31 {
				p.Dup = rapid.Bool().Draw(t, "dup")
			}
			p.Props = props(t, "props")

		case UNSUBACK:
			p.PacketID = genPacketID().Draw(t, "id")
			if v5 {
				p.ReasonCodes = rapid.SliceOfN(rapid.SampledFrom(unsubackCodesV5), 1, 4).Draw(t, "codes")
			}
			p.Props = props(t, "props")

		case PINGREQ, PINGRESP:

		case DISCONNECT:
			if v5 {
				codes := disconnectCommonC
				switch d {
				case ToServer:
					codes = disconnectToSrv
				case ToClient:
					codes = disconnectToCli
				}
				p.ReasonCode = rapid.SampledFrom(codes).Draw(t, "rc")
				p.Props = props(t, "props")
			}

		case AUTH:
			if rapid.IntRange(0, 4).Draw(t, "short") == 0 {
				break // reason code 0, no properties: remaining length 0
			}
			p.ReasonCode = rapid.SampledFrom(authCodesV5).Draw(t, "rc")
			p.Props = props(t, "props")
			if p.Props == nil {
				p.Props = &Props{}
			}
			if p.Props.AuthMethod == nil { // mandatory in AUTH
				p.Props.AuthMethod = ptr(rapid.SampledFrom([]string{"PLAIN", "SCRAM-SHA-1", "x"}).Draw(t, "method"))
			}
		}
		return p
	})
}
