// Package mqttwire is an independent MQTT 3.1 / 3.1.1 / 5.0 wire codec.
//
// It is written from the OASIS specifications only (MQTT V3.1 protocol
// specification, MQTT Version 3.1.1 OASIS Standard, MQTT Version 5.0 OASIS
// Standard) and deliberately shares no code with the broker under test: it is
// the trusted observer of what is on the wire.
//
// Scope of Decode strictness: Decode checks everything that can be decided by
// looking at ONE packet in isolation given the protocol version and the
// direction of travel (framing, reserved bits, UTF-8 well-formedness, property
// legality, ...). It does not check things that need session state or that are
// purely "value tables" (reason code values, topic name / filter syntax). For
// those, see ValidReasonCode, ValidTopicName and ValidTopicFilter.
package mqttwire

import (
	"errors"
	"fmt"
	"unicode/utf8"
)

// Version is the protocol level byte of CONNECT.
type Version byte

const (
	V31  Version = 3
	V311 Version = 4
	V5   Version = 5
)

func (v Version) valid() bool { return v == V31 || v == V311 || v == V5 }

func (v Version) String() string {
	switch v {
	case V31:
		return "3.1"
	case V311:
		return "3.1.1"
	case V5:
		return "5.0"
	}
	return fmt.Sprintf("Version(%d)", byte(v))
}

// Type is the MQTT control packet type (high nibble of the first byte).
type Type byte

const (
	CONNECT     Type = 1
	CONNACK     Type = 2
	PUBLISH     Type = 3
	PUBACK      Type = 4
	PUBREC      Type = 5
	PUBREL      Type = 6
	PUBCOMP     Type = 7
	SUBSCRIBE   Type = 8
	SUBACK      Type = 9
	UNSUBSCRIBE Type = 10
	UNSUBACK    Type = 11
	PINGREQ     Type = 12
	PINGRESP    Type = 13
	DISCONNECT  Type = 14
	AUTH        Type = 15
)

var typeNames = [16]string{
	"RESERVED0", "CONNECT", "CONNACK", "PUBLISH", "PUBACK", "PUBREC", "PUBREL", "PUBCOMP",
	"SUBSCRIBE", "SUBACK", "UNSUBSCRIBE", "UNSUBACK", "PINGREQ", "PINGRESP", "DISCONNECT", "AUTH",
}

func (t Type) String() string {
	if t < 16 {
		return typeNames[t]
	}
	return fmt.Sprintf("Type(%d)", byte(t))
}

// Direction is the direction of travel of a packet. It selects which packet
// types and which properties Decode regards as legal.
type Direction byte

const (
	ToServer Direction = 1
	ToClient Direction = 2
	AnyDir   Direction = 3
)

func (d Direction) String() string {
	switch d {
	case ToServer:
		return "ToServer"
	case ToClient:
		return "ToClient"
	case AnyDir:
		return "AnyDir"
	}
	return fmt.Sprintf("Direction(%d)", byte(d))
}

// UserProp is one User Property (0x26) name/value pair.
type UserProp struct{ K, V string }

// Props holds every MQTT 5 property. Pointer == nil / slice == nil means
// absent. For binary data, presence is tracked by the separate Has* bools
// (a present, zero length binary value is legal and distinct from absent).
type Props struct {
	PayloadFormat        *byte      // 0x01
	MessageExpiry        *uint32    // 0x02
	ContentType          *string    // 0x03
	ResponseTopic        *string    // 0x08
	CorrelationData      []byte     // 0x09
	HasCorrelationData   bool       //
	SubscriptionIDs      []uint32   // 0x0B; may repeat in PUBLISH (server->client)
	SessionExpiry        *uint32    // 0x11
	AssignedClientID     *string    // 0x12
	ServerKeepAlive      *uint16    // 0x13
	AuthMethod           *string    // 0x15
	AuthData             []byte     // 0x16
	HasAuthData          bool       //
	RequestProblemInfo   *byte      // 0x17
	WillDelay            *uint32    // 0x18
	RequestResponseInfo  *byte      // 0x19
	ResponseInfo         *string    // 0x1A
	ServerReference      *string    // 0x1C
	ReasonString         *string    // 0x1F
	ReceiveMax           *uint16    // 0x21
	TopicAliasMax        *uint16    // 0x22
	TopicAlias           *uint16    // 0x23
	MaximumQoS           *byte      // 0x24
	RetainAvailable      *byte      // 0x25
	User                 []UserProp // 0x26
	MaxPacketSize        *uint32    // 0x27
	WildcardSubAvailable *byte      // 0x28
	SubIDAvailable       *byte      // 0x29
	SharedSubAvailable   *byte      // 0x2A
}

// Will is the will message of a CONNECT packet.
type Will struct {
	QoS     byte
	Retain  bool
	Topic   string
	Payload []byte
	Props   *Props // v5 only
}

// SubReq is one topic filter + subscription options pair of a SUBSCRIBE.
// NoLocal, RAP and RH only exist in v5.
type SubReq struct {
	Filter  string
	QoS     byte
	NoLocal bool
	RAP     bool
	RH      byte
}

// Packet is one struct for all 15 packet types; only the fields of its Type
// are meaningful.
type Packet struct {
	Type Type
	// CONNECT
	ProtoName                string
	ProtoLevel               byte
	CleanStart               bool
	KeepAlive                uint16
	ClientID                 string
	HasUsername, HasPassword bool
	Username                 string
	Password                 []byte
	Will                     *Will
	// CONNACK
	SessionPresent bool
	// CONNACK, PUBACK, PUBREC, PUBREL, PUBCOMP, DISCONNECT, AUTH (v5 reason code; v3 CONNACK return code)
	ReasonCode byte
	// PUBLISH. (In MQTT 3.1 only, Dup is also carried by PUBREL, SUBSCRIBE
	// and UNSUBSCRIBE, whose fixed header is "QoS 1, DUP optional".)
	Dup     bool
	QoS     byte
	Retain  bool
	Topic   string
	Payload []byte
	// PUBLISH(QoS>0), PUBACK.., SUBSCRIBE, SUBACK, UNSUBSCRIBE, UNSUBACK
	PacketID    uint16
	Subs        []SubReq // SUBSCRIBE
	Filters     []string // UNSUBSCRIBE
	ReasonCodes []byte   // SUBACK / UNSUBACK(v5)
	Props       *Props   // v5 only; nil == zero-length property section
	Raw         []byte   // set by Decode: the exact bytes of the packet (fixed header included)
}

// Version returns the protocol version announced by a CONNECT packet
// (0 if the packet is not a CONNECT with a known name/level pair).
func (p *Packet) Version() Version {
	if p == nil || p.Type != CONNECT {
		return 0
	}
	switch {
	case p.ProtoName == "MQIsdp" && p.ProtoLevel == 3:
		return V31
	case p.ProtoName == "MQTT" && p.ProtoLevel == 4:
		return V311
	case p.ProtoName == "MQTT" && p.ProtoLevel == 5:
		return V5
	}
	return 0
}

// ProtoFor returns the protocol name and level of a version.
func ProtoFor(v Version) (name string, level byte) {
	switch v {
	case V31:
		return "MQIsdp", 3
	case V311:
		return "MQTT", 4
	case V5:
		return "MQTT", 5
	}
	return "", 0
}

// ---------------------------------------------------------------------------
// Errors

// ErrIncomplete is returned (wrapped) by Decode and ReadVarInt when the input
// is a strict prefix of a possibly valid packet / integer.
var ErrIncomplete = errors.New("mqttwire: incomplete packet")

// ErrTooLarge is returned by Encode for things that cannot be encoded.
var ErrTooLarge = errors.New("mqttwire: value too large to encode")

// ErrKind classifies a DecodeError the way MQTT 5 §4.13 does. The numeric
// value is the MQTT 5 reason code a receiver would use to report it.
type ErrKind byte

const (
	Malformed          ErrKind = 0x81 // Malformed Packet: the bytes cannot be parsed per the spec
	ProtocolError      ErrKind = 0x82 // Protocol Error: parseable but forbidden (duplicate property, value out of range, packet type not legal in this direction, ...)
	UnsupportedVersion ErrKind = 0x84 // CONNECT with an unknown protocol name / level
)

func (k ErrKind) String() string {
	switch k {
	case Malformed:
		return "malformed packet"
	case ProtocolError:
		return "protocol error"
	case UnsupportedVersion:
		return "unsupported protocol version"
	}
	return fmt.Sprintf("ErrKind(0x%02x)", byte(k))
}

// DecodeError is the error type of every rejection by Decode (other than
// ErrIncomplete).
type DecodeError struct {
	Kind ErrKind
	Type Type // packet type being decoded, 0 if not known yet
	Msg  string
}

func (e *DecodeError) Error() string {
	if e.Type != 0 {
		return fmt.Sprintf("mqttwire: %s: %s: %s", e.Kind, e.Type, e.Msg)
	}
	return fmt.Sprintf("mqttwire: %s: %s", e.Kind, e.Msg)
}

// IsMalformed reports whether err is a DecodeError of any kind (i.e. a
// definite rejection, as opposed to ErrIncomplete or an I/O error).
func IsMalformed(err error) bool {
	var de *DecodeError
	return errors.As(err, &de)
}

// ---------------------------------------------------------------------------
// Variable byte integer

// MaxVarInt is the largest value a variable byte integer can hold.
const MaxVarInt = 268435455

// AppendVarInt appends the minimal variable byte integer encoding of x.
// x must be <= MaxVarInt; larger values are clamped to MaxVarInt (callers in
// this package check the range before calling).
func AppendVarInt(dst []byte, x uint32) []byte {
	if x > MaxVarInt {
		x = MaxVarInt
	}
	for {
		b := byte(x & 0x7f)
		x >>= 7
		if x > 0 {
			dst = append(dst, b|0x80)
		} else {
			return append(dst, b)
		}
	}
}

// AppendVarIntN appends x using exactly n bytes (1..4), i.e. a possibly
// non-minimal encoding. For tests of malformed input. It panics if x does not
// fit in n bytes.
func AppendVarIntN(dst []byte, x uint32, n int) []byte {
	if n < 1 || n > 4 || uint64(x) >= uint64(1)<<(7*uint(n)) {
		panic("mqttwire: AppendVarIntN: bad arguments")
	}
	for i := 0; i < n; i++ {
		b := byte(x & 0x7f)
		x >>= 7
		if i < n-1 {
			b |= 0x80
		}
		dst = append(dst, b)
	}
	return dst
}

// VarIntLen returns the number of bytes of the minimal encoding of x.
func VarIntLen(x uint32) int {
	switch {
	case x < 128:
		return 1
	case x < 16384:
		return 2
	case x < 2097152:
		return 3
	}
	return 4
}

// ReadVarInt decodes a variable byte integer from the front of b. Strict: at
// most 4 bytes, and the encoding must be minimal. Returns ErrIncomplete
// (wrapped) if b ends before the integer does.
func ReadVarInt(b []byte) (x uint32, n int, err error) {
	var shift uint
	for i := 0; i < 4; i++ {
		if i >= len(b) {
			return 0, 0, fmt.Errorf("variable byte integer: %w", ErrIncomplete)
		}
		c := b[i]
		x |= uint32(c&0x7f) << shift
		shift += 7
		if c&0x80 == 0 {
			if i > 0 && c == 0 {
				return 0, 0, &DecodeError{Kind: Malformed, Msg: "variable byte integer is not minimally encoded"}
			}
			return x, i + 1, nil
		}
	}
	return 0, 0, &DecodeError{Kind: Malformed, Msg: "variable byte integer longer than 4 bytes"}
}

// ---------------------------------------------------------------------------
// UTF-8

// UTF8Class classifies a byte string per MQTT §1.5.4 (v5) / §1.5.3 (v3.1.1).
type UTF8Class int

const (
	// UTF8Must: well formed, no U+0000, no surrogates, and none of the
	// "SHOULD NOT" code points: must be accepted.
	UTF8Must UTF8Class = iota
	// UTF8May: well formed but contains U+0001..U+001F, U+007F..U+009F or a
	// non-character (U+FDD0..U+FDEF, U+xFFFE/xFFFF): receiver MAY reject.
	UTF8May
	// UTF8Bad: ill-formed, contains U+0000, or encoded surrogate (incl.
	// over-long forms): must be rejected.
	UTF8Bad
)

func (c UTF8Class) String() string {
	switch c {
	case UTF8Must:
		return "UTF8Must"
	case UTF8May:
		return "UTF8May"
	case UTF8Bad:
		return "UTF8Bad"
	}
	return fmt.Sprintf("UTF8Class(%d)", int(c))
}

// ClassifyUTF8 classifies b. (Go's utf8 decoder implements exactly the
// Unicode well-formedness table: it rejects over-long forms, encoded
// surrogates U+D800..U+DFFF and values above U+10FFFF.)
func ClassifyUTF8(b []byte) UTF8Class {
	class := UTF8Must
	for i := 0; i < len(b); {
		c := b[i]
		if c < utf8.RuneSelf {
			if c == 0 {
				return UTF8Bad
			}
			if c < 0x20 || c == 0x7f {
				class = UTF8May
			}
			i++
			continue
		}
		r, size := utf8.DecodeRune(b[i:])
		if r == utf8.RuneError && size <= 1 {
			return UTF8Bad
		}
		if (r >= 0x80 && r <= 0x9f) || (r >= 0xfdd0 && r <= 0xfdef) || r&0xfffe == 0xfffe {
			class = UTF8May
		}
		i += size
	}
	return class
}

// ---------------------------------------------------------------------------
// Value tables (not enforced by Decode)

// ValidReasonCode reports whether code is a value the specification defines
// for packet type t in version v: the v5 reason code tables, the v3 CONNACK
// return codes 0..5 and the v3 SUBACK return codes 0,1,2,0x80 (0x80 only from
// 3.1.1 on). For packet types that do not carry a code in v it reports
// code == 0.
func ValidReasonCode(t Type, v Version, code byte) bool {
	in := func(set ...byte) bool {
		for _, c := range set {
			if c == code {
				return true
			}
		}
		return false
	}
	if v != V5 {
		switch t {
		case CONNACK:
			return code <= 5
		case SUBACK:
			if v == V31 {
				return code <= 2
			}
			return code <= 2 || code == 0x80
		}
		return code == 0
	}
	switch t {
	case CONNACK:
		return in(0x00, 0x80, 0x81, 0x82, 0x83, 0x84, 0x85, 0x86, 0x87, 0x88, 0x89, 0x8A, 0x8C,
			0x90, 0x95, 0x97, 0x99, 0x9A, 0x9B, 0x9C, 0x9D, 0x9F)
	case PUBACK, PUBREC:
		return in(0x00, 0x10, 0x80, 0x83, 0x87, 0x90, 0x91, 0x97, 0x99)
	case PUBREL, PUBCOMP:
		return in(0x00, 0x92)
	case SUBACK:
		return in(0x00, 0x01, 0x02, 0x80, 0x83, 0x87, 0x8F, 0x91, 0x97, 0x9E, 0xA1, 0xA2)
	case UNSUBACK:
		return in(0x00, 0x11, 0x80, 0x83, 0x87, 0x8F, 0x91)
	case DISCONNECT:
		return in(0x00, 0x04, 0x80, 0x81, 0x82, 0x83, 0x87, 0x89, 0x8B, 0x8D, 0x8E, 0x8F,
			0x90, 0x93, 0x94, 0x95, 0x96, 0x97, 0x98, 0x99, 0x9A, 0x9B, 0x9C, 0x9D, 0x9E, 0x9F,
			0xA0, 0xA1, 0xA2)
	case AUTH:
		return in(0x00, 0x18, 0x19)
	}
	return code == 0
}

// ValidTopicName reports whether s is a legal Topic Name for PUBLISH / will:
// at least one character, no wildcard characters, and legal MQTT UTF-8.
// (A v5 PUBLISH may carry an empty topic together with a Topic Alias; that is
// the caller's business.)
func ValidTopicName(s string) bool {
	if len(s) == 0 || len(s) > 65535 || ClassifyUTF8([]byte(s)) == UTF8Bad {
		return false
	}
	for i := 0; i < len(s); i++ {
		if s[i] == '+' || s[i] == '#' {
			return false
		}
	}
	return true
}

// ValidTopicFilter reports whether s is a legal Topic Filter (§4.7): at least
// one character; '#' only as the last character and occupying a whole level;
// '+' only occupying a whole level. It does not interpret "$share/".
func ValidTopicFilter(s string) bool {
	if len(s) == 0 || len(s) > 65535 || ClassifyUTF8([]byte(s)) == UTF8Bad {
		return false
	}
	for i := 0; i < len(s); i++ {
		switch s[i] {
		case '#':
			if i != len(s)-1 || (i > 0 && s[i-1] != '/') {
				return false
			}
		case '+':
			if (i > 0 && s[i-1] != '/') || (i < len(s)-1 && s[i+1] != '/') {
				return false
			}
		}
	}
	return true
}
