package mqttwire

import (
	"encoding/binary"
	"fmt"
)

// PropID is an MQTT 5 property identifier.
type PropID byte

const (
	PropPayloadFormat        PropID = 0x01 // byte
	PropMessageExpiry        PropID = 0x02 // four byte integer
	PropContentType          PropID = 0x03 // UTF-8 string
	PropResponseTopic        PropID = 0x08 // UTF-8 string
	PropCorrelationData      PropID = 0x09 // binary data
	PropSubscriptionID       PropID = 0x0B // variable byte integer
	PropSessionExpiry        PropID = 0x11 // four byte integer
	PropAssignedClientID     PropID = 0x12 // UTF-8 string
	PropServerKeepAlive      PropID = 0x13 // two byte integer
	PropAuthMethod           PropID = 0x15 // UTF-8 string
	PropAuthData             PropID = 0x16 // binary data
	PropRequestProblemInfo   PropID = 0x17 // byte
	PropWillDelay            PropID = 0x18 // four byte integer
	PropRequestResponseInfo  PropID = 0x19 // byte
	PropResponseInfo         PropID = 0x1A // UTF-8 string
	PropServerReference      PropID = 0x1C // UTF-8 string
	PropReasonString         PropID = 0x1F // UTF-8 string
	PropReceiveMax           PropID = 0x21 // two byte integer
	PropTopicAliasMax        PropID = 0x22 // two byte integer
	PropTopicAlias           PropID = 0x23 // two byte integer
	PropMaximumQoS           PropID = 0x24 // byte
	PropRetainAvailable      PropID = 0x25 // byte
	PropUser                 PropID = 0x26 // UTF-8 string pair
	PropMaxPacketSize        PropID = 0x27 // four byte integer
	PropWildcardSubAvailable PropID = 0x28 // byte
	PropSubIDAvailable       PropID = 0x29 // byte
	PropSharedSubAvailable   PropID = 0x2A // byte
)

var propNames = map[PropID]string{
	PropPayloadFormat: "PayloadFormat", PropMessageExpiry: "MessageExpiry", PropContentType: "ContentType",
	PropResponseTopic: "ResponseTopic", PropCorrelationData: "CorrelationData", PropSubscriptionID: "SubscriptionID",
	PropSessionExpiry: "SessionExpiry", PropAssignedClientID: "AssignedClientID", PropServerKeepAlive: "ServerKeepAlive",
	PropAuthMethod: "AuthMethod", PropAuthData: "AuthData", PropRequestProblemInfo: "RequestProblemInfo",
	PropWillDelay: "WillDelay", PropRequestResponseInfo: "RequestResponseInfo", PropResponseInfo: "ResponseInfo",
	PropServerReference: "ServerReference", PropReasonString: "ReasonString", PropReceiveMax: "ReceiveMax",
	PropTopicAliasMax: "TopicAliasMax", PropTopicAlias: "TopicAlias", PropMaximumQoS: "MaximumQoS",
	PropRetainAvailable: "RetainAvailable", PropUser: "User", PropMaxPacketSize: "MaxPacketSize",
	PropWildcardSubAvailable: "WildcardSubAvailable", PropSubIDAvailable: "SubIDAvailable",
	PropSharedSubAvailable: "SharedSubAvailable",
}

func (id PropID) String() string {
	if s, ok := propNames[id]; ok {
		return s
	}
	return fmt.Sprintf("Prop(0x%02x)", byte(id))
}

// AllPropIDs lists every defined property identifier in ascending order.
var AllPropIDs = []PropID{
	PropPayloadFormat, PropMessageExpiry, PropContentType, PropResponseTopic, PropCorrelationData,
	PropSubscriptionID, PropSessionExpiry, PropAssignedClientID, PropServerKeepAlive, PropAuthMethod,
	PropAuthData, PropRequestProblemInfo, PropWillDelay, PropRequestResponseInfo, PropResponseInfo,
	PropServerReference, PropReasonString, PropReceiveMax, PropTopicAliasMax, PropTopicAlias,
	PropMaximumQoS, PropRetainAvailable, PropUser, PropMaxPacketSize, PropWildcardSubAvailable,
	PropSubIDAvailable, PropSharedSubAvailable,
}

// propSet is a bit set of property identifiers (all identifiers are < 64).
type propSet uint64

func setOf(ids ...PropID) propSet {
	var s propSet
	for _, id := range ids {
		s |= 1 << id
	}
	return s
}

func (s propSet) has(id PropID) bool { return id < 64 && s&(1<<id) != 0 }

func (s propSet) ids() []PropID {
	var out []PropID
	for _, id := range AllPropIDs {
		if s.has(id) {
			out = append(out, id)
		}
	}
	return out
}

var allDefinedProps = setOf(AllPropIDs...)

// Which properties may appear where (MQTT 5 table 2-4 and the per packet
// sections 3.x.2.x).
var (
	connectProps = setOf(PropSessionExpiry, PropReceiveMax, PropMaxPacketSize, PropTopicAliasMax,
		PropRequestResponseInfo, PropRequestProblemInfo, PropUser, PropAuthMethod, PropAuthData)
	willProps = setOf(PropWillDelay, PropPayloadFormat, PropMessageExpiry, PropContentType,
		PropResponseTopic, PropCorrelationData, PropUser)
	connackProps = setOf(PropSessionExpiry, PropReceiveMax, PropMaximumQoS, PropRetainAvailable,
		PropMaxPacketSize, PropAssignedClientID, PropTopicAliasMax, PropReasonString, PropUser,
		PropWildcardSubAvailable, PropSubIDAvailable, PropSharedSubAvailable, PropServerKeepAlive,
		PropResponseInfo, PropServerReference, PropAuthMethod, PropAuthData)
	publishPropsCommon = setOf(PropPayloadFormat, PropMessageExpiry, PropTopicAlias, PropResponseTopic,
		PropCorrelationData, PropUser, PropContentType)
	ackProps         = setOf(PropReasonString, PropUser)
	subscribeProps   = setOf(PropSubscriptionID, PropUser)
	unsubscribeProps = setOf(PropUser)
	disconnectCommon = setOf(PropReasonString, PropUser)
	authProps        = setOf(PropAuthMethod, PropAuthData, PropReasonString, PropUser)
)

func allowedSet(t Type, d Direction) propSet {
	switch t {
	case CONNECT:
		return connectProps
	case CONNACK:
		return connackProps
	case PUBLISH:
		s := publishPropsCommon
		if d&ToClient != 0 {
			// [MQTT-3.3.4-6]: a PUBLISH from client to server must not
			// contain a Subscription Identifier.
			s |= setOf(PropSubscriptionID)
		}
		return s
	case PUBACK, PUBREC, PUBREL, PUBCOMP, SUBACK, UNSUBACK:
		return ackProps
	case SUBSCRIBE:
		return subscribeProps
	case UNSUBSCRIBE:
		return unsubscribeProps
	case DISCONNECT:
		s := disconnectCommon
		if d&ToServer != 0 {
			s |= setOf(PropSessionExpiry) // [MQTT-3.14.2-2]: not sent by the server
		}
		if d&ToClient != 0 {
			s |= setOf(PropServerReference) // only a server redirects
		}
		return s
	case AUTH:
		return authProps
	}
	return 0
}

// AllowedProps returns the property identifiers that Decode accepts in the
// property section of packet type t travelling in direction d.
func AllowedProps(t Type, d Direction) []PropID { return allowedSet(t, d).ids() }

// WillProps returns the property identifiers allowed in CONNECT will
// properties.
func WillProps() []PropID { return willProps.ids() }

// IsEmpty reports whether no property is present. A nil *Props is empty.
func (p *Props) IsEmpty() bool {
	if p == nil {
		return true
	}
	return p.PayloadFormat == nil && p.MessageExpiry == nil && p.ContentType == nil &&
		p.ResponseTopic == nil && !p.HasCorrelationData && len(p.SubscriptionIDs) == 0 &&
		p.SessionExpiry == nil && p.AssignedClientID == nil && p.ServerKeepAlive == nil &&
		p.AuthMethod == nil && !p.HasAuthData && p.RequestProblemInfo == nil && p.WillDelay == nil &&
		p.RequestResponseInfo == nil && p.ResponseInfo == nil && p.ServerReference == nil &&
		p.ReasonString == nil && p.ReceiveMax == nil && p.TopicAliasMax == nil && p.TopicAlias == nil &&
		p.MaximumQoS == nil && p.RetainAvailable == nil && len(p.User) == 0 && p.MaxPacketSize == nil &&
		p.WildcardSubAvailable == nil && p.SubIDAvailable == nil && p.SharedSubAvailable == nil
}

// Present returns the identifiers of the properties that are present, in
// ascending order (each at most once).
func (p *Props) Present() []PropID {
	if p == nil {
		return nil
	}
	var out []PropID
	add := func(c bool, id PropID) {
		if c {
			out = append(out, id)
		}
	}
	add(p.PayloadFormat != nil, PropPayloadFormat)
	add(p.MessageExpiry != nil, PropMessageExpiry)
	add(p.ContentType != nil, PropContentType)
	add(p.ResponseTopic != nil, PropResponseTopic)
	add(p.HasCorrelationData, PropCorrelationData)
	add(len(p.SubscriptionIDs) > 0, PropSubscriptionID)
	add(p.SessionExpiry != nil, PropSessionExpiry)
	add(p.AssignedClientID != nil, PropAssignedClientID)
	add(p.ServerKeepAlive != nil, PropServerKeepAlive)
	add(p.AuthMethod != nil, PropAuthMethod)
	add(p.HasAuthData, PropAuthData)
	add(p.RequestProblemInfo != nil, PropRequestProblemInfo)
	add(p.WillDelay != nil, PropWillDelay)
	add(p.RequestResponseInfo != nil, PropRequestResponseInfo)
	add(p.ResponseInfo != nil, PropResponseInfo)
	add(p.ServerReference != nil, PropServerReference)
	add(p.ReasonString != nil, PropReasonString)
	add(p.ReceiveMax != nil, PropReceiveMax)
	add(p.TopicAliasMax != nil, PropTopicAliasMax)
	add(p.TopicAlias != nil, PropTopicAlias)
	add(p.MaximumQoS != nil, PropMaximumQoS)
	add(p.RetainAvailable != nil, PropRetainAvailable)
	add(len(p.User) > 0, PropUser)
	add(p.MaxPacketSize != nil, PropMaxPacketSize)
	add(p.WildcardSubAvailable != nil, PropWildcardSubAvailable)
	add(p.SubIDAvailable != nil, PropSubIDAvailable)
	add(p.SharedSubAvailable != nil, PropSharedSubAvailable)
	return out
}

// ---------------------------------------------------------------------------
// Encoding
//
// Canonical order used by Encode: ascending property identifier, except that
// User Properties (0x26) come last, in slice order. Subscription Identifiers
// (0x0B) are emitted in slice order at their identifier's position. Decode
// accepts any order.

// PropsLen returns the encoded length of the property section's contents
// (without its own length prefix). Every present property is counted,
// whether or not it is legal for packet type t (t is ignored).
func PropsLen(p *Props, t Type) int {
	if p == nil {
		return 0
	}
	n := 0
	str := func(s *string) {
		if s != nil {
			n += 1 + 2 + len(*s)
		}
	}
	fix := func(present bool, size int) {
		if present {
			n += 1 + size
		}
	}
	fix(p.PayloadFormat != nil, 1)
	fix(p.MessageExpiry != nil, 4)
	str(p.ContentType)
	str(p.ResponseTopic)
	if p.HasCorrelationData {
		n += 1 + 2 + len(p.CorrelationData)
	}
	for _, id := range p.SubscriptionIDs {
		n += 1 + VarIntLen(id)
	}
	fix(p.SessionExpiry != nil, 4)
	str(p.AssignedClientID)
	fix(p.ServerKeepAlive != nil, 2)
	str(p.AuthMethod)
	if p.HasAuthData {
		n += 1 + 2 + len(p.AuthData)
	}
	fix(p.RequestProblemInfo != nil, 1)
	fix(p.WillDelay != nil, 4)
	fix(p.RequestResponseInfo != nil, 1)
	str(p.ResponseInfo)
	str(p.ServerReference)
	str(p.ReasonString)
	fix(p.ReceiveMax != nil, 2)
	fix(p.TopicAliasMax != nil, 2)
	fix(p.TopicAlias != nil, 2)
	fix(p.MaximumQoS != nil, 1)
	fix(p.RetainAvailable != nil, 1)
	fix(p.MaxPacketSize != nil, 4)
	fix(p.WildcardSubAvailable != nil, 1)
	fix(p.SubIDAvailable != nil, 1)
	fix(p.SharedSubAvailable != nil, 1)
	for _, u := range p.User {
		n += 1 + 2 + len(u.K) + 2 + len(u.V)
	}
	return n
}

// appendProps appends the property section (length prefix + contents).
func appendProps(dst []byte, p *Props) ([]byte, error) {
	n := PropsLen(p, 0)
	if n > MaxVarInt {
		return nil, fmt.Errorf("property length %d: %w", n, ErrTooLarge)
	}
	dst = AppendVarInt(dst, uint32(n))
	if p == nil || n == 0 {
		return dst, nil
	}
	var err error
	b1 := func(id PropID, v *byte) {
		if v != nil {
			dst = append(dst, byte(id), *v)
		}
	}
	b2 := func(id PropID, v *uint16) {
		if v != nil {
			dst = append(dst, byte(id))
			dst = binary.BigEndian.AppendUint16(dst, *v)
		}
	}
	b4 := func(id PropID, v *uint32) {
		if v != nil {
			dst = append(dst, byte(id))
			dst = binary.BigEndian.AppendUint32(dst, *v)
		}
	}
	str := func(id PropID, s *string) {
		if s != nil && err == nil {
			dst = append(dst, byte(id))
			dst, err = appendString(dst, *s)
		}
	}
	bin := func(id PropID, present bool, v []byte) {
		if present && err == nil {
			dst = append(dst, byte(id))
			dst, err = appendBinary(dst, v)
		}
	}
	b1(PropPayloadFormat, p.PayloadFormat)
	b4(PropMessageExpiry, p.MessageExpiry)
	str(PropContentType, p.ContentType)
	str(PropResponseTopic, p.ResponseTopic)
	bin(PropCorrelationData, p.HasCorrelationData, p.CorrelationData)
	for _, id := range p.SubscriptionIDs {
		if id > MaxVarInt {
			return nil, fmt.Errorf("subscription identifier %d: %w", id, ErrTooLarge)
		}
		dst = append(dst, byte(PropSubscriptionID))
		dst = AppendVarInt(dst, id)
	}
	b4(PropSessionExpiry, p.SessionExpiry)
	str(PropAssignedClientID, p.AssignedClientID)
	b2(PropServerKeepAlive, p.ServerKeepAlive)
	str(PropAuthMethod, p.AuthMethod)
	bin(PropAuthData, p.HasAuthData, p.AuthData)
	b1(PropRequestProblemInfo, p.RequestProblemInfo)
	b4(PropWillDelay, p.WillDelay)
	b1(PropRequestResponseInfo, p.RequestResponseInfo)
	str(PropResponseInfo, p.ResponseInfo)
	str(PropServerReference, p.ServerReference)
	str(PropReasonString, p.ReasonString)
	b2(PropReceiveMax, p.ReceiveMax)
	b2(PropTopicAliasMax, p.TopicAliasMax)
	b2(PropTopicAlias, p.TopicAlias)
	b1(PropMaximumQoS, p.MaximumQoS)
	b1(PropRetainAvailable, p.RetainAvailable)
	b4(PropMaxPacketSize, p.MaxPacketSize)
	b1(PropWildcardSubAvailable, p.WildcardSubAvailable)
	b1(PropSubIDAvailable, p.SubIDAvailable)
	b1(PropSharedSubAvailable, p.SharedSubAvailable)
	for _, u := range p.User {
		if err != nil {
			break
		}
		dst = append(dst, byte(PropUser))
		dst, err = appendString(dst, u.K)
		if err == nil {
			dst, err = appendString(dst, u.V)
		}
	}
	if err != nil {
		return nil, err
	}
	return dst, nil
}

func appendString(dst []byte, s string) ([]byte, error) {
	if len(s) > 65535 {
		return nil, fmt.Errorf("string of %d bytes: %w", len(s), ErrTooLarge)
	}
	dst = binary.BigEndian.AppendUint16(dst, uint16(len(s)))
	return append(dst, s...), nil
}

func appendBinary(dst []byte, b []byte) ([]byte, error) {
	if len(b) > 65535 {
		return nil, fmt.Errorf("binary data of %d bytes: %w", len(b), ErrTooLarge)
	}
	dst = binary.BigEndian.AppendUint16(dst, uint16(len(b)))
	return append(dst, b...), nil
}

// ---------------------------------------------------------------------------
// Decoding

// cursor reads from a byte slice that is exactly the region it may look at.
// Every read is bounds checked; running out of bytes inside the region is a
// malformed packet (never ErrIncomplete: the region is complete by
// construction).
type cursor struct {
	b   []byte
	pos int
	t   Type
}

func (c *cursor) errf(k ErrKind, format string, a ...any) error {
	return &DecodeError{Kind: k, Type: c.t, Msg: fmt.Sprintf(format, a...)}
}

func (c *cursor) left() int { return len(c.b) - c.pos }

func (c *cursor) u8(what string) (byte, error) {
	if c.left() < 1 {
		return 0, c.errf(Malformed, "%s: packet too short", what)
	}
	v := c.b[c.pos]
	c.pos++
	return v, nil
}

func (c *cursor) u16(what string) (uint16, error) {
	if c.left() < 2 {
		return 0, c.errf(Malformed, "%s: packet too short", what)
	}
	v := binary.BigEndian.Uint16(c.b[c.pos:])
	c.pos += 2
	return v, nil
}

func (c *cursor) u32(what string) (uint32, error) {
	if c.left() < 4 {
		return 0, c.errf(Malformed, "%s: packet too short", what)
	}
	v := binary.BigEndian.Uint32(c.b[c.pos:])
	c.pos += 4
	return v, nil
}

func (c *cursor) varint(what string) (uint32, error) {
	x, n, err := ReadVarInt(c.b[c.pos:])
	if err != nil {
		if de, ok := err.(*DecodeError); ok {
			return 0, c.errf(Malformed, "%s: %s", what, de.Msg)
		}
		return 0, c.errf(Malformed, "%s: packet too short", what)
	}
	c.pos += n
	return x, nil
}

// bin reads length-prefixed binary data; the result aliases c.b.
func (c *cursor) bin(what string) ([]byte, error) {
	n, err := c.u16(what)
	if err != nil {
		return nil, err
	}
	if c.left() < int(n) {
		return nil, c.errf(Malformed, "%s: declared length %d exceeds the %d bytes left in the packet", what, n, c.left())
	}
	v := c.b[c.pos : c.pos+int(n) : c.pos+int(n)]
	c.pos += int(n)
	return v, nil
}

// str reads a UTF-8 encoded string and validates it per §1.5.4.
func (c *cursor) str(what string) (string, error) {
	b, err := c.bin(what)
	if err != nil {
		return "", err
	}
	if ClassifyUTF8(b) == UTF8Bad {
		return "", c.errf(Malformed, "%s: not a legal MQTT UTF-8 string (%q)", what, truncBytes(b, 64))
	}
	return string(b), nil
}

// sub returns a cursor over the next n bytes and skips them.
func (c *cursor) sub(n int, what string) (*cursor, error) {
	if n < 0 || c.left() < n {
		return nil, c.errf(Malformed, "%s: declared length %d exceeds the %d bytes left in the packet", what, n, c.left())
	}
	s := &cursor{b: c.b[c.pos : c.pos+n : c.pos+n], t: c.t}
	c.pos += n
	return s, nil
}

func truncBytes(b []byte, n int) []byte {
	if len(b) > n {
		return b[:n]
	}
	return b
}

// props reads a property section (length prefix + contents). allowed is the
// set of legal identifiers; multiSubID says whether the Subscription
// Identifier may repeat. Returns nil when the section is empty.
func (c *cursor) props(allowed propSet, multiSubID bool, what string) (*Props, error) {
	plen, err := c.varint(what + " length")
	if err != nil {
		return nil, err
	}
	pc, err := c.sub(int(plen), what)
	if err != nil {
		return nil, err
	}
	if plen == 0 {
		return nil, nil
	}
	p := &Props{}
	var seen propSet
	for pc.left() > 0 {
		// Property identifiers are variable byte integers; every defined
		// identifier fits in one byte, so a continuation bit means unknown.
		idv, err := pc.varint(what + " identifier")
		if err != nil {
			return nil, err
		}
		if idv >= 64 || !allDefinedProps.has(PropID(idv)) {
			return nil, pc.errf(Malformed, "%s: unknown property identifier 0x%02x", what, idv)
		}
		id := PropID(idv)
		if !allowed.has(id) {
			return nil, pc.errf(ProtocolError, "%s: property %s not allowed here", what, id)
		}
		if seen.has(id) && id != PropUser && !(id == PropSubscriptionID && multiSubID) {
			return nil, pc.errf(ProtocolError, "%s: property %s appears more than once", what, id)
		}
		seen |= 1 << id
		name := what + " " + id.String()

		rdBool := func(dst **byte) error {
			v, err := pc.u8(name)
			if err != nil {
				return err
			}
			if v > 1 {
				return pc.errf(ProtocolError, "%s: value %d is not 0 or 1", name, v)
			}
			*dst = &v
			return nil
		}
		rdU16 := func(dst **uint16, nonzero bool) error {
			v, err := pc.u16(name)
			if err != nil {
				return err
			}
			if nonzero && v == 0 {
				return pc.errf(ProtocolError, "%s: value 0 is not allowed", name)
			}
			*dst = &v
			return nil
		}
		rdU32 := func(dst **uint32, nonzero bool) error {
			v, err := pc.u32(name)
			if err != nil {
				return err
			}
			if nonzero && v == 0 {
				return pc.errf(ProtocolError, "%s: value 0 is not allowed", name)
			}
			*dst = &v
			return nil
		}
		rdStr := func(dst **string) error {
			v, err := pc.str(name)
			if err != nil {
				return err
			}
			*dst = &v
			return nil
		}

		switch id {
		case PropPayloadFormat:
			err = rdBool(&p.PayloadFormat)
		case PropMessageExpiry:
			err = rdU32(&p.MessageExpiry, false)
		case PropContentType:
			err = rdStr(&p.ContentType)
		case PropResponseTopic:
			err = rdStr(&p.ResponseTopic)
		case PropCorrelationData:
			p.CorrelationData, err = pc.bin(name)
			p.HasCorrelationData = err == nil
		case PropSubscriptionID:
			var v uint32
			v, err = pc.varint(name)
			if err == nil && v == 0 {
				err = pc.errf(ProtocolError, "%s: value 0 is not allowed", name)
			}
			if err == nil {
				p.SubscriptionIDs = append(p.SubscriptionIDs, v)
			}
		case PropSessionExpiry:
			err = rdU32(&p.SessionExpiry, false)
		case PropAssignedClientID:
			err = rdStr(&p.AssignedClientID)
		case PropServerKeepAlive:
			err = rdU16(&p.ServerKeepAlive, false)
		case PropAuthMethod:
			err = rdStr(&p.AuthMethod)
		case PropAuthData:
			p.AuthData, err = pc.bin(name)
			p.HasAuthData = err == nil
		case PropRequestProblemInfo:
			err = rdBool(&p.RequestProblemInfo)
		case PropWillDelay:
			err = rdU32(&p.WillDelay, false)
		case PropRequestResponseInfo:
			err = rdBool(&p.RequestResponseInfo)
		case PropResponseInfo:
			err = rdStr(&p.ResponseInfo)
		case PropServerReference:
			err = rdStr(&p.ServerReference)
		case PropReasonString:
			err = rdStr(&p.ReasonString)
		case PropReceiveMax:
			err = rdU16(&p.ReceiveMax, true)
		case PropTopicAliasMax:
			err = rdU16(&p.TopicAliasMax, false)
		case PropTopicAlias:
			err = rdU16(&p.TopicAlias, true)
		case PropMaximumQoS:
			err = rdBool(&p.MaximumQoS)
		case PropRetainAvailable:
			err = rdBool(&p.RetainAvailable)
		case PropUser:
			var k, v string
			k, err = pc.str(name + " name")
			if err == nil {
				v, err = pc.str(name + " value")
			}
			if err == nil {
				p.User = append(p.User, UserProp{K: k, V: v})
			}
		case PropMaxPacketSize:
			err = rdU32(&p.MaxPacketSize, true)
		case PropWildcardSubAvailable:
			err = rdBool(&p.WildcardSubAvailable)
		case PropSubIDAvailable:
			err = rdBool(&p.SubIDAvailable)
		case PropSharedSubAvailable:
			err = rdBool(&p.SharedSubAvailable)
		default:
			err = pc.errf(Malformed, "%s: unknown property identifier 0x%02x", what, idv)
		}
		if err != nil {
			return nil, err
		}
	}
	return p, nil
}
