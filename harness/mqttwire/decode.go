package mqttwire

import (
	"bufio"
	"fmt"
	"io"
)

// legalIn reports whether packet type t may travel in direction d in version v.
func legalIn(t Type, v Version, d Direction) bool {
	if d == AnyDir {
		return true
	}
	switch t {
	case CONNECT, SUBSCRIBE, UNSUBSCRIBE, PINGREQ:
		return d == ToServer
	case CONNACK, SUBACK, UNSUBACK, PINGRESP:
		return d == ToClient
	case DISCONNECT:
		// Before MQTT 5 only the client sends DISCONNECT.
		return v == V5 || d == ToServer
	}
	return true // PUBLISH, PUBACK, PUBREC, PUBREL, PUBCOMP, AUTH
}

// checkFirstByte validates everything that can be validated from the first
// byte of a packet: packet type, fixed header flags, direction.
func checkFirstByte(first byte, v Version, d Direction) (Type, error) {
	t := Type(first >> 4)
	flags := first & 0x0f
	if d != ToServer && d != ToClient && d != AnyDir {
		return 0, fmt.Errorf("mqttwire: Decode: invalid direction %d", byte(d))
	}
	if t == 0 {
		return 0, &DecodeError{Kind: Malformed, Msg: "reserved packet type 0"}
	}
	if t != CONNECT && !v.valid() {
		return 0, fmt.Errorf("mqttwire: Decode: unknown version %d", byte(v))
	}
	if t == AUTH && v != V5 {
		return 0, &DecodeError{Kind: Malformed, Type: t, Msg: "packet type 15 is reserved before MQTT 5"}
	}
	switch t {
	case PUBLISH:
		if flags&0x06 == 0x06 {
			return 0, &DecodeError{Kind: Malformed, Type: t, Msg: "QoS 3"}
		}
		if flags&0x0e == 0x08 {
			// [MQTT-3.3.1-2]: DUP must be 0 for all QoS 0 messages
			return 0, &DecodeError{Kind: ProtocolError, Type: t, Msg: "DUP set on a QoS 0 PUBLISH"}
		}
	case PUBREL, SUBSCRIBE, UNSUBSCRIBE:
		f := flags
		if v == V31 {
			// MQTT 3.1: these are "QoS 1" messages whose DUP flag is set on
			// re-delivery; RETAIN is not used.
			f &^= 0x08
		}
		if f != 0x02 {
			return 0, &DecodeError{Kind: Malformed, Type: t, Msg: fmt.Sprintf("fixed header flags 0x%x, want 0x2", flags)}
		}
	default:
		if flags != 0 {
			return 0, &DecodeError{Kind: Malformed, Type: t, Msg: fmt.Sprintf("fixed header flags 0x%x, want 0x0", flags)}
		}
	}
	// For CONNECT the version is not known yet; CONNECT is client->server in
	// every version.
	if !legalIn(t, v, d) {
		return 0, &DecodeError{Kind: ProtocolError, Type: t, Msg: fmt.Sprintf("packet type not legal in direction %s (MQTT %s)", d, v)}
	}
	return t, nil
}

// Decode parses exactly one packet from the front of b. It returns the
// packet, the number of bytes consumed, and an error.
//
// The error is ErrIncomplete (wrapped; n == 0) when b is a strict prefix of a
// possibly valid packet, i.e. more bytes are needed; a *DecodeError when the
// packet is rejected; a plain error for bad arguments. When a *DecodeError is
// returned for a packet whose frame (fixed header + remaining length) was
// completely present, n is the length of that frame, otherwise n is 0. n never
// exceeds len(b).
//
// Decode is strict: it rejects everything the spec says is malformed or a
// protocol error as far as that can be decided from this one packet, v and d:
// reserved packet types, reserved fixed-header flags, QoS 3, DUP=1 with QoS 0,
// non-minimal or >4 byte variable byte integers, packet id 0 where one is
// required, ill-formed UTF-8 / U+0000 / surrogates in any UTF-8 string
// (ClassifyUTF8 == UTF8Bad; UTF8May strings are accepted), a property not
// allowed for this packet type in this direction, an unknown property, a
// property that appears twice (other than User Property, and Subscription
// Identifier in a PUBLISH that is not ToServer), property values out of range
// (booleans not 0/1 - Payload Format Indicator included, ReceiveMax 0,
// MaxPacketSize 0, TopicAlias 0, SubscriptionID 0, MaximumQoS>1), any length
// field pointing beyond its enclosing region, trailing bytes inside the
// remaining length, empty SUBSCRIBE/UNSUBSCRIBE, reserved subscription-option
// bits, Retain Handling 3, CONNECT reserved flag (all versions), will flags
// inconsistent, password-without-username in 3.1.1 only, wrong protocol
// name/level, reserved CONNACK flag bits (3.1.1 and 5), a packet type that
// is not legal in direction d (incl. v3 DISCONNECT ToClient and AUTH in v3).
//
// Not checked (see ValidReasonCode, ValidTopicName, ValidTopicFilter): reason
// / return code values, topic name and filter syntax (wildcards in a PUBLISH
// topic, empty topic, "$share" rules), number of SUBACK codes, client id
// syntax, required properties (e.g. AUTH without Authentication Method).
//
// For CONNECT the version is taken from the packet itself
// (ProtoName/ProtoLevel) and v is ignored.
//
// The returned packet does not alias b: byte slices in it alias Packet.Raw,
// which is a private copy.
func Decode(b []byte, v Version, d Direction) (*Packet, int, error) {
	if len(b) == 0 {
		return nil, 0, fmt.Errorf("fixed header: %w", ErrIncomplete)
	}
	t, err := checkFirstByte(b[0], v, d)
	if err != nil {
		return nil, 0, err
	}
	rl, n, err := ReadVarInt(b[1:])
	if err != nil {
		if de, ok := err.(*DecodeError); ok {
			return nil, 0, &DecodeError{Kind: Malformed, Type: t, Msg: "remaining length: " + de.Msg}
		}
		return nil, 0, fmt.Errorf("remaining length: %w", err)
	}
	hdr := 1 + n
	total := hdr + int(rl)
	if len(b) < total {
		return nil, 0, fmt.Errorf("%s: have %d of %d bytes: %w", t, len(b), total, ErrIncomplete)
	}
	raw := make([]byte, total)
	copy(raw, b[:total])
	p := &Packet{Type: t, Raw: raw}
	c := &cursor{b: raw[hdr:total:total], t: t}
	if err := decodeBody(p, c, raw[0]&0x0f, v, d); err != nil {
		return nil, total, err
	}
	if c.left() != 0 {
		return nil, total, c.errf(Malformed, "%d trailing bytes inside the remaining length", c.left())
	}
	return p, total, nil
}

func (c *cursor) packetID() (uint16, error) {
	id, err := c.u16("packet identifier")
	if err != nil {
		return 0, err
	}
	if id == 0 {
		return 0, c.errf(ProtocolError, "packet identifier 0")
	}
	return id, nil
}

func nilIfEmpty(b []byte) []byte {
	if len(b) == 0 {
		return nil
	}
	return b
}

func decodeBody(p *Packet, c *cursor, flags byte, v Version, d Direction) error {
	var err error
	switch p.Type {
	case CONNECT:
		return decodeConnect(p, c)

	case CONNACK:
		ack, err := c.u8("connect acknowledge flags")
		if err != nil {
			return err
		}
		// MQTT 3.1 calls this byte "reserved, unused" without constraining
		// its value; 3.1.1 and 5 require bits 7-1 to be 0.
		if v != V31 && ack&0xfe != 0 {
			return c.errf(Malformed, "connect acknowledge flags 0x%02x: reserved bits set", ack)
		}
		p.SessionPresent = ack&1 != 0
		if p.ReasonCode, err = c.u8("return / reason code"); err != nil {
			return err
		}
		if v == V5 {
			p.Props, err = c.props(allowedSet(CONNACK, d), false, "properties")
		}
		return err

	case PUBLISH:
		p.Dup = flags&0x08 != 0
		p.QoS = flags >> 1 & 3
		p.Retain = flags&0x01 != 0
		// QoS 3 and DUP with QoS 0 were rejected by checkFirstByte
		if p.Topic, err = c.str("topic name"); err != nil {
			return err
		}
		if p.QoS > 0 {
			if p.PacketID, err = c.packetID(); err != nil {
				return err
			}
		}
		if v == V5 {
			if p.Props, err = c.props(allowedSet(PUBLISH, d), d&ToClient != 0, "properties"); err != nil {
				return err
			}
		}
		p.Payload = nilIfEmpty(c.b[c.pos:])
		c.pos = len(c.b)
		return nil

	case PUBACK, PUBREC, PUBREL, PUBCOMP:
		if p.Type == PUBREL {
			p.Dup = flags&0x08 != 0 // only possible in 3.1, see checkFirstByte
		}
		if p.PacketID, err = c.packetID(); err != nil {
			return err
		}
		if v != V5 || c.left() == 0 {
			return nil // v3: anything left is reported as trailing bytes
		}
		if p.ReasonCode, err = c.u8("reason code"); err != nil {
			return err
		}
		if c.left() == 0 {
			return nil // remaining length 3: no property length
		}
		p.Props, err = c.props(allowedSet(p.Type, d), false, "properties")
		return err

	case SUBSCRIBE:
		p.Dup = flags&0x08 != 0
		if p.PacketID, err = c.packetID(); err != nil {
			return err
		}
		if v == V5 {
			if p.Props, err = c.props(allowedSet(SUBSCRIBE, d), false, "properties"); err != nil {
				return err
			}
		}
		if c.left() == 0 {
			return c.errf(ProtocolError, "no topic filter")
		}
		for c.left() > 0 {
			var s SubReq
			if s.Filter, err = c.str("topic filter"); err != nil {
				return err
			}
			opt, err := c.u8("subscription options")
			if err != nil {
				return err
			}
			s.QoS = opt & 3
			if s.QoS == 3 {
				return c.errf(Malformed, "subscription options 0x%02x: QoS 3", opt)
			}
			if v == V5 {
				if opt&0xc0 != 0 {
					return c.errf(Malformed, "subscription options 0x%02x: reserved bits set", opt)
				}
				s.NoLocal = opt&0x04 != 0
				s.RAP = opt&0x08 != 0
				s.RH = opt >> 4 & 3
				if s.RH == 3 {
					return c.errf(ProtocolError, "subscription options 0x%02x: retain handling 3", opt)
				}
			} else if opt&0xfc != 0 {
				return c.errf(Malformed, "requested QoS byte 0x%02x: reserved bits set", opt)
			}
			p.Subs = append(p.Subs, s)
		}
		return nil

	case SUBACK:
		if p.PacketID, err = c.packetID(); err != nil {
			return err
		}
		if v == V5 {
			if p.Props, err = c.props(allowedSet(SUBACK, d), false, "properties"); err != nil {
				return err
			}
		}
		p.ReasonCodes = nilIfEmpty(c.b[c.pos:])
		c.pos = len(c.b)
		return nil

	case UNSUBSCRIBE:
		p.Dup = flags&0x08 != 0
		if p.PacketID, err = c.packetID(); err != nil {
			return err
		}
		if v == V5 {
			if p.Props, err = c.props(allowedSet(UNSUBSCRIBE, d), false, "properties"); err != nil {
				return err
			}
		}
		if c.left() == 0 {
			return c.errf(ProtocolError, "no topic filter")
		}
		for c.left() > 0 {
			f, err := c.str("topic filter")
			if err != nil {
				return err
			}
			p.Filters = append(p.Filters, f)
		}
		return nil

	case UNSUBACK:
		if p.PacketID, err = c.packetID(); err != nil {
			return err
		}
		if v == V5 {
			if p.Props, err = c.props(allowedSet(UNSUBACK, d), false, "properties"); err != nil {
				return err
			}
			p.ReasonCodes = nilIfEmpty(c.b[c.pos:])
			c.pos = len(c.b)
		}
		return nil

	case PINGREQ, PINGRESP:
		return nil // any body is reported as trailing bytes

	case DISCONNECT:
		if v != V5 || c.left() == 0 {
			return nil // v3: any body is reported as trailing bytes
		}
		if p.ReasonCode, err = c.u8("reason code"); err != nil {
			return err
		}
		if c.left() == 0 {
			return nil // remaining length 1: no property length
		}
		p.Props, err = c.props(allowedSet(DISCONNECT, d), false, "properties")
		return err

	case AUTH:
		if c.left() == 0 {
			return nil
		}
		if p.ReasonCode, err = c.u8("reason code"); err != nil {
			return err
		}
		// Unlike the acks and DISCONNECT, the spec gives AUTH no form with a
		// reason code but without a property length.
		p.Props, err = c.props(allowedSet(AUTH, d), false, "properties")
		return err
	}
	return c.errf(Malformed, "unknown packet type")
}

func decodeConnect(p *Packet, c *cursor) error {
	var err error
	if p.ProtoName, err = c.str("protocol name"); err != nil {
		return err
	}
	if p.ProtoLevel, err = c.u8("protocol level"); err != nil {
		return err
	}
	v := p.Version()
	if v == 0 {
		return c.errf(UnsupportedVersion, "protocol name %q level %d", p.ProtoName, p.ProtoLevel)
	}
	cf, err := c.u8("connect flags")
	if err != nil {
		return err
	}
	if cf&0x01 != 0 {
		return c.errf(Malformed, "connect flags 0x%02x: reserved bit set", cf)
	}
	p.CleanStart = cf&0x02 != 0
	hasWill := cf&0x04 != 0
	willQoS := cf >> 3 & 3
	willRetain := cf&0x20 != 0
	p.HasPassword = cf&0x40 != 0
	p.HasUsername = cf&0x80 != 0
	if willQoS == 3 {
		return c.errf(Malformed, "connect flags 0x%02x: will QoS 3", cf)
	}
	if !hasWill && (willQoS != 0 || willRetain) {
		return c.errf(Malformed, "connect flags 0x%02x: will QoS / will retain set without will flag", cf)
	}
	if v == V311 && p.HasPassword && !p.HasUsername {
		return c.errf(Malformed, "connect flags 0x%02x: password flag without user name flag", cf)
	}
	if p.KeepAlive, err = c.u16("keep alive"); err != nil {
		return err
	}
	if v == V5 {
		if p.Props, err = c.props(connectProps, false, "properties"); err != nil {
			return err
		}
	}
	if p.ClientID, err = c.str("client identifier"); err != nil {
		return err
	}
	if hasWill {
		w := &Will{QoS: willQoS, Retain: willRetain}
		if v == V5 {
			if w.Props, err = c.props(willProps, false, "will properties"); err != nil {
				return err
			}
		}
		if w.Topic, err = c.str("will topic"); err != nil {
			return err
		}
		if w.Payload, err = c.bin("will payload"); err != nil {
			return err
		}
		w.Payload = nilIfEmpty(w.Payload)
		p.Will = w
	}
	if p.HasUsername {
		if p.Username, err = c.str("user name"); err != nil {
			return err
		}
	}
	if p.HasPassword {
		if p.Password, err = c.bin("password"); err != nil {
			return err
		}
		p.Password = nilIfEmpty(p.Password)
	}
	return nil
}

// ReadPacket frames and decodes one packet from a stream. It returns io.EOF
// when the stream ends cleanly before the first byte of a packet and
// io.ErrUnexpectedEOF when it ends inside a packet; other read errors are
// returned as they are; rejections are *DecodeError as for Decode. The first
// byte and the remaining length are validated before the body is read, and
// the body is read in bounded chunks so memory use is proportional to the
// bytes actually received, not to the declared remaining length.
func ReadPacket(r *bufio.Reader, v Version, d Direction) (*Packet, error) {
	first, err := r.ReadByte()
	if err != nil {
		return nil, err // io.EOF on clean end
	}
	t, err := checkFirstByte(first, v, d)
	if err != nil {
		return nil, err
	}
	buf := make([]byte, 1, 64)
	buf[0] = first
	var rl uint32
	for {
		c, err := r.ReadByte()
		if err != nil {
			return nil, unexpected(err)
		}
		buf = append(buf, c)
		x, _, verr := ReadVarInt(buf[1:])
		if verr == nil {
			rl = x
			break
		}
		if de, ok := verr.(*DecodeError); ok {
			return nil, &DecodeError{Kind: Malformed, Type: t, Msg: "remaining length: " + de.Msg}
		}
		// ErrIncomplete: need another byte
	}
	const chunk = 32 << 10
	remaining := int(rl)
	for remaining > 0 {
		n := remaining
		if n > chunk {
			n = chunk
		}
		start := len(buf)
		buf = append(buf, make([]byte, n)...)
		if _, err := io.ReadFull(r, buf[start:]); err != nil {
			return nil, unexpected(err)
		}
		remaining -= n
	}
	p, n, err := Decode(buf, v, d)
	if err != nil {
		return nil, err
	}
	if n != len(buf) {
		return nil, fmt.Errorf("mqttwire: internal error: framed %d bytes, decoded %d", len(buf), n)
	}
	return p, nil
}

func unexpected(err error) error {
	if err == io.EOF {
		return io.ErrUnexpectedEOF
	}
	return err
}
