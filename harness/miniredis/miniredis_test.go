package miniredis

import (
	"bufio"
	"flag"
	"fmt"
	"net"
	"os"
	"reflect"
	"sort"
	"strconv"
	"strings"
	"sync"
	"testing"
	"time"

	"github.com/gomodule/redigo/redis"
	"pgregory.net/rapid"
)

func startServer(t testing.TB) *Server {
	t.Helper()
	s := New()
	if _, err := s.Start(); err != nil {
		t.Fatal(err)
	}
	t.Cleanup(s.Close)
	return s
}

func dial(t testing.TB, s *Server) redis.Conn {
	t.Helper()
	c, err := redis.Dial("tcp", s.Addr())
	if err != nil {
		t.Fatal(err)
	}
	t.Cleanup(func() { c.Close() })
	return c
}

// ---------------------------------------------------------------- generators

var (
	// Small domains on purpose: collisions (duplicates in lists, re-set hash
	// fields, WRONGTYPE on the shared key "k") are what makes the test bite.
	listKeys = []string{"l1", "l2", "k"}
	hashKeys = []string{"h1", "session:a", "k"}
	allKeys  = []string{"l1", "l2", "h1", "session:a", "k"}
	genKey   = rapid.SampledFrom(allKeys)
	genField = rapid.SampledFrom([]string{"f1", "f2", ""})
	genVal   = rapid.SampledFrom([]string{"a", "a", "b", "", "\x00\r\n$1\xff"})
	genIdx   = rapid.IntRange(-5, 5)
)

// TestMain raises rapid's default number of checks (100) unless the caller
// passed -rapid.checks explicitly: one check costs well under a millisecond.
func TestMain(m *testing.M) {
	flag.Parse()
	set := false
	flag.Visit(func(f *flag.Flag) { set = set || f.Name == "rapid.checks" })
	if !set {
		flag.Set("rapid.checks", "1500")
	}
	os.Exit(m.Run())
}

func randCase(t *rapid.T, s string) string {
	switch rapid.IntRange(0, 2).Draw(t, "case") {
	case 0:
		return strings.ToLower(s)
	case 1:
		return strings.ToUpper(s)
	}
	b := []byte(strings.ToLower(s))
	for i := range b {
		if i%2 == 0 {
			b[i] -= 'a' - 'A'
		}
	}
	return string(b)
}

func genCmd(t *rapid.T) []string {
	names := []string{
		"LLEN", "DEL", "EXISTS", "LRANGE", "LREM", "RPUSH", "LPUSH", "LSET", "LINDEX",
		"HSET", "HGET", "HMGET", "HGETALL", "HDEL", "HLEN", "HEXISTS",
		"KEYS", "TYPE", "DBSIZE", "PING", "ECHO",
		// weight the interesting ones
		"RPUSH", "RPUSH", "RPUSH", "LPUSH", "HSET", "HSET", "LREM", "LREM", "LRANGE", "LRANGE", "LSET",
		"HDEL", "HDEL", "DEL",
	}
	name := rapid.SampledFrom(names).Draw(t, "name")
	if rapid.IntRange(0, 60).Draw(t, "flush") == 0 {
		name = rapid.SampledFrom([]string{"FLUSHALL", "FLUSHDB"}).Draw(t, "flushname")
	}
	key := func() string {
		pool := allKeys
		if rapid.IntRange(0, 9).Draw(t, "typed") < 8 {
			if name[0] == 'L' || name == "RPUSH" {
				pool = listKeys
			} else if name[0] == 'H' {
				pool = hashKeys
			}
		}
		return rapid.SampledFrom(pool).Draw(t, "key")
	}
	val := func() string { return genVal.Draw(t, "val") }
	idx := func() string { return strconv.Itoa(genIdx.Draw(t, "idx")) }
	out := []string{randCase(t, name)}
	switch name {
	case "LLEN", "HGETALL", "HLEN", "TYPE":
		out = append(out, key())
	case "DEL", "EXISTS":
		out = append(out, rapid.SliceOfN(genKey, 1, 3).Draw(t, "keys")...)
	case "LRANGE":
		out = append(out, key(), idx(), idx())
	case "LREM":
		out = append(out, key(), strconv.Itoa(rapid.IntRange(-3, 3).Draw(t, "count")), val())
	case "RPUSH", "LPUSH":
		out = append(out, key())
		out = append(out, rapid.SliceOfN(genVal, 1, 4).Draw(t, "vals")...)
	case "LSET":
		out = append(out, key(), idx(), val())
	case "LINDEX":
		out = append(out, key(), idx())
	case "HSET":
		out = append(out, key())
		for i, n := 0, rapid.IntRange(1, 3).Draw(t, "npairs"); i < n; i++ {
			out = append(out, genField.Draw(t, "field"), val())
		}
	case "HGET", "HEXISTS":
		out = append(out, key(), genField.Draw(t, "field"))
	case "HMGET", "HDEL":
		out = append(out, key())
		out = append(out, rapid.SliceOfN(genField, 1, 4).Draw(t, "fields")...)
	case "KEYS":
		out = append(out, rapid.SampledFrom([]string{"*", "session:*", "l*", "h*"}).Draw(t, "pat"))
	case "ECHO":
		out = append(out, val())
	case "PING":
		if rapid.Bool().Draw(t, "pingarg") {
			out = append(out, val())
		}
	case "DBSIZE", "FLUSHALL", "FLUSHDB":
	default:
		panic(name)
	}
	return out
}

func toArgs(cmd []string) []interface{} {
	out := make([]interface{}, len(cmd)-1)
	for i, a := range cmd[1:] {
		// exercise redigo's different argument encoders
		if n, err := strconv.Atoi(a); err == nil && strconv.Itoa(n) == a {
			out[i] = n
		} else if i%2 == 0 {
			out[i] = []byte(a)
		} else {
			out[i] = a
		}
	}
	return out
}

// ---------------------------------- (1) + (2) + (3): differential properties

type exchanger func(t *rapid.T, cmds [][]string) []interface{}

func differential(t *testing.T, s *Server, xchg exchanger) {
	rapid.Check(t, func(t *rapid.T) {
		if _, err := s.Do("FLUSHALL"); err != nil {
			t.Fatal(err)
		}
		s.ResetJournal()
		m := newModel()
		cmds := rapid.SliceOfN(rapid.Custom(genCmd), 10, 120).Draw(t, "cmds")

		replies := xchg(t, cmds)
		if len(replies) != len(cmds) {
			t.Fatalf("got %d replies for %d commands", len(replies), len(cmds))
		}

		// state after k journaled commands according to the model
		states := []string{m.dump()}
		var wantJournal [][]string
		for i, cmd := range cmds {
			want, journaled := m.apply(cmd)
			g, w := normalize(cmd[0], replies[i]), normalize(cmd[0], want)
			if g != w {
				t.Fatalf("cmd %d %q:\n got  %s\n want %s", i, cmd, g, w)
			}
			if journaled {
				states = append(states, m.dump())
				wantJournal = append(wantJournal, cmd)
			}
		}
		if got, want := s.Dump(), m.dump(); got != want {
			t.Fatalf("final dump differs:\n got:\n%s\n want:\n%s", got, want)
		}

		// journal = exactly the successful mutating commands, in order
		j := s.Journal()
		if len(j) != len(wantJournal) || s.JournalLen() != len(j) {
			t.Fatalf("journal len %d (JournalLen %d), want %d", len(j), s.JournalLen(), len(wantJournal))
		}
		for i, c := range j {
			if c.Seq != i {
				t.Fatalf("journal[%d].Seq = %d", i, c.Seq)
			}
			want := append([]string{strings.ToUpper(wantJournal[i][0])}, wantJournal[i][1:]...)
			got := make([]string, len(c.Args))
			for k, a := range c.Args {
				got[k] = string(a)
			}
			if !reflect.DeepEqual(got, want) {
				t.Fatalf("journal[%d] = %q, want %q", i, got, want)
			}
		}

		// (3) every prefix of the journal materialises to the model's state
		for k := 0; k <= len(j); k++ {
			ms := Materialize(j, k)
			if got := ms.Dump(); got != states[k] {
				t.Fatalf("Materialize(k=%d):\n got:\n%s\n want:\n%s", k, got, states[k])
			}
			if ms.JournalLen() != 0 {
				t.Fatalf("materialized server has a journal")
			}
		}
	})
}

func TestDifferentialDo(t *testing.T) {
	s := startServer(t)
	c := dial(t, s)
	differential(t, s, func(t *rapid.T, cmds [][]string) []interface{} {
		out := make([]interface{}, len(cmds))
		for i, cmd := range cmds {
			r, err := c.Do(cmd[0], toArgs(cmd)...)
			if err != nil {
				if _, ok := err.(redis.Error); !ok {
					t.Fatalf("transport error: %v", err)
				}
				r = err
			}
			out[i] = r
		}
		return out
	})
}

func TestDifferentialPipelined(t *testing.T) {
	s := startServer(t)
	c := dial(t, s)
	differential(t, s, func(t *rapid.T, cmds [][]string) []interface{} {
		out := make([]interface{}, 0, len(cmds))
		// random batch boundaries
		for i := 0; i < len(cmds); {
			n := rapid.IntRange(1, 20).Draw(t, "batch")
			if i+n > len(cmds) {
				n = len(cmds) - i
			}
			for _, cmd := range cmds[i : i+n] {
				if err := c.Send(cmd[0], toArgs(cmd)...); err != nil {
					t.Fatal(err)
				}
			}
			if err := c.Flush(); err != nil {
				t.Fatal(err)
			}
			for range cmds[i : i+n] {
				r, err := c.Receive()
				if err != nil {
					if _, ok := err.(redis.Error); !ok {
						t.Fatalf("transport error: %v", err)
					}
					r = err
				}
				out = append(out, r)
			}
			i += n
		}
		return out
	})
}

// The in-process Do must behave exactly like the network path.
func TestDifferentialInProcess(t *testing.T) {
	s := New() // never started
	differential(t, s, func(t *rapid.T, cmds [][]string) []interface{} {
		out := make([]interface{}, len(cmds))
		for i, cmd := range cmds {
			r, err := s.Do(cmd...)
			if err != nil {
				r = err
			}
			out[i] = r
		}
		return out
	})
}

// ------------------------------------------------- (2) explicit pipelining

func TestPipeline(t *testing.T) {
	s := startServer(t)
	c := dial(t, s)
	// the shape used by gmqtt's queue: lrem + rpush pipelined, then Do
	c.Send("rpush", "queue:c1", []byte("m1"))
	c.Send("rpush", "queue:c1", []byte("m2"), []byte("m1"))
	c.Send("lrem", "queue:c1", 1, []byte("m1"))
	c.Send("lset", "queue:c1", 5, "x") // error in the middle of the pipeline
	c.Send("hset", "sub:c1", "a/b", []byte{0, 1, 2})
	if err := c.Flush(); err != nil {
		t.Fatal(err)
	}
	want := []string{"int(1)", "int(3)", "int(1)", "error(ERR index out of range)", "int(1)"}
	for i, w := range want {
		r, err := c.Receive()
		if err != nil {
			r = err
		}
		if g := render(r); g != w {
			t.Fatalf("reply %d: got %s want %s", i, g, w)
		}
	}
	// Do after Send without Flush/Receive: redigo flushes and drains
	c.Send("rpush", "queue:c1", "m3")
	vals, err := redis.Strings(c.Do("lrange", "queue:c1", 0, -1))
	if err != nil {
		t.Fatal(err)
	}
	if !reflect.DeepEqual(vals, []string{"m2", "m1", "m3"}) {
		t.Fatalf("lrange: %q", vals)
	}
	if s.JournalLen() != 5 {
		t.Fatalf("journal len %d, want 5 (failed LSET is not journaled)", s.JournalLen())
	}
}

// -------------------------------------------------------------- (4) SCAN

func scanAll(t *testing.T, c redis.Conn, extra ...interface{}) (keys []string, rounds int) {
	t.Helper()
	iter := 0
	for {
		args := append([]interface{}{iter}, extra...)
		arr, err := redis.Values(c.Do("SCAN", args...))
		if err != nil {
			t.Fatal(err)
		}
		if len(arr) != 2 {
			t.Fatalf("SCAN reply has %d elements", len(arr))
		}
		ks, err := redis.Strings(arr[1], nil)
		if err != nil {
			t.Fatal(err)
		}
		keys = append(keys, ks...)
		rounds++
		iter, err = redis.Int(arr[0], nil)
		if err != nil {
			t.Fatal(err)
		}
		if iter == 0 {
			return
		}
		if rounds > 10000 {
			t.Fatal("SCAN does not terminate")
		}
	}
}

func TestScanPages(t *testing.T) {
	s := startServer(t)
	c := dial(t, s)
	want := map[string]bool{}
	for i := 0; i < 57; i++ {
		k := fmt.Sprintf("session:client-%d", i)
		want[k] = true
		if _, err := c.Do("hset", k, "client_id", k); err != nil {
			t.Fatal(err)
		}
		if i%2 == 0 {
			c.Do("rpush", fmt.Sprintf("queue:client-%d", i), "x")
			c.Do("hset", fmt.Sprintf("sessionX%d", i), "f", "v") // near miss for the glob
		}
	}
	total := 57 + 29 + 29

	check := func(name string, keys []string, rounds, wantRounds int) {
		t.Helper()
		seen := map[string]int{}
		for _, k := range keys {
			seen[k]++
		}
		for k, n := range seen {
			if n != 1 {
				t.Errorf("%s: key %q returned %d times", name, k, n)
			}
			if !want[k] {
				t.Errorf("%s: unexpected key %q", name, k)
			}
		}
		for k := range want {
			if seen[k] == 0 {
				t.Errorf("%s: key %q missing", name, k)
			}
		}
		if rounds != wantRounds {
			t.Errorf("%s: %d rounds, want %d", name, rounds, wantRounds)
		}
	}
	ceil := func(a, b int) int { return (a + b - 1) / b }

	// default page size is redis' default COUNT (10)
	keys, rounds := scanAll(t, c, "MATCH", "session:*")
	check("default", keys, rounds, ceil(total, DefaultScanPageSize))

	s.SetScanPageSize(7)
	keys, rounds = scanAll(t, c, "MATCH", "session:*")
	check("page=7", keys, rounds, ceil(total, 7))

	// explicit COUNT wins over the configured page size
	keys, rounds = scanAll(t, c, "match", "session:*", "count", 50)
	check("count=50", keys, rounds, ceil(total, 50))

	// single batch
	s.SetScanPageSize(0)
	keys, rounds = scanAll(t, c, "MATCH", "session:*")
	check("page=0", keys, rounds, 1)

	// no MATCH: everything, exactly once
	s.SetScanPageSize(4)
	keys, _ = scanAll(t, c)
	sort.Strings(keys)
	all, _ := redis.Strings(c.Do("KEYS", "*"))
	sort.Strings(all)
	if len(keys) != total || !reflect.DeepEqual(keys, all) {
		t.Fatalf("SCAN without MATCH returned %d keys, KEYS * %d, want %d", len(keys), len(all), total)
	}

	// TYPE filter
	keys, _ = scanAll(t, c, "TYPE", "list")
	if len(keys) != 29 {
		t.Fatalf("SCAN TYPE list: %d keys", len(keys))
	}

	// keys present during the whole iteration survive concurrent deletes/creates
	s.SetScanPageSize(5)
	iter, n := 0, 0
	var got []string
	for {
		arr, err := redis.Values(c.Do("SCAN", iter, "MATCH", "session:*"))
		if err != nil {
			t.Fatal(err)
		}
		ks, _ := redis.Strings(arr[1], nil)
		got = append(got, ks...)
		// churn: delete a non-session key and create another one
		s.Do("DEL", fmt.Sprintf("sessionX%d", 2*n))
		s.Do("RPUSH", fmt.Sprintf("churn%d", n), "x")
		n++
		iter, _ = redis.Int(arr[0], nil)
		if iter == 0 {
			break
		}
	}
	check("churn", got, 0, 0)

	// errors
	for _, tc := range []struct {
		args []interface{}
		err  string
	}{
		{[]interface{}{"x"}, "ERR invalid cursor"},
		{[]interface{}{0, "COUNT", 0}, "ERR syntax error"},
		{[]interface{}{0, "COUNT", "z"}, "ERR value is not an integer or out of range"},
		{[]interface{}{0, "MATCH"}, "ERR syntax error"},
		{[]interface{}{0, "BOGUS", 1}, "ERR syntax error"},
	} {
		_, err := c.Do("SCAN", tc.args...)
		if err == nil || err.Error() != tc.err {
			t.Errorf("SCAN %v: err %v, want %s", tc.args, err, tc.err)
		}
	}
}

// -------------------------------------------------------- (5) pool + race

func TestPoolConcurrent(t *testing.T) {
	s := startServer(t)
	pool := &redis.Pool{
		MaxIdle:   8,
		MaxActive: 16,
		Wait:      true,
		Dial: func() (redis.Conn, error) {
			c, err := redis.Dial("tcp", s.Addr())
			if err != nil {
				return nil, err
			}
			if _, err := c.Do("AUTH", "secret"); err != nil {
				c.Close()
				return nil, err
			}
			if _, err := c.Do("SELECT", 0); err != nil {
				c.Close()
				return nil, err
			}
			return c, nil
		},
	}
	defer pool.Close()

	var hooked int
	s.OnMutate(func(Cmd) { hooked++ }) // under the store mutex: no race

	const G, N = 32, 60
	var wg sync.WaitGroup
	errs := make(chan error, G)
	for g := 0; g < G; g++ {
		wg.Add(1)
		go func(g int) {
			defer wg.Done()
			qk := fmt.Sprintf("queue:%d", g)
			for i := 0; i < N; i++ {
				c := pool.Get()
				v := fmt.Sprintf("%d-%d", g, i)
				c.Send("rpush", qk, v)
				c.Send("hset", "shared", v, 1)
				c.Send("hset", fmt.Sprintf("session:%d", g), "i", i)
				if err := c.Flush(); err != nil {
					errs <- err
					c.Close()
					return
				}
				for k := 0; k < 3; k++ {
					if _, err := c.Receive(); err != nil {
						errs <- err
						c.Close()
						return
					}
				}
				if i%3 == 0 { // remove every third element again
					if n, err := redis.Int(c.Do("lrem", qk, 1, v)); err != nil || n != 1 {
						errs <- fmt.Errorf("lrem %s: %d %v", v, n, err)
					}
				}
				if l, err := redis.Int(c.Do("llen", qk)); err != nil || l < 1 && i%3 != 0 {
					errs <- fmt.Errorf("llen: %d %v", l, err)
				}
				c.Close()
				if g%8 == 0 && i%10 == 0 {
					_ = s.Dump()
					_ = s.JournalLen()
					_ = s.Snapshot()
				}
			}
		}(g)
	}
	wg.Wait()
	close(errs)
	for err := range errs {
		t.Error(err)
	}

	c := pool.Get()
	defer c.Close()
	if n, _ := redis.Int(c.Do("hlen", "shared")); n != G*N {
		t.Errorf("hlen shared = %d, want %d", n, G*N)
	}
	lremPer := (N + 2) / 3
	for g := 0; g < G; g++ {
		vals, err := redis.Strings(c.Do("lrange", fmt.Sprintf("queue:%d", g), 0, -1))
		if err != nil {
			t.Fatal(err)
		}
		var want []string
		for i := 0; i < N; i++ {
			if i%3 != 0 {
				want = append(want, fmt.Sprintf("%d-%d", g, i))
			}
		}
		if !reflect.DeepEqual(vals, want) {
			t.Fatalf("queue:%d = %v", g, vals)
		}
		if v, _ := redis.Int(c.Do("hget", fmt.Sprintf("session:%d", g), "i")); v != N-1 {
			t.Errorf("session:%d i = %d", g, v)
		}
	}
	wantJ := G * (3*N + lremPer)
	if s.JournalLen() != wantJ {
		t.Errorf("journal len %d, want %d", s.JournalLen(), wantJ)
	}
	s.OnMutate(nil)
	if hooked != wantJ {
		t.Errorf("hook called %d times, want %d", hooked, wantJ)
	}
	// the journal reproduces the final state even under concurrency
	j := s.Journal()
	if got, want := Materialize(j, len(j)).Dump(), s.Dump(); got != want {
		t.Errorf("Materialize(full journal) differs from the live store")
	}
}

// ------------------------------------------------------------- unit tests

func TestGlob(t *testing.T) {
	for _, tc := range []struct {
		p, s string
		want bool
	}{
		{"session:*", "session:abc", true},
		{"session:*", "session:", true},
		{"session:*", "sessionX1", false},
		{"*", "anything", true},
		{"a*b*c", "aXXbYYc", true},
		{"a*b*c", "aXXbYY", false},
		{"a**", "a", true},
		{"h?llo", "hello", true},
		{"h?llo", "hllo", false},
		{"h[ae]llo", "hallo", true},
		{"h[ae]llo", "hillo", false},
		{"h[^e]llo", "hallo", true},
		{"h[^e]llo", "hello", false},
		{"h[a-c]llo", "hbllo", true},
		{"h[c-a]llo", "hbllo", true}, // reversed range, like redis
		{"h[a-c]llo", "hdllo", false},
		{"h[a\\]]llo", "h]llo", true},
		{"h\\*llo", "h*llo", true},
		{"h\\*llo", "hello", false},
		{"h\\?llo", "h?llo", true},
		{"\\[x\\]", "[x]", true},
		{"h[ab", "ha", true}, // unterminated class
		{"", "", true},
		{"", "a", false},
		{"a", "", false},
		{"abc", "abc", true},
		{"abc", "abcd", false},
		{"a\x00*", "a\x00b", true},
	} {
		if got := globMatch(tc.p, tc.s); got != tc.want {
			t.Errorf("globMatch(%q, %q) = %v, want %v", tc.p, tc.s, got, tc.want)
		}
	}
	// "*" matches the empty key through KEYS
	s := New()
	s.Do("RPUSH", "", "v")
	if r, _ := s.Do("KEYS", "*"); len(r.([]interface{})) != 1 {
		t.Errorf("KEYS * did not return the empty key")
	}
}

func TestErrorsAndEdgeCases(t *testing.T) {
	s := startServer(t)
	c := dial(t, s)
	c.Do("RPUSH", "l", "a", "b", "c")
	c.Do("HSET", "h", "f", "v")
	for _, tc := range []struct {
		cmd  string
		args []interface{}
		want string
	}{
		{"nosuch", []interface{}{"a", "b"}, "error(ERR unknown command 'nosuch', with args beginning with: 'a' 'b' )"},
		{"llen", nil, "error(ERR wrong number of arguments for 'llen' command)"},
		{"LRANGE", []interface{}{"l", "0"}, "error(ERR wrong number of arguments for 'lrange' command)"},
		{"hset", []interface{}{"h", "f"}, "error(ERR wrong number of arguments for 'hset' command)"},
		{"hset", []interface{}{"h", "f", "v", "g"}, "error(ERR wrong number of arguments for 'hset' command)"},
		{"lrange", []interface{}{"l", "x", "1"}, "error(ERR value is not an integer or out of range)"},
		{"lrange", []interface{}{"l", "01", "1"}, "error(ERR value is not an integer or out of range)"},
		{"lrange", []interface{}{"l", "+1", "1"}, "error(ERR value is not an integer or out of range)"},
		{"lrange", []interface{}{"l", " 1", "1"}, "error(ERR value is not an integer or out of range)"},
		{"lrange", []interface{}{"l", "99999999999999999999", "1"}, "error(ERR value is not an integer or out of range)"},
		{"lrem", []interface{}{"l", "x", "a"}, "error(ERR value is not an integer or out of range)"},
		{"lset", []interface{}{"l", "x", "a"}, "error(ERR value is not an integer or out of range)"},
		{"lset", []interface{}{"missing", "x", "a"}, "error(ERR no such key)"},
		{"lset", []interface{}{"l", 3, "a"}, "error(ERR index out of range)"},
		{"lset", []interface{}{"l", -4, "a"}, "error(ERR index out of range)"},
		{"lset", []interface{}{"l", -3, "A"}, "status(OK)"},
		{"lset", []interface{}{"h", 0, "a"}, "error(WRONGTYPE Operation against a key holding the wrong kind of value)"},
		{"hget", []interface{}{"l", "f"}, "error(WRONGTYPE Operation against a key holding the wrong kind of value)"},
		{"lrange", []interface{}{"l", -100, 100}, "array[bulk(\"A\") bulk(\"b\") bulk(\"c\")]"},
		{"lrange", []interface{}{"l", -1, -1}, "array[bulk(\"c\")]"},
		{"lrange", []interface{}{"l", 2, 1}, "array[]"},
		{"lrange", []interface{}{"l", 0, 3}, "array[bulk(\"A\") bulk(\"b\") bulk(\"c\")]"}, // gmqtt uses stop == len
		{"lrem", []interface{}{"l", "-9223372036854775808", "zzz"}, "int(0)"},
		{"hmget", []interface{}{"missing", "a", "b"}, "array[nil nil]"},
		{"hmget", []interface{}{"h", "f", "nope"}, "array[bulk(\"v\") nil]"},
		{"hgetall", []interface{}{"missing"}, "array[]"},
		{"type", []interface{}{"l"}, "status(list)"},
		{"type", []interface{}{"h"}, "status(hash)"},
		{"type", []interface{}{"missing"}, "status(none)"},
		{"exists", []interface{}{"l", "l", "h", "missing"}, "int(3)"},
		{"ping", nil, "status(PONG)"},
		{"ping", []interface{}{"hi"}, "bulk(\"hi\")"},
		{"auth", []interface{}{"pw"}, "status(OK)"},
		{"auth", []interface{}{"user", "pw"}, "status(OK)"},
		{"select", []interface{}{3}, "status(OK)"},
		{"flushall", []interface{}{"async"}, "status(OK)"},
		{"dbsize", nil, "int(0)"},
	} {
		r, err := c.Do(tc.cmd, tc.args...)
		if err != nil {
			r = err
		}
		if g := render(r); g != tc.want {
			t.Errorf("%s %v:\n got  %s\n want %s", tc.cmd, tc.args, g, tc.want)
		}
	}

	// empty containers disappear
	c.Do("rpush", "l", "a")
	c.Do("lrem", "l", 0, "a")
	c.Do("hset", "h", "f", "v")
	c.Do("hdel", "h", "f", "f")
	if n, _ := redis.Int(c.Do("dbsize")); n != 0 {
		t.Errorf("dbsize = %d after emptying containers\n%s", n, s.Dump())
	}
	// a key may change kind after being emptied
	if _, err := c.Do("hset", "l", "f", "v"); err != nil {
		t.Error(err)
	}

	// gmqtt's Unsubscribe passes a []string as ONE argument (redigo formats it
	// with fmt.Sprint); the server must simply treat it as one field name.
	c.Do("hset", "sub:c", "a/b", "1", "[a/b c/d]", "2")
	if n, _ := redis.Int(c.Do("hdel", "sub:c", []string{"a/b", "c/d"})); n != 1 {
		t.Errorf("hdel with slice arg removed %d fields", n)
	}
}

func TestRawProtocol(t *testing.T) {
	s := startServer(t)
	nc, err := net.Dial("tcp", s.Addr())
	if err != nil {
		t.Fatal(err)
	}
	defer nc.Close()
	nc.SetDeadline(time.Now().Add(5 * time.Second))
	r := bufio.NewReader(nc)
	expect := func(want string) {
		t.Helper()
		buf := make([]byte, len(want))
		if _, err := readFull(r, buf); err != nil {
			t.Fatalf("read: %v (want %q)", err, want)
		}
		if string(buf) != want {
			t.Fatalf("got %q want %q", buf, want)
		}
	}
	// inline command, empty line, multibulk, *0
	fmt.Fprint(nc, "PING\r\n\r\n*0\r\n*2\r\n$4\r\nECHO\r\n$5\r\na\r\nb \r\n")
	expect("+PONG\r\n$5\r\na\r\nb \r\n")
	fmt.Fprint(nc, "rpush k v1 v2\r\n*2\r\n$4\r\nLLEN\r\n$1\r\nk\r\n*3\r\n$6\r\nlindex\r\n$1\r\nk\r\n$1\r\n9\r\n")
	expect(":2\r\n:2\r\n$-1\r\n")
	// protocol error closes the connection
	fmt.Fprint(nc, "*1\r\n+PING\r\n")
	expect("-ERR Protocol error: expected '$', got '+'\r\n")
	if _, err := r.ReadByte(); err == nil {
		t.Fatal("connection still open after protocol error")
	}
}

func readFull(r *bufio.Reader, buf []byte) (int, error) {
	n := 0
	for n < len(buf) {
		m, err := r.Read(buf[n:])
		n += m
		if err != nil {
			return n, err
		}
	}
	return n, nil
}

func TestFailAfter(t *testing.T) {
	s := startServer(t)
	c1, c2 := dial(t, s), dial(t, s)
	if _, err := c2.Do("PING"); err != nil {
		t.Fatal(err)
	}
	s.FailAfter(2)
	if _, err := c1.Do("rpush", "l", "a"); err != nil {
		t.Fatal(err)
	}
	if _, err := c1.Do("llen", "l"); err != nil { // reads do not count
		t.Fatal(err)
	}
	if _, err := c1.Do("lset", "l", 9, "x"); err == nil { // failed mutation does not count
		t.Fatal("expected error")
	}
	if s.Failing() {
		t.Fatal("failing too early")
	}
	// pipeline crossing the fail point: first applied + replied, the rest dropped
	c1.Send("rpush", "l", "b")
	c1.Send("rpush", "l", "c")
	c1.Send("rpush", "l", "d")
	c1.Flush()
	if n, err := redis.Int(c1.Receive()); err != nil || n != 2 {
		t.Fatalf("first pipelined reply: %d %v", n, err)
	}
	if _, err := c1.Receive(); err == nil {
		t.Fatal("expected connection error after the fail point")
	}
	if !s.Failing() {
		t.Fatal("not failing")
	}
	// every other connection fails too, even for reads; new connections as well
	if _, err := c2.Do("PING"); err == nil {
		t.Fatal("c2 PING succeeded while failing")
	}
	c3, err := redis.Dial("tcp", s.Addr())
	if err == nil {
		_, err = c3.Do("PING")
		c3.Close()
	}
	if err == nil {
		t.Fatal("new connection usable while failing")
	}
	// in-process access still works and shows exactly two applied pushes
	if got, want := s.Dump(), "list \"l\" len=2\n  [0] \"a\"\n  [1] \"b\"\n"; got != want {
		t.Fatalf("dump:\n%s", got)
	}
	if s.JournalLen() != 2 {
		t.Fatalf("journal len %d", s.JournalLen())
	}
	// heal
	s.FailAfter(-1)
	c4 := dial(t, s)
	if n, err := redis.Int(c4.Do("llen", "l")); err != nil || n != 2 {
		t.Fatalf("after heal: %d %v", n, err)
	}
	// FailAfter(0) fails immediately; the hook may arm it too
	s.FailAfter(0)
	if _, err := c4.Do("PING"); err == nil {
		t.Fatal("FailAfter(0) did not fail")
	}
	s.FailAfter(-1)
	s.OnMutate(func(c Cmd) {
		if string(c.Args[0]) == "HSET" {
			s.FailAfter(0)
		}
	})
	c5 := dial(t, s)
	if _, err := c5.Do("rpush", "l", "z"); err != nil {
		t.Fatal(err)
	}
	if _, err := c5.Do("hset", "h", "f", "v"); err != nil {
		t.Fatal(err) // the triggering command itself is applied and replied
	}
	if _, err := c5.Do("PING"); err == nil {
		t.Fatal("hook-armed failure did not trigger")
	}
}

func TestSnapshotRestoreMaterializeFrom(t *testing.T) {
	s := New()
	s.Do("RPUSH", "l", "a", "b")
	s.Do("HSET", "h", "f", "v")
	sn := s.SnapshotAndResetJournal()
	base := s.Dump()
	if sn.Dump() != base {
		t.Fatal("snapshot dump differs")
	}
	s.Do("LSET", "l", "0", "A")
	s.Do("HDEL", "h", "f")
	s.Do("LPUSH", "l2", "x", "y")
	if sn.Dump() != base {
		t.Fatal("snapshot was mutated through the live store")
	}
	j := s.Journal()
	if len(j) != 3 || j[0].Seq != 0 {
		t.Fatalf("journal %v", j)
	}
	want := []string{
		base,
		"hash \"h\" len=1\n  \"f\" => \"v\"\nlist \"l\" len=2\n  [0] \"A\"\n  [1] \"b\"\n",
		"list \"l\" len=2\n  [0] \"A\"\n  [1] \"b\"\n",
		"list \"l\" len=2\n  [0] \"A\"\n  [1] \"b\"\nlist \"l2\" len=2\n  [0] \"y\"\n  [1] \"x\"\n",
	}
	for k := range want {
		if got := MaterializeFrom(sn, j, k).Dump(); got != want[k] {
			t.Errorf("MaterializeFrom k=%d:\n%s\nwant:\n%s", k, got, want[k])
		}
	}
	if got := MaterializeFrom(sn, j, 99).Dump(); got != s.Dump() {
		t.Errorf("k is not clamped")
	}
	s2 := NewFromSnapshot(sn)
	s2.Do("DEL", "l")
	if sn.Dump() != base {
		t.Fatal("snapshot was mutated through NewFromSnapshot")
	}
	s.Restore(sn)
	if s.Dump() != base {
		t.Fatal("Restore")
	}
	// journal args are not aliased to caller buffers
	j[0].Args = nil
	if len(s.Journal()[0].Args) == 0 {
		t.Fatal("Journal() is not a copy")
	}
}

func TestCloseAndRestart(t *testing.T) {
	s := New()
	if s.Addr() != "" {
		t.Fatal("addr before start")
	}
	addr, err := s.Start()
	if err != nil || addr != s.Addr() || !strings.HasPrefix(addr, "127.0.0.1:") {
		t.Fatal(addr, err)
	}
	if _, err := s.Start(); err == nil {
		t.Fatal("double Start succeeded")
	}
	c, err := redis.Dial("tcp", addr)
	if err != nil {
		t.Fatal(err)
	}
	defer c.Close()
	c.Do("rpush", "l", "a")
	idle, _ := net.Dial("tcp", addr) // a connection that never sends anything
	defer idle.Close()
	done := make(chan struct{})
	go func() { s.Close(); close(done) }()
	select {
	case <-done:
	case <-time.After(5 * time.Second):
		t.Fatal("Close hangs")
	}
	s.Close() // idempotent
	if _, err := c.Do("PING"); err == nil {
		t.Fatal("connection survived Close")
	}
	if _, err := redis.Dial("tcp", addr, redis.DialConnectTimeout(time.Second)); err == nil {
		t.Fatal("listener survived Close")
	}
	// store survives, server can be restarted
	addr2, err := s.Start()
	if err != nil {
		t.Fatal(err)
	}
	defer s.Close()
	c2, err := redis.Dial("tcp", addr2)
	if err != nil {
		t.Fatal(err)
	}
	defer c2.Close()
	if n, err := redis.Int(c2.Do("llen", "l")); err != nil || n != 1 {
		t.Fatal(n, err)
	}
	// CloseConnections keeps the listener
	s.CloseConnections()
	if _, err := c2.Do("PING"); err == nil {
		t.Fatal("connection survived CloseConnections")
	}
	c3, err := redis.Dial("tcp", addr2)
	if err != nil {
		t.Fatal(err)
	}
	defer c3.Close()
	if _, err := c3.Do("PING"); err != nil {
		t.Fatal(err)
	}
}
