package miniredis

import (
	"bufio"
	"bytes"
	"fmt"
	"io"
	"strconv"
)

// Error is a RESP error reply ("-ERR ..."). The string is the full text after
// the leading '-', e.g. "ERR no such key" or "WRONGTYPE Operation against ...".
type Error string

func (e Error) Error() string { return string(e) }

// protoError is a fatal protocol error: it is reported to the client and the
// connection is closed, like redis does.
type protoError string

func (e protoError) Error() string { return "Protocol error: " + string(e) }

const (
	maxMultiBulk = 1024 * 1024
	maxBulkLen   = 512 * 1024 * 1024
)

func readLine(r *bufio.Reader) ([]byte, error) {
	line, err := r.ReadBytes('\n')
	if err != nil {
		return nil, err
	}
	line = line[:len(line)-1]
	if n := len(line); n > 0 && line[n-1] == '\r' {
		line = line[:n-1]
	}
	return line, nil
}

// readCommand reads one command from the client. It supports the normal
// multibulk form ("*N\r\n$len\r\n...") and, for convenience, inline commands
// (whitespace-separated words on one line). An empty result with a nil error
// means "nothing to do" (empty line, or "*0").
func readCommand(r *bufio.Reader) ([][]byte, error) {
	line, err := readLine(r)
	if err != nil {
		return nil, err
	}
	if len(line) == 0 {
		return nil, nil
	}
	if line[0] != '*' {
		fields := bytes.Fields(line)
		out := make([][]byte, len(fields))
		for i, f := range fields {
			out[i] = append([]byte(nil), f...)
		}
		return out, nil
	}
	n, perr := strconv.ParseInt(string(line[1:]), 10, 64)
	if perr != nil || n > maxMultiBulk {
		return nil, protoError("invalid multibulk length")
	}
	if n <= 0 {
		return nil, nil
	}
	args := make([][]byte, 0, n)
	for i := int64(0); i < n; i++ {
		line, err = readLine(r)
		if err != nil {
			return nil, err
		}
		if len(line) == 0 || line[0] != '$' {
			c := byte(0)
			if len(line) > 0 {
				c = line[0]
			}
			return nil, protoError(fmt.Sprintf("expected '$', got '%c'", c))
		}
		l, perr := strconv.ParseInt(string(line[1:]), 10, 64)
		if perr != nil || l < 0 || l > maxBulkLen {
			return nil, protoError("invalid bulk length")
		}
		buf := make([]byte, l+2)
		if _, err = io.ReadFull(r, buf); err != nil {
			return nil, err
		}
		args = append(args, buf[:l:l])
	}
	return args, nil
}

// writeReply encodes a reply value in RESP2.
//
//	nil            -> null bulk string
//	string         -> simple status (+OK)
//	Error / error  -> error (-ERR ...)
//	int64 / int    -> integer
//	[]byte         -> bulk string
//	[]interface{}  -> array (recursively)
func writeReply(w *bufio.Writer, v interface{}) {
	switch x := v.(type) {
	case nil:
		w.WriteString("$-1\r\n")
	case string:
		w.WriteByte('+')
		w.WriteString(x)
		w.WriteString("\r\n")
	case error:
		w.WriteByte('-')
		w.WriteString(x.Error())
		w.WriteString("\r\n")
	case int64:
		w.WriteByte(':')
		w.WriteString(strconv.FormatInt(x, 10))
		w.WriteString("\r\n")
	case int:
		w.WriteByte(':')
		w.WriteString(strconv.Itoa(x))
		w.WriteString("\r\n")
	case []byte:
		w.WriteByte('$')
		w.WriteString(strconv.Itoa(len(x)))
		w.WriteString("\r\n")
		w.Write(x)
		w.WriteString("\r\n")
	case []interface{}:
		w.WriteByte('*')
		w.WriteString(strconv.Itoa(len(x)))
		w.WriteString("\r\n")
		for _, e := range x {
			writeReply(w, e)
		}
	default:
		panic(fmt.Sprintf("miniredis: cannot encode reply of type %T", v))
	}
}
