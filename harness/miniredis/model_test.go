package miniredis

import (
	"fmt"
	"sort"
	"strconv"
	"strings"

	"github.com/gomodule/redigo/redis"
)

// model is a deliberately naive reference implementation, written
// independently of store.go, producing replies in the shapes redigo returns:
// int64, []byte, nil, []interface{}, string (status), redis.Error.
type model struct {
	lists  map[string][]string
	hashes map[string]map[string]string
}

func newModel() *model {
	return &model{lists: map[string][]string{}, hashes: map[string]map[string]string{}}
}

const wrongType = redis.Error("WRONGTYPE Operation against a key holding the wrong kind of value")

var mutatingNames = map[string]bool{
	"DEL": true, "LREM": true, "RPUSH": true, "LPUSH": true, "LSET": true,
	"HSET": true, "HDEL": true, "FLUSHALL": true, "FLUSHDB": true,
}

func (m *model) isList(k string) bool { _, ok := m.lists[k]; return ok }
func (m *model) isHash(k string) bool { _, ok := m.hashes[k]; return ok }
func (m *model) has(k string) bool    { return m.isList(k) || m.isHash(k) }

func (m *model) allKeys() []string {
	var ks []string
	for k := range m.lists {
		ks = append(ks, k)
	}
	for k := range m.hashes {
		ks = append(ks, k)
	}
	sort.Strings(ks)
	return ks
}

func atoi(s string) int {
	n, err := strconv.Atoi(s)
	if err != nil {
		panic(err)
	}
	return n
}

func bs(ss []string) []interface{} {
	out := []interface{}{}
	for _, s := range ss {
		out = append(out, []byte(s))
	}
	return out
}

// apply executes one command (args[0] = name in any case) and returns the
// expected reply and whether it counts as a journaled mutation.
func (m *model) apply(args []string) (reply interface{}, journaled bool) {
	name := strings.ToUpper(args[0])
	a := args[1:]
	reply = m.run(name, a)
	_, isErr := reply.(redis.Error)
	return reply, mutatingNames[name] && !isErr
}

func (m *model) run(name string, a []string) interface{} {
	switch name {
	case "PING":
		if len(a) == 0 {
			return "PONG"
		}
		return []byte(a[0])
	case "ECHO":
		return []byte(a[0])
	case "DBSIZE":
		return int64(len(m.lists) + len(m.hashes))
	case "FLUSHALL", "FLUSHDB":
		m.lists = map[string][]string{}
		m.hashes = map[string]map[string]string{}
		return "OK"
	case "TYPE":
		switch {
		case m.isList(a[0]):
			return "list"
		case m.isHash(a[0]):
			return "hash"
		}
		return "none"
	case "DEL":
		n := int64(0)
		for _, k := range a {
			if m.has(k) {
				n++
			}
			delete(m.lists, k)
			delete(m.hashes, k)
		}
		return n
	case "EXISTS":
		n := int64(0)
		for _, k := range a {
			if m.has(k) {
				n++
			}
		}
		return n
	case "KEYS":
		// only "*" and "prefix*" patterns are generated for the model
		var out []string
		for _, k := range m.allKeys() {
			if strings.HasPrefix(k, strings.TrimSuffix(a[0], "*")) {
				out = append(out, k)
			}
		}
		return bs(out)
	}

	key := a[0]
	switch name {
	case "LLEN", "LRANGE", "LREM", "RPUSH", "LPUSH", "LSET", "LINDEX":
		if m.isHash(key) {
			return wrongType
		}
	default:
		if m.isList(key) {
			return wrongType
		}
	}
	l := m.lists[key]
	h := m.hashes[key]

	switch name {
	case "LLEN":
		return int64(len(l))
	case "RPUSH":
		m.lists[key] = append(l, a[1:]...)
		return int64(len(m.lists[key]))
	case "LPUSH":
		for _, v := range a[1:] {
			l = append([]string{v}, l...)
		}
		m.lists[key] = l
		return int64(len(l))
	case "LINDEX":
		i := atoi(a[1])
		if i < 0 {
			i += len(l)
		}
		if i < 0 || i >= len(l) {
			return nil
		}
		return []byte(l[i])
	case "LSET":
		if l == nil {
			return redis.Error("ERR no such key")
		}
		i := atoi(a[1])
		if i < 0 {
			i += len(l)
		}
		if i < 0 || i >= len(l) {
			return redis.Error("ERR index out of range")
		}
		l[i] = a[2]
		return "OK"
	case "LRANGE":
		// naive: collect every index i with start <= i <= stop
		start, stop := atoi(a[1]), atoi(a[2])
		if start < 0 {
			start += len(l)
		}
		if stop < 0 {
			stop += len(l)
		}
		var out []string
		for i := range l {
			if i >= start && i <= stop {
				out = append(out, l[i])
			}
		}
		return bs(out)
	case "LREM":
		count, val := atoi(a[1]), a[2]
		removed := 0
		rm := func(i int) { l = append(l[:i:i], l[i+1:]...); removed++ }
		switch {
		case count > 0:
			for i := 0; i < len(l) && removed < count; {
				if l[i] == val {
					rm(i)
				} else {
					i++
				}
			}
		case count < 0:
			for i := len(l) - 1; i >= 0 && removed < -count; i-- {
				if l[i] == val {
					rm(i)
				}
			}
		default:
			for i := 0; i < len(l); {
				if l[i] == val {
					rm(i)
				} else {
					i++
				}
			}
		}
		if len(l) == 0 {
			delete(m.lists, key)
		} else if m.isList(key) {
			m.lists[key] = l
		}
		return int64(removed)

	case "HSET":
		if h == nil {
			h = map[string]string{}
			m.hashes[key] = h
		}
		n := int64(0)
		for i := 1; i+1 < len(a); i += 2 {
			if _, ok := h[a[i]]; !ok {
				n++
			}
			h[a[i]] = a[i+1]
		}
		return n
	case "HGET":
		if v, ok := h[a[1]]; ok {
			return []byte(v)
		}
		return nil
	case "HMGET":
		out := []interface{}{}
		for _, f := range a[1:] {
			if v, ok := h[f]; ok {
				out = append(out, []byte(v))
			} else {
				out = append(out, nil)
			}
		}
		return out
	case "HGETALL":
		out := []interface{}{}
		for f, v := range h {
			out = append(out, []byte(f), []byte(v))
		}
		return out
	case "HDEL":
		n := int64(0)
		for _, f := range a[1:] {
			if _, ok := h[f]; ok {
				n++
				delete(h, f)
			}
		}
		if h != nil && len(h) == 0 {
			delete(m.hashes, key)
		}
		return n
	case "HLEN":
		return int64(len(h))
	case "HEXISTS":
		if _, ok := h[a[1]]; ok {
			return int64(1)
		}
		return int64(0)
	}
	panic("model: unknown command " + name)
}

// dump mirrors the documented format of Server.Dump.
func (m *model) dump() string {
	var b strings.Builder
	for _, k := range m.allKeys() {
		if l, ok := m.lists[k]; ok {
			fmt.Fprintf(&b, "list %q len=%d\n", k, len(l))
			for i, v := range l {
				fmt.Fprintf(&b, "  [%d] %q\n", i, v)
			}
			continue
		}
		h := m.hashes[k]
		fmt.Fprintf(&b, "hash %q len=%d\n", k, len(h))
		var fs []string
		for f := range h {
			fs = append(fs, f)
		}
		sort.Strings(fs)
		for _, f := range fs {
			fmt.Fprintf(&b, "  %q => %q\n", f, h[f])
		}
	}
	return b.String()
}

// normalize makes order-insensitive replies comparable and renders a reply
// as a string (so that nil / empty-slice distinctions and error types from
// different packages do not matter, but values and shapes do).
func normalize(name string, v interface{}) string {
	name = strings.ToUpper(name)
	if arr, ok := v.([]interface{}); ok {
		switch name {
		case "HGETALL":
			var pairs []string
			for i := 0; i+1 < len(arr); i += 2 {
				pairs = append(pairs, render(arr[i])+"=>"+render(arr[i+1]))
			}
			if len(arr)%2 != 0 {
				pairs = append(pairs, "ODD!")
			}
			sort.Strings(pairs)
			return "pairs" + fmt.Sprint(pairs)
		case "KEYS":
			var ks []string
			for _, e := range arr {
				ks = append(ks, render(e))
			}
			sort.Strings(ks)
			return "set" + fmt.Sprint(ks)
		}
	}
	return render(v)
}

func render(v interface{}) string {
	switch x := v.(type) {
	case nil:
		return "nil"
	case int64:
		return fmt.Sprintf("int(%d)", x)
	case []byte:
		return fmt.Sprintf("bulk(%q)", x)
	case string:
		return fmt.Sprintf("status(%s)", x)
	case error:
		return fmt.Sprintf("error(%s)", x.Error())
	case []interface{}:
		parts := make([]string, len(x))
		for i, e := range x {
			parts[i] = render(e)
		}
		return "array[" + strings.Join(parts, " ") + "]"
	}
	return fmt.Sprintf("?%T(%v)", v, v)
}
