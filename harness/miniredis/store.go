package miniredis

import (
	"fmt"
	"math"
	"sort"
	"strconv"
	"strings"
	"time"
)

const (
	errWrongType = Error("WRONGTYPE Operation against a key holding the wrong kind of value")
	errNotInt    = Error("ERR value is not an integer or out of range")
	errSyntax    = Error("ERR syntax error")
	errNoSuchKey = Error("ERR no such key")
	errIndex     = Error("ERR index out of range")
	errCursor    = Error("ERR invalid cursor")
)

type kind uint8

const (
	kindList kind = iota + 1
	kindHash
)

func (k kind) String() string {
	switch k {
	case kindList:
		return "list"
	case kindHash:
		return "hash"
	}
	return "none"
}

// entry is the value stored under one key. Values are Go strings (immutable,
// binary-safe), which makes deep copies cheap and aliasing impossible.
type entry struct {
	seq    uint64 // creation sequence number of the key; defines SCAN/KEYS order
	kind   kind
	list   []string
	hash   map[string]string
	fields []string // hash fields in insertion order (like a small redis hash)
}

type store struct {
	keys    map[string]*entry
	nextSeq uint64 // last sequence number handed out; first key gets 1
	// expire holds the time-to-live of keys (EXPIRE / PEXPIRE / PERSIST); purge applies it before every command
	expire map[string]time.Time
}

func newStore() *store { return &store{keys: map[string]*entry{}, expire: map[string]time.Time{}} }

// purge removes the keys whose time to live has run out and forgets the time to live of keys that are gone.
func (st *store) purge(now time.Time) {
	for k, t := range st.expire {
		if _, ok := st.keys[k]; !ok {
			delete(st.expire, k)
		} else if !now.Before(t) {
			delete(st.keys, k)
			delete(st.expire, k)
		}
	}
}

func (st *store) clone() *store {
	c := &store{keys: make(map[string]*entry, len(st.keys)), nextSeq: st.nextSeq, expire: make(map[string]time.Time, len(st.expire))}
	for k, t := range st.expire {
		c.expire[k] = t
	}
	for k, e := range st.keys {
		ne := &entry{seq: e.seq, kind: e.kind}
		switch e.kind {
		case kindList:
			ne.list = append([]string(nil), e.list...)
		case kindHash:
			ne.fields = append([]string(nil), e.fields...)
			ne.hash = make(map[string]string, len(e.hash))
			for f, v := range e.hash {
				ne.hash[f] = v
			}
		}
		c.keys[k] = ne
	}
	return c
}

func (st *store) dump() string {
	keys := make([]string, 0, len(st.keys))
	for k := range st.keys {
		keys = append(keys, k)
	}
	sort.Strings(keys)
	var b strings.Builder
	for _, k := range keys {
		e := st.keys[k]
		switch e.kind {
		case kindList:
			fmt.Fprintf(&b, "list %q len=%d\n", k, len(e.list))
			for i, v := range e.list {
				fmt.Fprintf(&b, "  [%d] %q\n", i, v)
			}
		case kindHash:
			fmt.Fprintf(&b, "hash %q len=%d\n", k, len(e.hash))
			fs := make([]string, 0, len(e.hash))
			for f := range e.hash {
				fs = append(fs, f)
			}
			sort.Strings(fs)
			for _, f := range fs {
				fmt.Fprintf(&b, "  %q => %q\n", f, e.hash[f])
			}
		}
	}
	return b.String()
}

// lookup returns the entry for key if it exists and has kind k; (nil, nil) if
// the key is missing; WRONGTYPE if it holds the other kind.
func (st *store) lookup(key string, k kind) (*entry, error) {
	e := st.keys[key]
	if e == nil {
		return nil, nil
	}
	if e.kind != k {
		return nil, errWrongType
	}
	return e, nil
}

func (st *store) create(key string, k kind) *entry {
	st.nextSeq++
	e := &entry{seq: st.nextSeq, kind: k}
	if k == kindHash {
		e.hash = map[string]string{}
	}
	st.keys[key] = e
	return e
}

// keysBySeq returns the keys whose creation seq is > after, ordered by seq.
func (st *store) keysBySeq(after uint64) []string {
	out := make([]string, 0, len(st.keys))
	for k, e := range st.keys {
		if e.seq > after {
			out = append(out, k)
		}
	}
	sort.Slice(out, func(i, j int) bool { return st.keys[out[i]].seq < st.keys[out[j]].seq })
	return out
}

// parseInt is redis' string2ll: strict decimal, optional leading '-', no '+',
// no leading zeros, no spaces, no "-0".
func parseInt(b []byte) (int64, error) {
	s := string(b)
	if s == "" {
		return 0, errNotInt
	}
	if s == "0" {
		return 0, nil
	}
	d := s
	if d[0] == '-' {
		d = d[1:]
	}
	if d == "" || d[0] < '1' || d[0] > '9' {
		return 0, errNotInt
	}
	for i := 1; i < len(d); i++ {
		if d[i] < '0' || d[i] > '9' {
			return 0, errNotInt
		}
	}
	n, err := strconv.ParseInt(s, 10, 64)
	if err != nil {
		return 0, errNotInt
	}
	return n, nil
}

func bulk(s string) []byte { return []byte(s) }

func bulks(ss []string) []interface{} {
	out := make([]interface{}, len(ss))
	for i, s := range ss {
		out[i] = []byte(s)
	}
	return out
}

// options carries server configuration that commands need but that is not
// part of the data set.
type options struct {
	scanPage int // default number of keys examined per SCAN call; <=0: all
}

// a is the argument vector WITHOUT the command name.
type cmdFunc func(st *store, a [][]byte, opt *options) (interface{}, error)

type cmdInfo struct {
	// arity counts the command name, like redis: >0 exact, <0 "at least -arity".
	arity    int
	mutating bool
	fn       cmdFunc
}

var commands map[string]cmdInfo

func init() {
	commands = map[string]cmdInfo{
		"AUTH":     {-2, false, cmdAuth},
		"SELECT":   {2, false, cmdSelect},
		"PING":     {-1, false, cmdPing},
		"ECHO":     {2, false, cmdEcho},
		"QUIT":     {-1, false, cmdOK},
		"LLEN":     {2, false, cmdLLen},
		"DEL":      {-2, true, cmdDel},
		"EXISTS":   {-2, false, cmdExists},
		"LRANGE":   {4, false, cmdLRange},
		"LREM":     {4, true, cmdLRem},
		"RPUSH":    {-3, true, cmdRPush},
		"LPUSH":    {-3, true, cmdLPush},
		"LSET":     {4, true, cmdLSet},
		"LINDEX":   {3, false, cmdLIndex},
		"HSET":     {-4, true, cmdHSet},
		"HGET":     {3, false, cmdHGet},
		"HMGET":    {-3, false, cmdHMGet},
		"HGETALL":  {2, false, cmdHGetAll},
		"HKEYS":    {2, false, cmdHKeys},
		"HVALS":    {2, false, cmdHVals},
		"HDEL":     {-3, true, cmdHDel},
		"HLEN":     {2, false, cmdHLen},
		"HEXISTS":  {3, false, cmdHExists},
		"SCAN":     {-2, false, cmdScan},
		"KEYS":     {2, false, cmdKeys},
		"FLUSHALL": {-1, true, cmdFlush},
		"FLUSHDB":  {-1, true, cmdFlush},
		"TYPE":     {2, false, cmdType},
		"DBSIZE":   {1, false, cmdDBSize},
		"EXPIRE":   {3, true, cmdExpire},
		"PEXPIRE":  {3, true, cmdPExpire},
		"PERSIST":  {2, true, cmdPersist},
		"TTL":      {2, false, cmdTTL},
	}
}

func arityOK(arity, argc int) bool {
	if arity >= 0 {
		return argc == arity
	}
	return argc >= -arity
}

func cmdOK(*store, [][]byte, *options) (interface{}, error) { return "OK", nil }

func cmdAuth(_ *store, a [][]byte, _ *options) (interface{}, error) {
	if len(a) > 2 {
		return nil, errSyntax
	}
	return "OK", nil
}

func cmdSelect(_ *store, a [][]byte, _ *options) (interface{}, error) {
	if _, err := parseInt(a[0]); err != nil {
		return nil, Error("ERR invalid DB index")
	}
	return "OK", nil
}

func cmdPing(_ *store, a [][]byte, _ *options) (interface{}, error) {
	switch len(a) {
	case 0:
		return "PONG", nil
	case 1:
		return append([]byte(nil), a[0]...), nil
	}
	return nil, Error("ERR wrong number of arguments for 'ping' command")
}

func cmdEcho(_ *store, a [][]byte, _ *options) (interface{}, error) {
	return append([]byte(nil), a[0]...), nil
}

func cmdLLen(st *store, a [][]byte, _ *options) (interface{}, error) {
	e, err := st.lookup(string(a[0]), kindList)
	if err != nil || e == nil {
		return int64(0), err
	}
	return int64(len(e.list)), nil
}

func cmdDel(st *store, a [][]byte, _ *options) (interface{}, error) {
	var n int64
	for _, k := range a {
		if _, ok := st.keys[string(k)]; ok {
			delete(st.keys, string(k))
			n++
		}
	}
	return n, nil
}

func cmdExists(st *store, a [][]byte, _ *options) (interface{}, error) {
	var n int64
	for _, k := range a {
		if _, ok := st.keys[string(k)]; ok {
			n++
		}
	}
	return n, nil
}

func cmdLRange(st *store, a [][]byte, _ *options) (interface{}, error) {
	start, err := parseInt(a[1])
	if err != nil {
		return nil, err
	}
	stop, err := parseInt(a[2])
	if err != nil {
		return nil, err
	}
	e, err := st.lookup(string(a[0]), kindList)
	if err != nil {
		return nil, err
	}
	if e == nil {
		return []interface{}{}, nil
	}
	n := int64(len(e.list))
	if start < 0 {
		start += n
	}
	if stop < 0 {
		stop += n
	}
	if start < 0 {
		start = 0
	}
	if start > stop || start >= n {
		return []interface{}{}, nil
	}
	if stop >= n {
		stop = n - 1
	}
	return bulks(e.list[start : stop+1]), nil
}

func cmdLRem(st *store, a [][]byte, _ *options) (interface{}, error) {
	count, err := parseInt(a[1])
	if err != nil {
		return nil, err
	}
	key := string(a[0])
	e, err := st.lookup(key, kindList)
	if err != nil || e == nil {
		return int64(0), err
	}
	val := string(a[2])
	limit := int64(math.MaxInt64) // count == 0: remove all
	switch {
	case count > 0:
		limit = count
	case count < 0 && count != math.MinInt64:
		limit = -count
	}
	var removed int64
	out := make([]string, 0, len(e.list))
	if count >= 0 {
		for _, v := range e.list {
			if v == val && removed < limit {
				removed++
				continue
			}
			out = append(out, v)
		}
	} else {
		for i := len(e.list) - 1; i >= 0; i-- {
			if v := e.list[i]; v == val && removed < limit {
				removed++
				continue
			}
			out = append(out, e.list[i])
		}
		for i, j := 0, len(out)-1; i < j; i, j = i+1, j-1 {
			out[i], out[j] = out[j], out[i]
		}
	}
	e.list = out
	if len(e.list) == 0 {
		delete(st.keys, key)
	}
	return removed, nil
}

func push(st *store, a [][]byte, left bool) (interface{}, error) {
	key := string(a[0])
	e, err := st.lookup(key, kindList)
	if err != nil {
		return nil, err
	}
	if e == nil {
		e = st.create(key, kindList)
	}
	if left {
		nl := make([]string, 0, len(e.list)+len(a)-1)
		for i := len(a) - 1; i >= 1; i-- {
			nl = append(nl, string(a[i]))
		}
		e.list = append(nl, e.list...)
	} else {
		for _, v := range a[1:] {
			e.list = append(e.list, string(v))
		}
	}
	return int64(len(e.list)), nil
}

func cmdRPush(st *store, a [][]byte, _ *options) (interface{}, error) { return push(st, a, false) }
func cmdLPush(st *store, a [][]byte, _ *options) (interface{}, error) { return push(st, a, true) }

func cmdLSet(st *store, a [][]byte, _ *options) (interface{}, error) {
	e, err := st.lookup(string(a[0]), kindList)
	if err != nil {
		return nil, err
	}
	if e == nil {
		return nil, errNoSuchKey
	}
	idx, err := parseInt(a[1])
	if err != nil {
		return nil, err
	}
	n := int64(len(e.list))
	if idx < 0 {
		idx += n
	}
	if idx < 0 || idx >= n {
		return nil, errIndex
	}
	e.list[idx] = string(a[2])
	return "OK", nil
}

func cmdLIndex(st *store, a [][]byte, _ *options) (interface{}, error) {
	e, err := st.lookup(string(a[0]), kindList)
	if err != nil || e == nil {
		return nil, err
	}
	idx, err := parseInt(a[1])
	if err != nil {
		return nil, err
	}
	n := int64(len(e.list))
	if idx < 0 {
		idx += n
	}
	if idx < 0 || idx >= n {
		return nil, nil
	}
	return bulk(e.list[idx]), nil
}

func cmdHSet(st *store, a [][]byte, _ *options) (interface{}, error) {
	if len(a)%2 != 1 {
		return nil, Error("ERR wrong number of arguments for 'hset' command")
	}
	key := string(a[0])
	e, err := st.lookup(key, kindHash)
	if err != nil {
		return nil, err
	}
	if e == nil {
		e = st.create(key, kindHash)
	}
	var added int64
	for i := 1; i < len(a); i += 2 {
		f := string(a[i])
		if _, ok := e.hash[f]; !ok {
			e.fields = append(e.fields, f)
			added++
		}
		e.hash[f] = string(a[i+1])
	}
	return added, nil
}

func cmdHGet(st *store, a [][]byte, _ *options) (interface{}, error) {
	e, err := st.lookup(string(a[0]), kindHash)
	if err != nil || e == nil {
		return nil, err
	}
	if v, ok := e.hash[string(a[1])]; ok {
		return bulk(v), nil
	}
	return nil, nil
}

func cmdHMGet(st *store, a [][]byte, _ *options) (interface{}, error) {
	e, err := st.lookup(string(a[0]), kindHash)
	if err != nil {
		return nil, err
	}
	out := make([]interface{}, len(a)-1)
	if e != nil {
		for i, f := range a[1:] {
			if v, ok := e.hash[string(f)]; ok {
				out[i] = bulk(v)
			}
		}
	}
	return out, nil
}

func cmdHGetAll(st *store, a [][]byte, _ *options) (interface{}, error) {
	e, err := st.lookup(string(a[0]), kindHash)
	if err != nil {
		return nil, err
	}
	if e == nil {
		return []interface{}{}, nil
	}
	out := make([]interface{}, 0, 2*len(e.fields))
	for _, f := range e.fields {
		out = append(out, bulk(f), bulk(e.hash[f]))
	}
	return out, nil
}

// cmdHKeys / cmdHVals: the fields / the values of a hash, in the order HGETALL reports them.
func cmdHKeys(st *store, a [][]byte, _ *options) (interface{}, error) {
	e, err := st.lookup(string(a[0]), kindHash)
	if err != nil {
		return nil, err
	}
	out := []interface{}{}
	if e != nil {
		for _, f := range e.fields {
			out = append(out, bulk(f))
		}
	}
	return out, nil
}

func cmdHVals(st *store, a [][]byte, _ *options) (interface{}, error) {
	e, err := st.lookup(string(a[0]), kindHash)
	if err != nil {
		return nil, err
	}
	out := []interface{}{}
	if e != nil {
		for _, f := range e.fields {
			out = append(out, bulk(e.hash[f]))
		}
	}
	return out, nil
}

func cmdHDel(st *store, a [][]byte, _ *options) (interface{}, error) {
	key := string(a[0])
	e, err := st.lookup(key, kindHash)
	if err != nil || e == nil {
		return int64(0), err
	}
	var n int64
	for _, fb := range a[1:] {
		f := string(fb)
		if _, ok := e.hash[f]; !ok {
			continue
		}
		delete(e.hash, f)
		for i, x := range e.fields {
			if x == f {
				e.fields = append(e.fields[:i], e.fields[i+1:]...)
				break
			}
		}
		n++
	}
	if len(e.hash) == 0 {
		delete(st.keys, key)
	}
	return n, nil
}

func cmdHLen(st *store, a [][]byte, _ *options) (interface{}, error) {
	e, err := st.lookup(string(a[0]), kindHash)
	if err != nil || e == nil {
		return int64(0), err
	}
	return int64(len(e.hash)), nil
}

func cmdHExists(st *store, a [][]byte, _ *options) (interface{}, error) {
	e, err := st.lookup(string(a[0]), kindHash)
	if err != nil || e == nil {
		return int64(0), err
	}
	if _, ok := e.hash[string(a[1])]; ok {
		return int64(1), nil
	}
	return int64(0), nil
}

// cmdScan implements SCAN cursor [MATCH glob] [COUNT n] [TYPE t].
//
// Keys are iterated in creation order; the cursor is the creation sequence
// number of the last key examined (0 = start / finished). This is stateless and
// gives redis' guarantee: a key present for the whole iteration is returned
// (exactly once here); keys created during the iteration are also returned;
// deleted keys are not. Like in redis, COUNT bounds the number of keys
// EXAMINED per call, MATCH/TYPE filter afterwards, so a page may be empty while
// the cursor is still non-zero.
func cmdScan(st *store, a [][]byte, opt *options) (interface{}, error) {
	cursor, perr := strconv.ParseUint(string(a[0]), 10, 64)
	if perr != nil {
		return nil, errCursor
	}
	count := int64(opt.scanPage)
	pattern, hasPattern := "", false
	typ, hasType := "", false
	for i := 1; i < len(a); i += 2 {
		if i+1 >= len(a) {
			return nil, errSyntax
		}
		switch strings.ToUpper(string(a[i])) {
		case "MATCH":
			pattern, hasPattern = string(a[i+1]), true
		case "COUNT":
			n, err := parseInt(a[i+1])
			if err != nil {
				return nil, err
			}
			if n < 1 {
				return nil, errSyntax
			}
			count = n
		case "TYPE":
			typ, hasType = strings.ToLower(string(a[i+1])), true
		default:
			return nil, errSyntax
		}
	}
	rest := st.keysBySeq(cursor)
	next := uint64(0)
	if count > 0 && int64(len(rest)) > count {
		rest = rest[:count]
		next = st.keys[rest[len(rest)-1]].seq
	}
	out := make([]interface{}, 0, len(rest))
	for _, k := range rest {
		if hasPattern && !keyMatch(pattern, k) {
			continue
		}
		if hasType && st.keys[k].kind.String() != typ {
			continue
		}
		out = append(out, bulk(k))
	}
	return []interface{}{bulk(strconv.FormatUint(next, 10)), out}, nil
}

func cmdKeys(st *store, a [][]byte, _ *options) (interface{}, error) {
	pattern := string(a[0])
	out := []interface{}{}
	for _, k := range st.keysBySeq(0) {
		if keyMatch(pattern, k) {
			out = append(out, bulk(k))
		}
	}
	return out, nil
}

func cmdFlush(st *store, a [][]byte, _ *options) (interface{}, error) {
	if len(a) > 1 {
		return nil, errSyntax
	}
	if len(a) == 1 {
		switch strings.ToUpper(string(a[0])) {
		case "ASYNC", "SYNC":
		default:
			return nil, errSyntax
		}
	}
	st.keys = map[string]*entry{}
	st.expire = map[string]time.Time{}
	return "OK", nil
}

func cmdType(st *store, a [][]byte, _ *options) (interface{}, error) {
	if e := st.keys[string(a[0])]; e != nil {
		return e.kind.String(), nil
	}
	return "none", nil
}

func cmdDBSize(st *store, _ [][]byte, _ *options) (interface{}, error) {
	return int64(len(st.keys)), nil
}

func expireIn(st *store, a [][]byte, unit time.Duration) (interface{}, error) {
	n, err := parseInt(a[1])
	if err != nil {
		return nil, err
	}
	k := string(a[0])
	if _, ok := st.keys[k]; !ok {
		return int64(0), nil
	}
	if n <= 0 {
		delete(st.keys, k)
		delete(st.expire, k)
		return int64(1), nil
	}
	if st.expire == nil {
		st.expire = map[string]time.Time{}
	}
	st.expire[k] = time.Now().Add(time.Duration(n) * unit)
	return int64(1), nil
}

func cmdExpire(st *store, a [][]byte, _ *options) (interface{}, error) {
	return expireIn(st, a, time.Second)
}

func cmdPExpire(st *store, a [][]byte, _ *options) (interface{}, error) {
	return expireIn(st, a, time.Millisecond)
}

func cmdPersist(st *store, a [][]byte, _ *options) (interface{}, error) {
	k := string(a[0])
	if _, ok := st.keys[k]; !ok {
		return int64(0), nil
	}
	if _, ok := st.expire[k]; !ok {
		return int64(0), nil
	}
	delete(st.expire, k)
	return int64(1), nil
}

func cmdTTL(st *store, a [][]byte, _ *options) (interface{}, error) {
	k := string(a[0])
	if _, ok := st.keys[k]; !ok {
		return int64(-2), nil
	}
	t, ok := st.expire[k]
	if !ok {
		return int64(-1), nil
	}
	return int64((time.Until(t) + time.Second - 1) / time.Second), nil
}
