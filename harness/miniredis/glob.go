package miniredis

// globMatch is a port of redis' stringmatchlen (case-sensitive variant).
// Supported: '*', '?', '[abc]', '[^abc]', '[a-z]', and '\x' escapes (also
// inside brackets). Like redis, an unterminated '[' class is treated as if it
// were closed at the end of the pattern.
//
// Note one redis quirk that is reproduced here: the pattern "*" does NOT match
// the empty string through this function (the main loop never runs); KEYS and
// SCAN special-case a lone "*" to mean "everything", as redis does.
func globMatch(p, s string) bool {
	for len(p) > 0 && len(s) > 0 {
		switch p[0] {
		case '*':
			for len(p) > 1 && p[1] == '*' {
				p = p[1:]
			}
			if len(p) == 1 {
				return true
			}
			for len(s) > 0 {
				if globMatch(p[1:], s) {
					return true
				}
				s = s[1:]
			}
			return false
		case '?':
			s = s[1:]
		case '[':
			p = p[1:]
			not := len(p) > 0 && p[0] == '^'
			if not {
				p = p[1:]
			}
			m := false
			for {
				if len(p) == 0 {
					break
				}
				if p[0] == '\\' && len(p) >= 2 {
					p = p[1:]
					if p[0] == s[0] {
						m = true
					}
				} else if p[0] == ']' {
					break
				} else if len(p) >= 3 && p[1] == '-' {
					start, end := p[0], p[2]
					if start > end {
						start, end = end, start
					}
					p = p[2:]
					if s[0] >= start && s[0] <= end {
						m = true
					}
				} else if p[0] == s[0] {
					m = true
				}
				p = p[1:]
			}
			if not {
				m = !m
			}
			if !m {
				return false
			}
			s = s[1:]
		case '\\':
			if len(p) >= 2 {
				p = p[1:]
			}
			fallthrough
		default:
			if p[0] != s[0] {
				return false
			}
			s = s[1:]
		}
		if len(p) > 0 {
			p = p[1:]
		}
		if len(s) == 0 {
			for len(p) > 0 && p[0] == '*' {
				p = p[1:]
			}
			break
		}
	}
	return len(p) == 0 && len(s) == 0
}

// keyMatch is what KEYS / SCAN MATCH use: a lone "*" matches everything.
func keyMatch(pattern, key string) bool {
	if pattern == "*" {
		return true
	}
	return globMatch(pattern, key)
}
