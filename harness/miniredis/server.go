// Package miniredis is a small in-process RESP2 server implementing the subset
// of redis used by gmqtt's redis persistence layer (lists, hashes, key-space
// commands), with a journal of mutating commands, state materialisation from
// journal prefixes, snapshots and simple fault injection.
//
// Only the standard library is used.
package miniredis

import (
	"bufio"
	"errors"
	"fmt"
	"net"
	"strings"
	"sync"
	"sync/atomic"
	"time"
)

// DefaultScanPageSize is the number of keys SCAN examines per call when no
// COUNT is given; it equals redis' default.
const DefaultScanPageSize = 10

// Cmd is one journaled (mutating) command.
//
// Seq is the 0-based position of the command in the journal (it restarts at 0
// after ResetJournal). Args[0] is the upper-cased command name. Args must be
// treated as read-only: the byte slices are shared with the journal.
type Cmd struct {
	Seq  int
	Args [][]byte
}

func (c Cmd) String() string {
	var b strings.Builder
	fmt.Fprintf(&b, "#%d", c.Seq)
	for _, a := range c.Args {
		fmt.Fprintf(&b, " %q", a)
	}
	return b.String()
}

// Snapshot is an immutable deep copy of a store.
type Snapshot struct{ st *store }

// Dump returns the same textual form as Server.Dump.
func (sn *Snapshot) Dump() string { return sn.st.dump() }

// Server is an in-process redis stand-in. All store accesses, journaling, the
// fail countdown and the OnMutate hook happen under one mutex, so the journal
// order is exactly the order in which commands were applied.
type Server struct {
	mu      sync.Mutex // protects st, journal, hook, opt
	st      *store
	journal []Cmd
	hook    func(Cmd)
	opt     options

	// fail: <0 disabled; 0 failing; >0 number of mutating commands left before
	// failing. Atomic so that FailAfter may be called from the OnMutate hook.
	fail atomic.Int64

	nmu   sync.Mutex // protects the network state below
	ln    net.Listener
	addr  string
	conns map[net.Conn]struct{}
	wg    sync.WaitGroup
}

// New returns a server with an empty store; it is not yet listening.
func New() *Server { return newServer(newStore()) }

// NewFromSnapshot returns a not-started server whose store is a deep copy of sn.
func NewFromSnapshot(sn *Snapshot) *Server { return newServer(sn.st.clone()) }

func newServer(st *store) *Server {
	s := &Server{st: st, conns: map[net.Conn]struct{}{}}
	s.opt.scanPage = DefaultScanPageSize
	s.fail.Store(-1)
	return s
}

// Materialize builds a fresh, not-started server whose store is the result of
// applying the first k journal commands to an empty store. k is clamped to
// [0, len(journal)]. The new server's own journal is empty.
func Materialize(journal []Cmd, k int) *Server { return MaterializeFrom(nil, journal, k) }

// MaterializeFrom is Materialize starting from a base snapshot (nil = empty).
func MaterializeFrom(base *Snapshot, journal []Cmd, k int) *Server {
	var s *Server
	if base == nil {
		s = New()
	} else {
		s = NewFromSnapshot(base)
	}
	if k < 0 {
		k = 0
	}
	if k > len(journal) {
		k = len(journal)
	}
	_ = s.Apply(journal[:k])
	s.ResetJournal()
	return s
}

// Apply applies the commands in order (in-process, journaled like any other
// command). All commands are applied; the first error reply, if any, is
// returned.
func (s *Server) Apply(cmds []Cmd) error {
	var first error
	for _, c := range cmds {
		if len(c.Args) == 0 {
			continue
		}
		if _, err, _ := s.exec(c.Args, false); err != nil && first == nil {
			first = fmt.Errorf("miniredis: apply %v: %w", c, err)
		}
	}
	return first
}

// Start listens on 127.0.0.1:0 and serves in the background. It returns the
// address as "127.0.0.1:port". A server may be started again after Close (it
// gets a new port; the store and journal are kept).
func (s *Server) Start() (string, error) {
	s.nmu.Lock()
	defer s.nmu.Unlock()
	if s.ln != nil {
		return s.addr, errors.New("miniredis: already started")
	}
	ln, err := net.Listen("tcp", "127.0.0.1:0")
	if err != nil {
		return "", err
	}
	s.ln = ln
	s.addr = ln.Addr().String()
	s.wg.Add(1)
	go s.acceptLoop(ln)
	return s.addr, nil
}

// Addr returns the address of the (last) listener, "" if never started.
func (s *Server) Addr() string {
	s.nmu.Lock()
	defer s.nmu.Unlock()
	return s.addr
}

// Close stops the listener, closes all connections and waits for the handlers
// to return. It is idempotent. The store and journal stay accessible.
func (s *Server) Close() {
	s.nmu.Lock()
	if s.ln != nil {
		s.ln.Close()
		s.ln = nil
	}
	for c := range s.conns {
		c.Close()
	}
	s.nmu.Unlock()
	s.wg.Wait()
}

// CloseConnections closes all currently open client connections but keeps
// listening (simulates a connection reset; pooled clients must redial).
func (s *Server) CloseConnections() {
	s.nmu.Lock()
	for c := range s.conns {
		c.Close()
	}
	s.nmu.Unlock()
}

func (s *Server) acceptLoop(ln net.Listener) {
	defer s.wg.Done()
	for {
		c, err := ln.Accept()
		if err != nil {
			return
		}
		s.nmu.Lock()
		if s.ln != ln { // closed in the meantime
			s.nmu.Unlock()
			c.Close()
			continue
		}
		s.conns[c] = struct{}{}
		s.wg.Add(1)
		s.nmu.Unlock()
		go s.serveConn(c)
	}
}

func (s *Server) serveConn(c net.Conn) {
	defer s.wg.Done()
	defer func() {
		c.Close()
		s.nmu.Lock()
		delete(s.conns, c)
		s.nmu.Unlock()
	}()
	r := bufio.NewReader(c)
	w := bufio.NewWriter(c)
	for {
		args, err := readCommand(r)
		if err != nil {
			var pe protoError
			if errors.As(err, &pe) {
				writeReply(w, Error("ERR "+pe.Error()))
			}
			w.Flush()
			return
		}
		if len(args) == 0 {
			continue
		}
		reply, cerr, drop := s.exec(args, true)
		if drop {
			// Replies to commands applied earlier in the same pipeline are
			// still delivered; the offending command gets no reply.
			w.Flush()
			return
		}
		if cerr != nil {
			writeReply(w, cerr)
		} else {
			writeReply(w, reply)
		}
		if strings.EqualFold(string(args[0]), "QUIT") {
			w.Flush()
			return
		}
		// Flush only when the client has nothing more pipelined.
		if r.Buffered() == 0 {
			if w.Flush() != nil {
				return
			}
		}
	}
}

// exec is the single code path for every command, from the network
// (viaNet=true) and from Do/Apply (viaNet=false). drop=true means "close the
// connection without replying" (fault injection; network only).
func (s *Server) exec(args [][]byte, viaNet bool) (reply interface{}, err error, drop bool) {
	s.mu.Lock()
	defer s.mu.Unlock()
	if viaNet && s.fail.Load() == 0 {
		return nil, nil, true
	}
	name := strings.ToUpper(string(args[0]))
	ci, ok := commands[name]
	if !ok {
		var b strings.Builder
		fmt.Fprintf(&b, "ERR unknown command '%s', with args beginning with: ", sanitize(args[0]))
		for _, a := range args[1:] {
			if b.Len() > 200 {
				break
			}
			fmt.Fprintf(&b, "'%s' ", sanitize(a))
		}
		return nil, Error(b.String()), false
	}
	if !arityOK(ci.arity, len(args)) {
		return nil, Error("ERR wrong number of arguments for '" + strings.ToLower(name) + "' command"), false
	}
	s.st.purge(time.Now())
	reply, err = ci.fn(s.st, args[1:], &s.opt)
	if ci.mutating && err == nil {
		s.record(name, args)
	}
	return reply, err, false
}

// sanitize makes a client-supplied string safe for a one-line error reply.
func sanitize(b []byte) string {
	if len(b) > 128 {
		b = b[:128]
	}
	return strings.Map(func(r rune) rune {
		if r == '\r' || r == '\n' {
			return ' '
		}
		return r
	}, string(b))
}

// record journals a successfully applied mutating command. Called with s.mu held.
func (s *Server) record(name string, args [][]byte) {
	c := Cmd{Seq: len(s.journal), Args: make([][]byte, len(args))}
	c.Args[0] = []byte(name)
	for i := 1; i < len(args); i++ {
		c.Args[i] = append([]byte(nil), args[i]...)
	}
	s.journal = append(s.journal, c)
	for {
		v := s.fail.Load()
		if v <= 0 || s.fail.CompareAndSwap(v, v-1) {
			break
		}
	}
	if s.hook != nil {
		s.hook(c)
	}
}

// Do applies a command in-process, through the same code path as the network
// handler (it is journaled, counts towards the FailAfter countdown and
// triggers the OnMutate hook). It is NOT subject to fault injection, so it can
// be used to inspect or repair the store while the server is "unreachable".
//
// Replies: int64, []byte (bulk), nil (null bulk), []interface{} (array),
// string (simple status such as "OK"); error replies are returned as an Error.
func (s *Server) Do(args ...string) (interface{}, error) {
	if len(args) == 0 {
		return nil, errors.New("miniredis: empty command")
	}
	b := make([][]byte, len(args))
	for i, a := range args {
		b[i] = []byte(a)
	}
	reply, err, _ := s.exec(b, false)
	return reply, err
}

// Journal returns a copy of the journal: every command of the mutating set
// (DEL, LREM, RPUSH, LPUSH, LSET, HSET, HDEL, FLUSHALL, FLUSHDB) that was
// applied without an error reply -- including no-ops such as DEL of a missing
// key -- in application order. Commands that got an error reply (WRONGTYPE,
// LSET out of range, arity, ...) never change the store and are not journaled.
func (s *Server) Journal() []Cmd {
	s.mu.Lock()
	defer s.mu.Unlock()
	return append([]Cmd(nil), s.journal...)
}

// JournalLen returns the number of journaled commands.
func (s *Server) JournalLen() int {
	s.mu.Lock()
	defer s.mu.Unlock()
	return len(s.journal)
}

// ResetJournal empties the journal (the store is untouched).
func (s *Server) ResetJournal() {
	s.mu.Lock()
	defer s.mu.Unlock()
	s.journal = nil
}

// Snapshot returns a deep copy of the store.
func (s *Server) Snapshot() *Snapshot {
	s.mu.Lock()
	defer s.mu.Unlock()
	return &Snapshot{st: s.st.clone()}
}

// SnapshotAndResetJournal atomically takes a snapshot and empties the journal,
// so that MaterializeFrom(snapshot, s.Journal(), k) is meaningful afterwards
// even with concurrent writers.
func (s *Server) SnapshotAndResetJournal() *Snapshot {
	s.mu.Lock()
	defer s.mu.Unlock()
	s.journal = nil
	return &Snapshot{st: s.st.clone()}
}

// Restore replaces the store by a deep copy of sn. The journal is untouched.
func (s *Server) Restore(sn *Snapshot) {
	s.mu.Lock()
	defer s.mu.Unlock()
	s.st = sn.st.clone()
}

// Dump returns a deterministic textual dump of the store: keys sorted; lists
// in order; hashes sorted by field; everything %q-quoted.
func (s *Server) Dump() string {
	s.mu.Lock()
	defer s.mu.Unlock()
	return s.st.dump()
}

// FailAfter arms fault injection: after n more mutating commands have been
// applied (journaled), every subsequent command on every network connection
// gets its connection closed without a reply. FailAfter(0) fails immediately;
// n < 0 disables (and heals a failing server). It may be called from the
// OnMutate hook.
func (s *Server) FailAfter(n int) {
	if n < 0 {
		n = -1
	}
	s.fail.Store(int64(n))
}

// Failing reports whether the server is currently dropping all commands.
func (s *Server) Failing() bool { return s.fail.Load() == 0 }

// OnMutate installs a hook that is called, under the store mutex, after each
// mutating command has been applied and journaled. The hook must not call
// methods of s other than FailAfter and Failing (deadlock). nil removes it.
func (s *Server) OnMutate(f func(c Cmd)) {
	s.mu.Lock()
	defer s.mu.Unlock()
	s.hook = f
}

// SetScanPageSize sets how many keys SCAN examines per call when the client
// gives no COUNT (default DefaultScanPageSize, like redis). n <= 0 makes SCAN
// return everything in one batch with cursor "0".
func (s *Server) SetScanPageSize(n int) {
	s.mu.Lock()
	defer s.mu.Unlock()
	s.opt.scanPage = n
}
