// Package ev is the per-process evidence recorder and the property runner shared by all
// checks. A check is `ev.Run(t, "C02", gen, run)`: gen draws a scenario VALUE with rapid,
// run interprets it against the real code and a reference model and returns a *Violation
// or nil. The scenario is JSON-serialisable: it is the evidence sample, the digest input
// and the replay file (VERIF_REPLAY=<file> runs it without rapid).
package ev

import (
	"bytes"
	"encoding/json"
	"flag"
	"fmt"
	"hash/fnv"
	"os"
	"path/filepath"
	"sort"
	"strings"
	"sync"
	"testing"
	"time"

	"pgregory.net/rapid"
)

// Violation describes a failed oracle.
type Violation struct {
	Assertion string         `json:"assertion"` // e.g. "C12.remaining-expiry"
	Features  map[string]any `json:"features,omitempty"`
	Msg       string         `json:"msg"`
}

func (v *Violation) Error() string { return v.Assertion + ": " + v.Msg }

// Violf builds a violation.
func Violf(assertion string, format string, a ...any) *Violation {
	return &Violation{Assertion: assertion, Msg: fmt.Sprintf(format, a...)}
}

// With attaches features.
func (v *Violation) With(kv ...any) *Violation {
	if v.Features == nil {
		v.Features = map[string]any{}
	}
	for i := 0; i+1 < len(kv); i += 2 {
		v.Features[fmt.Sprint(kv[i])] = kv[i+1]
	}
	return v
}

// Case collects what one executed case was like.
type Case struct {
	labels     map[string]int
	nontrivial bool
	note       []string
}

// Label counts a class the case belongs to (once per case and label).
func (c *Case) Label(l string) {
	if c.labels == nil {
		c.labels = map[string]int{}
	}
	c.labels[l]++
}

// Count adds n to a numeric counter (summed over cases).
func (c *Case) Count(l string, n int) {
	if c.labels == nil {
		c.labels = map[string]int{}
	}
	c.labels[l] += n
}

// CountOf returns the current value of a counter of this case.
func (c *Case) CountOf(l string) int { return c.labels[l] }

// NonTrivial marks the case as non-trivial by the check's stated rule.
func (c *Case) NonTrivial() { c.nontrivial = true }

// Logf keeps a history line that is printed when the case fails.
func (c *Case) Logf(format string, a ...any) {
	if len(c.note) < 4000 {
		c.note = append(c.note, fmt.Sprintf(format, a...))
	}
}

// Excluded records that a known (open) finding's wrong outcome was observed and accepted.
func (c *Case) Excluded(finding string) { c.Count("kf:"+finding, 1) }

type propStats struct {
	Property    string            `json:"property"`
	Evaluations int               `json:"evaluations"`
	NonTrivial  int               `json:"nontrivial"`
	Digests     []uint64          `json:"digests"` // distinct non-trivial digests
	Labels      map[string]int    `json:"labels"`  // number of cases carrying label / counter sums
	Samples     []json.RawMessage `json:"samples"`
	NTSamples   []json.RawMessage `json:"nt_samples"`
	Violations  []violationRec    `json:"violations"`
	Rule        string            `json:"rule,omitempty"`
	digestSet   map[uint64]struct{}
}

type violationRec struct {
	Violation
	Replay string `json:"replay"`
	Test   string `json:"test"`
}

var (
	mu    sync.Mutex
	stats = map[string]*propStats{}
	kfMu  sync.Mutex
	kfSet map[string]bool
)

func get(id string) *propStats {
	p := stats[id]
	if p == nil {
		p = &propStats{Property: id, Labels: map[string]int{}, digestSet: map[uint64]struct{}{}}
		stats[id] = p
	}
	return p
}

// SetRule records the generation / non-triviality rule text for the evidence file.
func SetRule(id, rule string) {
	mu.Lock()
	defer mu.Unlock()
	get(id).Rule = rule
}

func record(id string, c *Case, scen []byte) {
	mu.Lock()
	defer mu.Unlock()
	p := get(id)
	p.Evaluations++
	for l, n := range c.labels {
		p.Labels[l] += n
	}
	if len(p.Samples) < 3 {
		p.Samples = append(p.Samples, clip(scen))
	}
	if c.nontrivial {
		p.NonTrivial++
		h := fnv.New64a()
		h.Write(scen)
		d := h.Sum64()
		if _, ok := p.digestSet[d]; !ok {
			p.digestSet[d] = struct{}{}
			if len(p.NTSamples) < 3 {
				p.NTSamples = append(p.NTSamples, clip(scen))
			}
		}
	}
}

func clip(b []byte) json.RawMessage {
	if len(b) > 6000 {
		s, _ := json.Marshal(string(b[:6000]) + "…(clipped)")
		return s
	}
	return append(json.RawMessage(nil), b...)
}

// AddEvaluations lets non-rapid loops (exhaustive sweeps, native fuzz replay) account work.
func AddEvaluations(id string, n int, label string) {
	mu.Lock()
	defer mu.Unlock()
	p := get(id)
	p.Labels[label] += n
}

// KF reports whether the finding id is listed as OPEN in known_findings.json.
func KF(id string) bool {
	kfMu.Lock()
	defer kfMu.Unlock()
	if kfSet == nil {
		kfSet = map[string]bool{}
		path := os.Getenv("VERIF_KF")
		if path == "" {
			path = "/verif/known_findings.json"
		}
		b, err := os.ReadFile(path)
		if err == nil {
			var f struct {
				Findings []struct {
					ID     string `json:"id"`
					Status string `json:"status"`
				} `json:"findings"`
			}
			if json.Unmarshal(b, &f) == nil {
				for _, e := range f.Findings {
					if e.Status == "open" {
						kfSet[e.ID] = true
					}
				}
			}
		}
	}
	return kfSet[id]
}

// Flush writes the shard statistics file named by VERIF_SHARD_OUT. Call from TestMain.
func Flush() {
	out := os.Getenv("VERIF_SHARD_OUT")
	if out == "" {
		return
	}
	mu.Lock()
	defer mu.Unlock()
	var all []*propStats
	for _, p := range stats {
		p.Digests = p.Digests[:0]
		for d := range p.digestSet {
			p.Digests = append(p.Digests, d)
		}
		sort.Slice(p.Digests, func(i, j int) bool { return p.Digests[i] < p.Digests[j] })
		all = append(all, p)
	}
	sort.Slice(all, func(i, j int) bool { return all[i].Property < all[j].Property })
	b, _ := json.Marshal(all)
	_ = os.WriteFile(out, b, 0o644)
}

func replayDir(id string) string {
	d := os.Getenv("VERIF_REPLAY_DIR")
	if d == "" {
		d = "/verif/replays"
	}
	d = filepath.Join(d, id)
	_ = os.MkdirAll(d, 0o755)
	return d
}

// Run is the property runner. S must be JSON round-trippable.
func Run[S any](t *testing.T, id string, gen func(*rapid.T) S, run func(S, *Case) *Violation) {
	t.Helper()
	RunN(t, id, 1, gen, run)
}

// Tier returns "quick" or "thorough".
func Tier() string {
	if os.Getenv("VERIF_TIER") == "thorough" {
		return "thorough"
	}
	return "quick"
}

// BaseChecks is the per-shard case count handed down by vcheck (VERIF_CHECKS).
func BaseChecks() int {
	n := 100
	if v := os.Getenv("VERIF_CHECKS"); v != "" {
		fmt.Sscan(v, &n)
	}
	return n
}

// Shard returns (index, count) of this worker process.
func Shard() (int, int) {
	i, n := 0, 1
	fmt.Sscan(os.Getenv("VERIF_SHARD"), &i)
	fmt.Sscan(os.Getenv("VERIF_SHARDS"), &n)
	if n < 1 {
		n = 1
	}
	return i, n
}

// RunN is Run with the case count scaled by `scale` relative to the tier's base count.
func RunN[S any](t *testing.T, id string, scale float64, gen func(*rapid.T) S, run func(S, *Case) *Violation) {
	t.Helper()
	want := int(float64(BaseChecks()) * scale)
	if want < 1 {
		want = 1
	}
	_ = flag.Set("rapid.checks", fmt.Sprint(want))
	executed := 0
	defer func() {
		if !t.Failed() && os.Getenv("VERIF_REPLAY") == "" && executed < want {
			fmt.Printf("@@HARNESS-ERROR %s ran %d of %d requested cases (deadline?)\n", t.Name(), executed, want)
			t.Fail()
		}
	}()
	if rp := os.Getenv("VERIF_REPLAY"); rp != "" {
		b, err := os.ReadFile(rp)
		if err != nil {
			t.Fatalf("@@HARNESS-ERROR cannot read replay %s: %v", rp, err)
		}
		var env struct {
			Test     string          `json:"test"`
			Scenario json.RawMessage `json:"scenario"`
		}
		if err := json.Unmarshal(b, &env); err != nil {
			t.Fatalf("@@HARNESS-ERROR bad replay file: %v", err)
		}
		if env.Test != t.Name() {
			t.Skipf("replay is for %s", env.Test)
		}
		var s S
		dec := json.NewDecoder(bytes.NewReader(env.Scenario))
		dec.DisallowUnknownFields()
		if err := dec.Decode(&s); err != nil {
			t.Fatalf("@@HARNESS-ERROR bad replay scenario (written for an older scenario format?): %v", err)
		}
		n := 1
		if os.Getenv("VERIF_REPLAY_N") != "" {
			fmt.Sscan(os.Getenv("VERIF_REPLAY_N"), &n)
		}
		fails := 0
		for i := 0; i < n; i++ {
			c := &Case{}
			if v := run(s, c); v != nil {
				fails++
				if fails == 1 {
					fmt.Printf("@@REPLAY-VIOLATION %s %s\n%s\n", v.Assertion, v.Msg, strings.Join(c.note, "\n"))
				}
			}
			if os.Getenv("VERIF_REPLAY_VERBOSE") != "" && i == 0 {
				fmt.Printf("@@REPLAY-HISTORY\n%s\n", strings.Join(c.note, "\n"))
			}
			record(id, c, env.Scenario)
		}
		fmt.Printf("@@REPLAY-RESULT property=%s runs=%d violations=%d\n", id, n, fails)
		if fails > 0 {
			reportViolation(id, t.Name(), &Violation{Assertion: "replay", Msg: "replayed scenario still violates"}, rp)
			t.Fail()
		}
		return
	}
	shard := os.Getenv("VERIF_SHARD")
	if shard == "" {
		shard = "0"
	}
	runRegress(t, id, run)
	if t.Failed() {
		// a saved scenario violates the property again: reported with that file as the replay; rapid refuses to
		// start on a test that has already failed
		executed = want
		return
	}
	rapid.Check(t, func(rt *rapid.T) {
		s := gen(rt)
		scen, err := json.Marshal(s)
		if err != nil {
			rt.Fatalf("@@HARNESS-ERROR scenario not serialisable: %v", err)
		}
		c := &Case{}
		v := run(s, c)
		record(id, c, scen)
		executed++
		if v != nil {
			name := strings.ReplaceAll(t.Name(), "/", "_")
			path := filepath.Join(replayDir(id), fmt.Sprintf("%s-s%s.json", name, shard))
			env := map[string]any{"property": id, "test": t.Name(), "violation": v, "scenario": json.RawMessage(scen),
				"history": c.note, "written": time.Now().UTC().Format(time.RFC3339)}
			b, _ := json.MarshalIndent(env, "", " ")
			_ = os.WriteFile(path, b, 0o644)
			reportViolation(id, t.Name(), v, path)
			rt.Fatalf("%s\nscenario: %s\nhistory:\n%s", v.Error(), clipStr(string(scen), 3000), strings.Join(c.note, "\n"))
		}
	})
}

// runRegress is the replay tier: every saved scenario under $VERIF_REGRESS/<id>/ (default /verif/regress) that
// belongs to this test is executed once, without rapid, before the generated cases (spread over the shards).
// These are shrunk scenarios that once exposed a defect (now repaired) or were written by hand for a region
// the generator reaches rarely.
func runRegress[S any](t *testing.T, id string, run func(S, *Case) *Violation) {
	dir := os.Getenv("VERIF_REGRESS")
	if dir == "" {
		dir = "/verif/regress"
	}
	files, _ := filepath.Glob(filepath.Join(dir, id, "*.json"))
	sort.Strings(files)
	si, sn := Shard()
	k := 0
	for _, f := range files {
		b, err := os.ReadFile(f)
		if err != nil {
			continue
		}
		var env struct {
			Test     string          `json:"test"`
			Scenario json.RawMessage `json:"scenario"`
		}
		if json.Unmarshal(b, &env) != nil || env.Test != t.Name() {
			continue
		}
		k++
		if (k-1)%sn != si {
			continue
		}
		var s S
		dec := json.NewDecoder(bytes.NewReader(env.Scenario))
		dec.DisallowUnknownFields()
		if err := dec.Decode(&s); err != nil {
			fmt.Printf("@@REGRESS-SKIP %s: %v\n", f, err)
			continue
		}
		c := &Case{}
		v := run(s, c)
		c.Label("regress_replayed")
		record(id, c, env.Scenario)
		if v != nil {
			reportViolation(id, t.Name()+"#"+filepath.Base(f), v, f)
			t.Errorf("regress %s: %s\nhistory:\n%s", f, v.Error(), strings.Join(c.note, "\n"))
		}
	}
}

func clipStr(s string, n int) string {
	if len(s) > n {
		return s[:n] + "…"
	}
	return s
}

var lastViolation = map[string]int{}

func reportViolation(id, test string, v *Violation, path string) {
	mu.Lock()
	defer mu.Unlock()
	p := get(id)
	rec := violationRec{Violation: *v, Replay: path, Test: test}
	// one record per test: shrinking overwrites the same replay file, keep the last
	if i, ok := lastViolation[id+"/"+test]; ok {
		p.Violations[i] = rec
		return
	}
	lastViolation[id+"/"+test] = len(p.Violations)
	p.Violations = append(p.Violations, rec)
}

// Fail reports a violation found outside rapid (exhaustive sweeps, corpus replays).
func Fail(t *testing.T, id string, v *Violation, scenario any) {
	t.Helper()
	scen, _ := json.Marshal(scenario)
	name := strings.ReplaceAll(t.Name(), "/", "_")
	path := filepath.Join(replayDir(id), name+"-direct.json")
	env := map[string]any{"property": id, "test": t.Name(), "violation": v, "scenario": json.RawMessage(scen)}
	b, _ := json.MarshalIndent(env, "", " ")
	_ = os.WriteFile(path, b, 0o644)
	reportViolation(id, t.Name(), v, path)
	t.Errorf("%s\nscenario: %s", v.Error(), clipStr(string(scen), 3000))
}

// Direct records one non-rapid case.
func Direct(id string, c *Case, scenario any) {
	scen, _ := json.Marshal(scenario)
	record(id, c, scen)
}
