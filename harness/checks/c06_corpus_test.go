package checks

// C06 corpus replay (quick tier) and native fuzz targets (not part of the quick tier).
//
// Corpus files live under $VERIF_CORPUS/c06 (default /verif/corpus/c06), any depth.
// Two formats are understood:
//   - Go's native fuzz corpus format ("go test fuzz v1" + one literal per line), so a file
//     from testdata/fuzz/FuzzC06ReadPacket or .../FuzzC06Validity can be copied in as is:
//     (byte, []byte) -> read-packet oracle, ([]byte) -> validity oracle;
//   - text files *.hex: one input per line, "v=<3|4|5> <hex bytes>" (read-packet oracle)
//     or "valid <hex bytes>" (validity oracle); '#' starts a comment.

import (
	"encoding/hex"
	"fmt"
	"go/ast"
	"go/parser"
	"go/token"
	"os"
	"path/filepath"
	"sort"
	"strconv"
	"strings"
	"testing"

	"verif/ev"
	mw "verif/mqttwire"
)

type c06CorpusInput struct {
	File  string `json:"file"`
	Valid bool   `json:"validity,omitempty"`
	V     int    `json:"v,omitempty"`
	Data  []byte `json:"data"`
}

func c06FuzzVersion(b byte) int { return 3 + int(b)%3 }

func c06ParseFuzzLiteral(line string) (any, error) {
	e, err := parser.ParseExpr(line)
	if err != nil {
		return nil, err
	}
	call, ok := e.(*ast.CallExpr)
	if !ok || len(call.Args) != 1 {
		return nil, fmt.Errorf("not a conversion: %s", line)
	}
	lit, ok := call.Args[0].(*ast.BasicLit)
	if !ok {
		return nil, fmt.Errorf("not a literal: %s", line)
	}
	typ := ""
	switch f := call.Fun.(type) {
	case *ast.Ident:
		typ = f.Name
	case *ast.ArrayType:
		if id, ok := f.Elt.(*ast.Ident); ok && f.Len == nil {
			typ = "[]" + id.Name
		}
	}
	switch typ {
	case "[]byte", "string":
		if lit.Kind != token.STRING {
			return nil, fmt.Errorf("bad literal: %s", line)
		}
		s, err := strconv.Unquote(lit.Value)
		return []byte(s), err
	case "byte", "uint8":
		switch lit.Kind {
		case token.CHAR:
			r, _, _, err := strconv.UnquoteChar(strings.Trim(lit.Value, "'"), '\'')
			return byte(r), err
		case token.INT:
			n, err := strconv.ParseUint(lit.Value, 0, 8)
			return byte(n), err
		}
	}
	return nil, fmt.Errorf("unsupported literal: %s", line)
}

func c06ReadCorpusFile(path string) ([]c06CorpusInput, error) {
	raw, err := os.ReadFile(path)
	if err != nil {
		return nil, err
	}
	lines := strings.Split(strings.ReplaceAll(string(raw), "\r", ""), "\n")
	if len(lines) > 0 && strings.HasPrefix(lines[0], "go test fuzz v1") {
		var vals []any
		for _, l := range lines[1:] {
			if strings.TrimSpace(l) == "" {
				continue
			}
			v, err := c06ParseFuzzLiteral(l)
			if err != nil {
				return nil, err
			}
			vals = append(vals, v)
		}
		switch {
		case len(vals) == 2:
			vb, ok1 := vals[0].(byte)
			d, ok2 := vals[1].([]byte)
			if ok1 && ok2 {
				return []c06CorpusInput{{File: path, V: c06FuzzVersion(vb), Data: d}}, nil
			}
		case len(vals) == 1:
			if d, ok := vals[0].([]byte); ok {
				return []c06CorpusInput{{File: path, Valid: true, Data: d}}, nil
			}
		}
		return nil, fmt.Errorf("unexpected argument list in %s", path)
	}
	if !strings.HasSuffix(path, ".hex") {
		return nil, fmt.Errorf("unknown corpus file format: %s", path)
	}
	var out []c06CorpusInput
	for i, l := range lines {
		if k := strings.IndexByte(l, '#'); k >= 0 {
			l = l[:k]
		}
		f := strings.Fields(l)
		if len(f) == 0 {
			continue
		}
		data, err := hex.DecodeString(strings.Join(f[1:], ""))
		if err != nil {
			return nil, fmt.Errorf("%s:%d: %v", path, i+1, err)
		}
		in := c06CorpusInput{File: fmt.Sprintf("%s:%d", path, i+1), Data: data}
		switch f[0] {
		case "valid":
			in.Valid = true
		case "v=3", "v=4", "v=5":
			in.V = int(f[0][2] - '0')
		default:
			return nil, fmt.Errorf("%s:%d: want v=3|v=4|v=5|valid", path, i+1)
		}
		out = append(out, in)
	}
	return out, nil
}

func c06RunCorpusInput(in c06CorpusInput, c *ev.Case) *ev.Violation {
	if in.Valid {
		return c06RunValid(c06ValidScen{B: in.Data, Kind: "corpus"}, c)
	}
	for _, buf := range []int{16, 4096} {
		if v := c06RunBytes(c06BytesScen{V: in.V, Buf: buf, Data: in.Data, Mut: "corpus"}, c); v != nil {
			return v
		}
	}
	return nil
}

func TestC06CorpusReplay(t *testing.T) {
	dir := os.Getenv("VERIF_CORPUS")
	if dir == "" {
		dir = "/verif/corpus"
	}
	dir = filepath.Join(dir, "c06")
	var files []string
	_ = filepath.Walk(dir, func(p string, info os.FileInfo, err error) error {
		if err == nil && info.Mode().IsRegular() && !strings.HasPrefix(info.Name(), ".") && !strings.HasSuffix(info.Name(), ".md") {
			files = append(files, p)
		}
		return nil
	})
	sort.Strings(files)
	shard, nshards := ev.Shard()
	n, idx := 0, 0
	for _, f := range files {
		ins, err := c06ReadCorpusFile(f)
		if err != nil {
			t.Errorf("@@HARNESS-ERROR corpus: %v", err)
			continue
		}
		for _, in := range ins {
			idx++
			if idx%nshards != shard {
				continue // every input runs on exactly one of the shard processes
			}
			c := &ev.Case{}
			c.Label("corpus")
			viol := c06RunCorpusInput(in, c)
			ev.Direct("C06", c, in)
			n++
			if viol != nil {
				ev.Fail(t, "C06", viol, in)
			}
		}
	}
	t.Logf("replayed %d corpus inputs from %d files under %s", n, len(files), dir)
}

// c06SeedPackets returns encodings of sample packets of every type and version.
func c06SeedPackets() (vers []byte, datas [][]byte) {
	for _, v := range []int{3, 4, 5} {
		for _, ty := range mw.LegalTypes(mw.Version(v), mw.AnyDir) {
			for seed := 1; seed <= 3; seed++ {
				p := mw.GenPacketOf(ty, mw.Version(v), mw.AnyDir).Example(seed*100 + int(ty))
				if len(p.Payload) > 512 {
					p.Payload = p.Payload[:512]
				}
				enc, err := mw.Encode(p, mw.Version(v))
				if err != nil || len(enc) > 2048 {
					continue
				}
				vers, datas = append(vers, byte(v-3)), append(datas, enc)
			}
		}
	}
	return
}

func FuzzC06ReadPacket(f *testing.F) {
	vers, datas := c06SeedPackets()
	for i := range datas {
		f.Add(vers[i], datas[i])
	}
	giants := 0
	for _, h := range c06HostileBytes() {
		if c06ParseHdr(h).lenient > 16<<20 {
			if giants++; giants > 1 {
				continue // one seed declaring 256 MiB is enough to start from
			}
		}
		for v := byte(0); v < 3; v++ {
			f.Add(v, h)
		}
	}
	f.Fuzz(func(t *testing.T, vb byte, data []byte) {
		c := &ev.Case{}
		if v := c06RunBytes(c06BytesScen{V: c06FuzzVersion(vb), Buf: 64, Data: data, Mut: "fuzz"}, c); v != nil {
			t.Fatalf("%s\nfeatures: %v", v.Error(), v.Features)
		}
	})
}

func FuzzC06Validity(f *testing.F) {
	for _, s := range c06Forms {
		f.Add([]byte(s))
	}
	for _, s := range c06Levels {
		f.Add([]byte("a/" + s + "/#"))
	}
	_, datas := c06SeedPackets()
	for _, d := range datas {
		if len(d) < 64 {
			f.Add(d)
		}
	}
	for _, h := range c06HostileBytes() {
		f.Add(h)
	}
	f.Fuzz(func(t *testing.T, b []byte) {
		if len(b) > 65535 {
			return
		}
		c := &ev.Case{}
		if v := c06RunValid(c06ValidScen{B: b, Kind: "fuzz"}, c); v != nil {
			t.Fatalf("%s\nfeatures: %v", v.Error(), v.Features)
		}
	})
}
