//go:build verif

package checks

// C17 — Federation routing: forwarded to exactly the nodes that need it, delivered once.
//
// 2-3 in-process nodes (full mesh), two subscriber clients and one publisher client per node.
// "One logical broker" model: every matching non-shared subscription anywhere gets exactly the
// copy a local subscriber would get, a share group gets exactly one copy federation-wide, the
// origin enqueues exactly one message event for every peer that needs the message (every peer
// for retained messages) and none for the others, a receiver never forwards, and the retained
// stores of all nodes follow retained publishes / clears.

import (
	"fmt"
	"sort"
	"sync"
	"testing"
	"time"

	"github.com/DrmagicE/gmqtt"
	"github.com/DrmagicE/gmqtt/config"
	"pgregory.net/rapid"

	"verif/ev"
	"verif/fixture"
	mw "verif/mqttwire"
	"verif/topicref"
)

type c17Sub struct {
	Node   int    `json:"n"`
	Client int    `json:"c"`
	Group  string `json:"g,omitempty"`
	Filter string `json:"f"`
	QoS    byte   `json:"q"`
}

type c17Pub struct {
	Node  int    `json:"n"`
	Topic string `json:"t"`
	QoS   byte   `json:"q"`
	Kind  string `json:"k"`               // plain | retain | clear | will (published as the will of a client that dies on the node)
	Props int    `json:"props,omitempty"` // application properties, bit set as in C01 (1 payload-format, 2 content-type, 4 response-topic, 16 user)
}

type c17Change struct {
	Op   string `json:"op"` // sub | unsub | unsub_foreign | end
	Sub  c17Sub `json:"sub"`
	Pick int    `json:"pick,omitempty"` // unsub: index into the client's sorted current filters
}

type c17Scen struct {
	Nodes   int         `json:"nodes"`
	Mode    string      `json:"mode"`
	Subs    []c17Sub    `json:"subs"`
	Pubs1   []c17Pub    `json:"pubs1"`
	Changes []c17Change `json:"changes"`
	Pubs2   []c17Pub    `json:"pubs2"`
	// Bulk (optional, at the end): client (Node, Client) subscribes to N fresh filters with ONE SUBSCRIBE packet - a
	// backlog of N events for every peer in one go; then node From publishes to every one of them
	Bulk *c17Bulk `json:"bulk,omitempty"`
	// LateJoin (optional): the last node joins after the others are up. While it joins (handshake and full
	// synchronisation towards it), a client on node 0 subscribes to N fresh topics one by one, with Retained retained
	// messages on node 0 to stretch the synchronisation; afterwards the late node publishes to every one of the topics:
	// each must reach the subscriber on node 0 exactly once.
	LateJoin *c17LateJoin `json:"late_join,omitempty"`
}

type c17LateJoin struct {
	N        int `json:"count"`
	Retained int `json:"retained"`
	GapUs    int `json:"gap_us"`
}

type c17Bulk struct {
	Node   int `json:"n"`
	Client int `json:"c"`
	N      int `json:"count"`
	From   int `json:"from"`
}

var c17Filters = []string{"f/a", "f/a", "f/b", "f/+", "f/#", "#", "$f/#"}

// "f" is the parent level of the filter "f/#" (which matches it, MQTT 4.7.1.2) but not of "f/+"
var c17Topics = []string{"f/a", "f/a", "f/a", "f/b", "x", "$f/x", "f", "f"}

const c17ClientsPerNode = 2

func genC17Sub(t *rapid.T, nodes int) c17Sub {
	s := c17Sub{Node: rapid.IntRange(0, nodes-1).Draw(t, "node"), Client: rapid.IntRange(0, c17ClientsPerNode-1).Draw(t, "client"),
		QoS: byte(rapid.IntRange(0, 2).Draw(t, "qos"))}
	if k := rapid.IntRange(0, 11).Draw(t, "shared"); k < 4 {
		s.Group, s.Filter = "g", "f/a"
	} else if k == 4 {
		s.Group, s.Filter = "h", "f/+" // a second group whose filter overlaps the first one's
	} else {
		s.Filter = rapid.SampledFrom(c17Filters).Draw(t, "filter")
	}
	return s
}

func genC17Pubs(t *rapid.T, nodes int, lo, hi int) []c17Pub {
	n := rapid.IntRange(lo, hi).Draw(t, "npubs")
	var out []c17Pub
	for i := 0; i < n; i++ {
		out = append(out, c17Pub{Node: rapid.IntRange(0, nodes-1).Draw(t, "pnode"), Topic: rapid.SampledFrom(c17Topics).Draw(t, "topic"),
			QoS:   byte(rapid.SampledFrom([]int{0, 1, 1, 2}).Draw(t, "pqos")),
			Kind:  rapid.SampledFrom([]string{"plain", "plain", "plain", "plain", "retain", "retain", "clear", "will"}).Draw(t, "kind"),
			Props: rapid.SampledFrom([]int{0, 0, 2, 7, 16, 23}).Draw(t, "props")})
	}
	return out
}

func genC17(t *rapid.T) c17Scen {
	s := c17Scen{Nodes: rapid.SampledFrom([]int{3, 3, 3, 2}).Draw(t, "nodes"), Mode: rapid.SampledFrom([]string{"overlap", "overlap", "onlyonce"}).Draw(t, "mode")}
	ns := rapid.IntRange(2, 8).Draw(t, "nsubs")
	for i := 0; i < ns; i++ {
		s.Subs = append(s.Subs, genC17Sub(t, s.Nodes))
	}
	s.Pubs1 = genC17Pubs(t, s.Nodes, 2, 6)
	nc := rapid.IntRange(1, 4).Draw(t, "nchanges")
	for i := 0; i < nc; i++ {
		ch := c17Change{Op: rapid.SampledFrom([]string{"sub", "sub", "unsub", "unsub", "unsub_foreign", "end"}).Draw(t, "op"), Sub: genC17Sub(t, s.Nodes)}
		if ch.Op == "unsub" || ch.Op == "unsub_foreign" {
			ch.Pick = rapid.IntRange(0, 5).Draw(t, "pick")
		}
		if ch.Op == "sub" && ch.Sub.Group == "" && rapid.Bool().Draw(t, "aimed") {
			// aimed at a topic that was published in the first round: its route must follow the change. The filter
			// is the topic itself, the topic with its last level replaced by '+', or the topic as the PARENT of '/#'
			p := rapid.SampledFrom(s.Pubs1).Draw(t, "of")
			forms := []string{p.Topic, p.Topic + "/#"}
			if k := lastSlash(p.Topic); k >= 0 {
				forms = append(forms, p.Topic[:k+1]+"+")
			} else if p.Topic[0] != '$' {
				forms = append(forms, "+")
			}
			ch.Sub.Filter = rapid.SampledFrom(forms).Draw(t, "form")
		}
		s.Changes = append(s.Changes, ch)
	}
	s.Pubs2 = genC17Pubs(t, s.Nodes, 2, 6)
	if rapid.IntRange(0, 3).Draw(t, "late_join") == 0 {
		s.LateJoin = &c17LateJoin{N: rapid.IntRange(10, 60).Draw(t, "lj_n"), Retained: rapid.SampledFrom([]int{0, 300, 1500, 3000}).Draw(t, "lj_retained"),
			GapUs: rapid.SampledFrom([]int{0, 50, 500}).Draw(t, "lj_gap")}
	}
	for i := range s.Pubs2 {
		// half of the second round repeats a publish of the first round (same origin, same topic)
		if rapid.Bool().Draw(t, "repeat") {
			p := rapid.SampledFrom(s.Pubs1).Draw(t, "rep")
			s.Pubs2[i].Node, s.Pubs2[i].Topic = p.Node, p.Topic
		}
	}
	if rapid.IntRange(0, 5).Draw(t, "bulk") == 0 {
		bn := rapid.IntRange(0, s.Nodes-1).Draw(t, "bulk_node")
		s.Bulk = &c17Bulk{Node: bn, Client: rapid.IntRange(0, c17ClientsPerNode-1).Draw(t, "bulk_client"),
			N: rapid.SampledFrom([]int{101, 130, 220}).Draw(t, "bulk_n"), From: (bn + 1 + rapid.IntRange(0, s.Nodes-2).Draw(t, "bulk_from")) % s.Nodes}
	}
	return s
}

func lastSlash(s string) int {
	for i := len(s) - 1; i >= 0; i-- {
		if s[i] == '/' {
			return i
		}
	}
	return -1
}

// background stops of finished clusters (serf leave takes seconds); waited for at the end of
// the test function.
var fedStops sync.WaitGroup

func stopFedLater(stop func()) {
	fedStops.Add(1)
	go func() {
		defer fedStops.Done()
		stop()
	}()
}

func waitFedStops(d time.Duration) {
	done := make(chan struct{})
	go func() { fedStops.Wait(); close(done) }()
	select {
	case <-done:
	case <-time.After(d):
	}
}

type c17Client struct {
	node, idx int
	cl        *fixture.Client
	subs      map[string]subSpec // full filter -> spec (model)
	alive     bool
}

type c17Run struct {
	s       c17Scen
	c       *ev.Case
	cl      *fixture.FedCluster
	clients [][]*c17Client // [node][client]
	pubs    []*fixture.Client
	subByID map[uint32]struct {
		node, client int
		spec         subSpec
	}
	nextSubID  uint32
	pid        uint16
	npub       int
	retained   map[string]string // model of the federation-wide retained store: topic -> uid
	nontrivial bool
}

func (r *c17Run) nodeClients(n int) []*fixture.Client {
	var out []*fixture.Client
	for _, c := range r.clients[n] {
		if c.alive {
			out = append(out, c.cl)
		}
	}
	return out
}

// localTopics is the model of a node's set of full topic names with at least one subscriber.
func (r *c17Run) localTopics(n int) []string {
	set := map[string]bool{}
	for _, c := range r.clients[n] {
		if !c.alive {
			continue
		}
		set[fixture.SentinelTopic(c.cl.ID)] = true
		for f := range c.subs {
			set[f] = true
		}
	}
	var out []string
	for f := range set {
		out = append(out, f)
	}
	sort.Strings(out)
	return out
}

// propagate waits until every node's outgoing queues are empty and every node's view of every
// other node equals the model. A timeout is a harness error (C16 owns convergence).
func (r *c17Run) propagate() *ev.Violation {
	deadline := time.Now().Add(15 * time.Second)
	for {
		bad := ""
		for _, n := range r.cl.Nodes {
			if !n.Drained() {
				bad = fmt.Sprintf("node %s: outgoing queues not empty", n.Name)
				break
			}
		}
		if bad == "" {
		outer:
			for i, n := range r.cl.Nodes {
				want := r.localTopics(i)
				for _, m := range r.cl.Nodes {
					if m == n {
						continue
					}
					got := m.Fed.VerifFedSubs(n.Name)
					if !eqStrs(got, want) {
						bad = fmt.Sprintf("node %s sees %v for node %s, model %v", m.Name, got, n.Name, want)
						break outer
					}
				}
			}
		}
		if bad == "" {
			return nil
		}
		if time.Now().After(deadline) {
			drained := true
			for _, n := range r.cl.Nodes {
				drained = drained && n.Drained()
			}
			if drained {
				// nothing is on its way any more (no stream was ever disturbed here), yet a peer's routing table disagrees
				// with what the node's clients hold: messages will go to the wrong set of nodes from now on
				return ev.Violf("C17.routing-table", "every event has been acknowledged, but 15 s after the last subscription change %s", bad)
			}
			return harnessErr("subscription changes did not propagate within 15 s: %s", bad)
		}
		time.Sleep(2 * time.Millisecond)
	}
}

func (r *c17Run) subscribe(cs c17Sub) *ev.Violation {
	cl := r.clients[cs.Node][cs.Client]
	if !cl.alive {
		r.c.Count("skipped_ops", 1)
		return nil
	}
	r.nextSubID++
	r.pid++
	sp := subSpec{Group: cs.Group, Filter: cs.Filter, QoS: cs.QoS, ID: r.nextSubID, RH: 2}
	code, err := subscribeOne(cl.cl, r.pid, sp)
	if err != nil || code != cs.QoS {
		return ev.Violf("C17.suback", "SUBSCRIBE %q on node %d: code %#x err %v", sp.full(), cs.Node, code, err)
	}
	cl.subs[sp.full()] = sp
	r.subByID[sp.ID] = struct {
		node, client int
		spec         subSpec
	}{cs.Node, cs.Client, sp}
	return nil
}

func runC17(s c17Scen, c *ev.Case) (out *ev.Violation) {
	first := s.Nodes
	if s.LateJoin != nil && s.Nodes >= 2 {
		first = s.Nodes - 1
	}
	cluster, err := fixture.StartFedCluster(first, func(i int, o *fixture.FedNodeOpts) {
		o.Modify = func(cfg *config.Config) { cfg.MQTT.DeliveryMode = s.Mode }
	})
	if err != nil {
		return harnessErr("start cluster: %v", err)
	}
	r := &c17Run{s: s, c: c, cl: cluster, retained: map[string]string{}, pid: 100, subByID: map[uint32]struct {
		node, client int
		spec         subSpec
	}{}}
	defer func() {
		for _, cs := range r.clients {
			for _, cl := range cs {
				cl.cl.Kill()
			}
		}
		for _, p := range r.pubs {
			p.Kill()
		}
		stopFedLater(cluster.StopQuietly)
	}()
	var ljClient *fixture.Client
	var ljTopics []string
	if first < s.Nodes {
		lj := s.LateJoin
		if lj.N < 1 || lj.N > 200 || lj.Retained < 0 || lj.Retained > 5000 {
			return harnessErr("bad late join")
		}
		n0 := cluster.Nodes[0]
		if err := cluster.WaitMesh(15 * time.Second); err != nil {
			return harnessErr("mesh: %v", err)
		}
		cl, ack, err := n0.Connect(fixture.ConnectOpts{ID: "lj", V: mw.V5, CleanStart: true, AutoAck: true})
		if err != nil || ack.ReasonCode != 0 {
			return harnessErr("connect: %v %v", ack, err)
		}
		ljClient = cl
		defer cl.Kill()
		if err := subscribeSentinel(cl); err != nil {
			return harnessErr("%v", err)
		}
		for k := 0; k < lj.Retained; k++ {
			if err := cl.Send(&mw.Packet{Type: mw.PUBLISH, Topic: fmt.Sprintf("$ljr/%d", k), Retain: true, Payload: []byte("kept")}); err != nil {
				return harnessErr("retained preload: %v", err)
			}
		}
		if err := cl.Ping(20 * time.Second); err != nil {
			return harnessErr("retained preload: %v", err)
		}
		lateName := fmt.Sprintf("n%d", first)
		burst := make(chan *ev.Violation, 1)
		go func() {
			if !fixture.PollUntilEvery(50*time.Microsecond, 20*time.Second, func() bool {
				for _, p := range n0.Fed.VerifPeers() {
					if p == lateName {
						return true
					}
				}
				return false
			}) {
				burst <- nil // the join itself failed; reported below
				return
			}
			for k := 0; k < lj.N; k++ {
				f := fmt.Sprintf("lj/%d", k)
				if code, err := subscribeOne(cl, uint16(1000+k), subSpec{Filter: f, QoS: 1}); err != nil || code != 1 {
					burst <- harnessErr("late join burst: SUBSCRIBE %q: code %#x err %v", f, code, err)
					return
				}
				ljTopics = append(ljTopics, f)
				if lj.GapUs > 0 {
					time.Sleep(time.Duration(lj.GapUs) * time.Microsecond)
				}
			}
			burst <- nil
		}()
		var join []string
		for _, n := range cluster.Nodes {
			join = append(join, n.GossipAddr)
		}
		late, err := fixture.StartFedNode(fixture.FedNodeOpts{Name: lateName, Join: join, Modify: func(cfg *config.Config) { cfg.MQTT.DeliveryMode = s.Mode }})
		if err != nil {
			<-burst
			return harnessErr("start late node: %v", err)
		}
		cluster.Nodes = append(cluster.Nodes, late)
		if v := <-burst; v != nil {
			return v
		}
		c.Label("late_join")
	}
	if err := cluster.WaitMesh(15 * time.Second); err != nil {
		return harnessErr("mesh: %v", err)
	}
	w := watchFedPeers(cluster.Nodes...)
	defer func() {
		w.close()
		if bad, why := w.flapped(); bad {
			c.Logf("membership disturbed: %s (verdict %v discarded)", why, out)
			c.Count("membership_flap_inconclusive", 1)
			out = nil
		} else if r.nontrivial {
			c.NonTrivial()
		}
	}()
	c.Label(fmt.Sprintf("nodes_%d", s.Nodes))
	c.Label("mode_" + s.Mode)
	for i, n := range cluster.Nodes {
		var row []*c17Client
		for j := 0; j < c17ClientsPerNode; j++ {
			cl, ack, err := n.Connect(fixture.ConnectOpts{ID: fmt.Sprintf("n%dc%d", i, j), V: mw.V5, CleanStart: true, AutoAck: true})
			if err != nil || ack.ReasonCode != 0 {
				return harnessErr("connect: %v %v", ack, err)
			}
			row = append(row, &c17Client{node: i, idx: j, cl: cl, subs: map[string]subSpec{}, alive: true})
			if err := subscribeSentinel(cl); err != nil {
				return harnessErr("%v", err)
			}
		}
		r.clients = append(r.clients, row)
		p, ack, err := n.Connect(fixture.ConnectOpts{ID: fmt.Sprintf("n%dp", i), V: mw.V5, CleanStart: true, AutoAck: true})
		if err != nil || ack.ReasonCode != 0 {
			return harnessErr("publisher connect: %v %v", ack, err)
		}
		r.pubs = append(r.pubs, p)
	}
	if ljClient != nil {
		late := cluster.Nodes[len(cluster.Nodes)-1]
		n0 := cluster.Nodes[0]
		want := append([]string(nil), ljTopics...)
		// give the synchronisation time to finish; what is still missing then shows in the deliveries
		fixture.PollUntil(10*time.Second, func() bool {
			have := map[string]bool{}
			for _, f := range late.Fed.VerifFedSubs(n0.Name) {
				have[f] = true
			}
			for _, f := range want {
				if !have[f] {
					return false
				}
			}
			return n0.Drained()
		})
		lp := r.pubs[len(r.pubs)-1]
		for k, f := range want {
			r.pid++
			if _, err := lp.Publish(&mw.Packet{Topic: f, QoS: 1, PacketID: r.pid, Payload: []byte(fmt.Sprintf("lj-%d", k))}); err != nil {
				return harnessErr("late join publish: %v", err)
			}
		}
		if err := late.WaitDrained(15 * time.Second); err != nil {
			return harnessErr("late node: %v", err)
		}
		if err := sentinelBarrier(n0.Broker, []*fixture.Client{ljClient}, "lj"); err != nil {
			return harnessErr("%v", err)
		}
		seen := map[string]int{}
		for _, rc := range ljClient.All() {
			if rc.P.Type == mw.PUBLISH && !isSentinel(rc.P) {
				seen[string(rc.P.Payload)]++
			}
		}
		var missing []string
		for k, f := range want {
			switch n := seen[fmt.Sprintf("lj-%d", k)]; {
			case n == 0:
				missing = append(missing, f)
			case n > 1:
				return ev.Violf("C17.late-join-delivery", "message published on the late node to %q was delivered %d times to its subscriber on node 0", f, n)
			}
		}
		if len(missing) > 0 {
			view := late.Fed.VerifFedSubs(n0.Name)
			return ev.Violf("C17.late-join-delivery", "%d of %d topics a client on node 0 subscribed to while node %s was joining (%d retained messages on node 0) never got the message the late node published to them afterwards, e.g. %v; the late node's view of node 0 has %d filters", len(missing), len(want), late.Name, s.LateJoin.Retained, clipStrs(missing, 5), len(view)).
				With("retained", s.LateJoin.Retained, "missing", len(missing))
		}
		r.nontrivial = true
		c.Label("late_join_deliveries_checked")
		c.Count("late_join_topics", len(want))
		// the helper client leaves (clean session): node 0's local set is the model's again
		ljClient.Disconnect()
		if !waitSessionGone(n0.Broker, "lj") {
			return harnessErr("session lj still present")
		}
	}
	for _, cs := range s.Subs {
		if v := r.subscribe(cs); v != nil {
			return v
		}
	}
	if v := r.propagate(); v != nil {
		return v
	}
	w.trackCounters() // the first handshakes (which restart the queues) are over
	for _, p := range s.Pubs1 {
		if v := r.publish(p); v != nil {
			return v
		}
	}
	for i, ch := range s.Changes {
		c.Logf("change %d: %+v", i, ch)
		cl := r.clients[ch.Sub.Node][ch.Sub.Client]
		switch ch.Op {
		case "sub":
			if v := r.subscribe(ch.Sub); v != nil {
				return v
			}
			c.Label("change_sub")
		case "unsub":
			if !cl.alive || len(cl.subs) == 0 {
				c.Count("skipped_ops", 1)
				continue
			}
			var fs []string
			for f := range cl.subs {
				fs = append(fs, f)
			}
			sort.Strings(fs)
			f := fs[ch.Pick%len(fs)]
			r.pid++
			if _, err := cl.cl.Unsubscribe(r.pid, f); err != nil {
				return ev.Violf("C17.unsuback", "UNSUBSCRIBE %q: %v", f, err)
			}
			delete(cl.subs, f)
			c.Label("change_unsub")
		case "unsub_foreign":
			// the client unsubscribes a filter it does not hold but another client on the same node does: answered with
			// UNSUBACK like any other, and nothing changes - in particular the node keeps telling its peers about the filter
			var fs []string
			for _, o := range r.clients[ch.Sub.Node] {
				if o == cl || !o.alive {
					continue
				}
				for f := range o.subs {
					if _, own := cl.subs[f]; !own {
						fs = append(fs, f)
					}
				}
			}
			if !cl.alive || len(fs) == 0 {
				c.Count("skipped_ops", 1)
				continue
			}
			sort.Strings(fs)
			f := fs[ch.Pick%len(fs)]
			r.pid++
			if _, err := cl.cl.Unsubscribe(r.pid, f); err != nil {
				return ev.Violf("C17.unsuback", "UNSUBSCRIBE %q: %v", f, err)
			}
			c.Label("change_unsub_of_a_filter_held_by_another_local_client")
			r.nontrivial = true
		case "end":
			if !cl.alive {
				c.Count("skipped_ops", 1)
				continue
			}
			// session expiry 0 (default): the session ends with the connection
			_ = cl.cl.Send(&mw.Packet{Type: mw.DISCONNECT})
			cl.cl.Kill()
			if !waitSessionGone(cluster.Nodes[ch.Sub.Node].Broker, cl.cl.ID) {
				return harnessErr("session %s still present 5 s after DISCONNECT", cl.cl.ID)
			}
			cl.alive = false
			cl.subs = map[string]subSpec{}
			c.Label("change_session_end")
		}
	}
	if v := r.propagate(); v != nil {
		return v
	}
	for _, p := range s.Pubs2 {
		if v := r.publish(p); v != nil {
			return v
		}
	}
	if s.Bulk != nil {
		return r.bulk(*s.Bulk)
	}
	return nil
}

// bulk: one SUBSCRIBE with many fresh filters on one node, then a publish to each of them from another node.
func (r *c17Run) bulk(bk c17Bulk) *ev.Violation {
	cl := r.clients[bk.Node][bk.Client]
	if !cl.alive {
		r.c.Count("skipped_ops", 1)
		return nil
	}
	r.c.Label("bulk_subscribe")
	var reqs []mw.SubReq
	for i := 0; i < bk.N; i++ {
		reqs = append(reqs, mw.SubReq{Filter: fmt.Sprintf("bulk/%d", i), QoS: 1})
	}
	r.nextSubID++
	r.pid++
	ack, err := cl.cl.Subscribe(r.pid, &mw.Props{SubscriptionIDs: []uint32{r.nextSubID}}, reqs...)
	if err != nil || len(ack.ReasonCodes) != len(reqs) {
		return harnessErr("bulk SUBSCRIBE: %v %v", ack, err)
	}
	// every event the subscription produced has been acknowledged by every peer
	for _, n := range r.cl.Nodes {
		if err := n.WaitDrained(15 * time.Second); err != nil {
			return harnessErr("after the bulk SUBSCRIBE: %v", err)
		}
	}
	pc := r.pubs[bk.From]
	for i := 0; i < bk.N; i++ {
		r.pid++
		if _, err := pc.Publish(&mw.Packet{Topic: fmt.Sprintf("bulk/%d", i), QoS: 1, PacketID: r.pid, Payload: []byte(fmt.Sprintf("bulk-%d", i))}); err != nil {
			return ev.Violf("C17.ack", "publish to bulk/%d not acknowledged: %v", i, err)
		}
	}
	if err := r.cl.Nodes[bk.From].WaitDrained(15 * time.Second); err != nil {
		return harnessErr("after the bulk publishes: %v", err)
	}
	for i, n := range r.cl.Nodes {
		if err := sentinelBarrier(n.Broker, r.nodeClients(i), "bulk"); err != nil {
			return harnessErr("barrier on node %d: %v", i, err)
		}
	}
	// copies are attributed by the subscription identifier of the bulk SUBSCRIBE (the client may hold other
	// subscriptions, such as '#', that match as well)
	bulkID := r.nextSubID
	got := map[string]int{}
	for _, rc := range cl.cl.Take(func(pk *mw.Packet) bool { return pk.Type == mw.PUBLISH && !isSentinel(pk) }) {
		if rc.P.Props == nil {
			continue
		}
		for _, id := range rc.P.Props.SubscriptionIDs {
			if id == bulkID {
				got[string(rc.P.Payload)]++
			}
		}
	}
	var missing, twice []string
	for i := 0; i < bk.N; i++ {
		switch got[fmt.Sprintf("bulk-%d", i)] {
		case 0:
			missing = append(missing, fmt.Sprintf("bulk/%d", i))
		case 1:
		default:
			twice = append(twice, fmt.Sprintf("bulk/%d", i))
		}
	}
	if len(missing) > 0 || len(twice) > 0 {
		return ev.Violf("C17.bulk-delivery", "client n%dc%d subscribed to %d filters with one SUBSCRIBE (all events acknowledged by the peers); of the %d messages node %d then published, %d never arrived %v and %d arrived more than once %v",
			bk.Node, bk.Client, bk.N, bk.N, bk.From, len(missing), clipStrs(missing, 6), len(twice), clipStrs(twice, 6)).With("missing", len(missing), "twice", len(twice))
	}
	r.nontrivial = true
	return nil
}

// publish performs one publish and checks everything observable about it.
func (r *c17Run) publish(p c17Pub) *ev.Violation {
	c := r.c
	r.npub++
	uid := fmt.Sprintf("m%03d", r.npub)
	origin := r.cl.Nodes[p.Node]
	retain := p.Kind == "retain" || p.Kind == "clear"
	c.Logf("publish %s: %+v", uid, p)

	// ---- expectations from the model, at publish time ----
	cp := c01Pub{By: -2, Topic: p.Topic, QoS: p.QoS, Retain: retain}
	type memberT struct {
		node, client int
		spec         subSpec
	}
	groups := map[string][]memberT{} // full shared filter -> members
	nonShared := make([]bool, len(r.cl.Nodes))
	sharedOn := make([]map[string]bool, len(r.cl.Nodes))
	for ni := range r.clients {
		sharedOn[ni] = map[string]bool{}
		for _, cl := range r.clients[ni] {
			if !cl.alive {
				continue
			}
			for full, sp := range cl.subs {
				if !topicref.Match(p.Topic, sp.Filter) {
					continue
				}
				if sp.Group != "" {
					groups[full] = append(groups[full], memberT{ni, cl.idx, sp})
					sharedOn[ni][full] = true
				} else {
					nonShared[ni] = true
				}
			}
		}
	}
	needing := 0
	for ni := range r.cl.Nodes {
		if ni != p.Node && (nonShared[ni] || len(sharedOn[ni]) > 0) {
			needing++
		}
	}
	peers := len(r.cl.Nodes) - 1
	if !retain && needing > 0 && needing < peers {
		r.nontrivial = true
		c.Label("needed_by_proper_subset_of_peers")
	}
	for _, ms := range groups {
		nodes := map[int]bool{}
		for _, m := range ms {
			nodes[m.node] = true
		}
		if len(nodes) >= 2 {
			r.nontrivial = true
			c.Label("share_group_spanning_nodes")
		}
	}
	c.Label("pub_" + p.Kind)

	// ---- the publish ----
	before := make([]map[string]uint64, len(r.cl.Nodes))
	for i, n := range r.cl.Nodes {
		before[i] = n.NextIDs()
	}
	r.pid++
	sentProps := pubProps(p.Props &^ 8)
	if sentProps == nil {
		sentProps = &mw.Props{}
	}
	sentProps.CorrelationData, sentProps.HasCorrelationData = []byte(uid), true
	pk := &mw.Packet{Topic: p.Topic, QoS: p.QoS, PacketID: r.pid, Retain: retain, Payload: []byte(uid), Props: sentProps}
	if p.Kind == "clear" {
		pk.Payload = nil
	}
	if p.Kind == "will" {
		// the message is the will of a client that dies on the origin node (no delay, no session): it is published
		// inside the broker and must be routed like any other publish
		wid := fmt.Sprintf("w%d-%s", p.Node, uid)
		wc, ack, err := origin.Connect(fixture.ConnectOpts{ID: wid, V: mw.V5, CleanStart: true,
			Will: &mw.Will{QoS: p.QoS, Topic: p.Topic, Payload: []byte(uid), Props: sentProps}})
		if err != nil || ack.ReasonCode != 0 {
			return harnessErr("will client connect: %v %v", ack, err)
		}
		wc.Kill()
		if !waitClientGone(origin.Broker, wid) {
			return harnessErr("will client still registered 5 s after its socket was closed")
		}
	} else {
		pc := r.pubs[p.Node]
		if _, err := pc.Publish(pk); err != nil {
			return ev.Violf("C17.ack", "publish %s not acknowledged: %v", uid, err)
		}
		if p.QoS == 0 {
			if err := pc.Ping(fixture.DefaultWait); err != nil {
				return ev.Violf("C17.ack", "no PINGRESP after QoS0 publish %s: %v", uid, err)
			}
		}
	}
	if err := origin.WaitDrained(15 * time.Second); err != nil {
		return harnessErr("after publish %s: %v", uid, err)
	}
	for i, n := range r.cl.Nodes {
		if err := sentinelBarrier(n.Broker, r.nodeClients(i), uid); err != nil {
			return harnessErr("barrier on node %d: %v", i, err)
		}
	}
	switch p.Kind {
	case "retain":
		r.retained[p.Topic] = uid
	case "clear":
		delete(r.retained, p.Topic)
	}

	// ---- forwarding: message events enqueued per peer ----
	for i, n := range r.cl.Nodes {
		after := n.NextIDs()
		for peer, a := range after {
			b, ok := before[i][peer]
			if !ok {
				return harnessErr("peer table of node %d changed during publish", i)
			}
			d := int(a) - int(b)
			var pi int
			fmt.Sscanf(peer, "n%d", &pi)
			if i != p.Node {
				if d != 0 {
					return ev.Violf("C17.re-forward", "publish %s (topic %q, %s) from node %d: node %d, which is not the origin, enqueued %d event(s) for node %s", uid, p.Topic, p.Kind, p.Node, i, d, peer).
						With("kind", p.Kind)
				}
				continue
			}
			switch {
			case retain:
				if d != 1 {
					return ev.Violf("C17.forward-retained", "retained publish %s (topic %q) on node %d: %d message events enqueued for peer %s, expected 1", uid, p.Topic, p.Node, d, peer).With("events", d)
				}
			case nonShared[pi]:
				if d != 1 {
					return ev.Violf("C17.forward-count", "publish %s (topic %q) on node %d: %d message events enqueued for peer %s which has a matching non-shared subscription, expected 1", uid, p.Topic, p.Node, d, peer).With("events", d)
				}
				c.Count("forward_needed", 1)
			case len(sharedOn[pi]) > 0:
				// the peer holds only share-group members: it needs the message iff it is the chosen member's node
				if d != 0 && d != 1 {
					return ev.Violf("C17.forward-count", "publish %s (topic %q) on node %d: %d message events enqueued for peer %s (only shared subscriptions match there), expected 0 or 1", uid, p.Topic, p.Node, d, peer).With("events", d)
				}
				c.Count(fmt.Sprintf("forward_shared_only_%d", d), 1)
			default:
				if d != 0 {
					return ev.Violf("C17.forward-unneeded", "publish %s (topic %q) on node %d: %d message events enqueued for peer %s which has no matching subscription", uid, p.Topic, p.Node, d, peer).With("events", d)
				}
				c.Count("forward_not_needed", 1)
			}
		}
	}

	// ---- deliveries ----
	sharedCopies := map[string]int{}
	for ni := range r.clients {
		for _, cl := range r.clients[ni] {
			if !cl.alive {
				continue
			}
			want, _ := expectedDeliveries(r.s.Mode, cl.subs, cl.idx, cp, uid)
			var got []delivery
			for _, rc := range cl.cl.Take(func(pk *mw.Packet) bool { return pk.Type == mw.PUBLISH && !isSentinel(pk) }) {
				pk := rc.P
				id := ""
				if pk.Props != nil {
					id = string(pk.Props.CorrelationData)
				}
				if id != uid {
					return ev.Violf("C17.stray", "client %s received %s (uid %q) while publish %s was being checked", cl.cl.ID, pk, id, uid)
				}
				if pk.Dup {
					return ev.Violf("C17.dup-flag", "client %s received %s with DUP=1", cl.cl.ID, pk)
				}
				wantPayload := uid
				if p.Kind == "clear" {
					wantPayload = ""
				}
				if string(pk.Payload) != wantPayload || pk.Topic != p.Topic {
					return ev.Violf("C17.content", "client %s received %s, expected topic %q payload %q", cl.cl.ID, pk, p.Topic, wantPayload)
				}
				if g, w := appProps(pk.Props), appProps(sentProps); g != w {
					where := "on the origin node"
					if ni != p.Node {
						where = "on a peer node"
					}
					return ev.Violf("C17.properties", "client %s %s received %s with application properties {%s}, published with {%s}", cl.cl.ID, where, uid, g, w).With("where", where, "props", p.Props)
				}
				ids := pk.Props.SubscriptionIDs
				if len(ids) == 0 {
					return ev.Violf("C17.no-subid", "client %s received %s without a subscription identifier", cl.cl.ID, pk)
				}
				if sub, ok := r.subByID[ids[0]]; ok && sub.spec.Group != "" {
					if len(ids) != 1 || sub.node != ni || sub.client != cl.idx {
						return ev.Violf("C17.shared-attribution", "client %s received shared copy %s attributed to n%dc%d", cl.cl.ID, pk, sub.node, sub.client)
					}
					cur, live := cl.subs[sub.spec.full()]
					if !live || cur.ID != ids[0] || !topicref.Match(p.Topic, sub.spec.Filter) {
						return ev.Violf("C17.shared-not-member", "client %s received %s through shared subscription id %d which is not live / does not match", cl.cl.ID, pk, ids[0])
					}
					if pk.QoS != minB(p.QoS, sub.spec.QoS) {
						return ev.Violf("C17.shared-qos", "shared copy of %s at QoS %d, expected min(%d,%d)", uid, pk.QoS, p.QoS, sub.spec.QoS)
					}
					if pk.Retain {
						return ev.Violf("C17.shared-retain", "shared copy of %s carries RETAIN=1", uid)
					}
					sharedCopies[sub.spec.full()]++
					continue
				}
				got = append(got, delivery{UID: uid, QoS: pk.QoS, Retain: pk.Retain, SubIDs: ids})
			}
			gk, wk := sortedKeys(got, true), sortedKeys(want, true)
			if !eqStrs(gk, wk) {
				where := "on the origin node"
				if ni != p.Node {
					where = "on a peer node"
				}
				return ev.Violf("C17.nonshared-delivery", "publish %s (topic %q qos %d %s) from node %d: client %s %s received %v, a local subscriber would receive %v", uid, p.Topic, p.QoS, p.Kind, p.Node, cl.cl.ID, where, gk, wk).
					With("where", where, "kind", p.Kind, "got", len(gk), "want", len(wk))
			}
			c.Count("client_checks", 1)
		}
	}
	var gnames []string
	for g := range groups {
		gnames = append(gnames, g)
	}
	for g := range sharedCopies {
		if _, ok := groups[g]; !ok {
			gnames = append(gnames, g)
		}
	}
	sort.Strings(gnames)
	for _, g := range gnames {
		n := sharedCopies[g]
		ms := groups[g]
		memberNodes := map[int]bool{}
		for _, m := range ms {
			memberNodes[m.node] = true
		}
		if n == 1 {
			c.Count("group_exactly_one", 1)
			continue
		}
		desc := fmt.Sprintf("publish %s (topic %q qos %d %s) from node %d: %d copies delivered to share group %q (members on nodes %v), expected exactly 1", uid, p.Topic, p.QoS, p.Kind, p.Node, n, g, keysInt(memberNodes))
		// F-fed-share-retained-fanout: a retained publish is sent to every peer and each peer
		// (and the origin) delivers it to one of its own members of the group.
		if retain && len(memberNodes) >= 2 && n == len(memberNodes) && ev.KF("F-fed-share-retained-fanout") {
			c.Excluded("F-fed-share-retained-fanout")
			continue
		}
		// forwardedFor: peers (not the origin) that can get a message event for another reason than
		// this group: a matching non-shared subscription, or a member of another matching group.
		otherReason := func(ni int) bool {
			if nonShared[ni] {
				return true
			}
			for og := range sharedOn[ni] {
				if og != g {
					return true
				}
			}
			return false
		}
		// F-fed-share-double: a peer that gets the message because of a non-shared match (or for
		// another group) delivers it to its members of this group as well, although the group's
		// copy was already given to another node.
		if !retain && n > 1 && ev.KF("F-fed-share-double") {
			extra := 0 // peers holding a member and another reason to get the message
			exact := true
			for ni := range r.cl.Nodes {
				if ni != p.Node && memberNodes[ni] && otherReason(ni) {
					extra++
					if !nonShared[ni] {
						exact = false // depends on the other group's round-robin choice
					}
				}
			}
			if extra >= 1 && n <= extra+1 && (!exact || n >= extra) {
				c.Excluded("F-fed-share-double")
				continue
			}
		}
		// F-fed-share-starved: when another matching group's copy goes to a remote node the origin
		// suppresses local shared delivery altogether, so a group whose round-robin choice was the
		// origin itself gets nothing.
		if !retain && n == 0 && memberNodes[p.Node] && ev.KF("F-fed-share-starved") {
			otherRemote := false
			for og, oms := range groups {
				if og == g {
					continue
				}
				for _, m := range oms {
					if m.node != p.Node {
						otherRemote = true
					}
				}
			}
			if otherRemote {
				c.Excluded("F-fed-share-starved")
				continue
			}
		}
		return ev.Violf("C17.share-exactly-one", "%s", desc).With("copies", n, "kind", p.Kind, "member_nodes", len(memberNodes))
	}

	// ---- retained stores ----
	if retain {
		for ni, n := range r.cl.Nodes {
			m := n.Srv.RetainedService().GetRetainedMessage(p.Topic)
			switch p.Kind {
			case "retain":
				if m == nil || string(m.Payload) != uid || !m.Retained || m.QoS != p.QoS {
					return ev.Violf("C17.retained-store", "after retained publish %s (topic %q) on node %d: node %d holds %s", uid, p.Topic, p.Node, ni, msgStr(m)).With("origin", ni == p.Node)
				}
			case "clear":
				if m != nil {
					// F-fed-retained-clear: a receiving node stores the empty message instead of removing the entry
					if ni != p.Node && len(m.Payload) == 0 && ev.KF("F-fed-retained-clear") {
						c.Excluded("F-fed-retained-clear")
						continue
					}
					return ev.Violf("C17.retained-clear", "after the retained-clear publish %s (topic %q, empty payload) on node %d: node %d still holds %s", uid, p.Topic, p.Node, ni, msgStr(m)).With("origin", ni == p.Node)
				}
			}
		}
		c.Count("retained_store_checks", 1)
	}
	return nil
}

func keysInt(m map[int]bool) []int {
	var out []int
	for k := range m {
		out = append(out, k)
	}
	sort.Ints(out)
	return out
}

func msgStr(m *gmqtt.Message) string {
	if m == nil {
		return "nothing"
	}
	return fmt.Sprintf("{topic %q payload %q qos %d retained %v}", m.Topic, m.Payload, m.QoS, m.Retained)
}

func TestC17Routing(t *testing.T) {
	ev.SetRule("C17", "2-3 in-process federated brokers (full mesh, overlap or onlyonce), two v5 subscriber clients and a publisher client per node; a generated distribution of plain / wildcard / '$' / shared ($share/g/f/a, members on 1-3 nodes, possibly two on one node) subscriptions with unique subscription identifiers; after propagation (queues drained and every node's view equal to the model) publishes from any node (QoS0/1; plain, retained, retained-clear), then subscription changes (subscribe, unsubscribe, session end), propagation, more publishes. Per publish (barrier: publisher ack, origin queues drained, sentinel per node): per-peer message-event counts on the origin (1 for peers with a matching non-shared subscription, 0 for peers without any match, 0/1 for peers with share members only, 1 for every peer when retained), no event enqueued by any other node, every client's copies equal the C01 local model, every share group exactly one copy federation-wide, retained stores of all nodes hold / lack the message. Non-trivial: a non-retained publish needed by a proper non-empty subset of the peers, or matching a share group spanning >=2 nodes.")
	ev.Run(t, "C17", genC17, runC17)
	waitFedStops(20 * time.Second)
}
