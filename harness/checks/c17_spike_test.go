//go:build verif

package checks

import (
	"fmt"
	"testing"
	"time"

	"verif/fixture"
	mw "verif/mqttwire"
)

func TestC17Spike(t *testing.T) {
	t0 := time.Now()
	cl, err := fixture.StartFedCluster(3, nil)
	if err != nil {
		t.Fatal(err)
	}
	fmt.Println("started", time.Since(t0))
	if err := cl.WaitMesh(15 * time.Second); err != nil {
		t.Fatal(err)
	}
	fmt.Println("mesh", time.Since(t0))
	var clients []*fixture.Client
	for i, n := range cl.Nodes {
		c, ack, err := n.Connect(fixture.ConnectOpts{ID: fmt.Sprintf("n%dc0", i), V: mw.V5, CleanStart: true, AutoAck: true})
		if err != nil || ack.ReasonCode != 0 {
			t.Fatal(err, ack)
		}
		clients = append(clients, c)
		if err := subscribeSentinel(c); err != nil {
			t.Fatal(err)
		}
		if _, err := subscribeOne(c, 1, subSpec{Filter: "f/a", QoS: 1, ID: uint32(i + 1)}); err != nil {
			t.Fatal(err)
		}
	}
	for _, n := range cl.Nodes {
		if err := n.WaitDrained(10 * time.Second); err != nil {
			t.Fatal(err)
		}
	}
	fmt.Println("drained", time.Since(t0))
	for _, n := range cl.Nodes {
		for _, m := range cl.Nodes {
			if m != n {
				fmt.Println(n.Name, "view of", m.Name, n.Fed.VerifFedSubs(m.Name))
			}
		}
		fmt.Println(n.Name, "next", n.NextIDs(), n.Fed.VerifLocalTopics())
	}
	if _, err := clients[0].Publish(&mw.Packet{Topic: "f/a", QoS: 1, PacketID: 9, Payload: []byte("x")}); err != nil {
		t.Fatal(err)
	}
	fmt.Println("n0 next", cl.Nodes[0].NextIDs())
	for i, c := range clients {
		p, err := c.WaitFor(func(p *mw.Packet) bool { return p.Type == mw.PUBLISH && p.Topic == "f/a" }, 5*time.Second)
		fmt.Println(i, p, err)
	}
	t1 := time.Now()
	cl.Stop()
	fmt.Println("stop", time.Since(t1))
}
