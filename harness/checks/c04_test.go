package checks

// C04 — Inbound QoS 2 is exactly-once; every QoS>0 packet gets its matching ack.

import (
	"context"
	"fmt"
	"sort"
	"strings"
	"testing"
	"time"

	"github.com/DrmagicE/gmqtt/server"
	"pgregory.net/rapid"

	"verif/ev"
	"verif/fixture"
	mw "verif/mqttwire"
)

type c04Op struct {
	Op    string `json:"op"` // pub2 retransmit pubrel pub1 reconnect takeover restart
	ID    uint16 `json:"id,omitempty"`
	Clean bool   `json:"clean,omitempty"`
	// takeover: K QoS0 publishes to a slow topic and a QoS2 PUBLISH(id) are written without waiting for anything; a
	// second connection with the publisher's client id takes the session over at once, retransmits the PUBLISH
	// (DUP=1) and completes the flow - while the first connection's packets may still be in the broker's hands
	K int `json:"k,omitempty"`
	// pubrel (v5): the PUBREL carries reason code 0x92 (Packet Identifier not found) - what a publisher sends when it has
	// lost its own state for the identifier. The flow is over all the same: PUBCOMP, identifier free again.
	NotFound bool `json:"code_0x92,omitempty"`
}

type c04Scen struct {
	Backend string  `json:"backend"`
	V       int     `json:"v"`
	Ops     []c04Op `json:"ops"`
	SlowUs  int     `json:"slow_us,omitempty"` // an OnMsgArrived hook takes this long for messages on slow/...
	// Alias (v5): the publisher uses topic alias 1 for "t/x" as a client does: topic name + alias on the first PUBLISH of
	// a connection (a retransmission after a resume included), the alias alone afterwards
	Alias bool `json:"alias,omitempty"`
}

func genC04(backend string) func(t *rapid.T) c04Scen {
	return func(t *rapid.T) c04Scen {
		s := c04Scen{Backend: backend, V: rapid.SampledFrom([]int{3, 4, 5, 5}).Draw(t, "v")}
		n := rapid.IntRange(2, 20).Draw(t, "nops")
		for i := 0; i < n; i++ {
			id := uint16(rapid.IntRange(1, 3).Draw(t, "id"))
			switch k := rapid.IntRange(0, 11).Draw(t, "kind"); {
			case k <= 3:
				s.Ops = append(s.Ops, c04Op{Op: "pub2", ID: id})
			case k <= 5:
				s.Ops = append(s.Ops, c04Op{Op: "retransmit", ID: id})
			case k <= 8:
				s.Ops = append(s.Ops, c04Op{Op: "pubrel", ID: id, NotFound: s.V == 5 && rapid.IntRange(0, 3).Draw(t, "code92") == 0})
			case k == 9:
				s.Ops = append(s.Ops, c04Op{Op: "pub1", ID: uint16(10 + rapid.IntRange(0, 2).Draw(t, "id1"))})
			case k == 10 && rapid.Bool().Draw(t, "tk"):
				s.Ops = append(s.Ops, c04Op{Op: "takeover", ID: id, K: rapid.IntRange(0, 3).Draw(t, "k")})
			case k == 11 && backend == "redis" && rapid.Bool().Draw(t, "restart"):
				// the broker process is replaced by a new one on the same redis (nothing is lost: a clean shutdown)
				s.Ops = append(s.Ops, c04Op{Op: "restart"})
			default:
				s.Ops = append(s.Ops, c04Op{Op: "reconnect", Clean: rapid.IntRange(0, 3).Draw(t, "clean") == 0})
			}
		}
		s.SlowUs = rapid.SampledFrom([]int{0, 300, 3000}).Draw(t, "slow")
		s.Alias = s.V == 5 && rapid.IntRange(0, 2).Draw(t, "alias") == 0
		return s
	}
}

func runC04(s c04Scen, c *ev.Case) *ev.Violation {
	if s.V == 3 {
		c.Label("mqtt31_client")
	}
	cfg := fixture.BaseConfig()
	var b *fixture.Broker
	var err error
	if s.Backend == "redis" {
		rs, cleanup, e := fixture.StartRedis()
		if e != nil {
			return harnessErr("miniredis: %v", e)
		}
		defer cleanup()
		cfg = fixture.WithRedis(cfg, rs.Addr())
		c.Label("backend_redis")
	}
	hooks := &server.Hooks{OnMsgArrived: func(ctx context.Context, cl server.Client, req *server.MsgArrivedRequest) error {
		if s.SlowUs > 0 && req.Message != nil && strings.HasPrefix(req.Message.Topic, "slow/") {
			time.Sleep(time.Duration(s.SlowUs) * time.Microsecond)
		}
		return nil
	}}
	b, err = fixture.Start(fixture.Opts{Config: cfg, Hooks: hooks})
	if err != nil {
		return harnessErr("start broker: %v", err)
	}
	defer func() { b.Stop() }()

	sub, ack, err := b.Connect(fixture.ConnectOpts{ID: "sub", V: mw.V5, CleanStart: true, AutoAck: true})
	if err != nil || ack.ReasonCode != 0 {
		return harnessErr("subscriber connect: %v %v", ack, err)
	}
	defer func() { sub.Kill() }()
	if err := subscribeSentinel(sub); err != nil {
		return harnessErr("%v", err)
	}
	if code, err := subscribeOne(sub, 2, subSpec{Filter: "#", QoS: 2}); err != nil || code != 2 {
		return harnessErr("subscribe #: %v %v", code, err)
	}
	connectP := func(clean bool) (*fixture.Client, *mw.Packet, error) {
		o := fixture.ConnectOpts{ID: "pub", V: ver(s.V), CleanStart: clean}
		if s.V == 5 {
			o.Props = &mw.Props{SessionExpiry: u32p(1000)}
		}
		return b.Connect(o)
	}
	// v3: a session outlives the connection only if the CONNECT had Clean Session 0
	p, ack, err := connectP(s.V == 5)
	if err != nil || ack.ReasonCode != 0 {
		return harnessErr("publisher connect: %v %v", ack, err)
	}
	defer func() { p.Kill() }()
	persistent := true
	useAlias := s.Alias && s.V == 5 && ack.Props != nil && ack.Props.TopicAliasMax != nil && *ack.Props.TopicAliasMax >= 1
	if useAlias {
		c.Label("publisher_uses_topic_alias")
	}
	bound := map[*fixture.Client]bool{} // connections on which alias 1 has been bound to "t/x"
	// tx builds a PUBLISH to "t/x" the way the client would put it on connection cl
	tx := func(cl *fixture.Client, pk *mw.Packet) *mw.Packet {
		pk.Type, pk.Topic = mw.PUBLISH, "t/x"
		if useAlias {
			pk.Props = &mw.Props{TopicAlias: u16p(1)}
			if bound[cl] {
				pk.Topic = ""
				c.Label("publish_with_alias_only")
			}
			bound[cl] = true
		}
		return pk
	}

	var gotEarlier []string         // what the subscriber received before a broker restart
	awaiting := map[uint16]string{} // id -> uid of the message awaiting PUBREL
	var forwarded []string
	uid := 0
	nontrivial := false
	everCompleted := map[uint16]bool{}
	for i, op := range s.Ops {
		c.Logf("step %d: %+v awaiting=%v", i, op, awaiting)
		switch op.Op {
		case "pub2", "retransmit":
			payload, inU := awaiting[op.ID]
			dup := false
			if op.Op == "retransmit" || inU {
				if !inU {
					c.Count("skipped_ops", 1)
					continue
				}
				dup = true
				c.Label("retransmit_before_pubrel")
				nontrivial = true
			} else {
				uid++
				payload = fmt.Sprintf("m%d", uid)
				awaiting[op.ID] = payload
				forwarded = append(forwarded, payload)
				if everCompleted[op.ID] {
					c.Label("id_reuse_after_pubcomp")
					nontrivial = true
				}
			}
			if err := p.Send(tx(p, &mw.Packet{QoS: 2, Dup: dup, PacketID: op.ID, Payload: []byte(payload)})); err != nil {
				return ev.Violf("C04.send", "send failed: %v", err)
			}
			rec, err := p.WaitType(mw.PUBREC, fixture.DefaultWait)
			if err != nil {
				return ev.Violf("C04.pubrec", "QoS2 PUBLISH id=%d (dup=%v) not answered by PUBREC: %v", op.ID, dup, err).With("dup", dup)
			}
			if rec.PacketID != op.ID {
				return ev.Violf("C04.pubrec-id", "PUBREC carries id %d for PUBLISH id %d", rec.PacketID, op.ID)
			}
			if rec.ReasonCode >= 0x80 {
				return ev.Violf("C04.pubrec-code", "PUBREC id %d carries failure code %#x", op.ID, rec.ReasonCode).With("dup", dup)
			}
		case "pubrel":
			rel := &mw.Packet{Type: mw.PUBREL, PacketID: op.ID}
			if op.NotFound && s.V == 5 {
				rel.ReasonCode = 0x92
				c.Label("pubrel_with_reason_code_0x92")
			}
			if err := p.Send(rel); err != nil {
				return ev.Violf("C04.send", "send failed: %v", err)
			}
			comp, err := p.WaitType(mw.PUBCOMP, fixture.DefaultWait)
			if err != nil {
				return ev.Violf("C04.pubcomp", "PUBREL id=%d not answered by PUBCOMP: %v", op.ID, err).With("known_id", awaiting[op.ID] != "")
			}
			if comp.PacketID != op.ID {
				return ev.Violf("C04.pubcomp-id", "PUBCOMP carries id %d for PUBREL id %d", comp.PacketID, op.ID)
			}
			if _, ok := awaiting[op.ID]; ok {
				everCompleted[op.ID] = true
			}
			delete(awaiting, op.ID)
		case "pub1":
			uid++
			payload := fmt.Sprintf("m%d", uid)
			forwarded = append(forwarded, payload)
			if err := p.Send(tx(p, &mw.Packet{QoS: 1, PacketID: op.ID, Payload: []byte(payload)})); err != nil {
				return ev.Violf("C04.send", "send failed: %v", err)
			}
			a, err := p.WaitType(mw.PUBACK, fixture.DefaultWait)
			if err != nil {
				return ev.Violf("C04.puback", "QoS1 PUBLISH id=%d not answered by PUBACK: %v", op.ID, err)
			}
			if a.PacketID != op.ID {
				return ev.Violf("C04.puback-id", "PUBACK carries id %d for PUBLISH id %d", a.PacketID, op.ID)
			}
		case "takeover":
			if _, inU := awaiting[op.ID]; inU || !persistent {
				c.Count("skipped_ops", 1)
				continue
			}
			uid++
			payload := fmt.Sprintf("m%d", uid)
			forwarded = append(forwarded, payload)
			for k := 0; k < op.K; k++ {
				_ = p.Send(&mw.Packet{Type: mw.PUBLISH, Topic: "slow/x", Payload: []byte(fmt.Sprintf("filler-%d-%d", i, k))})
			}
			_ = p.Send(tx(p, &mw.Packet{QoS: 2, PacketID: op.ID, Payload: []byte(payload)}))
			old := p
			np, ack, err := connectP(false)
			if err != nil || ack == nil || ack.ReasonCode != 0 {
				return ev.Violf("C04.reconnect", "take-over CONNECT failed: %v %v", ack, err)
			}
			defer old.Kill()
			p = np
			if !ack.SessionPresent {
				return ev.Violf("C04.session-present", "take-over of a live persistent session with clean=0: Session Present = 0").With("version", s.V)
			}
			if err := p.Send(tx(p, &mw.Packet{QoS: 2, Dup: true, PacketID: op.ID, Payload: []byte(payload)})); err != nil {
				return ev.Violf("C04.send", "send failed: %v", err)
			}
			rec, err := p.WaitType(mw.PUBREC, fixture.DefaultWait)
			if err != nil || rec.PacketID != op.ID || rec.ReasonCode >= 0x80 {
				return ev.Violf("C04.pubrec", "retransmitted QoS2 PUBLISH id=%d after a take-over not answered by a PUBREC for it: %v %v", op.ID, rec, err)
			}
			if err := p.Send(&mw.Packet{Type: mw.PUBREL, PacketID: op.ID}); err != nil {
				return ev.Violf("C04.send", "send failed: %v", err)
			}
			comp, err := p.WaitType(mw.PUBCOMP, fixture.DefaultWait)
			if err != nil || comp.PacketID != op.ID {
				return ev.Violf("C04.pubcomp", "PUBREL id=%d after a take-over not answered by a PUBCOMP for it: %v %v", op.ID, comp, err)
			}
			everCompleted[op.ID] = true
			c.Label("takeover_with_packets_in_flight")
			nontrivial = true
			// whatever of the first connection's packets the broker still held has been handled before this returns
			old.WaitClosed(fixture.DefaultWait)
		case "restart":
			if s.Backend != "redis" || !persistent {
				c.Count("skipped_ops", 1)
				continue
			}
			// what the subscriber has got so far stays part of the record
			if err := sentinelBarrier(b, []*fixture.Client{sub}, fmt.Sprintf("restart%d", i)); err != nil {
				return ev.Violf("C04.barrier", "%v", err)
			}
			for _, r := range sub.Take(func(p *mw.Packet) bool { return p.Type == mw.PUBLISH }) {
				if !isSentinel(r.P) && !strings.HasPrefix(string(r.P.Payload), "filler-") {
					gotEarlier = append(gotEarlier, string(r.P.Payload))
				}
			}
			p.Kill()
			sub.Kill()
			if err := b.Stop(); err != nil {
				return ev.Violf("C04.restart", "Stop: %v", err)
			}
			nb, err := fixture.Start(fixture.Opts{Config: cfg, Hooks: hooks})
			if err != nil {
				return ev.Violf("C04.restart", "the broker does not start again on the same store: %v", err)
			}
			b = nb
			nsub, ack, err := b.Connect(fixture.ConnectOpts{ID: "sub", V: mw.V5, CleanStart: true, AutoAck: true})
			if err != nil || ack.ReasonCode != 0 {
				return harnessErr("subscriber connect: %v %v", ack, err)
			}
			sub = nsub
			if err := subscribeSentinel(sub); err != nil {
				return harnessErr("%v", err)
			}
			if code, err := subscribeOne(sub, 2, subSpec{Filter: "#", QoS: 2}); err != nil || code != 2 {
				return harnessErr("subscribe #: %v %v", code, err)
			}
			np, ack, err := connectP(false)
			if err != nil || ack == nil || ack.ReasonCode != 0 {
				return ev.Violf("C04.reconnect", "reconnect after the restart failed: %v %v", ack, err)
			}
			p = np
			if !ack.SessionPresent {
				return ev.Violf("C04.session-present", "reconnect with clean=0 after a broker restart on the same redis: Session Present = 0").With("version", s.V)
			}
			c.Label("broker_restart")
			if len(awaiting) > 0 {
				c.Label("restart_between_publish_and_pubrel")
				nontrivial = true
			}
		case "reconnect":
			p.Kill()
			np, ack, err := connectP(op.Clean)
			if err != nil || ack == nil || ack.ReasonCode != 0 {
				return ev.Violf("C04.reconnect", "reconnect (clean=%v) failed: %v %v", op.Clean, ack, err)
			}
			p = np
			wasPersistent := persistent
			persistent = s.V == 5 || !op.Clean
			if op.Clean {
				awaiting = map[uint16]string{}
				c.Label("reconnect_clean")
			} else if !wasPersistent {
				// the previous v3 connection had Clean Session 1: nothing to resume
				awaiting = map[uint16]string{}
				if ack.SessionPresent {
					return ev.Violf("C04.session-present", "Session Present = 1 although the previous connection had Clean Session 1")
				}
			} else {
				if !ack.SessionPresent {
					return ev.Violf("C04.session-present", "reconnect with clean=0 right after an abrupt close: Session Present = 0").With("version", s.V)
				}
				c.Label("reconnect_resume")
				if len(awaiting) > 0 {
					c.Label("reconnect_between_publish_and_pubrel")
					nontrivial = true
				}
			}
		}
		// nothing else may arrive on the publisher connection
		if extra := p.Take(nil); len(extra) != 0 {
			return ev.Violf("C04.extra-ack", "unexpected packet(s) on the publisher connection after step %d: %s", i, extra[0].P)
		}
	}
	if err := p.Ping(fixture.DefaultWait); err != nil {
		return ev.Violf("C04.ping", "publisher connection dead at the end: %v", err)
	}
	if err := sentinelBarrier(b, []*fixture.Client{sub}, "end"); err != nil {
		return ev.Violf("C04.barrier", "%v", err)
	}
	got := append([]string(nil), gotEarlier...)
	for _, r := range sub.Take(func(p *mw.Packet) bool { return p.Type == mw.PUBLISH }) {
		if !isSentinel(r.P) && !strings.HasPrefix(string(r.P.Payload), "filler-") {
			got = append(got, string(r.P.Payload))
			if r.P.Topic != "t/x" {
				return ev.Violf("C04.topic", "message %s was published to \"t/x\" and forwarded under topic %q", r.P.Payload, r.P.Topic)
			}
		}
	}
	sort.Strings(got)
	want := append([]string(nil), forwarded...)
	sort.Strings(want)
	if !eqStrs(got, want) {
		return ev.Violf("C04.exactly-once", "subscriber received %v, model forwarded %v", got, want).With("version", s.V, "backend", s.Backend)
	}
	if nontrivial {
		c.NonTrivial()
	}
	return nil
}

func TestC04Mem(t *testing.T) {
	ev.SetRule("C04", "rapid-generated publisher scripts (2-20 steps over PUBLISH QoS2 with ids 1..3 / retransmission with DUP=1 / PUBREL / PUBLISH QoS1 / abrupt close + reconnect with Clean Start 0|1; v3.1.1 and v5; memory and redis unack store); every step waits for its ack (exactly one PUBREC/PUBCOMP/PUBACK with the same id, nothing else); an independent QoS2 subscriber of '#' must receive exactly the multiset the model forwarded (barrier: PINGRESP + API sentinel). Non-trivial: a retransmission before PUBREL, id reuse after PUBCOMP, or a resume between PUBLISH and PUBREL; distinct by scenario digest.")
	ev.Run(t, "C04", genC04("mem"), runC04)
}

func TestC04Redis(t *testing.T) {
	ev.RunN(t, "C04", 0.25, genC04("redis"), runC04)
}
