package checks

// C06 sub-check 4, message part: gmqtt.Message.TotalBytes(version) against the PUBLISH
// that MessageToPublish + Pack produce, and against an independent size formula.

import (
	"bytes"
	"testing"

	"github.com/DrmagicE/gmqtt"
	"github.com/DrmagicE/gmqtt/pkg/packets"
	"pgregory.net/rapid"

	"verif/ev"
	mw "verif/mqttwire"
)

type c06MsgScen struct {
	V             int           `json:"v"`
	QoS           byte          `json:"qos"`
	Dup           bool          `json:"dup,omitempty"`
	Retain        bool          `json:"retain,omitempty"`
	PacketID      uint16        `json:"id,omitempty"`
	Topic         string        `json:"topic"`
	ContentType   string        `json:"ct,omitempty"`
	ResponseTopic string        `json:"rt,omitempty"`
	Corr          []byte        `json:"corr,omitempty"`
	CorrEmpty     bool          `json:"corr_empty,omitempty"` // non-nil, zero length CorrelationData
	Expiry        uint32        `json:"expiry,omitempty"`
	PayloadFormat byte          `json:"pf,omitempty"`
	SubIDs        []uint32      `json:"subids,omitempty"`
	User          []mw.UserProp `json:"user,omitempty"`
	PadLen        int           `json:"pad"` // >= 0: one more user property ("", PadLen bytes)
	PayloadLen    int           `json:"payload_len"`
	Seed          byte          `json:"seed,omitempty"`
	Target        string        `json:"target,omitempty"`
}

// c06MsgRef is the PUBLISH the message stands for, in the reference model: the v5
// properties are present exactly when the Message field is not its zero value
// (documented behaviour of MessageToPublish).
func c06MsgRef(s c06MsgScen, withPayload bool) *mw.Packet {
	p := &mw.Packet{Type: mw.PUBLISH, QoS: s.QoS, Dup: s.Dup, Retain: s.Retain, Topic: s.Topic}
	if s.QoS > 0 {
		p.PacketID = s.PacketID
	}
	if withPayload {
		p.Payload = c06Pattern(s.PayloadLen, s.Seed)
	}
	if s.V != 5 {
		return p
	}
	pr := &mw.Props{}
	if s.PayloadFormat == 1 {
		pr.PayloadFormat = u8p(1)
	}
	if s.ContentType != "" {
		pr.ContentType = strp(s.ContentType)
	}
	if s.ResponseTopic != "" {
		pr.ResponseTopic = strp(s.ResponseTopic)
	}
	// gmqtt.Message has no presence bit: a zero length CorrelationData means "absent" (MessageFromPublish,
	// TotalBytes and - since the fix for F-c06-msgsize-empty-corrdata - MessageToPublish agree on that).
	// CorrEmpty still feeds a non-nil empty slice into the code under test.
	if len(s.Corr) > 0 {
		pr.HasCorrelationData, pr.CorrelationData = true, s.Corr
	}
	if s.Expiry != 0 {
		pr.MessageExpiry = u32p(s.Expiry)
	}
	pr.SubscriptionIDs = s.SubIDs
	pr.User = append([]mw.UserProp(nil), s.User...)
	if s.PadLen >= 0 {
		pr.User = append(pr.User, mw.UserProp{K: "", V: string(c06Pattern(s.PadLen, 'p'))})
	}
	if !pr.IsEmpty() {
		p.Props = pr
	}
	return p
}

func c06Pattern(n int, seed byte) []byte {
	if n <= 0 {
		return nil
	}
	b := make([]byte, n)
	for i := range b {
		b[i] = 'a' + (seed+byte(i))%26
	}
	return b
}

func c06GenMsg(t *rapid.T) c06MsgScen {
	s := c06MsgScen{V: rapid.SampledFrom([]int{3, 4, 5, 5, 5, 5}).Draw(t, "v"), PadLen: -1}
	s.QoS = byte(rapid.IntRange(0, 2).Draw(t, "qos"))
	s.Retain = rapid.Bool().Draw(t, "retain")
	if s.QoS > 0 {
		s.Dup = rapid.Bool().Draw(t, "dup")
		s.PacketID = uint16(rapid.IntRange(1, 65535).Draw(t, "id"))
	}
	s.Topic = mw.GenTopicName().Draw(t, "topic")
	s.Seed = rapid.Byte().Draw(t, "seed")
	mode := rapid.IntRange(0, 5).Draw(t, "propMode") // 0 none, 5 all
	want := func(l string) bool {
		if mode == 0 {
			return false
		}
		return mode == 5 || rapid.IntRange(0, 2).Draw(t, l) == 0
	}
	if want("ct?") {
		s.ContentType = mw.GenUTF8String().Draw(t, "ct")
	}
	if want("rt?") {
		s.ResponseTopic = mw.GenTopicName().Draw(t, "rt")
	}
	if want("corr?") {
		s.Corr = mw.GenBytes(false).Draw(t, "corr")
		if len(s.Corr) == 0 {
			s.Corr, s.CorrEmpty = nil, true
		}
	}
	if want("exp?") {
		s.Expiry = rapid.Uint32Min(1).Draw(t, "exp")
	}
	if want("pf?") {
		s.PayloadFormat = 1
	}
	if want("sub?") {
		s.SubIDs = rapid.SliceOfN(rapid.SampledFrom([]uint32{1, 127, 128, 16383, 16384, 2097151, 2097152, mw.MaxVarInt, 5}), 1, 3).Draw(t, "subids")
	}
	if want("user?") {
		n := rapid.IntRange(1, 3).Draw(t, "nUser")
		for i := 0; i < n; i++ {
			s.User = append(s.User, mw.UserProp{K: mw.GenUTF8String().Draw(t, "k"), V: mw.GenUTF8String().Draw(t, "v")})
		}
	}
	// pad the property length onto a boundary
	if s.V == 5 && rapid.IntRange(0, 2).Draw(t, "padProps") == 0 {
		base := mw.PropsLen(c06MsgRef(s, false).Props, mw.PUBLISH)
		center := rapid.SampledFrom([]int{128, 128, 16384}).Draw(t, "propCenter")
		target := center + rapid.IntRange(-3, 3).Draw(t, "propDelta")
		if pad := target - base - 5; pad >= 0 && pad <= 65535 {
			s.PadLen = pad
			s.Target = "props"
		}
	}
	// choose the payload length so that the remaining length lands on a boundary
	ref := c06MsgRef(s, false)
	enc, err := mw.Encode(ref, mw.Version(s.V))
	if err != nil {
		t.Fatalf("@@HARNESS-ERROR %v", err)
	}
	baseRL := c06ParseHdr(enc).rl
	center := rapid.SampledFrom([]int{128, 128, 128, 16384, 16384, 0}).Draw(t, "rlCenter")
	if rapid.IntRange(0, 299).Draw(t, "big") == 137 { // rare (rapid favours the bounds of a range, not its middle)
		center = 2097152
	}
	if center == 0 {
		s.PayloadLen = rapid.IntRange(0, 64).Draw(t, "plen")
	} else {
		target := center + rapid.IntRange(-4, 4).Draw(t, "rlDelta")
		if target >= baseRL {
			s.PayloadLen = target - baseRL
			s.Target += "rl"
		} else {
			s.PayloadLen = rapid.IntRange(0, 8).Draw(t, "plen")
		}
	}
	return s
}

func c06RunMsg(s c06MsgScen, c *ev.Case) *ev.Violation {
	v := byte(s.V)
	msg := &gmqtt.Message{Dup: s.Dup, QoS: s.QoS, Retained: s.Retain, Topic: s.Topic, PacketID: s.PacketID,
		Payload: c06Pattern(s.PayloadLen, s.Seed), ContentType: s.ContentType, MessageExpiry: s.Expiry,
		PayloadFormat: s.PayloadFormat, ResponseTopic: s.ResponseTopic, SubscriptionIdentifier: s.SubIDs}
	if s.CorrEmpty {
		msg.CorrelationData = []byte{}
	} else if len(s.Corr) > 0 {
		msg.CorrelationData = s.Corr
	}
	for _, u := range s.User {
		msg.UserProperties = append(msg.UserProperties, packets.UserProperty{K: []byte(u.K), V: []byte(u.V)})
	}
	if s.PadLen >= 0 {
		msg.UserProperties = append(msg.UserProperties, packets.UserProperty{K: []byte{}, V: c06Pattern(s.PadLen, 'p')})
	}
	ref := c06MsgRef(s, true)
	feats := []any{"version", s.V, "type", "PUBLISH", "field", "message", "props", c06CountProps(ref)}
	want, err := mw.Encode(ref, mw.Version(s.V))
	if err != nil {
		return harnessErr("mqttwire.Encode: %v", err)
	}
	h := c06ParseHdr(want)
	c.Label("msg_rl_bytes_" + string(rune('0'+h.hdrLen-1)))
	if c06CountProps(ref) >= 2 {
		c.NonTrivial()
	}
	total := msg.TotalBytes(v)
	pub := gmqtt.MessageToPublish(msg, v)
	var buf bytes.Buffer
	perr, pan := c06SafePack(pub, &buf)
	if pan != "" {
		return ev.Violf("C06.panic", "Pack panicked: %s", pan).With(feats...)
	}
	if perr != nil {
		return ev.Violf("C06.diff-encode", "Pack of MessageToPublish failed: %v", perr).With(feats...)
	}
	enc := buf.Bytes()
	got, n, derr := mw.Decode(enc, mw.Version(s.V), mw.AnyDir)
	if derr != nil || n != len(enc) || !mw.Equal(got, ref) {
		return ev.Violf("C06.diff-encode", "MessageToPublish+Pack is not the PUBLISH the message stands for (decode error %v)\n want: %s\n got:  %s", derr, ref, got).With(feats...)
	}
	if tb := packets.TotalBytes(pub); int(tb) != len(enc) {
		return ev.Violf("C06.size", "packets.TotalBytes=%d, encoded PUBLISH is %d bytes (%s)", tb, len(enc), ref).With(feats...)
	}
	if len(want) != len(enc) {
		return ev.Violf("C06.size", "reference encoding %d bytes, gmqtt encoding %d bytes (%s)", len(want), len(enc), ref).With(feats...)
	}
	if int(total) != len(enc) {
		if s.CorrEmpty && ev.KF(c06KFCorrEmpty) {
			// recorded wrong outcome: the size of the same PUBLISH without the (empty)
			// Correlation Data property that MessageToPublish+Pack nevertheless emits
			s2 := s
			s2.CorrEmpty = false
			if w2, err := mw.Encode(c06MsgRef(s2, true), mw.Version(s.V)); err == nil && int(total) == len(w2) {
				c.Excluded(c06KFCorrEmpty)
				return nil
			}
		}
		return ev.Violf("C06.size", "Message.TotalBytes(%d)=%d, MessageToPublish+Pack is %d bytes (%s)", s.V, total, len(enc), ref).With(feats...)
	}
	return nil
}

func TestC06MessageSize(t *testing.T) {
	ev.SetRule("C06", c06Rule)
	ev.RunN(t, "C06", 0.5, c06GenMsg, c06RunMsg)
}
