package checks

// C09 — Durable (redis) sessions survive a broker crash at any point.
//
// A generated sequential client history runs against a broker whose persistence is the
// harness RESP server (miniredis), which journals every mutating command. Then, for EVERY
// prefix k of the journal, the store as it was after k commands is materialised, a NEW
// broker is started on it ("restart after a crash between two storage commands") and the
// acknowledged facts that the in-flight step does not touch are checked.

import (
	"fmt"
	"sort"
	"strings"
	"testing"
	"time"

	"github.com/DrmagicE/gmqtt"
	"github.com/DrmagicE/gmqtt/persistence/subscription"
	"pgregory.net/rapid"

	"verif/ev"
	"verif/fixture"
	"verif/miniredis"
	mw "verif/mqttwire"
	"verif/topicref"
)

type c09Op struct {
	Op     string  `json:"op"` // conn sub unsub pub pubhalf hold disc
	Client int     `json:"c,omitempty"`
	Sub    subSpec `json:"sub,omitempty"`
	Topic  string  `json:"t,omitempty"`
	QoS    byte    `json:"q,omitempty"`
	ID     uint16  `json:"id,omitempty"`
}

type c09Scen struct {
	IDs  []string `json:"ids"`
	Vers []int    `json:"vers"`
	Ops  []c09Op  `json:"ops"`
	// LongLived: client 0 (v5) asks for a Session Expiry Interval of 2 s and its connection - which it keeps until
	// the crash - is 2.1 s old before anything else happens: the connection has outlived the expiry interval when
	// the broker dies, and the session must still be there for a client that reconnects right after the restart.
	LongLived bool `json:"long_lived,omitempty"`
	// ScanPage > 0: the redis the restarted broker finds pages its SCAN replies like a real server does - that many keys
	// are examined per call and filtered by MATCH afterwards, so a page can be empty although the cursor is not 0
	ScanPage int `json:"scan_page,omitempty"`
}

const c09ShortExpiry = 2 // seconds

var c09IDPool = []string{"s1", "ub2", "b:3", ":c", "sub:x", "plain", "bus"}
var c09Filters = []string{"t/a", "t/+", "t/#", "$share/g/t/a"}
var c09Topics = []string{"t/a", "t/b"}

func genC09(t *rapid.T) c09Scen {
	var s c09Scen
	n := rapid.IntRange(1, 3).Draw(t, "nclients")
	perm := rapid.Permutation(c09IDPool).Draw(t, "ids")
	for i := 0; i < n; i++ {
		s.IDs = append(s.IDs, perm[i])
		s.Vers = append(s.Vers, rapid.SampledFrom([]int{3, 4, 5, 5}).Draw(t, "v"))
	}
	if s.Vers[0] == 5 && rapid.IntRange(0, 4).Draw(t, "longlived") == 0 {
		s.LongLived = true
	}
	s.ScanPage = rapid.SampledFrom([]int{0, 1, 2, 3, 10}).Draw(t, "scan_page")
	nops := rapid.IntRange(3, 12).Draw(t, "nops")
	s.Ops = append(s.Ops, c09Op{Op: "conn", Client: 0})
	for i := 0; i < nops; i++ {
		cl := rapid.IntRange(0, n-1).Draw(t, "client")
		switch k := rapid.IntRange(0, 19).Draw(t, "kind"); {
		case k <= 2:
			s.Ops = append(s.Ops, c09Op{Op: "conn", Client: cl})
		case k <= 7:
			f := rapid.SampledFrom(c09Filters).Draw(t, "filter")
			g, ff := topicref.SplitShare(f)
			sp := subSpec{Group: g, Filter: ff, QoS: byte(rapid.IntRange(1, 2).Draw(t, "qos"))}
			if s.Vers[cl] == 5 {
				sp.RAP = rapid.Bool().Draw(t, "rap")
				sp.RH = byte(rapid.IntRange(0, 2).Draw(t, "rh"))
				sp.ID = rapid.SampledFrom([]uint32{0, 7, 268435455}).Draw(t, "id")
				if !strings.HasPrefix(f, "$share/") {
					sp.NL = rapid.Bool().Draw(t, "nl")
				}
			} else if strings.HasPrefix(f, "$share/") {
				sp.Group = ""
			}
			s.Ops = append(s.Ops, c09Op{Op: "sub", Client: cl, Sub: sp})
		case k <= 9:
			s.Ops = append(s.Ops, c09Op{Op: "unsub", Client: cl, Sub: subSpec{Filter: rapid.SampledFrom(c09Filters).Draw(t, "filter")}})
		case k <= 14:
			s.Ops = append(s.Ops, c09Op{Op: "pub", Topic: rapid.SampledFrom(c09Topics).Draw(t, "topic"), QoS: byte(rapid.IntRange(1, 2).Draw(t, "qos"))})
		case k == 15:
			s.Ops = append(s.Ops, c09Op{Op: "pubhalf", ID: uint16(rapid.IntRange(1, 3).Draw(t, "id")), Topic: rapid.SampledFrom(c09Topics).Draw(t, "topic")})
		case k <= 17:
			s.Ops = append(s.Ops, c09Op{Op: "hold", Client: cl})
		default:
			s.Ops = append(s.Ops, c09Op{Op: "disc", Client: cl})
		}
	}
	return s
}

// c09State is the acknowledged state after a step.
type c09State struct {
	sessions map[int]bool               // CONNACKed persistent sessions
	subs     map[int]map[string]subSpec // SUBACKed and not UNSUBACKed (full filter -> spec)
	pending  map[int]map[string]bool    // uid acked to its publisher, not acknowledged by the subscriber
	awaiting map[uint16]string          // publisher's QoS2 ids awaiting PUBREL -> uid
	pubSess  bool
}

func (st *c09State) clone() *c09State {
	n := &c09State{sessions: map[int]bool{}, subs: map[int]map[string]subSpec{}, pending: map[int]map[string]bool{}, awaiting: map[uint16]string{}, pubSess: st.pubSess}
	for k, v := range st.sessions {
		n.sessions[k] = v
	}
	for k, v := range st.subs {
		n.subs[k] = map[string]subSpec{}
		for f, s := range v {
			n.subs[k][f] = s
		}
	}
	for k, v := range st.pending {
		n.pending[k] = map[string]bool{}
		for u := range v {
			n.pending[k][u] = true
		}
	}
	for k, v := range st.awaiting {
		n.awaiting[k] = v
	}
	return n
}

type c09Step struct {
	n       int             // journal length after the step
	state   *c09State       // acknowledged state after the step
	touched map[string]bool // aspects the step modifies: "sess:<c>", "subs:<c>", "queue:<c>", "unack"
	desc    string
}

func settleJournal(r *miniredis.Server) int {
	last, stable := r.JournalLen(), 0
	for i := 0; i < 500 && stable < 4; i++ {
		time.Sleep(1500 * time.Microsecond)
		n := r.JournalLen()
		if n == last {
			stable++
		} else {
			last, stable = n, 0
		}
	}
	return last
}

func c09Connect(b *fixture.Broker, id string, v int, clean bool, auto bool, expiry ...uint32) (*fixture.Client, *mw.Packet, error) {
	o := fixture.ConnectOpts{ID: id, V: ver(v), CleanStart: clean, AutoAck: auto}
	if v == 5 {
		o.Props = &mw.Props{SessionExpiry: u32p(3600)}
		if len(expiry) > 0 {
			o.Props.SessionExpiry = u32p(expiry[0])
		}
	}
	return b.Connect(o)
}

func runC09(s c09Scen, c *ev.Case) *ev.Violation {
	for _, v := range s.Vers {
		if v == 3 {
			c.Label("mqtt31_client")
			break
		}
	}
	rs, cleanup, err := fixture.StartRedis()
	if err != nil {
		return harnessErr("miniredis: %v", err)
	}
	defer cleanup()
	cfg := fixture.WithRedis(fixture.BaseConfig(), rs.Addr())
	b, err := fixture.Start(fixture.Opts{Config: cfg})
	if err != nil {
		return harnessErr("start broker on redis: %v", err)
	}
	stopped := false
	defer func() {
		if !stopped {
			b.Stop()
		}
	}()
	n := len(s.IDs)
	cur := make([]*fixture.Client, n)
	online := make([]bool, n)
	holding := make([]bool, n)
	var all []*fixture.Client
	defer func() {
		for _, cl := range all {
			cl.Kill()
		}
	}()
	st := &c09State{sessions: map[int]bool{}, subs: map[int]map[string]subSpec{}, pending: map[int]map[string]bool{}, awaiting: map[uint16]string{}}
	steps := []c09Step{{n: settleJournal(rs), state: st.clone(), touched: map[string]bool{}, desc: "start"}}
	// dedicated publisher with a persistent session
	pubV := 5
	p, ack, err := c09Connect(b, "PUB", pubV, false, true)
	if err != nil || ack.ReasonCode != 0 {
		return harnessErr("publisher connect: %v %v", ack, err)
	}
	all = append(all, p)
	st.pubSess = true
	steps = append(steps, c09Step{n: settleJournal(rs), state: st.clone(), touched: map[string]bool{"sess:PUB": true, "unack": true}, desc: "publisher connect"})
	uid := 0
	pid := uint16(100)
	quiesce := func(cl *fixture.Client) *ev.Violation {
		tag := fmt.Sprintf("q%d", time.Now().UnixNano())
		b.Srv.Publisher().Publish(&gmqtt.Message{Topic: fixture.SentinelTopic(cl.ID), Payload: []byte(tag)})
		if _, err := cl.WaitFor(func(p *mw.Packet) bool { return p.Type == mw.PUBLISH && string(p.Payload) == tag }, fixture.DefaultWait); err != nil {
			return harnessErr("quiesce %s: %v", cl.ID, err)
		}
		for k := 0; k < 3; k++ {
			if err := cl.Ping(fixture.DefaultWait); err != nil {
				return harnessErr("quiesce ping %s: %v", cl.ID, err)
			}
		}
		return nil
	}
	for i, op := range s.Ops {
		touched := map[string]bool{}
		desc := fmt.Sprintf("%d:%+v", i, op)
		c.Logf("step %s", desc)
		switch op.Op {
		case "conn":
			if online[op.Client] {
				c.Count("skipped_ops", 1)
				continue
			}
			exp := uint32(3600)
			if s.LongLived && op.Client == 0 {
				exp = c09ShortExpiry
			}
			cl, ack, err := c09Connect(b, s.IDs[op.Client], s.Vers[op.Client], false, !holding[op.Client], exp)
			if err != nil || ack.ReasonCode != 0 {
				return ev.Violf("C09.connect", "connect %q on the redis backend failed: %v %v", s.IDs[op.Client], ack, err)
			}
			if s.LongLived && op.Client == 0 {
				c.Label("connection_outlives_session_expiry")
				time.Sleep(c09ShortExpiry*time.Second + 100*time.Millisecond)
			}
			all = append(all, cl)
			cur[op.Client], online[op.Client] = cl, true
			if st.sessions[op.Client] && !ack.SessionPresent {
				return ev.Violf("C09.live-session-present", "reconnect of %q with clean=0 on the live broker: Session Present 0", s.IDs[op.Client])
			}
			if !st.sessions[op.Client] {
				if err := subscribeSentinel(cl); err != nil {
					return harnessErr("%v", err)
				}
				st.subs[op.Client] = map[string]subSpec{fixture.SentinelTopic(cl.ID): {Filter: fixture.SentinelTopic(cl.ID)}}
				st.pending[op.Client] = map[string]bool{}
			}
			if st.sessions[op.Client] && !holding[op.Client] {
				// the resumed, promptly acknowledging client drains what was pending
				if v := quiesce(cl); v != nil {
					return v
				}
				st.pending[op.Client] = map[string]bool{}
			}
			if !st.sessions[op.Client] {
				// first CONNECT: the session and its sentinel subscription come into being during this step
				touched["sess:"+fmt.Sprint(op.Client)], touched["subs:"+fmt.Sprint(op.Client)] = true, true
			} else {
				// a resume changes neither the existence of the (long acknowledged) session nor its subscriptions: a
				// crash anywhere inside this step must leave both intact
				c.Label("resume_step")
			}
			st.sessions[op.Client] = true
			touched["queue:"+fmt.Sprint(op.Client)] = true
		case "sub", "unsub":
			if !online[op.Client] {
				c.Count("skipped_ops", 1)
				continue
			}
			pid++
			if op.Op == "sub" {
				code, err := subscribeOne(cur[op.Client], pid, op.Sub)
				if err != nil || code != op.Sub.QoS {
					return ev.Violf("C09.suback", "subscribe %q: %v %v", op.Sub.full(), code, err)
				}
				sp := op.Sub
				if s.Vers[op.Client] != 5 {
					sp.NL, sp.RAP, sp.RH, sp.ID = false, false, 0, 0
				}
				st.subs[op.Client][sp.full()] = sp
			} else {
				if _, err := cur[op.Client].Unsubscribe(pid, op.Sub.Filter); err != nil {
					return ev.Violf("C09.unsuback", "%v", err)
				}
				if _, ok := st.subs[op.Client][op.Sub.Filter]; ok {
					c.Label("unsubscribe_existing")
				}
				delete(st.subs[op.Client], op.Sub.Filter)
			}
			touched["subs:"+fmt.Sprint(op.Client)] = true
		case "pub":
			uid++
			u := fmt.Sprintf("m%03d", uid)
			pid++
			if _, err := p.Publish(&mw.Packet{Topic: op.Topic, QoS: op.QoS, PacketID: pid, Payload: []byte(u)}); err != nil {
				return ev.Violf("C09.ack", "publish not acknowledged: %v", err)
			}
			// who gets it: every session with a matching non-shared subscription; a shared group of one or more -> one of them (not modelled: skipped)
			for ci := 0; ci < n; ci++ {
				if !st.sessions[ci] {
					continue
				}
				exp, _ := expectedDeliveries("overlap", st.subs[ci], ci, c01Pub{By: -2, Topic: op.Topic, QoS: op.QoS}, u)
				for _, sp := range st.subs[ci] {
					if sp.Group != "" && topicref.Match(op.Topic, sp.Filter) {
						touched["queue:"+fmt.Sprint(ci)] = true // may or may not be the chosen member
						if online[ci] && !holding[ci] {
							if v := quiesce(cur[ci]); v != nil {
								return v
							}
						}
					}
				}
				if len(exp) == 0 {
					continue
				}
				touched["queue:"+fmt.Sprint(ci)] = true
				if online[ci] && !holding[ci] {
					if v := quiesce(cur[ci]); v != nil {
						return v
					}
				} else {
					st.pending[ci][u] = true
					c.Label("pending_message")
				}
			}
			touched["unack"] = true
		case "pubhalf":
			if _, used := st.awaiting[op.ID]; used {
				c.Count("skipped_ops", 1)
				continue
			}
			uid++
			u := fmt.Sprintf("h%03d", uid)
			if err := p.Send(&mw.Packet{Type: mw.PUBLISH, Topic: op.Topic, QoS: 2, PacketID: op.ID, Payload: []byte(u)}); err != nil {
				return harnessErr("send: %v", err)
			}
			if _, err := p.WaitAck(mw.PUBREC, op.ID, fixture.DefaultWait); err != nil {
				return ev.Violf("C09.ack", "QoS2 publish not acknowledged: %v", err)
			}
			st.awaiting[op.ID] = u
			touched["unack"] = true
			for ci := 0; ci < n; ci++ {
				if !st.sessions[ci] {
					continue
				}
				exp, _ := expectedDeliveries("overlap", st.subs[ci], ci, c01Pub{By: -2, Topic: op.Topic, QoS: 2}, u)
				if len(exp) == 0 {
					continue
				}
				touched["queue:"+fmt.Sprint(ci)] = true
				if online[ci] && !holding[ci] {
					if v := quiesce(cur[ci]); v != nil {
						return v
					}
				} else {
					st.pending[ci][u] = true
				}
			}
			c.Label("qos2_awaiting_pubrel")
		case "hold":
			if holding[op.Client] {
				c.Count("skipped_ops", 1)
				continue
			}
			holding[op.Client] = true
			if online[op.Client] {
				if v := quiesce(cur[op.Client]); v != nil {
					return v
				}
				cur[op.Client].AutoAck = false
			}
			c.Label("holding_subscriber")
		case "disc":
			if !online[op.Client] || (s.LongLived && op.Client == 0) {
				c.Count("skipped_ops", 1)
				continue
			}
			if !holding[op.Client] {
				if v := quiesce(cur[op.Client]); v != nil {
					return v
				}
			}
			cur[op.Client].Kill()
			if !waitClientGone(b, s.IDs[op.Client]) {
				return harnessErr("client still registered")
			}
			online[op.Client] = false
			touched["sess:"+fmt.Sprint(op.Client)], touched["queue:"+fmt.Sprint(op.Client)] = true, true
		}
		steps = append(steps, c09Step{n: settleJournal(rs), state: st.clone(), touched: touched, desc: desc})
	}
	journal := rs.Journal()
	// stop the original broker: from here on only materialised prefixes are used
	for _, cl := range all {
		cl.Kill()
	}
	b.Stop()
	stopped = true
	c.Count("journal_commands", len(journal))

	// ---- crash-point enumeration ----
	stride := 1
	for k := 0; k <= len(journal); k += stride {
		// last completed step and the step in flight
		si := 0
		for j := range steps {
			if steps[j].n <= k {
				si = j
			}
		}
		state := steps[si].state
		inflight := map[string]bool{}
		if si+1 < len(steps) && k > steps[si].n {
			inflight = steps[si+1].touched
			// a prefix strictly inside one operation's command group
			if k < steps[si+1].n {
				c.Count("prefixes_inside_a_step", 1)
				if len(state.sessions) > 0 {
					c.NonTrivial()
				}
			}
		}
		if v := c09CheckPrefix(s, journal, k, state, inflight, c); v != nil {
			cmd := "<end>"
			if k < len(journal) {
				cmd = journal[k].String()
			}
			return v.With("prefix", k, "journal_len", len(journal), "after_step", steps[si].desc, "next_cmd", cmd)
		}
		c.Count("prefixes_checked", 1)
	}
	return nil
}

func c09CheckPrefix(s c09Scen, journal []miniredis.Cmd, k int, state *c09State, inflight map[string]bool, c *ev.Case) *ev.Violation {
	_ = k
	r2 := miniredis.Materialize(journal, k)
	if s.ScanPage > 0 {
		r2.SetScanPageSize(s.ScanPage)
		c.Label("scan_paged")
	}
	if _, err := r2.Start(); err != nil {
		return harnessErr("materialise: %v", err)
	}
	defer r2.Close()
	started := time.Now()
	b2, err := fixture.Start(fixture.Opts{Config: fixture.WithRedis(fixture.BaseConfig(), r2.Addr())})
	if err != nil {
		return ev.Violf("C09.startup", "broker does not start on the store state after %d of %d storage commands: %v", k, len(journal), err)
	}
	defer b2.Stop()
	var ids []int
	for ci := range state.sessions {
		ids = append(ids, ci)
	}
	sort.Ints(ids)
	// (2) sessions and (3) subscriptions
	for _, ci := range ids {
		id := s.IDs[ci]
		if !inflight["sess:"+fmt.Sprint(ci)] {
			sess, err := b2.Srv.ClientService().GetSession(id)
			if err != nil || sess == nil || sess.ClientID != id {
				return ev.Violf("C09.session-lost", "session %q was acknowledged before the crash but is not there after restart (got %+v, err %v)", id, sess, err).With("client_id", id)
			}
		}
		if !inflight["subs:"+fmt.Sprint(ci)] {
			var got []string
			b2.Srv.SubscriptionService().Iterate(func(clientID string, sub *gmqtt.Subscription) bool {
				got = append(got, fmt.Sprintf("%+v", specOf(sub)))
				return true
			}, subscription.IterationOptions{Type: subscription.TypeAll, ClientID: id})
			var want []string
			for _, sp := range state.subs[ci] {
				want = append(want, fmt.Sprintf("%+v", sp))
			}
			sort.Strings(got)
			sort.Strings(want)
			if !eqStrs(got, want) {
				return ev.Violf("C09.subscriptions", "client %q after restart has subscriptions %v, acknowledged before the crash: %v", id, got, want).With("client_id", id)
			}
		}
	}
	// (5) QoS2 ids awaiting PUBREL are still duplicates; (4) pending messages are redelivered
	var witness *fixture.Client
	if len(state.awaiting) > 0 && !inflight["unack"] && !inflight["sess:PUB"] && state.pubSess {
		w, ack, err := b2.Connect(fixture.ConnectOpts{ID: "fresh-witness", V: mw.V5, CleanStart: true, AutoAck: true})
		if err != nil || ack.ReasonCode != 0 {
			return ev.Violf("C09.connect-after-restart", "fresh client cannot connect after restart: %v %v", ack, err)
		}
		defer w.Kill()
		witness = w
		if err := subscribeSentinel(w); err != nil {
			return harnessErr("%v", err)
		}
		if _, err := subscribeOne(w, 2, subSpec{Filter: "t/#", QoS: 2}); err != nil {
			return harnessErr("%v", err)
		}
		p2, ack, err := c09Connect(b2, "PUB", 5, false, true)
		if err != nil || ack.ReasonCode != 0 {
			return ev.Violf("C09.connect-after-restart", "publisher cannot reconnect after restart: %v %v", ack, err)
		}
		defer p2.Kill()
		if !ack.SessionPresent {
			return ev.Violf("C09.session-present", "publisher session acknowledged before the crash, Session Present 0 after restart").With("client_id", "PUB")
		}
		var idsAw []int
		for id := range state.awaiting {
			idsAw = append(idsAw, int(id))
		}
		sort.Ints(idsAw)
		// Two ways a resumed publisher can continue a flow that awaited PUBREL, alternating over the prefixes:
		//  A  it retransmits the PUBLISH (DUP): must not be forwarded again;
		//  B  it only sends PUBREL: PUBCOMP completes the flow, and a NEW message that reuses the id must be forwarded.
		variantB := k%2 == 1
		fresh := map[string]bool{}
		for _, id := range idsAw {
			u := state.awaiting[uint16(id)]
			if !variantB {
				if err := p2.Send(&mw.Packet{Type: mw.PUBLISH, Topic: "t/a", QoS: 2, Dup: true, PacketID: uint16(id), Payload: []byte(u)}); err != nil {
					return harnessErr("send: %v", err)
				}
				if _, err := p2.WaitAck(mw.PUBREC, uint16(id), fixture.DefaultWait); err != nil {
					return ev.Violf("C09.ack", "retransmitted QoS2 PUBLISH not acknowledged after restart: %v", err)
				}
				continue
			}
			if err := p2.Send(&mw.Packet{Type: mw.PUBREL, PacketID: uint16(id)}); err != nil {
				return harnessErr("send: %v", err)
			}
			if _, err := p2.WaitAck(mw.PUBCOMP, uint16(id), fixture.DefaultWait); err != nil {
				return ev.Violf("C09.ack", "PUBREL for an id awaiting PUBREL before the crash not answered after restart: %v", err)
			}
			nu := fmt.Sprintf("new-%d", id)
			fresh[nu] = true
			if _, err := p2.Publish(&mw.Packet{Topic: "t/a", QoS: 2, PacketID: uint16(id), Payload: []byte(nu)}); err != nil {
				return ev.Violf("C09.ack", "new QoS2 PUBLISH reusing a completed id not acknowledged after restart: %v", err)
			}
		}
		if err := p2.Ping(fixture.DefaultWait); err != nil {
			return harnessErr("ping: %v", err)
		}
		if err := sentinelBarrier(b2, []*fixture.Client{witness}, "aw"); err != nil {
			return harnessErr("%v", err)
		}
		for _, r := range witness.All() {
			if r.P.Type == mw.PUBLISH && !isSentinel(r.P) {
				if fresh[string(r.P.Payload)] {
					delete(fresh, string(r.P.Payload))
					continue
				}
				return ev.Violf("C09.qos2-duplicate", "QoS2 packet id awaiting PUBREL before the crash was forwarded again after restart: %s", r.P).With("client_id", "PUB")
			}
		}
		if len(fresh) > 0 {
			return ev.Violf("C09.qos2-id-stuck", "after restart the flow awaiting PUBREL was completed (PUBREL/PUBCOMP), but a new QoS2 message reusing the packet id was acknowledged and never forwarded: %v", keysOf(fresh)).With("client_id", "PUB")
		}
		if variantB {
			c.Count("qos2_pubrel_then_reuse_checks", 1)
		}
		c.Count("qos2_dup_checks", 1)
	}
	for _, ci := range ids {
		id := s.IDs[ci]
		if inflight["sess:"+fmt.Sprint(ci)] {
			continue
		}
		cl, ack, err := c09Connect(b2, id, s.Vers[ci], false, true)
		if err != nil || ack == nil || ack.ReasonCode != 0 {
			return ev.Violf("C09.connect-after-restart", "client %q cannot reconnect after restart: %v %v", id, ack, err).With("client_id", id)
		}
		if s.LongLived && ci == 0 && time.Since(started) > (c09ShortExpiry*time.Second)/2 {
			// the machine is so slow that the 2 s session may really have expired since the restart: not decidable
			c.Count("long_lived_reconnect_too_late", 1)
			cl.Kill()
			continue
		}
		if !ack.SessionPresent {
			cl.Kill()
			return ev.Violf("C09.session-present", "session %q acknowledged before the crash, Session Present 0 after restart", id).With("client_id", id)
		}
		if inflight["subs:"+fmt.Sprint(ci)] || inflight["queue:"+fmt.Sprint(ci)] {
			cl.Kill()
			continue
		}
		if err := sentinelBarrier(b2, []*fixture.Client{cl}, "r"+fmt.Sprint(k)); err != nil {
			cl.Kill()
			return ev.Violf("C09.barrier-after-restart", "client %q: %v", id, err).With("client_id", id)
		}
		got := map[string]bool{}
		for _, r := range cl.All() {
			if r.P.Type == mw.PUBLISH && !isSentinel(r.P) {
				got[string(r.P.Payload)] = true
			}
		}
		cl.Kill()
		for u := range state.pending[ci] {
			if !got[u] {
				return ev.Violf("C09.redelivery", "message %s was acknowledged to its publisher and not acknowledged by %q before the crash, it is not (re)delivered after restart (received %v)", u, id, keysOf(got)).With("client_id", id)
			}
			c.Count("redelivery_checks", 1)
		}
	}
	return nil
}

func keysOf(m map[string]bool) []string {
	var out []string
	for k := range m {
		out = append(out, k)
	}
	sort.Strings(out)
	return out
}

func TestC09Crash(t *testing.T) {
	ev.SetRule("C09", "generated sequential histories (3-12 steps, 1-3 persistent clients whose ids include ones starting with s/u/b/':' , v3.1.1/v5): connect, SUBSCRIBE with all option values (incl. a shared filter), UNSUBSCRIBE, QoS1/2 publishes to online, holding (not acknowledging) and offline subscribers, QoS2 publishes left without PUBREL, disconnects; every step waits for its acknowledgement and for the RESP journal to settle. Then EVERY prefix k=0..len(journal) of the mutating storage commands is materialised into a fresh store, a new broker is started on it and checked: start-up succeeds; every acknowledged session not touched by the in-flight step exists, has exactly the acknowledged subscriptions, reconnects with Session Present 1 and receives every message acked to its publisher and not acked by it; QoS2 ids awaiting PUBREL are not forwarded again. Non-trivial: a prefix strictly inside one operation's command group with >=1 acknowledged session; exhaustive per history, histories distinct by scenario digest.")
	ev.Run(t, "C09", genC09, runC09)
}
