package checks

// C10 under concurrency. The sequential histories of c10_test.go decide the drop ladder; here the queue is used the way
// the broker uses it: one goroutine adds (a publisher delivering under the server lock), one reads and hands out
// packet ids (the poller), one removes what was acknowledged (the read handler) - all at once, on a small queue that
// overflows all the time, with a notifier whose NotifyDropped is slow (a user hook). The property quantifies over all
// interleavings of Add / Read / Remove; the oracle is conservation, which holds for every interleaving:
//
//	every added message is exactly one of {reported dropped, handed out by a read, still queued at the end},
//	never two of these and never silently gone; a message handed out and not removed is replayed, with its id,
//	after Close + Init(clean=false); the counters reported through the notifier equal the final contents.
//
// In-flight expiry is off, so nothing that was handed out may be dropped.

import (
	"fmt"
	"sort"
	"sync"
	"testing"
	"time"

	"github.com/DrmagicE/gmqtt"
	"github.com/DrmagicE/gmqtt/persistence/queue"
	"github.com/DrmagicE/gmqtt/pkg/packets"
	"pgregory.net/rapid"

	"verif/ev"
)

type c10ConcScen struct {
	Backend    string `json:"backend"`
	Cap        int    `json:"cap"`
	N          int    `json:"n"`             // messages added
	QoS0Every  int    `json:"qos0_every"`    // every k-th message is QoS 0 (0 = none)
	DropSlowUs int    `json:"drop_slow_us"`  // NotifyDropped takes this long
	AddGapUs   int    `json:"add_gap_us"`    // pause between two Adds
	AckGapUs   int    `json:"ack_gap_us"`    // pause between a Read and the Remove of what it returned
	AckShare   int    `json:"ack_share_pct"` // share of the handed-out messages that get acknowledged at all
	Batch      int    `json:"batch"`         // ids offered to one Read
}

func genC10Conc(backend string) func(t *rapid.T) c10ConcScen {
	return func(t *rapid.T) c10ConcScen {
		return c10ConcScen{Backend: backend, Cap: rapid.IntRange(1, 5).Draw(t, "cap"), N: rapid.IntRange(5, 60).Draw(t, "n"),
			QoS0Every: rapid.SampledFrom([]int{0, 0, 3, 5}).Draw(t, "qos0"), DropSlowUs: rapid.SampledFrom([]int{0, 50, 300, 1000}).Draw(t, "slow"),
			AddGapUs: rapid.SampledFrom([]int{0, 0, 50, 200}).Draw(t, "addgap"), AckGapUs: rapid.SampledFrom([]int{0, 20, 200}).Draw(t, "ackgap"),
			AckShare: rapid.SampledFrom([]int{100, 100, 70, 30}).Draw(t, "ackshare"), Batch: rapid.IntRange(1, 3).Draw(t, "batch")}
	}
}

// concNotifier records concurrently.
type concNotifier struct {
	mu       sync.Mutex
	dropped  map[int]error
	dropIDs  map[int]packets.PacketID
	queueSum int
	inflSum  int
	slow     time.Duration
}

func (n *concNotifier) NotifyDropped(elem *queue.Elem, err error) {
	if n.slow > 0 {
		time.Sleep(n.slow)
	}
	n.mu.Lock()
	defer n.mu.Unlock()
	if p, ok := elem.MessageWithID.(*queue.Publish); ok {
		u := uidOfPayload(p.Payload)
		if _, twice := n.dropped[u]; twice {
			n.dropped[-u] = fmt.Errorf("uid %d reported dropped twice", u)
		}
		n.dropped[u] = err
		n.dropIDs[u] = elem.ID()
	}
}
func (n *concNotifier) NotifyInflightAdded(delta int) {
	n.mu.Lock()
	n.inflSum += delta
	n.mu.Unlock()
}
func (n *concNotifier) NotifyMsgQueueAdded(delta int) {
	n.mu.Lock()
	n.queueSum += delta
	n.mu.Unlock()
}

func runC10Conc(f queueFactory) func(s c10ConcScen, c *ev.Case) *ev.Violation {
	return func(s c10ConcScen, c *ev.Case) (viol *ev.Violation) {
		nt := &concNotifier{dropped: map[int]error{}, dropIDs: map[int]packets.PacketID{}, slow: time.Duration(s.DropSlowUs) * time.Microsecond}
		st, cleanup, err := f(s.Cap, 0, nt)
		if err != nil {
			return ev.Violf("C10.new", "constructor failed: %v", err)
		}
		defer cleanup()
		initOpts := func(clean bool) *queue.InitOptions {
			return &queue.InitOptions{CleanStart: clean, Version: packets.Version5, ReadBytesLimit: qReadLimit, Notifier: nt}
		}
		if err := st.Init(initOpts(true)); err != nil {
			return ev.Violf("C10.init-error", "Init returned %v", err)
		}
		if rs, err := st.ReadInflight(1); err != nil || len(rs) != 0 {
			return ev.Violf("C10.readinflight", "fresh queue: ReadInflight returned %d elems, err %v", len(rs), err)
		}
		var wg sync.WaitGroup
		var mu sync.Mutex
		handed := map[int]packets.PacketID{} // uid -> id it was handed out with
		removed := map[int]bool{}
		var firstErr *ev.Violation
		fail := func(v *ev.Violation) {
			mu.Lock()
			if firstErr == nil {
				firstErr = v
			}
			mu.Unlock()
		}
		acks := make(chan [2]int, s.N+8) // (uid, id) to acknowledge
		// the poller
		readerDone := make(chan struct{})
		wg.Add(1)
		go func() {
			defer wg.Done()
			defer close(readerDone)
			defer func() {
				if r := recover(); r != nil {
					fail(ev.Violf("C10.panic", "Read panicked: %v", r))
				}
			}()
			next := packets.PacketID(0)
			k := 0
			for {
				ids := make([]packets.PacketID, s.Batch)
				for i := range ids {
					next++
					if next == 0 {
						next = 1
					}
					ids[i] = next
				}
				rs, err := st.Read(ids)
				if err != nil {
					return // queue.ErrClosed: the case is over
				}
				used := 0
				for _, e := range rs {
					p, ok := e.MessageWithID.(*queue.Publish)
					if !ok {
						continue
					}
					u := uidOfPayload(p.Payload)
					mu.Lock()
					if _, twice := handed[u]; twice {
						mu.Unlock()
						fail(ev.Violf("C10.conservation", "uid %d was handed out by two reads", u))
						return
					}
					handed[u] = e.ID()
					mu.Unlock()
					if p.QoS > 0 {
						used++
						k++
						if k*s.AckShare/100 != (k-1)*s.AckShare/100 {
							acks <- [2]int{u, int(e.ID())}
						}
					}
				}
				next -= packets.PacketID(s.Batch - used) // unused ids are given back
			}
		}()
		// the acknowledgement handler
		wg.Add(1)
		go func() {
			defer wg.Done()
			for a := range acks {
				if s.AckGapUs > 0 {
					time.Sleep(time.Duration(s.AckGapUs) * time.Microsecond)
				}
				if err := st.Remove(packets.PacketID(a[1])); err != nil {
					fail(ev.Violf("C10.remove", "Remove(%d) returned %v", a[1], err))
					return
				}
				mu.Lock()
				removed[a[0]] = true
				mu.Unlock()
			}
		}()
		// the publisher
		added := map[int]byte{}
		for u := 1; u <= s.N; u++ {
			q := byte(1 + u%2)
			if s.QoS0Every > 0 && u%s.QoS0Every == 0 {
				q = 0
			}
			added[u] = q
			err := st.Add(&queue.Elem{At: time.Now(), MessageWithID: &queue.Publish{Message: &gmqtt.Message{QoS: q, Topic: "t", Payload: []byte(fmt.Sprint(u))}}})
			if err != nil {
				fail(ev.Violf("C10.add-error", "Add returned %v", err))
				break
			}
			if s.AddGapUs > 0 {
				time.Sleep(time.Duration(s.AddGapUs) * time.Microsecond)
			}
		}
		// let the reader drain what is readable, then stop everything
		deadline := time.Now().Add(5 * time.Second)
		for time.Now().Before(deadline) {
			nt.mu.Lock()
			idle := nt.queueSum == nt.inflSum // everything left in the queue is in flight
			nt.mu.Unlock()
			if idle {
				break
			}
			time.Sleep(200 * time.Microsecond)
		}
		if err := st.Close(); err != nil {
			return ev.Violf("C10.close", "Close returned %v", err)
		}
		select {
		case <-readerDone:
		case <-time.After(5 * time.Second):
			return ev.Violf("C10.read-blocked", "Read did not return within 5 s after Close")
		}
		close(acks)
		wg.Wait()
		if firstErr != nil {
			return firstErr
		}
		// final contents: re-open without clean start and drain
		if err := st.Init(initOpts(false)); err != nil {
			return ev.Violf("C10.init-error", "Init(clean=false) returned %v", err)
		}
		left := map[int]packets.PacketID{}
		for {
			rs, err := st.ReadInflight(100)
			if err != nil {
				return ev.Violf("C10.readinflight", "ReadInflight returned %v", err)
			}
			if len(rs) == 0 {
				break
			}
			for _, e := range rs {
				if p, ok := e.MessageWithID.(*queue.Publish); ok {
					left[uidOfPayload(p.Payload)] = e.ID()
				}
			}
		}
		for k := 0; k < 2*s.N+10; k++ {
			nt.mu.Lock()
			queued := nt.queueSum - nt.inflSum
			nt.mu.Unlock()
			if queued <= 0 {
				break
			}
			rs, err := st.Read([]packets.PacketID{packets.PacketID(60000 + k)}) // something is unread: does not block
			if err != nil {
				return ev.Violf("C10.read-error", "final Read returned %v", err)
			}
			for _, e := range rs {
				if p, ok := e.MessageWithID.(*queue.Publish); ok {
					left[uidOfPayload(p.Payload)] = 0
				}
			}
		}
		// ---- conservation ----
		nt.mu.Lock()
		defer nt.mu.Unlock()
		var uids []int
		for u := range added {
			uids = append(uids, u)
		}
		sort.Ints(uids)
		nDropped, nHanded := 0, 0
		for _, u := range uids {
			_, d := nt.dropped[u]
			hid, h := handed[u]
			_, l := left[u]
			if e, bad := nt.dropped[-u]; bad {
				return ev.Violf("C10.conservation", "%v", e)
			}
			if d {
				nDropped++
			}
			if h {
				nHanded++
			}
			switch {
			case d && h:
				return ev.Violf("C10.conservation", "uid %d (QoS %d) was handed out by a read (packet id %d) AND reported dropped (%v, id %d): a message is never two of queued / handed out / dropped", u, added[u], hid, nt.dropped[u], nt.dropIDs[u]).
					With("cap", s.Cap, "slow_us", s.DropSlowUs)
			case !d && !h && !l:
				return ev.Violf("C10.conservation", "uid %d (QoS %d) is silently gone: not dropped, never handed out, not in the queue at the end", u, added[u]).With("cap", s.Cap)
			case d && l:
				return ev.Violf("C10.conservation", "uid %d reported dropped and still in the queue at the end", u)
			case h && added[u] > 0 && !removed[u] && !l:
				return ev.Violf("C10.replay", "uid %d was handed out with packet id %d, never acknowledged, and is not replayed after Close + Init(clean=false)", u, hid).With("cap", s.Cap, "slow_us", s.DropSlowUs)
			case h && added[u] > 0 && !removed[u] && left[u] != hid:
				return ev.Violf("C10.replay", "uid %d was handed out with packet id %d and is replayed with id %d", u, hid, left[u])
			case h && removed[u] && l:
				return ev.Violf("C10.conservation", "uid %d was acknowledged (Remove) and is still in the queue at the end", u)
			}
		}
		c.Count("conc_added", len(uids))
		c.Count("conc_dropped", nDropped)
		c.Count("conc_handed_out", nHanded)
		if nDropped > 0 && nHanded > 0 {
			c.NonTrivial()
			c.Label("concurrent_overflow")
		}
		return nil
	}
}

func TestC10MemConcurrent(t *testing.T) {
	ev.RunN(t, "C10", 0.5, genC10Conc("mem"), runC10Conc(memQueueFactory))
}

func TestC10RedisConcurrent(t *testing.T) {
	ev.RunN(t, "C10", 0.1, genC10Conc("redis"), runC10Conc(redisQueueFactory))
}
