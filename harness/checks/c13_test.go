package checks

// C13 — Limits negotiated at CONNECT hold in both directions for every valid config.

import (
	"context"
	"fmt"
	"strings"
	"sync"
	"testing"
	"time"

	"github.com/DrmagicE/gmqtt"
	"github.com/DrmagicE/gmqtt/persistence/queue"
	"github.com/DrmagicE/gmqtt/server"
	"pgregory.net/rapid"

	"verif/ev"
	"verif/fixture"
	mw "verif/mqttwire"
)

// ---------------------------------------------------------------------------------------
// outbound: Maximum Packet Size and Topic Alias Maximum declared by the client

type c13OutMsg struct {
	Topic int  `json:"topic"` // index into c13Topics
	Delta int  `json:"delta"` // encoded size (no alias, full topic) = M + Delta
	QoS   byte `json:"qos"`
}

type c13OutScen struct {
	M     int         `json:"max_packet_size"`
	A     int         `json:"topic_alias_max"`
	SQ    byte        `json:"sub_qos"`
	Msgs  []c13OutMsg `json:"msgs"`
	Redis bool        `json:"redis,omitempty"` // session queues on the redis backend (its Read enforces the limit too)
}

var c13Topics = []string{"o/a", "o/bb", "o/ccc", "o/d"}

func genC13Out(t *rapid.T) c13OutScen {
	s := c13OutScen{M: rapid.IntRange(40, 300).Draw(t, "M"), A: rapid.SampledFrom([]int{0, 1, 2, 5}).Draw(t, "A"), SQ: byte(rapid.IntRange(0, 1).Draw(t, "sq"))}
	s.Redis = rapid.IntRange(0, 3).Draw(t, "backend") == 0
	n := rapid.IntRange(2, 14).Draw(t, "n")
	for i := 0; i < n; i++ {
		d := rapid.IntRange(-3, 5).Draw(t, "delta")
		if rapid.IntRange(0, 2).Draw(t, "small") == 0 {
			d = -rapid.IntRange(10, 20).Draw(t, "smalldelta")
		}
		s.Msgs = append(s.Msgs, c13OutMsg{Topic: rapid.IntRange(0, len(c13Topics)-1).Draw(t, "topic"), Delta: d, QoS: byte(rapid.IntRange(0, 1).Draw(t, "qos"))})
	}
	return s
}

// publishSize returns the encoded size of a v5 PUBLISH with the full topic and no alias.
func publishSize(topic string, qos byte, payloadLen int) int {
	p := &mw.Packet{Type: mw.PUBLISH, Topic: topic, QoS: qos, Payload: make([]byte, payloadLen)}
	if qos > 0 {
		p.PacketID = 1
	}
	b, _ := mw.Encode(p, mw.V5)
	return len(b)
}

func runC13Out(s c13OutScen, c *ev.Case) *ev.Violation {
	cfg := fixture.BaseConfig()
	cfg, cleanupBackend, bv := withBackend(cfg, s.Redis, c)
	if bv != nil {
		return bv
	}
	defer cleanupBackend()
	var mu sync.Mutex
	dropped := map[string]error{}
	hooks := &server.Hooks{OnMsgDropped: func(ctx context.Context, clientID string, msg *gmqtt.Message, err error) {
		mu.Lock()
		dropped[string(msg.Payload[:min(len(msg.Payload), 4)])] = err
		mu.Unlock()
	}}
	b, err := fixture.Start(fixture.Opts{Config: cfg, Hooks: hooks})
	if err != nil {
		return harnessErr("start broker: %v", err)
	}
	defer b.Stop()
	props := &mw.Props{MaxPacketSize: u32p(uint32(s.M))}
	if s.A > 0 {
		props.TopicAliasMax = u16p(uint16(s.A))
	}
	cl, ack, err := b.Connect(fixture.ConnectOpts{ID: "S", V: mw.V5, CleanStart: true, AutoAck: true, Props: props})
	if err != nil || ack.ReasonCode != 0 {
		return harnessErr("connect: %v %v", ack, err)
	}
	defer cl.Kill()
	if err := subscribeSentinel(cl); err != nil {
		return harnessErr("%v", err)
	}
	if code, err := subscribeOne(cl, 2, subSpec{Filter: "o/#", QoS: s.SQ}); err != nil || code != s.SQ {
		return harnessErr("subscribe: %v %v", code, err)
	}
	type sent struct {
		uid   string
		topic string
		s0    int
	}
	var all []sent
	boundary := false
	for i, m := range s.Msgs {
		topic := c13Topics[m.Topic]
		q := minB(m.QoS, s.SQ)
		uid := fmt.Sprintf("u%03d|%s|", i, topic)
		// solve the payload length so that the no-alias encoding has size M+Delta
		want := s.M + m.Delta
		pl := len(uid)
		for publishSize(topic, q, pl) < want {
			pl++
		}
		if publishSize(topic, q, pl) != want {
			// remaining-length field grew by one byte: step back (size want-1 is fine too)
			c.Label("size_not_exact")
		}
		payload := uid + strings.Repeat("x", pl-len(uid))
		s0 := publishSize(topic, q, len(payload))
		if d := s0 - s.M; d >= -3 && d <= 3 {
			boundary = true
			c.Label(fmt.Sprintf("size_M%+d", d))
		}
		all = append(all, sent{uid[:4], topic, s0})
		b.Srv.Publisher().Publish(&gmqtt.Message{Topic: topic, QoS: m.QoS, Payload: []byte(payload)})
	}
	if err := sentinelBarrier(b, []*fixture.Client{cl}, "end"); err != nil {
		if closed, _ := cl.Closed(); closed {
			return ev.Violf("C13.out-connection-lost", "the connection was closed while oversize/limit-size messages were being delivered: %v", err)
		}
		return ev.Violf("C13.barrier", "%v", err)
	}
	if err := cl.Ping(fixture.DefaultWait); err != nil {
		return ev.Violf("C13.out-connection-lost", "no PINGRESP at the end: %v", err)
	}
	got := map[string]bool{}
	table := map[uint16]string{}
	for _, r := range cl.All() {
		p := r.P
		if len(p.Raw) > s.M {
			return ev.Violf("C13.out-packet-size", "received a %s packet of %d bytes, declared Maximum Packet Size is %d", p.Type, len(p.Raw), s.M).
				With("excess", len(p.Raw)-s.M, "alias_max", s.A, "has_alias", p.Props != nil && p.Props.TopicAlias != nil)
		}
		if p.Type != mw.PUBLISH || isSentinel(p) {
			continue
		}
		topic := p.Topic
		if p.Props != nil && p.Props.TopicAlias != nil {
			a := *p.Props.TopicAlias
			c.Label("alias_used")
			if a < 1 || int(a) > s.A {
				return ev.Violf("C13.out-alias-range", "received topic alias %d, client declared Topic Alias Maximum %d", a, s.A).With("alias", a, "alias_max", s.A)
			}
			if int(a) == s.A {
				c.Label("alias_eq_max")
			}
			if topic == "" {
				topic = table[a]
				c.Label("alias_resolved")
				if topic == "" {
					return ev.Violf("C13.out-alias-unbound", "PUBLISH with empty topic uses alias %d that was never bound on this connection", a)
				}
			} else {
				if _, ok := table[a]; ok {
					c.Label("alias_rebound")
				}
				table[a] = topic
			}
		} else if topic == "" {
			return ev.Violf("C13.out-alias-unbound", "PUBLISH with empty topic and no alias")
		}
		parts := strings.SplitN(string(p.Payload), "|", 3)
		if len(parts) < 3 {
			return ev.Violf("C13.out-payload", "unexpected payload %q", p.Payload)
		}
		if parts[1] != topic {
			return ev.Violf("C13.out-alias-resolve", "message %s was published to %q but resolves to %q on this connection (alias table %v)", parts[0], parts[1], topic, table)
		}
		got[string(p.Payload[:4])] = true
	}
	mu.Lock()
	defer mu.Unlock()
	for _, m := range all {
		must := m.s0 <= s.M-5 || (s.A == 0 && m.s0 <= s.M)
		if must && !got[m.uid] {
			return ev.Violf("C13.out-not-delivered", "message %s of encoded size %d (limit %d, alias max %d) was not delivered", m.uid, m.s0, s.M, s.A).With("size_minus_limit", m.s0-s.M)
		}
		if !got[m.uid] {
			if e, ok := dropped[m.uid]; !ok || e != queue.ErrDropExceedsMaxPacketSize {
				return ev.Violf("C13.out-drop-not-reported", "message %s (size %d, limit %d) was neither delivered nor reported dropped as oversize (drop record: %v)", m.uid, m.s0, s.M, e)
			}
			c.Label("oversize_dropped")
		}
	}
	if boundary {
		c.NonTrivial()
	}
	return nil
}

func TestC13Outbound(t *testing.T) {
	ev.SetRule("C13", "outbound: v5 subscriber declaring Maximum Packet Size 40..300 and Topic Alias Maximum {0,1,2,5}; 2-14 API publishes over 4 topics whose no-alias encoded size is solved to M-3..M+5 (or clearly smaller); every received packet's raw length <= M, aliases in [1,A] resolving (client-side table) to the topic carried in the payload, undelivered messages reported dropped as oversize, connection alive. inbound: validator-accepted configs from boundary sets (server_receive_maximum {1,2,5,100,65535}, topic_alias_maximum {0,1,5,10,65535}, max_packet_size {64,256,2^28}, max_inflight {1,10,100,65535}); a conformant v5 script (alias bind/rebind/use in 1..T incl. T, <=R open QoS>0 publishes held by withholding PUBREL, packets of exactly P bytes) must never be disconnected and must reach a witness subscriber with the right topic; one final violating step (alias T+1 / 0, R+1-th open publish, P+1 bytes) must end the connection with 0x94 / 0x93 / 0x95; no recovered panic (OnClosed error text). Non-trivial: a boundary value is exercised (size within +-3 of M or P, alias = T, outstanding = R); distinct by scenario digest.")
	ev.Run(t, "C13", genC13Out, runC13Out)
}

// ---------------------------------------------------------------------------------------
// inbound: what CONNACK advertised

type c13InOp struct {
	Op    string `json:"op"` // bind use open2 close2 pub1 exact
	Alias int    `json:"alias,omitempty"`
	Topic int    `json:"topic,omitempty"`
	QoS   byte   `json:"qos,omitempty"`
	K     int    `json:"k,omitempty"`
}

type c13InScen struct {
	R     int       `json:"server_receive_maximum"`
	T     int       `json:"topic_alias_maximum"`
	P     int       `json:"max_packet_size"`
	MI    int       `json:"max_inflight"`
	Ops   []c13InOp `json:"ops"`
	Final string    `json:"final"` // "" | alias_over | alias_zero | quota_over | size_over
	Burst int       `json:"burst"` // PINGREQs pipelined in the same write as the violating packet (keeps the writer busy)
	// HookP > 0: an OnBasicAuth hook sets ConnectRequest.Options.MaxPacketSize of the publishing client to this value
	// (larger or smaller than the configured one); what CONNACK then advertises is the contract
	HookP int `json:"hook_max_packet_size,omitempty"`
}

func genC13In(t *rapid.T) c13InScen {
	s := c13InScen{R: rapid.SampledFrom([]int{1, 2, 5, 100, 65535}).Draw(t, "R"), T: rapid.SampledFrom([]int{0, 1, 5, 10, 65535}).Draw(t, "T"),
		P: rapid.SampledFrom([]int{64, 256, 268435456}).Draw(t, "P"), MI: rapid.SampledFrom([]int{1, 10, 100, 65535}).Draw(t, "MI")}
	if rapid.IntRange(0, 3).Draw(t, "hook_p") == 0 {
		s.HookP = rapid.SampledFrom([]int{100, 300, 1000}).Draw(t, "hook_p_value")
	}
	n := rapid.IntRange(1, 14).Draw(t, "nops")
	for i := 0; i < n; i++ {
		switch k := rapid.IntRange(0, 9).Draw(t, "kind"); {
		case k <= 2:
			a := rapid.IntRange(1, 6).Draw(t, "alias")
			if rapid.IntRange(0, 2).Draw(t, "max") == 0 {
				a = -1 // the maximum itself
			}
			s.Ops = append(s.Ops, c13InOp{Op: "bind", Alias: a, Topic: rapid.IntRange(0, 3).Draw(t, "topic"), QoS: byte(rapid.IntRange(0, 1).Draw(t, "qos"))})
		case k <= 4:
			a := rapid.IntRange(1, 6).Draw(t, "alias")
			if rapid.IntRange(0, 2).Draw(t, "max") == 0 {
				a = -1
			}
			s.Ops = append(s.Ops, c13InOp{Op: "use", Alias: a, QoS: byte(rapid.IntRange(0, 1).Draw(t, "qos"))})
		case k <= 6:
			s.Ops = append(s.Ops, c13InOp{Op: "open2", Topic: rapid.IntRange(0, 3).Draw(t, "topic")})
		case k == 7:
			s.Ops = append(s.Ops, c13InOp{Op: "close2", K: rapid.IntRange(0, 5).Draw(t, "k")})
		case k == 8:
			s.Ops = append(s.Ops, c13InOp{Op: "pub1", Topic: rapid.IntRange(0, 3).Draw(t, "topic")})
		default:
			s.Ops = append(s.Ops, c13InOp{Op: "exact", Topic: rapid.IntRange(0, 3).Draw(t, "topic"), QoS: byte(rapid.IntRange(0, 1).Draw(t, "qos"))})
		}
	}
	// a conformant client that keeps its window full: the next PUBLISH follows the previous PUBACK immediately
	if s.R <= 5 && rapid.IntRange(0, 2).Draw(t, "pingpong") == 0 {
		s.Ops = append(s.Ops, c13InOp{Op: "pingpong", K: rapid.SampledFrom([]int{100, 400}).Draw(t, "rounds")})
	}
	s.Final = rapid.SampledFrom([]string{"", "alias_over", "alias_zero", "quota_over", "size_over"}).Draw(t, "final")
	s.Burst = rapid.SampledFrom([]int{0, 0, 5, 40, 80}).Draw(t, "burst")
	return s
}

var c13InTopics = []string{"i/0", "i/1", "i/22", "i/333"}

func runC13In(s c13InScen, c *ev.Case) *ev.Violation {
	cfg := fixture.BaseConfig()
	cfg.MQTT.ReceiveMax = uint16(s.R)
	cfg.MQTT.TopicAliasMax = uint16(s.T)
	cfg.MQTT.MaxPacketSize = uint32(s.P)
	cfg.MQTT.MaxInflight = uint16(s.MI)
	if cfg.MQTT.MaxQueuedMsg < s.MI {
		cfg.MQTT.MaxQueuedMsg = s.MI
	}
	if err := cfg.MQTT.Validate(); err != nil {
		return harnessErr("generated config rejected by the validator: %v", err)
	}
	var mu sync.Mutex
	var closedErrs []string
	hooks := &server.Hooks{OnClosed: func(ctx context.Context, client server.Client, err error) {
		if err != nil {
			mu.Lock()
			closedErrs = append(closedErrs, client.ClientOptions().ClientID+": "+err.Error())
			mu.Unlock()
		}
	}}
	if s.HookP > 0 {
		hooks.OnBasicAuth = func(ctx context.Context, client server.Client, req *server.ConnectRequest) error {
			if string(req.Connect.ClientID) == "P" {
				req.Options.MaxPacketSize = uint32(s.HookP)
			}
			return nil
		}
		c.Label("hook_sets_maximum_packet_size")
		if s.HookP > s.P {
			c.Label("hook_raises_maximum_packet_size")
		}
	}
	b, err := fixture.Start(fixture.Opts{Config: cfg, Hooks: hooks})
	if err != nil {
		return ev.Violf("C13.config-start", "broker does not start with a validator-accepted config: %v", err)
	}
	defer b.Stop()
	feat := []any{"R", s.R, "T", s.T, "P", s.P, "T_gt_R", s.T > s.R}
	w, ack, err := b.Connect(fixture.ConnectOpts{ID: "W", V: mw.V5, CleanStart: true, AutoAck: true})
	if err != nil || ack == nil || ack.ReasonCode != 0 {
		return ev.Violf("C13.config-connect", "witness cannot connect under a validator-accepted config: %v %v", ack, err).With(feat...)
	}
	defer w.Kill()
	if err := subscribeSentinel(w); err != nil {
		return harnessErr("%v", err)
	}
	if code, err := subscribeOne(w, 2, subSpec{Filter: "i/#", QoS: 2}); err != nil || code != 2 {
		return harnessErr("witness subscribe: %v %v", code, err)
	}
	p, ack, err := b.Connect(fixture.ConnectOpts{ID: "P", V: mw.V5, CleanStart: true})
	if err != nil || ack == nil || ack.ReasonCode != 0 {
		return ev.Violf("C13.config-connect", "publisher cannot connect under a validator-accepted config: %v %v", ack, err).With(feat...)
	}
	defer p.Kill()
	// what CONNACK advertised is the contract
	advT, advR, advP := 0, 65535, 268435455
	if ack.Props != nil {
		if ack.Props.TopicAliasMax != nil {
			advT = int(*ack.Props.TopicAliasMax)
		}
		if ack.Props.ReceiveMax != nil {
			advR = int(*ack.Props.ReceiveMax)
		}
		if ack.Props.MaxPacketSize != nil {
			advP = int(*ack.Props.MaxPacketSize)
		}
	}
	if advT != s.T || advR != s.R {
		c.Label("connack_differs_from_config")
	}
	panicCheck := func() *ev.Violation {
		mu.Lock()
		defer mu.Unlock()
		for _, e := range closedErrs {
			if strings.Contains(e, "runtime error") || strings.Contains(e, "out of range") || strings.Contains(e, "nil pointer") {
				return ev.Violf("C13.panic", "the broker recovered a panic while serving a client under a validator-accepted config: %s", e).With(feat...)
			}
		}
		return nil
	}
	lost := func(step string, extra ...any) *ev.Violation {
		if v := panicCheck(); v != nil {
			return v
		}
		code := "none"
		for _, r := range p.All() {
			if r.P.Type == mw.DISCONNECT {
				code = fmt.Sprintf("%#x", r.P.ReasonCode)
			}
		}
		return ev.Violf("C13.in-disconnected-conformant", "a client staying within the advertised limits (alias max %d, receive max %d, packet size %d) was disconnected at step %s (DISCONNECT code %s)", advT, advR, advP, step, code).
			With(append(feat, extra...)...)
	}
	table := map[int]string{}
	var open []uint16
	pid := uint16(0)
	uid := 0
	expect := map[string]string{} // uid -> topic
	boundary := false
	alive := func() bool {
		return p.Ping(fixture.DefaultWait) == nil
	}
	for i, op := range s.Ops {
		c.Logf("step %d: %+v open=%v table=%v", i, op, open, table)
		switch op.Op {
		case "bind", "use":
			a := op.Alias
			if a == -1 {
				a = advT
			}
			if a < 1 || a > advT {
				c.Count("skipped_ops", 1)
				continue
			}
			if op.QoS > 0 && len(open) >= advR {
				c.Count("skipped_ops", 1)
				continue
			}
			uid++
			u := fmt.Sprintf("u%03d", uid)
			pk := &mw.Packet{QoS: op.QoS, Payload: []byte(u), Props: &mw.Props{TopicAlias: u16p(uint16(a))}}
			if op.Op == "bind" {
				pk.Topic = c13InTopics[op.Topic]
				if _, ok := table[a]; ok {
					c.Label("alias_rebind")
				}
				table[a] = pk.Topic
			} else if table[a] == "" {
				c.Count("skipped_ops", 1)
				continue
			}
			if a == advT {
				c.Label("alias_eq_max")
				boundary = true
			}
			if op.QoS > 0 {
				pid++
				pk.PacketID = pid
			}
			expect[u] = table[a]
			if _, err := p.Publish(pk); err != nil || !alive() {
				return lost(fmt.Sprintf("%d (%s alias %d)", i, op.Op, a), "alias", a, "alias_eq_max", a == advT)
			}
		case "open2":
			if len(open) >= advR {
				c.Count("skipped_ops", 1)
				continue
			}
			uid++
			u := fmt.Sprintf("u%03d", uid)
			pid++
			expect[u] = c13InTopics[op.Topic]
			if err := p.Send(&mw.Packet{Type: mw.PUBLISH, QoS: 2, PacketID: pid, Topic: c13InTopics[op.Topic], Payload: []byte(u)}); err != nil {
				return lost(fmt.Sprintf("%d (open2)", i))
			}
			if _, err := p.WaitAck(mw.PUBREC, pid, fixture.DefaultWait); err != nil {
				return lost(fmt.Sprintf("%d (open2, outstanding %d of %d)", i, len(open)+1, advR), "outstanding", len(open)+1)
			}
			open = append(open, pid)
			if len(open) == advR {
				c.Label("outstanding_eq_R")
				boundary = true
			}
		case "close2":
			if len(open) == 0 {
				c.Count("skipped_ops", 1)
				continue
			}
			k := op.K % len(open)
			id := open[k]
			open = append(open[:k:k], open[k+1:]...)
			if err := p.Send(&mw.Packet{Type: mw.PUBREL, PacketID: id}); err != nil {
				return lost(fmt.Sprintf("%d (close2)", i))
			}
			if _, err := p.WaitAck(mw.PUBCOMP, id, fixture.DefaultWait); err != nil {
				return lost(fmt.Sprintf("%d (close2)", i))
			}
		case "pub1":
			if len(open) >= advR {
				c.Count("skipped_ops", 1)
				continue
			}
			uid++
			u := fmt.Sprintf("u%03d", uid)
			pid++
			expect[u] = c13InTopics[op.Topic]
			if len(open)+1 == advR {
				c.Label("outstanding_eq_R")
				boundary = true
			}
			if _, err := p.Publish(&mw.Packet{QoS: 1, PacketID: pid, Topic: c13InTopics[op.Topic], Payload: []byte(u)}); err != nil {
				return lost(fmt.Sprintf("%d (pub1, outstanding %d of %d)", i, len(open)+1, advR), "outstanding", len(open)+1)
			}
		case "pingpong":
			// fill the window up to R-1 with open QoS2 flows, then ping-pong QoS1 publishes at the limit
			if len(open) > advR-1 {
				c.Count("skipped_ops", 1) // the window is already full: one more publish would not be conformant
				continue
			}
			for len(open) < advR-1 {
				pid++
				if err := p.Send(&mw.Packet{Type: mw.PUBLISH, QoS: 2, PacketID: pid, Topic: "i/0", Payload: []byte("fill")}); err != nil {
					return lost("pingpong fill")
				}
				if _, err := p.WaitAck(mw.PUBREC, pid, fixture.DefaultWait); err != nil {
					return lost("pingpong fill", "outstanding", len(open)+1)
				}
				open = append(open, pid)
			}
			c.Label("pingpong_at_receive_maximum")
			boundary = true
			for k := 0; k < op.K; k++ {
				pid++
				if pid == 0 {
					pid = 1
				}
				if err := p.Send(&mw.Packet{Type: mw.PUBLISH, QoS: 1, PacketID: pid, Topic: "i/1", Payload: []byte("pp")}); err != nil {
					return lost(fmt.Sprintf("%d (ping-pong round %d at the receive maximum)", i, k), "outstanding", advR, "pingpong_round", k)
				}
				if _, err := p.WaitAck(mw.PUBACK, pid, fixture.DefaultWait); err != nil {
					return lost(fmt.Sprintf("%d (ping-pong round %d at the receive maximum)", i, k), "outstanding", advR, "pingpong_round", k)
				}
			}
		case "exact":
			if advP > 4096 || (op.QoS > 0 && len(open) >= advR) {
				c.Count("skipped_ops", 1)
				continue
			}
			uid++
			u := fmt.Sprintf("u%03d", uid)
			topic := c13InTopics[op.Topic]
			pl := len(u)
			for publishSize(topic, op.QoS, pl) < advP {
				pl++
			}
			if publishSize(topic, op.QoS, pl) != advP {
				c.Count("skipped_ops", 1)
				continue
			}
			pk := &mw.Packet{QoS: op.QoS, Topic: topic, Payload: []byte(u + strings.Repeat("y", pl-len(u)))}
			if op.QoS > 0 {
				pid++
				pk.PacketID = pid
			}
			expect[u] = topic
			c.Label("packet_size_eq_P")
			boundary = true
			if _, err := p.Publish(pk); err != nil || !alive() {
				return lost(fmt.Sprintf("%d (packet of exactly %d bytes)", i, advP), "size_eq_P", true)
			}
		}
	}
	if !alive() {
		return lost("end")
	}
	// everything conformant reached the witness with the right topic
	if err := sentinelBarrier(b, []*fixture.Client{w}, "mid"); err != nil {
		return ev.Violf("C13.barrier", "%v", err)
	}
	seen := map[string]bool{}
	for _, r := range w.Take(func(p *mw.Packet) bool { return p.Type == mw.PUBLISH }) {
		if isSentinel(r.P) {
			continue
		}
		u := string(r.P.Payload)
		if len(u) > 4 {
			u = u[:4]
		}
		if u == "fill" || u == "pp" {
			continue // window filler / ping-pong traffic
		}
		want, ok := expect[u]
		if !ok {
			return ev.Violf("C13.in-unexpected", "witness received unknown message %s", r.P)
		}
		if r.P.Topic != want {
			return ev.Violf("C13.in-alias-topic", "message %s was published (through an alias) to %q but the witness received it on %q", u, want, r.P.Topic)
		}
		seen[u] = true
	}
	for u, tp := range expect {
		if !seen[u] {
			return ev.Violf("C13.in-not-forwarded", "conformant publish %s to %q never reached the witness", u, tp)
		}
	}
	if v := panicCheck(); v != nil {
		return v
	}
	// one violating step
	wantCode := byte(0)
	sendBad := func(pk *mw.Packet) {
		var buf []byte
		for k := 0; k < s.Burst; k++ {
			buf = append(buf, 0xC0, 0x00) // PINGREQ
		}
		raw, err := mw.Encode(pk, mw.V5)
		if err != nil {
			return
		}
		_ = p.SendRaw(append(buf, raw...))
		if s.Burst > 0 {
			c.Label("violation_after_burst")
		}
	}
	switch s.Final {
	case "alias_over", "alias_zero":
		a := advT + 1
		wantCode = 0x94
		if s.Final == "alias_zero" {
			a = 0
		}
		if a > 65535 {
			s.Final = ""
			break
		}
		sendBad(&mw.Packet{Type: mw.PUBLISH, Topic: "i/0", Payload: []byte("bad"), Props: &mw.Props{TopicAlias: u16p(uint16(a))}})
	case "quota_over":
		if advR > 20 {
			s.Final = ""
			break
		}
		wantCode = 0x93
		for len(open) < advR {
			pid++
			if err := p.Send(&mw.Packet{Type: mw.PUBLISH, QoS: 2, PacketID: pid, Topic: "i/0", Payload: []byte("fill")}); err != nil {
				return lost("fill")
			}
			if _, err := p.WaitAck(mw.PUBREC, pid, fixture.DefaultWait); err != nil {
				return lost(fmt.Sprintf("fill (outstanding %d of %d)", len(open)+1, advR), "outstanding", len(open)+1)
			}
			open = append(open, pid)
		}
		pid++
		sendBad(&mw.Packet{Type: mw.PUBLISH, QoS: 1, PacketID: pid, Topic: "i/0", Payload: []byte("bad")})
	case "size_over":
		if advP > 4096 {
			s.Final = ""
			break
		}
		wantCode = 0x95
		pl := 0
		for publishSize("i/0", 0, pl) < advP+1 {
			pl++
		}
		sendBad(&mw.Packet{Type: mw.PUBLISH, Topic: "i/0", Payload: []byte(strings.Repeat("z", pl))})
	}
	if s.Final != "" {
		c.Label("final_" + s.Final)
		boundary = true
		if !p.WaitClosed(fixture.DefaultWait) {
			return ev.Violf("C13.in-violation-tolerated", "a client exceeding the advertised limit (%s) was not disconnected within 10 s", s.Final).With("final", s.Final, "T", s.T, "R", s.R)
		}
		var disc *mw.Packet
		for _, r := range p.All() {
			if r.P.Type == mw.DISCONNECT {
				disc = r.P
			}
		}
		switch {
		case disc == nil:
			if ev.KF("F-disconnect-reason-lost") {
				c.Excluded("F-disconnect-reason-lost")
			} else {
				return ev.Violf("C13.in-disconnect-code-lost", "a client exceeding the advertised limit (%s) was cut without a DISCONNECT packet (expected reason %#x)", s.Final, wantCode).With("final", s.Final, "burst", s.Burst)
			}
		case s.Final == "alias_zero":
			if disc.ReasonCode != 0x94 && disc.ReasonCode != 0x82 && disc.ReasonCode != 0x81 {
				return ev.Violf("C13.in-disconnect-code", "alias 0 answered with DISCONNECT %#x", disc.ReasonCode)
			}
		case disc.ReasonCode != wantCode:
			return ev.Violf("C13.in-disconnect-code", "a client exceeding the advertised limit (%s) was disconnected with %#x, expected %#x", s.Final, disc.ReasonCode, wantCode).With("final", s.Final)
		}
	}
	if v := panicCheck(); v != nil {
		return v
	}
	if boundary {
		c.NonTrivial()
	}
	return nil
}

func TestC13Inbound(t *testing.T) {
	ev.Run(t, "C13", genC13In, runC13In)
}

var _ = time.Second
