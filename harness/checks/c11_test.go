package checks

// C11 — Shared subscriptions: each message goes to exactly one live member per group.

import (
	"context"
	"fmt"
	"sync"
	"sync/atomic"
	"testing"
	"time"

	"github.com/DrmagicE/gmqtt"
	submem "github.com/DrmagicE/gmqtt/persistence/subscription/mem"
	"github.com/DrmagicE/gmqtt/server"
	"pgregory.net/rapid"

	"verif/ev"
	"verif/fixture"
	mw "verif/mqttwire"
	"verif/topicref"
)

// ---- store level: the C02 history machinery with a high share of shared subscriptions ----

func TestC11Store(t *testing.T) {
	ev.SetRule("C11", "store: rapid histories of Subscribe/Unsubscribe/UnsubscribeAll where ~1/4 of the subscriptions are shared (groups g1,g2; one client in several groups on one filter; several members per group) against map[client]map[fullFilter]; shared and non-shared lookups, by-client iteration and counters compared after every op, all 87 topics after the last op. broker: 2-4 v5 clients join/leave groups (SUBSCRIBE, UNSUBSCRIBE, DISCONNECT with expiry 0, clean take-over, TerminateSession, elapse of a 1 s session expiry interval set at DISCONNECT - waited out in real time plus a 400 ms margin, well before the broker's 20 s sweeper runs) or go offline with a persistent session; every subscription carries a unique subscription identifier so each received copy is attributable; after all publishes offline members are drained; per message and (group,filter) with >=1 member exactly one copy over the group's members, at min QoS, never to a session that had left; non-shared copies per the C01 model; no retained replay on a shared SUBSCRIBE; 'race' steps end a member's session (clean take-over, TerminateSession, DISCONNECT with expiry 0; optionally with 2-20 ms OnConnected/OnSessionTerminated hooks) WHILE 3-4 connections pipeline QoS1 publishes aimed at its groups: every subscription identifier and every connection carries the session number of its client id, and a copy routed through a subscription of session #n may only arrive on a connection of session #n (at most one copy per group, exactly one when the leaver was not a member). Non-trivial: a leave followed by a publish matching the leaver's former group while another member remains; distinct by scenario digest.")
	ev.RunN(t, "C11", 3, func(t *rapid.T) c02Scen {
		s := c02Scen{Backend: "mem", Shared: true}
		s.Ops = genSubOps(t, true, 40)
		np := rapid.IntRange(1, 6).Draw(t, "nprobes")
		for i := 0; i < np; i++ {
			s.Probes = append(s.Probes, genTopicName(t, "probe"))
		}
		return s
	}, func(s c02Scen, c *ev.Case) *ev.Violation {
		return runSubHistory(submem.NewStore(), s, c, "C11")
	})
}

// ---- broker level ----

type c11Op struct {
	Op     string `json:"op"` // join leave subns drop offline pub
	Client int    `json:"c,omitempty"`
	Group  string `json:"g,omitempty"`
	Filter string `json:"f,omitempty"`
	QoS    byte   `json:"q,omitempty"`
	How    string `json:"how,omitempty"` // drop: disconnect0 | takeover_clean | terminate | terminate_offline | expire
	Topic  string `json:"t,omitempty"`
	By     int    `json:"by,omitempty"` // pub: 0 = Publisher API, k>0 = client k-1 publishes on its own connection (if online)
	// race: client c leaves (how: takeover_clean | terminate | disconnect0) WHILE client by-1 publishes K messages
	K int `json:"k,omitempty"`
}

type c11Scen struct {
	Mode    string  `json:"mode"`
	Clients int     `json:"clients"`
	Ops     []c11Op `json:"ops"`
	Redis   bool    `json:"redis,omitempty"` // persistence on the redis backend (subscription store wrapper, queues)
	// SlowHookUs: while a race op runs, the application's OnConnected / OnSessionTerminated hooks take this long
	SlowHookUs int `json:"slow_hook_us,omitempty"`
}

var c11Filters = []string{"t", "t/+", "#", "+/x", "t/#", "$x/#"}
var c11Topics = []string{"t", "t/x", "u/x", "$x/a"}

func genC11(t *rapid.T) c11Scen {
	s := c11Scen{Mode: rapid.SampledFrom([]string{"overlap", "onlyonce"}).Draw(t, "mode"), Clients: rapid.IntRange(2, 4).Draw(t, "nclients")}
	s.Redis = rapid.IntRange(0, 4).Draw(t, "backend") == 0
	// leaving by expiry costs 1.4 s of real time per op: allowed in a third of the scenarios, at most twice
	expireLeft := 0
	if rapid.IntRange(0, 2).Draw(t, "allow_expire") == 0 {
		expireLeft = 2
	}
	s.SlowHookUs = rapid.SampledFrom([]int{0, 0, 2000, 20000}).Draw(t, "slow_hook_us")
	joined := map[int][]string{} // generator's rough idea of the filters a client is a group member on
	n := rapid.IntRange(4, 24).Draw(t, "nops")
	for i := 0; i < n; i++ {
		cl := rapid.IntRange(0, s.Clients-1).Draw(t, "client")
		switch k := rapid.IntRange(0, 19).Draw(t, "kind"); {
		case k <= 6:
			s.Ops = append(s.Ops, c11Op{Op: "join", Client: cl, Group: rapid.SampledFrom([]string{"g1", "g1", "g2"}).Draw(t, "group"),
				Filter: rapid.SampledFrom(c11Filters).Draw(t, "filter"), QoS: byte(rapid.IntRange(0, 2).Draw(t, "qos"))})
			joined[cl] = append(joined[cl], s.Ops[len(s.Ops)-1].Filter)
		case k <= 8:
			s.Ops = append(s.Ops, c11Op{Op: "leave", Client: cl, Group: rapid.SampledFrom([]string{"g1", "g1", "g2"}).Draw(t, "group"),
				Filter: rapid.SampledFrom(c11Filters).Draw(t, "filter")})
		case k == 9:
			s.Ops = append(s.Ops, c11Op{Op: "subns", Client: cl, Filter: rapid.SampledFrom(c11Filters).Draw(t, "filter"), QoS: byte(rapid.IntRange(0, 2).Draw(t, "qos"))})
		case k <= 11:
			how := rapid.SampledFrom([]string{"disconnect0", "takeover_clean", "terminate", "terminate_offline", "expire"}).Draw(t, "how")
			if how == "expire" {
				if expireLeft == 0 {
					how = "terminate_offline"
				} else {
					expireLeft--
				}
			}
			s.Ops = append(s.Ops, c11Op{Op: "drop", Client: cl, How: how})
		case k == 12 && s.Clients >= 2 && rapid.IntRange(0, 2).Draw(t, "race") > 0:
			by := (cl + 1 + rapid.IntRange(0, s.Clients-2).Draw(t, "raceby")) % s.Clients
			topic := rapid.SampledFrom(c11Topics).Draw(t, "topic")
			// aimed: a topic that matches a filter the leaver joined a group on earlier (if any)
			if fs := joined[cl]; len(fs) > 0 && rapid.IntRange(0, 3).Draw(t, "aim") > 0 {
				f := rapid.SampledFrom(fs).Draw(t, "aimfilter")
				for _, tp := range c11Topics {
					if topicref.Match(tp, f) {
						topic = tp
						break
					}
				}
			}
			s.Ops = append(s.Ops, c11Op{Op: "race", Client: cl, How: rapid.SampledFrom([]string{"takeover_clean", "terminate", "disconnect0"}).Draw(t, "racehow"),
				By: by + 1, K: rapid.IntRange(3, 8).Draw(t, "racek"), Topic: topic})
			joined[cl] = nil
		case k == 12:
			s.Ops = append(s.Ops, c11Op{Op: "offline", Client: cl})
		default:
			by := 0
			if rapid.IntRange(0, 2).Draw(t, "byclient") == 0 {
				by = 1 + rapid.IntRange(0, s.Clients-1).Draw(t, "by")
			}
			s.Ops = append(s.Ops, c11Op{Op: "pub", Topic: rapid.SampledFrom(c11Topics).Draw(t, "topic"), QoS: byte(rapid.IntRange(0, 2).Draw(t, "qos")), By: by})
		}
	}
	return s
}

type c11Sub struct {
	client int
	gf     string // "group|filter" or "" for non-shared
	filter string
	qos    byte
}

func waitSessionGone(b *fixture.Broker, id string) bool {
	deadline := time.Now().Add(5 * time.Second)
	for time.Now().Before(deadline) {
		if s, _ := b.Srv.ClientService().GetSession(id); s == nil {
			return true
		}
		time.Sleep(time.Millisecond)
	}
	return false
}

func waitClientGone(b *fixture.Broker, id string) bool {
	deadline := time.Now().Add(5 * time.Second)
	for time.Now().Before(deadline) {
		if c := b.Srv.ClientService().GetClient(id); c == nil {
			return true
		}
		time.Sleep(time.Millisecond)
	}
	return false
}

func runC11(s c11Scen, c *ev.Case) *ev.Violation {
	cfg := fixture.BaseConfig()
	cfg.MQTT.DeliveryMode = s.Mode
	cfg, cleanupBackend, bv := withBackend(cfg, s.Redis, c)
	if bv != nil {
		return bv
	}
	defer cleanupBackend()
	var raceOn atomic.Bool
	slow := func() {
		if s.SlowHookUs > 0 && raceOn.Load() {
			time.Sleep(time.Duration(s.SlowHookUs) * time.Microsecond)
		}
	}
	hooks := &server.Hooks{
		OnConnected:         func(ctx context.Context, cl server.Client) { slow() },
		OnSessionTerminated: func(ctx context.Context, clientID string, reason server.SessionTerminatedReason) { slow() },
	}
	b, err := fixture.Start(fixture.Opts{Config: cfg, Hooks: hooks})
	if err != nil {
		return harnessErr("start broker: %v", err)
	}
	defer b.Stop()
	var racePubs []*fixture.Client // extra publisher connections for race ops, no subscriptions
	defer func() {
		for _, rp := range racePubs {
			rp.Kill()
		}
	}()

	// a retained message on "t" and "t/x": must never be replayed by a shared SUBSCRIBE
	pubc, ack, err := b.Connect(fixture.ConnectOpts{ID: "publisher", V: mw.V5, CleanStart: true, AutoAck: true})
	if err != nil || ack.ReasonCode != 0 {
		return harnessErr("publisher connect: %v %v", ack, err)
	}
	defer pubc.Kill()
	for i, tp := range []string{"t", "t/x"} {
		if _, err := pubc.Publish(&mw.Packet{Topic: tp, QoS: 1, PacketID: uint16(i + 1), Retain: true, Payload: []byte("RETAINED")}); err != nil {
			return harnessErr("retained publish: %v", err)
		}
	}

	sessEpoch := make([]int, s.Clients)           // number of sessions the client id has had so far
	connEpoch := map[*fixture.Client]int{}        // session epoch a connection belongs to
	subEpoch := map[uint32]int{}                  // session epoch a subscription identifier was granted in
	conns := make([][]*fixture.Client, s.Clients) // every connection a client id ever had
	cur := make([]*fixture.Client, s.Clients)
	online := make([]bool, s.Clients)
	connect := func(i int, clean bool) *ev.Violation {
		cl, ack, err := b.Connect(fixture.ConnectOpts{ID: clientName(i), V: mw.V5, CleanStart: clean, AutoAck: true, Props: &mw.Props{SessionExpiry: u32p(1000)}})
		if err != nil || ack.ReasonCode != 0 {
			return ev.Violf("C11.connect", "client %d connect: %v %v", i, ack, err)
		}
		if !ack.SessionPresent && len(conns[i]) > 0 {
			sessEpoch[i]++ // a new session for this client id
		}
		conns[i] = append(conns[i], cl)
		connEpoch[cl] = sessEpoch[i]
		cur[i], online[i] = cl, true
		if !ack.SessionPresent {
			if err := subscribeSentinel(cl); err != nil {
				return ev.Violf("C11.suback", "%v", err)
			}
		}
		return nil
	}
	defer func() {
		for _, cs := range conns {
			for _, cl := range cs {
				cl.Kill()
			}
		}
	}()
	for i := 0; i < s.Clients; i++ {
		if v := connect(i, true); v != nil {
			return v
		}
	}
	subByID := map[uint32]c11Sub{}
	nextID := uint32(0)
	shared := map[string]map[int]uint32{} // gf -> client -> sub id (current members)
	nonshared := make([]map[string]uint32, s.Clients)
	for i := range nonshared {
		nonshared[i] = map[string]uint32{}
	}
	leaveAll := func(i int) {
		for _, m := range shared {
			delete(m, i)
		}
		nonshared[i] = map[string]uint32{}
	}
	type pubRec struct {
		uid     string
		topic   string
		qos     byte
		members map[string]map[int]uint32 // gf -> members at publish time
		ns      map[uint32]bool           // non-shared subscription ids expected to get a copy
		offline map[int]bool              // members that were offline when it was published
		maybe   map[string]bool           // gf whose copy may have died with an offline member's session
		nsMaybe map[uint32]bool
		leaver  int // race: 1 + the client whose session ended while this message was being published, else 0
	}
	var pubs []pubRec
	// markLost: client i's session ends while it is offline; whatever was queued for it is gone
	markLost := func(i int) {
		for k := range pubs {
			if !pubs[k].offline[i] {
				continue
			}
			for gf, mem := range pubs[k].members {
				if _, ok := mem[i]; ok {
					pubs[k].maybe[gf] = true
				}
			}
			for id := range pubs[k].ns {
				if subByID[id].client == i {
					pubs[k].nsMaybe[id] = true
				}
			}
		}
	}
	leftRecently := map[string]bool{} // gf that lost a member
	pid := uint16(100)
	for i, op := range s.Ops {
		c.Logf("step %d: %+v", i, op)
		cl := cur[op.Client]
		switch op.Op {
		case "join", "subns":
			if !online[op.Client] {
				c.Count("skipped_ops", 1)
				continue
			}
			nextID++
			id := nextID
			sp := subSpec{Filter: op.Filter, QoS: op.QoS, ID: id}
			if op.Op == "join" {
				sp.Group = op.Group
			}
			pid++
			code, err := subscribeOne(cl, pid, sp)
			if err != nil || code != op.QoS {
				return ev.Violf("C11.suback", "SUBSCRIBE %q: code %#x err %v", sp.full(), code, err)
			}
			subEpoch[id] = connEpoch[cl]
			if op.Op == "join" {
				gf := op.Group + "|" + op.Filter
				if shared[gf] == nil {
					shared[gf] = map[int]uint32{}
				}
				shared[gf][op.Client] = id
				subByID[id] = c11Sub{op.Client, gf, op.Filter, op.QoS}
				// no retained replay on a shared subscribe
				if err := sentinelBarrier(b, []*fixture.Client{cl}, fmt.Sprintf("j%d", i)); err != nil {
					return ev.Violf("C11.barrier", "%v", err)
				}
				for _, r := range cl.All() {
					if r.P.Type == mw.PUBLISH && string(r.P.Payload) == "RETAINED" && r.P.Props != nil && len(r.P.Props.SubscriptionIDs) > 0 && subByID[r.P.Props.SubscriptionIDs[0]].gf != "" {
						return ev.Violf("C11.retained-on-shared", "shared SUBSCRIBE %q replayed a retained message", sp.full())
					}
				}
			} else {
				nonshared[op.Client][op.Filter] = id
				subByID[id] = c11Sub{op.Client, "", op.Filter, op.QoS}
			}
		case "leave":
			gf := op.Group + "|" + op.Filter
			if !online[op.Client] {
				c.Count("skipped_ops", 1)
				continue
			}
			pid++
			if _, err := cl.Unsubscribe(pid, "$share/"+op.Group+"/"+op.Filter); err != nil {
				return ev.Violf("C11.unsuback", "UNSUBSCRIBE not acknowledged: %v", err)
			}
			if _, ok := shared[gf][op.Client]; ok {
				delete(shared[gf], op.Client)
				leftRecently[gf] = true
				c.Label("leave_unsubscribe")
			}
		case "drop":
			had := false
			for gf, m := range shared {
				if _, ok := m[op.Client]; ok {
					had = true
					leftRecently[gf] = true
				}
			}
			switch op.How {
			case "disconnect0":
				if !online[op.Client] {
					c.Count("skipped_ops", 1)
					continue
				}
				// DISCONNECT carrying Session Expiry Interval 0 ends the session
				if v := quiesce(b, cl); v != nil {
					return v
				}
				_ = cl.Send(&mw.Packet{Type: mw.DISCONNECT, Props: &mw.Props{SessionExpiry: u32p(0)}})
				cl.Kill() // the client closes the network connection after DISCONNECT
				if !waitSessionGone(b, clientName(op.Client)) {
					return ev.Violf("C11.disconnect-expiry0", "session of client %d still present 5 s after DISCONNECT with Session Expiry Interval 0", op.Client)
				}
				online[op.Client] = false
				if v := connect(op.Client, true); v != nil {
					return v
				}
			case "takeover_clean":
				if online[op.Client] {
					if v := quiesce(b, cl); v != nil {
						return v
					}
				} else {
					markLost(op.Client)
				}
				if v := connect(op.Client, true); v != nil {
					return v
				}
			case "expire":
				// the session ends by the elapse of its expiry interval (1 s, set at DISCONNECT), measured from the end
				// of its last connection; the broker's 20 s sweeper has not run yet when the next publish arrives
				if online[op.Client] {
					if v := quiesce(b, cl); v != nil {
						return v
					}
					_ = cl.Send(&mw.Packet{Type: mw.DISCONNECT, Props: &mw.Props{SessionExpiry: u32p(1)}})
					cl.Kill()
					if !waitClientGone(b, clientName(op.Client)) {
						return harnessErr("client %d still registered 5 s after its socket was closed", op.Client)
					}
					online[op.Client] = false
					// the connection ended before this instant: 1 s + margin later the interval has certainly elapsed
					time.Sleep(time.Second + 400*time.Millisecond)
					markLost(op.Client)
				} else {
					// already offline with expiry 1000 s: nothing can make that elapse inside a case
					c.Count("skipped_ops", 1)
					continue
				}
			case "terminate", "terminate_offline":
				if op.How == "terminate_offline" && online[op.Client] {
					if v := quiesce(b, cl); v != nil {
						return v
					}
					cl.Kill()
					if !waitClientGone(b, clientName(op.Client)) {
						return harnessErr("client %d still registered 5 s after its socket was closed", op.Client)
					}
					online[op.Client] = false
				}
				if online[op.Client] {
					if v := quiesce(b, cl); v != nil {
						return v
					}
				} else {
					markLost(op.Client)
				}
				b.Srv.ClientService().TerminateSession(clientName(op.Client))
				if !waitSessionGone(b, clientName(op.Client)) {
					return ev.Violf("C11.terminate", "session of client %d still present 5 s after TerminateSession", op.Client)
				}
				online[op.Client] = false
				if v := connect(op.Client, true); v != nil {
					return v
				}
			}
			leaveAll(op.Client)
			if had {
				c.Label("leave_" + op.How)
			}
		case "offline":
			if !online[op.Client] {
				c.Count("skipped_ops", 1)
				continue
			}
			if v := quiesce(b, cl); v != nil {
				return v
			}
			cl.Kill()
			if !waitClientGone(b, clientName(op.Client)) {
				return harnessErr("client %d still registered 5 s after its socket was closed", op.Client)
			}
			online[op.Client] = false
			c.Label("offline_persistent")
		case "race":
			// client X's session ends (clean take-over / TerminateSession / DISCONNECT with expiry 0, each followed by a
			// fresh CONNECT) WHILE several connections publish matching QoS1 messages. Whatever the interleaving, a copy
			// routed through one of X's old subscriptions may only ever reach a connection of X's old session.
			x, y := op.Client, op.By-1
			if !online[x] || y < 0 || y >= s.Clients || y == x {
				c.Count("skipped_ops", 1)
				continue
			}
			if v := quiesce(b, cl); v != nil { // nothing older is in flight towards X when its session ends
				return v
			}
			for len(racePubs) < 3 {
				rp, ack, err := b.Connect(fixture.ConnectOpts{ID: fmt.Sprintf("racepub%d", len(racePubs)), V: mw.V5, CleanStart: true, AutoAck: true})
				if err != nil || ack.ReasonCode != 0 {
					return harnessErr("race publisher connect: %v %v", ack, err)
				}
				racePubs = append(racePubs, rp)
			}
			publishers := append([]*fixture.Client(nil), racePubs...)
			if online[y] {
				publishers = append(publishers, cur[y])
			}
			xMember := false
			for gf, m := range shared {
				_, f := splitGF(gf)
				if _, ok := m[x]; ok && topicref.Match(op.Topic, f) {
					xMember = true
					if len(m) > 1 {
						c.NonTrivial()
						c.Label("race_leave_vs_publish_with_remaining_member")
					}
				}
			}
			if xMember {
				c.Label("race_leaver_is_member")
			}
			type sent struct {
				cl  *fixture.Client
				pid uint16
			}
			var sends [][]sent
			for pi, pc := range publishers {
				var row []sent
				for k := 0; k < op.K; k++ {
					uid := fmt.Sprintf("m%03d", len(pubs)+1)
					rec := pubRec{uid: uid, topic: op.Topic, qos: 1, members: map[string]map[int]uint32{}, ns: map[uint32]bool{},
						offline: map[int]bool{}, maybe: map[string]bool{}, nsMaybe: map[uint32]bool{}, leaver: x + 1}
					for ci := range online {
						if !online[ci] {
							rec.offline[ci] = true
						}
					}
					for gf, m := range shared {
						_, f := splitGF(gf)
						if len(m) > 0 && topicref.Match(op.Topic, f) {
							cp := map[int]uint32{}
							for k, v := range m {
								cp[k] = v
							}
							rec.members[gf] = cp
						}
					}
					for ci := range nonshared {
						for f, id := range nonshared[ci] {
							if topicref.Match(op.Topic, f) {
								rec.ns[id] = true
							}
						}
					}
					pubs = append(pubs, rec)
					pid++
					row = append(row, sent{pc, pid})
					_ = pi
				}
				sends = append(sends, row)
			}
			base := len(pubs) - len(publishers)*op.K
			raceOn.Store(true)
			var wg sync.WaitGroup
			errs := make(chan error, len(publishers))
			for pi := range publishers {
				wg.Add(1)
				go func(pi int) {
					defer wg.Done()
					for k, sd := range sends[pi] {
						uid := pubs[base+pi*op.K+k].uid
						if err := sd.cl.Send(&mw.Packet{Type: mw.PUBLISH, Topic: op.Topic, QoS: 1, PacketID: sd.pid, Payload: []byte(uid)}); err != nil {
							errs <- fmt.Errorf("publisher %s: send: %w", sd.cl.ID, err)
							return
						}
					}
					for _, sd := range sends[pi] {
						if _, err := sd.cl.WaitAck(mw.PUBACK, sd.pid, fixture.DefaultWait); err != nil {
							errs <- fmt.Errorf("publisher %s: PUBACK %d: %w", sd.cl.ID, sd.pid, err)
							return
						}
					}
				}(pi)
			}
			var lv *ev.Violation
			switch op.How {
			case "takeover_clean":
				lv = connect(x, true)
			case "terminate":
				b.Srv.ClientService().TerminateSession(clientName(x))
				if !waitSessionGone(b, clientName(x)) {
					lv = ev.Violf("C11.terminate", "session of client %d still present 5 s after TerminateSession", x)
				} else {
					lv = connect(x, true)
				}
			case "disconnect0":
				// the client keeps reading until the broker closes the connection: closing first, while the broker is still
				// writing to it, may end the connection with a write error before the DISCONNECT packet is handled
				_ = cl.Send(&mw.Packet{Type: mw.DISCONNECT, Props: &mw.Props{SessionExpiry: u32p(0)}})
				cl.WaitClosed(fixture.DefaultWait)
				cl.Kill()
				if !waitSessionGone(b, clientName(x)) {
					lv = ev.Violf("C11.disconnect-expiry0", "session of client %d still present 5 s after DISCONNECT with Session Expiry Interval 0", x)
				} else {
					lv = connect(x, true)
				}
			}
			wg.Wait()
			raceOn.Store(false)
			if lv != nil {
				return lv
			}
			select {
			case err := <-errs:
				return ev.Violf("C11.publish-ack", "race: %v", err)
			default:
			}
			for gf, m := range shared {
				if _, ok := m[x]; ok {
					leftRecently[gf] = true
				}
			}
			leaveAll(x)
			c.Label("race_" + op.How)
		case "pub":
			uid := fmt.Sprintf("m%03d", len(pubs)+1)
			rec := pubRec{uid: uid, topic: op.Topic, qos: op.QoS, members: map[string]map[int]uint32{}, ns: map[uint32]bool{},
				offline: map[int]bool{}, maybe: map[string]bool{}, nsMaybe: map[uint32]bool{}}
			for ci := range online {
				if !online[ci] {
					rec.offline[ci] = true
				}
			}
			for gf, m := range shared {
				_, f := splitGF(gf)
				if len(m) > 0 && topicref.Match(op.Topic, f) {
					cp := map[int]uint32{}
					for k, v := range m {
						cp[k] = v
					}
					rec.members[gf] = cp
					if leftRecently[gf] {
						c.NonTrivial()
						c.Label("publish_after_leave_with_remaining_member")
					}
				}
			}
			for ci := range nonshared {
				for f, id := range nonshared[ci] {
					if topicref.Match(op.Topic, f) {
						rec.ns[id] = true
					}
				}
			}
			pubs = append(pubs, rec)
			if op.By > 0 && op.By-1 < s.Clients && online[op.By-1] {
				// a member (or a plain subscriber) publishes itself: it is still a candidate of its own groups
				pc := cur[op.By-1]
				pk := &mw.Packet{Topic: op.Topic, QoS: op.QoS, Payload: []byte(uid)}
				if op.QoS > 0 {
					pid++
					pk.PacketID = pid
				}
				if _, err := pc.Publish(pk); err != nil {
					return ev.Violf("C11.publish-ack", "client %d: PUBLISH %q QoS %d not acknowledged: %v", op.By-1, op.Topic, op.QoS, err)
				}
				if op.QoS == 0 {
					if err := pc.Ping(fixture.DefaultWait); err != nil { // the QoS0 publish has been handled
						return ev.Violf("C11.publish-ack", "client %d: no PINGRESP after a QoS0 publish: %v", op.By-1, err)
					}
				}
				for _, m := range rec.members {
					if _, ok := m[op.By-1]; ok {
						c.Label("publisher_is_group_member")
						if len(m) == 1 {
							c.Label("publisher_is_only_member")
						}
					}
				}
			} else {
				b.Srv.Publisher().Publish(&gmqtt.Message{Topic: op.Topic, QoS: op.QoS, Payload: []byte(uid)})
			}
		}
	}
	// drain: bring every offline member back, then barrier
	var live []*fixture.Client
	for i := 0; i < s.Clients; i++ {
		if !online[i] {
			if v := connect(i, false); v != nil {
				return v
			}
		}
		live = append(live, cur[i])
	}
	if err := sentinelBarrier(b, live, "end"); err != nil {
		return ev.Violf("C11.barrier", "%v", err)
	}
	// attribute every received copy
	sharedCopies := map[string]int{} // uid|gf -> count
	nsCopies := map[string]int{}     // uid|client -> count (onlyonce) or uid|id (overlap)
	byUID := map[string]*pubRec{}
	for i := range pubs {
		byUID[pubs[i].uid] = &pubs[i]
	}
	for ci, cs := range conns {
		for _, cl := range cs {
			for _, r := range cl.All() {
				p := r.P
				if p.Type != mw.PUBLISH || isSentinel(p) || string(p.Payload) == "RETAINED" {
					continue
				}
				rec := byUID[string(p.Payload)]
				if rec == nil {
					return ev.Violf("C11.unknown-message", "client %d received unknown message %s", ci, p)
				}
				if p.Dup {
					// cannot happen: members are quiesced before they go offline
					return ev.Violf("C11.unexpected-dup", "client %d received a retransmission %s although nothing was in flight when it went offline", ci, p)
				}
				var ids []uint32
				if p.Props != nil {
					ids = p.Props.SubscriptionIDs
				}
				if len(ids) == 0 {
					return ev.Violf("C11.no-subid", "client %d received %s without a subscription identifier", ci, p)
				}
				sub := subByID[ids[0]]
				for _, id := range ids {
					if subEpoch[id] != connEpoch[cl] {
						return ev.Violf("C11.delivered-to-leaver", "message %s (topic %q) was delivered to client %d on a connection of its session #%d through subscription id %d, which belonged to its session #%d: that session (and its membership) had ended", rec.uid, rec.topic, ci, connEpoch[cl], id, subEpoch[id]).
							With("gf", subByID[id].gf)
					}
				}
				if sub.gf != "" {
					if len(ids) != 1 {
						return ev.Violf("C11.subid", "shared copy carries %d subscription identifiers", len(ids))
					}
					if sub.client != ci {
						return ev.Violf("C11.wrong-client", "copy attributed to client %d's subscription arrived at client %d", sub.client, ci)
					}
					mem := rec.members[sub.gf]
					if mid, ok := mem[ci]; !ok || mid != ids[0] {
						return ev.Violf("C11.delivered-to-leaver", "message %s (topic %q) for group|filter %q was delivered to client %d whose membership (sub id %d) was not live when it was published; live members: %v", rec.uid, rec.topic, sub.gf, ci, ids[0], mem).
							With("gf", sub.gf)
					}
					if p.QoS != minB(rec.qos, sub.qos) {
						return ev.Violf("C11.qos", "shared copy of %s for %q delivered at QoS %d, expected min(%d,%d)", rec.uid, sub.gf, p.QoS, rec.qos, sub.qos)
					}
					sharedCopies[rec.uid+"|"+sub.gf]++
				} else {
					for _, id := range ids {
						if !rec.ns[id] {
							return ev.Violf("C11.nonshared-extra", "message %s delivered through non-shared subscription id %d which did not match / was not live", rec.uid, id)
						}
						nsCopies[fmt.Sprintf("%s|%d", rec.uid, id)]++
					}
				}
			}
		}
	}
	for _, rec := range pubs {
		for gf, mem := range rec.members {
			_, leaverIn := mem[rec.leaver-1]
			// race: the copy may have been given to the leaver just before its session ended, and died with it
			if n := sharedCopies[rec.uid+"|"+gf]; n != 1 && !(n == 0 && (rec.maybe[gf] || (rec.leaver > 0 && leaverIn))) {
				return ev.Violf("C11.exactly-one", "message %s (topic %q, qos %d): %d copies delivered to group|filter %q with live members %v (expected exactly 1)", rec.uid, rec.topic, rec.qos, n, gf, mem).
					With("copies", n, "gf", gf)
			}
			c.Count("group_deliveries", 1)
		}
		for id := range rec.ns {
			if n := nsCopies[fmt.Sprintf("%s|%d", rec.uid, id)]; n != 1 && !(n == 0 && (rec.nsMaybe[id] || (rec.leaver > 0 && subByID[id].client == rec.leaver-1))) {
				return ev.Violf("C11.nonshared", "message %s: %d copies through non-shared subscription id %d (expected 1)", rec.uid, n, id).With("mode", s.Mode)
			}
		}
	}
	return nil
}

// quiesce makes sure nothing is in flight towards cl: everything queued has been received
// and acknowledged (auto-ack) and the broker has processed the acknowledgements.
func quiesce(b *fixture.Broker, cl *fixture.Client) *ev.Violation {
	if err := sentinelBarrier(b, []*fixture.Client{cl}, "q"+fmt.Sprint(time.Now().UnixNano())); err != nil {
		return ev.Violf("C11.barrier", "%v", err)
	}
	for k := 0; k < 3; k++ {
		if err := cl.Ping(fixture.DefaultWait); err != nil {
			return ev.Violf("C11.ping", "%v", err)
		}
	}
	return nil
}

func splitGF(gf string) (string, string) {
	for i := 0; i < len(gf); i++ {
		if gf[i] == '|' {
			return gf[:i], gf[i+1:]
		}
	}
	return "", gf
}

func TestC11Broker(t *testing.T) {
	ev.Run(t, "C11", genC11, runC11)
}
