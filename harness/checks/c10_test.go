package checks

// C10 — Session message queue: bounded, FIFO, conserving, drops by documented priority.

import (
	"fmt"
	"testing"
	"time"

	"github.com/DrmagicE/gmqtt"
	"github.com/DrmagicE/gmqtt/persistence/queue"
	memq "github.com/DrmagicE/gmqtt/persistence/queue/mem"
	"github.com/DrmagicE/gmqtt/pkg/packets"
	"pgregory.net/rapid"

	"verif/ev"
)

type qOp struct {
	Op    string `json:"op"`            // add read readinflight remove lateremove earlyremove replace init close tick
	QoS   byte   `json:"qos,omitempty"` // add
	Exp   string `json:"exp,omitempty"` // add: none|past|future
	Big   bool   `json:"big,omitempty"` // add: larger than the read limit
	N     int    `json:"n,omitempty"`   // read / readinflight
	K     int    `json:"k,omitempty"`   // remove / replace: k-th sent in-flight entry
	Clean bool   `json:"clean,omitempty"`
}

type c10Scen struct {
	Backend        string `json:"backend"`
	Cap            int    `json:"cap"`
	InflightExpiry string `json:"inflight_expiry"` // 0 | 1ns | 1h
	Ops            []qOp  `json:"ops"`
}

const qReadLimit = 200

type qEntry struct {
	uid         int
	qos         byte
	exp         string // queued: none|past|future
	big         bool
	id          uint16 // != 0: in flight
	pubrel      bool
	sent        bool // handed out on the current connection (read or replayed)
	relReplayed bool
}

type dropRec struct {
	uid    int // -1: pubrel
	id     uint16
	reason error
}

type recNotifier struct {
	drops    []dropRec
	queueSum int
	inflSum  int
}

func (n *recNotifier) NotifyDropped(elem *queue.Elem, err error) {
	d := dropRec{uid: -1, id: elem.ID(), reason: err}
	if p, ok := elem.MessageWithID.(*queue.Publish); ok {
		d.uid = uidOfPayload(p.Payload)
	}
	n.drops = append(n.drops, d)
}
func (n *recNotifier) NotifyInflightAdded(delta int) { n.inflSum += delta }
func (n *recNotifier) NotifyMsgQueueAdded(delta int) { n.queueSum += delta }

func uidOfPayload(p []byte) int {
	var u int
	fmt.Sscanf(string(p), "%d", &u)
	return u
}

func genQOps(t *rapid.T, maxOps int) []qOp {
	n := rapid.IntRange(1, maxOps).Draw(t, "nops")
	ops := make([]qOp, 0, n)
	for i := 0; i < n; i++ {
		switch k := rapid.IntRange(0, 19).Draw(t, "kind"); {
		case k <= 8:
			ops = append(ops, qOp{Op: "add", QoS: byte(rapid.IntRange(0, 2).Draw(t, "qos")),
				Exp: rapid.SampledFrom([]string{"none", "none", "future", "past"}).Draw(t, "exp"),
				Big: rapid.IntRange(0, 7).Draw(t, "big") == 0})
		case k <= 12:
			ops = append(ops, qOp{Op: "read", N: rapid.IntRange(1, 4).Draw(t, "n")})
		case k <= 14:
			if l := rapid.IntRange(0, 4).Draw(t, "late"); l == 0 {
				ops = append(ops, qOp{Op: "lateremove", K: rapid.IntRange(0, 3).Draw(t, "k")})
			} else if l == 1 {
				ops = append(ops, qOp{Op: "earlyremove", K: rapid.IntRange(0, 3).Draw(t, "k")})
			} else {
				ops = append(ops, qOp{Op: "remove", K: rapid.IntRange(0, 3).Draw(t, "k")})
			}
		case k == 15:
			ops = append(ops, qOp{Op: "replace", K: rapid.IntRange(0, 3).Draw(t, "k")})
		case k == 16:
			ops = append(ops, qOp{Op: "readinflight", N: rapid.IntRange(1, 3).Draw(t, "n")})
		case k == 17:
			ops = append(ops, qOp{Op: "close"})
		default:
			ops = append(ops, qOp{Op: "init", Clean: rapid.IntRange(0, 5).Draw(t, "clean") == 0})
			// sometimes an acknowledgement arrives before the first replay batch, or between two batches
			if rapid.IntRange(0, 3).Draw(t, "early") == 0 {
				ops = append(ops, qOp{Op: "earlyremove", K: rapid.IntRange(0, 3).Draw(t, "k")})
			}
			ops = append(ops, qOp{Op: "readinflight", N: rapid.IntRange(1, 3).Draw(t, "n")})
		}
	}
	return ops
}

func genC10(backend string) func(t *rapid.T) c10Scen {
	return func(t *rapid.T) c10Scen {
		s := c10Scen{Backend: backend, Cap: rapid.IntRange(1, 6).Draw(t, "cap"),
			InflightExpiry: rapid.SampledFrom([]string{"0", "1h", "1ns"}).Draw(t, "ie"),
			Ops:            genQOps(t, 40)}
		// The redis element format has whole-second timestamps: what is written back when an in-flight entry is handed
		// out again differs from what was read only if a second boundary lies in between. One "tick" (sleep until
		// the next wall-clock second has begun) in an eighth of the redis histories makes that happen.
		if backend == "redis" && len(s.Ops) >= 3 && rapid.IntRange(0, 7).Draw(t, "tick") == 0 {
			at := rapid.IntRange(1, len(s.Ops)-1).Draw(t, "tick_at")
			ops := append([]qOp{}, s.Ops[:at]...)
			ops = append(ops, qOp{Op: "tick"})
			s.Ops = append(ops, s.Ops[at:]...)
		}
		return s
	}
}

type qModel struct {
	cap      int
	ie       string
	entries  []*qEntry // in-flight prefix, then queued
	open     bool
	drained  bool
	replayed int // number of in-flight entries replayed since the last non-clean Init
	nextUID  int
	nextID   uint16
	gone     []uint16 // packet ids of sent in-flight entries the store dropped as expired: the client may still acknowledge them
}

func (m *qModel) inflight() (out []*qEntry) {
	for _, e := range m.entries {
		if e.id != 0 {
			out = append(out, e)
		}
	}
	return
}
func (m *qModel) queued() (out []*qEntry) {
	for _, e := range m.entries {
		if e.id == 0 {
			out = append(out, e)
		}
	}
	return
}
func (m *qModel) remove(x *qEntry) {
	for i, e := range m.entries {
		if e == x {
			m.entries = append(m.entries[:i:i], m.entries[i+1:]...)
			return
		}
	}
}

// An in-flight entry gets the in-flight expiry when it is handed out (Read / ReadInflight); a PUBREL
// installed by Replace has no expiry until it is replayed.
func (m *qModel) inflightExpired(e *qEntry) bool {
	return e.id != 0 && m.ie == "1ns" && (!e.pubrel || e.relReplayed)
}
func (m *qModel) freshID() uint16 {
	for {
		m.nextID++
		if m.nextID == 0 {
			m.nextID = 1
		}
		used := false
		for _, e := range m.entries {
			if e.id == m.nextID {
				used = true
			}
		}
		if !used {
			return m.nextID
		}
	}
}

func dur(s string) time.Duration {
	switch s {
	case "1ns":
		return time.Nanosecond
	case "1h":
		return time.Hour
	}
	return 0
}

type queueFactory func(cap int, ie time.Duration, n queue.Notifier) (queue.Store, func(), error)

func memQueueFactory(cap int, ie time.Duration, n queue.Notifier) (queue.Store, func(), error) {
	q, err := memq.New(memq.Options{MaxQueuedMsg: cap, InflightExpiry: ie, ClientID: "cid", DefaultNotifier: n})
	return q, func() {}, err
}

func runQueue(f queueFactory, s c10Scen, c *ev.Case) (viol *ev.Violation) {
	notifier := &recNotifier{}
	st, cleanup, err := f(s.Cap, dur(s.InflightExpiry), notifier)
	if err != nil {
		return ev.Violf("C10.new", "constructor failed: %v", err)
	}
	defer cleanup()
	step := -1
	defer func() {
		if r := recover(); r != nil {
			viol = ev.Violf("C10.panic", "queue panicked at step %d: %v", step, r).With("step", step)
		}
	}()
	m := &qModel{cap: s.Cap, ie: s.InflightExpiry}
	doInit := func(clean bool) *ev.Violation {
		err := st.Init(&queue.InitOptions{CleanStart: clean, Version: packets.Version5, ReadBytesLimit: qReadLimit, Notifier: notifier})
		if err != nil {
			return ev.Violf("C10.init-error", "Init returned %v", err)
		}
		if clean {
			m.entries, m.gone = nil, nil
			notifier.queueSum, notifier.inflSum = 0, 0 // nothing is reported for a clean start: new baseline
		}
		m.open, m.drained, m.replayed = true, false, 0
		for _, e := range m.entries {
			e.sent = false
		}
		return nil
	}
	if v := doInit(true); v != nil {
		return v
	}
	// a fresh queue has no in-flight entries: drain once so reads are allowed
	if rs, err := st.ReadInflight(1); err != nil || len(rs) != 0 {
		return ev.Violf("C10.readinflight", "fresh queue: ReadInflight returned %d elems, err %v", len(rs), err)
	}
	m.drained = true
	sawFullDrop, sawReplay := false, false

	check := func() *ev.Violation {
		if len(m.entries) > m.cap {
			return ev.Violf("C10.harness", "model length %d exceeds capacity %d", len(m.entries), m.cap)
		}
		if notifier.queueSum != len(m.entries) {
			return ev.Violf("C10.queue-counter", "sum of NotifyMsgQueueAdded=%d, true length=%d", notifier.queueSum, len(m.entries))
		}
		if notifier.inflSum != len(m.inflight()) {
			return ev.Violf("C10.inflight-counter", "sum of NotifyInflightAdded=%d, true in-flight=%d", notifier.inflSum, len(m.inflight()))
		}
		if notifier.queueSum > m.cap {
			return ev.Violf("C10.bounded", "reported queue length %d exceeds capacity %d", notifier.queueSum, m.cap)
		}
		return nil
	}

	for i, op := range s.Ops {
		step = i
		notifier.drops = nil
		switch op.Op {
		case "add":
			m.nextUID++
			e := &qEntry{uid: m.nextUID, qos: op.QoS, exp: op.Exp, big: op.Big}
			now := time.Now()
			var exp time.Time
			switch op.Exp {
			case "past":
				exp = now.Add(-time.Hour)
			case "future":
				exp = now.Add(time.Hour)
			}
			pl := fmt.Sprintf("%d ", e.uid)
			if op.Big {
				pl += string(make([]byte, qReadLimit+100))
			}
			c.Logf("step %d: add uid=%d qos=%d exp=%s big=%v | model %s", i, e.uid, e.qos, e.exp, e.big, m.String())
			err := st.Add(&queue.Elem{At: now, Expiry: exp, MessageWithID: &queue.Publish{Message: &gmqtt.Message{QoS: op.QoS, Topic: "t", Payload: []byte(pl)}}})
			if err != nil {
				return ev.Violf("C10.add-error", "Add returned %v", err)
			}
			if len(m.entries) < m.cap {
				if len(notifier.drops) != 0 {
					return ev.Violf("C10.drop-when-not-full", "queue not full (%d/%d) but %d drop(s) reported: %v", len(m.entries), m.cap, len(notifier.drops), notifier.drops)
				}
				m.entries = append(m.entries, e)
				break
			}
			// full: the ladder
			sawFullDrop = true
			if len(notifier.drops) != 1 {
				return ev.Violf("C10.drop-count", "queue full: expected exactly one reported drop, got %v", notifier.drops)
			}
			d := notifier.drops[0]
			var cands []*qEntry
			var wantReason error
			rung := ""
			infl, qd := m.inflight(), m.queued()
			for _, x := range infl {
				if m.inflightExpired(x) {
					cands = append(cands, x)
				}
			}
			if len(cands) > 0 {
				wantReason, rung = queue.ErrDropExpiredInflight, "expired-inflight"
			} else {
				for _, x := range qd {
					if x.exp == "past" {
						cands = append(cands, x)
					}
				}
				if len(cands) > 0 {
					wantReason, rung = queue.ErrDropExpired, "expired-queued"
				} else {
					for _, x := range qd {
						if x.qos == 0 {
							cands = append(cands, x)
						}
					}
					if len(cands) > 0 {
						wantReason, rung = queue.ErrDropQueueFull, "queued-qos0"
					} else if e.qos == 0 || len(qd) == 0 {
						cands, wantReason, rung = []*qEntry{e}, queue.ErrDropQueueFull, "newcomer"
					} else {
						cands, wantReason, rung = []*qEntry{qd[0]}, queue.ErrDropQueueFull, "oldest-queued"
					}
				}
			}
			c.Label("rung:" + rung)
			var hit *qEntry
			for _, x := range cands {
				if x.uid == d.uid || (x.pubrel && d.uid == -1 && d.id == x.id) {
					hit = x
				}
			}
			if hit == nil {
				return ev.Violf("C10.drop-ladder", "queue full, rung %q: expected a drop among uids %v, store dropped uid=%d (%v); model %s", rung, uidsOf(cands), d.uid, d.reason, m.String()).
					With("rung", rung, "drained", m.drained)
			}
			if d.reason != wantReason {
				return ev.Violf("C10.drop-reason", "rung %q: dropped uid=%d with reason %v, expected %v", rung, d.uid, d.reason, wantReason).With("rung", rung)
			}
			if hit != e && hit.id != 0 && hit.sent {
				m.gone = append(m.gone, hit.id)
			}
			if hit != e {
				if hit.id != 0 && !m.drained {
					for j, y := range m.inflight() {
						if y == hit && j < m.replayed {
							m.replayed--
						}
					}
				}
				m.remove(hit)
				m.entries = append(m.entries, e)
			}
		case "read":
			if !m.open || !m.drained || len(m.queued()) == 0 {
				c.Count("skipped_ops", 1)
				continue
			}
			ids := make([]packets.PacketID, 0, op.N)
			save := m.nextID
			for j := 0; j < op.N; j++ {
				ids = append(ids, m.freshIDExcluding(ids))
			}
			_ = save
			c.Logf("step %d: read ids=%v | model %s", i, ids, m.String())
			rs, err := st.Read(ids)
			if err != nil {
				return ev.Violf("C10.read-error", "Read returned %v", err)
			}
			// prefix-consistency: returned ∪ dropped must be a prefix of the queued list
			ri, di, idi := 0, 0, 0
			processed := 0
			for _, x := range m.queued() {
				if ri == len(rs) && di == len(notifier.drops) {
					break
				}
				mustDrop := x.exp == "past" || x.big
				if mustDrop {
					if di < len(notifier.drops) && notifier.drops[di].uid == x.uid {
						r := notifier.drops[di].reason
						okReason := (x.exp == "past" && r == queue.ErrDropExpired) || (x.big && r == queue.ErrDropExceedsMaxPacketSize)
						if !okReason {
							return ev.Violf("C10.read-drop-reason", "uid=%d (exp=%s big=%v) dropped during read with reason %v", x.uid, x.exp, x.big, r)
						}
						di++
						m.remove(x)
						processed++
						continue
					}
					if ri < len(rs) && uidOfElem(rs[ri]) == x.uid {
						return ev.Violf("C10.read-returned-bad", "Read returned uid=%d which is expired=%v oversize=%v", x.uid, x.exp == "past", x.big).With("expired", x.exp == "past", "oversize", x.big)
					}
					return ev.Violf("C10.read-order", "Read skipped uid=%d (neither returned nor dropped); returned %v dropped %v; model %s", x.uid, uidsOfElems(rs), notifier.drops, m.String())
				}
				if ri < len(rs) && uidOfElem(rs[ri]) == x.uid {
					got := rs[ri]
					if x.qos == 0 {
						if got.ID() != 0 {
							return ev.Violf("C10.read-id-qos0", "QoS0 uid=%d was given packet id %d", x.uid, got.ID())
						}
						m.remove(x)
					} else {
						if idi >= len(ids) {
							return ev.Violf("C10.read-too-many", "Read returned more QoS>0 messages than ids supplied (%d)", len(ids))
						}
						if got.ID() != ids[idi] {
							return ev.Violf("C10.read-id-order", "uid=%d got packet id %d, expected the %d-th supplied id %d", x.uid, got.ID(), idi, ids[idi])
						}
						x.id, x.sent = ids[idi], true
						idi++
					}
					ri++
					processed++
					continue
				}
				return ev.Violf("C10.read-order", "Read out of order: next queued uid=%d, returned %v dropped %v; model %s", x.uid, uidsOfElems(rs), notifier.drops, m.String())
			}
			if ri != len(rs) || di != len(notifier.drops) {
				return ev.Violf("C10.read-extra", "Read returned/dropped elements that are not queued: returned %v dropped %v; model %s", uidsOfElems(rs), notifier.drops, m.String())
			}
			if processed == 0 {
				return ev.Violf("C10.read-progress", "Read with %d ids made no progress on a non-empty queue", len(ids))
			}
			if len(rs) > len(ids) {
				return ev.Violf("C10.read-batch", "Read returned %d elements for %d ids", len(rs), len(ids))
			}
			c.Label("read")
		case "readinflight":
			if !m.open {
				c.Count("skipped_ops", 1)
				continue
			}
			c.Logf("step %d: readinflight n=%d | model %s", i, op.N, m.String())
			rs, err := st.ReadInflight(uint(op.N))
			if err != nil {
				return ev.Violf("C10.readinflight-error", "ReadInflight returned %v", err)
			}
			infl := m.inflight()
			if m.drained {
				if len(rs) != 0 {
					return ev.Violf("C10.replay-extra", "ReadInflight after drain returned %d elements", len(rs))
				}
				break
			}
			rem := infl[m.replayed:]
			want := len(rem)
			if want > op.N {
				want = op.N
			}
			if len(rs) != want {
				return ev.Violf("C10.replay-count", "ReadInflight(%d) returned %d elements, model has %d unreplayed in-flight entries: got %v; model %s", op.N, len(rs), len(rem), idsOfElems(rs), m.String()).With("clean", false)
			}
			for j, got := range rs {
				x := rem[j]
				if got.ID() != x.id {
					return ev.Violf("C10.replay-id", "replayed element %d has id %d, model expects id %d (uid %d)", j, got.ID(), x.id, x.uid)
				}
				_, isRel := got.MessageWithID.(*queue.Pubrel)
				if isRel != x.pubrel {
					return ev.Violf("C10.replay-kind", "replayed id %d: pubrel=%v, model pubrel=%v", x.id, isRel, x.pubrel)
				}
				if !isRel && uidOfElem(got) != x.uid {
					return ev.Violf("C10.replay-msg", "replayed id %d carries uid %d, model uid %d", x.id, uidOfElem(got), x.uid)
				}
				x.sent = true
				if x.pubrel {
					x.relReplayed = true
				}
			}
			m.replayed += len(rs)
			if len(rs) == 0 {
				m.drained = true
			}
			if len(rs) > 0 {
				sawReplay = true
				c.Label("replay_nonempty")
			}
		case "remove", "replace":
			var sent []*qEntry
			for _, x := range m.inflight() {
				if x.sent {
					sent = append(sent, x)
				}
			}
			if !m.open || len(sent) == 0 {
				c.Count("skipped_ops", 1)
				continue
			}
			x := sent[op.K%len(sent)]
			c.Logf("step %d: %s id=%d | model %s", i, op.Op, x.id, m.String())
			if op.Op == "remove" {
				if err := st.Remove(x.id); err != nil {
					return ev.Violf("C10.remove-error", "Remove returned %v", err)
				}
				// position matters for the replay cursor
				idx := 0
				for j, y := range m.inflight() {
					if y == x {
						idx = j
					}
				}
				if !m.drained && idx < m.replayed {
					m.replayed--
				}
				m.remove(x)
				c.Label("remove")
			} else {
				if x.pubrel || x.qos != 2 {
					c.Count("skipped_ops", 1)
					continue
				}
				ok, err := st.Replace(&queue.Elem{At: time.Now(), MessageWithID: &queue.Pubrel{PacketID: x.id}})
				if err != nil || !ok {
					return ev.Violf("C10.replace", "Replace(id=%d) = %v, %v; expected replaced", x.id, ok, err)
				}
				x.pubrel, x.relReplayed = true, false
				c.Label("replace")
			}
		case "earlyremove":
			// after a resume (non-clean Init) the client acknowledges an in-flight message BEFORE the store has handed it
			// out again (the PUBACK overtakes the replay): both backends ignore it, the entry is replayed as usual
			var cand []*qEntry
			for _, x := range m.inflight() {
				if !x.sent {
					cand = append(cand, x)
				}
			}
			if !m.open || len(cand) == 0 {
				c.Count("skipped_ops", 1)
				continue
			}
			x := cand[op.K%len(cand)]
			c.Logf("step %d: early remove id=%d (not replayed yet) | model %s", i, x.id, m.String())
			if err := st.Remove(x.id); err != nil {
				return ev.Violf("C10.remove-error", "Remove of an in-flight id that has not been replayed yet returned %v", err)
			}
			if len(notifier.drops) != 0 {
				return ev.Violf("C10.early-remove", "Remove of id %d (in flight, not replayed since the resume) reported drops %v", x.id, notifier.drops)
			}
			c.Label("early_remove_before_replay")
		case "lateremove":
			// the client acknowledges a message the store has already given up on (dropped as expired in flight):
			// nothing is there to remove, nothing may change
			var cand []uint16
			for _, id := range m.gone {
				live := false
				for _, x := range m.inflight() {
					live = live || x.id == id
				}
				if !live {
					cand = append(cand, id)
				}
			}
			if !m.open || len(cand) == 0 {
				c.Count("skipped_ops", 1)
				continue
			}
			id := cand[op.K%len(cand)]
			c.Logf("step %d: late remove id=%d | model %s", i, id, m.String())
			if err := st.Remove(id); err != nil {
				return ev.Violf("C10.remove-error", "Remove of an id that is no longer in the queue returned %v", err)
			}
			if len(notifier.drops) != 0 {
				return ev.Violf("C10.late-remove", "Remove of id %d (dropped earlier as expired in flight) reported drops %v", id, notifier.drops)
			}
			c.Label("late_remove_after_inflight_expiry_drop")
		case "init":
			c.Logf("step %d: init clean=%v | model %s", i, op.Clean, m.String())
			if m.open {
				_ = st.Close()
			}
			if v := doInit(op.Clean); v != nil {
				return v
			}
			if !op.Clean && len(m.inflight()) > 0 {
				c.Label("reinit_with_inflight")
			}
			if len(m.inflight()) == 0 || op.Clean {
				// caller contract: drain before reading. With nothing in flight one call suffices.
			}
		case "tick":
			c.Logf("step %d: tick (next wall-clock second)", i)
			time.Sleep(time.Until(time.Now().Truncate(time.Second).Add(time.Second + 20*time.Millisecond)))
			c.Label("second_boundary_crossed")
		case "close":
			if !m.open {
				c.Count("skipped_ops", 1)
				continue
			}
			c.Logf("step %d: close", i)
			if err := st.Close(); err != nil {
				return ev.Violf("C10.close-error", "Close returned %v", err)
			}
			m.open = false
		}
		if v := check(); v != nil {
			return v.With("step", i, "op", op.Op)
		}
	}
	// final drain: everything still in the model must come out (conservation)
	if v := finalDrain(st, m, notifier, c); v != nil {
		return v
	}
	if sawFullDrop || sawReplay {
		c.NonTrivial()
	}
	if sawFullDrop {
		c.Label("full_with_drop")
	}
	return nil
}

func finalDrain(st queue.Store, m *qModel, notifier *recNotifier, c *ev.Case) *ev.Violation {
	if m.open {
		_ = st.Close()
	}
	if err := st.Init(&queue.InitOptions{CleanStart: false, Version: packets.Version5, ReadBytesLimit: qReadLimit, Notifier: notifier}); err != nil {
		return ev.Violf("C10.init-error", "final Init returned %v", err)
	}
	var replay []*queue.Elem
	for k := 0; k < 100; k++ {
		rs, err := st.ReadInflight(10)
		if err != nil {
			return ev.Violf("C10.readinflight-error", "final ReadInflight returned %v", err)
		}
		if len(rs) == 0 {
			break
		}
		replay = append(replay, rs...)
	}
	infl := m.inflight()
	if len(replay) != len(infl) {
		return ev.Violf("C10.conservation-inflight", "final replay returned ids %v, model in-flight %s", idsOfElems(replay), m.String())
	}
	for j, x := range infl {
		if replay[j].ID() != x.id {
			return ev.Violf("C10.conservation-inflight", "final replay ids %v differ from model %s", idsOfElems(replay), m.String())
		}
		if err := st.Remove(x.id); err != nil {
			return ev.Violf("C10.remove-error", "Remove returned %v", err)
		}
		m.remove(x)
	}
	// now read everything queued
	for len(m.queued()) > 0 {
		notifier.drops = nil
		ids := []packets.PacketID{60001, 60002, 60003, 60004, 60005, 60006}
		rs, err := st.Read(ids)
		if err != nil {
			return ev.Violf("C10.read-error", "final Read returned %v", err)
		}
		n := len(rs) + len(notifier.drops)
		if n == 0 {
			return ev.Violf("C10.conservation", "final Read made no progress; model %s", m.String())
		}
		q := m.queued()
		if n > len(q) {
			return ev.Violf("C10.conservation", "final Read produced %d elements, model has %d queued", n, len(q))
		}
		ri, di := 0, 0
		for _, x := range q[:n] {
			if x.exp == "past" || x.big {
				if di >= len(notifier.drops) || notifier.drops[di].uid != x.uid {
					return ev.Violf("C10.conservation", "final drain: uid %d should have been dropped; returned %v dropped %v", x.uid, uidsOfElems(rs), notifier.drops)
				}
				di++
			} else {
				if ri >= len(rs) || uidOfElem(rs[ri]) != x.uid {
					return ev.Violf("C10.conservation", "final drain: uid %d missing or out of order; returned %v dropped %v; model %s", x.uid, uidsOfElems(rs), notifier.drops, m.String())
				}
				if x.qos > 0 {
					_ = st.Remove(rs[ri].ID())
				}
				ri++
			}
			m.remove(x)
		}
	}
	if notifier.queueSum != 0 || notifier.inflSum != 0 {
		return ev.Violf("C10.final-counters", "after draining everything the counters report queue=%d inflight=%d", notifier.queueSum, notifier.inflSum)
	}
	return nil
}

func (m *qModel) freshIDExcluding(taken []packets.PacketID) uint16 {
	for {
		id := m.freshID()
		dup := false
		for _, t := range taken {
			if t == id {
				dup = true
			}
		}
		if !dup {
			return id
		}
	}
}

func (m *qModel) String() string {
	s := fmt.Sprintf("[cap=%d ie=%s open=%v drained=%v replayed=%d:", m.cap, m.ie, m.open, m.drained, m.replayed)
	for _, e := range m.entries {
		k := "q"
		if e.id != 0 {
			k = fmt.Sprintf("id%d", e.id)
			if e.pubrel {
				k += "rel"
			}
		}
		s += fmt.Sprintf(" u%d/q%d/%s/%s", e.uid, e.qos, e.exp, k)
		if e.big {
			s += "/big"
		}
	}
	return s + "]"
}

func uidsOf(es []*qEntry) (out []int) {
	for _, e := range es {
		out = append(out, e.uid)
	}
	return
}
func uidOfElem(e *queue.Elem) int {
	if p, ok := e.MessageWithID.(*queue.Publish); ok {
		return uidOfPayload(p.Payload)
	}
	return -1
}
func uidsOfElems(es []*queue.Elem) (out []int) {
	for _, e := range es {
		out = append(out, uidOfElem(e))
	}
	return
}
func idsOfElems(es []*queue.Elem) (out []uint16) {
	for _, e := range es {
		out = append(out, e.ID())
	}
	return
}

const c10Rule = "rapid-generated histories (<=40 ops) of Add(QoS0-2, expiry none/past/future, size below/above the read limit) / Read(1-4 fresh ids) / ReadInflight(n) / Remove / Replace(PUBREL) / Init(clean|not) / Close on a queue of capacity 1-6 with inflight expiry 0/1ns/1h, run in lock-step against a slice model with the drop ladder written as in the property; API preconditions by construction (ops whose precondition fails are skipped and counted). Non-trivial: the history reaches capacity with a drop, or replays in-flight entries after a non-clean Init; distinct by scenario digest."

func TestC10Mem(t *testing.T) {
	ev.SetRule("C10", c10Rule)
	ev.Run(t, "C10", genC10("mem"), func(s c10Scen, c *ev.Case) *ev.Violation {
		return runQueue(memQueueFactory, s, c)
	})
}

func TestC10Redis(t *testing.T) {
	ev.RunN(t, "C10", 0.25, genC10("redis"), func(s c10Scen, c *ev.Case) *ev.Violation {
		c.Label("backend_redis")
		return runQueue(redisQueueFactory, s, c)
	})
}
