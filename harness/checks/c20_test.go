package checks

// C20 — Statistics are conserved: counters equal what actually happened.

import (
	"context"
	"fmt"
	"reflect"
	"sort"
	"strings"
	"sync"
	"testing"
	"time"

	"github.com/DrmagicE/gmqtt"
	"github.com/DrmagicE/gmqtt/persistence/queue"
	"github.com/DrmagicE/gmqtt/pkg/packets"
	"github.com/DrmagicE/gmqtt/server"
	"pgregory.net/rapid"

	"verif/ev"
	"verif/fixture"
	mw "verif/mqttwire"
)

type c20Client struct {
	V          int  `json:"v"`
	Persistent bool `json:"persistent"`
	MaxPkt     int  `json:"max_packet_size,omitempty"` // v5 only; 0 = none
	// ShortExpiry (v5, persistent): Session Expiry Interval 1 s, so that a "sleep" while it is offline lets the
	// session expire before the client comes back without Clean Start (the 20 s sweeper never runs in a case).
	ShortExpiry bool `json:"short_expiry,omitempty"`
	// EmptyID (v5): the first CONNECT carries a zero-length client id; the broker assigns one (CONNACK Assigned Client
	// Identifier), which the client uses from then on and under which its statistics must appear
	EmptyID bool `json:"empty_id,omitempty"`
	// AuthMethod (v5): every CONNECT carries an Authentication Method (accepted by an OnEnhancedAuth hook), so that
	// the client may re-authenticate: AUTH (0x19) sent, AUTH (0x00) received - both belong to the packet statistics
	AuthMethod bool `json:"auth_method,omitempty"`
	// AuthRound (with AuthMethod): the hook answers the CONNECT with "continue": the broker sends AUTH (0x18) before any
	// CONNACK, the client answers AUTH (0x18) after a short pause, then the CONNACK follows - packets are exchanged
	// (and must be counted for this client) before the client id has been accepted
	AuthRound bool `json:"auth_round,omitempty"`
}

type c20Op struct {
	Op     string `json:"op"` // sub unsub pub offline online takeover terminate check
	Client int    `json:"c"`
	Filter string `json:"f,omitempty"`
	Topic  string `json:"t,omitempty"`
	QoS    byte   `json:"q,omitempty"`
	Big    bool   `json:"big,omitempty"`
	Held   bool   `json:"held,omitempty"` // subscribers leave this message unacknowledged
	Clean  bool   `json:"clean,omitempty"`
	Expiry bool   `json:"expiry,omitempty"` // pub through the API with Message Expiry Interval 1 s
	N      int    `json:"n,omitempty"`      // burst: number of QoS 0 publishes
}

type c20Scen struct {
	MaxQueued int         `json:"max_queued"`
	Clients   []c20Client `json:"clients"`
	Ops       []c20Op     `json:"ops"`
	Redis     bool        `json:"redis,omitempty"` // persistence on the redis backend (harness RESP server)
	// InflightExpiryMs > 0: mqtt.inflight_expiry is that short (queue capacity 3), and every publish waits it out first when
	// some session holds an unacknowledged message: a full queue then drops the expired in-flight message (reason InflightExpired)
	InflightExpiryMs int `json:"inflight_expiry_ms,omitempty"`
	// StatsReaders: this many goroutines read GetClientStats / GetGlobalStats all the time (an admin API or exporter
	// polling while traffic flows); together with op "burst" (N QoS 0 publishes through the API without waiting)
	StatsReaders int `json:"stats_readers,omitempty"`
}

func genC20(t *rapid.T) c20Scen {
	s := c20Scen{MaxQueued: rapid.SampledFrom([]int{3, 1000}).Draw(t, "maxq"), Redis: rapid.IntRange(0, 3).Draw(t, "backend") == 0}
	for i := 0; i < 3; i++ {
		c := c20Client{V: rapid.SampledFrom([]int{3, 4, 5, 5}).Draw(t, "v"), Persistent: rapid.IntRange(0, 2).Draw(t, "pers") != 0}
		if c.V == 5 && rapid.IntRange(0, 2).Draw(t, "mp") == 0 {
			c.MaxPkt = 90
		}
		if c.V == 5 && rapid.IntRange(0, 3).Draw(t, "emptyid") == 0 {
			c.EmptyID = true
		}
		if c.V == 5 && rapid.IntRange(0, 2).Draw(t, "authmethod") == 0 {
			c.AuthMethod = true
			c.AuthRound = rapid.Bool().Draw(t, "auth_round")
		}
		if c.V == 5 && c.Persistent && rapid.IntRange(0, 3).Draw(t, "short") == 0 {
			c.ShortExpiry = true
		}
		s.Clients = append(s.Clients, c)
	}
	if rapid.IntRange(0, 3).Draw(t, "inflight_expiry") == 0 {
		s.InflightExpiryMs, s.MaxQueued = 40, 3
	}
	s.StatsReaders = rapid.SampledFrom([]int{0, 0, 1, 2}).Draw(t, "stats_readers")
	n := rapid.IntRange(3, 22).Draw(t, "nops")
	held := 0
	for i := 0; i < n; i++ {
		cl := rapid.IntRange(0, 2).Draw(t, "client")
		switch k := rapid.IntRange(0, 19).Draw(t, "kind"); {
		case k <= 3:
			s.Ops = append(s.Ops, c20Op{Op: "sub", Client: cl, Filter: rapid.SampledFrom([]string{"s/a", "s/+", "s/#"}).Draw(t, "f"), QoS: byte(rapid.IntRange(0, 2).Draw(t, "q"))})
		case k == 4:
			s.Ops = append(s.Ops, c20Op{Op: "unsub", Client: cl, Filter: rapid.SampledFrom([]string{"s/a", "s/+", "s/#"}).Draw(t, "f")})
		case k <= 11:
			op := c20Op{Op: "pub", Client: rapid.IntRange(-1, 2).Draw(t, "by"), Topic: rapid.SampledFrom([]string{"s/a", "s/b"}).Draw(t, "t"),
				QoS: byte(rapid.IntRange(0, 2).Draw(t, "q")), Big: rapid.IntRange(0, 4).Draw(t, "big") == 0}
			if held < 2 && rapid.IntRange(0, 5).Draw(t, "held") <= s.InflightExpiryMs/40 {
				op.Held, op.QoS, op.Big = true, 1, false
				held++
			}
			s.Ops = append(s.Ops, op)
		case k == 12 && s.StatsReaders > 0:
			s.Ops = append(s.Ops, c20Op{Op: "burst", Topic: rapid.SampledFrom([]string{"s/a", "s/b"}).Draw(t, "t"), N: rapid.SampledFrom([]int{50, 200, 400}).Draw(t, "burst_n")})
		case k <= 13:
			s.Ops = append(s.Ops, c20Op{Op: "offline", Client: cl})
		case k <= 15:
			s.Ops = append(s.Ops, c20Op{Op: "online", Client: cl})
		case k == 16:
			s.Ops = append(s.Ops, c20Op{Op: "takeover", Client: cl, Clean: rapid.Bool().Draw(t, "clean")})
		case k == 17:
			s.Ops = append(s.Ops, c20Op{Op: "terminate", Client: cl})
		case k == 18 && s.Clients[cl].AuthMethod:
			s.Ops = append(s.Ops, c20Op{Op: "reauth", Client: cl})
		default:
			s.Ops = append(s.Ops, c20Op{Op: "check"})
		}
	}
	// a message with a 1 s lifetime waits for an offline persistent subscriber until it has expired: dropped with reason Expired
	if rapid.IntRange(0, 5).Draw(t, "expiring") == 0 {
		for i, cl := range s.Clients {
			if cl.Persistent && !cl.ShortExpiry {
				s.Ops = append(s.Ops, c20Op{Op: "sub", Client: i, Filter: "s/#", QoS: 1}, c20Op{Op: "offline", Client: i},
					c20Op{Op: "pub", Client: -1, Topic: "s/a", QoS: 1, Expiry: true}, c20Op{Op: "pub", Client: -1, Topic: "s/b", QoS: 2, Expiry: true},
					c20Op{Op: "sleep"}, c20Op{Op: "online", Client: i}, c20Op{Op: "check"})
				break
			}
		}
	}
	// let the short-lived sessions expire while offline, then bring them back
	for i, cl := range s.Clients {
		if cl.ShortExpiry {
			s.Ops = append(s.Ops, c20Op{Op: "offline", Client: i}, c20Op{Op: "sleep"}, c20Op{Op: "online", Client: i}, c20Op{Op: "check"})
			break
		}
	}
	return s
}

var c20Types = []string{"", "Connect", "Connack", "Publish", "Puback", "Pubrec", "Pubrel", "Pubcomp", "Subscribe", "Suback", "Unsubscribe", "Unsuback", "Pingreq", "Pingresp", "Disconnect", "Auth"}

type c20Ledger struct {
	recvCount, recvBytes, sentCount, sentBytes map[string]uint64 // by packet type name + "Total"
	msgRecv, msgSent                           [3]uint64
	completed                                  uint64 // QoS0 PUBLISH received by the client + PUBACK + PUBCOMP sent by it
	firstQoS12                                 uint64 // first transmissions (DUP=0) of QoS>0 PUBLISH received by the client
	acked12                                    uint64 // PUBACK + PUBCOMP sent by the client
}

func newLedger() *c20Ledger {
	return &c20Ledger{recvCount: map[string]uint64{}, recvBytes: map[string]uint64{}, sentCount: map[string]uint64{}, sentBytes: map[string]uint64{}}
}

func (l *c20Ledger) addConn(cl *fixture.Client) {
	for _, s := range cl.Sent() {
		n := c20Types[s.P.Type]
		l.recvCount[n]++
		l.recvBytes[n] += uint64(s.N)
		l.recvCount["Total"]++
		l.recvBytes["Total"] += uint64(s.N)
		switch s.P.Type {
		case mw.PUBLISH:
			l.msgRecv[s.P.QoS]++
		case mw.PUBACK, mw.PUBCOMP:
			l.completed++
			l.acked12++
		}
	}
	for _, r := range cl.All() {
		n := c20Types[r.P.Type]
		l.sentCount[n]++
		l.sentBytes[n] += uint64(len(r.P.Raw))
		l.sentCount["Total"]++
		l.sentBytes["Total"] += uint64(len(r.P.Raw))
		if r.P.Type == mw.PUBLISH {
			l.msgSent[r.P.QoS]++
			if r.P.QoS == 0 {
				l.completed++
			} else if !r.P.Dup {
				l.firstQoS12++
			}
		}
	}
}

func (l *c20Ledger) add(o *c20Ledger) {
	for _, pair := range [][2]map[string]uint64{{l.recvCount, o.recvCount}, {l.recvBytes, o.recvBytes}, {l.sentCount, o.sentCount}, {l.sentBytes, o.sentBytes}} {
		for k, v := range pair[1] {
			pair[0][k] += v
		}
	}
	for q := 0; q < 3; q++ {
		l.msgRecv[q] += o.msgRecv[q]
		l.msgSent[q] += o.msgSent[q]
	}
}

func packetBytesMap(p server.PacketBytes) map[string]uint64 {
	out := map[string]uint64{}
	v := reflect.ValueOf(p)
	for i := 0; i < v.NumField(); i++ {
		if x := v.Field(i).Uint(); x != 0 {
			out[v.Type().Field(i).Name] = x
		}
	}
	return out
}

func diffMaps(what string, got, want map[string]uint64) string {
	var keys []string
	seen := map[string]bool{}
	for k := range got {
		keys, seen[k] = append(keys, k), true
	}
	for k := range want {
		if !seen[k] {
			keys = append(keys, k)
		}
	}
	sort.Strings(keys)
	var d []string
	for _, k := range keys {
		if got[k] != want[k] {
			d = append(d, fmt.Sprintf("%s.%s: stats %d, ledger %d", what, k, got[k], want[k]))
		}
	}
	return strings.Join(d, "; ")
}

type c20Sess struct {
	exists    bool
	online    bool
	conns     []*fixture.Client // connections of the current session
	cur       *fixture.Client
	subs      map[string]subSpec
	enq       uint64 // copies the delivery model says were queued for this session
	created   int
	hasSentry bool
	persist   bool // does the session outlive the current connection
	held      int  // copies this session leaves unacknowledged (at most 2, so a window of 3 never fills up)
}

type dropKey struct {
	client string
	qos    byte
	reason string
}

func runC20(s c20Scen, c *ev.Case) *ev.Violation {
	for _, cl := range s.Clients {
		if cl.V == 3 {
			c.Label("mqtt31_client")
			break
		}
	}
	cfg := fixture.BaseConfig()
	cfg.MQTT.MaxQueuedMsg = s.MaxQueued
	if s.MaxQueued < 100 {
		cfg.MQTT.MaxInflight = uint16(s.MaxQueued)
	}
	if s.InflightExpiryMs > 0 {
		cfg.MQTT.InflightExpiry = time.Duration(s.InflightExpiryMs) * time.Millisecond
		c.Label("short_inflight_expiry")
	}
	var mu sync.Mutex
	drops := map[dropKey]uint64{}
	lateAck := false
	lateSeen := func() bool { mu.Lock(); defer mu.Unlock(); return lateAck }
	hooks := &server.Hooks{
		OnEnhancedAuth: func(ctx context.Context, cl server.Client, req *server.ConnectRequest) (*server.EnhancedAuthResponse, error) {
			if req.Connect.Properties != nil && string(req.Connect.Properties.AuthData) == "round" {
				return &server.EnhancedAuthResponse{Continue: true, AuthData: []byte("challenge"), OnAuth: func(ctx context.Context, cl server.Client, ar *server.AuthRequest) (*server.AuthResponse, error) {
					return &server.AuthResponse{}, nil
				}}, nil
			}
			return &server.EnhancedAuthResponse{}, nil
		},
		OnReAuth: func(ctx context.Context, cl server.Client, auth *packets.Auth) (*server.AuthResponse, error) {
			return &server.AuthResponse{}, nil
		},
		OnMsgDropped: func(ctx context.Context, clientID string, msg *gmqtt.Message, err error) {
			reason := "Internal"
			switch err {
			case queue.ErrDropExceedsMaxPacketSize:
				reason = "ExceedsMaxPacketSize"
			case queue.ErrDropQueueFull:
				reason = "QueueFull"
			case queue.ErrDropExpired:
				reason = "Expired"
			case queue.ErrDropExpiredInflight:
				reason = "InflightExpired"
			}
			mu.Lock()
			drops[dropKey{clientID, msg.QoS, reason}]++
			if reason == "InflightExpired" && !strings.HasPrefix(string(msg.Payload), "H") {
				// a message the client does acknowledge, only not within the (deliberately short) in-flight lifetime:
				// the machine is overloaded; acknowledgement and drop then both count - the gauges are not judged
				lateAck = true
			}
			mu.Unlock()
		}}
	redisDump := func() string { return "" }
	if s.Redis {
		rs, cleanup, e := fixture.StartRedis()
		if e != nil {
			return harnessErr("miniredis: %v", e)
		}
		defer cleanup()
		cfg = fixture.WithRedis(cfg, rs.Addr())
		c.Label("backend_redis")
		redisDump = rs.Dump
	}
	b, err := fixture.Start(fixture.Opts{Config: cfg, Hooks: hooks})
	if err != nil {
		return harnessErr("start broker: %v", err)
	}
	defer b.Stop()

	if s.StatsReaders > 0 {
		stopReaders := make(chan struct{})
		var rwg sync.WaitGroup
		defer func() { close(stopReaders); rwg.Wait() }()
		for k := 0; k < s.StatsReaders && k < 4; k++ {
			rwg.Add(1)
			go func(k int) {
				defer rwg.Done()
				for {
					select {
					case <-stopReaders:
						return
					default:
					}
					_, _ = b.Srv.StatsManager().GetClientStats(clientName(k % 3))
					_ = b.Srv.StatsManager().GetGlobalStats()
				}
			}(k)
		}
		c.Label("stats_readers")
	}
	ids := make([]string, len(s.Clients)) // client ids; replaced by the broker-assigned id for clients that sent none
	for i := range ids {
		ids[i] = clientName(i)
	}
	cid := func(i int) string { return ids[i] }
	assigned := make([]bool, len(s.Clients))
	sess := make([]*c20Sess, len(s.Clients))
	global := newLedger() // everything exchanged on connections of sessions that have ended
	var gConnected, gDisconnected, gCreated, gTerminated uint64
	anyTerminated := false
	var allConns []*fixture.Client
	defer func() {
		for _, cl := range allConns {
			cl.Kill()
		}
	}()
	endSession := func(i int) {
		ss := sess[i]
		if !ss.exists {
			return
		}
		for _, cl := range ss.conns {
			cl.WaitClosed(5 * time.Second)
			global.addConn(cl)
		}
		// drop records of the ended session are dropped with it
		mu.Lock()
		for k := range drops {
			if k.client == cid(i) {
				delete(drops, k)
			}
		}
		mu.Unlock()
		*ss = c20Sess{}
		gTerminated++
		anyTerminated = true
	}
	holdAck := func(cl *fixture.Client, ss *c20Sess) func(p *mw.Packet) {
		return func(p *mw.Packet) {
			mu.Lock()
			hold := p.Type == mw.PUBLISH && p.QoS > 0 && strings.HasPrefix(string(p.Payload), "H") && (p.Dup || ss.held < 2)
			if hold && !p.Dup {
				ss.held++
			}
			mu.Unlock()
			switch {
			case hold:
				// left unacknowledged
			case p.Type == mw.PUBLISH && p.QoS == 1:
				_ = cl.Send(&mw.Packet{Type: mw.PUBACK, PacketID: p.PacketID})
			case p.Type == mw.PUBLISH && p.QoS == 2:
				_ = cl.Send(&mw.Packet{Type: mw.PUBREC, PacketID: p.PacketID})
			case p.Type == mw.PUBREL:
				_ = cl.Send(&mw.Packet{Type: mw.PUBCOMP, PacketID: p.PacketID})
			}
		}
	}
	connect := func(i int, clean bool) *ev.Violation {
		cs := s.Clients[i]
		ss := sess[i]
		conn, err := b.DialConn()
		if err != nil {
			return harnessErr("dial: %v", err)
		}
		cl := fixture.NewClient(conn, cid(i), ver(cs.V))
		cl.OnPacket = holdAck(cl, ss)
		allConns = append(allConns, cl)
		name, lvl := mw.ProtoFor(ver(cs.V))
		p := &mw.Packet{Type: mw.CONNECT, ProtoName: name, ProtoLevel: lvl, ClientID: cid(i), CleanStart: clean}
		askedForID := cs.EmptyID && cs.V == 5 && !assigned[i]
		if askedForID {
			p.ClientID = ""
		}
		if cs.V == 5 {
			p.Props = &mw.Props{}
			if cs.Persistent {
				p.Props.SessionExpiry = u32p(1000)
				if cs.ShortExpiry {
					p.Props.SessionExpiry = u32p(1)
				}
			}
			if cs.MaxPkt != 0 {
				p.Props.MaxPacketSize = u32p(uint32(cs.MaxPkt))
			}
			if cs.AuthMethod {
				p.Props.AuthMethod = strp("m")
				if cs.AuthRound {
					p.Props.AuthData, p.Props.HasAuthData = []byte("round"), true
				}
			}
		}
		if err := cl.Send(p); err != nil {
			return harnessErr("send connect: %v", err)
		}
		if cs.V == 5 && cs.AuthMethod && cs.AuthRound {
			ch, err := cl.WaitType(mw.AUTH, fixture.DefaultWait)
			if err != nil || ch.ReasonCode != 0x18 {
				return ev.Violf("C20.connect", "client %d: the hook asked to continue the authentication, no AUTH (0x18) arrived: %v %v", i, ch, err)
			}
			time.Sleep(20 * time.Millisecond)
			if err := cl.Send(&mw.Packet{Type: mw.AUTH, ReasonCode: 0x18, Props: &mw.Props{AuthMethod: strp("m"), AuthData: []byte("answer"), HasAuthData: true}}); err != nil {
				return harnessErr("send auth: %v", err)
			}
			c.Label("auth_round_before_connack")
		}
		ack, err := cl.WaitType(mw.CONNACK, fixture.DefaultWait)
		if err != nil || ack.ReasonCode != 0 {
			return ev.Violf("C20.connect", "client %d: CONNECT failed: %v %v", i, ack, err)
		}
		if askedForID {
			if ack.Props == nil || ack.Props.AssignedClientID == nil || *ack.Props.AssignedClientID == "" {
				return ev.Violf("C20.connect", "client %d: CONNECT with a zero-length client id answered without an Assigned Client Identifier", i)
			}
			ids[i], assigned[i] = *ack.Props.AssignedClientID, true
			cl.ID = ids[i]
			c.Label("server_assigned_client_id")
		}
		gConnected++
		resumed := ack.SessionPresent
		if ss.exists && !resumed {
			endSession(i)
		}
		if !ss.exists {
			ss.exists, ss.subs = true, map[string]subSpec{}
			gCreated++
		}
		ss.online, ss.cur = true, cl
		ss.conns = append(ss.conns, cl)
		// v3: the session outlives the connection iff this CONNECT had Clean Session 0; v5: iff an expiry was requested
		ss.persist = cs.Persistent
		if cs.V != 5 {
			ss.persist = !clean
		}
		if !ss.hasSentry {
			if err := subscribeSentinel(cl); err != nil {
				return ev.Violf("C20.suback", "%v", err)
			}
			ss.hasSentry = true
			ss.subs[fixture.SentinelTopic(cid(i))] = subSpec{Filter: fixture.SentinelTopic(cid(i))}
		}
		return nil
	}
	persists := func(i int) bool { return s.Clients[i].Persistent }
	cleanFlag := func(i int) bool {
		return !(s.Clients[i].V != 5 && s.Clients[i].Persistent) && !(s.Clients[i].V == 5 && false)
	}
	_ = cleanFlag
	for i := range sess {
		sess[i] = &c20Sess{}
		// v3 persistent sessions need Clean Session 0; everything else starts clean
		if v := connect(i, !(s.Clients[i].V != 5 && s.Clients[i].Persistent)); v != nil {
			return v
		}
	}
	quiesceAll := func() *ev.Violation {
		var on []*fixture.Client
		for _, ss := range sess {
			if ss.exists && ss.online {
				on = append(on, ss.cur)
			}
		}
		// With a tiny queue the QoS0 sentinel itself can be the victim of the drop ladder while earlier
		// messages are still being acknowledged: retry (every attempt is enqueued-or-dropped in the ledger).
		for _, cl := range on {
			got := false
			for attempt := 0; attempt < 100 && !got; attempt++ {
				tag := fmt.Sprintf("q%d", time.Now().UnixNano())
				b.Srv.Publisher().Publish(&gmqtt.Message{Topic: fixture.SentinelTopic(cl.ID), Payload: []byte(tag), QoS: 0})
				for i, ss := range sess {
					if ss.exists && ss.online && ss.cur == cl {
						sess[i].enq++
					}
				}
				wait := 100 * time.Millisecond
				if s.MaxQueued >= 100 {
					wait = fixture.DefaultWait
				}
				if _, err := cl.WaitFor(func(p *mw.Packet) bool { return p.Type == mw.PUBLISH && string(p.Payload) == tag }, wait); err == nil {
					got = true
				} else if closed, _ := cl.Closed(); closed {
					return ev.Violf("C20.barrier", "client %s: connection lost during the barrier", cl.ID)
				}
			}
			if !got {
				cs, _ := b.Srv.StatsManager().GetClientStats(cl.ID)
				mu.Lock()
				dr := fmt.Sprint(drops)
				mu.Unlock()
				return ev.Violf("C20.barrier", "client %s: no sentinel got through in 100 attempts (10 s); its statistics: queued %d in flight %d, drops so far %s\n%s\n%s", cl.ID,
					cs.MessageStats.QueuedCurrent, cs.MessageStats.InflightCurrent, dr, redisDump(), brokerGoroutines())
			}
			for k := 0; k < 3; k++ {
				if err := cl.Ping(fixture.DefaultWait); err != nil {
					return ev.Violf("C20.ping", "client %s: %v", cl.ID, err)
				}
			}
		}
		return nil
	}
	goOffline := func(i int) *ev.Violation {
		ss := sess[i]
		ss.cur.Kill()
		if !waitClientGone(b, cid(i)) {
			return harnessErr("client %d still registered 5 s after close\n%s", i, brokerGoroutines())
		}
		gDisconnected++
		ss.online = false
		if !ss.persist {
			endSession(i)
		}
		return nil
	}
	sawInteresting, sawQoS12 := false, false
	pid := uint16(0)
	uid := 0

	check := func(where string) *ev.Violation {
		if v := quiesceAll(); v != nil {
			return v
		}
		st := b.Srv.StatsManager()
		// compare, polling: the broker records a received packet only after handing it to its handler
		var last string
		deadline := time.Now().Add(10 * time.Second) // generous: the comparison leaves at the first stable agreement
		stable := 0
		for {
			last = ""
			sum := newLedger()
			var gQueued, gInflight uint64
			active, inactive := uint64(0), uint64(0)
			for i, ss := range sess {
				cs, ok := st.GetClientStats(cid(i))
				if !ss.exists {
					if ok && (cs.PacketStats.ReceivedTotal.Total != 0 || cs.PacketStats.SentTotal.Total != 0) {
						last = fmt.Sprintf("client %d has no session but client statistics exist: %+v", i, cs.PacketStats.ReceivedTotal)
					}
					continue
				}
				if ss.online {
					active++
				} else {
					inactive++
				}
				if !ok {
					last = fmt.Sprintf("client %d: session exists but GetClientStats reports no statistics", i)
					break
				}
				l := newLedger()
				for _, cl := range ss.conns {
					l.addConn(cl)
				}
				sum.add(l)
				if d := diffMaps("ReceivedTotal", packetBytesMap(cs.PacketStats.ReceivedTotal), l.recvCount); d != "" {
					last = fmt.Sprintf("client %d packets received: %s", i, d)
				} else if d := diffMaps("BytesReceived", packetBytesMap(cs.PacketStats.BytesReceived), l.recvBytes); d != "" {
					last = fmt.Sprintf("client %d bytes received: %s", i, d)
				} else if d := diffMaps("SentTotal", packetBytesMap(cs.PacketStats.SentTotal), l.sentCount); d != "" {
					last = fmt.Sprintf("client %d packets sent: %s", i, d)
				} else if d := diffMaps("BytesSent", packetBytesMap(cs.PacketStats.BytesSent), l.sentBytes); d != "" {
					last = fmt.Sprintf("client %d bytes sent: %s", i, d)
				}
				ms := cs.MessageStats
				qs := [3]server.MessageQosStats{ms.Qos0, ms.Qos1, ms.Qos2}
				var dropped uint64
				for q := 0; q < 3 && last == ""; q++ {
					if qs[q].ReceivedTotal != l.msgRecv[q] {
						last = fmt.Sprintf("client %d MessageStats.Qos%d.ReceivedTotal = %d, PUBLISH packets received from it at that QoS = %d", i, q, qs[q].ReceivedTotal, l.msgRecv[q])
					} else if qs[q].SentTotal != l.msgSent[q] {
						last = fmt.Sprintf("client %d MessageStats.Qos%d.SentTotal = %d, PUBLISH packets written to it at that QoS = %d", i, q, qs[q].SentTotal, l.msgSent[q])
					}
					mu.Lock()
					want := map[string]uint64{}
					for k, n := range drops {
						if k.client == cid(i) && int(k.qos) == q {
							want[k.reason] = n
							dropped += n
						}
					}
					mu.Unlock()
					got := map[string]uint64{}
					dt := reflect.ValueOf(qs[q].DroppedTotal)
					for f := 0; f < dt.NumField(); f++ {
						if x := dt.Field(f).Uint(); x != 0 {
							got[dt.Type().Field(f).Name] = x
						}
					}
					if d := diffMaps(fmt.Sprintf("Qos%d.DroppedTotal", q), got, want); d != "" && last == "" {
						last = fmt.Sprintf("client %d drops: %s", i, d)
					}
				}
				wantQueued := ss.enq - dropped - l.completed
				wantInflight := l.firstQoS12 - l.acked12
				// an in-flight message the broker gave up on (received, never acknowledged) is no longer in flight
				mu.Lock()
				for k, n := range drops {
					if k.client == cid(i) && k.reason == "InflightExpired" {
						wantInflight -= n
						c.Label("drop_reason_InflightExpired_counted")
					}
				}
				mu.Unlock()
				gQueued += wantQueued
				gInflight += wantInflight
				mu.Lock()
				late := lateAck
				mu.Unlock()
				if late {
					c.Label("inflight_expired_before_prompt_ack_gauges_not_judged")
				}
				if last == "" && !late && (ms.QueuedCurrent != wantQueued || ms.InflightCurrent != wantInflight) {
					for _, cl := range ss.conns {
						for _, r := range cl.All() {
							c.Logf("   client %d got %s", i, r.P)
						}
					}
					last = fmt.Sprintf("client %d gauges: QueuedCurrent=%d InflightCurrent=%d, ground truth queued=%d (enqueued %d - dropped %d - completed %d) inflight=%d", i,
						ms.QueuedCurrent, ms.InflightCurrent, wantQueued, ss.enq, dropped, l.completed, wantInflight)
				}
				if last == "" && int(cs.SubscriptionStats.SubscriptionsCurrent) != len(ss.subs) {
					last = fmt.Sprintf("client %d SubscriptionsCurrent=%d, live subscriptions %d", i, cs.SubscriptionStats.SubscriptionsCurrent, len(ss.subs))
				}
				if ms.QueuedCurrent >= 1<<63 || ms.InflightCurrent >= 1<<63 {
					return ev.Violf("C20.gauge-wrap", "client %d gauge wrapped below zero: queued=%d inflight=%d", i, ms.QueuedCurrent, ms.InflightCurrent)
				}
			}
			if last == "" {
				g := st.GetGlobalStats()
				cn := g.ConnectionStats
				if cn.ActiveCurrent >= 1<<63 || cn.InactiveCurrent >= 1<<63 || g.MessageStats.QueuedCurrent >= 1<<63 || g.MessageStats.InflightCurrent >= 1<<63 {
					return ev.Violf("C20.gauge-wrap", "a global gauge wrapped below zero: %+v queued=%d inflight=%d", cn, g.MessageStats.QueuedCurrent, g.MessageStats.InflightCurrent)
				}
				termTotal := cn.SessionTerminated.Normal + cn.SessionTerminated.Expired + cn.SessionTerminated.TakenOver
				switch {
				case cn.ActiveCurrent != active || cn.InactiveCurrent != inactive:
					last = fmt.Sprintf("global ActiveCurrent=%d InactiveCurrent=%d, online sessions %d, offline sessions %d", cn.ActiveCurrent, cn.InactiveCurrent, active, inactive)
				case cn.ConnectedTotal != gConnected || cn.DisconnectedTotal != gDisconnected:
					last = fmt.Sprintf("global ConnectedTotal=%d DisconnectedTotal=%d, history connected %d disconnected %d", cn.ConnectedTotal, cn.DisconnectedTotal, gConnected, gDisconnected)
				case cn.SessionCreatedTotal != gCreated || termTotal != gTerminated:
					last = fmt.Sprintf("global SessionCreatedTotal=%d terminated=%d, history created %d terminated %d", cn.SessionCreatedTotal, termTotal, gCreated, gTerminated)
				case !lateSeen() && (g.MessageStats.QueuedCurrent != gQueued || g.MessageStats.InflightCurrent != gInflight):
					last = fmt.Sprintf("global QueuedCurrent=%d InflightCurrent=%d, sum over live sessions queued=%d inflight=%d", g.MessageStats.QueuedCurrent, g.MessageStats.InflightCurrent, gQueued, gInflight)
				}
				// global packet / message counters: sum of live per-client ledgers + everything of ended sessions
				tot := newLedger()
				tot.add(sum)
				tot.add(global)
				if last == "" {
					if d := diffMaps("global.ReceivedTotal", packetBytesMap(g.PacketStats.ReceivedTotal), tot.recvCount); d != "" {
						last = d
					} else if d := diffMaps("global.BytesReceived", packetBytesMap(g.PacketStats.BytesReceived), tot.recvBytes); d != "" {
						last = d
					} else if d := diffMaps("global.SentTotal", packetBytesMap(g.PacketStats.SentTotal), tot.sentCount); d != "" {
						last = d
					} else if d := diffMaps("global.BytesSent", packetBytesMap(g.PacketStats.BytesSent), tot.sentBytes); d != "" {
						last = d
					}
					gq := [3]server.MessageQosStats{g.MessageStats.Qos0, g.MessageStats.Qos1, g.MessageStats.Qos2}
					for q := 0; q < 3 && last == ""; q++ {
						if gq[q].ReceivedTotal != tot.msgRecv[q] || gq[q].SentTotal != tot.msgSent[q] {
							last = fmt.Sprintf("global MessageStats.Qos%d received=%d sent=%d, ledger received=%d sent=%d", q, gq[q].ReceivedTotal, gq[q].SentTotal, tot.msgRecv[q], tot.msgSent[q])
						}
					}
				}
			}
			if last == "" {
				stable++
				if stable >= 2 {
					return nil
				}
				time.Sleep(3 * time.Millisecond)
				continue
			}
			stable = 0
			if time.Now().After(deadline) {
				return ev.Violf("C20.mismatch", "at quiescent point %s: %s", where, last).With("any_session_terminated", anyTerminated, "what", strings.SplitN(last, ":", 2)[0])
			}
			time.Sleep(5 * time.Millisecond)
		}
	}

	for i, op := range s.Ops {
		c.Logf("step %d: %+v", i, op)
		var ss *c20Sess
		if op.Client >= 0 {
			ss = sess[op.Client]
		}
		switch op.Op {
		case "sub", "unsub":
			if !ss.exists || !ss.online {
				c.Count("skipped_ops", 1)
				continue
			}
			pid++
			if op.Op == "sub" {
				code, err := subscribeOne(ss.cur, pid, subSpec{Filter: op.Filter, QoS: op.QoS})
				if err != nil || code != op.QoS {
					return ev.Violf("C20.suback", "subscribe: %v %v", code, err)
				}
				ss.subs[op.Filter] = subSpec{Filter: op.Filter, QoS: op.QoS}
			} else {
				if _, err := ss.cur.Unsubscribe(pid, op.Filter); err != nil {
					return ev.Violf("C20.unsuback", "%v", err)
				}
				delete(ss.subs, op.Filter)
			}
		case "reauth":
			if !ss.exists || !ss.online || !s.Clients[op.Client].AuthMethod {
				c.Count("skipped_ops", 1)
				continue
			}
			if err := ss.cur.Send(&mw.Packet{Type: mw.AUTH, ReasonCode: 0x19, Props: &mw.Props{AuthMethod: strp("m"), AuthData: []byte("again"), HasAuthData: true}}); err != nil {
				return harnessErr("send AUTH: %v", err)
			}
			if p, err := ss.cur.WaitType(mw.AUTH, fixture.DefaultWait); err != nil || p.ReasonCode != 0 {
				return ev.Violf("C20.reauth", "re-authentication accepted by the hook was not answered with AUTH (success): %v %v", p, err)
			}
			c.Label("auth_packets_exchanged")
		case "pub":
			uid++
			payload := fmt.Sprintf("m%03d", uid)
			if op.Held {
				payload = "H" + payload
			}
			if op.Big {
				payload += strings.Repeat("x", 120)
			}
			if op.QoS > 0 {
				sawQoS12 = true
			}
			if s.InflightExpiryMs > 0 {
				anyHeld := false
				mu.Lock()
				for _, t := range sess {
					anyHeld = anyHeld || (t.exists && t.held > 0)
				}
				mu.Unlock()
				if anyHeld {
					time.Sleep(time.Duration(s.InflightExpiryMs+20) * time.Millisecond)
				}
			}
			// delivery model (overlap): one copy per matching subscription of every live session
			for j, t := range sess {
				if !t.exists {
					continue
				}
				exp, _ := expectedDeliveries("overlap", t.subs, j, c01Pub{By: -2, Topic: op.Topic, QoS: op.QoS}, payload)
				sess[j].enq += uint64(len(exp))
			}
			if op.Client == -1 || !ss.exists || !ss.online {
				m := &gmqtt.Message{Topic: op.Topic, QoS: op.QoS, Payload: []byte(payload)}
				if op.Expiry {
					m.MessageExpiry = 1
					c.Label("publish_with_1s_lifetime")
				}
				b.Srv.Publisher().Publish(m)
			} else {
				pk := &mw.Packet{Topic: op.Topic, QoS: op.QoS, Payload: []byte(payload)}
				if op.QoS > 0 {
					pid++
					pk.PacketID = pid
				}
				if _, err := ss.cur.Publish(pk); err != nil {
					return ev.Violf("C20.ack", "publish not acknowledged: %v", err)
				}
				if op.QoS == 0 {
					// sequence the QoS0 publish before whatever other connections do next
					if err := ss.cur.Ping(fixture.DefaultWait); err != nil {
						return ev.Violf("C20.ping", "%v", err)
					}
				}
			}
		case "offline":
			if !ss.exists || !ss.online {
				c.Count("skipped_ops", 1)
				continue
			}
			if v := quiesceAll(); v != nil {
				return v
			}
			if v := goOffline(op.Client); v != nil {
				return v
			}
			sawInteresting = true
			c.Label("reconnect_or_offline")
		case "online":
			if ss.exists && ss.online {
				c.Count("skipped_ops", 1)
				continue
			}
			if v := connect(op.Client, !persists(op.Client)); v != nil {
				return v
			}
			sawInteresting = true
		case "takeover":
			if !ss.exists || !ss.online {
				c.Count("skipped_ops", 1)
				continue
			}
			if v := quiesceAll(); v != nil {
				return v
			}
			old := ss.cur
			clean := op.Clean || !persists(op.Client)
			if v := connect(op.Client, clean); v != nil {
				return v
			}
			old.WaitClosed(5 * time.Second)
			gDisconnected++
			sawInteresting = true
			c.Label("takeover")
		case "terminate":
			if !ss.exists {
				c.Count("skipped_ops", 1)
				continue
			}
			if v := quiesceAll(); v != nil {
				return v
			}
			wasOnline := ss.online
			b.Srv.ClientService().TerminateSession(cid(op.Client))
			if !waitSessionGone(b, cid(op.Client)) {
				return ev.Violf("C20.terminate", "session still present 5 s after TerminateSession")
			}
			if wasOnline {
				ss.cur.WaitClosed(5 * time.Second)
				gDisconnected++
			}
			endSession(op.Client)
			sawInteresting = true
			c.Label("terminate")
		case "burst":
			// N QoS 0 messages through the API as fast as they go: receivers that keep up take them off their queues while
			// the next ones are being added, and the statistics are being read all the while
			n := op.N
			if n < 1 || n > 1000 {
				return harnessErr("bad burst")
			}
			for k := 0; k < n; k++ {
				uid++
				payload := fmt.Sprintf("m%03d", uid)
				for j, t := range sess {
					if !t.exists {
						continue
					}
					exp, _ := expectedDeliveries("overlap", t.subs, j, c01Pub{By: -2, Topic: op.Topic, QoS: 0}, payload)
					sess[j].enq += uint64(len(exp))
				}
				b.Srv.Publisher().Publish(&gmqtt.Message{Topic: op.Topic, QoS: 0, Payload: []byte(payload)})
			}
			c.Label("burst_with_stats_readers")
		case "sleep":
			time.Sleep(1300 * time.Millisecond)
			c.Label("session_expired_while_offline")
			sawInteresting = true
		case "check":
			if v := check(fmt.Sprintf("after step %d", i)); v != nil {
				return v
			}
		}
	}
	if v := check("end"); v != nil {
		return v
	}
	mu.Lock()
	if len(drops) > 0 {
		sawInteresting = true
		c.Label("drops")
		seen := map[string]bool{}
		for k := range drops {
			if !seen[k.reason] {
				seen[k.reason] = true
				c.Label("drop_reason_" + k.reason)
			}
		}
	}
	mu.Unlock()
	if sawInteresting && sawQoS12 {
		c.NonTrivial()
	}
	return nil
}

func TestC20Stats(t *testing.T) {
	ev.SetRule("C20", "rapid-generated workloads: queue capacity {3,1000}, 3 clients (v3.1.1/v5, persistent or clean sessions, optional Maximum Packet Size 90), 3-22 steps over subscribe / unsubscribe / publish QoS0-2 (client or API; large payloads; up to 2 messages left unacknowledged by their receivers; API messages with a 1 s lifetime waiting for an offline session until they have expired; AUTH re-authentication; zero-length client ids; in a quarter of the cases mqtt.inflight_expiry is 40 ms and publishes wait it out while a receiver holds an unacknowledged message, so that a full queue drops the expired in-flight message - reason InflightExpired, no longer in flight) / go offline / come back / take-over (clean or not) / TerminateSession / check. The harness keeps its own ledger from the packets each connection actually wrote and read (types, raw byte counts from the independent codec, PUBLISH per QoS, acks) and from OnMsgDropped; at every quiescent point (sentinel barrier + 3 PINGREQ round trips on every online client) GetClientStats / GetGlobalStats must equal the ledger: packets and bytes per type, messages per QoS, drops per QoS and reason, queued / in-flight gauges (enqueued by the delivery model - dropped - completed), subscription counts, active / inactive sessions, connected / disconnected / created / terminated totals, global = live sessions + ended sessions, no gauge >= 2^63. Per-client ledgers start with the session (the broker deletes the record when a session ends). Non-trivial: QoS1/2 traffic together with an offline period, take-over, termination or a drop; distinct by scenario digest.")
	ev.Run(t, "C20", genC20, runC20)
}
