package checks

// C06 oracles for sub-checks 1 (totality/bounds), 2 (re-encode round trip) and the
// decode-side part of 4 (reported size of a decoded packet).

import (
	"bufio"
	"bytes"
	"errors"
	"fmt"
	"runtime"
	"runtime/debug"
	"strings"
	"sync"
	"time"

	"github.com/DrmagicE/gmqtt/pkg/codes"
	"github.com/DrmagicE/gmqtt/pkg/packets"

	"verif/ev"
	mw "verif/mqttwire"
)

// Known-finding ids (genuine gmqtt defects; see the final report of the check author).
const (
	c06KFAlloc     = "F-c06-alloc-declared-length"
	c06KFProtoName = "F-c06-connect-protoname"
	c06KFWillQoS3  = "F-c06-will-qos3"
	c06KFPassword  = "F-c06-password-utf8"
	c06KFAuthData  = "F-c06-authdata-utf8"
	c06KFFFFD      = "F-c06-utf8-fffd"
	c06KFPlus      = "F-c06-filter-plus-prefix"
	c06KFEmptyName = "F-c06-empty-topic-name"
	c06KFCorrEmpty = "F-c06-msgsize-empty-corrdata"
)

const (
	c06AllocBase    = 64 << 10
	c06AllocPerByte = 64
	c06HangTimeout  = 10 * time.Second
)

// c06Hdr is the harness' own (lenient) reading of the fixed header.
type c06Hdr struct {
	wellFormed bool // first byte and a terminated variable byte integer of <= 4 bytes are present
	canonical  bool // ... and it is minimally encoded
	hdrLen, rl int
	// lenient is what the (up to four) length bytes present add up to, terminated or not:
	// the most a decoder that tolerates an unterminated or over-long length can take as
	// the declared remaining length.
	lenient int
}

func c06ParseHdr(data []byte) (h c06Hdr) {
	x := 0
	for i := 0; i < 4; i++ {
		if 1+i >= len(data) {
			return h
		}
		b := data[1+i]
		x |= int(b&0x7f) << (7 * uint(i))
		h.lenient = x
		if b&0x80 == 0 {
			h.wellFormed, h.hdrLen, h.rl = true, 2+i, x
			h.canonical = !(i > 0 && b == 0)
			return h
		}
	}
	return h
}

type c06Res struct {
	pkt      packets.Packet
	err      error
	panicked string
	hung     bool
	consumed int
	alloc    uint64
}

func c06ReadOne(v int, data []byte, bufSize int, measure bool) (res c06Res) {
	br := bytes.NewReader(data)
	bufr := bufio.NewReaderSize(br, bufSize)
	r := packets.NewReader(bufr)
	r.SetVersion(byte(v))
	defer func() {
		if x := recover(); x != nil {
			st := string(debug.Stack())
			if len(st) > 1800 {
				st = st[:1800]
			}
			res.panicked = fmt.Sprintf("%v\n%s", x, st)
		}
		res.consumed = len(data) - br.Len() - bufr.Buffered()
	}()
	if measure {
		var m0, m1 runtime.MemStats
		runtime.ReadMemStats(&m0)
		res.pkt, res.err = r.ReadPacket()
		runtime.ReadMemStats(&m1)
		res.alloc = m1.TotalAlloc - m0.TotalAlloc
	} else {
		res.pkt, res.err = r.ReadPacket()
	}
	return res
}

// c06Decode feeds data to gmqtt's Reader the way the broker does (a *bufio.Reader owned
// by the caller, version preset for non-CONNECT packets). With measure it runs under a
// watchdog and measures TotalAlloc growth around the call.
func c06Decode(v int, data []byte, bufSize int, measure bool) c06Res {
	if bufSize < 16 {
		bufSize = 16
	}
	if !measure {
		return c06ReadOne(v, data, bufSize, false)
	}
	// A genuine hang is an endless loop: it also outlasts a second, longer attempt. The
	// retry keeps a scheduling stall on a loaded machine (hundreds of MiB being zeroed for
	// an input that declares them, see F-c06-alloc-declared-length) from being reported.
	// An input that declares hundreds of MiB makes gmqtt allocate and zero them (see
	// F-c06-alloc-declared-length); on a loaded machine that alone was measured to take up
	// to 20 s, so the budget grows with the declared length (0.5 s per MiB).
	base := c06HangTimeout + time.Duration(c06ParseHdr(data).lenient>>20)*500*time.Millisecond
	for _, limit := range []time.Duration{base, 3 * base} {
		done := make(chan c06Res, 1)
		timer := time.NewTimer(limit)
		go func() { done <- c06ReadOne(v, data, bufSize, true) }()
		select {
		case r := <-done:
			timer.Stop()
			return r
		case <-timer.C:
		}
	}
	return c06Res{hung: true}
}

func c06SafePack(p packets.Packet, w *bytes.Buffer) (err error, panicked string) {
	defer func() {
		if x := recover(); x != nil {
			panicked = fmt.Sprintf("%v\n%s", x, debug.Stack())
			if len(panicked) > 1800 {
				panicked = panicked[:1800]
			}
		}
	}()
	return p.Pack(w), ""
}

func c06TypeName(data []byte) string {
	if len(data) == 0 {
		return "EMPTY"
	}
	return mw.Type(data[0] >> 4).String()
}

func c06Hex(b []byte) string {
	if len(b) > 96 {
		return fmt.Sprintf("%x...(%dB)", b[:96], len(b))
	}
	return fmt.Sprintf("%x", b)
}

func c06ErrCode(err error) int {
	var ce *codes.Error
	if errors.As(err, &ce) && ce != nil {
		return int(ce.Code)
	}
	return -1
}

// c06NormRef removes from a reference packet what gmqtt's packet structs cannot hold: the
// MQTT 3.1-only DUP bit of PUBREL / SUBSCRIBE / UNSUBSCRIBE.
func c06NormRef(p *mw.Packet) *mw.Packet {
	if p != nil && p.Dup && (p.Type == mw.PUBREL || p.Type == mw.SUBSCRIBE || p.Type == mw.UNSUBSCRIBE) {
		q := c06Clone(p)
		q.Dup = false
		return q
	}
	return p
}

// c06Oracle12 runs sub-checks 1 and 2 (and the size of a decoded packet, and the field
// comparison with the reference decoder whenever both accept) on one input.
func c06Oracle12(v int, data []byte, bufSize int, c *ev.Case, region string) (c06Res, *ev.Violation) {
	feats := []any{"version", v, "type", c06TypeName(data), "region", region}
	res := c06Decode(v, data, bufSize, true)
	if res.hung {
		return res, ev.Violf("C06.hang", "ReadPacket did not return within the watchdog budget (%v + 0.5s per declared MiB), nor within three times that on a second attempt, on %s", c06HangTimeout, c06Hex(data)).With(feats...)
	}
	if res.panicked != "" {
		return res, ev.Violf("C06.panic", "ReadPacket panicked on %s: %s", c06Hex(data), res.panicked).With(feats...)
	}
	if (res.pkt == nil) == (res.err == nil) {
		return res, ev.Violf("C06.total", "ReadPacket returned packet=%v err=%v on %s", res.pkt, res.err, c06Hex(data)).With(feats...)
	}
	h := c06ParseHdr(data)
	if h.wellFormed && res.consumed > h.hdrLen+h.rl {
		return res, ev.Violf("C06.overread", "consumed %d bytes, fixed header %d + remaining length %d on %s", res.consumed, h.hdrLen, h.rl, c06Hex(data)).With(feats...)
	}
	limit := uint64(c06AllocBase + c06AllocPerByte*len(data))
	switch {
	case h.lenient >= 16<<20:
		c.Label("declared_ge_16MiB")
	case h.lenient >= 1<<20:
		c.Label("declared_ge_1MiB")
	}
	if res.alloc > limit {
		// region of the known finding: the body is shorter than the declared remaining
		// length and the growth is one buffer of the declared size
		if h.lenient > len(data) && res.alloc <= limit+uint64(h.lenient) && ev.KF(c06KFAlloc) {
			c.Excluded(c06KFAlloc)
		} else {
			return res, ev.Violf("C06.alloc", "TotalAlloc grew by %d bytes for %d input bytes (limit %d; declared remaining length %d) on %s",
				res.alloc, len(data), limit, h.lenient, c06Hex(data)).With(append(feats, "declared", h.lenient)...)
		}
	}
	ref, _, rerr := mw.Decode(data, mw.Version(v), mw.AnyDir)
	if res.err != nil {
		c.Label("rejected")
		if rerr == nil {
			c.Label("rejected_but_ref_accepts")
		}
		// first defect behind a well-formed, completely supplied frame
		if h.wellFormed && h.canonical && len(data) >= h.hdrLen+h.rl && len(data) > 0 && data[0]>>4 != 0 {
			c.Label("rejected_behind_header")
			c.NonTrivial()
		}
		return res, nil
	}
	c.Label("accepted")
	got, _ := c06FromG(res.pkt)
	if got == nil {
		return res, ev.Violf("C06.total", "ReadPacket returned an unknown packet type %T", res.pkt).With(feats...)
	}
	c.Label("accepted_" + got.Type.String())
	if c06CountProps(got) > 0 || len(got.Payload) > 0 {
		c.NonTrivial()
	}
	switch {
	case rerr == nil:
		if !mw.Equal(got, c06NormRef(ref)) {
			return res, ev.Violf("C06.diff-decode", "gmqtt and the reference decoder both accept %s but read different values\n gmqtt: %s\n ref:   %s",
				c06Hex(data), got, ref).With(feats...)
		}
	case errors.Is(rerr, mw.ErrIncomplete):
		c.Label("accepted_incomplete_input") // not asserted: the property does not demand rejection
	default:
		c.Label("accepted_but_ref_rejects") // not asserted: the property does not demand rejection
	}
	// The accepted packet is a value: it must stay what it is while the codec is used for other packets (decoded
	// fields must not alias memory the codec reuses). A handful of other packets are decoded and encoded, then the
	// packet is rendered again.
	before := got.String()
	c06Interfere()
	if after, _ := c06FromG(res.pkt); after == nil || after.String() != before {
		return res, ev.Violf("C06.decoded-unstable", "the packet decoded from %s changed after the codec had been used for other packets\n at decode time: %s\n afterwards:     %s",
			c06Hex(data), before, after).With(feats...)
	}
	if h.wellFormed && h.canonical {
		if tb := packets.TotalBytes(res.pkt); int(tb) != h.hdrLen+h.rl || res.consumed != h.hdrLen+h.rl {
			return res, ev.Violf("C06.size", "decoded packet: TotalBytes=%d, consumed=%d, encoded length=%d on %s", tb, res.consumed, h.hdrLen+h.rl, c06Hex(data)).With(feats...)
		}
	} else {
		c.Label("accepted_noncanonical_header")
	}
	return res, c06Reencode(v, res.pkt, c, feats)
}

var (
	c06InterfereOnce sync.Once
	c06InterfereSet  [][2]any // (version, bytes)
)

// c06Interfere decodes and re-encodes a fixed set of sample packets (every type that carries strings, binary data
// or user properties, all versions): whatever scratch memory the codec recycles is overwritten by this.
func c06Interfere() {
	c06InterfereOnce.Do(func() {
		vers, datas := c06SeedPackets()
		for i := range datas {
			if len(datas[i]) >= 8 && len(datas[i]) <= 400 && len(c06InterfereSet) < 24 && i%3 == 0 {
				c06InterfereSet = append(c06InterfereSet, [2]any{c06FuzzVersion(vers[i]), datas[i]})
			}
		}
	})
	for _, it := range c06InterfereSet {
		r := packets.NewReader(bytes.NewReader(it[1].([]byte)))
		r.SetVersion(packets.Version(it[0].(int)))
		p, err := r.ReadPacket()
		if err != nil || p == nil {
			continue
		}
		var out bytes.Buffer
		_ = p.Pack(&out)
	}
}

// c06Reencode is sub-check 2: Pack the accepted packet, decode again, compare.
func c06Reencode(v int, pkt packets.Packet, c *ev.Case, feats []any) *ev.Violation {
	before, bver := c06FromG(pkt)
	before = c06Clone(before)
	var buf bytes.Buffer
	err, pan := c06SafePack(pkt, &buf)
	if pan != "" {
		return ev.Violf("C06.panic", "Pack of an accepted packet panicked: %s\n packet: %s", pan, before).With(feats...)
	}
	if err != nil {
		return ev.Violf("C06.reencode", "Pack of an accepted packet failed: %v\n packet: %s", err, before).With(feats...)
	}
	enc := append([]byte(nil), buf.Bytes()...)
	if tb := packets.TotalBytes(pkt); int(tb) != len(enc) {
		return ev.Violf("C06.size", "after Pack: TotalBytes=%d, encoded length=%d (%s)", tb, len(enc), before).With(feats...)
	}
	r2 := c06Decode(v, enc, 4096, false)
	if r2.panicked != "" {
		return ev.Violf("C06.panic", "ReadPacket panicked on re-encoded %s: %s", c06Hex(enc), r2.panicked).With(feats...)
	}
	if conn, ok := pkt.(*packets.Connect); ok && len(conn.ProtocolName) != 4 && r2.err != nil && ev.KF(c06KFProtoName) {
		c.Excluded(c06KFProtoName)
		return nil
	}
	if r2.err != nil || r2.pkt == nil {
		return ev.Violf("C06.reencode", "accepted packet re-encodes to %s which is rejected: %v\n packet: %s", c06Hex(enc), r2.err, before).With(feats...)
	}
	if r2.consumed != len(enc) {
		return ev.Violf("C06.reencode", "re-decode consumed %d of %d bytes of %s", r2.consumed, len(enc), c06Hex(enc)).With(feats...)
	}
	after, aver := c06FromG(r2.pkt)
	if before.Will != nil && before.Will.QoS == 3 && after != nil && after.Will != nil && after.Will.QoS == 0 && ev.KF(c06KFWillQoS3) {
		c.Excluded(c06KFWillQoS3)
		before.Will.QoS = 0
	}
	if bver != aver || !mw.Equal(before, after) {
		return ev.Violf("C06.reencode", "accepted packet does not survive Pack + ReadPacket\n before (version field %d): %s\n bytes: %s\n after  (version field %d): %s",
			bver, before, c06Hex(enc), aver, after).With(feats...)
	}
	return nil
}

func c06HasFFFD(s string) bool { return strings.Contains(s, "\ufffd") }
