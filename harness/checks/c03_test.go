package checks

// C03 — Outbound QoS1/2: at-least-once across reconnects, unique ids, bounded window.

import (
	"fmt"
	"sync"
	"testing"
	"time"

	"github.com/DrmagicE/gmqtt"
	"pgregory.net/rapid"

	"verif/ev"
	"verif/fixture"
	mw "verif/mqttwire"
)

type c03Op struct {
	Op  string `json:"op"` // pub ack ackerr reack cut wait
	QoS byte   `json:"qos,omitempty"`
	K   int    `json:"k,omitempty"`
	NB  bool   `json:"nb,omitempty"` // ack without a following barrier
	RM  int    `json:"rm,omitempty"` // cut: Receive Maximum of the new connection (0 = absent)
}

type c03Scen struct {
	V   int     `json:"v"`
	RM  int     `json:"rm"` // 0 = absent
	MI  int     `json:"max_inflight"`
	SQ  byte    `json:"sub_qos"`
	Ops []c03Op `json:"ops"`
	// Warm promptly acknowledged QoS1 messages are delivered before the script starts: with max_inflight 1 the
	// broker consumes exactly one packet id per message, so 65534 of them put the id counter at the 65535 boundary.
	Warm  int  `json:"warm,omitempty"`
	Redis bool `json:"redis,omitempty"` // session queue on the redis backend (harness RESP server)
}

func genC03(t *rapid.T) c03Scen {
	s := c03Scen{V: rapid.SampledFrom([]int{3, 4, 5, 5, 5}).Draw(t, "v"), MI: rapid.SampledFrom([]int{1, 2, 3, 5, 100}).Draw(t, "mi"),
		SQ: byte(rapid.IntRange(1, 2).Draw(t, "sq"))}
	rms := []int{0, 1, 2, 3, 5}
	if s.V == 5 {
		s.RM = rapid.SampledFrom(rms).Draw(t, "rm")
	}
	s.Redis = rapid.IntRange(0, 3).Draw(t, "backend") == 0
	n := rapid.IntRange(3, 25).Draw(t, "nops")
	for i := 0; i < n; i++ {
		switch k := rapid.IntRange(0, 19).Draw(t, "kind"); {
		case k <= 8:
			s.Ops = append(s.Ops, c03Op{Op: "pub", QoS: byte(rapid.SampledFrom([]int{0, 1, 1, 2, 2}).Draw(t, "qos"))})
		case k <= 13:
			s.Ops = append(s.Ops, c03Op{Op: "ack", K: rapid.IntRange(0, 4).Draw(t, "k"), NB: rapid.IntRange(0, 3).Draw(t, "nb") == 0})
			// aimed: the same final acknowledgement once more, then new messages (the identifier the poller holds in
			// reserve is often the one just acknowledged, F-stray-ack-widens-window)
			if rapid.IntRange(0, 5).Draw(t, "ack_twice") == 0 {
				s.Ops = append(s.Ops, c03Op{Op: "reack"})
				for k := rapid.IntRange(1, 3).Draw(t, "pubs_after_reack"); k > 0; k-- {
					s.Ops = append(s.Ops, c03Op{Op: "pub", QoS: byte(rapid.IntRange(1, 2).Draw(t, "qos"))})
				}
			}
		case k == 14:
			s.Ops = append(s.Ops, c03Op{Op: "ackerr", K: rapid.IntRange(0, 4).Draw(t, "k")})
		case k <= 17:
			op := c03Op{Op: "cut"}
			if s.V == 5 {
				op.RM = rapid.SampledFrom(rms).Draw(t, "newrm")
			}
			s.Ops = append(s.Ops, op)
		case k == 18:
			s.Ops = append(s.Ops, c03Op{Op: "reack"})
		default:
			s.Ops = append(s.Ops, c03Op{Op: "wait"})
		}
	}
	return s
}

type c03Event struct {
	Epoch int
	Kind  string // rpub rrel spuback spubrec spubrecerr spubcomp barrier
	ID    uint16
	UID   string
	QoS   byte
	Dup   bool
}

func (e c03Event) String() string {
	return fmt.Sprintf("e%d %s id=%d uid=%s q%d dup=%v", e.Epoch, e.Kind, e.ID, e.UID, e.QoS, e.Dup)
}

type c03Flow struct {
	id       uint16
	uid      string
	qos      byte
	state    string // pub | recsent | rel | done
	order    int
	epoch    int  // epoch in which a PUBLISH for it was last received (0 = none in current)
	pubEpoch int  // epoch of the last PUBLISH packet
	unsure   bool // last ack sent after the last barrier
}

type c03Run struct {
	mu     sync.Mutex
	events []c03Event
	epoch  int
	auto   bool
	cl     *fixture.Client
}

func (r *c03Run) log(e c03Event) {
	e.Epoch = r.epoch
	r.events = append(r.events, e)
}

func (r *c03Run) attach(cl *fixture.Client) {
	r.cl = cl
	cl.OnPacket = func(p *mw.Packet) {
		r.mu.Lock()
		auto := r.auto
		switch {
		case p.Type == mw.PUBLISH && !isSentinel(p):
			r.log(c03Event{Kind: "rpub", ID: p.PacketID, UID: string(p.Payload), QoS: p.QoS, Dup: p.Dup})
			if auto && p.QoS == 1 {
				r.log(c03Event{Kind: "spuback", ID: p.PacketID})
			}
			if auto && p.QoS == 2 {
				r.log(c03Event{Kind: "spubrec", ID: p.PacketID})
			}
		case p.Type == mw.PUBREL:
			r.log(c03Event{Kind: "rrel", ID: p.PacketID})
			if auto {
				r.log(c03Event{Kind: "spubcomp", ID: p.PacketID})
			}
		}
		r.mu.Unlock()
		if auto {
			switch {
			case p.Type == mw.PUBLISH && p.QoS == 1:
				_ = cl.Send(&mw.Packet{Type: mw.PUBACK, PacketID: p.PacketID})
			case p.Type == mw.PUBLISH && p.QoS == 2:
				_ = cl.Send(&mw.Packet{Type: mw.PUBREC, PacketID: p.PacketID})
			case p.Type == mw.PUBREL:
				_ = cl.Send(&mw.Packet{Type: mw.PUBCOMP, PacketID: p.PacketID})
			}
		}
	}
}

// send logs first, then writes: an ack is never counted later than it was written.
func (r *c03Run) send(kind string, p *mw.Packet) error {
	r.mu.Lock()
	r.log(c03Event{Kind: kind, ID: p.PacketID})
	r.mu.Unlock()
	return r.cl.Send(p)
}

// ackable returns, from the event log of the current epoch, the flows S may acknowledge now.
func (r *c03Run) ackable() (out []c03Event) {
	r.mu.Lock()
	defer r.mu.Unlock()
	st := map[uint16]*c03Event{}
	var order []uint16
	for i := range r.events {
		e := r.events[i]
		if e.Epoch != r.epoch {
			continue
		}
		switch e.Kind {
		case "rpub":
			if e.QoS > 0 {
				if _, ok := st[e.ID]; !ok {
					order = append(order, e.ID)
				}
				cp := e
				st[e.ID] = &cp
			}
		case "rrel":
			if _, ok := st[e.ID]; !ok {
				order = append(order, e.ID)
			}
			st[e.ID] = &c03Event{Kind: "rrel", ID: e.ID, QoS: 2}
		case "spuback", "spubcomp", "spubrecerr":
			delete(st, e.ID)
		case "spubrec":
			if x := st[e.ID]; x != nil {
				x.Kind = "waitrel"
			}
		}
	}
	for _, id := range order {
		if x := st[id]; x != nil && x.Kind != "waitrel" {
			out = append(out, *x)
		}
	}
	return
}

func (r *c03Run) settle(ms int) {
	deadline := time.Now().Add(time.Duration(ms) * time.Millisecond)
	r.mu.Lock()
	n := len(r.events)
	r.mu.Unlock()
	for time.Now().Before(deadline) {
		time.Sleep(2 * time.Millisecond)
		r.mu.Lock()
		m := len(r.events)
		r.mu.Unlock()
		if m != n {
			n = m
			deadline = time.Now().Add(8 * time.Millisecond)
		}
	}
}

func runC03(s c03Scen, c *ev.Case) *ev.Violation {
	if s.V == 3 {
		c.Label("mqtt31_client")
	}
	cfg := fixture.BaseConfig()
	cfg.MQTT.MaxInflight = uint16(s.MI)
	cfg, cleanupBackend, bv := withBackend(cfg, s.Redis, c)
	if bv != nil {
		return bv
	}
	defer cleanupBackend()
	b, err := fixture.Start(fixture.Opts{Config: cfg})
	if err != nil {
		return harnessErr("start broker: %v", err)
	}
	defer b.Stop()
	r := &c03Run{}
	limits := map[int]int{}
	var conns []*fixture.Client
	connect := func(rm int, first bool) *ev.Violation {
		o := fixture.ConnectOpts{ID: "S", V: ver(s.V), CleanStart: false}
		if s.V == 5 {
			o.Props = &mw.Props{SessionExpiry: u32p(1000)}
			if rm != 0 {
				o.Props.ReceiveMax = u16p(uint16(rm))
			}
		}
		conn, err := b.DialConn()
		if err != nil {
			return harnessErr("dial: %v", err)
		}
		cl := fixture.NewClient(conn, "S", ver(s.V))
		conns = append(conns, cl)
		r.mu.Lock()
		r.epoch++
		lim := s.MI
		if rm != 0 && rm < lim {
			lim = rm
		}
		limits[r.epoch] = lim
		r.attach(cl)
		r.mu.Unlock()
		name, lvl := mw.ProtoFor(ver(s.V))
		if err := cl.Send(&mw.Packet{Type: mw.CONNECT, ProtoName: name, ProtoLevel: lvl, ClientID: "S", CleanStart: false, Props: o.Props}); err != nil {
			return harnessErr("send connect: %v", err)
		}
		ack, err := cl.WaitType(mw.CONNACK, fixture.DefaultWait)
		if err != nil || ack.ReasonCode != 0 {
			return ev.Violf("C03.connect", "CONNECT refused: %v %v", ack, err)
		}
		if !first && !ack.SessionPresent {
			return ev.Violf("C03.session-present", "reconnect with clean=0: Session Present = 0")
		}
		return nil
	}
	if v := connect(s.RM, true); v != nil {
		return v
	}
	defer func() { r.cl.Kill() }()
	if err := subscribeSentinel(r.cl); err != nil {
		return harnessErr("%v", err)
	}
	if code, err := subscribeOne(r.cl, 2, subSpec{Filter: "t", QoS: s.SQ}); err != nil || code != s.SQ {
		return harnessErr("subscribe: %v %v", code, err)
	}
	if s.Warm > 0 {
		r.mu.Lock()
		r.auto = true
		r.mu.Unlock()
		// no sentinels here: a QoS0 message burns a packet id too (the poller asks for an id before it knows the QoS)
		waitUID := func(u string) error {
			deadline := time.Now().Add(120 * time.Second)
			for time.Now().Before(deadline) {
				r.mu.Lock()
				n := len(r.events)
				seen := false
				for i := n - 1; i >= 0 && i >= n-8; i-- {
					if r.events[i].UID == u {
						seen = true
					}
				}
				r.mu.Unlock()
				if seen {
					return nil
				}
				time.Sleep(200 * time.Microsecond)
			}
			return fmt.Errorf("warm-up message %s not delivered within 120 s", u)
		}
		for k := 0; k < s.Warm; k++ {
			u := fmt.Sprintf("a%05d", k)
			b.Srv.Publisher().Publish(&gmqtt.Message{Topic: "t", QoS: 1, Payload: []byte(u)})
			if k%200 == 199 || k == s.Warm-1 {
				if err := waitUID(u); err != nil {
					return harnessErr("%v", err)
				}
				// with a window of one, message u only arrives after every earlier acknowledgement has been processed:
				// a confirmed point (keeps the post-hoc oracle linear)
				r.mu.Lock()
				r.log(c03Event{Kind: "barrier"})
				r.mu.Unlock()
			}
		}
		for k := 0; k < 3; k++ {
			if err := r.cl.Ping(fixture.DefaultWait); err != nil {
				return harnessErr("warm-up ping: %v", err)
			}
		}
		r.mu.Lock()
		r.auto = false
		maxID := uint16(0)
		for _, e := range r.events {
			if e.Kind == "rpub" && e.ID > maxID {
				maxID = e.ID
			}
		}
		r.log(c03Event{Kind: "barrier"})
		r.mu.Unlock()
		c.Count("warm_max_packet_id", int(maxID))
		if maxID >= 65000 {
			c.Label("packet_id_near_wrap")
		}
		if int(maxID) != s.Warm {
			c.Label("warm_ids_not_consecutive")
		}
	}
	var emitted []string // uids with effective QoS > 0, in emission order
	emitEpoch := map[string]int{}
	uid := 0
	sawCutWithInflight, sawSaturated := false, false
	for i, op := range s.Ops {
		c.Logf("step %d: %+v", i, op)
		switch op.Op {
		case "pub":
			uid++
			u := fmt.Sprintf("m%03d", uid)
			r.mu.Lock()
			emitEpoch[u] = r.epoch
			r.mu.Unlock()
			b.Srv.Publisher().Publish(&gmqtt.Message{Topic: "t", QoS: op.QoS, Payload: []byte(u)})
			if minB(op.QoS, s.SQ) > 0 {
				emitted = append(emitted, u)
			}
			r.settle(25)
		case "ack", "ackerr":
			cand := r.ackable()
			if len(cand) == 0 {
				c.Count("skipped_ops", 1)
				continue
			}
			x := cand[op.K%len(cand)]
			if op.K%len(cand) != 0 {
				c.Label("ack_out_of_order")
			}
			var err error
			switch {
			case op.Op == "ackerr" && s.V == 5 && x.Kind == "rpub" && x.QoS == 2:
				err = r.send("spubrecerr", &mw.Packet{Type: mw.PUBREC, PacketID: x.ID, ReasonCode: 0x80})
				c.Label("pubrec_error")
			case x.Kind == "rpub" && x.QoS == 1:
				err = r.send("spuback", &mw.Packet{Type: mw.PUBACK, PacketID: x.ID})
			case x.Kind == "rpub" && x.QoS == 2:
				err = r.send("spubrec", &mw.Packet{Type: mw.PUBREC, PacketID: x.ID})
			case x.Kind == "rrel":
				err = r.send("spubcomp", &mw.Packet{Type: mw.PUBCOMP, PacketID: x.ID})
			}
			if err != nil {
				return ev.Violf("C03.send", "send failed: %v", err)
			}
			if !op.NB || i+1 >= len(s.Ops) || s.Ops[i+1].Op != "cut" {
				if err := r.cl.Ping(fixture.DefaultWait); err != nil {
					return ev.Violf("C03.ping", "no PINGRESP after an acknowledgement: %v", err)
				}
				r.mu.Lock()
				r.log(c03Event{Kind: "barrier"})
				r.mu.Unlock()
				r.settle(25)
			} else {
				c.Label("ack_then_cut_without_barrier")
			}
		case "reack":
			// the client repeats the last final acknowledgement (PUBACK / PUBCOMP) it sent on this connection, for a
			// flow that is complete: the broker must ignore it - in particular it must not open the window further
			r.mu.Lock()
			var last *c03Event
			open := map[uint16]bool{}
			// open: identifiers of flows S has not completed, whichever connection they started on (a flow keeps its
			// identifier across reconnects; repeating an old acknowledgement whose identifier has been given to such a flow
			// would complete THAT flow); last: the last final acknowledgement sent on the current connection
			for k := range r.events {
				e := r.events[k]
				switch e.Kind {
				case "rpub":
					if e.QoS > 0 {
						open[e.ID] = true
					}
				case "rrel":
					open[e.ID] = true
				case "spuback", "spubcomp":
					delete(open, e.ID)
					if e.Epoch == r.epoch {
						cp := e
						last = &cp
					}
				case "spubrecerr":
					delete(open, e.ID)
				}
			}
			r.mu.Unlock()
			if last == nil || open[last.ID] {
				c.Count("skipped_ops", 1)
				continue
			}
			ty := mw.PUBACK
			if last.Kind == "spubcomp" {
				ty = mw.PUBCOMP
			}
			if err := r.send("sreack", &mw.Packet{Type: ty, PacketID: last.ID}); err != nil {
				return ev.Violf("C03.send", "send failed: %v", err)
			}
			c.Label("repeated_final_ack")
			if err := r.cl.Ping(fixture.DefaultWait); err != nil {
				return ev.Violf("C03.ping", "no PINGRESP after a repeated acknowledgement: %v", err)
			}
			r.settle(25)
		case "cut":
			if len(r.ackable()) > 0 {
				sawCutWithInflight = true
			}
			r.cl.Kill()
			if v := connect(op.RM, false); v != nil {
				return v
			}
			if op.RM != s.RM {
				c.Label("rm_changed_on_reconnect")
			}
			r.settle(30)
		case "wait":
			r.settle(30)
		}
	}
	// final phase: resume with prompt acknowledgements and no Receive Maximum, then barrier
	r.cl.Kill()
	r.mu.Lock()
	r.auto = true
	r.mu.Unlock()
	if v := connect(0, false); v != nil {
		return v
	}
	if err := sentinelBarrier(b, []*fixture.Client{r.cl}, "end"); err != nil {
		return ev.Violf("C03.at-least-once", "final drain did not complete: %v", err)
	}
	if err := r.cl.Ping(fixture.DefaultWait); err != nil {
		return ev.Violf("C03.ping", "%v", err)
	}
	r.settle(20)

	for _, cl := range conns {
		if v := malformedFromBroker("C03", cl); v != nil {
			return v
		}
	}
	// ---- oracle over the event log ----
	r.mu.Lock()
	events := append([]c03Event(nil), r.events...)
	lastEpoch := r.epoch
	r.mu.Unlock()
	for _, e := range events {
		c.Logf("  %s", e)
	}
	flows := map[string]*c03Flow{} // by uid
	final := map[string]bool{}     // flows completed and confirmed (retired from flows)
	byID := func(id uint16) *c03Flow {
		for _, f := range flows {
			if f.id == id && f.state != "done" {
				return f
			}
		}
		return nil
	}
	order := 0
	firstSeen := []string{}
	for ep := 1; ep <= lastEpoch; ep++ {
		lim := limits[ep]
		// flows open at the start of the epoch, in original order
		lastRetransOrder := -1
		seenNew := false
		retransmitted := map[string]bool{}
		for _, e := range events {
			if e.Epoch != ep {
				continue
			}
			switch e.Kind {
			case "rpub":
				if e.QoS == 0 {
					continue
				}
				if e.ID == 0 {
					return ev.Violf("C03.id-zero", "QoS%d PUBLISH %s with packet id 0", e.QoS, e.UID)
				}
				f := flows[e.UID]
				if final[e.UID] {
					return ev.Violf("C03.redelivery-after-ack", "message %s delivered again although its acknowledgement was confirmed (id %d)", e.UID, e.ID)
				}
				if f == nil || f.state == "done" && !f.unsure {
					if f != nil {
						return ev.Violf("C03.redelivery-after-ack", "message %s delivered again although its acknowledgement was confirmed (id %d)", e.UID, e.ID)
					}
					// new message (for S). DUP=1 is legitimate only if the broker may already have transmitted it on an
					// earlier connection that was cut before S read it.
					if e.Dup {
						if emitEpoch[e.UID] >= ep {
							return ev.Violf("C03.first-dup", "first transmission of %s has DUP=1", e.UID).With("epoch", ep)
						}
						if seenNew {
							return ev.Violf("C03.retransmit-after-new", "retransmission of %s (id %d, first transmission unseen) arrived after a new message", e.UID, e.ID)
						}
						order++
						flows[e.UID] = &c03Flow{id: e.ID, uid: e.UID, qos: e.QoS, state: "pub", order: order, pubEpoch: ep}
						firstSeen = append(firstSeen, e.UID)
						retransmitted[e.UID] = true
						lastRetransOrder = order
						goto windowCheck
					}
					if g := byID(e.ID); g != nil && !(g.state == "done") {
						return ev.Violf("C03.id-reuse", "new message %s uses packet id %d which still awaits acknowledgement (uid %s, state %s)", e.UID, e.ID, g.uid, g.state).
							With("other_state", g.state, "epoch", ep)
					}
					// every certainly-open older flow must have been retransmitted before a new message
					if ep > 1 {
						for _, g := range flows {
							if g.state != "done" && !g.unsure && g.pubEpoch < ep && !retransmitted[g.uid] && g.order < order {
								return ev.Violf("C03.new-before-retransmission", "new message %s arrived before the retransmission of %s (id %d, state %s)", e.UID, g.uid, g.id, g.state).With("state", g.state)
							}
						}
					}
					seenNew = true
					order++
					flows[e.UID] = &c03Flow{id: e.ID, uid: e.UID, qos: e.QoS, state: "pub", order: order, pubEpoch: ep}
					firstSeen = append(firstSeen, e.UID)
				} else {
					// retransmission
					if f.pubEpoch == ep && f.state != "done" {
						return ev.Violf("C03.duplicate-in-epoch", "message %s (id %d) sent twice on one connection without a reconnect", e.UID, e.ID)
					}
					if !e.Dup {
						return ev.Violf("C03.retransmit-dup", "retransmission of %s (id %d) has DUP=0", e.UID, e.ID).With("epoch", ep)
					}
					if e.ID != f.id {
						return ev.Violf("C03.retransmit-id", "retransmission of %s uses id %d, original id %d", e.UID, e.ID, f.id)
					}
					if f.state == "rel" && !f.unsure {
						return ev.Violf("C03.retransmit-form", "message %s (id %d) retransmitted as PUBLISH although PUBREL had already been sent for it", e.UID, e.ID)
					}
					if seenNew {
						return ev.Violf("C03.retransmit-after-new", "retransmission of %s (id %d) arrived after a new message on this connection", e.UID, e.ID)
					}
					if f.order < lastRetransOrder {
						return ev.Violf("C03.retransmit-order", "retransmission of %s out of original order", e.UID)
					}
					lastRetransOrder = f.order
					retransmitted[f.uid] = true
					f.state, f.unsure, f.pubEpoch = "pub", false, ep
				}
			windowCheck:
				// window: PUBLISH packets received on this connection and not yet completed by S
				n := 0
				for _, g := range flows {
					if g.pubEpoch == ep && g.state != "done" {
						n++
					}
				}
				if n > lim {
					return ev.Violf("C03.window", "%d unacknowledged QoS>0 PUBLISH packets on a connection whose limit is %d (receive maximum / max_inflight)", n, lim).
						With("limit", lim, "retransmissions_only", !seenNew, "epoch", ep)
				}
				if n == lim {
					sawSaturated = true
				}
				// ids pairwise distinct among everything awaiting PUBACK/PUBCOMP
				seen := map[uint16]string{}
				for _, g := range flows {
					if g.state == "done" {
						continue
					}
					if o, ok := seen[g.id]; ok {
						return ev.Violf("C03.id-distinct", "packet id %d awaits acknowledgement for both %s and %s", g.id, o, g.uid)
					}
					seen[g.id] = g.uid
				}
			case "rrel":
				f := byID(e.ID)
				if f == nil {
					// a PUBREL for a flow S completed without confirmation is fine
					ok := false
					for _, g := range flows {
						if g.id == e.ID && g.unsure {
							g.state, ok = "rel", true
							g.unsure = false
							// the broker had not got the PUBCOMP: this PUBREL is the retransmission of the flow on this connection
							if g.pubEpoch < ep {
								retransmitted[g.uid] = true
							}
						}
					}
					if !ok {
						return ev.Violf("C03.pubrel-unknown", "PUBREL for id %d which has no open QoS2 flow", e.ID)
					}
					continue
				}
				if f.qos != 2 {
					return ev.Violf("C03.pubrel-qos1", "PUBREL for id %d which is a QoS1 flow", e.ID)
				}
				if f.pubEpoch < ep && f.state != "rel" {
					// retransmitted as PUBREL: only legal if S had sent PUBREC
					if f.state == "pub" && !f.unsure {
						return ev.Violf("C03.retransmit-form", "message %s (id %d) retransmitted as PUBREL although S never sent PUBREC", f.uid, f.id)
					}
				}
				if f.pubEpoch < ep {
					if seenNew {
						return ev.Violf("C03.retransmit-after-new", "PUBREL retransmission for id %d arrived after a new message", e.ID)
					}
					if f.order < lastRetransOrder {
						return ev.Violf("C03.retransmit-order", "PUBREL retransmission for id %d out of original order", e.ID)
					}
					lastRetransOrder = f.order
					retransmitted[f.uid] = true
				}
				f.state, f.unsure = "rel", false
			case "spuback", "spubcomp", "spubrecerr":
				if f := byID(e.ID); f != nil {
					f.state, f.unsure = "done", true
				}
			case "spubrec":
				if f := byID(e.ID); f != nil {
					f.state, f.unsure = "recsent", true
				}
			case "barrier":
				for u, g := range flows {
					g.unsure = false
					if g.state == "done" {
						final[u] = true
						delete(flows, u)
					}
				}
			}
		}
		// connection ended (cut): flows whose last ack was not confirmed stay unsure; confirmed-done flows are final
	}
	// at-least-once and queue order
	for _, u := range emitted {
		if flows[u] == nil && !final[u] {
			return ev.Violf("C03.at-least-once", "message %s (QoS>0, accepted) was never delivered", u)
		}
	}
	for i := 1; i < len(firstSeen); i++ {
		if firstSeen[i] < firstSeen[i-1] {
			return ev.Violf("C03.queue-order", "first transmissions out of queue order: %s before %s", firstSeen[i-1], firstSeen[i])
		}
	}
	for _, f := range flows {
		if f.state != "done" {
			return ev.Violf("C03.at-least-once", "flow %s (id %d) still in state %s after the final prompt-ack drain", f.uid, f.id, f.state)
		}
	}
	if sawCutWithInflight {
		c.Label("cut_with_inflight")
	}
	if sawSaturated {
		c.Label("window_saturated")
	}
	if sawCutWithInflight || sawSaturated {
		c.NonTrivial()
	}
	return nil
}

// TestC03IdWrap aims at the 65535 -> 1 wrap of the packet identifier space: a warm-up drives the id
// counter to the boundary, then messages are left unacknowledged across a cut and new ones follow.
func TestC03IdWrap(t *testing.T) {
	if i, _ := ev.Shard(); i >= 4 {
		t.Skip("65534 round trips per case (2-3 s): on four shards only")
	}
	ev.RunN(t, "C03", 0.02, func(t *rapid.T) c03Scen {
		// max_inflight 1: exactly one packet id per message, so after Warm messages the id counter stands at Warm
		s := c03Scen{V: rapid.SampledFrom([]int{4, 5}).Draw(t, "v"), MI: 1, SQ: 1, Warm: rapid.SampledFrom([]int{65534, 65534, 65533, 65532}).Draw(t, "warm")}
		// one or two messages left unacknowledged across the cut: ids Warm+1 (and Warm+2, past the wrap when Warm+1 = 65535)
		s.Ops = append(s.Ops, c03Op{Op: "pub", QoS: 1})
		if rapid.Bool().Draw(t, "second") {
			s.Ops = append(s.Ops, c03Op{Op: "pub", QoS: 1})
		}
		s.Ops = append(s.Ops, c03Op{Op: "cut"})
		k := rapid.IntRange(2, 4).Draw(t, "after")
		for i := 0; i < k; i++ {
			s.Ops = append(s.Ops, c03Op{Op: "ack", K: 0}, c03Op{Op: "pub", QoS: 1})
		}
		return s
	}, runC03)
}

func TestC03Outbound(t *testing.T) {
	ev.SetRule("C03", "rapid-generated scenario: subscriber version (3.1.1/5), Receive Maximum {absent,1,2,3,5}, max_inflight {1,2,3,5,100}, subscription QoS 1/2, and a script of 3-25 steps over {API publish QoS0-2, acknowledge the k-th outstanding flow (PUBACK / PUBREC / PUBCOMP; with or without a following PINGREQ barrier), PUBREC with error (v5), abrupt close + resume with a possibly different Receive Maximum, wait}; a final resume with prompt acks and an API sentinel drains everything. All packets S receives and all acks S sends are logged in one ordered log (acks logged before they are written); the oracle replays the log: window <= min(receive maximum, max_inflight) at every PUBLISH arrival, ids non-zero and pairwise distinct among open flows (PUBREL state included), DUP=0 first / DUP=1 + same id on retransmission, PUBREL form once PUBREL was seen, retransmissions before new messages and in original order, every accepted QoS>0 message delivered, first transmissions in queue order. Flows acknowledged without a confirmed barrier before a cut are 'unsure': both continuations are accepted. Non-trivial: a cut with >=1 unacknowledged in-flight message, or a saturated window; distinct by scenario digest.")
	ev.Run(t, "C03", genC03, runC03)
}
