package checks

// C06 input generators for sub-check 1: structure-aware mutations of valid mqttwire
// encodings, random bytes, hostile constants.

import (
	"encoding/binary"
	"encoding/hex"
	"strings"

	"pgregory.net/rapid"

	mw "verif/mqttwire"
)

type c06BytesScen struct {
	V    int    `json:"v"`
	Buf  int    `json:"buf"`
	Data []byte `json:"data"`
	Mut  string `json:"mut,omitempty"`
	Base string `json:"base,omitempty"`
}

var c06BufSizes = []int{16, 64, 2048, 4096}

// c06Hostile are hand written inputs (hex) that historically break MQTT decoders.
var c06Hostile = []string{
	"30ffffff7f",                           // PUBLISH declaring 256 MiB, no body
	"1080808080" + "01",                    // CONNECT with a 5 byte remaining length
	"82ffffff7f0001",                       // SUBSCRIBE declaring 256 MiB, 2 body bytes
	"c080808080" + "8001",                  // PINGREQ with a 6 byte remaining length
	"40ffffff7f0001",                       // PUBACK declaring 256 MiB
	"10ffffff7f00044d515454",               // CONNECT declaring 256 MiB
	"e0ffffff7f",                           // DISCONNECT declaring 256 MiB
	"62ffffffff",                           // PUBREL: four continuation bytes, then end of input
	"f0ffffff7f00",                         // AUTH declaring 256 MiB
	"20ffff7f",                             // CONNACK declaring 2 MiB
	"c0",                                   // PINGREQ without a length byte
	"c08000",                               // non canonical zero
	"3080",                                 // length cut inside the variable byte integer
	"00",                                   // reserved type
	"",                                     // nothing
	"ffffffffffffffffffff",                 // all ones
	"80808080808080808080808080808080",     // continuation bits only
	"3007ffff61",                           // PUBLISH: topic length beyond the end
	"300400016100" + "",                    // PUBLISH v5 empty props / v3 payload 00
	"300a0001610bffffffff7f00",             // PUBLISH v5: property length 268435455
	"300700016103260001",                   // PUBLISH v5: user property cut
	"3009000161050b010b02",                 // PUBLISH v5: duplicate subscription identifier
	"3008000161040101010100",               // PUBLISH v5: duplicate payload format
	"101000044d5154540502003c032100140000", // CONNECT v5 with receive maximum
	"100c00044d515454041e003c0000",         // CONNECT v4 will qos 3, no will payload
	"101600064d51497364700302003c000863303674657374", // CONNECT v3.1
	"8206000100012b00",                   // SUBSCRIBE "+"
	"820700010002" + "2b61" + "00",       // SUBSCRIBE "+a"
	"a2050001000123",                     // UNSUBSCRIBE "#"
	"62020001", "60020001", "6203000192", // PUBREL forms
	"e00100", "e0028100", "f0021800", "f00118",
	"2002ff00", "20020105", "200300000" + "0",
}

func c06HostileBytes() [][]byte {
	var out [][]byte
	for _, s := range c06Hostile {
		b, err := hex.DecodeString(s)
		if err != nil {
			panic("c06Hostile: " + s + ": " + err.Error())
		}
		out = append(out, b)
	}
	return out
}

// ---------------------------------------------------------------------------

var c06MutKinds = []string{
	"none", "truncate", "truncate", "rl-larger", "rl-larger", "rl-smaller", "rl-noncanon", "rl-5byte",
	"flags", "type", "prop-dup", "prop-dup", "prop-foreign", "prop-foreign", "prop-len", "utf8", "utf8",
	"strlen", "strlen", "byte", "byte", "insert", "delete", "propval", "semantic", "semantic",
}

var c06BadFragments = []string{
	"\xc0\x80", "\xed\xa0\x80", "\xed\xbf\xbf", "\xff", "\x00", "\xc3", "\xe2\x82", "\xf4\x90\x80\x80", "\xf8\x88\x80\x80\x80",
	"\xef\xbf\xbd", "\x01", "\x7f", "\xc2\x80", "\xef\xbf\xbf", "\xef\xb7\x90", "+", "#",
}

func c06Rebuild(first byte, body []byte) []byte {
	out := make([]byte, 0, len(body)+5)
	out = append(out, first)
	out = mw.AppendVarInt(out, uint32(len(body)))
	return append(out, body...)
}

func c06Splice(b []byte, at, del int, ins []byte) []byte {
	out := make([]byte, 0, len(b)-del+len(ins))
	out = append(out, b[:at]...)
	out = append(out, ins...)
	return append(out, b[at+del:]...)
}

// c06LenPrefixOffsets lists absolute offsets of two byte length prefixes in enc.
func c06LenPrefixOffsets(p *mw.Packet, enc []byte, v int) []int {
	h := c06ParseHdr(enc)
	if !h.wellFormed {
		return nil
	}
	var out []int
	afterProps := func(rel int) int { // absolute offset of what follows the property section starting at body offset rel
		abs := h.hdrLen + rel
		if v != 5 {
			return abs
		}
		if abs >= len(enc) {
			return -1
		}
		pl, m, err := mw.ReadVarInt(enc[abs:])
		if err != nil {
			return -1
		}
		return abs + m + int(pl)
	}
	add := func(abs int) {
		if abs >= 0 && abs+2 <= len(enc) {
			out = append(out, abs)
		}
	}
	switch p.Type {
	case mw.PUBLISH:
		add(h.hdrLen)
	case mw.CONNECT:
		add(h.hdrLen)
		name := p.ProtoName
		if name == "" {
			name = "MQTT"
		}
		cid := afterProps(2 + len(name) + 4)
		add(cid)
		if cid >= 0 && p.Will == nil && p.HasUsername {
			add(cid + 2 + len(p.ClientID))
		}
	case mw.SUBSCRIBE, mw.UNSUBSCRIBE:
		add(afterProps(2))
	}
	for _, will := range []bool{false, true} {
		off := c06PropsOffset(p, enc, will)
		if v != 5 || off < 0 {
			continue
		}
		pl, m, err := mw.ReadVarInt(enc[off:])
		if err != nil || off+m+int(pl) > len(enc) {
			continue
		}
		items, ok := c06SplitProps(enc[off+m : off+m+int(pl)])
		if !ok {
			continue
		}
		pos := off + m
		for _, it := range items {
			if k := c06PropKinds[it[0]]; k == c06KStr || k == c06KPair {
				add(pos + 1)
			}
			pos += len(it)
		}
	}
	return out
}

func c06GenMutated(t *rapid.T) c06BytesScen {
	v := rapid.SampledFrom([]int{3, 4, 5, 5, 5}).Draw(t, "v")
	d := mw.ToServer
	if rapid.IntRange(0, 3).Draw(t, "toClient") == 0 {
		d = mw.ToClient
	}
	p := mw.GenPacket(mw.Version(v), d).Draw(t, "pkt")
	kind := rapid.SampledFrom(c06MutKinds).Draw(t, "mut")
	s := c06BytesScen{V: v, Buf: rapid.SampledFrom(c06BufSizes).Draw(t, "buf"), Mut: kind, Base: p.Type.String()}

	// value level mutations
	switch kind {
	case "utf8":
		frag := rapid.SampledFrom(c06BadFragments).Draw(t, "frag")
		which := rapid.IntRange(0, 11).Draw(t, "field")
		n := 0
		c06MapStrings(p, func(x string) string { n++; return x })
		if n > 0 {
			i := 0
			p = c06MapStrings(p, func(x string) string {
				defer func() { i++ }()
				if i != which%n {
					return x
				}
				at := 0
				if len(x) > 0 {
					at = rapid.IntRange(0, len(x)).Draw(t, "at")
				}
				return x[:at] + frag + x[at:]
			})
		}
	case "propval":
		p = c06Clone(p)
		if p.Props == nil {
			p.Props = &mw.Props{}
		}
		switch rapid.IntRange(0, 9).Draw(t, "pv") {
		case 0:
			p.Props.PayloadFormat = u8p(2)
		case 1:
			p.Props.RequestProblemInfo = u8p(2)
		case 2:
			p.Props.ReceiveMax = u16p(0)
		case 3:
			p.Props.TopicAlias = u16p(0)
		case 4:
			p.Props.MaxPacketSize = u32p(0)
		case 5:
			p.Props.SubscriptionIDs = []uint32{0}
		case 6:
			p.Props.MaximumQoS = u8p(2)
		case 7:
			p.Props.SubscriptionIDs = []uint32{1, 2}
		case 8:
			p.Props.AuthMethod, p.Props.HasAuthData, p.Props.AuthData = nil, true, []byte("x")
		case 9:
			p.Props.ResponseTopic = strp(rapid.SampledFrom([]string{"", "a/+", "#", "a\x00"}).Draw(t, "rt"))
		}
	case "semantic":
		p = c06Clone(p)
		k := rapid.IntRange(0, 3).Draw(t, "sem")
		switch p.Type {
		case mw.PUBLISH:
			switch k {
			case 0:
				p.QoS, p.Dup = 0, true
			case 1:
				p.QoS = 3
			case 2:
				p.Topic = rapid.SampledFrom([]string{"", "a/+", "#", "+", "a/#"}).Draw(t, "topic")
			default:
				p.PacketID = 0
			}
		case mw.SUBSCRIBE:
			switch k {
			case 0:
				p.Subs = nil
			case 1:
				p.Subs[0].QoS = 3
			case 2:
				p.Subs[0].RH = 3
			default:
				p.Subs[0].Filter = rapid.SampledFrom([]string{"", "+a", "a+", "a/#/b", "#a", "$share//a", "$share/g", "$share/g/", "$share/g+/a"}).Draw(t, "filter")
			}
		case mw.UNSUBSCRIBE:
			if k == 0 {
				p.Filters = nil
			} else {
				p.Filters[0] = rapid.SampledFrom([]string{"", "+a", "a+", "a/#/b", "#a"}).Draw(t, "filter")
			}
		case mw.SUBACK:
			p.ReasonCodes = nil
		case mw.CONNECT:
			switch k {
			case 0:
				if p.Will == nil {
					p.Will = &mw.Will{Topic: "w", Payload: []byte("x")}
				} else {
					w := *p.Will
					p.Will = &w
				}
				p.Will.QoS = 3
			case 1:
				p.ProtoLevel = byte(rapid.SampledFrom([]int{0, 2, 6, 3, 4, 5}).Draw(t, "level"))
			case 2:
				p.ProtoName = rapid.SampledFrom([]string{"MQTX", "MQIsdp", "MQTT", "", "mqtt"}).Draw(t, "name")
			default:
				p.ClientID, p.CleanStart = "", false
			}
		default:
			p.PacketID = 0
		}
	}
	enc, err := mw.Encode(p, mw.Version(v))
	if err != nil {
		t.Fatalf("@@HARNESS-ERROR mqttwire.Encode: %v", err)
	}
	h := c06ParseHdr(enc)
	body := enc[h.hdrLen:]
	out := enc

	// propsAt returns (absolute offset of the property length, its size, the declared length) or ok=false
	propsAt := func() (off, m, pl int, ok bool) {
		if v != 5 {
			return
		}
		will := p.Type == mw.CONNECT && p.Will != nil && rapid.Bool().Draw(t, "willProps")
		off = c06PropsOffset(p, enc, will)
		if off < 0 {
			return
		}
		x, mm, err := mw.ReadVarInt(enc[off:])
		if err != nil || off+mm+int(x) > len(enc) {
			return
		}
		return off, mm, int(x), true
	}
	fix := func(b []byte) []byte { // b is a complete packet whose body changed: rewrite the remaining length
		hh := c06ParseHdr(enc)
		return c06Rebuild(b[0], b[hh.hdrLen:])
	}

	switch kind {
	case "truncate":
		if len(enc) > 1 {
			out = enc[:rapid.IntRange(0, len(enc)-1).Draw(t, "cut")]
		}
	case "rl-larger":
		rl := uint32(h.rl)
		nv := rapid.SampledFrom([]uint32{rl + 1, rl + 2, rl + 127, rl*2 + 1, 127, 128, 16383, 16384, 65535, 200000, 1 << 20}).Draw(t, "nrl")
		if rapid.IntRange(0, 199).Draw(t, "huge") == 137 { // rare (rapid favours the bounds of a range, not its middle)
			// not 256 MiB: gmqtt really allocates what is declared (F-c06-alloc-declared-length),
			// which takes seconds on a loaded machine; the 256 MiB inputs are in c06Hostile
			nv = 4 << 20
		}
		if nv <= rl {
			nv = rl + 1
		}
		out = append(mw.AppendVarInt([]byte{enc[0]}, nv), body...)
	case "rl-smaller":
		if h.rl > 0 {
			nv := uint32(rapid.IntRange(0, h.rl-1).Draw(t, "nrl"))
			out = append(mw.AppendVarInt([]byte{enc[0]}, nv), body...)
		}
	case "rl-noncanon":
		min := mw.VarIntLen(uint32(h.rl))
		if min < 4 {
			n := rapid.IntRange(min+1, 4).Draw(t, "n")
			out = append(mw.AppendVarIntN([]byte{enc[0]}, uint32(h.rl), n), body...)
		}
	case "rl-5byte":
		pre := rapid.SampledFrom([]string{"8080808001", "ffffffff7f", "808080808001", "8080808000", "80808080808000", "ffffffffff01"}).Draw(t, "vbi")
		b, _ := hex.DecodeString(pre)
		out = append(append([]byte{enc[0]}, b...), body...)
	case "flags":
		out = append([]byte(nil), enc...)
		out[0] ^= 1 << uint(rapid.IntRange(0, 3).Draw(t, "bit"))
	case "type":
		out = append([]byte(nil), enc...)
		out[0] = out[0]&0x0f | byte(rapid.IntRange(0, 15).Draw(t, "type"))<<4
	case "prop-dup", "prop-foreign":
		if off, m, pl, ok := propsAt(); ok {
			content := enc[off+m : off+m+pl]
			items, sok := c06SplitProps(content)
			var ins []byte
			if kind == "prop-dup" && sok && len(items) > 0 {
				ins = items[rapid.IntRange(0, len(items)-1).Draw(t, "which")]
			} else {
				ids := []byte{0x00, 0x04, 0x05, 0x7f, 0xff, 0x80}
				for _, id := range mw.AllPropIDs {
					ids = append(ids, byte(id))
				}
				ins = c06SampleProp(rapid.SampledFrom(ids).Draw(t, "id"))
			}
			at := 0
			if sok && len(items) > 0 {
				for _, it := range items[:rapid.IntRange(0, len(items)).Draw(t, "pos")] {
					at += len(it)
				}
			}
			nc := c06Splice(content, at, 0, ins)
			np := append(mw.AppendVarInt(nil, uint32(len(nc))), nc...)
			out = c06Splice(enc, off, m+pl, np)
			if rapid.IntRange(0, 3).Draw(t, "nofix") != 0 {
				out = fix(out)
			}
		}
	case "prop-len":
		if off, m, pl, ok := propsAt(); ok {
			var nv []byte
			switch rapid.IntRange(0, 5).Draw(t, "pl") {
			case 0:
				nv = mw.AppendVarInt(nil, uint32(pl+1))
			case 1:
				nv = mw.AppendVarInt(nil, uint32(pl+rapid.IntRange(2, 300).Draw(t, "more")))
			case 2:
				if pl > 0 {
					nv = mw.AppendVarInt(nil, uint32(rapid.IntRange(0, pl-1).Draw(t, "less")))
				}
			case 3:
				nv = mw.AppendVarIntN(nil, uint32(pl), 4)
			case 4:
				nv = []byte{0x80, 0x80, 0x80, 0x80, 0x01}
			default:
				nv = []byte{0xff, 0xff, 0xff, 0x7f}
			}
			if nv != nil {
				out = fix(c06Splice(enc, off, m, nv))
			}
		}
	case "strlen":
		if offs := c06LenPrefixOffsets(p, enc, v); len(offs) > 0 {
			at := rapid.SampledFrom(offs).Draw(t, "at")
			old := int(binary.BigEndian.Uint16(enc[at:]))
			nv := rapid.SampledFrom([]int{old + 1, old + 2, old + 200, 0xffff, old - 1, 0, len(enc)}).Draw(t, "len")
			if nv < 0 {
				nv = 0xfffe
			}
			out = append([]byte(nil), enc...)
			binary.BigEndian.PutUint16(out[at:], uint16(nv))
		}
	case "byte":
		if len(enc) > 0 {
			lo := 0
			if len(enc) > h.hdrLen && rapid.IntRange(0, 3).Draw(t, "behind") != 0 {
				lo = h.hdrLen
			}
			at := rapid.IntRange(lo, len(enc)-1).Draw(t, "at")
			out = append([]byte(nil), enc...)
			if rapid.Bool().Draw(t, "flip") {
				out[at] ^= 1 << uint(rapid.IntRange(0, 7).Draw(t, "bit"))
			} else {
				out[at] = rapid.Byte().Draw(t, "val")
			}
		}
	case "insert":
		at := rapid.IntRange(h.hdrLen, len(enc)).Draw(t, "at")
		out = fix(c06Splice(enc, at, 0, []byte{rapid.Byte().Draw(t, "val")}))
	case "delete":
		if len(body) > 0 {
			at := rapid.IntRange(h.hdrLen, len(enc)-1).Draw(t, "at")
			out = fix(c06Splice(enc, at, 1, nil))
		}
	}
	switch rapid.IntRange(0, 5).Draw(t, "tail") {
	case 0:
		out = append(append([]byte(nil), out...), 0xc0, 0x00)
	case 1:
		out = append(append([]byte(nil), out...), rapid.SliceOfN(rapid.Byte(), 1, 8).Draw(t, "tailBytes")...)
	case 2:
		out = append(append([]byte(nil), out...), 0xff, 0xff, 0x03, 0xff) // after a cut at 1: declares 64 KiB, not 256 MiB
	}
	// Cap the declared length at 2 MiB (gmqtt really allocates what is declared, see
	// c06GenRandom); the over-long forms of rl-5byte are rejected before any allocation.
	if kind != "rl-5byte" && len(out) > 3 && c06ParseHdr(out).lenient > 8<<20 {
		out = append([]byte(nil), out...)
		out[3] &= 0x7f
		s.Mut += "+capped"
	}
	s.Data = out
	return s
}

var c06Alphabet = []byte{0, 1, 2, 3, 4, 5, 6, 'a', '/', '+', '#', '$', 0x26, 0x0b, 0x21, 0x1f, 0x80, 0xff, 0xc3, 0xa9, 0xef, 0xbf, 0xbd, 'M', 'Q', 'T'}

func c06GenRandom(t *rapid.T) c06BytesScen {
	s := c06BytesScen{V: rapid.SampledFrom([]int{3, 4, 5, 5}).Draw(t, "v"), Buf: rapid.SampledFrom(c06BufSizes).Draw(t, "buf")}
	switch rapid.IntRange(0, 3).Draw(t, "kind") {
	case 0:
		s.Mut = "raw"
		s.Data = rapid.SliceOfN(rapid.Byte(), 0, 48).Draw(t, "raw")
		// Cap the declared length at 2 MiB (three length bytes): gmqtt really allocates what
		// is declared (F-c06-alloc-declared-length), hundreds of MiB take seconds each on a
		// loaded machine. Inputs declaring 256 MiB are in c06Hostile and the corpus.
		if len(s.Data) > 3 && s.Data[1]&0x80 != 0 && s.Data[2]&0x80 != 0 {
			s.Data[3] &= 0x7f
		}
	default:
		s.Mut = "framed"
		ty := byte(rapid.IntRange(1, 15).Draw(t, "type"))
		flags := byte(0)
		switch mw.Type(ty) {
		case mw.PUBLISH:
			flags = byte(rapid.IntRange(0, 15).Draw(t, "flags"))
		case mw.PUBREL, mw.SUBSCRIBE, mw.UNSUBSCRIBE:
			flags = 2
		}
		if rapid.IntRange(0, 9).Draw(t, "oddFlags") == 0 {
			flags = byte(rapid.IntRange(0, 15).Draw(t, "flags2"))
		}
		var body []byte
		if mw.Type(ty) == mw.CONNECT && rapid.Bool().Draw(t, "connHead") {
			lvl := byte(rapid.SampledFrom([]int{3, 4, 5}).Draw(t, "lvl"))
			if lvl == 3 {
				body = append(body, 0, 6, 'M', 'Q', 'I', 's', 'd', 'p', 3)
			} else {
				body = append(body, 0, 4, 'M', 'Q', 'T', 'T', lvl)
			}
		}
		gen := rapid.SampledFrom(c06Alphabet)
		if rapid.Bool().Draw(t, "anyByte") {
			gen = rapid.Byte()
		}
		body = append(body, rapid.SliceOfN(gen, 0, 40).Draw(t, "body")...)
		s.Data = c06Rebuild(ty<<4|flags, body)
	}
	s.Base = strings.ToLower(c06TypeName(s.Data))
	return s
}
