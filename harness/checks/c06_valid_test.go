package checks

// C06 sub-check 5: UTF-8 / topic name / topic filter validity against topicref, on the
// functions (with the contract the decoder uses them under: ValidUTF8 first, then the
// syntax test with mustUTF8=true) and through PUBLISH / SUBSCRIBE / UNSUBSCRIBE decoding.

import (
	"bytes"
	"strings"
	"testing"

	"github.com/DrmagicE/gmqtt/pkg/packets"
	"pgregory.net/rapid"

	"verif/ev"
	mw "verif/mqttwire"
	"verif/topicref"
)

type c06ValidScen struct {
	B    []byte `json:"b"`
	Kind string `json:"kind,omitempty"`
}

var c06Levels = []string{
	"a", "b", "a", "", "+", "+", "#", "#", "+a", "a+", "#a", "a#", "$share", "$share", "g", "$SYS", "a b",
	"é", "日本", "\U0001d11e", "\ufffd", "\uffff", "\ufdd0", "\U0001fffe", "\u0001", "\u001f", "\u007f", "\u0080", "\u009f",
	"\x00", "\xed\xa0\x80", "\xc0\x80", "\xff", "\xc3", "\xe2\x82", "\xf4\x90\x80\x80", "g+", "g#", "+g",
}

var c06Forms = []string{
	"", "/", "//", "#", "+", "+/+", "+/#", "a/+/#", "/#", "/+", "+/", "#/", "+a", "a+", "a/+b", "a/b+", "a/#/b", "#a", "a#", "a/#a", "##", "++", "+#", "#+",
	"$share", "$share/", "$share//", "$share//a", "$share/g", "$share/g/", "$share/g/a", "$share/g/#", "$share/g/+", "$share/g/+/a", "$share/g/+a",
	"$share/g+/a", "$share/g#/a", "$share/+/a", "$share/#/a", "$share/#", "$share/+", "$share/g//", "$share/g/a/#/b", "$share/é/a", "$share/g\ufffd/a",
	"$share/g\u0001/a", "$sharex/g/a", "$SHARE/g/a", "a\x00b", "a/\ufffd", "\ufffd", "\uffff", "a\u0001", "\xed\xa0\x80", "\xc0\x80", "\xef\xbf", "+\ufffd", "+é",
	"é+", "/é#", "a/+é", "é/+", "é/#",
}

var c06ValidAlphabet = []byte{'a', 'b', '/', '/', '+', '#', '$', 's', 'h', 'r', 'e', 0, 1, 0x7f, 0xc3, 0xa9, 0xef, 0xbf, 0xbd, 0xbf, 0xed, 0xa0, 0x80, 0xc2, 0xff}

func c06GenValid(t *rapid.T) c06ValidScen {
	switch k := rapid.IntRange(0, 9).Draw(t, "kind"); {
	case k <= 4:
		lv := rapid.SliceOfN(rapid.SampledFrom(c06Levels), 1, 5).Draw(t, "levels")
		return c06ValidScen{B: []byte(strings.Join(lv, "/")), Kind: "levels"}
	case k <= 6:
		f := rapid.SampledFrom(c06Forms).Draw(t, "form")
		if rapid.IntRange(0, 3).Draw(t, "suffix") == 0 {
			f += rapid.SampledFrom([]string{"/", "/a", "/#", "/+", "a", "+", "#", "\ufffd"}).Draw(t, "sfx")
		}
		return c06ValidScen{B: []byte(f), Kind: "form"}
	case k == 7:
		return c06ValidScen{B: rapid.SliceOfN(rapid.SampledFrom(c06ValidAlphabet), 0, 16).Draw(t, "alpha"), Kind: "alphabet"}
	case k == 8:
		return c06ValidScen{B: rapid.SliceOfN(rapid.Byte(), 0, 24).Draw(t, "raw"), Kind: "random"}
	default:
		pre := rapid.SampledFrom([]string{"", "$share/g/", "a/", "+/"}).Draw(t, "pre")
		return c06ValidScen{B: []byte(pre + mw.GenUTF8String().Draw(t, "utf8")), Kind: "utf8"}
	}
}

// c06PlusPrefixRegion: the (share-stripped) filter starts with '+' followed by something
// other than '/'.
func c06PlusPrefixRegion(f []byte) bool {
	return len(f) > 1 && f[0] == '+' && f[1] != '/'
}

func c06ShareStrip(b []byte) []byte {
	if bytes.HasPrefix(b, []byte("$share/")) {
		if p := bytes.SplitN(b, []byte("/"), 3); len(p) == 3 {
			return p[2]
		}
	}
	return b
}

// c06Judge compares one accept/reject decision with the reference verdict. kfAccept /
// kfReject name an open-able known finding whose region contains this input (or "").
func c06Judge(c *ev.Case, fn string, want topicref.Verdict, got bool, b []byte, kfAccept, kfReject string, feats []any) *ev.Violation {
	switch want {
	case topicref.May:
		if got {
			c.Label("may_accepted_" + fn)
		} else {
			c.Label("may_rejected_" + fn)
		}
		return nil
	case topicref.Valid:
		if got {
			return nil
		}
		if kfReject != "" && ev.KF(kfReject) {
			c.Excluded(kfReject)
			return nil
		}
		return ev.Violf("C06.valid-"+fn, "%q (%x) must be accepted, is rejected", b, b).With(append(feats, "fn", fn, "want", "accept")...)
	default:
		if !got {
			return nil
		}
		if kfAccept != "" && ev.KF(kfAccept) {
			c.Excluded(kfAccept)
			return nil
		}
		return ev.Violf("C06.valid-"+fn, "%q (%x) must be rejected, is accepted", b, b).With(append(feats, "fn", fn, "want", "reject")...)
	}
}

func c06Accepts(v int, p *mw.Packet) (bool, string) {
	enc, err := mw.Encode(p, mw.Version(v))
	if err != nil {
		return false, "encode: " + err.Error()
	}
	r := c06Decode(v, enc, 4096, false)
	return r.err == nil && r.pkt != nil, r.panicked
}

func c06RunValid(s c06ValidScen, c *ev.Case) *ev.Violation {
	b := s.B
	c.Label("valid_" + s.Kind)
	feats := []any{"kind", s.Kind}
	nonASCII := false
	for _, x := range b {
		if x >= 0x80 {
			nonASCII = true
		}
	}
	if nonASCII || bytes.ContainsAny(b, "+#") || bytes.HasPrefix(b, []byte("$share")) {
		c.NonTrivial()
	}
	fffd := bytes.Contains(b, []byte("\ufffd"))
	kfF := ""
	if fffd {
		kfF = c06KFFFFD
	}
	u := topicref.UTF8(b)
	name := topicref.TopicName(b)
	filter := topicref.TopicFilter(b)
	v5f := topicref.V5Filter(b)
	if string(b) == "$share" {
		// "$share" without a slash is not a shared subscription by §4.8.2's syntax and a
		// legal plain filter by §4.7; topicref calls it invalid. Not asserted either way.
		v5f = topicref.May
	}
	c.Label("ref_name_" + name.String())
	c.Label("ref_filter_" + filter.String())
	c.Label("ref_v5filter_" + v5f.String())

	gu := packets.ValidUTF8(b)
	if v := c06Judge(c, "utf8", u, gu, b, "", kfF, feats); v != nil {
		return v
	}
	// the decoder's contract: readUTF8String(true) (ValidUTF8) and then the syntax function
	kfEmpty := ""
	if len(b) == 0 {
		kfEmpty = c06KFEmptyName
	}
	if v := c06Judge(c, "topicname", name, gu && packets.ValidTopicName(true, b), b, kfEmpty, kfF, feats); v != nil {
		return v
	}
	kfPlus := ""
	if c06PlusPrefixRegion(b) {
		kfPlus = c06KFPlus
	}
	if v := c06Judge(c, "topicfilter", filter, gu && packets.ValidTopicFilter(true, b), b, kfPlus, kfF, feats); v != nil {
		return v
	}
	kfPlus5 := ""
	if c06PlusPrefixRegion(c06ShareStrip(b)) {
		kfPlus5 = c06KFPlus
	}
	if v := c06Judge(c, "v5topic", v5f, gu && packets.ValidV5Topic(b), b, kfPlus5, kfF, feats); v != nil {
		return v
	}
	// the syntax functions alone must at least accept every valid input
	if name == topicref.Valid && !packets.ValidTopicName(true, b) && !(fffd && ev.KF(c06KFFFFD)) {
		return ev.Violf("C06.valid-topicname", "ValidTopicName(true, %q) = false for a valid topic name", b).With(append(feats, "fn", "topicname-raw")...)
	}
	if filter == topicref.Valid && !packets.ValidTopicFilter(true, b) && !(fffd && ev.KF(c06KFFFFD)) {
		return ev.Violf("C06.valid-topicfilter", "ValidTopicFilter(true, %q) = false for a valid topic filter", b).With(append(feats, "fn", "topicfilter-raw")...)
	}

	// through the decoder
	topic := string(b)
	for _, v := range []int{4, 5} {
		vf := append(feats, "version", v)
		acc, pan := c06Accepts(v, &mw.Packet{Type: mw.PUBLISH, Topic: topic, Payload: []byte("x")})
		if pan != "" {
			return ev.Violf("C06.panic", "PUBLISH with topic %q: %s", b, pan).With(vf...)
		}
		wantName := name
		if v == 5 && len(b) == 0 {
			wantName = topicref.May // an empty name is legal together with a topic alias: not asserted
		}
		if viol := c06Judge(c, "dec-publish", wantName, acc, b, kfEmpty, kfF, append(vf, "type", "PUBLISH")); viol != nil {
			return viol
		}
		acc, pan = c06Accepts(v, &mw.Packet{Type: mw.SUBSCRIBE, PacketID: 1, Subs: []mw.SubReq{{Filter: topic, QoS: 1}}})
		if pan != "" {
			return ev.Violf("C06.panic", "SUBSCRIBE with filter %q: %s", b, pan).With(vf...)
		}
		wantSub, kfSub := filter, kfPlus
		if v == 5 {
			wantSub, kfSub = v5f, kfPlus5
		}
		if viol := c06Judge(c, "dec-subscribe", wantSub, acc, b, kfSub, kfF, append(vf, "type", "SUBSCRIBE")); viol != nil {
			return viol
		}
		acc, pan = c06Accepts(v, &mw.Packet{Type: mw.UNSUBSCRIBE, PacketID: 1, Filters: []string{topic}})
		if pan != "" {
			return ev.Violf("C06.panic", "UNSUBSCRIBE with filter %q: %s", b, pan).With(vf...)
		}
		wantUnsub := filter
		if v == 5 && filter != v5f {
			wantUnsub = topicref.May // "$share/..." that is a legal plain filter but not a legal shared one: not asserted
		}
		if viol := c06Judge(c, "dec-unsubscribe", wantUnsub, acc, b, kfPlus, kfF, append(vf, "type", "UNSUBSCRIBE")); viol != nil {
			return viol
		}
	}
	return nil
}

func TestC06Validity(t *testing.T) {
	ev.SetRule("C06", c06Rule)
	ev.RunN(t, "C06", 1.5, c06GenValid, c06RunValid)
}
