package checks

// C14, sub-check (B): what a hook decides is what happens. Hooks are supplied through
// server.WithHook; their verdicts are part of the generated scenario. Every observable
// consequence (ack codes, SubscriptionService / RetainedService / ClientService contents,
// messages actually received behind a barrier) is compared with a model of the decision.
//
// The scenarios are partitioned into regions, one test per region, so that a failure in
// one region (for instance "OnWillPublish replaced req.Message") cannot hide the others.

import (
	"context"
	"errors"
	"fmt"
	"sort"
	"sync/atomic"
	"testing"
	"time"

	"github.com/DrmagicE/gmqtt"
	"github.com/DrmagicE/gmqtt/persistence/subscription"
	"github.com/DrmagicE/gmqtt/pkg/codes"
	"github.com/DrmagicE/gmqtt/pkg/packets"
	"github.com/DrmagicE/gmqtt/server"
	"pgregory.net/rapid"

	"verif/ev"
	"verif/fixture"
	mw "verif/mqttwire"
	"verif/topicref"
)

// c14Err is a hook's error verdict: a *codes.Error with a reason code, or a plain error
// (which the broker documents as 0x80 Unspecified error).
type c14Err struct {
	Code  byte `json:"code"`
	Plain bool `json:"plain,omitempty"`
}

func (e c14Err) err() error {
	if e.Plain {
		return errors.New("denied by the hook")
	}
	return &codes.Error{Code: e.Code}
}

func (e c14Err) want() byte {
	if e.Plain {
		return 0x80
	}
	return e.Code
}

func genC14Err(t *rapid.T, label string, table []byte) c14Err {
	if rapid.IntRange(0, 5).Draw(t, label+"_plain") == 0 {
		return c14Err{Plain: true}
	}
	return c14Err{Code: rapid.SampledFrom(table).Draw(t, label+"_code")}
}

var (
	c14ConnackCodes  = []byte{0x80, 0x83, 0x85, 0x86, 0x87, 0x88, 0x89, 0x8A, 0x8C, 0x97, 0x9F}
	c14V3Codes       = []byte{1, 2, 3, 4, 5}
	c14SubackCodes   = []byte{0x80, 0x83, 0x87, 0x8F, 0x91, 0x97, 0x9E, 0xA1, 0xA2}
	c14UnsubackCodes = []byte{0x80, 0x83, 0x87, 0x8F, 0x91}
	c14PubackCodes   = []byte{0x80, 0x83, 0x87, 0x90, 0x91, 0x97, 0x99}
	c14DisconnCodes  = []byte{0x80, 0x83, 0x87, 0x8C, 0x97}
)

type c14WillSpec struct {
	Topic   string `json:"topic"`
	QoS     byte   `json:"qos"`
	Retain  bool   `json:"retain,omitempty"`
	Payload string `json:"payload"`
}

type c14AuthScen struct {
	Enhanced bool `json:"enhanced,omitempty"` // CONNECT carries an Authentication Method (v5)
	// EmptyMethod: the Authentication Method property is present but zero length (still "an authentication method")
	EmptyMethod bool         `json:"empty_method,omitempty"`
	Err         c14Err       `json:"err"`
	Will        *c14WillSpec `json:"will,omitempty"`
	Clean       bool         `json:"clean"`
	Expiry      bool         `json:"expiry,omitempty"` // v5: Session Expiry Interval 1000
	User        bool         `json:"user,omitempty"`
	Pipeline    bool         `json:"pipeline,omitempty"` // SUBSCRIBE + retained PUBLISH sent right behind the CONNECT
	// Rounds (enhanced only): OnEnhancedAuth answers "continue" and hands the broker an OnAuth callback; the client
	// answers every AUTH (0x18) with an AUTH (0x18); after Rounds exchanges the callback rejects with Err
	Rounds int `json:"rounds,omitempty"`
	// Accept (Rounds > 0): the last round accepts instead of rejecting - the CONNECT must then succeed
	Accept bool `json:"accept,omitempty"`
	// CheckClosed: region "the broker closes the network connection after the failing CONNACK"
	// (a bounded liveness wait, therefore its own small test)
	CheckClosed bool `json:"check_closed,omitempty"`
}

type c14SubEntry struct {
	Form     int    `json:"form"` // 0 "<p><i>/a", 1 "<p><i>/+", 2 "<p><i>/#"
	QoS      byte   `json:"qos"`
	NL       bool   `json:"nl,omitempty"`
	RAP      bool   `json:"rap,omitempty"`
	Act      string `json:"act,omitempty"` // "" | reject | grant | rewrite
	Err      c14Err `json:"err"`
	Grant    byte   `json:"grant,omitempty"`
	RwFilter bool   `json:"rw_filter,omitempty"` // s<i>/… becomes r<i>/…
	RwNL     *bool  `json:"rw_nl,omitempty"`
	RwRAP    *bool  `json:"rw_rap,omitempty"`
	Replace  bool   `json:"replace,omitempty"` // entry.Sub = &copy instead of editing in place
}

type c14SubScen struct {
	Entries   []c14SubEntry `json:"entries"`
	Whole     *c14Err       `json:"whole,omitempty"` // error returned by the hook (overrides everything)
	SetID     uint32        `json:"set_id,omitempty"`
	StripID   bool          `json:"strip_id,omitempty"` // the hook calls SetID(0): the subscription gets no identifier although the SUBSCRIBE carried one
	SubID     uint32        `json:"sub_id,omitempty"`   // Subscription Identifier of the SUBSCRIBE (v5)
	PubRetain bool          `json:"pub_retain,omitempty"`
	// PreRetained: retained QoS 2 messages exist on the original and the rewritten topic of every entry before the
	// SUBSCRIBE; what is replayed must follow the hook's decision (filter, QoS, identifier; nothing when rejected)
	PreRetained bool `json:"pre_retained,omitempty"`
}

type c14UnsubScen struct {
	Acts  []string `json:"acts"` // per filter u<i>/a: "" | reject | redirect (to ux/a, which is not in the UNSUBSCRIBE)
	Errs  []c14Err `json:"errs"`
	Whole *c14Err  `json:"whole,omitempty"`
}

type c14ArrScen struct {
	QoS     byte   `json:"qos"`
	Retain  bool   `json:"retain,omitempty"`
	Empty   bool   `json:"empty,omitempty"`    // zero-length payload
	OldOrig bool   `json:"old_orig,omitempty"` // a retained message exists on the original topic
	OldNew  bool   `json:"old_new,omitempty"`  // … on the topic the hook rewrites to
	Verdict string `json:"verdict"`            // accept | error | drop | rewrite
	Err     c14Err `json:"err"`
	RwTopic bool   `json:"rw_topic,omitempty"`
	// IterTopic: the hook that rewrites Message.Topic also sets IterationOptions.TopicName
	IterTopic bool  `json:"iter_topic,omitempty"`
	RwPay     bool  `json:"rw_payload,omitempty"`
	RwQoS     *byte `json:"rw_qos,omitempty"`
	RwRetain  *bool `json:"rw_retained,omitempty"`
	Replace   bool  `json:"replace,omitempty"` // req.Message = &copy instead of editing in place
	// Redeliver (QoS 2 only, exchange still open after PUBREC): the publisher sends the same PUBLISH again with DUP=1 and
	// the same packet identifier before PUBREL - 1: on the same connection, 2: after a reconnect that resumes its session.
	// It is the same event: the hook must not fire again. Flip: if it does fire again, its verdict is "accept" now.
	Redeliver int  `json:"redeliver,omitempty"`
	Flip      bool `json:"flip,omitempty"`
}

type c14WillScen struct {
	QoS     byte   `json:"qos"`
	Verdict string `json:"verdict"` // none | drop | edit | replace
	RwTopic bool   `json:"rw_topic,omitempty"`
	RwPay   bool   `json:"rw_payload,omitempty"`
	RwQoS   *byte  `json:"rw_qos,omitempty"`
}

type c14ReAuthScen struct {
	DataIsMethod bool   `json:"data_is_method"` // AUTH packet's Authentication Data equals the Authentication Method
	Verdict      string `json:"verdict"`        // ok | continue | error
	Err          c14Err `json:"err"`
	RespData     string `json:"resp_data"`
}

type c14DecScen struct {
	Mode   string         `json:"mode"`
	V      int            `json:"v"`
	Auth   *c14AuthScen   `json:"auth,omitempty"`
	Sub    *c14SubScen    `json:"sub,omitempty"`
	Unsub  *c14UnsubScen  `json:"unsub,omitempty"`
	Arr    *c14ArrScen    `json:"arrived,omitempty"`
	Will   *c14WillScen   `json:"will,omitempty"`
	ReAuth *c14ReAuthScen `json:"reauth,omitempty"`
}

func c14Bool(t *rapid.T, label string) bool { return rapid.IntRange(0, 1).Draw(t, label) == 1 }

func c14OptBool(t *rapid.T, label string) *bool {
	switch rapid.IntRange(0, 2).Draw(t, label) {
	case 1:
		v := false
		return &v
	case 2:
		v := true
		return &v
	}
	return nil
}

// ---------------------------------------------------------------------------------------
// auth

// c14ClosedWait bounds the only liveness wait of this check.
const c14ClosedWait = 3 * time.Second

// genC14AuthClosed draws almost nothing (nothing to shrink: every re-run costs c14ClosedWait).
func genC14AuthClosed(t *rapid.T) c14DecScen {
	v := rapid.SampledFrom([]int{5, 4}).Draw(t, "v")
	code := byte(0x87)
	if v == 4 {
		code = 5
	}
	return c14DecScen{Mode: "auth", V: v, Auth: &c14AuthScen{Err: c14Err{Code: code}, Clean: true, CheckClosed: true}}
}

// genC14Auth: v3map = the region "v3.x client, hook rejects with a v5 reason code".
func genC14Auth(v3map bool) func(t *rapid.T) c14DecScen {
	return func(t *rapid.T) c14DecScen {
		s := c14DecScen{Mode: "auth"}
		a := &c14AuthScen{}
		s.Auth = a
		if v3map {
			s.V = 4
			a.Err = genC14Err(t, "err", c14ConnackCodes)
		} else {
			s.V = rapid.SampledFrom([]int{4, 5, 5}).Draw(t, "v")
			if s.V == 5 {
				a.Enhanced = rapid.IntRange(0, 2).Draw(t, "enhanced") == 0
				a.EmptyMethod = a.Enhanced && rapid.IntRange(0, 2).Draw(t, "empty_method") == 0
				if a.Enhanced && !a.EmptyMethod {
					a.Rounds = rapid.SampledFrom([]int{0, 0, 1, 2}).Draw(t, "rounds")
					a.Accept = a.Rounds > 0 && rapid.IntRange(0, 2).Draw(t, "accept") == 0
				}
				a.Err = genC14Err(t, "err", c14ConnackCodes)
				a.Expiry = c14Bool(t, "expiry")
			} else {
				a.Err = c14Err{Code: rapid.SampledFrom(c14V3Codes).Draw(t, "code")}
			}
		}
		if rapid.IntRange(0, 3).Draw(t, "will") != 0 {
			a.Will = &c14WillSpec{Topic: rapid.SampledFrom([]string{"w/a", "w/b", "q/1"}).Draw(t, "wtopic"),
				QoS: byte(rapid.IntRange(0, 2).Draw(t, "wqos")), Retain: c14Bool(t, "wretain"), Payload: "will"}
		}
		a.Clean = c14Bool(t, "clean")
		a.User = c14Bool(t, "user")
		a.Pipeline = c14Bool(t, "pipeline")
		if a.Rounds > 0 {
			a.Pipeline = false // packets behind the CONNECT would be taken for the client's answer to the challenge
		}
		return s
	}
}

func runC14Auth(s c14DecScen, c *ev.Case) *ev.Violation {
	a := s.Auth
	var calls int32
	var authCalls int32
	var badAuth atomic.Value // what the OnAuth callback saw when it was not what the client had sent
	onAuth := func(ctx context.Context, cl server.Client, req *server.AuthRequest) (*server.AuthResponse, error) {
		n := int(atomic.AddInt32(&authCalls, 1))
		if req.Auth == nil || req.Auth.Properties == nil || string(req.Auth.Properties.AuthData) != fmt.Sprintf("response-%d", n) {
			badAuth.Store(fmt.Sprintf("round %d: %+v", n, req.Auth))
		}
		if n >= a.Rounds {
			if a.Accept {
				return &server.AuthResponse{}, nil
			}
			return nil, a.Err.err()
		}
		return &server.AuthResponse{Continue: true, AuthData: []byte(fmt.Sprintf("challenge-%d", n+1))}, nil
	}
	hooks := &server.Hooks{
		OnBasicAuth: func(ctx context.Context, cl server.Client, req *server.ConnectRequest) error {
			if string(req.Connect.ClientID) == "rej" {
				atomic.AddInt32(&calls, 1)
				return a.Err.err()
			}
			return nil
		},
		OnEnhancedAuth: func(ctx context.Context, cl server.Client, req *server.ConnectRequest) (*server.EnhancedAuthResponse, error) {
			if string(req.Connect.ClientID) == "rej" {
				atomic.AddInt32(&calls, 1)
				if a.Rounds == 0 {
					return nil, a.Err.err()
				}
				return &server.EnhancedAuthResponse{Continue: true, AuthData: []byte("challenge-1"), OnAuth: onAuth}, nil
			}
			return &server.EnhancedAuthResponse{}, nil
		},
	}
	b, err := fixture.Start(fixture.Opts{Config: fixture.BaseConfig(), Hooks: hooks})
	if err != nil {
		return harnessErr("start broker: %v", err)
	}
	defer b.Stop()
	obs, oack, err := b.Connect(fixture.ConnectOpts{ID: "obs", V: mw.V5, CleanStart: true, AutoAck: true})
	if err != nil || oack.ReasonCode != 0 {
		return ev.Violf("C14.auth-accept", "observer (accepted by the hook) could not connect: %v %v", oack, err)
	}
	defer obs.Kill()
	if err := subscribeSentinel(obs); err != nil {
		return harnessErr("%v", err)
	}
	if code, err := subscribeOne(obs, 2, subSpec{Filter: "#", QoS: 2, RAP: true}); err != nil || code != 2 {
		return harnessErr("observer subscribe: %v %v", code, err)
	}

	conn, err := b.DialConn()
	if err != nil {
		return harnessErr("dial: %v", err)
	}
	cl := fixture.NewClient(conn, "rej", ver(s.V))
	defer cl.Kill()
	name, lvl := mw.ProtoFor(ver(s.V))
	cp := &mw.Packet{Type: mw.CONNECT, ProtoName: name, ProtoLevel: lvl, CleanStart: a.Clean, ClientID: "rej"}
	if a.Will != nil {
		cp.Will = &mw.Will{Topic: a.Will.Topic, QoS: a.Will.QoS, Retain: a.Will.Retain, Payload: []byte(a.Will.Payload)}
	}
	if a.User {
		cp.HasUsername, cp.Username, cp.HasPassword, cp.Password = true, "user", true, []byte("secret")
	}
	if s.V == 5 {
		cp.Props = &mw.Props{}
		if a.Enhanced {
			cp.Props.AuthMethod = strp("m")
			if a.EmptyMethod {
				cp.Props.AuthMethod = strp("")
				c.Label("auth_empty_method")
			}
		}
		if a.Expiry {
			cp.Props.SessionExpiry = u32p(1000)
		}
	}
	if err := cl.Send(cp); err != nil {
		return harnessErr("send CONNECT: %v", err)
	}
	if a.Pipeline {
		// a client that does not wait for the CONNACK; the broker may already have closed
		_ = cl.Send(&mw.Packet{Type: mw.SUBSCRIBE, PacketID: 1, Subs: []mw.SubReq{{Filter: "q/#", QoS: 1}}})
		_ = cl.Send(&mw.Packet{Type: mw.PUBLISH, Topic: "q/1", Retain: true, Payload: []byte("sneak")})
		c.Label("auth_pipelined")
	}
	c.NonTrivial()
	c.Label(fmt.Sprintf("auth_v%d_enhanced_%v", s.V, a.Enhanced))
	feat := []any{"version", s.V, "enhanced", a.Enhanced, "code", a.Err.want(), "plain", a.Err.Plain}

	for k := 1; k <= a.Rounds; k++ {
		// the broker relays the hook's challenge as AUTH (0x18, same method); the client answers
		p, err := cl.WaitType(mw.AUTH, fixture.DefaultWait)
		if err != nil {
			return ev.Violf("C14.auth-continue", "OnEnhancedAuth/OnAuth answered 'continue' (round %d), no AUTH packet arrived: %v", k, err).With(feat...)
		}
		gotData := ""
		if p.Props != nil {
			gotData = string(p.Props.AuthData)
		}
		if p.ReasonCode != 0x18 || gotData != fmt.Sprintf("challenge-%d", k) {
			return ev.Violf("C14.auth-continue", "round %d: hook said continue with data %q, the broker sent AUTH code %#x data %q", k, fmt.Sprintf("challenge-%d", k), p.ReasonCode, gotData).With(feat...)
		}
		if err := cl.Send(&mw.Packet{Type: mw.AUTH, ReasonCode: 0x18, Props: &mw.Props{AuthMethod: strp("m"), AuthData: []byte(fmt.Sprintf("response-%d", k)), HasAuthData: true}}); err != nil {
			return harnessErr("send AUTH: %v", err)
		}
		c.Label("auth_continuation_round")
	}
	ack, err := cl.WaitType(mw.CONNACK, fixture.DefaultWait)
	if err != nil {
		return ev.Violf("C14.auth-reject-connack", "hook rejected the CONNECT, no CONNACK arrived: %v", err).With(feat...).With("no_connack", true)
	}
	if a.Accept {
		// the hook's final verdict is 'accept': the CONNECT succeeds and the connection works
		c.Label("auth_continue_then_accept")
		if ack.ReasonCode != 0 {
			return ev.Violf("C14.auth-accept", "OnAuth accepted after %d round(s), CONNACK carries %#x", a.Rounds, ack.ReasonCode).With(feat...)
		}
		if n := int(atomic.LoadInt32(&authCalls)); n != a.Rounds {
			return ev.Violf("C14.auth-fires-once", "the OnAuth callback ran %d times for %d AUTH packets of the client", n, a.Rounds).With(feat...)
		}
		if err := cl.Ping(fixture.DefaultWait); err != nil {
			return ev.Violf("C14.auth-accept", "connection accepted after enhanced authentication does not answer PINGREQ: %v", err).With(feat...)
		}
		if b.Srv.ClientService().GetClient("rej") == nil {
			return ev.Violf("C14.auth-accept", "client accepted after enhanced authentication is not registered").With(feat...)
		}
		return nil
	}
	if a.Rounds > 0 {
		if n := int(atomic.LoadInt32(&authCalls)); n != a.Rounds {
			return ev.Violf("C14.auth-fires-once", "the OnAuth callback ran %d times for %d AUTH packets of the client", n, a.Rounds).With(feat...)
		}
		if v := badAuth.Load(); v != nil {
			return ev.Violf("C14.auth-continue", "the OnAuth callback did not see the client's AUTH packet: %v", v).With(feat...)
		}
	}
	if ack.ReasonCode == 0 {
		return ev.Violf("C14.auth-reject-connack", "hook rejected the CONNECT with %#x, CONNACK says success", a.Err.want()).With(feat...)
	}
	if s.V == 5 && ack.ReasonCode != a.Err.want() {
		return ev.Violf("C14.auth-reject-code", "hook rejected with %#x, CONNACK carries %#x", a.Err.want(), ack.ReasonCode).With(feat...)
	}
	if s.V != 5 {
		if ack.ReasonCode > 5 {
			// Observed, not asserted: the property demands a FAILING CONNACK, which any non-zero code is. gmqtt maps
			// hook errors above 5 to 0x87 for v3 clients (pinned by TestClient_connectWithTimeOut_BasicAuth), a value
			// MQTT 3.1.1 reserves; that is a codec-level conformance issue outside C14's statement.
			c.Label("v3_connack_code_out_of_range")
		}
		if a.Err.Code <= 5 && !a.Err.Plain && ack.ReasonCode != a.Err.Code {
			return ev.Violf("C14.auth-reject-code", "hook rejected with v3 return code %d, CONNACK carries %d", a.Err.Code, ack.ReasonCode).With(feat...)
		}
	}
	if a.CheckClosed {
		if !cl.WaitClosed(c14ClosedWait) {
			return ev.Violf("C14.auth-reject-not-closed", "network connection still open %v after the failing CONNACK (code %#x)", c14ClosedWait, ack.ReasonCode).With(feat...)
		}
	} else if closed, _ := cl.Closed(); !closed {
		c.Label("auth_reject_connection_not_yet_closed") // counted only
	}
	cl.Kill()
	sleepMs(2) // pacing only: lets a (wrong) publication at connection teardown happen before the barrier
	if sess, _ := b.Srv.ClientService().GetSession("rej"); sess != nil {
		return ev.Violf("C14.auth-reject-session", "rejected CONNECT left a session behind: %+v", sess).With(feat...)
	}
	if b.Srv.ClientService().GetClient("rej") != nil {
		return ev.Violf("C14.auth-reject-session", "rejected client is registered as an online client").With(feat...)
	}
	if rows := c14SubsOf(b, "rej"); len(rows) != 0 {
		return ev.Violf("C14.auth-reject-subscription", "rejected client has subscriptions %v", rows).With(feat...)
	}
	if err := sentinelBarrier(b, []*fixture.Client{obs}, "end"); err != nil {
		return ev.Violf("C14.barrier", "%v", err)
	}
	if got := c14Received(obs); len(got) != 0 {
		return ev.Violf("C14.auth-reject-will", "after a rejected CONNECT the observer of '#' received %v", got).With(feat...).With("pipeline", a.Pipeline)
	}
	var all []*gmqtt.Message
	b.Srv.RetainedService().Iterate(func(m *gmqtt.Message) bool { all = append(all, m); return true })
	if len(all) != 0 {
		return ev.Violf("C14.auth-reject-retained", "after a rejected CONNECT the retained store holds %v", retainedRows(all)).With(feat...).With("pipeline", a.Pipeline)
	}
	if n := atomic.LoadInt32(&calls); n != 1 {
		return ev.Violf("C14.auth-fires-once", "authentication hook ran %d times for one CONNECT", n).With(feat...)
	}
	return nil
}

// c14SubsOf lists the subscriptions of a client, without the harness's barrier topic.
func c14SubsOf(b *fixture.Broker, id string) []subSpec {
	var out []subSpec
	b.Srv.SubscriptionService().Iterate(func(clientID string, sub *gmqtt.Subscription) bool {
		if sub != nil && clientID == id && sub.TopicFilter != fixture.SentinelTopic(id) {
			out = append(out, specOf(sub))
		}
		return true
	}, subscription.IterationOptions{Type: subscription.TypeAll, ClientID: id})
	sort.Slice(out, func(i, j int) bool { return out[i].full() < out[j].full() })
	return out
}

type c14Msg struct {
	Topic   string
	Payload string
	QoS     byte
	Retain  bool
	IDs     string
}

func (m c14Msg) String() string {
	return fmt.Sprintf("%s=%q/q%d/r%v/ids%s", m.Topic, m.Payload, m.QoS, m.Retain, m.IDs)
}

// c14Received takes the application messages (sentinels excluded) a client received so far.
func c14Received(cl *fixture.Client) []c14Msg {
	var out []c14Msg
	for _, r := range cl.Take(func(p *mw.Packet) bool { return p.Type == mw.PUBLISH }) {
		if isSentinel(r.P) {
			continue
		}
		var ids []uint32
		if r.P.Props != nil {
			ids = append(ids, r.P.Props.SubscriptionIDs...)
		}
		sort.Slice(ids, func(i, j int) bool { return ids[i] < ids[j] })
		out = append(out, c14Msg{r.P.Topic, string(r.P.Payload), r.P.QoS, r.P.Retain, fmt.Sprint(ids)})
	}
	return out
}

func c14MsgKeys(ms []c14Msg, withIDs bool) []string {
	out := make([]string, len(ms))
	for i, m := range ms {
		if !withIDs {
			m.IDs = ""
		}
		out[i] = m.String()
	}
	sort.Strings(out)
	return out
}

func c14IDs(id uint32) string {
	if id == 0 {
		return "[]"
	}
	return fmt.Sprint([]uint32{id})
}

// ---------------------------------------------------------------------------------------
// subscribe

func c14Filter(prefix string, i, form int) string {
	base := fmt.Sprintf("%s%d", prefix, i)
	switch form {
	case 1:
		return base + "/+"
	case 2:
		return base + "/#"
	}
	return base + "/a"
}

func c14Topic(prefix string, i int) string { return fmt.Sprintf("%s%d/a", prefix, i) }

// genC14Sub: setID = the region "the hook calls SubscribeRequest.SetID".
func genC14Sub(setID bool) func(t *rapid.T) c14DecScen {
	return func(t *rapid.T) c14DecScen {
		s := c14DecScen{Mode: "subscribe", V: rapid.SampledFrom([]int{4, 5, 5}).Draw(t, "v")}
		if setID {
			s.V = 5
		}
		sub := &c14SubScen{PubRetain: c14Bool(t, "pub_retain"), PreRetained: c14Bool(t, "pre_retained")}
		s.Sub = sub
		n := rapid.IntRange(1, 3).Draw(t, "nentries")
		for i := 0; i < n; i++ {
			e := c14SubEntry{Form: rapid.IntRange(0, 2).Draw(t, "form"), QoS: byte(rapid.IntRange(0, 2).Draw(t, "qos"))}
			if s.V == 5 {
				e.NL, e.RAP = c14Bool(t, "nl"), c14Bool(t, "rap")
			}
			switch rapid.IntRange(0, 5).Draw(t, "act") {
			case 0:
			case 1, 2:
				e.Act = "reject"
				e.Err = genC14Err(t, "err", c14SubackCodes)
			case 3, 4:
				e.Act = "grant"
				e.Grant = byte(rapid.IntRange(0, int(e.QoS)).Draw(t, "grant"))
			default:
				e.Act = "rewrite"
				e.RwFilter = c14Bool(t, "rw_filter")
				if s.V == 5 {
					e.RwNL, e.RwRAP = c14OptBool(t, "rw_nl"), c14OptBool(t, "rw_rap")
				}
				e.Replace = c14Bool(t, "replace")
			}
			sub.Entries = append(sub.Entries, e)
		}
		if rapid.IntRange(0, 4).Draw(t, "whole") == 0 {
			e := genC14Err(t, "whole", c14SubackCodes)
			sub.Whole = &e
		}
		if s.V == 5 {
			sub.SubID = rapid.SampledFrom([]uint32{0, 0, 5}).Draw(t, "sub_id")
		}
		if setID {
			sub.SetID = rapid.SampledFrom([]uint32{7, 9}).Draw(t, "set_id")
			if rapid.IntRange(0, 2).Draw(t, "strip") == 0 {
				sub.SetID, sub.StripID, sub.SubID = 0, true, 5
			}
		}
		return s
	}
}

func runC14Sub(s c14DecScen, c *ev.Case) *ev.Violation {
	sc := s.Sub
	v5 := s.V == 5
	const pid = 100
	var calls, missing int32
	hooks := &server.Hooks{OnSubscribe: func(ctx context.Context, cl server.Client, req *server.SubscribeRequest) error {
		if req.Subscribe.PacketID != pid {
			return nil
		}
		atomic.AddInt32(&calls, 1)
		for i, e := range sc.Entries {
			name := c14Filter("s", i, e.Form)
			ent := req.Subscriptions[name]
			if ent == nil || ent.Sub == nil {
				atomic.AddInt32(&missing, 1)
				continue
			}
			switch e.Act {
			case "reject":
				req.Reject(name, e.Err.err())
			case "grant":
				req.GrantQoS(name, e.Grant)
			case "rewrite":
				target := ent.Sub
				if e.Replace {
					cp := *ent.Sub
					target = &cp
				}
				if e.RwFilter {
					target.TopicFilter = c14Filter("r", i, e.Form)
				}
				if e.RwNL != nil {
					target.NoLocal = *e.RwNL
				}
				if e.RwRAP != nil {
					target.RetainAsPublished = *e.RwRAP
				}
				ent.Sub = target
			}
		}
		if sc.SetID != 0 {
			req.SetID(sc.SetID)
		}
		if sc.StripID {
			req.SetID(0)
		}
		if sc.Whole != nil {
			return sc.Whole.err()
		}
		return nil
	}}
	b, err := fixture.Start(fixture.Opts{Config: fixture.BaseConfig(), Hooks: hooks})
	if err != nil {
		return harnessErr("start broker: %v", err)
	}
	defer b.Stop()
	sub, ack, err := b.Connect(fixture.ConnectOpts{ID: "sub", V: ver(s.V), CleanStart: true, AutoAck: true})
	if err != nil || ack.ReasonCode != 0 {
		return harnessErr("subscriber connect: %v %v", ack, err)
	}
	defer sub.Kill()
	pub, ack, err := b.Connect(fixture.ConnectOpts{ID: "pub", V: mw.V5, CleanStart: true})
	if err != nil || ack.ReasonCode != 0 {
		return harnessErr("publisher connect: %v %v", ack, err)
	}
	defer pub.Kill()
	if err := subscribeSentinel(sub); err != nil {
		return harnessErr("%v", err)
	}

	if sc.PreRetained {
		c.Label("subscribe_with_retained_messages")
		k := uint16(50)
		for i := range sc.Entries {
			for _, pfx := range []string{"s", "r"} {
				topic := c14Topic(pfx, i)
				k++
				if _, err := pub.Publish(&mw.Packet{Topic: topic, QoS: 2, Retain: true, PacketID: k, Payload: []byte("kept-" + topic)}); err != nil {
					return ev.Violf("C14.ack", "retained publish not acknowledged: %v", err)
				}
			}
		}
	}

	// the SUBSCRIBE under test
	var reqs []mw.SubReq
	for i, e := range sc.Entries {
		r := mw.SubReq{Filter: c14Filter("s", i, e.Form), QoS: e.QoS}
		if v5 {
			r.NoLocal, r.RAP = e.NL, e.RAP
		}
		reqs = append(reqs, r)
	}
	var props *mw.Props
	if v5 && sc.SubID != 0 {
		props = &mw.Props{SubscriptionIDs: []uint32{sc.SubID}}
	}
	suback, err := sub.Subscribe(pid, props, reqs...)
	if err != nil {
		return ev.Violf("C14.subscribe-suback", "SUBSCRIBE not acknowledged: %v", err)
	}
	if n := atomic.LoadInt32(&calls); n != 1 {
		return ev.Violf("C14.subscribe-fires-once", "OnSubscribe ran %d times for one SUBSCRIBE", n)
	}
	if atomic.LoadInt32(&missing) != 0 {
		return ev.Violf("C14.subscribe-request", "SubscribeRequest.Subscriptions lacks %d of the requested filters", missing)
	}
	if len(suback.ReasonCodes) != len(sc.Entries) {
		return ev.Violf("C14.subscribe-suback", "SUBACK carries %d codes for %d filters", len(suback.ReasonCodes), len(sc.Entries))
	}

	// model of the decision
	wantID := uint32(0)
	if v5 {
		wantID = sc.SubID
		if sc.SetID != 0 {
			wantID = sc.SetID
		}
		if sc.StripID {
			wantID = 0
		}
	}
	var installed []subSpec
	modified := sc.Whole != nil || sc.SetID != 0 || sc.StripID
	for i, e := range sc.Entries {
		code := suback.ReasonCodes[i]
		feat := []any{"act", e.Act, "version", s.V, "whole", sc.Whole != nil, "replace", e.Replace}
		if e.Act != "" {
			modified = true
		}
		if sc.Whole != nil {
			c.Label("subscribe_whole_error")
			if code < 0x80 {
				return ev.Violf("C14.subscribe-suback", "OnSubscribe returned an error, SUBACK code %d is %#x (success)", i, code).With(feat...)
			}
			if want := sc.Whole.want(); (v5 && code != want) || (!v5 && code != 0x80) {
				return ev.Violf("C14.subscribe-code", "OnSubscribe returned error %#x, SUBACK code %d is %#x", want, i, code).With(feat...)
			}
			continue
		}
		c.Label("subscribe_act_" + e.Act)
		if e.Act == "reject" {
			if code < 0x80 {
				return ev.Violf("C14.subscribe-suback", "hook rejected %s, SUBACK code %d is %#x (success)", reqs[i].Filter, i, code).With(feat...)
			}
			if want := e.Err.want(); (v5 && code != want) || (!v5 && code != 0x80) {
				return ev.Violf("C14.subscribe-code", "hook rejected %s with %#x, SUBACK code is %#x", reqs[i].Filter, want, code).With(feat...)
			}
			continue
		}
		sp := subSpec{Filter: reqs[i].Filter, QoS: e.QoS, ID: wantID}
		if v5 {
			sp.NL, sp.RAP = e.NL, e.RAP
		}
		switch e.Act {
		case "grant":
			sp.QoS = e.Grant
		case "rewrite":
			if e.RwFilter {
				sp.Filter = c14Filter("r", i, e.Form)
			}
			if e.RwNL != nil {
				sp.NL = *e.RwNL
			}
			if e.RwRAP != nil {
				sp.RAP = *e.RwRAP
			}
		}
		if code != sp.QoS {
			return ev.Violf("C14.subscribe-suback", "hook decided QoS %d for %s (requested %d), SUBACK code is %#x", sp.QoS, reqs[i].Filter, e.QoS, code).With(feat...)
		}
		installed = append(installed, sp)
	}
	if modified {
		c.NonTrivial()
	}
	sort.Slice(installed, func(i, j int) bool { return installed[i].full() < installed[j].full() })
	feat := []any{"version", s.V, "whole", sc.Whole != nil, "set_id", sc.SetID != 0, "strip_id", sc.StripID}
	got := c14SubsOf(b, "sub")
	noID := func(in []subSpec) (out []string) {
		for _, x := range in {
			x.ID = 0
			out = append(out, fmt.Sprintf("%+v", x))
		}
		return
	}
	ids := func(in []subSpec) (out []string) {
		for _, x := range in {
			out = append(out, fmt.Sprintf("%s#%d", x.full(), x.ID))
		}
		return
	}
	if !eqStrs(noID(got), noID(installed)) {
		return ev.Violf("C14.subscribe-installed", "SubscriptionService holds %v for the client, the hook decided %v", noID(got), noID(installed)).With(feat...)
	}
	if !eqStrs(ids(got), ids(installed)) {
		return ev.Violf("C14.subscribe-setid", "subscription identifiers in the store %v, decided %v (SUBSCRIBE carried %d, hook SetID %d)", ids(got), ids(installed), sc.SubID, sc.SetID).With(feat...)
	}

	// the retained messages replayed by the SUBSCRIBE follow the decision
	if sc.PreRetained {
		if err := sentinelBarrier(b, []*fixture.Client{sub}, "replay"); err != nil {
			return ev.Violf("C14.barrier", "%v", err)
		}
		var wantR []c14Msg
		for i := range sc.Entries {
			for _, pfx := range []string{"s", "r"} {
				topic := c14Topic(pfx, i)
				for _, sp := range installed {
					if topicref.Match(topic, sp.Filter) {
						wantR = append(wantR, c14Msg{topic, "kept-" + topic, minB(2, sp.QoS), false, c14IDs(sp.ID)})
					}
				}
			}
		}
		recvR := c14Received(sub)
		for i := range recvR {
			recvR[i].Retain = false // the RETAIN flag of a replay is C07's business (F-retained-replay-flag)
		}
		if g, w := c14MsgKeys(recvR, false), c14MsgKeys(wantR, false); !eqStrs(g, w) {
			return ev.Violf("C14.subscribe-replay", "retained messages replayed by the SUBSCRIBE: received %v, the decided subscriptions %v imply %v", g, noID(installed), w).With(feat...)
		}
		// Subscription identifiers on a retained replay: no listed property speaks about them (the broker sends none,
		// with or without a hook); counted, not asserted.
		if v5 && !eqStrs(c14MsgKeys(recvR, true), c14MsgKeys(wantR, true)) {
			c.Label("replay_without_subscription_identifier")
		}
		c.Count("subscribe_replays", len(wantR))
	}

	// delivery follows the decision: pub publishes QoS 2 to the original and the rewritten
	// topic of every entry, the subscriber itself publishes QoS 1 to both (No Local)
	var want []c14Msg
	pktID := uint16(200)
	for i := range sc.Entries {
		for _, pfx := range []string{"s", "r"} {
			topic := c14Topic(pfx, i)
			pktID++
			if _, err := pub.Publish(&mw.Packet{Topic: topic, QoS: 2, Retain: sc.PubRetain, PacketID: pktID, Payload: []byte("pub-" + topic)}); err != nil {
				return ev.Violf("C14.ack", "publish not acknowledged: %v", err)
			}
			pktID++
			if _, err := sub.Publish(&mw.Packet{Topic: topic, QoS: 1, PacketID: pktID, Payload: []byte("self-" + topic)}); err != nil {
				return ev.Violf("C14.ack", "publish not acknowledged: %v", err)
			}
			for _, sp := range installed {
				if !topicref.Match(topic, sp.Filter) {
					continue
				}
				want = append(want, c14Msg{topic, "pub-" + topic, minB(2, sp.QoS), sc.PubRetain && sp.RAP, c14IDs(sp.ID)})
				if !sp.NL {
					want = append(want, c14Msg{topic, "self-" + topic, minB(1, sp.QoS), false, c14IDs(sp.ID)})
				}
			}
		}
	}
	if err := pub.Ping(fixture.DefaultWait); err != nil {
		return ev.Violf("C14.ping", "%v", err)
	}
	if err := sub.Ping(fixture.DefaultWait); err != nil {
		return ev.Violf("C14.ping", "%v", err)
	}
	if err := sentinelBarrier(b, []*fixture.Client{sub}, "end"); err != nil {
		return ev.Violf("C14.barrier", "%v", err)
	}
	recv := c14Received(sub)
	if g, w := c14MsgKeys(recv, false), c14MsgKeys(want, false); !eqStrs(g, w) {
		return ev.Violf("C14.subscribe-delivery", "subscriber received %v, the decided subscriptions %v imply %v", g, noID(installed), w).With(feat...)
	}
	if v5 {
		if g, w := c14MsgKeys(recv, true), c14MsgKeys(want, true); !eqStrs(g, w) {
			return ev.Violf("C14.subscribe-setid", "subscription identifiers on delivery: received %v, decided %v", g, w).With(feat...)
		}
	}
	c.Count("subscribe_deliveries", len(want))
	return nil
}

// ---------------------------------------------------------------------------------------
// unsubscribe

func genC14Unsub(t *rapid.T) c14DecScen {
	s := c14DecScen{Mode: "unsubscribe", V: rapid.SampledFrom([]int{4, 5, 5}).Draw(t, "v")}
	u := &c14UnsubScen{}
	s.Unsub = u
	n := rapid.IntRange(1, 3).Draw(t, "n")
	redirected := false
	for i := 0; i < n; i++ {
		act, e := "", c14Err{}
		switch k := rapid.IntRange(0, 4).Draw(t, "act"); {
		case k <= 1:
		case k <= 3:
			act = "reject"
			e = genC14Err(t, "err", c14UnsubackCodes)
		default:
			if !redirected {
				act, redirected = "redirect", true
			}
		}
		u.Acts, u.Errs = append(u.Acts, act), append(u.Errs, e)
	}
	if rapid.IntRange(0, 4).Draw(t, "whole") == 0 {
		e := genC14Err(t, "whole", c14UnsubackCodes)
		u.Whole = &e
	}
	return s
}

func runC14Unsub(s c14DecScen, c *ev.Case) *ev.Violation {
	u := s.Unsub
	v5 := s.V == 5
	const pid = 100
	var calls int32
	hooks := &server.Hooks{OnUnsubscribe: func(ctx context.Context, cl server.Client, req *server.UnsubscribeRequest) error {
		if req.Unsubscribe.PacketID != pid {
			return nil
		}
		atomic.AddInt32(&calls, 1)
		for i, act := range u.Acts {
			name := c14Topic("u", i)
			switch act {
			case "reject":
				req.Reject(name, u.Errs[i].err())
			case "redirect":
				if ent := req.Unsubs[name]; ent != nil {
					ent.TopicName = "ux/a"
				}
			}
		}
		if u.Whole != nil {
			return u.Whole.err()
		}
		return nil
	}}
	b, err := fixture.Start(fixture.Opts{Config: fixture.BaseConfig(), Hooks: hooks})
	if err != nil {
		return harnessErr("start broker: %v", err)
	}
	defer b.Stop()
	sub, ack, err := b.Connect(fixture.ConnectOpts{ID: "sub", V: ver(s.V), CleanStart: true, AutoAck: true})
	if err != nil || ack.ReasonCode != 0 {
		return harnessErr("subscriber connect: %v %v", ack, err)
	}
	defer sub.Kill()
	pub, ack, err := b.Connect(fixture.ConnectOpts{ID: "pub", V: mw.V5, CleanStart: true})
	if err != nil || ack.ReasonCode != 0 {
		return harnessErr("publisher connect: %v %v", ack, err)
	}
	defer pub.Kill()
	if err := subscribeSentinel(sub); err != nil {
		return harnessErr("%v", err)
	}
	still := map[string]bool{"ux/a": true}
	var names []string
	for i := range u.Acts {
		names = append(names, c14Topic("u", i))
		still[c14Topic("u", i)] = true
	}
	for i, f := range append(append([]string{}, names...), "ux/a") {
		if code, err := subscribeOne(sub, uint16(10+i), subSpec{Filter: f, QoS: 1}); err != nil || code != 1 {
			return harnessErr("subscribe %s: %v %v", f, code, err)
		}
	}
	uack, err := sub.Unsubscribe(pid, names...)
	if err != nil {
		return ev.Violf("C14.unsubscribe-unsuback", "UNSUBSCRIBE not acknowledged: %v", err)
	}
	if n := atomic.LoadInt32(&calls); n != 1 {
		return ev.Violf("C14.unsubscribe-fires-once", "OnUnsubscribe ran %d times for one UNSUBSCRIBE", n)
	}
	if v5 && len(uack.ReasonCodes) != len(names) {
		return ev.Violf("C14.unsubscribe-unsuback", "UNSUBACK carries %d codes for %d filters", len(uack.ReasonCodes), len(names))
	}
	for i, act := range u.Acts {
		feat := []any{"act", act, "version", s.V, "whole", u.Whole != nil}
		wantCode := byte(0)
		switch {
		case u.Whole != nil:
			wantCode = u.Whole.want()
			c.NonTrivial()
		case act == "reject":
			wantCode = u.Errs[i].want()
			c.NonTrivial()
		case act == "redirect":
			delete(still, "ux/a")
			c.NonTrivial()
		default:
			delete(still, names[i])
		}
		c.Label("unsubscribe_act_" + act)
		if v5 {
			code := uack.ReasonCodes[i]
			if wantCode >= 0x80 && code < 0x80 {
				return ev.Violf("C14.unsubscribe-unsuback", "hook refused to unsubscribe %s, UNSUBACK code is %#x (success)", names[i], code).With(feat...)
			}
			if code != wantCode {
				return ev.Violf("C14.unsubscribe-code", "hook decided %#x for %s, UNSUBACK code is %#x", wantCode, names[i], code).With(feat...)
			}
		}
	}
	var wantSubs []string
	for f := range still {
		wantSubs = append(wantSubs, f)
	}
	sort.Strings(wantSubs)
	var gotSubs []string
	for _, sp := range c14SubsOf(b, "sub") {
		gotSubs = append(gotSubs, sp.full())
	}
	feat := []any{"version", s.V, "whole", u.Whole != nil, "acts", fmt.Sprint(u.Acts)}
	if !eqStrs(gotSubs, wantSubs) {
		return ev.Violf("C14.unsubscribe-installed", "after the UNSUBSCRIBE the client is subscribed to %v, the hook decided %v", gotSubs, wantSubs).With(feat...)
	}
	var want []c14Msg
	for i, f := range append(append([]string{}, names...), "ux/a") {
		if _, err := pub.Publish(&mw.Packet{Topic: f, QoS: 1, PacketID: uint16(300 + i), Payload: []byte("m-" + f)}); err != nil {
			return ev.Violf("C14.ack", "publish not acknowledged: %v", err)
		}
		if still[f] {
			want = append(want, c14Msg{f, "m-" + f, 1, false, "[]"})
		}
	}
	if err := pub.Ping(fixture.DefaultWait); err != nil {
		return ev.Violf("C14.ping", "%v", err)
	}
	if err := sentinelBarrier(b, []*fixture.Client{sub}, "end"); err != nil {
		return ev.Violf("C14.barrier", "%v", err)
	}
	if g, w := c14MsgKeys(c14Received(sub), false), c14MsgKeys(want, false); !eqStrs(g, w) {
		return ev.Violf("C14.unsubscribe-delivery", "subscriber received %v, the decided subscriptions %v imply %v", g, wantSubs, w).With(feat...)
	}
	return nil
}

// ---------------------------------------------------------------------------------------
// message arrived

// genC14Arr draws one of three regions: "plain" (RETAIN=0, Retained untouched; a hook that
// rewrites Message.Topic also sets IterationOptions.TopicName), "retained" (the retained
// store is involved: RETAIN=1 on the PUBLISH or a rewritten Retained flag) and "topic" (the
// hook rewrites Message.Topic only and leaves IterationOptions alone).
func genC14Arr(region string) func(t *rapid.T) c14DecScen {
	retained := region == "retained"
	return func(t *rapid.T) c14DecScen {
		s := c14DecScen{Mode: "arrived", V: rapid.SampledFrom([]int{4, 5, 5}).Draw(t, "v")}
		a := &c14ArrScen{QoS: byte(rapid.IntRange(0, 2).Draw(t, "qos"))}
		s.Arr = a
		a.OldOrig, a.OldNew = c14Bool(t, "old_orig"), c14Bool(t, "old_new")
		switch k := rapid.IntRange(0, 9).Draw(t, "verdict"); {
		case k == 0:
			a.Verdict = "accept"
		case k <= 3:
			a.Verdict = "error"
			a.Err = genC14Err(t, "err", c14PubackCodes)
		case k <= 5:
			a.Verdict = "drop"
		default:
			a.Verdict = "rewrite"
			a.RwTopic, a.RwPay = c14Bool(t, "rw_topic"), c14Bool(t, "rw_payload")
			if c14Bool(t, "rw_qos") {
				q := byte(rapid.IntRange(0, 2).Draw(t, "new_qos"))
				a.RwQoS = &q
			}
			a.Replace = c14Bool(t, "replace")
			a.IterTopic = a.RwTopic
		}
		if region == "topic" {
			a.Verdict, a.RwTopic, a.IterTopic = "rewrite", true, false
		}
		if region == "redeliver" {
			a.QoS = 2
			s.V = rapid.SampledFrom([]int{3, 4, 5}).Draw(t, "v_redeliver")
		}
		if a.QoS == 2 && (region == "redeliver" || rapid.IntRange(0, 2).Draw(t, "redeliver") > 0) {
			a.Redeliver = rapid.IntRange(1, 2).Draw(t, "redeliver_how")
			a.Flip = rapid.IntRange(0, 3).Draw(t, "flip") > 0
		}
		if retained {
			a.Retain = rapid.IntRange(0, 3).Draw(t, "retain") != 0
			a.Empty = a.Retain && rapid.IntRange(0, 4).Draw(t, "empty") == 0
			if a.Verdict == "rewrite" && (!a.Retain || c14Bool(t, "rw_retained")) {
				v := !a.Retain
				a.RwRetain = &v
			}
			if !a.Retain && a.RwRetain == nil {
				a.Retain = true
			}
		}
		return s
	}
}

func runC14Arr(s c14DecScen, c *ev.Case) *ev.Violation {
	a := s.Arr
	const orig, other = "a/x", "b/x"
	var armed, calls int32
	hooks := &server.Hooks{OnMsgArrived: func(ctx context.Context, cl server.Client, req *server.MsgArrivedRequest) error {
		if atomic.LoadInt32(&armed) == 0 {
			return nil
		}
		verdict := a.Verdict
		if atomic.AddInt32(&calls, 1) > 1 && a.Flip {
			verdict = "accept"
		}
		switch verdict {
		case "error":
			return a.Err.err()
		case "drop":
			req.Drop()
		case "rewrite":
			m := req.Message
			if a.Replace {
				m = req.Message.Copy()
			}
			if a.RwTopic {
				m.Topic = other
			}
			if a.RwPay {
				m.Payload = []byte("rewritten")
			}
			if a.RwQoS != nil {
				m.QoS = *a.RwQoS
			}
			if a.RwRetain != nil {
				m.Retained = *a.RwRetain
			}
			req.Message = m
			if a.RwTopic && a.IterTopic {
				req.IterationOptions.TopicName = other
			}
		}
		return nil
	}}
	b, err := fixture.Start(fixture.Opts{Config: fixture.BaseConfig(), Hooks: hooks})
	if err != nil {
		return harnessErr("start broker: %v", err)
	}
	defer b.Stop()
	var subs []*fixture.Client
	for i, f := range []string{"a/#", "b/#"} {
		cl, ack, err := b.Connect(fixture.ConnectOpts{ID: fmt.Sprintf("s%d", i), V: mw.V5, CleanStart: true, AutoAck: true})
		if err != nil || ack.ReasonCode != 0 {
			return harnessErr("subscriber connect: %v %v", ack, err)
		}
		defer cl.Kill()
		if err := subscribeSentinel(cl); err != nil {
			return harnessErr("%v", err)
		}
		if code, err := subscribeOne(cl, 2, subSpec{Filter: f, QoS: 2, RAP: true}); err != nil || code != 2 {
			return harnessErr("subscribe: %v %v", code, err)
		}
		subs = append(subs, cl)
	}
	// a v5 PUBREC with a failing reason code ends the QoS 2 exchange: the identifier is free again, a second PUBLISH
	// with it is a new event
	redeliver := a.Redeliver
	if a.QoS != 2 || (s.V == 5 && a.Verdict == "error") {
		redeliver = 0
	}
	pubOpts := fixture.ConnectOpts{ID: "pub", V: ver(s.V), CleanStart: true}
	if redeliver == 2 {
		pubOpts.CleanStart = s.V == 5 // v3: clean session 0 = persistent session
		if s.V == 5 {
			pubOpts.Props = &mw.Props{SessionExpiry: u32p(1000)}
		}
	}
	pub, ack, err := b.Connect(pubOpts)
	if err != nil || ack.ReasonCode != 0 {
		return harnessErr("publisher connect: %v %v", ack, err)
	}
	defer func() { pub.Kill() }()

	store := map[string]rMsg{}
	if a.OldOrig {
		if _, err := pub.Publish(&mw.Packet{Topic: orig, QoS: 1, PacketID: 1, Retain: true, Payload: []byte("old")}); err != nil {
			return harnessErr("old retained: %v", err)
		}
		store[orig] = rMsg{"old", 1}
	}
	if a.OldNew {
		if _, err := pub.Publish(&mw.Packet{Topic: other, QoS: 1, PacketID: 2, Retain: true, Payload: []byte("old2")}); err != nil {
			return harnessErr("old retained: %v", err)
		}
		store[other] = rMsg{"old2", 1}
	}
	if err := pub.Ping(fixture.DefaultWait); err != nil {
		return harnessErr("%v", err)
	}
	if err := sentinelBarrier(b, subs, "pre"); err != nil {
		return harnessErr("%v", err)
	}
	for _, cl := range subs {
		cl.Take(nil)
	}

	// the PUBLISH under test
	payload := "new"
	if a.Empty {
		payload = ""
	}
	atomic.StoreInt32(&armed, 1)
	pk := &mw.Packet{Topic: orig, QoS: a.QoS, Retain: a.Retain, Payload: []byte(payload)}
	if a.QoS > 0 {
		pk.PacketID = 77
	}
	var pack *mw.Packet
	if redeliver == 0 {
		pack, err = pub.Publish(pk)
		if err != nil {
			return ev.Violf("C14.arrived-ack", "PUBLISH not acknowledged: %v", err)
		}
	} else {
		pk.Type = mw.PUBLISH
		if err := pub.Send(pk); err != nil {
			return harnessErr("send: %v", err)
		}
		if pack, err = pub.WaitAck(mw.PUBREC, pk.PacketID, fixture.DefaultWait); err != nil {
			return ev.Violf("C14.arrived-ack", "QoS 2 PUBLISH not answered by PUBREC: %v", err)
		}
		if redeliver == 2 {
			// the connection is lost before PUBREL; the client resumes its session and must re-send the PUBLISH (MQTT-4.4.0-1)
			pub.Kill()
			if !waitClientGone(b, "pub") {
				return harnessErr("publisher still registered 5 s after its socket was closed")
			}
			ro := pubOpts
			ro.CleanStart = false
			np, ack, err := b.Connect(ro)
			if err != nil || ack.ReasonCode != 0 || !ack.SessionPresent {
				return ev.Violf("C14.arrived-resume", "publisher reconnect (clean start 0, session expiry 1000 s): %v %v", ack, err)
			}
			pub = np
			c.Label("arrived_redelivered_after_reconnect")
		} else {
			c.Label("arrived_redelivered_same_connection")
		}
		dupPk := *pk
		dupPk.Dup = true
		if err := pub.Send(&dupPk); err != nil {
			return harnessErr("send: %v", err)
		}
		if _, err = pub.WaitAck(mw.PUBREC, pk.PacketID, fixture.DefaultWait); err != nil {
			return ev.Violf("C14.arrived-ack", "retransmitted QoS 2 PUBLISH (DUP=1, same packet identifier, before PUBREL) not answered by PUBREC: %v", err)
		}
		if err := pub.Send(&mw.Packet{Type: mw.PUBREL, PacketID: pk.PacketID}); err != nil {
			return harnessErr("send: %v", err)
		}
		if _, err = pub.WaitAck(mw.PUBCOMP, pk.PacketID, fixture.DefaultWait); err != nil {
			return ev.Violf("C14.arrived-ack", "PUBREL not answered by PUBCOMP: %v", err)
		}
		if a.Flip {
			c.Label("arrived_redelivered_verdict_changed")
		}
	}
	if err := pub.Ping(fixture.DefaultWait); err != nil {
		return ev.Violf("C14.ping", "%v", err)
	}
	atomic.StoreInt32(&armed, 0)
	feat := []any{"verdict", a.Verdict, "version", s.V, "qos", a.QoS, "retain", a.Retain, "empty", a.Empty,
		"rw_topic", a.RwTopic, "iter_topic", a.IterTopic, "rw_payload", a.RwPay, "rw_qos", a.RwQoS != nil, "rw_retained", a.RwRetain != nil, "replace", a.Replace,
		"old_orig", a.OldOrig, "old_new", a.OldNew, "redeliver", redeliver, "flip", a.Flip}
	c.Label("arrived_" + a.Verdict)
	if a.Verdict != "accept" {
		c.NonTrivial()
	}
	if n := atomic.LoadInt32(&calls); n != 1 {
		return ev.Violf("C14.arrived-fires-once", "OnMsgArrived ran %d times for one PUBLISH (redelivered before PUBREL: %d)", n, redeliver).With(feat...)
	}

	// model of the decision
	type msg struct {
		topic, payload string
		qos            byte
		retained       bool
	}
	var out *msg
	switch a.Verdict {
	case "accept":
		out = &msg{orig, payload, a.QoS, a.Retain}
	case "rewrite":
		out = &msg{orig, payload, a.QoS, a.Retain}
		if a.RwTopic {
			out.topic = other
		}
		if a.RwPay {
			out.payload = "rewritten"
		}
		if a.RwQoS != nil {
			out.qos = *a.RwQoS
		}
		if a.RwRetain != nil {
			out.retained = *a.RwRetain
		}
	}
	want := make([][]c14Msg, len(subs))
	if out != nil {
		for i, f := range []string{"a/#", "b/#"} {
			if topicref.Match(out.topic, f) {
				want[i] = append(want[i], c14Msg{out.topic, out.payload, out.qos, out.retained, "[]"})
			}
		}
		if out.retained {
			if out.payload == "" {
				delete(store, out.topic)
			} else {
				store[out.topic] = rMsg{out.payload, out.qos}
			}
		}
	}
	if err := sentinelBarrier(b, subs, "end"); err != nil {
		return ev.Violf("C14.barrier", "%v", err)
	}
	for i, cl := range subs {
		if g, w := c14MsgKeys(c14Received(cl), false), c14MsgKeys(want[i], false); !eqStrs(g, w) {
			return ev.Violf("C14.arrived-delivery", "verdict %s: subscriber of %s received %v, the decision implies %v", a.Verdict, []string{"a/#", "b/#"}[i], g, w).With(feat...)
		}
	}
	if s.V == 5 && a.QoS > 0 && a.Verdict == "error" {
		if pack == nil || pack.ReasonCode != a.Err.want() {
			return ev.Violf("C14.arrived-ack-code", "hook returned error %#x, the publisher's %s carries %v", a.Err.want(), []string{"", "PUBACK", "PUBREC"}[a.QoS], pack).With(feat...)
		}
	}
	var all []*gmqtt.Message
	b.Srv.RetainedService().Iterate(func(m *gmqtt.Message) bool { all = append(all, m); return true })
	if g, w := retainedRows(all), modelRows(store, ""); !eqStrs(g, w) {
		return ev.Violf("C14.arrived-retained", "verdict %s: the retained store holds %v, the decision implies %v", a.Verdict, g, w).With(feat...)
	}
	return nil
}

// ---------------------------------------------------------------------------------------
// will

// genC14Will: replace = the region "the hook assigns a new message to req.Message".
func genC14Will(replace bool) func(t *rapid.T) c14DecScen {
	return func(t *rapid.T) c14DecScen {
		s := c14DecScen{Mode: "will", V: rapid.SampledFrom([]int{4, 5, 5}).Draw(t, "v")}
		w := &c14WillScen{QoS: byte(rapid.IntRange(0, 2).Draw(t, "qos"))}
		s.Will = w
		if replace {
			w.Verdict = "replace"
		} else {
			w.Verdict = rapid.SampledFrom([]string{"none", "drop", "drop", "edit", "edit", "edit"}).Draw(t, "verdict")
		}
		if w.Verdict == "edit" || w.Verdict == "replace" {
			w.RwTopic, w.RwPay = c14Bool(t, "rw_topic"), c14Bool(t, "rw_payload")
			if c14Bool(t, "rw_qos") {
				q := byte(rapid.IntRange(0, 2).Draw(t, "new_qos"))
				w.RwQoS = &q
			}
			if !w.RwTopic && !w.RwPay && w.RwQoS == nil {
				w.RwPay = true
			}
		}
		return s
	}
}

func runC14Will(s c14DecScen, c *ev.Case) *ev.Violation {
	w := s.Will
	const orig, other = "w/a", "x/a"
	var calls, published int32
	hooks := &server.Hooks{
		OnWillPublish: func(ctx context.Context, clientID string, req *server.WillMsgRequest) {
			if clientID != "w" {
				return
			}
			atomic.AddInt32(&calls, 1)
			switch w.Verdict {
			case "drop":
				req.Drop()
			case "edit", "replace":
				m := req.Message
				if w.Verdict == "replace" {
					m = &gmqtt.Message{Topic: m.Topic, Payload: append([]byte(nil), m.Payload...), QoS: m.QoS}
				}
				if w.RwTopic {
					m.Topic = other
				}
				if w.RwPay {
					m.Payload = []byte("edited")
				}
				if w.RwQoS != nil {
					m.QoS = *w.RwQoS
				}
				req.Message = m
			}
		},
		OnWillPublished: func(ctx context.Context, clientID string, msg *gmqtt.Message) {
			if clientID == "w" {
				atomic.AddInt32(&published, 1)
			}
		},
	}
	b, err := fixture.Start(fixture.Opts{Config: fixture.BaseConfig(), Hooks: hooks})
	if err != nil {
		return harnessErr("start broker: %v", err)
	}
	defer b.Stop()
	filters := []string{"w/#", "x/#"}
	var obs []*fixture.Client
	for i, f := range filters {
		cl, ack, err := b.Connect(fixture.ConnectOpts{ID: fmt.Sprintf("o%d", i), V: mw.V5, CleanStart: true, AutoAck: true})
		if err != nil || ack.ReasonCode != 0 {
			return harnessErr("observer connect: %v %v", ack, err)
		}
		defer cl.Kill()
		if err := subscribeSentinel(cl); err != nil {
			return harnessErr("%v", err)
		}
		if code, err := subscribeOne(cl, 2, subSpec{Filter: f, QoS: 2}); err != nil || code != 2 {
			return harnessErr("subscribe: %v %v", code, err)
		}
		obs = append(obs, cl)
	}
	wc, ack, err := b.Connect(fixture.ConnectOpts{ID: "w", V: ver(s.V), CleanStart: true,
		Will: &mw.Will{Topic: orig, QoS: w.QoS, Payload: []byte("orig")}})
	if err != nil || ack.ReasonCode != 0 {
		return harnessErr("will client connect: %v %v", ack, err)
	}
	if err := wc.Ping(fixture.DefaultWait); err != nil {
		return harnessErr("%v", err)
	}
	wc.Kill()
	// synchronise with the asynchronous teardown (never an oracle): the session ends inside
	// unregisterClient, after sendWillLocked, all under the server mutex GetClient takes too
	if !waitSessionGone(b, "w") || !waitClientGone(b, "w") {
		return harnessErr("session of the killed client still present after 5 s")
	}
	b.Srv.ClientService().GetClient("w")
	if err := sentinelBarrier(b, obs, "end"); err != nil {
		return ev.Violf("C14.barrier", "%v", err)
	}
	feat := []any{"verdict", w.Verdict, "version", s.V, "qos", w.QoS, "rw_topic", w.RwTopic, "rw_payload", w.RwPay, "rw_qos", w.RwQoS != nil}
	c.Label("will_" + w.Verdict)
	if w.Verdict != "none" {
		c.NonTrivial()
	}
	if n := atomic.LoadInt32(&calls); n != 1 {
		return ev.Violf("C14.will-fires-once", "OnWillPublish ran %d times for one will", n).With(feat...)
	}
	topic, payload, qos := orig, "orig", w.QoS
	if w.Verdict == "edit" || w.Verdict == "replace" {
		if w.RwTopic {
			topic = other
		}
		if w.RwPay {
			payload = "edited"
		}
		if w.RwQoS != nil {
			qos = *w.RwQoS
		}
	}
	for i, cl := range obs {
		var want []c14Msg
		if w.Verdict != "drop" && topicref.Match(topic, filters[i]) {
			want = append(want, c14Msg{topic, payload, qos, false, "[]"})
		}
		if g, wk := c14MsgKeys(c14Received(cl), false), c14MsgKeys(want, false); !eqStrs(g, wk) {
			return ev.Violf("C14.will-"+w.Verdict, "verdict %s: observer of %s received %v, the decision implies %v", w.Verdict, filters[i], g, wk).With(feat...)
		}
	}
	c.Count("will_published_hook_calls", int(atomic.LoadInt32(&published)))
	return nil
}

// ---------------------------------------------------------------------------------------
// re-authentication

// genC14ReAuth: dataIsMethod=false is the region "a well-formed AUTH whose Authentication
// Data differs from the Authentication Method".
func genC14ReAuth(dataIsMethod bool) func(t *rapid.T) c14DecScen {
	return func(t *rapid.T) c14DecScen {
		s := c14DecScen{Mode: "reauth", V: 5}
		r := &c14ReAuthScen{DataIsMethod: dataIsMethod}
		s.ReAuth = r
		if !dataIsMethod {
			// nothing to shrink: in this region a re-run may cost a bounded liveness wait
			r.Verdict, r.RespData = rapid.SampledFrom([]string{"ok", "continue"}).Draw(t, "verdict"), "resp"
			return s
		}
		r.Verdict = rapid.SampledFrom([]string{"ok", "continue", "error"}).Draw(t, "verdict")
		if r.Verdict == "error" {
			r.Err = genC14Err(t, "err", c14DisconnCodes)
		}
		r.RespData = rapid.SampledFrom([]string{"", "r1", "resp"}).Draw(t, "resp")
		return s
	}
}

func runC14ReAuth(s c14DecScen, c *ev.Case) *ev.Violation {
	r := s.ReAuth
	const method = "m1"
	var calls int32
	hooks := &server.Hooks{
		OnEnhancedAuth: func(ctx context.Context, cl server.Client, req *server.ConnectRequest) (*server.EnhancedAuthResponse, error) {
			return &server.EnhancedAuthResponse{}, nil
		},
		OnReAuth: func(ctx context.Context, cl server.Client, auth *packets.Auth) (*server.AuthResponse, error) {
			atomic.AddInt32(&calls, 1)
			switch r.Verdict {
			case "error":
				return nil, r.Err.err()
			case "continue":
				return &server.AuthResponse{Continue: true, AuthData: []byte(r.RespData)}, nil
			}
			return &server.AuthResponse{AuthData: []byte(r.RespData)}, nil
		},
	}
	b, err := fixture.Start(fixture.Opts{Config: fixture.BaseConfig(), Hooks: hooks})
	if err != nil {
		return harnessErr("start broker: %v", err)
	}
	defer b.Stop()
	cl, ack, err := b.Connect(fixture.ConnectOpts{ID: "ra", V: mw.V5, CleanStart: true, Props: &mw.Props{AuthMethod: strp(method)}})
	if err != nil || ack.ReasonCode != 0 {
		return ev.Violf("C14.reauth-connect", "CONNECT with an Authentication Method accepted by OnEnhancedAuth was refused: %v %v", ack, err)
	}
	defer cl.Kill()
	data := "client-data"
	if r.DataIsMethod {
		data = method
	}
	if err := cl.Send(&mw.Packet{Type: mw.AUTH, ReasonCode: 0x19, Props: &mw.Props{AuthMethod: strp(method), AuthData: []byte(data), HasAuthData: true}}); err != nil {
		return harnessErr("send AUTH: %v", err)
	}
	c.NonTrivial()
	c.Label("reauth_" + r.Verdict)
	feat := []any{"verdict", r.Verdict, "data_is_method", r.DataIsMethod}
	wait := fixture.DefaultWait
	if !r.DataIsMethod {
		wait = c14ClosedWait
	}
	p, err := cl.WaitFor(func(p *mw.Packet) bool { return p.Type == mw.AUTH || p.Type == mw.DISCONNECT }, wait)
	if n := atomic.LoadInt32(&calls); n == 1 && err != nil && !errors.Is(err, fixture.ErrClosed) {
		return ev.Violf("C14.reauth-response", "OnReAuth ran; AUTH (re-authenticate) neither answered nor the connection ended within %v: %v", wait, err).With(feat...)
	} else if n != 1 {
		return ev.Violf("C14.reauth-fires-once", "a v5 client authenticated with method %q sent AUTH(0x19, method %q, data %q): OnReAuth ran %d times; broker answered %v (%v)", method, method, data, n, p, err).With(feat...)
	}
	switch r.Verdict {
	case "error":
		if p != nil && p.Type == mw.AUTH {
			return ev.Violf("C14.reauth-response", "OnReAuth returned an error, the broker answered %v", p).With(feat...)
		}
		if p != nil && p.ReasonCode != r.Err.want() {
			return ev.Violf("C14.reauth-code", "OnReAuth returned error %#x, DISCONNECT carries %#x", r.Err.want(), p.ReasonCode).With(feat...)
		}
		if p == nil {
			c.Label("reauth_error_bare_close") // DISCONNECT lost in the writeLoop race: C13's business
		}
		if !cl.WaitClosed(fixture.DefaultWait) {
			return ev.Violf("C14.reauth-not-closed", "OnReAuth returned an error, the connection is still open").With(feat...)
		}
	default:
		wantCode := byte(0)
		if r.Verdict == "continue" {
			wantCode = 0x18
		}
		if p == nil || p.Type != mw.AUTH {
			return ev.Violf("C14.reauth-response", "OnReAuth answered (%s), the broker sent %v (%v)", r.Verdict, p, err).With(feat...)
		}
		gotData, gotMethod := "", ""
		if p.Props != nil {
			gotData = string(p.Props.AuthData)
			if p.Props.AuthMethod != nil {
				gotMethod = *p.Props.AuthMethod
			}
		}
		if p.ReasonCode != wantCode || gotData != r.RespData || gotMethod != method {
			return ev.Violf("C14.reauth-response", "OnReAuth decided (%s, data %q); AUTH carries code %#x, method %q, data %q", r.Verdict, r.RespData, p.ReasonCode, gotMethod, gotData).With(feat...)
		}
	}
	return nil
}

// ---------------------------------------------------------------------------------------

func TestC14DecideAuth(t *testing.T)        { ev.RunN(t, "C14", 0.12, genC14Auth(false), runC14Auth) }
func TestC14DecideAuthV3Code(t *testing.T)  { ev.RunN(t, "C14", 0.04, genC14Auth(true), runC14Auth) }
func TestC14DecideAuthClosed(t *testing.T)  { ev.RunN(t, "C14", 0.01, genC14AuthClosed, runC14Auth) }
func TestC14DecideSubscribe(t *testing.T)   { ev.RunN(t, "C14", 0.25, genC14Sub(false), runC14Sub) }
func TestC14DecideSubSetID(t *testing.T)    { ev.RunN(t, "C14", 0.04, genC14Sub(true), runC14Sub) }
func TestC14DecideUnsubscribe(t *testing.T) { ev.RunN(t, "C14", 0.10, genC14Unsub, runC14Unsub) }
func TestC14DecideArrived(t *testing.T)     { ev.RunN(t, "C14", 0.14, genC14Arr("plain"), runC14Arr) }
func TestC14DecideArrivedRetained(t *testing.T) {
	ev.RunN(t, "C14", 0.10, genC14Arr("retained"), runC14Arr)
}
func TestC14DecideArrivedRedeliver(t *testing.T) {
	ev.RunN(t, "C14", 0.08, genC14Arr("redeliver"), runC14Arr)
}
func TestC14DecideArrivedTopic(t *testing.T) { ev.RunN(t, "C14", 0.03, genC14Arr("topic"), runC14Arr) }
func TestC14DecideWill(t *testing.T)         { ev.RunN(t, "C14", 0.10, genC14Will(false), runC14Will) }
func TestC14DecideWillReplace(t *testing.T)  { ev.RunN(t, "C14", 0.04, genC14Will(true), runC14Will) }
func TestC14DecideReAuth(t *testing.T)       { ev.RunN(t, "C14", 0.02, genC14ReAuth(true), runC14ReAuth) }
func TestC14DecideReAuthData(t *testing.T) {
	ev.RunN(t, "C14", 0.02, genC14ReAuth(false), runC14ReAuth)
}
