package checks

// C18 with several WebSocket connections on ONE broker at the same time.
//
// The property is per connection ("the broker processes exactly the concatenation of the payloads
// of the binary messages it receives"), but the transport adapter is shared code: whatever it keeps
// outside the connection (buffers, pools, scratch space) is only exercised when several connections
// are in the middle of a message at the same moment and when connections die in the middle of one.
// So: 2-6 stream connections, each sending its own MQTT byte stream (own client id, own echo topic,
// own pseudo-random payloads) cut into websocket messages AND each message cut into several
// websocket FRAMES (fragmented message: first frame opcode binary, continuation frames, FIN on the
// last) with short pauses between the frames, so that the broker holds several half-received
// messages at once; "roamers" - websocket connections that start a fragmented message and are then
// closed by the broker from another goroutine (a second CONNECT with the same client id takes the
// session over; the roamer's reader has provably consumed the first frames: ping/pong) - before and
// while the streams run.
//
// Oracle (model): per stream connection the decoded concatenation of the received binary messages
// must be CONNACK(0), SUBACK(granted 1), one PUBACK per PUBLISH / PINGRESP per PINGREQ in order, a
// closing PINGRESP, and the echoes of its own publishes in order with exactly the payload bytes it
// sent; nothing else, all messages binary, connection still open at the end. (That these are the
// responses MQTT demands is what the single-connection check validates on its reference run.)

import (
	"fmt"
	"sync"
	"testing"
	"time"

	"pgregory.net/rapid"

	"verif/ev"
	"verif/fixture"
	mw "verif/mqttwire"
)

type c18cStream struct {
	V       int       `json:"v"`
	Items   []c18Item `json:"items"`
	Cuts    []int     `json:"cuts"`     // message boundaries (offsets into the stream), normalised like C18
	Frags   []int     `json:"frags"`    // further frame boundaries inside the messages
	PauseUs int       `json:"pause_us"` // pause after every non-final frame
}

type c18cRoamer struct {
	Frames  int  `json:"frames"`  // non-final frames sent before the take-over (1-3)
	Payload int  `json:"payload"` // payload length of the PUBLISH that is never completed
	During  bool `json:"during"`  // taken over while the streams run (else before they start)
	ByWS    bool `json:"by_ws"`   // the take-over CONNECT arrives over websocket too
	// Poison: instead of being taken over, the connection sends ONE complete binary message holding CONNECT, a malformed
	// packet (PUBLISH with QoS 3) and Payload more bytes behind it; the broker closes the connection with the rest of
	// that message unread. Nothing of it may ever show up in another connection's stream.
	Poison bool `json:"poison,omitempty"`
}

type c18cScen struct {
	Seed    uint64       `json:"seed"`
	Streams []c18cStream `json:"streams"`
	Roamers []c18cRoamer `json:"roamers"`
}

func genC18Conc(t *rapid.T) c18cScen {
	s := c18cScen{Seed: rapid.Uint64().Draw(t, "seed")}
	ns := rapid.IntRange(2, 6).Draw(t, "nstreams")
	for i := 0; i < ns; i++ {
		st := c18cStream{V: rapid.SampledFrom([]int{4, 5}).Draw(t, "v"), PauseUs: rapid.SampledFrom([]int{0, 200, 1000, 3000}).Draw(t, "pause_us")}
		n := rapid.IntRange(2, 8).Draw(t, "nitems")
		for k := 0; k < n; k++ {
			if rapid.IntRange(0, 5).Draw(t, "ping") == 0 {
				st.Items = append(st.Items, c18Item{K: "ping"})
			} else {
				st.Items = append(st.Items, c18Item{K: "pub", N: rapid.SampledFrom([]int{0, 1, 40, 200, 700, 1500, 4000}).Draw(t, "n") + rapid.IntRange(0, 60).Draw(t, "dn")})
			}
		}
		l, err := c18BuildFor(st.V, s.Seed+uint64(i), st.Items, fmt.Sprintf("s%d", i), fmt.Sprintf("e/%d", i))
		if err != nil {
			t.Fatalf("build: %v", err)
		}
		// messages: mostly one or two packets per message, sometimes unaligned cuts
		for _, p := range l.Pkts {
			switch rapid.IntRange(0, 5).Draw(t, "cut") {
			case 0: // no cut after this packet
			case 1:
				st.Cuts = append(st.Cuts, p.Start+rapid.IntRange(0, p.End-p.Start).Draw(t, "off"))
			default:
				st.Cuts = append(st.Cuts, p.End)
			}
		}
		nf := rapid.IntRange(1, 3*len(l.Pkts)).Draw(t, "nfrags")
		for k := 0; k < nf; k++ {
			st.Frags = append(st.Frags, rapid.IntRange(1, len(l.Stream)-1).Draw(t, "frag"))
		}
		s.Streams = append(s.Streams, st)
	}
	nr := rapid.IntRange(0, 6).Draw(t, "nroamers")
	for i := 0; i < nr; i++ {
		s.Roamers = append(s.Roamers, c18cRoamer{Frames: rapid.IntRange(1, 3).Draw(t, "frames"), Payload: rapid.SampledFrom([]int{50, 300, 2000}).Draw(t, "payload"),
			During: rapid.Bool().Draw(t, "during"), ByWS: rapid.IntRange(0, 3).Draw(t, "byws") == 0, Poison: rapid.IntRange(0, 2).Draw(t, "poison") == 0})
	}
	return s
}

func c18cKey(seed uint64, i int) [4]byte {
	x := (seed+uint64(i))*0x9E3779B97F4A7C15 + 1
	return [4]byte{byte(x >> 8), byte(x >> 24), byte(x >> 40), byte(x >> 56)}
}

func runC18Conc(s c18cScen, c *ev.Case) *ev.Violation {
	if len(s.Streams) == 0 || len(s.Streams) > 8 || len(s.Roamers) > 12 {
		return harnessErr("bad scenario")
	}
	b, url, err := fixture.StartWS(fixture.Opts{Config: fixture.BaseConfig()})
	if err != nil {
		return harnessErr("start websocket broker: %v", err)
	}
	defer b.Stop()

	roam := func(i int, r c18cRoamer) *ev.Violation {
		id := fmt.Sprintf("roamer%d", i)
		ws, err := fixture.DialWS(url)
		if err != nil {
			return harnessErr("roamer dial: %v", err)
		}
		cl := fixture.NewClient(ws, id, mw.V311)
		defer cl.Kill()
		name, lvl := mw.ProtoFor(mw.V311)
		cb, _ := mw.Encode(&mw.Packet{Type: mw.CONNECT, ProtoName: name, ProtoLevel: lvl, CleanStart: true, ClientID: id}, mw.V311)
		if r.Poison {
			n := r.Payload * 4 // 200 / 1200 / 8000: mostly more than one read of the packet reader
			if n < 8 {
				n = 8
			}
			if n > 8000 {
				n = 8000
			}
			msg := append([]byte(nil), cb...)
			msg = append(msg, 0x36, 0x02, 0x00, 0x00) // PUBLISH with QoS 3: malformed
			msg = append(msg, c18Payload(s.Seed, 2000+i, n)...)
			if err := ws.WriteMessage(fixture.WSBinary, msg); err != nil {
				return harnessErr("poison message: %v", err)
			}
			if !cl.WaitClosed(fixture.DefaultWait) {
				return ev.Violf("C18.stalled", "roamer %d: a binary message holding CONNECT and a malformed packet did not make the broker close the connection within %v", i, fixture.DefaultWait)
			}
			c.Label("roamer_closed_with_unread_remainder")
			return nil
		}
		if err := ws.WriteMessage(fixture.WSBinary, cb); err != nil {
			return harnessErr("roamer CONNECT: %v", err)
		}
		if ack, err := cl.WaitType(mw.CONNACK, fixture.DefaultWait); err != nil || ack.ReasonCode != 0 {
			return ev.Violf("C18.dropped", "roamer %d: CONNECT in one binary message not answered by CONNACK: %v %v", i, ack, err)
		}
		n := r.Payload
		if n < 8 {
			n = 8
		}
		if n > 8000 {
			n = 8000
		}
		pb, _ := mw.Encode(&mw.Packet{Type: mw.PUBLISH, QoS: 1, PacketID: 7, Topic: "roam/" + id, Payload: c18Payload(s.Seed, 1000+i, n)}, mw.V311)
		frames := r.Frames
		if frames < 1 {
			frames = 1
		}
		if frames > 3 {
			frames = 3
		}
		part := (len(pb) - 1) / (frames + 1)
		for k := 0; k < frames; k++ {
			op := byte(0)
			if k == 0 {
				op = 2
			}
			if err := ws.WriteFrame(op, false, pb[k*part:(k+1)*part], c18cKey(s.Seed, 100+i)); err != nil {
				return harnessErr("roamer frame: %v", err)
			}
		}
		if !ws.PingSync(2 * time.Second) {
			c.Label("roamer_no_pong")
		}
		// the broker's reader is inside the message now; another connection takes the session over
		if r.ByWS {
			ws2, err := fixture.DialWS(url)
			if err != nil {
				return harnessErr("roamer dial: %v", err)
			}
			cl2 := fixture.NewClient(ws2, id, mw.V311)
			defer cl2.Kill()
			if err := ws2.WriteMessage(fixture.WSBinary, cb); err != nil {
				return harnessErr("roamer CONNECT: %v", err)
			}
			if ack, err := cl2.WaitType(mw.CONNACK, fixture.DefaultWait); err != nil || ack.ReasonCode != 0 {
				return ev.Violf("C18.dropped", "roamer %d: take-over CONNECT over websocket not answered by CONNACK: %v %v", i, ack, err)
			}
		} else {
			cl2, ack, err := b.Connect(fixture.ConnectOpts{ID: id, V: mw.V311, CleanStart: true})
			if err != nil || ack.ReasonCode != 0 {
				return harnessErr("roamer take-over: %v %v", ack, err)
			}
			defer cl2.Kill()
		}
		if !cl.WaitClosed(fixture.DefaultWait) {
			return harnessErr("roamer %d: the connection that was taken over was not closed", i)
		}
		c.Label("roamer_taken_over_mid_message")
		return nil
	}

	for i, r := range s.Roamers {
		if !r.During {
			if v := roam(i, r); v != nil {
				return v
			}
		}
	}

	type result struct {
		v      *ev.Violation
		frames int
	}
	res := make([]result, len(s.Streams))
	var wg sync.WaitGroup
	start := make(chan struct{})
	for i := range s.Streams {
		wg.Add(1)
		go func(i int) {
			defer wg.Done()
			<-start
			v, n := c18cStreamRun(s, i, url)
			res[i] = result{v, n}
		}(i)
	}
	close(start)
	var rv *ev.Violation
	for i, r := range s.Roamers {
		if r.During && rv == nil {
			rv = roam(i, r)
		}
	}
	wg.Wait()
	// a genuine violation on a stream wins over a harness problem elsewhere
	var hv *ev.Violation
	for i, r := range res {
		if r.v != nil {
			if r.v.Assertion == "HARNESS" {
				hv = r.v
				continue
			}
			return r.v.With("stream", i, "streams", len(s.Streams), "roamers", len(s.Roamers))
		}
		c.Count("ws_frames_sent", r.frames)
	}
	if rv != nil {
		return rv
	}
	if hv != nil {
		return hv
	}
	c.Label(fmt.Sprintf("streams_%d", len(s.Streams)))
	if len(s.Roamers) > 0 {
		c.NonTrivial()
	}
	return nil
}

// c18cStreamRun drives one stream connection and judges its responses; it returns the number of
// frames it sent.
func c18cStreamRun(s c18cScen, i int, url string) (*ev.Violation, int) {
	st := s.Streams[i]
	if st.V != 4 && st.V != 5 {
		return harnessErr("bad version"), 0
	}
	id, topic := fmt.Sprintf("s%d", i), fmt.Sprintf("e/%d", i)
	l, err := c18BuildFor(st.V, s.Seed+uint64(i), st.Items, id, topic)
	if err != nil {
		return harnessErr("build stream: %v", err), 0
	}
	stream := append(append([]byte(nil), l.Stream...), c18Ping...)
	cuts := c18NormCuts(append(append([]int(nil), st.Cuts...), len(l.Stream)), len(stream))
	msgs := c18Messages(stream, cuts)
	isFrag := map[int]bool{}
	for _, f := range st.Frags {
		isFrag[f] = true
	}
	ws, err := fixture.DialWS(url)
	if err != nil {
		return harnessErr("websocket dial %s: %v", url, err), 0
	}
	cl := fixture.NewClient(ws, id, ver(st.V))
	defer cl.Kill()
	key := c18cKey(s.Seed, i)
	nframes := 0
	var sendErr error
send:
	for _, m := range msgs {
		// frame boundaries inside [m0,m1)
		prev, first := m[0], true
		for off := m[0] + 1; off <= m[1]; off++ {
			if off != m[1] && !isFrag[off] {
				continue
			}
			op := byte(0)
			if first {
				op = 2
			}
			if sendErr = ws.WriteFrame(op, off == m[1], stream[prev:off], key); sendErr != nil {
				break send
			}
			nframes++
			first, prev = false, off
			if off != m[1] && st.PauseUs > 0 {
				time.Sleep(time.Duration(st.PauseUs) * time.Microsecond)
			}
		}
		if m[0] == m[1] { // empty message
			if sendErr = ws.WriteFrame(2, true, nil, key); sendErr != nil {
				break send
			}
			nframes++
		}
	}
	// expected responses
	type exp struct {
		kind string
		id   uint16
	}
	var ctl []exp
	var pubs [][]byte
	for _, p := range l.Pkts {
		ctl = append(ctl, exp{p.Kind, p.ID})
		if p.Kind == "pub" {
			pubs = append(pubs, p.Payload)
		}
	}
	ctl = append(ctl, exp{"ping", 0})
	failure := func(what string, k int, err error) *ev.Violation {
		for fi, f := range ws.Frames() {
			if f.Type != fixture.WSBinary {
				return ev.Violf("C18.binary-frames", "stream %d: message %d received from the broker has websocket type %d", i, fi, f.Type)
			}
		}
		_, rerr := cl.Closed()
		switch {
		case err == fixture.ErrTimeout:
			return ev.Violf("C18.stalled", "stream %d (%d bytes in %d frames, %d other connections busy): %s %d never arrived within %v", i, len(stream), nframes, len(s.Streams)-1, what, k, c18Wait)
		case mw.IsMalformed(rerr):
			return ev.Violf("C18.mismatch", "stream %d: the concatenation of the received messages is not a valid MQTT stream while waiting for %s %d: %v", i, what, k, rerr)
		default:
			return ev.Violf("C18.dropped", "stream %d: connection closed by the broker while waiting for %s %d (reader: %v; send error: %v) although every byte it was sent is part of a well-formed MQTT stream", i, what, k, rerr, sendErr)
		}
	}
	ci, pi := 0, 0
	for ci < len(ctl) || pi < len(pubs) {
		got, err := cl.WaitFor(func(*mw.Packet) bool { return true }, c18Wait)
		if err != nil {
			if ci < len(ctl) {
				return failure("response", ci, err), nframes
			}
			return failure("echoed PUBLISH", pi, err), nframes
		}
		if got.Type == mw.PUBLISH {
			if pi >= len(pubs) {
				return ev.Violf("C18.mismatch", "stream %d: PUBLISH that nothing it sent explains: %s", i, got), nframes
			}
			if got.Topic != topic || got.QoS != 1 || got.PacketID == 0 || string(got.Payload) != string(pubs[pi]) {
				return ev.Violf("C18.mismatch", "stream %d: echoed PUBLISH %d is %s, sent was topic %q with a %d byte payload%s", i, pi, got, topic, len(pubs[pi]), c18PayloadDiff(got.Payload, pubs[pi])), nframes
			}
			pi++
			continue
		}
		if ci >= len(ctl) {
			return ev.Violf("C18.mismatch", "stream %d: packet that nothing it sent explains: %s", i, got), nframes
		}
		e, ok := ctl[ci], false
		switch e.kind {
		case "connect":
			ok = got.Type == mw.CONNACK && got.ReasonCode == 0 && !got.SessionPresent
		case "subscribe":
			ok = got.Type == mw.SUBACK && got.PacketID == 1 && len(got.ReasonCodes) == 1 && got.ReasonCodes[0] == 1
		case "pub":
			ok = got.Type == mw.PUBACK && got.PacketID == e.id && got.ReasonCode == 0
		case "ping":
			ok = got.Type == mw.PINGRESP
		}
		if !ok {
			return ev.Violf("C18.mismatch", "stream %d: response %d to %s (id %d) is %s", i, ci, e.kind, e.id, got), nframes
		}
		ci++
	}
	if extra := cl.Take(nil); len(extra) != 0 {
		return ev.Violf("C18.mismatch", "stream %d: %d packet(s) that nothing it sent explains, first: %s", i, len(extra), extra[0].P), nframes
	}
	if closed, rerr := cl.Closed(); closed {
		return ev.Violf("C18.dropped", "stream %d: connection closed by the broker after the closing PINGRESP: %v", i, rerr), nframes
	}
	for fi, f := range ws.Frames() {
		if f.Type != fixture.WSBinary {
			return ev.Violf("C18.binary-frames", "stream %d: message %d received from the broker has websocket type %d", i, fi, f.Type), nframes
		}
	}
	return nil, nframes
}

func TestC18Concurrent(t *testing.T) {
	ev.RunN(t, "C18", 0.1, genC18Conc, runC18Conc)
}
