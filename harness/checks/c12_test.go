package checks

// C12 — Message expiry is honoured and the remaining lifetime is forwarded.
//
// Timed check. One broker per case, 6-10 independent lanes (own client ids and topic)
// sleeping concurrently. Every lane measures its own monotonic timestamps around the
// publish and around the delivery, derives a lower and an upper bound of the time the
// message waited inside the broker, and only asserts when the verdict is the same at both
// bounds (margin 300 ms); otherwise the lane is counted timing_inconclusive.

import (
	"context"
	"fmt"
	"math"
	"strings"
	"sync"
	"testing"
	"time"

	"github.com/DrmagicE/gmqtt"
	"github.com/DrmagicE/gmqtt/persistence/queue"
	"github.com/DrmagicE/gmqtt/server"
	"pgregory.net/rapid"

	"verif/ev"
	"verif/fixture"
	mw "verif/mqttwire"
)

type c12Lane struct {
	Pub    string `json:"pub"`    // v5 | v3 | api
	E      int    `json:"expiry"` // seconds; 0 = absent
	SubV   int    `json:"sub_v"`
	Mode   string `json:"mode"` // online | offline | blocked
	WaitMs int    `json:"wait_ms"`
	QoS    byte   `json:"qos"`
	IdleMs int    `json:"idle_ms"` // online mode: the subscriber has been idle this long when the message arrives
	// RetxMs > 0 (v5 subscriber, message with an expiry): the first copy is left unacknowledged, the connection is cut,
	// and the session is resumed RetxMs later; the retransmission must carry the lifetime that is left THEN
	RetxMs int `json:"retx_ms,omitempty"`
	// Oversize (v5 subscriber that is offline or blocked): the subscriber announces Maximum Packet Size 256 and this many
	// 600-byte messages are queued directly in front of the lane's message; they can never be sent and are dropped
	// when the queue is read - the lane's message behind them is judged as always
	Oversize int `json:"oversize,omitempty"`
}

type c12Scen struct {
	CapS  int       `json:"cap_s"`            // configured message_expiry in seconds, 0 = off
	CapMs int       `json:"cap_ms,omitempty"` // overrides cap_s when set: a maximum lifetime that is not a whole number of seconds
	Redis bool      `json:"redis,omitempty"`  // session queues on the redis backend (harness RESP server)
	Lanes []c12Lane `json:"lanes"`
}

func genC12(t *rapid.T) c12Scen {
	s := c12Scen{CapS: rapid.SampledFrom([]int{0, 1, 2, 3600}).Draw(t, "cap"), Redis: rapid.IntRange(0, 2).Draw(t, "backend") == 0}
	if rapid.IntRange(0, 5).Draw(t, "subsecond_cap") == 0 {
		s.CapS, s.CapMs = 0, rapid.SampledFrom([]int{500, 800, 1500}).Draw(t, "capms")
	}
	n := rapid.IntRange(6, 10).Draw(t, "nlanes")
	for i := 0; i < n; i++ {
		l := c12Lane{Pub: rapid.SampledFrom([]string{"v5", "v5", "v3", "api"}).Draw(t, "pub"), SubV: rapid.SampledFrom([]int{4, 5, 5}).Draw(t, "subv"),
			Mode: rapid.SampledFrom([]string{"online", "offline", "offline", "blocked"}).Draw(t, "mode"), WaitMs: rapid.SampledFrom([]int{400, 1500, 2600}).Draw(t, "wait"),
			QoS: byte(rapid.IntRange(1, 2).Draw(t, "qos"))}
		if l.Pub != "v3" {
			l.E = rapid.SampledFrom([]int{0, 1, 2, 3, 5, 100}).Draw(t, "E")
		}
		if l.Mode == "online" {
			l.IdleMs = rapid.SampledFrom([]int{0, 1200, 2100}).Draw(t, "idle")
		}
		if l.Mode == "blocked" && l.SubV != 5 {
			l.SubV = 5 // blocking uses Receive Maximum 1
		}
		if l.SubV == 5 && l.E > 0 && rapid.IntRange(0, 2).Draw(t, "retx") == 0 {
			l.RetxMs = rapid.SampledFrom([]int{400, 1500, 2600}).Draw(t, "retxms")
			// aimed (half of them): a long lifetime and a first delivery after the message has already waited whole seconds,
			// so that a retransmission computed from anything but the original interval and the entry time is off by >= 2 s
			if l.Mode != "online" && rapid.Bool().Draw(t, "retx_aimed") {
				l.E, l.WaitMs = rapid.SampledFrom([]int{30, 100}).Draw(t, "retx_e"), 2600
			}
		}
		if l.SubV == 5 && l.Mode != "online" && rapid.IntRange(0, 3).Draw(t, "oversize") == 0 {
			l.Oversize = rapid.IntRange(1, 2).Draw(t, "noversize")
		}
		s.Lanes = append(s.Lanes, l)
	}
	return s
}

type laneOut struct {
	v            *ev.Violation
	inconclusive bool
	labels       []string
	nontrivial   bool
	log          []string
	excluded     []string // open known findings whose recorded wrong outcome was observed (and accepted) in this lane
}

func runLanes(n int, f func(i int) laneOut) []laneOut {
	out := make([]laneOut, n)
	var wg sync.WaitGroup
	for i := 0; i < n; i++ {
		wg.Add(1)
		go func(i int) {
			defer wg.Done()
			out[i] = f(i)
		}(i)
	}
	wg.Wait()
	return out
}

func collectLanes(outs []laneOut, c *ev.Case) *ev.Violation {
	var first *ev.Violation
	for i, o := range outs {
		for _, l := range o.labels {
			c.Label(l)
		}
		for _, l := range o.log {
			c.Logf("lane %d: %s", i, l)
		}
		for _, f := range o.excluded {
			c.Excluded(f)
		}
		if o.inconclusive {
			c.Count("timing_inconclusive", 1)
		} else {
			c.Count("lanes_decided", 1)
		}
		if o.nontrivial {
			c.NonTrivial()
			c.Count("nontrivial_lanes", 1)
		}
		if o.v != nil && first == nil {
			first = o.v.With("lane", i)
		}
	}
	return first
}

const timingMargin = 300 * time.Millisecond

func runC12(s c12Scen, c *ev.Case) *ev.Violation {
	cfg := fixture.BaseConfig()
	cfg.MQTT.MessageExpiry = time.Duration(s.CapS) * time.Second
	if s.CapMs > 0 {
		cfg.MQTT.MessageExpiry = time.Duration(s.CapMs) * time.Millisecond
	}
	capSec := float64(s.CapS)
	if s.CapMs > 0 {
		capSec = float64(s.CapMs) / 1000
	}
	var mu sync.Mutex
	type dropRec struct {
		err error
		at  time.Time
	}
	drops := map[string]dropRec{} // payload -> record
	hooks := &server.Hooks{OnMsgDropped: func(ctx context.Context, clientID string, msg *gmqtt.Message, err error) {
		mu.Lock()
		drops[string(msg.Payload)] = dropRec{err, time.Now()}
		mu.Unlock()
	}}
	if s.Redis {
		rs, cleanup, e := fixture.StartRedis()
		if e != nil {
			return harnessErr("miniredis: %v", e)
		}
		defer cleanup()
		cfg = fixture.WithRedis(cfg, rs.Addr())
		c.Label("backend_redis")
	}
	b, err := fixture.Start(fixture.Opts{Config: cfg, Hooks: hooks})
	if err != nil {
		return harnessErr("start broker: %v", err)
	}
	defer b.Stop()
	c.Label(fmt.Sprintf("cap_%gs", capSec))

	outs := runLanes(len(s.Lanes), func(i int) (o laneOut) {
		l := s.Lanes[i]
		if l.Mode == "blocked" && s.Redis && capSec > 0 && capSec < 1 {
			// the message that blocks the window is subject to the maximum lifetime too; with a sub-second maximum on
			// the redis backend it can be dropped at once (F-redis-expiry-whole-seconds): nothing would block
			l.Mode = "offline"
		}
		logf := func(f string, a ...any) { o.log = append(o.log, fmt.Sprintf(f, a...)) }
		topic := fmt.Sprintf("x/%d", i)
		subID := fmt.Sprintf("s%d", i)
		payload := fmt.Sprintf("L%d-msg", i)
		fail := func(v *ev.Violation) laneOut {
			o.v = v.With("mode", l.Mode, "pub", l.Pub, "E", l.E, "cap_s", capSec, "sub_v", l.SubV, "wait_ms", l.WaitMs)
			return o
		}
		connectSub := func(clean bool, rm int) (*fixture.Client, error) {
			opts := fixture.ConnectOpts{ID: subID, V: ver(l.SubV), CleanStart: clean}
			if l.SubV == 5 {
				opts.Props = &mw.Props{SessionExpiry: u32p(1000)}
				if rm > 0 {
					opts.Props.ReceiveMax = u16p(uint16(rm))
				}
				if l.Oversize > 0 {
					opts.Props.MaxPacketSize = u32p(256)
				}
			}
			cl, ack, err := b.Connect(opts)
			if err != nil || ack.ReasonCode != 0 {
				return nil, fmt.Errorf("connect: %v %v", ack, err)
			}
			return cl, nil
		}
		rm := 0
		if l.Mode == "blocked" {
			rm = 1
		}
		// v3 persistent session needs Clean Session 0 from the start
		sub, err := connectSub(l.SubV == 5, rm)
		if err != nil {
			return fail(harnessErr("%v", err))
		}
		defer func() { sub.Kill() }()
		if code, err := subscribeOne(sub, 1, subSpec{Filter: topic, QoS: 2}); err != nil || code != 2 {
			return fail(harnessErr("subscribe: %v %v", code, err))
		}
		if code, err := subscribeOne(sub, 2, subSpec{Filter: topic + "/block", QoS: 1}); err != nil || code != 1 {
			return fail(harnessErr("subscribe: %v %v", code, err))
		}
		var blocker *mw.Packet
		switch l.Mode {
		case "offline":
			sub.Kill()
			if !waitClientGone(b, subID) {
				return fail(harnessErr("subscriber still registered"))
			}
		case "blocked":
			b.Srv.Publisher().Publish(&gmqtt.Message{Topic: topic + "/block", QoS: 1, Payload: []byte("blocker")})
			p, err := sub.WaitType(mw.PUBLISH, fixture.DefaultWait)
			if err != nil {
				return fail(harnessErr("blocker not delivered: %v", err))
			}
			blocker = p // left unacknowledged: the window (Receive Maximum 1) is full
		}
		// publish
		var pubc *fixture.Client
		if l.Pub != "api" {
			v := mw.V5
			if l.Pub == "v3" {
				v = mw.V311
			}
			pc, ack, err := b.Connect(fixture.ConnectOpts{ID: fmt.Sprintf("p%d", i), V: v, CleanStart: true})
			if err != nil || ack.ReasonCode != 0 {
				return fail(harnessErr("publisher connect: %v %v", ack, err))
			}
			pubc = pc
			defer pubc.Kill()
		}
		if l.IdleMs > 0 {
			time.Sleep(time.Duration(l.IdleMs) * time.Millisecond)
			o.labels = append(o.labels, "idle_subscriber")
		}
		if l.Oversize > 0 && l.SubV == 5 && l.Mode != "online" {
			for k := 0; k < l.Oversize && k < 4; k++ {
				b.Srv.Publisher().Publish(&gmqtt.Message{Topic: topic, QoS: 1, Payload: []byte(fmt.Sprintf("L%d-big%d-%s", i, k, strings.Repeat("x", 600)))})
			}
			o.labels = append(o.labels, "behind_oversize_messages")
		}
		t0 := time.Now()
		if l.Pub == "api" {
			b.Srv.Publisher().Publish(&gmqtt.Message{Topic: topic, QoS: l.QoS, Payload: []byte(payload), MessageExpiry: uint32(l.E)})
		} else {
			pk := &mw.Packet{Topic: topic, QoS: l.QoS, PacketID: 7, Payload: []byte(payload)}
			if l.E > 0 && l.Pub == "v5" {
				pk.Props = &mw.Props{MessageExpiry: u32p(uint32(l.E))}
			}
			if _, err := pubc.Publish(pk); err != nil {
				return fail(ev.Violf("C12.ack", "publish not acknowledged: %v", err))
			}
		}
		t1 := time.Now()
		// lifetime
		L := math.Inf(1)
		if l.E > 0 {
			L = float64(l.E)
		}
		if capSec > 0 && capSec < L {
			L = capSec
		}
		var t2 time.Time // earliest instant the broker could hand the message to the subscriber
		switch l.Mode {
		case "online":
			t2 = t0
		case "offline":
			time.Sleep(time.Duration(l.WaitMs) * time.Millisecond)
			t2 = time.Now()
			sub, err = connectSub(false, 0)
			if err != nil {
				return fail(harnessErr("%v", err))
			}
		case "blocked":
			time.Sleep(time.Duration(l.WaitMs) * time.Millisecond)
			t2 = time.Now()
			if err := sub.Send(&mw.Packet{Type: mw.PUBACK, PacketID: blocker.PacketID}); err != nil {
				return fail(harnessErr("ack blocker: %v", err))
			}
		}
		wLo := t2.Sub(t1) // waited at least this long
		if wLo < 0 {
			wLo = 0
		}
		// wait for the delivery or for the drop report
		var got *mw.Packet
		var t3 time.Time
		deadline := time.Now().Add(fixture.DefaultWait)
		for time.Now().Before(deadline) {
			p, err := sub.WaitFor(func(p *mw.Packet) bool { return p.Type == mw.PUBLISH && string(p.Payload) == payload }, 20*time.Millisecond)
			if err == nil {
				got, t3 = p, time.Now()
				break
			}
			mu.Lock()
			_, dropped := drops[payload]
			mu.Unlock()
			if dropped {
				break
			}
			if closed, _ := sub.Closed(); closed {
				return fail(ev.Violf("C12.connection-lost", "subscriber connection lost"))
			}
		}
		if got != nil && l.RetxMs == 0 {
			switch got.QoS {
			case 1:
				_ = sub.Send(&mw.Packet{Type: mw.PUBACK, PacketID: got.PacketID})
			case 2:
				_ = sub.Send(&mw.Packet{Type: mw.PUBREC, PacketID: got.PacketID})
			}
		}
		mu.Lock()
		dr, dropped := drops[payload]
		mu.Unlock()
		if got == nil && !dropped {
			return fail(ev.Violf("C12.lost", "message neither delivered nor reported dropped within 10 s (lifetime %vs, waited >= %v)", L, wLo))
		}
		if got != nil && dropped {
			return fail(ev.Violf("C12.delivered-and-dropped", "message delivered and reported dropped (%v)", dr.err))
		}
		wHi := wLo
		if got != nil {
			wHi = t3.Sub(t0)
		} else {
			wHi = dr.at.Sub(t0)
		}
		logf("mode=%s pub=%s E=%d cap=%dms subv=%d wait in [%v,%v] lifetime=%v delivered=%v dropped=%v", l.Mode, l.Pub, l.E, s.CapS*1000+s.CapMs, l.SubV, wLo, wHi, L, got != nil, dropped)
		if (l.E > 0 || capSec > 0) && l.WaitMs >= 400 && l.Mode != "online" {
			o.nontrivial = true
		}
		if got != nil && l.E > 0 && l.SubV == 5 {
			o.nontrivial = true
		}
		o.labels = append(o.labels, "mode_"+l.Mode)
		if !math.IsInf(L, 1) {
			lifetime := time.Duration(L * float64(time.Second))
			switch {
			case wLo > lifetime+timingMargin:
				o.labels = append(o.labels, "must_expire")
				if got != nil {
					return fail(ev.Violf("C12.delivered-after-expiry", "message with lifetime %vs (expiry %d, cap %gs) was delivered after waiting at least %v in the broker", L, l.E, capSec, wLo))
				}
				if dr.err != queue.ErrDropExpired && dr.err != queue.ErrDropExpiredInflight {
					return fail(ev.Violf("C12.drop-reason", "expired message reported dropped with reason %v", dr.err))
				}
			case wHi < lifetime-timingMargin:
				o.labels = append(o.labels, "must_deliver")
				if got == nil && s.Redis && ev.KF("F-redis-expiry-whole-seconds") && wHi > lifetime-time.Second &&
					(dr.err == queue.ErrDropExpired || dr.err == queue.ErrDropExpiredInflight) {
					// open finding: the redis element format stores the expiry time in whole seconds (truncated), so a
					// message can be dropped as expired up to one second early - and only then
					o.excluded = append(o.excluded, "F-redis-expiry-whole-seconds")
					o.labels = append(o.labels, "redis_dropped_up_to_1s_early")
					break
				}
				if got == nil {
					return fail(ev.Violf("C12.dropped-before-expiry", "message with lifetime %vs (expiry %d, cap %gs) was dropped (%v) after waiting at most %v", L, l.E, capSec, dr.err, wHi))
				}
			default:
				o.inconclusive = true
			}
		} else if got == nil {
			return fail(ev.Violf("C12.dropped-without-lifetime", "message without any lifetime was dropped: %v", dr.err))
		}
		// forwarded remaining lifetime
		if got != nil && l.E > 0 && l.SubV == 5 {
			o.labels = append(o.labels, "forwarded_expiry_checked")
			if got.Props == nil || got.Props.MessageExpiry == nil {
				return fail(ev.Violf("C12.expiry-absent", "message published with Message Expiry Interval %d reached a v5 subscriber without the property (waited in [%v,%v])", l.E, wLo, wHi).With("waited_whole_seconds_lo", int(wLo.Seconds())))
			}
			r := int(*got.Props.MessageExpiry)
			hi := l.E - int(math.Floor(wLo.Seconds()))
			lo := l.E - int(math.Ceil(wHi.Seconds()))
			if lo < 1 {
				lo = 1
			}
			if r > l.E {
				return fail(ev.Violf("C12.expiry-larger", "forwarded Message Expiry Interval %d is larger than the original %d", r, l.E))
			}
			if r < lo || r > hi {
				return fail(ev.Violf("C12.remaining-expiry", "forwarded Message Expiry Interval %d, original %d, waited in [%v,%v]: expected a value in [%d,%d]", r, l.E, wLo, wHi, lo, hi).
					With("forwarded", r, "elapsed_s_lo", int(wLo.Seconds())))
			}
		}
		// retransmission after a resume: the lifetime that is left now, not the one left at the first delivery
		if got != nil && l.RetxMs > 0 && got.QoS > 0 {
			sub.Kill()
			if !waitClientGone(b, subID) {
				return fail(harnessErr("subscriber still registered"))
			}
			time.Sleep(time.Duration(l.RetxMs) * time.Millisecond)
			r0 := time.Now()
			sub, err = connectSub(false, 0)
			if err != nil {
				return fail(harnessErr("%v", err))
			}
			dup, err := sub.WaitFor(func(p *mw.Packet) bool { return p.Type == mw.PUBLISH && string(p.Payload) == payload }, fixture.DefaultWait)
			r1 := time.Now()
			if err != nil {
				// the lifetime may have run out meanwhile; whether an in-flight message is then still retransmitted is
				// not stated by the property - nothing is asserted about a missing retransmission
				o.labels = append(o.labels, "retransmission_absent")
				return o
			}
			if dup.QoS == 1 {
				_ = sub.Send(&mw.Packet{Type: mw.PUBACK, PacketID: dup.PacketID})
			} else {
				_ = sub.Send(&mw.Packet{Type: mw.PUBREC, PacketID: dup.PacketID})
			}
			o.labels = append(o.labels, "retransmission_expiry_checked")
			o.nontrivial = true
			w2Lo, w2Hi := r0.Sub(t1), r1.Sub(t0)
			if dup.Props == nil || dup.Props.MessageExpiry == nil {
				return fail(ev.Violf("C12.retx-expiry-absent", "retransmission of a message published with Message Expiry Interval %d reached the v5 subscriber without the property", l.E))
			}
			r := int(*dup.Props.MessageExpiry)
			hi := l.E - int(math.Floor(w2Lo.Seconds()))
			lo := l.E - int(math.Ceil(w2Hi.Seconds()))
			if lo < 1 {
				lo = 1
			}
			if hi < 1 {
				hi = 1
			}
			logf("retransmission after [%v,%v] in the broker: forwarded expiry %d (original %d)", w2Lo, w2Hi, r, l.E)
			if r > l.E {
				return fail(ev.Violf("C12.expiry-larger", "retransmission: forwarded Message Expiry Interval %d is larger than the original %d", r, l.E))
			}
			if r < lo || r > hi {
				return fail(ev.Violf("C12.retx-remaining-expiry", "retransmission after the message spent [%v,%v] in the broker: forwarded Message Expiry Interval %d, original %d, expected a value in [%d,%d]", w2Lo, w2Hi, r, l.E, lo, hi).
					With("forwarded", r, "elapsed_s_lo", int(w2Lo.Seconds())))
			}
		}
		return o
	})
	return collectLanes(outs, c)
}

func TestC12Expiry(t *testing.T) {
	ev.SetRule("C12", "timed lanes: per case one broker with configured message lifetime cap {off,1s,2s,1h} and 6-10 concurrent independent lanes: publisher v5 (expiry absent/1/2/3/5/100 s), v3.1.1 or Publisher API; subscriber v3.1.1/v5 that is online, offline for w, or window-blocked (Receive Maximum 1, previous message unacknowledged) for w, w in {0.4,1.5,2.6 s}. Each lane bounds the broker-side waiting time by its own monotonic timestamps [t(reconnect/ack sent) - t(publish acked), t(delivery or drop report) - t(publish sent)] and asserts 'not delivered + reported expired' only if the lower bound exceeds the lifetime by 300 ms, 'delivered' only if the upper bound is 300 ms below it (otherwise timing_inconclusive); forwarded expiry for v5 subscribers must be present, <= original and within [E-ceil(w_hi), E-floor(w_lo)]. A quarter of the offline/blocked v5 lanes announce Maximum Packet Size 256 and have 1-2 messages of 600 bytes queued directly in front of the lane's message (dropped when the queue is read; the message behind them is judged as always). Non-trivial lane: lifetime set and w >= 0.4 s with a waiting subscriber, or a v5 subscriber receiving a message published with an expiry; cases are distinct by scenario digest, lanes are counted separately.")
	ev.Run(t, "C12", genC12, runC12)
}
