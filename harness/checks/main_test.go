package checks

import (
	"os"
	"testing"

	"verif/ev"
)

func TestMain(m *testing.M) {
	code := m.Run()
	ev.Flush()
	os.Exit(code)
}
