package checks

// C01 — PUBLISH reaches exactly the matching subscribers, at the right QoS, in order.

import (
	"fmt"
	"strings"
	"sync"
	"testing"

	"github.com/DrmagicE/gmqtt"
	"github.com/DrmagicE/gmqtt/pkg/packets"
	"pgregory.net/rapid"

	"verif/ev"
	"verif/fixture"
	mw "verif/mqttwire"
	"verif/topicref"
)

type c01Client struct {
	V    int       `json:"v"`
	Subs []subSpec `json:"subs"`
	RM   int       `json:"receive_max,omitempty"` // v5: Receive Maximum declared in CONNECT (0 = absent)
	// TAM: v5 Topic Alias Maximum declared in CONNECT (0 = absent): the broker may replace topic names by aliases on this
	// connection; the client resolves them like a real client does and every message must resolve to the topic it was published to
	TAM int `json:"topic_alias_max,omitempty"`
	// MPS: v5 Maximum Packet Size declared in CONNECT (0 = absent; never together with TAM). A message reaches this
	// client iff the PUBLISH packet that carries it is at most MPS bytes long - exactly at the limit included.
	MPS int `json:"max_packet_size,omitempty"`
}

type c01Pub struct {
	By     int    `json:"by"` // client index, -1 = Publisher API
	Topic  string `json:"topic"`
	QoS    byte   `json:"qos"`
	Retain bool   `json:"retain,omitempty"`
	Props  int    `json:"props,omitempty"` // bit set: 1 payload-format, 2 content-type, 4 response-topic, 8 correlation, 16 user
	Pad    int    `json:"pad,omitempty"`   // the payload (= the message's uid) is padded with this many dots
}

type c01Scen struct {
	Mode    string      `json:"mode"`
	Clients []c01Client `json:"clients"`
	Phases  [][]c01Pub  `json:"phases"`
	// Leaves[p] = clients whose session ends (clean session DISCONNECT or TerminateSession) after phase p
	Leaves [][]int `json:"leaves,omitempty"`
	// APIReuse: the in-process publisher keeps ONE *gmqtt.Message and, before every Publish, sets the fields an
	// application sets (topic, QoS, retain, payload, properties) - it never touches what the broker fills in.
	APIReuse bool `json:"api_reuse,omitempty"`
	Redis    bool `json:"redis,omitempty"` // persistence on the redis backend (harness RESP server)
}

func genC01(t *rapid.T) c01Scen {
	s := c01Scen{Mode: rapid.SampledFrom([]string{"overlap", "onlyonce"}).Draw(t, "mode"), APIReuse: rapid.Bool().Draw(t, "api_reuse")}
	s.Redis = rapid.IntRange(0, 4).Draw(t, "backend") == 0
	nc := rapid.IntRange(1, 5).Draw(t, "nclients")
	for i := 0; i < nc; i++ {
		c := c01Client{V: rapid.SampledFrom([]int{3, 4, 5, 5, 5}).Draw(t, "v")}
		if c.V == 5 {
			c.RM = rapid.SampledFrom([]int{0, 0, 0, 1, 2, 5}).Draw(t, "rm")
			c.TAM = rapid.SampledFrom([]int{0, 0, 1, 2, 3}).Draw(t, "tam")
			if c.TAM == 0 && rapid.IntRange(0, 2).Draw(t, "mps") == 0 {
				c.MPS = rapid.IntRange(60, 160).Draw(t, "mps_value")
			}
		}
		ns := rapid.IntRange(0, 4).Draw(t, "nsubs")
		for j := 0; j < ns; j++ {
			sp := genSubSpec(t, false)
			sp.RH = 0
			if c.V != 5 {
				sp.NL, sp.RAP, sp.ID = false, false, 0
			}
			c.Subs = append(c.Subs, sp)
		}
		s.Clients = append(s.Clients, c)
	}
	np := rapid.IntRange(1, 3).Draw(t, "nphases")
	total := 0
	for p := 0; p < np; p++ {
		n := rapid.IntRange(1, 6).Draw(t, "npubs")
		var ph []c01Pub
		for i := 0; i < n && total < 12; i++ {
			total++
			ph = append(ph, c01Pub{By: rapid.IntRange(-1, nc-1).Draw(t, "by"), Topic: genTopicName(t, "topic"),
				QoS: byte(rapid.IntRange(0, 2).Draw(t, "qos")), Retain: rapid.IntRange(0, 3).Draw(t, "retain") == 0,
				Props: rapid.IntRange(0, 31).Draw(t, "props")})
			// with a Maximum Packet Size somewhere, payloads are padded so that packet sizes straddle it
			for _, cl := range s.Clients {
				if cl.MPS > 0 {
					ph[len(ph)-1].Pad = rapid.IntRange(0, 130).Draw(t, "pad")
					break
				}
			}
		}
		s.Phases = append(s.Phases, ph)
		var lv []int
		if p < np-1 && nc >= 2 && rapid.IntRange(0, 2).Draw(t, "leave") == 0 {
			lv = append(lv, rapid.IntRange(0, nc-1).Draw(t, "leaver"))
		}
		s.Leaves = append(s.Leaves, lv)
	}
	return s
}

// appProps renders the application-level properties of a PUBLISH (everything except what the broker adds).
func appProps(p *mw.Props) string {
	if p == nil {
		return ""
	}
	var parts []string
	if p.PayloadFormat != nil {
		parts = append(parts, fmt.Sprintf("payload-format=%d", *p.PayloadFormat))
	}
	if p.ContentType != nil {
		parts = append(parts, fmt.Sprintf("content-type=%q", *p.ContentType))
	}
	if p.ResponseTopic != nil {
		parts = append(parts, fmt.Sprintf("response-topic=%q", *p.ResponseTopic))
	}
	if p.HasCorrelationData || len(p.CorrelationData) > 0 {
		parts = append(parts, fmt.Sprintf("correlation-data=%x", p.CorrelationData))
	}
	for _, u := range p.User {
		parts = append(parts, fmt.Sprintf("user %q=%q", u.K, u.V))
	}
	return strings.Join(parts, " ")
}

func pubProps(bits int) *mw.Props {
	if bits == 0 {
		return nil
	}
	p := &mw.Props{}
	if bits&1 != 0 {
		p.PayloadFormat = u8p(1)
	}
	if bits&2 != 0 {
		p.ContentType = strp("text/plain")
	}
	if bits&4 != 0 {
		p.ResponseTopic = strp("resp/t")
	}
	if bits&8 != 0 {
		p.CorrelationData, p.HasCorrelationData = []byte{1, 2, 3}, true
	}
	if bits&16 != 0 {
		p.User = []mw.UserProp{{K: "k", V: "v"}, {K: "k", V: "w"}}
	}
	return p
}

func apiMsg(p c01Pub, uid string) *gmqtt.Message {
	m := &gmqtt.Message{Topic: p.Topic, QoS: p.QoS, Retained: p.Retain, Payload: []byte(uid)}
	if p.Props&1 != 0 {
		m.PayloadFormat = packets.PayloadFormatString
	}
	if p.Props&2 != 0 {
		m.ContentType = "text/plain"
	}
	if p.Props&4 != 0 {
		m.ResponseTopic = "resp/t"
	}
	if p.Props&8 != 0 {
		m.CorrelationData = []byte{1, 2, 3}
	}
	if p.Props&16 != 0 {
		m.UserProperties = []packets.UserProperty{{K: []byte("k"), V: []byte("v")}, {K: []byte("k"), V: []byte("w")}}
	}
	return m
}

// fillAPIMsg makes m the application message of p by assigning the fields an application would assign.
func fillAPIMsg(m *gmqtt.Message, p c01Pub, uid string) {
	f := apiMsg(p, uid)
	m.Topic, m.QoS, m.Retained, m.Payload = f.Topic, f.QoS, f.Retained, f.Payload
	m.PayloadFormat, m.ContentType, m.ResponseTopic, m.CorrelationData, m.UserProperties = f.PayloadFormat, f.ContentType, f.ResponseTopic, f.CorrelationData, f.UserProperties
}

// expectedDeliveries is the C01 delivery model for one client.
func expectedDeliveries(mode string, subs map[string]subSpec, clientIdx int, pub c01Pub, uid string) (out []delivery, retainAmbiguous bool) {
	var match []subSpec
	for _, s := range subs {
		if s.Group != "" {
			continue
		}
		if !topicref.Match(pub.Topic, s.Filter) {
			continue
		}
		if s.NL && pub.By == clientIdx {
			continue
		}
		match = append(match, s)
	}
	if len(match) == 0 {
		return nil, false
	}
	if mode == "overlap" {
		for _, s := range match {
			d := delivery{UID: uid, QoS: minB(pub.QoS, s.QoS), Retain: pub.Retain && s.RAP}
			if s.ID != 0 {
				d.SubIDs = []uint32{s.ID}
			}
			out = append(out, d)
		}
		return out, false
	}
	d := delivery{UID: uid}
	maxQ := byte(0)
	rap0, rap1 := false, false
	for _, s := range match {
		if s.QoS > maxQ {
			maxQ = s.QoS
		}
		if s.ID != 0 {
			d.SubIDs = append(d.SubIDs, s.ID)
		}
		if s.RAP {
			rap1 = true
		} else {
			rap0 = true
		}
	}
	d.QoS = minB(pub.QoS, maxQ)
	d.Retain = pub.Retain && rap1
	return []delivery{d}, pub.Retain && rap0 && rap1
}

func runC01(s c01Scen, c *ev.Case) *ev.Violation {
	for _, cl := range s.Clients {
		if cl.V == 3 {
			c.Label("mqtt31_client")
			break
		}
	}
	cfg := fixture.BaseConfig()
	cfg.MQTT.DeliveryMode = s.Mode
	cfg, cleanupBackend, bv := withBackend(cfg, s.Redis, c)
	if bv != nil {
		return bv
	}
	defer cleanupBackend()
	b, err := fixture.Start(fixture.Opts{Config: cfg})
	if err != nil {
		return harnessErr("start broker: %v", err)
	}
	defer b.Stop()
	c.Label("mode_" + s.Mode)

	clients := make([]*fixture.Client, len(s.Clients))
	subs := make([]map[string]subSpec, len(s.Clients))
	for i, cs := range s.Clients {
		co := fixture.ConnectOpts{ID: clientName(i), V: ver(cs.V), CleanStart: true, AutoAck: true}
		if cs.V == 5 && cs.RM > 0 {
			// a small in-flight window: the broker has to wait for acknowledgements before it sends the next message
			co.Props = &mw.Props{ReceiveMax: u16p(uint16(cs.RM))}
			c.Label("small_receive_maximum")
		}
		if cs.V == 5 && cs.TAM > 0 {
			if co.Props == nil {
				co.Props = &mw.Props{}
			}
			co.Props.TopicAliasMax = u16p(uint16(cs.TAM))
			co.ResolveAliases = true
		} else if cs.V == 5 && cs.MPS > 0 {
			if co.Props == nil {
				co.Props = &mw.Props{}
			}
			co.Props.MaxPacketSize = u32p(uint32(cs.MPS))
			c.Label("subscriber_with_maximum_packet_size")
			c.Label("subscriber_accepts_topic_aliases")
		}
		cl, ack, err := b.Connect(co)
		if err != nil || ack == nil || ack.ReasonCode != 0 {
			return ev.Violf("C01.connect", "client %d: CONNECT failed: %v %v", i, ack, err)
		}
		defer cl.Kill()
		clients[i] = cl
		if err := subscribeSentinel(cl); err != nil {
			return ev.Violf("C01.suback", "client %d: %v", i, err)
		}
		subs[i] = map[string]subSpec{}
		for j, sp := range cs.Subs {
			code, err := subscribeOne(cl, uint16(100+j), sp)
			if err != nil {
				return ev.Violf("C01.suback", "client %d subscribe %q: %v", i, sp.Filter, err)
			}
			if code != sp.QoS {
				return ev.Violf("C01.suback", "client %d subscribe %q qos %d: granted code %#x", i, sp.Filter, sp.QoS, code)
			}
			subs[i][sp.full()] = sp
		}
	}

	// publish phase by phase; inside a phase every publisher runs in its own goroutine
	type sentRec struct {
		pub c01Pub
		uid string
	}
	var sent []sentRec
	seq := map[int]int{}
	left := make([]bool, len(clients))
	// verify compares what client i received with the delivery model for everything published so far
	nontrivial := false
	verified := make([]bool, len(clients))
	aliasTab := make([]map[uint16]string, len(s.Clients)) // per connection: topic alias -> topic name, as the client binds them
	verify := func(i int) *ev.Violation {
		cl := clients[i]
		if aliasTab[i] == nil {
			aliasTab[i] = map[uint16]string{}
		}

		var want []delivery
		ambiguous := map[string]bool{}
		for _, r := range sent {
			exp, amb := expectedDeliveries(s.Mode, subs[i], i, r.pub, r.uid)
			if mps := s.Clients[i].MPS; mps > 0 && s.Clients[i].V == 5 && s.Clients[i].TAM == 0 {
				// the packet that would carry each copy, as the independent codec encodes it
				eff := r.pub.Props
				if r.pub.By >= 0 && s.Clients[r.pub.By].V != 5 {
					eff = 0
				}
				var fit []delivery
				for _, d := range exp {
					pk := &mw.Packet{Type: mw.PUBLISH, Topic: r.pub.Topic, QoS: d.QoS, Retain: d.Retain, Payload: []byte(d.UID), Props: pubProps(eff)}
					if d.QoS > 0 {
						pk.PacketID = 1
					}
					if len(d.SubIDs) > 0 {
						if pk.Props == nil {
							pk.Props = &mw.Props{}
						} else {
							cp := *pk.Props
							pk.Props = &cp
						}
						pk.Props.SubscriptionIDs = d.SubIDs
					}
					raw, err := mw.Encode(pk, mw.V5)
					if err != nil {
						return harnessErr("encode expected packet: %v", err)
					}
					switch n := len(raw); {
					case n <= mps:
						fit = append(fit, d)
						if n >= mps-3 {
							c.Label("delivery_at_most_3_bytes_below_maximum_packet_size")
						}
						if n == mps {
							c.Label("delivery_exactly_at_maximum_packet_size")
						}
					default:
						c.Label("copy_larger_than_maximum_packet_size")
					}
				}
				exp = fit
			}
			want = append(want, exp...)
			if amb {
				ambiguous[r.uid] = true
			}
			if len(exp) > 0 {
				feat := false
				if len(exp) >= 2 || (s.Mode == "onlyonce" && countMatches(subs[i], r.pub.Topic) >= 2) {
					c.Label("multi_match")
					feat = true
				}
				if exp[0].QoS < r.pub.QoS {
					c.Label("qos_downgrade")
					feat = true
				}
				for _, sp := range subs[i] {
					if topicref.Match(r.pub.Topic, sp.Filter) && strings.ContainsAny(sp.Filter, "+#") {
						c.Label("wildcard_match")
						feat = true
					}
				}
				if feat {
					nontrivial = true
				}
			}
			for _, sp := range subs[i] {
				if sp.NL && r.pub.By == i && topicref.Match(r.pub.Topic, sp.Filter) {
					c.Label("nolocal_exclusion")
					nontrivial = true
				}
			}
		}
		var got []delivery
		lastSeq := map[string]string{}
		for _, r := range cl.Take(func(p *mw.Packet) bool { return p.Type == mw.PUBLISH }) {
			p := r.P
			if isSentinel(p) {
				continue
			}
			if p.Dup {
				return ev.Violf("C01.dup", "client %d received first transmission with DUP=1: %s", i, p)
			}
			d := delivery{UID: string(p.Payload), QoS: p.QoS, Retain: p.Retain}
			if p.Props != nil {
				d.SubIDs = p.Props.SubscriptionIDs
			}
			got = append(got, d)
			if mps := s.Clients[i].MPS; mps > 0 && s.Clients[i].V == 5 && len(p.Raw) > mps {
				return ev.Violf("C01.maximum-packet-size", "client %d declared Maximum Packet Size %d and received a PUBLISH of %d bytes", i, mps, len(p.Raw))
			}
			// the topic the message arrives under (topic aliases resolved as the client would) is the one it was published to
			topic := p.Topic
			if p.Props != nil && p.Props.TopicAlias != nil {
				a := *p.Props.TopicAlias
				if a == 0 || int(a) > s.Clients[i].TAM {
					return ev.Violf("C01.topic-alias", "client %d (Topic Alias Maximum %d) received %s with topic alias %d", i, s.Clients[i].TAM, d.UID, a)
				}
				if topic == "" { // the client's table (fixture) had no binding for it
					return ev.Violf("C01.topic-alias", "client %d received %s with an empty topic name and alias %d, which was never bound on this connection", i, d.UID, a)
				}
				aliasTab[i][a] = topic
				if r.AliasResolved {
					c.Label("topic_alias_resolved")
				}
			}
			for _, r := range sent {
				if r.uid == d.UID && r.pub.Topic != topic {
					return ev.Violf("C01.topic", "client %d received message %s under topic %q, it was published to %q (alias table of the connection: %v)", i, d.UID, topic, r.pub.Topic, aliasTab[i])
				}
			}
			// the application message is forwarded as published: a v5 subscriber sees the publisher's payload format,
			// content type, response topic, correlation data and user properties (in order), and nothing invented
			if s.Clients[i].V == 5 {
				for _, r := range sent {
					if r.uid != d.UID {
						continue
					}
					eff := r.pub.Props
					if r.pub.By >= 0 && s.Clients[r.pub.By].V != 5 {
						eff = 0 // a v3.1.1 publisher cannot attach properties
					}
					if g, w := appProps(p.Props), appProps(pubProps(eff)); g != w {
						return ev.Violf("C01.properties", "client %d received %s with application properties {%s}, published with {%s}", i, d.UID, g, w).With("props", eff)
					}
					if eff != 0 {
						c.Label("properties_forwarded")
					}
				}
			}
			// per-publisher order
			parts := strings.SplitN(d.UID, ":", 2)
			if len(parts) == 2 {
				if last, ok := lastSeq[parts[0]]; ok && parts[1] < last {
					return ev.Violf("C01.order", "client %d received %s after %s:%s from the same publisher", i, d.UID, parts[0], last)
				}
				lastSeq[parts[0]] = parts[1]
			}
		}
		// RETAIN is not asserted where the property is silent (onlyonce with disagreeing RAP)
		strip := func(ds []delivery) []delivery {
			out := make([]delivery, len(ds))
			for k, d := range ds {
				if ambiguous[d.UID] {
					d.Retain = false
				}
				out[k] = d
			}
			return out
		}
		g, w := sortedKeys(strip(got), true), sortedKeys(strip(want), true)
		if !eqStrs(g, w) {
			return ev.Violf("C01.delivery", "client %d (v%d, subs %v) received %v, model expects %v", i, s.Clients[i].V, s.Clients[i].Subs, g, w).
				With("mode", s.Mode, "version", s.Clients[i].V)
		}
		if len(want) > 0 {
			c.Label("has_delivery")
		}
		c.Count("deliveries", len(want))
		verified[i] = true
		return nil
	}
	var reused gmqtt.Message // only the API publisher's goroutine (one per phase, phases are sequential) touches it
	apiReused := 0
	defer func() {
		if apiReused >= 2 {
			c.Label("api_message_object_reused")
		}
	}()
	for pi, ph := range s.Phases {
		by := map[int][]sentRec{}
		var order []int
		for _, p := range ph {
			if p.By >= 0 && left[p.By] {
				continue
			}
			seq[p.By]++
			r := sentRec{p, fmt.Sprintf("%d:%03d", p.By, seq[p.By]) + strings.Repeat(".", p.Pad)}
			if _, ok := by[p.By]; !ok {
				order = append(order, p.By)
			}
			by[p.By] = append(by[p.By], r)
			sent = append(sent, r)
		}
		if len(order) >= 2 {
			c.Label("concurrent_phase")
		}
		var wg sync.WaitGroup
		errs := make(chan *ev.Violation, len(order))
		for _, who := range order {
			wg.Add(1)
			go func(who int, recs []sentRec) {
				defer wg.Done()
				for k, r := range recs {
					if who == -1 {
						if s.APIReuse {
							fillAPIMsg(&reused, r.pub, r.uid)
							b.Srv.Publisher().Publish(&reused)
							apiReused++
						} else {
							b.Srv.Publisher().Publish(apiMsg(r.pub, r.uid))
						}
						continue
					}
					cl := clients[who]
					pk := &mw.Packet{Topic: r.pub.Topic, QoS: r.pub.QoS, Retain: r.pub.Retain, Payload: []byte(r.uid)}
					if r.pub.QoS > 0 {
						pk.PacketID = uint16(1000 + pi*100 + k)
					}
					if cl.V == mw.V5 {
						pk.Props = pubProps(r.pub.Props)
					}
					ack, err := cl.Publish(pk)
					if err != nil {
						errs <- ev.Violf("C01.ack", "publisher %d: QoS%d PUBLISH id=%d %q not acknowledged: %v", who, r.pub.QoS, pk.PacketID, r.pub.Topic, err).With("qos", r.pub.QoS)
						return
					}
					if ack != nil && cl.V == mw.V5 && ack.ReasonCode >= 0x80 {
						errs <- ev.Violf("C01.ack", "publisher %d: PUBLISH %q rejected with reason %#x", who, r.pub.Topic, ack.ReasonCode)
						return
					}
				}
				if who != -1 {
					if err := clients[who].Ping(fixture.DefaultWait); err != nil {
						errs <- ev.Violf("C01.ping", "publisher %d: no PINGRESP after publishing: %v", who, err)
					}
				}
			}(who, by[who])
		}
		wg.Wait()
		select {
		case v := <-errs:
			return v
		default:
		}
		// sessions that end after this phase: everything published so far must have reached them, then they go
		if pi < len(s.Leaves) {
			for _, li := range s.Leaves[pi] {
				if left[li] {
					continue
				}
				if err := sentinelBarrier(b, []*fixture.Client{clients[li]}, fmt.Sprintf("leave%d", pi)); err != nil {
					return ev.Violf("C01.barrier", "%v", err)
				}
				if v := verify(li); v != nil {
					return v
				}
				for k := 0; k < 3; k++ {
					_ = clients[li].Ping(fixture.DefaultWait)
				}
				if pi%2 == 0 {
					clients[li].Disconnect()
				} else {
					b.Srv.ClientService().TerminateSession(clientName(li))
				}
				if !waitSessionGone(b, clientName(li)) {
					return harnessErr("session of client %d still present 5 s after it ended", li)
				}
				left[li] = true
				subs[li] = map[string]subSpec{}
				c.Label("session_ended_between_phases")
			}
		}
	}
	var remaining []*fixture.Client
	for i, cl := range clients {
		if !left[i] {
			remaining = append(remaining, cl)
		}
	}
	if err := sentinelBarrier(b, remaining, "end"); err != nil {
		return ev.Violf("C01.barrier", "%v", err)
	}

	for i := range clients {
		if !verified[i] {
			if v := verify(i); v != nil {
				return v
			}
		}
	}
	if nontrivial {
		c.NonTrivial()
	}
	return nil
}

func countMatches(subs map[string]subSpec, topic string) (n int) {
	for _, s := range subs {
		if s.Group == "" && topicref.Match(topic, s.Filter) {
			n++
		}
	}
	return
}

func TestC01Delivery(t *testing.T) {
	ev.SetRule("C01", "rapid-generated scenario: delivery mode, 1-5 clients (v3.1.1/v5) each with 0-4 subscriptions (filters depth<=3 over {a,b,'',+,#,$x}; QoS, NoLocal, RAP, subscription id in {0,1,127,128,268435455}), 1-3 phases of up to 12 publishes (client or Publisher API; topic, QoS, retain, property mix); publishers of one phase run concurrently; barrier = publisher ack/PINGRESP then API sentinel per client; received multiset per client compared with the delivery model (both directions), per-publisher order, DUP=0, every QoS>0 publish acked. Non-trivial: >=1 expected delivery with wildcard match, multi-match, QoS downgrade or a NoLocal exclusion; distinct by scenario digest.")
	ev.Run(t, "C01", genC01, runC01)
}
