package checks

// C15 — Concurrent use is race-free, deadlock-free and Stop terminates cleanly.
//
// Randomised stress under the race detector (the test binary of this check is built with
// -race; a race report ends the process with exit code 66, which the driver turns into the
// violation, with the report as replay). Schedules are sampled, not enumerated.

import (
	"bufio"
	"context"
	"fmt"
	"net"
	"runtime"
	"strings"
	"sync"
	"sync/atomic"
	"testing"
	"time"

	"github.com/DrmagicE/gmqtt"
	"github.com/DrmagicE/gmqtt/persistence/subscription"
	"github.com/DrmagicE/gmqtt/server"
	"pgregory.net/rapid"

	"verif/ev"
	"verif/fixture"
	mw "verif/mqttwire"
)

type c15Op struct {
	Op  string `json:"op"` // sub pub unsub ping reconnect takeover disconnect hold
	QoS byte   `json:"q,omitempty"`
	T   int    `json:"t,omitempty"`
}

type c15Client struct {
	ID     int     `json:"id"` // index into a pool of 5 client ids: equal ids make take-over storms
	V      int     `json:"v"`
	Clean  bool    `json:"clean"`
	Will   int     `json:"will"` // 0 none, 1 immediate, 2 delayed 1 s
	NoAck  bool    `json:"noack"`
	Script []c15Op `json:"script"`
}

type c15API struct {
	Script []string `json:"script"` // publish subscribe unsubscribe iterate terminate iterclients stats getclient
}

type c15Scen struct {
	Clients  []c15Client `json:"clients"`
	APIs     []c15API    `json:"apis"`
	Idle     int         `json:"idle_sockets"`     // connections that never send CONNECT
	BadAuth  int         `json:"bad_auth"`         // connections whose CONNECT is rejected and which stay open
	Stalled  int         `json:"stalled_reader_v"` // 0 none; 4/5: a subscriber of that version stops reading, is flooded, then taken over
	StopAt   int         `json:"stop_at_pct"`      // Stop when this share of the client operations is done (100 = after the workload)
	MaxProcs int         `json:"gomaxprocs"`
	// AcceptDelayUs: an OnAccept hook that takes this long (a user hook may be slow); LateDials connections are opened
	// while Stop is running - each must end up closed, whether it was refused, or accepted and then shut down
	AcceptDelayUs int `json:"accept_delay_us,omitempty"`
	LateDials     int `json:"late_dials,omitempty"`
	// TightQueue > 0: max_queued_messages = TightQueue, max_inflight 2, inflight_expiry 20 ms - queues overflow all the time,
	// also those of offline sessions that still hold unacknowledged (soon expired) inflight messages
	TightQueue int `json:"tight_queue,omitempty"`
	// Overlap: delivery_mode overlap (one copy per matching subscription, queued while the subscription index is being
	// walked) instead of the default onlyonce
	Overlap bool `json:"overlap,omitempty"`
	// StatsPoll: a goroutine reads the global and per-client statistics continuously (an exporter / admin API polling);
	// every single read must return within the usual bound
	StatsPoll bool `json:"stats_poll,omitempty"`
	// StalledInflight (0 none, 4/5 = protocol version): a persistent subscriber gets more QoS 1 messages in flight (14 x 100 KiB, max_inflight 20) than the
	// connection's output channel and the transport buffers, never reads, is killed; it resumes the session, reads only the CONNACK while the broker is
	// retransmitting into the full pipe, is killed again; a third CONNECT with the client id must be answered
	StalledInflight int `json:"stalled_inflight_v,omitempty"`
}

// c15Pipelined counts DISCONNECTs with packets behind them (label only).
var c15Pipelined atomic.Int64

var c15Topics = []string{"c/a", "c/b", "c/a/x", "$sys/z"}
var c15Filters = []string{"c/a", "c/+", "c/#", "#", "$share/g/c/a", "$sys/#"}

func genC15(t *rapid.T) c15Scen {
	s := c15Scen{Idle: rapid.IntRange(0, 2).Draw(t, "idle"), BadAuth: rapid.IntRange(0, 2).Draw(t, "bad"),
		StopAt: rapid.SampledFrom([]int{30, 60, 100, 100}).Draw(t, "stopat"), MaxProcs: rapid.SampledFrom([]int{2, 4, 16}).Draw(t, "procs"),
		Stalled:       rapid.SampledFrom([]int{0, 0, 0, 4, 5}).Draw(t, "stalled"),
		AcceptDelayUs: rapid.SampledFrom([]int{0, 0, 200, 2000}).Draw(t, "accept_delay"), LateDials: rapid.SampledFrom([]int{0, 3, 8}).Draw(t, "late_dials"),
		TightQueue: rapid.SampledFrom([]int{0, 0, 3, 4}).Draw(t, "tight_queue"), Overlap: rapid.Bool().Draw(t, "overlap"), StatsPoll: rapid.Bool().Draw(t, "stats_poll"),
		StalledInflight: rapid.SampledFrom([]int{0, 0, 4, 5}).Draw(t, "stalled_inflight")}
	n := rapid.IntRange(4, 12).Draw(t, "nclients")
	for i := 0; i < n; i++ {
		cl := c15Client{ID: rapid.IntRange(0, 4).Draw(t, "id"), V: rapid.SampledFrom([]int{4, 5}).Draw(t, "v"), Clean: rapid.Bool().Draw(t, "clean"),
			Will: rapid.SampledFrom([]int{0, 0, 1, 2}).Draw(t, "will"), NoAck: rapid.IntRange(0, 4).Draw(t, "noack") == 0}
		k := rapid.IntRange(2, 12).Draw(t, "nops")
		for j := 0; j < k; j++ {
			op := c15Op{Op: rapid.SampledFrom([]string{"sub", "sub", "pub", "pub", "pub", "unsub", "ping", "reconnect", "takeover", "disconnect"}).Draw(t, "op"),
				QoS: byte(rapid.IntRange(0, 2).Draw(t, "q")), T: rapid.IntRange(0, 5).Draw(t, "t")}
			cl.Script = append(cl.Script, op)
		}
		s.Clients = append(s.Clients, cl)
	}
	na := rapid.IntRange(1, 3).Draw(t, "napis")
	for i := 0; i < na; i++ {
		var a c15API
		k := rapid.IntRange(3, 15).Draw(t, "nops")
		for j := 0; j < k; j++ {
			a.Script = append(a.Script, rapid.SampledFrom([]string{"publish", "publish", "subscribe", "unsubscribe", "iterate", "terminate", "iterclients", "stats", "getclient"}).Draw(t, "api"))
		}
		s.APIs = append(s.APIs, a)
	}
	return s
}

type c15Plugin struct {
	unload, onStop int32
}

func (p *c15Plugin) Load(service server.Server) error { return nil }
func (p *c15Plugin) Unload() error                    { atomic.AddInt32(&p.unload, 1); return nil }
func (p *c15Plugin) Name() string                     { return "c15mock" }
func (p *c15Plugin) HookWrapper() server.HookWrapper {
	return server.HookWrapper{OnStopWrapper: func(next server.OnStop) server.OnStop {
		return func(ctx context.Context) {
			atomic.AddInt32(&p.onStop, 1)
			next(ctx)
		}
	}}
}

const c15Wait = 10 * time.Second

func runC15(s c15Scen, c *ev.Case) *ev.Violation {
	old := runtime.GOMAXPROCS(s.MaxProcs)
	defer runtime.GOMAXPROCS(old)
	cfg := fixture.BaseConfig()
	cfg.MQTT.MaxQueuedMsg = 20
	cfg.MQTT.MaxInflight = 5
	if s.StalledInflight != 0 {
		// room for more in-flight messages than the connection's output channel (8) and the transport buffers hold
		cfg.MQTT.MaxQueuedMsg = 40
		cfg.MQTT.MaxInflight = 20
	}
	if s.Overlap {
		cfg.MQTT.DeliveryMode = "overlap"
		c.Label("delivery_mode_overlap")
	}
	if s.TightQueue > 0 && s.StalledInflight == 0 {
		cfg.MQTT.MaxQueuedMsg = s.TightQueue
		cfg.MQTT.MaxInflight = 2
		cfg.MQTT.InflightExpiry = 20 * time.Millisecond
		c.Label("tight_queue")
	}
	plg := &c15Plugin{}
	var mu sync.Mutex
	var panics []string
	hooks := &server.Hooks{
		OnAccept: func(ctx context.Context, conn net.Conn) bool {
			if s.AcceptDelayUs > 0 {
				time.Sleep(time.Duration(s.AcceptDelayUs) * time.Microsecond)
			}
			return true
		},
		OnBasicAuth: func(ctx context.Context, client server.Client, req *server.ConnectRequest) error {
			if string(req.Connect.Username) == "bad" {
				return fmt.Errorf("bad user")
			}
			return nil
		},
		OnClosed: func(ctx context.Context, client server.Client, err error) {
			if err != nil && (strings.Contains(err.Error(), "runtime error") || strings.Contains(err.Error(), "nil pointer") || strings.Contains(err.Error(), "out of range") || strings.Contains(err.Error(), "closed channel")) {
				mu.Lock()
				panics = append(panics, err.Error())
				mu.Unlock()
			}
		},
	}
	b, err := fixture.Start(fixture.Opts{Config: cfg, Hooks: hooks, Plugins: []server.Plugin{plg}})
	if err != nil {
		return harnessErr("start broker: %v", err)
	}
	var stopping atomic.Bool
	var viol atomic.Pointer[ev.Violation]
	report := func(v *ev.Violation) { viol.CompareAndSwap(nil, v) }
	totalOps := 0
	for _, cl := range s.Clients {
		totalOps += len(cl.Script)
	}
	var doneOps atomic.Int64
	var connsMu sync.Mutex
	var conns []*fixture.Client
	track := func(cl *fixture.Client) {
		connsMu.Lock()
		conns = append(conns, cl)
		connsMu.Unlock()
	}
	// a request is "answered" when the expected packet arrives or the connection is closed
	answered := func(cl *fixture.Client, what string, pred func(*mw.Packet) bool) bool {
		_, err := cl.WaitFor(pred, c15Wait)
		if err == nil || err == fixture.ErrClosed {
			return err == nil
		}
		if closed, _ := cl.Closed(); closed {
			return false
		}
		report(ev.Violf("C15.unanswered", "%s on client %q was neither answered nor was the connection closed within %v\n%s", what, cl.ID, c15Wait, brokerGoroutines()).With("request", what, "stopping", stopping.Load()))
		return false
	}
	connect := func(spec c15Client, clean bool) *fixture.Client {
		conn, err := b.DialConn()
		if err != nil {
			return nil // listener closed by Stop
		}
		id := fmt.Sprintf("id%d", spec.ID)
		cl := fixture.NewClient(conn, id, ver(spec.V))
		track(cl)
		name, lvl := mw.ProtoFor(ver(spec.V))
		p := &mw.Packet{Type: mw.CONNECT, ProtoName: name, ProtoLevel: lvl, ClientID: id, CleanStart: clean}
		if spec.V == 5 {
			p.Props = &mw.Props{SessionExpiry: u32p(30)}
		}
		if spec.Will > 0 {
			p.Will = &mw.Will{Topic: "c/will", QoS: 1, Payload: []byte("w")}
			if spec.V == 5 && spec.Will == 2 {
				p.Will.Props = &mw.Props{WillDelay: u32p(1)}
			}
		}
		if !spec.NoAck {
			cl.SetAutoAck(true)
		}
		if cl.Send(p) != nil {
			return nil
		}
		if !answered(cl, "CONNECT", func(p *mw.Packet) bool { return p.Type == mw.CONNACK }) {
			return nil
		}
		return cl
	}
	var wg sync.WaitGroup
	for ci, spec := range s.Clients {
		wg.Add(1)
		go func(ci int, spec c15Client) {
			defer wg.Done()
			cl := connect(spec, spec.Clean)
			pid := uint16(0)
			for _, op := range spec.Script {
				if viol.Load() != nil {
					return
				}
				if cl == nil {
					if stopping.Load() {
						doneOps.Add(1)
						continue
					}
					cl = connect(spec, false)
					if cl == nil {
						doneOps.Add(1)
						continue
					}
				}
				pid++
				switch op.Op {
				case "sub":
					f := c15Filters[op.T%len(c15Filters)]
					if spec.V != 5 && strings.HasPrefix(f, "$share/") {
						f = "c/a"
					}
					if cl.Send(&mw.Packet{Type: mw.SUBSCRIBE, PacketID: pid, Subs: []mw.SubReq{{Filter: f, QoS: op.QoS}}}) == nil {
						answered(cl, "SUBSCRIBE", func(p *mw.Packet) bool { return p.Type == mw.SUBACK && p.PacketID == pid })
					}
				case "unsub":
					if cl.Send(&mw.Packet{Type: mw.UNSUBSCRIBE, PacketID: pid, Filters: []string{c15Filters[op.T%len(c15Filters)]}}) == nil {
						answered(cl, "UNSUBSCRIBE", func(p *mw.Packet) bool { return p.Type == mw.UNSUBACK && p.PacketID == pid })
					}
				case "pub":
					pk := &mw.Packet{Type: mw.PUBLISH, Topic: c15Topics[op.T%len(c15Topics)], QoS: op.QoS, Payload: []byte(fmt.Sprintf("p%d-%d", ci, pid)), Retain: op.T == 5}
					if op.QoS > 0 {
						pk.PacketID = pid
					}
					if cl.Send(pk) != nil {
						break
					}
					switch op.QoS {
					case 1:
						answered(cl, "PUBLISH QoS1", func(p *mw.Packet) bool { return p.Type == mw.PUBACK && p.PacketID == pid })
					case 2:
						if answered(cl, "PUBLISH QoS2", func(p *mw.Packet) bool { return p.Type == mw.PUBREC && p.PacketID == pid }) {
							if cl.Send(&mw.Packet{Type: mw.PUBREL, PacketID: pid}) == nil {
								answered(cl, "PUBREL", func(p *mw.Packet) bool { return p.Type == mw.PUBCOMP && p.PacketID == pid })
							}
						}
					}
				case "ping":
					if cl.Send(&mw.Packet{Type: mw.PINGREQ}) == nil {
						answered(cl, "PINGREQ", func(p *mw.Packet) bool { return p.Type == mw.PINGRESP })
					}
				case "reconnect":
					cl.Kill()
					cl = nil
				case "takeover":
					// a second connection with the same id while this one is still attached
					c2 := connect(spec, op.T%2 == 0)
					if c2 != nil {
						cl = c2
					}
				case "disconnect":
					if op.T%3 == 0 {
						// a client that writes more packets behind its DISCONNECT (in one piece) and leaves the
						// socket open: the broker has to get rid of the connection on its own
						raw, _ := mw.Encode(&mw.Packet{Type: mw.DISCONNECT}, cl.V)
						ping, _ := mw.Encode(&mw.Packet{Type: mw.PINGREQ}, cl.V)
						for k := 0; k < 6+4*op.T; k++ {
							raw = append(raw, ping...)
						}
						_ = cl.SendRaw(raw)
						c15Pipelined.Add(1)
						cl = nil // stays open and tracked: it must read EOF after Stop at the latest
						break
					}
					_ = cl.Send(&mw.Packet{Type: mw.DISCONNECT})
					cl.Kill()
					cl = nil
				}
				if cl != nil {
					if closed, _ := cl.Closed(); closed {
						cl = nil
					}
				}
				doneOps.Add(1)
			}
		}(ci, spec)
	}
	// sockets that never CONNECT, and rejected CONNECTs that stay open
	for i := 0; i < s.Idle; i++ {
		if conn, err := b.DialConn(); err == nil {
			cl := fixture.NewClient(conn, "idle", mw.V311)
			track(cl)
			if i%2 == 1 {
				_ = cl.SendRaw([]byte{0x10}) // a CONNECT that never completes
			}
		}
	}
	for i := 0; i < s.BadAuth; i++ {
		if conn, err := b.DialConn(); err == nil {
			cl := fixture.NewClient(conn, "badauth", mw.V5)
			track(cl)
			name, lvl := mw.ProtoFor(mw.V5)
			_ = cl.Send(&mw.Packet{Type: mw.CONNECT, ProtoName: name, ProtoLevel: lvl, ClientID: fmt.Sprintf("bad%d", i), CleanStart: true, HasUsername: true, Username: "bad"})
		}
	}
	// a subscriber that stops reading while data is queued for it, then a second connection with its client id
	stalledDone := make(chan struct{})
	if s.Stalled == 0 {
		close(stalledDone)
	}
	if s.Stalled != 0 {
		c.Label("stalled_reader_takeover")
		wg.Add(1)
		go func() {
			defer wg.Done()
			defer close(stalledDone)
			conn, err := b.DialConn()
			if err != nil {
				return
			}
			defer conn.Close()
			v := ver(s.Stalled)
			name, lvl := mw.ProtoFor(v)
			br := bufio.NewReader(conn)
			send := func(p *mw.Packet) bool {
				raw, err := mw.Encode(p, v)
				if err != nil {
					return false
				}
				_ = conn.SetWriteDeadline(time.Now().Add(c15Wait))
				_, err = conn.Write(raw)
				return err == nil
			}
			read := func(t mw.Type) bool {
				_ = conn.SetReadDeadline(time.Now().Add(c15Wait))
				for {
					p, err := mw.ReadPacket(br, v, mw.ToClient)
					if err != nil {
						return false
					}
					if p.Type == t {
						return true
					}
				}
			}
			cp := &mw.Packet{Type: mw.CONNECT, ProtoName: name, ProtoLevel: lvl, ClientID: "stalled", CleanStart: true}
			if s.Stalled == 5 {
				cp.Props = &mw.Props{SessionExpiry: u32p(30)}
			}
			if !send(cp) || !read(mw.CONNACK) {
				return
			}
			if !send(&mw.Packet{Type: mw.SUBSCRIBE, PacketID: 1, Subs: []mw.SubReq{{Filter: "flood", QoS: 0}}}) || !read(mw.SUBACK) {
				return
			}
			// from here on the client does not read any more
			big := make([]byte, 48*1024)
			for k := 0; k < 24; k++ {
				b.Srv.Publisher().Publish(&gmqtt.Message{Topic: "flood", QoS: 0, Payload: big})
			}
			time.Sleep(30 * time.Millisecond)
			// take-over: must be answered although the old connection's writer is stuck
			c2, err := b.DialConn()
			if err != nil {
				return
			}
			cl2 := fixture.NewClient(c2, "stalled", v)
			track(cl2)
			cp2 := &mw.Packet{Type: mw.CONNECT, ProtoName: name, ProtoLevel: lvl, ClientID: "stalled", CleanStart: false, Props: cp.Props}
			if cl2.Send(cp2) == nil {
				answered(cl2, "CONNECT taking over a stalled client", func(p *mw.Packet) bool { return p.Type == mw.CONNACK })
			}
		}()
	}
	stalledInflightDone := make(chan struct{})
	if s.StalledInflight == 0 {
		close(stalledInflightDone)
	} else {
		c.Label("stalled_reader_with_inflight_resumed_and_killed")
		wg.Add(1)
		go func() {
			defer wg.Done()
			defer close(stalledInflightDone)
			v := ver(s.StalledInflight)
			name, lvl := mw.ProtoFor(v)
			dial := func(clean bool) (net.Conn, *bufio.Reader, bool) {
				conn, err := b.DialConn()
				if err != nil {
					return nil, nil, false
				}
				cp := &mw.Packet{Type: mw.CONNECT, ProtoName: name, ProtoLevel: lvl, ClientID: "stalledq", CleanStart: clean}
				if s.StalledInflight == 5 {
					cp.Props = &mw.Props{SessionExpiry: u32p(30)}
				}
				raw, _ := mw.Encode(cp, v)
				_ = conn.SetWriteDeadline(time.Now().Add(c15Wait))
				if _, err := conn.Write(raw); err != nil {
					conn.Close()
					return nil, nil, false
				}
				br := bufio.NewReader(conn)
				_ = conn.SetReadDeadline(time.Now().Add(c15Wait))
				p, err := mw.ReadPacket(br, v, mw.ToClient)
				if err != nil || p.Type != mw.CONNACK {
					conn.Close()
					return nil, nil, false
				}
				return conn, br, true
			}
			// v3: Clean Session 0 from the start makes the session persistent
			a, abr, ok := dial(s.StalledInflight == 5)
			if !ok {
				return
			}
			raw, _ := mw.Encode(&mw.Packet{Type: mw.SUBSCRIBE, PacketID: 1, Subs: []mw.SubReq{{Filter: "$floodq/x", QoS: 1}}}, v)
			if _, err := a.Write(raw); err != nil {
				a.Close()
				return
			}
			_ = a.SetReadDeadline(time.Now().Add(c15Wait))
			if p, err := mw.ReadPacket(abr, v, mw.ToClient); err != nil || p.Type != mw.SUBACK {
				a.Close()
				return
			}
			big := make([]byte, 100*1024)
			for k := 0; k < 14; k++ {
				b.Srv.Publisher().Publish(&gmqtt.Message{Topic: "$floodq/x", QoS: 1, Payload: big})
			}
			time.Sleep(30 * time.Millisecond)
			a.Close() // killed without having read or acknowledged anything
			time.Sleep(5 * time.Millisecond)
			bconn, _, ok := dial(false) // resumes: the broker retransmits the in-flight messages into a pipe nobody reads
			if !ok {
				return
			}
			time.Sleep(300 * time.Millisecond)
			bconn.Close() // killed again
			c3, err := b.DialConn()
			if err != nil {
				return
			}
			cl3 := fixture.NewClient(c3, "stalledq", v)
			track(cl3)
			cp3 := &mw.Packet{Type: mw.CONNECT, ProtoName: name, ProtoLevel: lvl, ClientID: "stalledq", CleanStart: true}
			if cl3.Send(cp3) == nil {
				answered(cl3, "CONNECT after a resumed, non-reading connection with in-flight messages was killed", func(p *mw.Packet) bool { return p.Type == mw.CONNACK })
			}
		}()
	}
	if s.StatsPoll {
		c.Label("statistics_polled")
		wg.Add(1)
		go func() {
			defer wg.Done()
			for k := 0; viol.Load() == nil && !stopping.Load(); k++ {
				done := make(chan struct{})
				go func() {
					defer close(done)
					_ = b.Srv.StatsManager().GetGlobalStats()
					_, _ = b.Srv.StatsManager().GetClientStats(fmt.Sprintf("id%d", k%5))
				}()
				select {
				case <-done:
				case <-time.After(c15Wait):
					report(ev.Violf("C15.api-blocked", "reading the statistics did not return within %v\n%s", c15Wait, brokerGoroutines()).With("api", "stats_poll"))
					return
				}
				time.Sleep(500 * time.Microsecond)
			}
		}()
	}
	// API goroutines
	for ai, a := range s.APIs {
		wg.Add(1)
		go func(ai int, a c15API) {
			defer wg.Done()
			for k, op := range a.Script {
				if viol.Load() != nil || stopping.Load() {
					return
				}
				done := make(chan struct{})
				go func() {
					defer close(done)
					defer func() {
						// a panic that reaches the application through an API call (the broker lock may stay held)
						if r := recover(); r != nil {
							report(ev.Violf("C15.panic", "API call %q panicked: %v", op, r).With("api", op))
						}
					}()
					id := fmt.Sprintf("id%d", (ai+k)%5)
					switch op {
					case "publish":
						b.Srv.Publisher().Publish(&gmqtt.Message{Topic: c15Topics[k%len(c15Topics)], QoS: byte(k % 3), Payload: []byte("api")})
					case "subscribe":
						_, _ = b.Srv.SubscriptionService().Subscribe(id, &gmqtt.Subscription{TopicFilter: "c/api", QoS: 1})
					case "unsubscribe":
						_ = b.Srv.SubscriptionService().Unsubscribe(id, "c/api")
					case "iterate":
						b.Srv.SubscriptionService().Iterate(func(string, *gmqtt.Subscription) bool { return true }, subscription.IterationOptions{Type: subscription.TypeAll})
					case "terminate":
						b.Srv.ClientService().TerminateSession(id)
					case "iterclients":
						b.Srv.ClientService().IterateClient(func(server.Client) bool { return true })
					case "stats":
						_ = b.Srv.StatsManager().GetGlobalStats()
						_, _ = b.Srv.StatsManager().GetClientStats(id)
					case "getclient":
						_ = b.Srv.ClientService().GetClient(id)
					}
				}()
				select {
				case <-done:
				case <-time.After(c15Wait):
					report(ev.Violf("C15.api-blocked", "API call %q did not return within %v\n%s", op, c15Wait, brokerGoroutines()).With("api", op))
					return
				}
			}
		}(ai, a)
	}
	// Stop at the generated point
	for int(doneOps.Load())*100 < totalOps*s.StopAt && viol.Load() == nil {
		time.Sleep(500 * time.Microsecond)
	}
	if s.StopAt < 100 {
		c.Label("stop_mid_workload")
	}
	if c15Pipelined.Swap(0) > 0 {
		c.Label("disconnect_with_trailing_packets")
	}
	// the take-over of the stalled reader is part of the workload that must be answered: wait for its verdict
	select {
	case <-stalledDone:
	case <-time.After(2*c15Wait + 5*time.Second):
	}
	select {
	case <-stalledInflightDone:
	case <-time.After(3*c15Wait + 5*time.Second):
	}
	stopping.Store(true)
	stopErr := make(chan error, 1)
	t0 := time.Now()
	if s.LateDials > 0 {
		c.Label("connections_opened_during_stop")
		wg.Add(1)
		go func() {
			defer wg.Done()
			name, lvl := mw.ProtoFor(mw.V311)
			for k := 0; k < s.LateDials; k++ {
				conn, err := b.DialConn()
				if err != nil {
					return // the listener is closed
				}
				cl := fixture.NewClient(conn, fmt.Sprintf("late%d", k), mw.V311)
				track(cl)
				_ = cl.Send(&mw.Packet{Type: mw.CONNECT, ProtoName: name, ProtoLevel: lvl, ClientID: cl.ID, CleanStart: true})
				time.Sleep(100 * time.Microsecond)
			}
		}()
	}
	go func() { stopErr <- b.StopWithin(c15Wait) }()
	var serr error
	select {
	case serr = <-stopErr:
	case <-time.After(c15Wait + 3*time.Second):
		serr = fixture.ErrStopTimeout
	}
	if serr != nil && viol.Load() == nil {
		report(ev.Violf("C15.stop", "Stop did not return cleanly within %v: %v\n%s", c15Wait, serr, brokerGoroutines()).With("stop_at", s.StopAt))
	}
	stopTook := time.Since(t0)
	wg.Wait()
	if v := viol.Load(); v != nil {
		connsMu.Lock()
		for _, cl := range conns {
			cl.Kill()
		}
		connsMu.Unlock()
		return v
	}
	c.Count("stop_ms", int(stopTook.Milliseconds()))
	mu.Lock()
	if len(panics) > 0 {
		p := panics[0]
		mu.Unlock()
		return ev.Violf("C15.panic", "the broker recovered a panic: %s", p)
	}
	mu.Unlock()
	// after Stop: listener closed, every socket sees EOF, Unload and OnStop ran exactly once
	if conn, err := b.DialConn(); err == nil {
		probe := fixture.NewClient(conn, "late", mw.V311)
		name, lvl := mw.ProtoFor(mw.V311)
		_ = probe.Send(&mw.Packet{Type: mw.CONNECT, ProtoName: name, ProtoLevel: lvl, ClientID: "late", CleanStart: true})
		if _, err := probe.WaitType(mw.CONNACK, 300*time.Millisecond); err == nil {
			probe.Kill()
			return ev.Violf("C15.listener-open", "a new connection was accepted and acknowledged after Stop returned")
		}
		probe.Kill()
	}
	if u, o := atomic.LoadInt32(&plg.unload), atomic.LoadInt32(&plg.onStop); u != 1 || o != 1 {
		return ev.Violf("C15.stop-hooks", "after Stop: plugin Unload ran %d times, OnStop ran %d times (expected 1 and 1)", u, o)
	}
	connsMu.Lock()
	all := append([]*fixture.Client(nil), conns...)
	connsMu.Unlock()
	sameIDStorm := map[int]int{}
	for _, cl := range s.Clients {
		sameIDStorm[cl.ID]++
	}
	for _, n := range sameIDStorm {
		if n >= 2 {
			c.Label("same_id_clients")
			break
		}
	}
	if s.Idle > 0 {
		c.Label("never_connect_sockets")
	}
	if s.BadAuth > 0 {
		c.Label("rejected_connect_sockets")
	}
	open := 0
	var openID string
	for _, cl := range all {
		// the client has to read whatever was still in the pipe before it sees the end of the stream (a flooded
		// connection holds about a megabyte; on an overloaded machine that took more than 2 s once)
		if !cl.WaitClosed(10 * time.Second) {
			open++
			openID = cl.ID
		}
	}
	defer func() {
		for _, cl := range all {
			cl.Kill()
		}
	}()
	if open > 0 {
		kf := "F-stop-preauth-connections"
		if (openID == "idle" || openID == "badauth") && ev.KF(kf) {
			c.Excluded(kf)
		} else {
			return ev.Violf("C15.connection-open-after-stop", "%d connection(s) still open 10 s after Stop returned (e.g. %q)", open, openID).With("kind", openID)
		}
	}
	// goroutines: after a grace period for delayed wills (1 s) nothing of the broker may be running
	deadline := time.Now().Add(2500 * time.Millisecond)
	var leak string
	for {
		leak = ""
		buf := make([]byte, 1<<20)
		buf = buf[:runtime.Stack(buf, true)]
		for _, g := range strings.Split(string(buf), "\n\n") {
			if strings.Contains(g, "gmqtt/server.(*client).") || strings.Contains(g, "gmqtt/server.(*server).") {
				leak = g
				break
			}
		}
		if leak == "" || time.Now().After(deadline) {
			break
		}
		time.Sleep(50 * time.Millisecond)
	}
	if leak != "" {
		lines := strings.Split(leak, "\n")
		if len(lines) > 16 {
			lines = lines[:16]
		}
		pre := strings.Contains(leak, "connectWithTimeOut") || open > 0
		if pre && ev.KF("F-stop-preauth-connections") {
			c.Excluded("F-stop-preauth-connections")
		} else {
			return ev.Violf("C15.goroutine-leak", "a broker goroutine is still running 2.5 s after Stop returned:\n%s", strings.Join(lines, "\n")).With("preauth", pre)
		}
	}
	if len(s.Clients) >= 3 && len(s.APIs) >= 1 {
		c.NonTrivial()
	}
	return nil
}

func TestC15Stress(t *testing.T) {
	ev.SetRule("C15", "randomised stress under -race: 4-12 scripted clients over a pool of 5 client ids (same-id take-over storms), v3.1.1/v5, clean or not, wills (immediate / 1 s delay), acknowledging or not, scripts of subscribe / publish QoS0-2 / unsubscribe / ping / kill+reconnect / take-over / disconnect; 0-2 sockets that never CONNECT, 0-2 rejected CONNECTs that stay open; 1-3 API goroutines (Publisher.Publish, SubscriptionService.Subscribe/Unsubscribe/Iterate, ClientService.TerminateSession/IterateClient/GetClient, statistics reads); GOMAXPROCS 2/4/16; an OnAccept hook taking 0/0.2/2 ms; Stop after 30/60/100 % of the client operations, with 0/3/8 further connections opened while Stop is running. Oracles: no race report, no recovered panic, every request answered or its connection closed within 10 s, every API call returns within 10 s, Stop returns nil within 10 s, then no new connection is served, every socket reads EOF within 2 s, plugin Unload and OnStop ran exactly once, and 2.5 s later no goroutine has a gmqtt/server.(*client) or (*server) frame. Non-trivial: >=3 clients and >=1 API goroutine; schedules are sampled.")
	ev.Run(t, "C15", genC15, runC15)
}
