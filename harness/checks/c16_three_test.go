package checks

// C16 in a federation of three nodes, without stream faults.
//
// The property is pairwise ("between two federated nodes"), but a node keeps one event queue per
// peer, each with its own identifier sequence. With a single peer those sequences cannot differ;
// with two peers they drift apart as soon as a message is forwarded to one peer only (non-retained
// messages go only to the peers that subscribed). Events that go to every peer (subscribe,
// unsubscribe, the unsubscribes of a session that ends, retained messages) are then emitted while
// the per-peer sequences differ. For every ordered pair (i, j) the property must still hold:
// j applies every event of i exactly once and in order, and once the streams are quiet j's view of
// i's subscriptions equals i's actual local subscription set.
//
// Oracle: model of every node's local subscription set (filters with at least one local
// subscriber); before every publish and at the end the views of all six ordered pairs must
// converge to the model (15 s bound; a membership flap discards the case); every forwarded message
// is received by the recorder it is addressed to exactly once and in per-source order; every
// retained message ends up in every node's retained store.

import (
	"fmt"
	"sort"
	"strings"
	"testing"
	"time"

	"github.com/DrmagicE/gmqtt"
	"pgregory.net/rapid"

	"verif/ev"
	"verif/fixture"
	mw "verif/mqttwire"
)

type c16tOp struct {
	Op   string `json:"op"` // sub unsub end pub tpub retain flap
	Node int    `json:"n"`
	K    int    `json:"k,omitempty"`  // sub/unsub/tpub: filter t/K; retain: topic r/<node>/K
	To   int    `json:"to,omitempty"` // pub: only node To subscribes the topic
	N    int    `json:"cnt,omitempty"`
}

type c16tScen struct {
	Ops []c16tOp `json:"ops"`
}

func genC16Three(t *rapid.T) c16tScen {
	var s c16tScen
	n := rapid.IntRange(6, 30).Draw(t, "nops")
	for i := 0; i < n; i++ {
		node := rapid.IntRange(0, 2).Draw(t, "node")
		switch k := rapid.IntRange(0, 11).Draw(t, "kind"); {
		case k <= 3:
			// a message for exactly one other node: the source's two identifier sequences drift apart
			s.Ops = append(s.Ops, c16tOp{Op: "pub", Node: node, To: (node + 1 + rapid.IntRange(0, 1).Draw(t, "to")) % 3, N: rapid.IntRange(1, 4).Draw(t, "cnt")})
		case k <= 6:
			s.Ops = append(s.Ops, c16tOp{Op: "sub", Node: node, K: rapid.IntRange(0, 3).Draw(t, "k")})
		case k == 7:
			s.Ops = append(s.Ops, c16tOp{Op: "unsub", Node: node, K: rapid.IntRange(0, 3).Draw(t, "k")})
		case k == 8:
			s.Ops = append(s.Ops, c16tOp{Op: "end", Node: node})
		case k == 9 && rapid.Bool().Draw(t, "flap"):
			// node `node` is told (by its failure detector) that node `to` failed and came back; `to` itself notices nothing
			s.Ops = append(s.Ops, c16tOp{Op: "flap", Node: node, To: (node + 1 + rapid.IntRange(0, 1).Draw(t, "to")) % 3})
		case k == 9:
			s.Ops = append(s.Ops, c16tOp{Op: "retain", Node: node, K: rapid.IntRange(0, 1).Draw(t, "k")})
		default:
			s.Ops = append(s.Ops, c16tOp{Op: "tpub", Node: node, K: rapid.IntRange(0, 3).Draw(t, "k")})
		}
	}
	return s
}

func runC16Three(s c16tScen, c *ev.Case) (out *ev.Violation) {
	cluster, err := fixture.StartFedCluster(3, nil)
	if err != nil {
		return harnessErr("start cluster: %v", err)
	}
	nodes := cluster.Nodes
	var clients []*fixture.Client
	nontrivial := false
	defer func() {
		for _, cl := range clients {
			cl.Kill()
		}
		stopFedLater(cluster.StopQuietly)
	}()
	if err := cluster.WaitMesh(15 * time.Second); err != nil {
		return harnessErr("mesh: %v", err)
	}
	w := watchFedPeers(nodes...)
	defer func() {
		if w == nil {
			return
		}
		w.close()
		if bad, why := w.flapped(); bad {
			c.Logf("membership disturbed: %s (verdict %v discarded)", why, out)
			c.Count("membership_flap_inconclusive", 1)
			out = nil
		} else if nontrivial {
			c.NonTrivial()
		}
	}()

	local := make([]map[string]int, 3) // node -> filter -> local subscribers
	dyn := make([]map[string]bool, 3)  // node -> dynamic filters of its "s" client
	subs := make([]*fixture.Client, 3)
	recs := make([]*fixture.Client, 3)
	pubs := make([]*fixture.Client, 3)
	pid := uint16(100)
	connect := func(i int, id string) (*fixture.Client, *ev.Violation) {
		cl, ack, err := nodes[i].Connect(fixture.ConnectOpts{ID: id, V: mw.V5, CleanStart: true, AutoAck: true})
		if err != nil || ack.ReasonCode != 0 {
			return nil, harnessErr("connect %s: %v %v", id, ack, err)
		}
		clients = append(clients, cl)
		return cl, nil
	}
	for i := range nodes {
		local[i], dyn[i] = map[string]int{}, map[string]bool{}
		var v *ev.Violation
		if subs[i], v = connect(i, fmt.Sprintf("n%ds", i)); v != nil {
			return v
		}
		if recs[i], v = connect(i, fmt.Sprintf("n%dr", i)); v != nil {
			return v
		}
		if pubs[i], v = connect(i, fmt.Sprintf("n%dp", i)); v != nil {
			return v
		}
		for _, cl := range []*fixture.Client{subs[i], recs[i]} {
			if err := subscribeSentinel(cl); err != nil {
				return harnessErr("%v", err)
			}
			local[i][fixture.SentinelTopic(cl.ID)]++
		}
		f := fmt.Sprintf("m/%d/#", i)
		if code, err := subscribeOne(recs[i], 2, subSpec{Filter: f, QoS: 1}); err != nil || code != 1 {
			return harnessErr("recorder subscribe: %v %v", code, err)
		}
		local[i][f]++
	}
	want := func(i int) []string {
		var out []string
		for f, n := range local[i] {
			if n > 0 {
				out = append(out, f)
			}
		}
		sort.Strings(out)
		return out
	}
	views := func() string {
		var sb strings.Builder
		for i := range nodes {
			for j := range nodes {
				if i != j {
					v := nodes[j].Fed.VerifFedSubs(nodes[i].Name)
					sort.Strings(v)
					fmt.Fprintf(&sb, "%d>%d:%s;", i, j, strings.Join(v, " "))
				}
			}
		}
		return sb.String()
	}
	wantViews := func() string {
		var sb strings.Builder
		for i := range nodes {
			for j := range nodes {
				if i != j {
					fmt.Fprintf(&sb, "%d>%d:%s;", i, j, strings.Join(want(i), " "))
				}
			}
		}
		return sb.String()
	}
	converge := func(when string) *ev.Violation {
		wv := wantViews()
		if fixture.PollUntil(15*time.Second, func() bool { return views() == wv }) {
			return nil
		}
		for i := range nodes {
			for j := range nodes {
				if i == j {
					continue
				}
				v := nodes[j].Fed.VerifFedSubs(nodes[i].Name)
				sort.Strings(v)
				if wnt := want(i); !eqStrs(v, wnt) {
					missing, extra := diffStrs(wnt, v)
					pend, next, _ := nodes[i].Fed.VerifPeerQueue(nodes[j].Name)
					return ev.Violf("C16.view", "%s: no stream was disturbed, yet 15 s after node %d's last subscription change node %d's view of node %d %v differs from node %d's local subscription set %v (missing %v, extra %v); node %d holds %d unacknowledged event(s) for node %d, next id %d; its next ids per peer: %v",
						when, i, j, i, v, i, wnt, missing, extra, i, pend, j, next, nodes[i].NextIDs()).With("missing", len(missing), "extra", len(extra))
				}
			}
		}
		return harnessErr("views changed while being reported")
	}
	drifted := func(i int) bool {
		ids := nodes[i].NextIDs()
		var first uint64
		k := 0
		for _, v := range ids {
			if k > 0 && v != first {
				return true
			}
			first = v
			k++
		}
		return false
	}
	broadcast := func(i int, what string) {
		if drifted(i) {
			nontrivial = true
			c.Label("broadcast_with_drifted_ids")
			c.Label("broadcast_with_drifted_ids_" + what)
		}
	}
	type expect struct {
		uid string
		src int
	}
	wantRec := make([][]expect, 3)  // recorder of node i
	wantSub := make([][]expect, 3)  // "s" client of node i
	retained := map[string]string{} // topic -> payload
	seq := 0
	uidOf := func(src int) string { seq++; return fmt.Sprintf("u%d-%04d", src, seq) }

	drainAll := func() *ev.Violation {
		for i, n := range nodes {
			if err := n.WaitDrained(15 * time.Second); err != nil {
				pendings := map[string]int{}
				for _, p := range n.Fed.VerifPeers() {
					pend, _, _ := n.Fed.VerifPeerQueue(p)
					pendings[p] = pend
				}
				return ev.Violf("C16.stuck", "no stream was disturbed, yet node %d still holds unacknowledged events 15 s after the last one was emitted: %v", i, pendings)
			}
		}
		return nil
	}
	if v := converge("start"); v != nil {
		return v
	}
	for step, op := range s.Ops {
		if op.Node < 0 || op.Node > 2 || op.To < 0 || op.To > 2 {
			return harnessErr("bad op")
		}
		c.Logf("step %d: %+v (next ids of node %d: %v)", step, op, op.Node, nodes[op.Node].NextIDs())
		i := op.Node
		f := fmt.Sprintf("t/%d", op.K)
		switch op.Op {
		case "sub":
			if dyn[i][f] {
				c.Count("skipped_ops", 1)
				continue
			}
			broadcast(i, "subscribe")
			pid++
			if code, err := subscribeOne(subs[i], pid, subSpec{Filter: f, QoS: 1}); err != nil || code != 1 {
				return harnessErr("subscribe: %v %v", code, err)
			}
			dyn[i][f] = true
			local[i][f]++
		case "unsub":
			if !dyn[i][f] {
				c.Count("skipped_ops", 1)
				continue
			}
			broadcast(i, "unsubscribe")
			// a message forwarded to this node for the subscription must have arrived before the subscription goes:
			// the publisher's PUBACK only says the origin node has it
			if v := drainAll(); v != nil {
				return v
			}
			pid++
			if _, err := subs[i].Unsubscribe(pid, f); err != nil {
				return harnessErr("unsubscribe: %v", err)
			}
			delete(dyn[i], f)
			local[i][f]--
		case "end":
			// the session of the "s" client ends (clean take-over): all its subscriptions go, the sentinel comes back
			if len(dyn[i]) > 0 {
				broadcast(i, "session_end")
			}
			// everything forwarded so far has been applied by its peer, then delivered locally
			if v := drainAll(); v != nil {
				return v
			}
			if v := quiesce(nodes[i].Broker, subs[i]); v != nil {
				return harnessErr("%v", v)
			}
			ncl, v := connect(i, subs[i].ID)
			if v != nil {
				return v
			}
			for g := range dyn[i] {
				local[i][g]--
			}
			dyn[i] = map[string]bool{}
			// the messages the old connection received stay part of the record
			old := subs[i]
			subs[i] = ncl
			if err := subscribeSentinel(ncl); err != nil {
				return harnessErr("%v", err)
			}
			for _, r := range old.All() {
				if r.P.Type == mw.PUBLISH && !isSentinel(r.P) {
					k := 0
					for k < len(wantSub[i]) && wantSub[i][k].uid != string(r.P.Payload) {
						k++
					}
					if k == len(wantSub[i]) {
						return ev.Violf("C16.unexpected-message", "node %d: subscriber received %s that nothing explains", i, r.P)
					}
					wantSub[i] = append(wantSub[i][:k], wantSub[i][k+1:]...)
				}
			}
			if len(wantSub[i]) != 0 {
				return ev.Violf("C16.lost-message", "node %d: %d message(s) published (after the views had converged) to filters its subscriber held were not delivered before its session ended, first %s", i, len(wantSub[i]), wantSub[i][0].uid)
			}
			c.Label("session_end")
		case "flap":
			// One-sided loss of a peer: node i's failure detector reports node To as failed and then as joined again (a
			// false positive that To refutes); To never notices. Node i drops everything it held for To and starts a new
			// session with it; the property demands a full resynchronisation in both directions. Done at a quiet moment:
			// events still queued for a peer whose session is dropped are not covered by "while the peer session lasts".
			if op.To == i {
				return harnessErr("bad op")
			}
			if v := converge(fmt.Sprintf("before step %d", step)); v != nil {
				return v
			}
			if v := drainAll(); v != nil {
				return v
			}
			w.close()
			if bad, why := w.flapped(); bad {
				c.Logf("membership disturbed before the generated flap: %s", why)
				c.Count("membership_flap_inconclusive", 1)
				w = nil
				return nil
			}
			w = nil
			if !nodes[i].Fed.VerifMemberFlap(nodes[op.To].Name) {
				return harnessErr("node %d does not know node %d", i, op.To)
			}
			if err := cluster.WaitMesh(15 * time.Second); err != nil {
				return harnessErr("mesh after the flap: %v", err)
			}
			w = watchFedPeers(nodes...)
			nontrivial = true
			c.Label("one_sided_member_flap")
			// Node To still holds its old (complete) view of node i, so the views alone do not show when node i's NEW session
			// towards To is up; events node i queues before that handshake are discarded by the clean start (they belong to
			// no session). A fresh subscription on node i is the marker: once To shows it, the new stream has done its
			// full synchronisation and everything emitted from now on is covered by the property.
			marker := fmt.Sprintf("flapmark/%d", step)
			pid++
			if code, err := subscribeOne(subs[i], pid, subSpec{Filter: marker, QoS: 1}); err != nil || code != 1 {
				return harnessErr("marker subscribe: %v %v", code, err)
			}
			dyn[i][marker] = true
			local[i][marker]++
			if v := converge(fmt.Sprintf("after the one-sided flap of step %d (node %d lost and re-found node %d)", step, i, op.To)); v != nil {
				return v
			}
		case "retain":
			broadcast(i, "retained")
			topic, uid := fmt.Sprintf("r/%d/%d", i, op.K), uidOf(i)
			pid++
			if _, err := pubs[i].Publish(&mw.Packet{Topic: topic, QoS: 1, PacketID: pid, Retain: true, Payload: []byte(uid)}); err != nil {
				return harnessErr("publish: %v", err)
			}
			retained[topic] = uid
		case "pub":
			if v := converge(fmt.Sprintf("before step %d", step)); v != nil {
				return v
			}
			for k := 0; k < op.N; k++ {
				uid := uidOf(i)
				pid++
				if _, err := pubs[i].Publish(&mw.Packet{Topic: fmt.Sprintf("m/%d/%d", op.To, i), QoS: 1, PacketID: pid, Payload: []byte(uid)}); err != nil {
					return harnessErr("publish: %v", err)
				}
				wantRec[op.To] = append(wantRec[op.To], expect{uid, i})
			}
		case "tpub":
			if v := converge(fmt.Sprintf("before step %d", step)); v != nil {
				return v
			}
			uid := uidOf(i)
			pid++
			if _, err := pubs[i].Publish(&mw.Packet{Topic: f, QoS: 1, PacketID: pid, Payload: []byte(uid)}); err != nil {
				return harnessErr("publish: %v", err)
			}
			for j := range nodes {
				if dyn[j][f] {
					wantSub[j] = append(wantSub[j], expect{uid, i})
					if j != i {
						c.Label("forwarded_to_dynamic_subscription")
					}
				}
			}
		}
	}
	if v := converge("end"); v != nil {
		return v
	}
	// every event has been acknowledged (= applied) by its peer; then flush the local deliveries
	if v := drainAll(); v != nil {
		return v
	}
	for i, n := range nodes {
		if err := sentinelBarrier(n.Broker, []*fixture.Client{subs[i], recs[i]}, "end"); err != nil {
			return harnessErr("%v", err)
		}
	}
	check := func(i int, who string, cl *fixture.Client, wantList []expect) *ev.Violation {
		var got []string
		for _, r := range cl.All() {
			if r.P.Type == mw.PUBLISH && !isSentinel(r.P) {
				got = append(got, string(r.P.Payload))
			}
		}
		seen := map[string]int{}
		for _, g := range got {
			seen[g]++
		}
		for _, e := range wantList {
			if seen[e.uid] != 1 {
				return ev.Violf("C16.message-count", "node %d %s: message %s (published on node %d after all views had converged) was delivered %d times, expected once; received %v", i, who, e.uid, e.src, seen[e.uid], got).With("copies", seen[e.uid])
			}
			delete(seen, e.uid)
		}
		for g := range seen {
			return ev.Violf("C16.unexpected-message", "node %d %s received %s that nothing explains; received %v", i, who, g, got)
		}
		// per source order
		pos := map[string]int{}
		for k, g := range got {
			pos[g] = k
		}
		last := map[int]int{}
		for _, e := range wantList {
			if p, ok := last[e.src]; ok && pos[e.uid] < p {
				return ev.Violf("C16.order", "node %d %s: messages of source node %d arrived out of emission order: %v", i, who, e.src, got)
			}
			last[e.src] = pos[e.uid]
		}
		c.Count("messages_checked", len(wantList))
		return nil
	}
	for i := range nodes {
		if v := check(i, "recorder", recs[i], wantRec[i]); v != nil {
			return v
		}
		if v := check(i, "subscriber", subs[i], wantSub[i]); v != nil {
			return v
		}
	}
	for i, n := range nodes {
		got := map[string]string{}
		n.Broker.Srv.RetainedService().Iterate(func(m *gmqtt.Message) bool { got[m.Topic] = string(m.Payload); return true })
		for tp, uid := range retained {
			if got[tp] != uid {
				return ev.Violf("C16.retained", "node %d: retained message on %q is %q, the last one published (anywhere) was %q", i, tp, got[tp], uid)
			}
		}
	}
	return nil
}

func TestC16ThreeNodes(t *testing.T) {
	ev.RunN(t, "C16", 0.4, genC16Three, runC16Three)
}
