package checks

// C06 — Packet codec is total, bounded and round-trips for every input.
//
// Files: c06_test.go (tests of sub-checks 1-3), c06_oracle_test.go (oracles 1+2),
// c06_gen_test.go (byte level generators), c06_conv_test.go (gmqtt <-> mqttwire values),
// c06_msg_test.go (sub-check 4, messages), c06_valid_test.go (sub-check 5),
// c06_corpus_test.go (corpus replay and native fuzz targets).

import (
	"bytes"
	"testing"

	"github.com/DrmagicE/gmqtt/pkg/codes"
	"github.com/DrmagicE/gmqtt/pkg/packets"
	"pgregory.net/rapid"

	"verif/ev"
	mw "verif/mqttwire"
	"verif/topicref"
)

const c06Rule = "five sub-checks. (1)+(2) bytes -> gmqtt Reader (versions 3/4/5, bufio sizes 16..4096): structure-aware mutations of valid mqttwire encodings (truncation, remaining length larger/smaller/non-canonical/5-byte, flags, type, duplicated/foreign/out-of-range properties, property length, bad UTF-8, string length prefixes, byte flips, inserts/deletes, semantic oddities, optional tail), framed random bytes, raw random bytes, hostile constants (the only inputs declaring more than 8 MiB: generated declared lengths are capped at 2-4 MiB because gmqtt allocates what is declared), every truncation of sample packets, corpus files; oracle: no panic, returns within 10s, consumed <= header+declared length, TotalAlloc growth <= 64KiB+64*len, accepted packets Pack+ReadPacket to an equal packet, TotalBytes == encoded length, and equal fields whenever the reference decoder accepts too. (3) mqttwire.GenPacket values (all types legal per direction, every property) encoded by mqttwire and decoded by gmqtt, and converted to gmqtt values, packed by gmqtt and decoded by mqttwire. (4) TotalBytes of packets and Message.TotalBytes vs MessageToPublish+Pack with lengths straddling 127/128, 16383/16384 (rarely 2097151/2097152). (5) ValidUTF8/ValidTopicName/ValidTopicFilter/ValidV5Topic and PUBLISH/SUBSCRIBE/UNSUBSCRIBE decoding vs topicref on generated level structures and random bytes; MAY class only counted. Non-trivial: (1)(2) accepted with >=1 property or payload, or rejected behind a well-formed complete frame; (3)(4) >=2 properties; (5) input with wildcard, $share, or non-ASCII bytes."

func c06RunBytes(s c06BytesScen, c *ev.Case) *ev.Violation {
	c.Label("mut_" + s.Mut)
	c.Label("v" + string(rune('0'+s.V)))
	_, viol := c06Oracle12(s.V, s.Data, s.Buf, c, s.Mut)
	if viol != nil {
		viol.With("base", s.Base)
	}
	return viol
}

func TestC06Mutate(t *testing.T) {
	ev.SetRule("C06", c06Rule)
	ev.RunN(t, "C06", 3, c06GenMutated, c06RunBytes)
}

func TestC06Random(t *testing.T) {
	ev.SetRule("C06", c06Rule)
	ev.RunN(t, "C06", 1, c06GenRandom, c06RunBytes)
}

func TestC06Hostile(t *testing.T) {
	shard, nshards := ev.Shard()
	for i, data := range c06HostileBytes() {
		for _, v := range []int{3, 4, 5} {
			for _, buf := range []int{16, 4096} {
				if c06ParseHdr(data).lenient > 16<<20 && (i%nshards != shard || !((v == 4 && buf == 16) || (v == 5 && buf == 4096))) {
					// inputs declaring hundreds of MiB cost tens of milliseconds each (only
					// because of F-c06-alloc-declared-length): two runs each, on one shard
					continue
				}
				s := c06BytesScen{V: v, Buf: buf, Data: data, Mut: "hostile"}
				c := &ev.Case{}
				viol := c06RunBytes(s, c)
				ev.Direct("C06", c, s)
				if viol != nil {
					ev.Fail(t, "C06", viol, s)
					return
				}
			}
		}
	}
}

// TestC06TruncateAll truncates sample packets of every type and version at every position.
func TestC06TruncateAll(t *testing.T) {
	shard, _ := ev.Shard()
	n := 0
	for _, v := range []int{3, 4, 5} {
		for _, ty := range mw.LegalTypes(mw.Version(v), mw.AnyDir) {
			p := mw.GenPacketOf(ty, mw.Version(v), mw.AnyDir).Example(shard*131 + int(ty) + 1)
			p = c06NormRef(p)
			if p.Props != nil && ty == mw.PUBLISH {
				p.Props.SubscriptionIDs = nil
			}
			enc, err := mw.Encode(p, mw.Version(v))
			if err != nil {
				t.Fatalf("@@HARNESS-ERROR %v", err)
			}
			if len(enc) > 600 {
				continue
			}
			for cut := 0; cut <= len(enc); cut++ {
				s := c06BytesScen{V: v, Buf: 64, Data: enc[:cut], Mut: "truncate-all", Base: ty.String()}
				c := &ev.Case{}
				viol := c06RunBytes(s, c)
				if cut == len(enc) || cut == len(enc)/2 {
					ev.Direct("C06", c, s)
				}
				n++
				if viol != nil {
					ev.Fail(t, "C06", viol, s)
					return
				}
			}
		}
	}
	ev.AddEvaluations("C06", n, "truncate_all_inputs")
}

// ---------------------------------------------------------------------------
// Sub-check 3

type c06PktScen struct {
	V           int        `json:"v"`
	Dir         int        `json:"dir"`
	Buf         int        `json:"buf,omitempty"`
	NonNilEmpty bool       `json:"nne,omitempty"`
	P           *mw.Packet `json:"p"`
}

func c06GenPkt(dirs []mw.Direction) func(t *rapid.T) c06PktScen {
	return func(t *rapid.T) c06PktScen {
		v := rapid.SampledFrom([]int{3, 4, 5, 5, 5}).Draw(t, "v")
		d := rapid.SampledFrom(dirs).Draw(t, "dir")
		s := c06PktScen{V: v, Dir: int(d), Buf: rapid.SampledFrom(c06BufSizes).Draw(t, "buf"), NonNilEmpty: rapid.Bool().Draw(t, "nne")}
		s.P = mw.GenPacket(mw.Version(v), d).Draw(t, "pkt")
		return s
	}
}

func c06PlainUTF8(b []byte) bool {
	return topicref.UTF8(b) == topicref.Valid && !bytes.Contains(b, []byte("\ufffd"))
}

// c06Neutralise applies, in a fixed order, the neutralising rewrite of every OPEN known
// finding whose region contains p and returns the rewritten packets one step at a time.
func c06Neutralise(p *mw.Packet) (steps []*mw.Packet, ids []string) {
	cur := p
	if cur.Type == mw.CONNECT && cur.HasPassword && !c06PlainUTF8(cur.Password) && ev.KF(c06KFPassword) {
		q := c06Clone(cur)
		q.Password = []byte("pw")
		cur = q
		steps, ids = append(steps, cur), append(ids, c06KFPassword)
	}
	if cur.Props != nil && cur.Props.HasAuthData && !c06PlainUTF8(cur.Props.AuthData) && ev.KF(c06KFAuthData) {
		q := c06Clone(cur)
		q.Props.AuthData = []byte("ad")
		cur = q
		steps, ids = append(steps, cur), append(ids, c06KFAuthData)
	}
	has := false
	c06MapStrings(cur, func(s string) string { has = has || c06HasFFFD(s); return s })
	if has && ev.KF(c06KFFFFD) {
		cur = c06MapStrings(cur, func(s string) string { return string(bytes.ReplaceAll([]byte(s), []byte("\ufffd"), []byte("\u4e2d"))) })
		steps, ids = append(steps, cur), append(ids, c06KFFFFD)
	}
	return steps, ids
}

// c06RunDiffDecode is sub-check 3a: mqttwire value -> mqttwire bytes -> gmqtt.
func c06RunDiffDecode(s c06PktScen, c *ev.Case) *ev.Violation {
	v := s.V
	p := c06NormRef(s.P) // MQTT 3.1 DUP on PUBREL/SUBSCRIBE/UNSUBSCRIBE: outside "3.1.1/5", not generated
	if p != s.P {
		c.Label("v31_dup_cleared")
	}
	if p.Type == mw.PUBLISH && p.Props != nil && len(p.Props.SubscriptionIDs) > 0 {
		// gmqtt's property table is the server side one: PUBLISH with a subscription
		// identifier is what a server sends, never what it receives
		p = c06Clone(p)
		p.Props.SubscriptionIDs = nil
		c.Label("publish_subid_stripped")
	}
	c.Label("diffdec_" + p.Type.String())
	feats := []any{"version", v, "type", p.Type.String(), "dir", mw.Direction(s.Dir).String()}
	cands := []*mw.Packet{p}
	steps, ids := c06Neutralise(p)
	cands = append(cands, steps...)
	for i, q := range cands {
		enc, err := mw.Encode(q, mw.Version(v))
		if err != nil {
			return harnessErr("mqttwire.Encode: %v", err)
		}
		res, viol := c06Oracle12(v, enc, s.Buf, c, "wellformed")
		if viol != nil {
			return viol.With("dir", mw.Direction(s.Dir).String())
		}
		if res.err != nil {
			if v != 5 && q.Type == mw.CONNECT && q.ClientID == "" && !q.CleanStart && c06ErrCode(res.err) == codes.V3IdentifierRejected {
				c.Label("legit_reject_v3_empty_clientid") // [MQTT-3.1.3-8]: the server must refuse; reported with return code 2
				return nil
			}
			if i+1 < len(cands) {
				continue // try with the next known finding neutralised
			}
			return ev.Violf("C06.diff-decode", "gmqtt rejects a well-formed packet: %v\n packet: %s\n bytes: %s", res.err, q, c06Hex(enc)).With(feats...)
		}
		for _, id := range ids[:i] {
			c.Excluded(id)
		}
		got, _ := c06FromG(res.pkt)
		if !mw.Equal(got, q) {
			return ev.Violf("C06.diff-decode", "gmqtt reads different values\n want: %s\n got:  %s\n bytes: %s", q, got, c06Hex(enc)).With(feats...)
		}
		if c06CountProps(q) >= 2 {
			c.NonTrivial()
		}
		return nil
	}
	return nil
}

func TestC06DiffDecode(t *testing.T) {
	ev.SetRule("C06", c06Rule)
	ev.RunN(t, "C06", 1.5, c06GenPkt([]mw.Direction{mw.ToServer, mw.ToServer, mw.ToServer, mw.ToClient}), c06RunDiffDecode)
}

// c06RunDiffEncode is sub-check 3b (+ packet sizes of sub-check 4): mqttwire value ->
// gmqtt value -> gmqtt bytes -> mqttwire.
func c06RunDiffEncode(s c06PktScen, c *ev.Case) *ev.Violation {
	v := s.V
	p := c06NormRef(s.P) // gmqtt's PUBREL/SUBSCRIBE/UNSUBSCRIBE have no DUP field
	c.Label("diffenc_" + p.Type.String())
	feats := []any{"version", v, "type", p.Type.String()}
	g := c06ToG(p, v, s.NonNilEmpty)
	if g == nil {
		return harnessErr("no gmqtt value for %s", p)
	}
	var buf bytes.Buffer
	err, pan := c06SafePack(g, &buf)
	if pan != "" {
		return ev.Violf("C06.panic", "Pack panicked on %s: %s", p, pan).With(feats...)
	}
	if err != nil {
		return ev.Violf("C06.diff-encode", "Pack of a well-formed value failed: %v\n value: %s", err, p).With(feats...)
	}
	enc := buf.Bytes()
	if tb := packets.TotalBytes(g); int(tb) != len(enc) {
		return ev.Violf("C06.size", "TotalBytes=%d, gmqtt encoding is %d bytes\n value: %s", tb, len(enc), p).With(feats...)
	}
	ref, n, derr := mw.Decode(enc, mw.Version(v), mw.AnyDir)
	if p.Type == mw.CONNECT && p.ProtoName != "MQTT" && (derr != nil || !mw.Equal(ref, p)) && ev.KF(c06KFProtoName) {
		c.Excluded(c06KFProtoName)
		return nil
	}
	if derr != nil {
		return ev.Violf("C06.diff-encode", "the reference decoder rejects gmqtt's encoding: %v\n value: %s\n bytes: %s", derr, p, c06Hex(enc)).With(feats...)
	}
	if n != len(enc) {
		return ev.Violf("C06.diff-encode", "gmqtt's encoding is %d bytes, the packet in it %d\n value: %s\n bytes: %s", len(enc), n, p, c06Hex(enc)).With(feats...)
	}
	if !mw.Equal(ref, p) {
		return ev.Violf("C06.diff-encode", "the reference decoder reads different values\n want: %s\n got:  %s\n bytes: %s", p, ref, c06Hex(enc)).With(feats...)
	}
	// gmqtt writes the long form of acks / DISCONNECT / AUTH whenever the code is non-zero
	// or the Properties pointer is non-nil; mirror that choice in the reference encoder
	opts := mw.EncodeOpts{}
	switch p.Type {
	case mw.PUBACK, mw.PUBREC, mw.PUBREL, mw.PUBCOMP, mw.DISCONNECT, mw.AUTH:
		if v == 5 && p.Props.IsEmpty() && (p.ReasonCode != 0 || s.NonNilEmpty) {
			opts.ForceLongAck = true
		}
	}
	want, err := mw.EncodeWith(p, mw.Version(v), opts)
	if err != nil {
		return harnessErr("mqttwire.Encode: %v", err)
	}
	if len(want) != len(enc) {
		return ev.Violf("C06.size", "gmqtt encoding %d bytes, reference encoding %d bytes\n value: %s\n gmqtt: %s\n ref:   %s", len(enc), len(want), p, c06Hex(enc), c06Hex(want)).With(feats...)
	}
	if c06CountProps(p) >= 2 {
		c.NonTrivial()
	}
	return nil
}

func TestC06DiffEncode(t *testing.T) {
	ev.SetRule("C06", c06Rule)
	ev.RunN(t, "C06", 1, c06GenPkt([]mw.Direction{mw.AnyDir}), c06RunDiffEncode)
}
