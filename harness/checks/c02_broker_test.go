package checks

// C02 through the broker: the same generated histories as the store-level check, but every
// subscription change arrives as ONE SUBSCRIBE / UNSUBSCRIBE packet on a client connection (1-4
// filters per packet, aimed at packets that carry one filter in several forms: plain and shared,
// two share groups, the same form twice) and the index is read through
// server.SubscriptionService(). What the packets acknowledged is what the index must answer.

import (
	"fmt"
	"testing"

	"github.com/DrmagicE/gmqtt"
	"github.com/DrmagicE/gmqtt/persistence/subscription"
	"pgregory.net/rapid"

	"verif/ev"
	"verif/fixture"
	mw "verif/mqttwire"
)

// brokerSubStore presents a running broker as a subscription.Store: changes go over the wire,
// reads go to the SubscriptionService.
type brokerSubStore struct {
	b    *fixture.Broker
	cls  map[string]*fixture.Client
	have map[string]map[string]bool
	pid  uint16
	c    *ev.Case
}

func (s *brokerSubStore) Init([]string) error { return nil }
func (s *brokerSubStore) Close() error        { return nil }

func (s *brokerSubStore) conn(id string) (*fixture.Client, error) {
	if cl := s.cls[id]; cl != nil {
		return cl, nil
	}
	cl, ack, err := s.b.Connect(fixture.ConnectOpts{ID: id, V: mw.V5, CleanStart: true, Props: &mw.Props{SessionExpiry: u32p(1000)}})
	if err != nil || ack.ReasonCode != 0 {
		return nil, fmt.Errorf("connect %s: %v %v", id, ack, err)
	}
	s.cls[id] = cl
	return cl, nil
}

func (s *brokerSubStore) Subscribe(clientID string, subs ...*gmqtt.Subscription) (subscription.SubscribeResult, error) {
	cl, err := s.conn(clientID)
	if err != nil {
		return nil, err
	}
	var reqs []mw.SubReq
	var props *mw.Props
	for _, sub := range subs {
		reqs = append(reqs, mw.SubReq{Filter: sub.GetFullTopicName(), QoS: sub.QoS, NoLocal: sub.NoLocal, RAP: sub.RetainAsPublished, RH: sub.RetainHandling})
		if sub.ID != 0 {
			props = &mw.Props{SubscriptionIDs: []uint32{sub.ID}}
		}
	}
	s.pid++
	ack, err := cl.Subscribe(s.pid, props, reqs...)
	if err != nil {
		return nil, fmt.Errorf("SUBSCRIBE with %d filters not acknowledged: %v", len(reqs), err)
	}
	if len(ack.ReasonCodes) != len(subs) {
		return nil, fmt.Errorf("SUBACK carries %d reason codes for %d filters", len(ack.ReasonCodes), len(subs))
	}
	var rs subscription.SubscribeResult
	for i, sub := range subs {
		if ack.ReasonCodes[i] != sub.QoS {
			return nil, fmt.Errorf("SUBACK code %#x for %q (requested QoS %d)", ack.ReasonCodes[i], sub.GetFullTopicName(), sub.QoS)
		}
		if s.have[clientID] == nil {
			s.have[clientID] = map[string]bool{}
		}
		full := sub.GetFullTopicName()
		// AlreadyExisted cannot be seen on the wire: echo what this adapter has sent before (not judged here)
		rs = append(rs, struct {
			Subscription   *gmqtt.Subscription
			AlreadyExisted bool
		}{sub, s.have[clientID][full]})
		s.have[clientID][full] = true
	}
	if len(subs) >= 2 {
		s.c.Label("several_filters_in_one_subscribe")
	}
	return rs, nil
}

func (s *brokerSubStore) Unsubscribe(clientID string, topics ...string) error {
	cl, err := s.conn(clientID)
	if err != nil {
		return err
	}
	s.pid++
	if _, err := cl.Unsubscribe(s.pid, topics...); err != nil {
		return fmt.Errorf("UNSUBSCRIBE not acknowledged: %v", err)
	}
	for _, t := range topics {
		delete(s.have[clientID], t)
	}
	return nil
}

func (s *brokerSubStore) UnsubscribeAll(clientID string) error {
	delete(s.have, clientID)
	return s.b.Srv.SubscriptionService().UnsubscribeAll(clientID)
}

func (s *brokerSubStore) Iterate(fn subscription.IterateFn, o subscription.IterationOptions) {
	s.b.Srv.SubscriptionService().Iterate(fn, o)
}
func (s *brokerSubStore) GetStats() subscription.Stats {
	return s.b.Srv.SubscriptionService().GetStats()
}
func (s *brokerSubStore) GetClientStats(id string) (subscription.Stats, error) {
	return s.b.Srv.SubscriptionService().GetClientStats(id)
}

func genC02Broker(t *rapid.T) c02Scen {
	s := c02Scen{Backend: "broker", Shared: true}
	s.Ops = genSubOps(t, true, 25)
	for i := range s.Ops {
		op := &s.Ops[i]
		if op.Op != "sub" {
			continue
		}
		// aimed: the first filter of the packet once more in another form (plain <-> shared, another group, or verbatim)
		if rapid.IntRange(0, 2).Draw(t, "variant") == 0 {
			v := op.Subs[0]
			switch rapid.IntRange(0, 2).Draw(t, "variant_kind") {
			case 0:
				if v.Group == "" {
					v.Group, v.NL = "g1", false
				} else {
					v.Group = ""
				}
			case 1:
				v.Group, v.NL = map[string]string{"": "g2", "g1": "g2", "g2": "g1"}[v.Group], false
			}
			v.QoS = byte(rapid.IntRange(0, 2).Draw(t, "variant_qos"))
			if rapid.Bool().Draw(t, "variant_first") {
				op.Subs = append([]subSpec{v}, op.Subs...)
			} else {
				op.Subs = append(op.Subs, v)
			}
		}
		// one Subscription Identifier per SUBSCRIBE packet
		for j := range op.Subs {
			op.Subs[j].ID = op.Subs[0].ID
		}
		// the same full filter twice in one packet: the later entry wins in the model and on the wire alike; keep the
		// model simple by making such duplicates identical
		seen := map[string]subSpec{}
		for j := range op.Subs {
			if p, ok := seen[op.Subs[j].full()]; ok {
				op.Subs[j] = p
			}
			seen[op.Subs[j].full()] = op.Subs[j]
		}
	}
	np := rapid.IntRange(1, 6).Draw(t, "nprobes")
	for i := 0; i < np; i++ {
		s.Probes = append(s.Probes, genTopicName(t, "probe"))
	}
	return s
}

func runC02Broker(s c02Scen, c *ev.Case) *ev.Violation {
	b, err := fixture.Start(fixture.Opts{Config: fixture.BaseConfig()})
	if err != nil {
		return harnessErr("start broker: %v", err)
	}
	defer b.Stop()
	st := &brokerSubStore{b: b, cls: map[string]*fixture.Client{}, have: map[string]map[string]bool{}, pid: 10, c: c}
	defer func() {
		for _, cl := range st.cls {
			cl.Kill()
		}
	}()
	// every client has a (persistent) session from the start, like the clients of the store-level histories exist from the start
	for i := 0; i < 4; i++ {
		if _, err := st.conn(clientName(i)); err != nil {
			return harnessErr("%v", err)
		}
	}
	v := runSubHistory(st, s, c, "C02")
	if v != nil && (v.Assertion == "C02.subscribe-error" || v.Assertion == "C02.unsubscribe-error" || v.Assertion == "C02.unsubscribeall-error") {
		// the packet itself was not acknowledged as requested: still a verdict about the broker, but say so
		v.Msg = "over the wire: " + v.Msg
	}
	return v
}

func TestC02Broker(t *testing.T) {
	ev.RunN(t, "C02", 0.1, genC02Broker, runC02Broker)
}
