package checks

// C14 — What a hook decides is what happens; plugin wrappers compose in plugin_order.
//
// This file: sub-check (A) composition. Four mock plugins vp0..vp3 are registered once per
// process; their behaviour (which of the 19 HookWrapper kinds each one exposes) is supplied
// per case. Every wrapper logs enter/exit and calls the next hook. The event a record
// belongs to travels in the context: the outermost function of a chain finds no event id
// in ctx (the broker always passes context.Background()), allocates one and hands it down.
// Sub-check (B), the decisions, is in c14_decide_test.go.

import (
	"context"
	"errors"
	"fmt"
	"net"
	"sort"
	"strings"
	"sync"
	"testing"
	"time"

	"github.com/DrmagicE/gmqtt"
	"github.com/DrmagicE/gmqtt/config"
	"github.com/DrmagicE/gmqtt/pkg/packets"
	"github.com/DrmagicE/gmqtt/server"
	"pgregory.net/rapid"

	"verif/ev"
	"verif/fixture"
	mw "verif/mqttwire"
)

// c14Kinds are the 19 fields of server.HookWrapper (without the "Wrapper" suffix).
var c14Kinds = []string{
	"OnAccept", "OnBasicAuth", "OnEnhancedAuth", "OnReAuth", "OnConnected",
	"OnSessionCreated", "OnSessionResumed", "OnSessionTerminated",
	"OnSubscribe", "OnSubscribed", "OnUnsubscribe", "OnUnsubscribed",
	"OnMsgArrived", "OnMsgDropped", "OnDelivered", "OnClosed", "OnStop",
	"OnWillPublish", "OnWillPublished",
}

const c14NPlugins = 4

func c14PluginName(i int) string { return fmt.Sprintf("vp%d", i) }

type c14CompScen struct {
	Expose  [c14NPlugins][]string `json:"expose"`   // hook kinds exposed by vp0..vp3
	Base    []string              `json:"base"`     // hook kinds supplied through server.WithHook (innermost)
	Order   []int                 `json:"order"`    // plugin_order, as plugin indices
	V       int                   `json:"v"`        // protocol version of the clients a and p
	NFilter int                   `json:"nfilters"` // filters in the first SUBSCRIBE / the UNSUBSCRIBE
	PubQoS  byte                  `json:"pub_qos"`
	ReAuth  bool                  `json:"reauth"` // reduced script: enhanced-auth CONNECT, AUTH re-authentication, Stop
}

func genKindSet(t *rapid.T, label string) []string {
	// a few dense / sparse masks so that shared kinds are common
	mode := rapid.IntRange(0, 3).Draw(t, label+"_mode")
	var out []string
	for _, k := range c14Kinds {
		var in bool
		switch mode {
		case 0:
			in = true
		case 1:
			in = rapid.IntRange(0, 3).Draw(t, label+"_"+k) != 0
		default:
			in = rapid.IntRange(0, 1).Draw(t, label+"_"+k) != 0
		}
		if in {
			out = append(out, k)
		}
	}
	return out
}

func genC14Compose(reauth bool) func(t *rapid.T) c14CompScen {
	return func(t *rapid.T) c14CompScen {
		s := c14CompScen{ReAuth: reauth}
		for i := 0; i < c14NPlugins; i++ {
			s.Expose[i] = genKindSet(t, c14PluginName(i))
		}
		if rapid.IntRange(0, 2).Draw(t, "has_base") != 0 {
			s.Base = genKindSet(t, "base")
		}
		perm := rapid.Permutation([]int{0, 1, 2, 3}).Draw(t, "perm")
		n := rapid.SampledFrom([]int{0, 1, 2, 2, 3, 3, 4, 4, 4}).Draw(t, "norder")
		s.Order = append([]int{}, perm[:n]...)
		s.V = rapid.SampledFrom([]int{4, 5, 5}).Draw(t, "v")
		s.NFilter = rapid.IntRange(1, 3).Draw(t, "nfilters")
		s.PubQoS = byte(rapid.IntRange(0, 2).Draw(t, "pubqos"))
		return s
	}
}

// ---------------------------------------------------------------------------------------
// call log

type c14Rec struct {
	Who   string // plugin name or "base"
	Kind  string
	Phase string // enter | exit
	Ev    int
}

type c14EvKey struct{}

type c14CompCase struct {
	mu     sync.Mutex
	expose [c14NPlugins]map[string]bool
	recs   []c14Rec
	nextEv int
}

// span logs "enter", returns the context carrying the event id and the function logging "exit".
func (cs *c14CompCase) span(ctx context.Context, who, kind string) (context.Context, func()) {
	cs.mu.Lock()
	id, ok := ctx.Value(c14EvKey{}).(int)
	if !ok {
		cs.nextEv++
		id = cs.nextEv
		ctx = context.WithValue(ctx, c14EvKey{}, id)
	}
	cs.recs = append(cs.recs, c14Rec{who, kind, "enter", id})
	cs.mu.Unlock()
	return ctx, func() {
		cs.mu.Lock()
		cs.recs = append(cs.recs, c14Rec{who, kind, "exit", id})
		cs.mu.Unlock()
	}
}

func (cs *c14CompCase) snapshot() []c14Rec {
	cs.mu.Lock()
	defer cs.mu.Unlock()
	return append([]c14Rec(nil), cs.recs...)
}

var (
	c14RegOnce sync.Once
	c14CurMu   sync.Mutex
	c14Cur     *c14CompCase
)

// c14Register registers the four mock plugins (RegisterPlugin panics on duplicates). A
// plugin instance binds to the case that is current when the broker instantiates it, so a
// late call from an old broker can never pollute a newer case's log.
func c14Register() {
	c14RegOnce.Do(func() {
		for i := 0; i < c14NPlugins; i++ {
			i := i
			server.RegisterPlugin(c14PluginName(i), func(config.Config) (server.Plugin, error) {
				c14CurMu.Lock()
				cs := c14Cur
				c14CurMu.Unlock()
				if cs == nil {
					return nil, errors.New("c14: no current case")
				}
				return &c14Plugin{idx: i, name: c14PluginName(i), cs: cs}, nil
			})
		}
	})
}

type c14Plugin struct {
	idx  int
	name string
	cs   *c14CompCase
}

func (p *c14Plugin) Load(server.Server) error { return nil }
func (p *c14Plugin) Unload() error            { return nil }
func (p *c14Plugin) Name() string             { return p.name }

func (p *c14Plugin) HookWrapper() server.HookWrapper {
	var w server.HookWrapper
	cs, n := p.cs, p.name
	has := func(k string) bool { return cs.expose[p.idx][k] }
	if has("OnAccept") {
		w.OnAcceptWrapper = func(next server.OnAccept) server.OnAccept {
			return func(ctx context.Context, conn net.Conn) bool {
				ctx, done := cs.span(ctx, n, "OnAccept")
				defer done()
				return next(ctx, conn)
			}
		}
	}
	if has("OnBasicAuth") {
		w.OnBasicAuthWrapper = func(next server.OnBasicAuth) server.OnBasicAuth {
			return func(ctx context.Context, cl server.Client, req *server.ConnectRequest) error {
				ctx, done := cs.span(ctx, n, "OnBasicAuth")
				defer done()
				return next(ctx, cl, req)
			}
		}
	}
	if has("OnEnhancedAuth") {
		w.OnEnhancedAuthWrapper = func(next server.OnEnhancedAuth) server.OnEnhancedAuth {
			return func(ctx context.Context, cl server.Client, req *server.ConnectRequest) (*server.EnhancedAuthResponse, error) {
				ctx, done := cs.span(ctx, n, "OnEnhancedAuth")
				defer done()
				return next(ctx, cl, req)
			}
		}
	}
	if has("OnReAuth") {
		w.OnReAuthWrapper = func(next server.OnReAuth) server.OnReAuth {
			return func(ctx context.Context, cl server.Client, auth *packets.Auth) (*server.AuthResponse, error) {
				ctx, done := cs.span(ctx, n, "OnReAuth")
				defer done()
				return next(ctx, cl, auth)
			}
		}
	}
	if has("OnConnected") {
		w.OnConnectedWrapper = func(next server.OnConnected) server.OnConnected {
			return func(ctx context.Context, cl server.Client) {
				ctx, done := cs.span(ctx, n, "OnConnected")
				defer done()
				next(ctx, cl)
			}
		}
	}
	if has("OnSessionCreated") {
		w.OnSessionCreatedWrapper = func(next server.OnSessionCreated) server.OnSessionCreated {
			return func(ctx context.Context, cl server.Client) {
				ctx, done := cs.span(ctx, n, "OnSessionCreated")
				defer done()
				next(ctx, cl)
			}
		}
	}
	if has("OnSessionResumed") {
		w.OnSessionResumedWrapper = func(next server.OnSessionResumed) server.OnSessionResumed {
			return func(ctx context.Context, cl server.Client) {
				ctx, done := cs.span(ctx, n, "OnSessionResumed")
				defer done()
				next(ctx, cl)
			}
		}
	}
	if has("OnSessionTerminated") {
		w.OnSessionTerminatedWrapper = func(next server.OnSessionTerminated) server.OnSessionTerminated {
			return func(ctx context.Context, id string, reason server.SessionTerminatedReason) {
				ctx, done := cs.span(ctx, n, "OnSessionTerminated")
				defer done()
				next(ctx, id, reason)
			}
		}
	}
	if has("OnSubscribe") {
		w.OnSubscribeWrapper = func(next server.OnSubscribe) server.OnSubscribe {
			return func(ctx context.Context, cl server.Client, req *server.SubscribeRequest) error {
				ctx, done := cs.span(ctx, n, "OnSubscribe")
				defer done()
				return next(ctx, cl, req)
			}
		}
	}
	if has("OnSubscribed") {
		w.OnSubscribedWrapper = func(next server.OnSubscribed) server.OnSubscribed {
			return func(ctx context.Context, cl server.Client, sub *gmqtt.Subscription) {
				ctx, done := cs.span(ctx, n, "OnSubscribed")
				defer done()
				next(ctx, cl, sub)
			}
		}
	}
	if has("OnUnsubscribe") {
		w.OnUnsubscribeWrapper = func(next server.OnUnsubscribe) server.OnUnsubscribe {
			return func(ctx context.Context, cl server.Client, req *server.UnsubscribeRequest) error {
				ctx, done := cs.span(ctx, n, "OnUnsubscribe")
				defer done()
				return next(ctx, cl, req)
			}
		}
	}
	if has("OnUnsubscribed") {
		w.OnUnsubscribedWrapper = func(next server.OnUnsubscribed) server.OnUnsubscribed {
			return func(ctx context.Context, cl server.Client, topic string) {
				ctx, done := cs.span(ctx, n, "OnUnsubscribed")
				defer done()
				next(ctx, cl, topic)
			}
		}
	}
	if has("OnMsgArrived") {
		w.OnMsgArrivedWrapper = func(next server.OnMsgArrived) server.OnMsgArrived {
			return func(ctx context.Context, cl server.Client, req *server.MsgArrivedRequest) error {
				ctx, done := cs.span(ctx, n, "OnMsgArrived")
				defer done()
				return next(ctx, cl, req)
			}
		}
	}
	if has("OnMsgDropped") {
		w.OnMsgDroppedWrapper = func(next server.OnMsgDropped) server.OnMsgDropped {
			return func(ctx context.Context, id string, msg *gmqtt.Message, err error) {
				ctx, done := cs.span(ctx, n, "OnMsgDropped")
				defer done()
				next(ctx, id, msg, err)
			}
		}
	}
	if has("OnDelivered") {
		w.OnDeliveredWrapper = func(next server.OnDelivered) server.OnDelivered {
			return func(ctx context.Context, cl server.Client, msg *gmqtt.Message) {
				ctx, done := cs.span(ctx, n, "OnDelivered")
				defer done()
				next(ctx, cl, msg)
			}
		}
	}
	if has("OnClosed") {
		w.OnClosedWrapper = func(next server.OnClosed) server.OnClosed {
			return func(ctx context.Context, cl server.Client, err error) {
				ctx, done := cs.span(ctx, n, "OnClosed")
				defer done()
				next(ctx, cl, err)
			}
		}
	}
	if has("OnStop") {
		w.OnStopWrapper = func(next server.OnStop) server.OnStop {
			return func(ctx context.Context) {
				ctx, done := cs.span(ctx, n, "OnStop")
				defer done()
				next(ctx)
			}
		}
	}
	if has("OnWillPublish") {
		w.OnWillPublishWrapper = func(next server.OnWillPublish) server.OnWillPublish {
			return func(ctx context.Context, id string, req *server.WillMsgRequest) {
				ctx, done := cs.span(ctx, n, "OnWillPublish")
				defer done()
				next(ctx, id, req)
			}
		}
	}
	if has("OnWillPublished") {
		w.OnWillPublishedWrapper = func(next server.OnWillPublished) server.OnWillPublished {
			return func(ctx context.Context, id string, msg *gmqtt.Message) {
				ctx, done := cs.span(ctx, n, "OnWillPublished")
				defer done()
				next(ctx, id, msg)
			}
		}
	}
	return w
}

// c14BaseHooks builds the server.WithHook table: accepting hooks that log as "base".
func c14BaseHooks(cs *c14CompCase, kinds []string) *server.Hooks {
	if len(kinds) == 0 {
		return nil
	}
	has := map[string]bool{}
	for _, k := range kinds {
		has[k] = true
	}
	const n = "base"
	h := &server.Hooks{}
	if has["OnAccept"] {
		h.OnAccept = func(ctx context.Context, conn net.Conn) bool {
			_, done := cs.span(ctx, n, "OnAccept")
			defer done()
			return true
		}
	}
	if has["OnBasicAuth"] {
		h.OnBasicAuth = func(ctx context.Context, cl server.Client, req *server.ConnectRequest) error {
			_, done := cs.span(ctx, n, "OnBasicAuth")
			defer done()
			return nil
		}
	}
	if has["OnEnhancedAuth"] {
		h.OnEnhancedAuth = func(ctx context.Context, cl server.Client, req *server.ConnectRequest) (*server.EnhancedAuthResponse, error) {
			_, done := cs.span(ctx, n, "OnEnhancedAuth")
			defer done()
			return &server.EnhancedAuthResponse{}, nil
		}
	}
	if has["OnReAuth"] {
		h.OnReAuth = func(ctx context.Context, cl server.Client, auth *packets.Auth) (*server.AuthResponse, error) {
			_, done := cs.span(ctx, n, "OnReAuth")
			defer done()
			return &server.AuthResponse{}, nil
		}
	}
	if has["OnConnected"] {
		h.OnConnected = func(ctx context.Context, cl server.Client) {
			_, done := cs.span(ctx, n, "OnConnected")
			done()
		}
	}
	if has["OnSessionCreated"] {
		h.OnSessionCreated = func(ctx context.Context, cl server.Client) {
			_, done := cs.span(ctx, n, "OnSessionCreated")
			done()
		}
	}
	if has["OnSessionResumed"] {
		h.OnSessionResumed = func(ctx context.Context, cl server.Client) {
			_, done := cs.span(ctx, n, "OnSessionResumed")
			done()
		}
	}
	if has["OnSessionTerminated"] {
		h.OnSessionTerminated = func(ctx context.Context, id string, reason server.SessionTerminatedReason) {
			_, done := cs.span(ctx, n, "OnSessionTerminated")
			done()
		}
	}
	if has["OnSubscribe"] {
		h.OnSubscribe = func(ctx context.Context, cl server.Client, req *server.SubscribeRequest) error {
			_, done := cs.span(ctx, n, "OnSubscribe")
			defer done()
			return nil
		}
	}
	if has["OnSubscribed"] {
		h.OnSubscribed = func(ctx context.Context, cl server.Client, sub *gmqtt.Subscription) {
			_, done := cs.span(ctx, n, "OnSubscribed")
			done()
		}
	}
	if has["OnUnsubscribe"] {
		h.OnUnsubscribe = func(ctx context.Context, cl server.Client, req *server.UnsubscribeRequest) error {
			_, done := cs.span(ctx, n, "OnUnsubscribe")
			defer done()
			return nil
		}
	}
	if has["OnUnsubscribed"] {
		h.OnUnsubscribed = func(ctx context.Context, cl server.Client, topic string) {
			_, done := cs.span(ctx, n, "OnUnsubscribed")
			done()
		}
	}
	if has["OnMsgArrived"] {
		h.OnMsgArrived = func(ctx context.Context, cl server.Client, req *server.MsgArrivedRequest) error {
			_, done := cs.span(ctx, n, "OnMsgArrived")
			defer done()
			return nil
		}
	}
	if has["OnMsgDropped"] {
		h.OnMsgDropped = func(ctx context.Context, id string, msg *gmqtt.Message, err error) {
			_, done := cs.span(ctx, n, "OnMsgDropped")
			done()
		}
	}
	if has["OnDelivered"] {
		h.OnDelivered = func(ctx context.Context, cl server.Client, msg *gmqtt.Message) {
			_, done := cs.span(ctx, n, "OnDelivered")
			done()
		}
	}
	if has["OnClosed"] {
		h.OnClosed = func(ctx context.Context, cl server.Client, err error) {
			_, done := cs.span(ctx, n, "OnClosed")
			done()
		}
	}
	if has["OnStop"] {
		h.OnStop = func(ctx context.Context) {
			_, done := cs.span(ctx, n, "OnStop")
			done()
		}
	}
	if has["OnWillPublish"] {
		h.OnWillPublish = func(ctx context.Context, id string, req *server.WillMsgRequest) {
			_, done := cs.span(ctx, n, "OnWillPublish")
			done()
		}
	}
	if has["OnWillPublished"] {
		h.OnWillPublished = func(ctx context.Context, id string, msg *gmqtt.Message) {
			_, done := cs.span(ctx, n, "OnWillPublished")
			done()
		}
	}
	return h
}

// ---------------------------------------------------------------------------------------
// scripted traffic

// c14Script drives the traffic and counts, per hook kind, the events the wire shows.
type c14Script struct {
	b       *fixture.Broker
	c       *ev.Case
	exp     map[string]int
	clients []*fixture.Client
}

func (sc *c14Script) connect(o fixture.ConnectOpts) (*fixture.Client, *mw.Packet, *ev.Violation) {
	enhanced := o.Props != nil && o.Props.AuthMethod != nil
	cl, ack, err := sc.b.Connect(o)
	if cl != nil {
		sc.clients = append(sc.clients, cl)
	}
	if err != nil && ack == nil && !enhanced {
		return nil, nil, ev.Violf("C14.traffic", "CONNECT of %q not answered: %v", o.ID, err)
	}
	sc.exp["OnAccept"]++
	if enhanced {
		sc.exp["OnEnhancedAuth"]++
	} else {
		sc.exp["OnBasicAuth"]++
	}
	if ack == nil || ack.ReasonCode != 0 {
		if enhanced {
			return cl, ack, nil // judged by the caller
		}
		return nil, nil, ev.Violf("C14.traffic", "CONNECT of %q refused although every hook accepts: %v", o.ID, ack)
	}
	sc.exp["OnConnected"]++
	if ack.SessionPresent {
		sc.exp["OnSessionResumed"]++
	} else {
		sc.exp["OnSessionCreated"]++
	}
	return cl, ack, nil
}

func (sc *c14Script) subscribe(cl *fixture.Client, pid uint16, qos byte, filters ...string) *ev.Violation {
	var reqs []mw.SubReq
	for _, f := range filters {
		reqs = append(reqs, mw.SubReq{Filter: f, QoS: qos})
	}
	ack, err := cl.Subscribe(pid, nil, reqs...)
	if err != nil {
		return ev.Violf("C14.traffic", "SUBSCRIBE %v of %q not acknowledged: %v", filters, cl.ID, err)
	}
	sc.exp["OnSubscribe"]++
	for i := range filters {
		if i >= len(ack.ReasonCodes) || ack.ReasonCodes[i] != qos {
			return ev.Violf("C14.traffic", "SUBACK %v for %v at QoS %d although every hook accepts", ack.ReasonCodes, filters, qos)
		}
		sc.exp["OnSubscribed"]++
	}
	return nil
}

func (sc *c14Script) publish(cl *fixture.Client, pid uint16, topic string, qos byte, payload []byte) *ev.Violation {
	pk := &mw.Packet{Topic: topic, QoS: qos, Payload: payload}
	if qos > 0 {
		pk.PacketID = pid
	}
	if _, err := cl.Publish(pk); err != nil {
		return ev.Violf("C14.traffic", "PUBLISH %s by %q not acknowledged: %v", topic, cl.ID, err)
	}
	if err := cl.Ping(fixture.DefaultWait); err != nil {
		return ev.Violf("C14.traffic", "publisher %q: %v", cl.ID, err)
	}
	sc.exp["OnMsgArrived"]++
	return nil
}

func (sc *c14Script) expectPublish(cl *fixture.Client, topic, payload string) *ev.Violation {
	_, err := cl.WaitFor(func(p *mw.Packet) bool {
		return p.Type == mw.PUBLISH && p.Topic == topic && string(p.Payload) == payload
	}, fixture.DefaultWait)
	if err != nil {
		return ev.Violf("C14.traffic", "client %q did not receive %s=%q: %v", cl.ID, topic, payload, err)
	}
	sc.exp["OnDelivered"]++
	return nil
}

// gone waits until the broker has finished unregistering the client: the entry disappears
// from the client table inside unregisterClient, which holds the server mutex from before
// the will hooks until after OnSessionTerminated, and GetClient takes the same mutex.
func (sc *c14Script) gone(id string) *ev.Violation {
	deadline := time.Now().Add(fixture.DefaultWait)
	for sc.b.Srv.ClientService().GetClient(id) != nil {
		if time.Now().After(deadline) {
			sess, _ := sc.b.Srv.ClientService().GetSession(id)
			return harnessErr("client %q still registered %v after its connection ended (session %+v)", id, fixture.DefaultWait, sess)
		}
		time.Sleep(time.Millisecond)
	}
	return nil
}

func runC14Compose(s c14CompScen, c *ev.Case) *ev.Violation {
	c14Register()
	cs := &c14CompCase{}
	for i := range cs.expose {
		cs.expose[i] = map[string]bool{}
		for _, k := range s.Expose[i] {
			cs.expose[i][k] = true
		}
	}
	c14CurMu.Lock()
	c14Cur = cs
	c14CurMu.Unlock()

	cfg := fixture.BaseConfig()
	for _, i := range s.Order {
		cfg.PluginOrder = append(cfg.PluginOrder, c14PluginName(i))
	}
	b, err := fixture.Start(fixture.Opts{Config: cfg, Hooks: c14BaseHooks(cs, s.Base)})
	if err != nil {
		return harnessErr("start broker: %v", err)
	}
	defer b.Stop()
	sc := &c14Script{b: b, c: c, exp: map[string]int{}}
	defer func() {
		for _, cl := range sc.clients {
			cl.Kill()
		}
	}()
	var v *ev.Violation
	if s.ReAuth {
		v = sc.scriptReAuth(s, cs)
	} else {
		v = sc.scriptMain(s)
	}
	if v != nil {
		return v
	}
	if err := b.Stop(); err != nil {
		return ev.Violf("C14.traffic", "Stop: %v", err)
	}
	sc.exp["OnStop"]++
	return c14Judge(s, cs.snapshot(), sc.exp, c)
}

func (sc *c14Script) scriptMain(s c14CompScen) *ev.Violation {
	v5 := s.V == 5
	persistent := func(clean bool) fixture.ConnectOpts {
		o := fixture.ConnectOpts{ID: "a", V: ver(s.V), CleanStart: clean, AutoAck: true}
		if v5 {
			o.Props = &mw.Props{SessionExpiry: u32p(1000)}
		}
		return o
	}
	// a: persistent subscriber
	a, _, v := sc.connect(persistent(v5))
	if v != nil {
		return v
	}
	var filters []string
	for i := 0; i < s.NFilter; i++ {
		filters = append(filters, fmt.Sprintf("t/%d", i))
	}
	if v := sc.subscribe(a, 1, 1, filters...); v != nil {
		return v
	}
	if v := sc.subscribe(a, 2, 1, "w/1"); v != nil {
		return v
	}
	// p: publisher with a will
	p, _, v := sc.connect(fixture.ConnectOpts{ID: "p", V: ver(s.V), CleanStart: true,
		Will: &mw.Will{Topic: "w/1", QoS: 1, Payload: []byte("will")}})
	if v != nil {
		return v
	}
	if v := sc.publish(p, 10, "t/0", s.PubQoS, []byte("m1")); v != nil {
		return v
	}
	if v := sc.expectPublish(a, "t/0", "m1"); v != nil {
		return v
	}
	// unsubscribe
	uack, err := a.Unsubscribe(3, filters...)
	if err != nil {
		return ev.Violf("C14.traffic", "UNSUBSCRIBE not acknowledged: %v", err)
	}
	sc.exp["OnUnsubscribe"]++
	for i := range filters {
		if v5 && (i >= len(uack.ReasonCodes) || uack.ReasonCodes[i] != 0) {
			return ev.Violf("C14.traffic", "UNSUBACK %v for %v although every hook accepts", uack.ReasonCodes, filters)
		}
		sc.exp["OnUnsubscribed"]++
	}
	// d: a subscriber whose Maximum Packet Size makes the broker drop one message
	d, _, v := sc.connect(fixture.ConnectOpts{ID: "d", V: mw.V5, CleanStart: true, AutoAck: true, Props: &mw.Props{MaxPacketSize: u32p(80)}})
	if v != nil {
		return v
	}
	if v := sc.subscribe(d, 4, 1, "big/1"); v != nil {
		return v
	}
	if v := sc.publish(p, 11, "big/1", 1, []byte(strings.Repeat("B", 300))); v != nil {
		return v
	}
	if v := sc.publish(p, 12, "big/1", 0, []byte("small")); v != nil {
		return v
	}
	if v := sc.expectPublish(d, "big/1", "small"); v != nil {
		return v
	}
	big := false
	for _, r := range d.All() {
		if r.P.Type == mw.PUBLISH && len(r.P.Payload) == 300 {
			big = true
		}
	}
	if big {
		sc.exp["OnDelivered"]++ // not this property's business (C13): no drop happened
		sc.c.Label("oversize_not_dropped")
	} else {
		sc.exp["OnMsgDropped"]++ // same FIFO queue: the drop was decided before "small" was read
	}
	// a: abrupt close, resume
	a.Kill()
	sc.exp["OnClosed"]++
	if v := sc.gone("a"); v != nil {
		return v
	}
	a2, ack, v := sc.connect(persistent(false))
	if v != nil {
		return v
	}
	if !ack.SessionPresent {
		sc.c.Label("resume_without_session_present")
	}
	// e: enhanced authentication
	e, eack, v := sc.connect(fixture.ConnectOpts{ID: "e", V: mw.V5, CleanStart: true, Props: &mw.Props{AuthMethod: strp("m")}})
	if v != nil {
		return v
	}
	eAlive := eack != nil && eack.ReasonCode == 0
	if !eAlive {
		sc.c.Label("enhanced_auth_refused")
		if e != nil {
			e.Kill()
		}
	}
	// p dies: will, closed, session terminated
	p.Kill()
	sc.exp["OnClosed"]++
	sc.exp["OnWillPublish"]++
	sc.exp["OnSessionTerminated"]++
	if v := sc.expectPublish(a2, "w/1", "will"); v != nil {
		return v
	}
	sc.exp["OnWillPublished"]++
	if v := sc.gone("p"); v != nil {
		return v
	}
	// Stop closes a (session kept), d and e (sessions end)
	sc.exp["OnClosed"] += 2
	sc.exp["OnSessionTerminated"]++
	if eAlive {
		sc.exp["OnClosed"]++
		sc.exp["OnSessionTerminated"]++
	}
	return nil
}

// scriptReAuth: a v5 client authenticated with an Authentication Method re-authenticates.
// readHandle's AUTH branch compares the CONNECT's Authentication Method with the AUTH
// packet's Authentication *Data*; the packet is crafted so that this comparison succeeds
// (method == data), the decision sub-check has the case method != data.
func (sc *c14Script) scriptReAuth(s c14CompScen, cs *c14CompCase) *ev.Violation {
	e, eack, v := sc.connect(fixture.ConnectOpts{ID: "e", V: mw.V5, CleanStart: true, Props: &mw.Props{AuthMethod: strp("m")}})
	if v != nil {
		return v
	}
	if eack == nil || eack.ReasonCode != 0 {
		// nobody supplies OnEnhancedAuth: the broker refuses enhanced authentication
		sc.c.Label("enhanced_auth_refused")
		sc.c.Count("skipped_ops", 1)
		if e != nil {
			e.Kill()
		}
		return nil
	}
	if err := e.Send(&mw.Packet{Type: mw.AUTH, ReasonCode: 0x19, Props: &mw.Props{AuthMethod: strp("m"), AuthData: []byte("m"), HasAuthData: true}}); err != nil {
		return harnessErr("send AUTH: %v", err)
	}
	sc.exp["OnReAuth"]++
	p, err := e.WaitFor(func(p *mw.Packet) bool { return p.Type == mw.AUTH || p.Type == mw.DISCONNECT }, fixture.DefaultWait)
	switch {
	case err == nil && p.Type == mw.AUTH:
		sc.c.Label("reauth_answered_auth")
		sc.exp["OnClosed"]++
		sc.exp["OnSessionTerminated"]++
	case err == nil || errors.Is(err, fixture.ErrClosed):
		sc.c.Label("reauth_connection_ended")
		e.WaitClosed(fixture.DefaultWait)
		sc.exp["OnClosed"]++
		sc.exp["OnSessionTerminated"]++
		if v := sc.gone("e"); v != nil {
			return v
		}
	default:
		return ev.Violf("C14.traffic", "AUTH (re-authenticate) neither answered nor the connection ended: %v", err)
	}
	return nil
}

// ---------------------------------------------------------------------------------------
// oracle

func c14Judge(s c14CompScen, recs []c14Rec, exp map[string]int, c *ev.Case) *ev.Violation {
	listed := map[string]bool{"base": true}
	for _, i := range s.Order {
		listed[c14PluginName(i)] = true
	}
	base := map[string]bool{}
	for _, k := range s.Base {
		base[k] = true
	}
	for _, r := range recs {
		if !listed[r.Who] {
			return ev.Violf("C14.wrapper-unlisted", "wrapper of plugin %s ran for %s although the plugin is not in plugin_order %v", r.Who, r.Kind, s.Order).With("kind", r.Kind)
		}
	}
	c.Label(fmt.Sprintf("order_len_%d", len(s.Order)))
	for _, kind := range c14Kinds {
		var chain []string // expected enter order: plugin_order first to last, then the WithHook hook
		for _, i := range s.Order {
			for _, k := range s.Expose[i] {
				if k == kind {
					chain = append(chain, c14PluginName(i))
				}
			}
		}
		nplug := len(chain)
		if base[kind] {
			chain = append(chain, "base")
		}
		n := exp[kind]
		if len(chain) == 0 {
			continue
		}
		// group by event
		var order []int
		enters, exits := map[int][]string{}, map[int][]string{}
		total := map[string]int{}
		for _, r := range recs {
			if r.Kind != kind {
				continue
			}
			if _, ok := enters[r.Ev]; !ok {
				order = append(order, r.Ev)
				enters[r.Ev] = nil
			}
			if r.Phase == "enter" {
				enters[r.Ev] = append(enters[r.Ev], r.Who)
				total[r.Who]++
			} else {
				exits[r.Ev] = append(exits[r.Ev], r.Who)
			}
		}
		c.Logf("%s: expected %d event(s) through %v; observed %d: %v", kind, n, chain, len(order), enters)
		if n > 0 {
			c.Count("events_"+kind, n)
			for _, who := range chain {
				if total[who] == 0 {
					if who == "base" {
						return ev.Violf("C14.fires-once", "%s: the hook given through WithHook never ran although the event happened %d time(s)", kind, n).
							With("kind", kind, "who", "base", "observed", 0, "expected", n)
					}
					return ev.Violf("C14.wrapper-not-installed", "%s: plugin %s exposes a wrapper and is in plugin_order, the event happened %d time(s), the wrapper never ran", kind, who, n).
						With("kind", kind, "base_hook", base[kind])
				}
			}
		}
		if len(order) != n {
			return ev.Violf("C14.fires-once", "%s: the wire shows %d event(s), the hook chain ran %d time(s)", kind, n, len(order)).
				With("kind", kind, "observed", len(order), "expected", n)
		}
		for _, e := range order {
			if !eqStrs(enters[e], chain) {
				got, want := append([]string(nil), enters[e]...), append([]string(nil), chain...)
				sort.Strings(got)
				sort.Strings(want)
				if eqStrs(got, want) {
					return ev.Violf("C14.wrapper-order", "%s: wrappers entered in order %v, plugin_order demands %v (first = outermost)", kind, enters[e], chain).
						With("kind", kind, "nplugins", nplug)
				}
				return ev.Violf("C14.fires-once", "%s: one event ran %v, expected each of %v exactly once", kind, enters[e], chain).With("kind", kind)
			}
			rev := make([]string, len(chain))
			for i, w := range chain {
				rev[len(chain)-1-i] = w
			}
			if !eqStrs(exits[e], rev) {
				return ev.Violf("C14.wrapper-order", "%s: wrappers exited in order %v, expected %v", kind, exits[e], rev).With("kind", kind, "phase", "exit")
			}
		}
		if n > 0 && nplug >= 2 {
			c.NonTrivial()
			c.Count("shared_kind_events", n)
		}
	}
	return nil
}

const c14Rule = "A (composition): rapid draws, for each of the mock plugins vp0..vp3, a subset of the 19 HookWrapper kinds, a subset of kinds supplied through WithHook, plugin_order = a prefix (0-4) of a permutation of the four names, client version, SUBSCRIBE size and publish QoS; scripted traffic (accept, basic/enhanced auth, session created/resumed/terminated, subscribe(d), unsubscribe(d), message arrived/delivered/dropped by Maximum Packet Size, will publish(ed), closed, AUTH re-authentication, Stop) counts the events the wire shows; every wrapper logs enter/exit with an event id carried in ctx; per kind: events observed = events on the wire, enter order = plugin_order then the WithHook hook, exit order reversed. " +
	"B (decisions): WithHook tables with rapid-drawn verdicts: OnBasicAuth/OnEnhancedAuth reject(code|plain error) for v3.1.1/v5 CONNECTs with will / pipelined SUBSCRIBE+retained PUBLISH; OnSubscribe whole-request error, per-topic Reject, GrantQoS, rewritten filter/NoLocal/RAP (in place or replaced object), SetID; OnUnsubscribe error / Reject / redirected topic; OnMsgArrived error(code) / Drop / rewrite of topic, payload, QoS, retained flag (in place or replaced object) with old retained values present or not, and for QoS 2 a retransmission of the PUBLISH (DUP=1, same packet identifier, before PUBREL; on the same connection or after a reconnect that resumes the v3.1/v3.1.1/v5 session) while the hook's verdict has changed to accept - one event, the hook fires once and the first verdict stands; OnWillPublish Drop / in-place edit / replacement; OnReAuth ok / continue / error. SUBACK/UNSUBACK/PUBACK/PUBREC/CONNACK codes, SubscriptionService, RetainedService, ClientService and the messages actually received (barriers: PINGRESP + API sentinel) are compared with the model of the hook's decision; each decision hook is counted. " +
	"Non-trivial: >=2 listed plugins share a kind whose event happened, or the verdict rejects/modifies; distinct by scenario digest."

func TestC14Compose(t *testing.T) {
	ev.SetRule("C14", c14Rule)
	ev.RunN(t, "C14", 0.9, genC14Compose(false), runC14Compose)
}

// TestC14ComposeReAuth covers the OnReAuth kind (its own test so that a failure there does
// not hide the other eighteen kinds).
func TestC14ComposeReAuth(t *testing.T) {
	ev.RunN(t, "C14", 0.1, genC14Compose(true), runC14Compose)
}
