package checks

// C02 native fuzz target for packets.TopicMatch (thorough tier, run by vcheck with an execution bound) and the
// replay of saved inputs ($VERIF_CORPUS/c02, Go's fuzz corpus file format: two []byte literals).

import (
	"os"
	"path/filepath"
	"sort"
	"strings"
	"testing"

	"github.com/DrmagicE/gmqtt/pkg/packets"

	"verif/ev"
	"verif/topicref"
)

// c02TopicMatchBytes is the oracle shared by the rapid check, the fuzz target and the corpus replay: no panic on
// any bytes; on a valid topic name and a valid topic filter the verdict of the reference matcher.
func c02TopicMatchBytes(topic, filter []byte, c *ev.Case) (v *ev.Violation) {
	defer func() {
		if r := recover(); r != nil {
			v = ev.Violf("C02.topicmatch-panic", "TopicMatch(%q,%q) panicked: %v", topic, filter, r)
		}
	}()
	got := packets.TopicMatch(topic, filter)
	if topicref.TopicName(topic) == topicref.Valid && topicref.TopicFilter(filter) == topicref.Valid {
		c.Label("both_valid")
		want := topicref.Match(string(topic), string(filter))
		if want {
			c.NonTrivial()
		}
		if got != want {
			return ev.Violf("C02.topicmatch", "TopicMatch(%q,%q)=%v, reference=%v", topic, filter, got, want).With("topic", string(topic), "filter", string(filter))
		}
	}
	return nil
}

func FuzzC02TopicMatch(f *testing.F) {
	for _, tp := range topicUniverse {
		f.Add([]byte(tp), []byte(tp))
	}
	for i, fl := range allFilters() {
		f.Add([]byte(topicUniverse[i%len(topicUniverse)]), []byte(fl))
	}
	for _, s := range []string{"", "/", "//", "#", "+", "+/+", "a/#", "$x/#", "$share/g/a", "a/+/#", "é/日本/+", "a\x00b", "\xff/+"} {
		f.Add([]byte("a/b"), []byte(s))
		f.Add([]byte(s), []byte("#"))
	}
	f.Fuzz(func(t *testing.T, topic, filter []byte) {
		if len(topic) > 4096 || len(filter) > 4096 {
			return
		}
		if v := c02TopicMatchBytes(topic, filter, &ev.Case{}); v != nil {
			t.Fatalf("%s", v.Error())
		}
	})
}

func TestC02CorpusReplay(t *testing.T) {
	dir := os.Getenv("VERIF_CORPUS")
	if dir == "" {
		dir = "/verif/corpus"
	}
	files, _ := filepath.Glob(filepath.Join(dir, "c02", "*"))
	sort.Strings(files)
	shard, nshards := ev.Shard()
	for i, f := range files {
		if i%nshards != shard {
			continue
		}
		raw, err := os.ReadFile(f)
		if err != nil {
			continue
		}
		lines := strings.Split(strings.ReplaceAll(string(raw), "\r", ""), "\n")
		if len(lines) < 3 || !strings.HasPrefix(lines[0], "go test fuzz v1") {
			t.Errorf("@@HARNESS-ERROR corpus: unknown format %s", f)
			continue
		}
		a, e1 := c06ParseFuzzLiteral(lines[1])
		b, e2 := c06ParseFuzzLiteral(lines[2])
		topic, ok1 := a.([]byte)
		filter, ok2 := b.([]byte)
		if e1 != nil || e2 != nil || !ok1 || !ok2 {
			t.Errorf("@@HARNESS-ERROR corpus: bad literals in %s", f)
			continue
		}
		c := &ev.Case{}
		c.Label("corpus")
		v := c02TopicMatchBytes(topic, filter, c)
		sc := tmScen{Topic: string(topic), Filter: string(filter)}
		ev.Direct("C02", c, sc)
		if v != nil {
			ev.Fail(t, "C02", v, sc)
		}
	}
}
