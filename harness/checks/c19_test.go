package checks

// C19 — No broker state is reachable without passing authentication.
//
// (A) TestC19Accounts: the auth plugin against a harness-side model map[user]plaintext.
// (B) TestC19PreAuth:  packets sent before a successful CONNECT / after a rejected one.

import (
	"context"
	"crypto/md5"
	"encoding/hex"
	"errors"
	"fmt"
	"net"
	"os"
	"path/filepath"
	"sort"
	"strings"
	"testing"
	"time"
	"unicode"
	"unicode/utf8"

	"github.com/DrmagicE/gmqtt"
	"github.com/DrmagicE/gmqtt/persistence/subscription"
	"github.com/DrmagicE/gmqtt/pkg/codes"
	"github.com/DrmagicE/gmqtt/pkg/packets"
	"github.com/DrmagicE/gmqtt/plugin/auth"
	"github.com/DrmagicE/gmqtt/server"
	"google.golang.org/grpc/test/bufconn"
	"pgregory.net/rapid"

	"verif/ev"
	"verif/fixture"
	mw "verif/mqttwire"
)

const c19Rule = "accounts: broker with the auth plugin, hash in {plain,md5,sha256,bcrypt}, password file absolute / relative with ConfigDir = cwd / relative with ConfigDir != cwd; 1-20 steps over Update(user,password) / Delete(user) through the exported account handlers (in-process, no gRPC transport), broker restart on the same configuration, and CONNECT attempts (v3.1/v3.1.1/v5, all four user-name/password flag combinations, user-name class exact|case|prefix|suffix|empty|unknown, password class exact|case|prefix|suffix|empty|other account's|stored hash string|binary, v5 Authentication Method / Data optionally present; 3 user names and passwords from pools with YAML-significant, non-ASCII, empty and maximal strings), then a forced restart and further attempts; right before and right after every restart the exact credentials of every user name and one unknown user are probed; oracle: harness model map[user]plaintext, accepted (CONNACK 0) <=> user name flag set, user present, password equal (never the plugin's compare); a rejected CONNECT gets a failure CONNACK or a close / silence, never code 0, and leaves no session. pre-auth: broker with the auth plugin / with an OnBasicAuth hook / without authentication; a rogue connection (on a second in-memory listener) sends 1-8 packets from {SUBSCRIBE v/# | # | the bystander sentinel filter, PUBLISH v/r QoS0/1 (retained, sometimes not), UNSUBSCRIBE, PUBREL, PUBACK, DISCONNECT, AUTH, PINGREQ, garbage, a second (valid) CONNECT} before any CONNECT or after a CONNECT that is rejected (bad credentials, bad protocol level, empty client id; optionally with a retained will; optionally under the bystander's client id) and holds the connection open; an authenticated bystander subscribed to '#' must receive nothing (API sentinel barrier), sessions / subscriptions / retained store must show only the legitimate clients, also after the rogue connection was closed and a late subscriber of v/# joined. Non-trivial: a CONNECT attempt with a near-miss credential against an existing account (user or password class other than exact / unknown and actually different from the stored pair), or a pre-CONNECT sequence containing SUBSCRIBE / retained PUBLISH / UNSUBSCRIBE; distinct by scenario digest."

// ---------------------------------------------------------------------------------------
// shared: one CONNECT attempt and its outcome

type c19Res struct {
	Code   int  // CONNACK code; -1 when no CONNACK arrived
	Closed bool // the broker closed the connection without CONNACK
	Silent bool // the broker counted the CONNECT, registered nothing and sent nothing
}

func (r c19Res) accepted() bool { return r.Code == 0 }

func (r c19Res) String() string {
	switch {
	case r.Code >= 0:
		return fmt.Sprintf("CONNACK %#02x", r.Code)
	case r.Closed:
		return "closed without CONNACK"
	}
	return "no answer"
}

// c19Broker is a fixture broker with a second in-memory listener whose pipes are small: a
// connection of the fixture's default listener allocates 2 x 256 KiB, which dominates the
// cost of a case made of many short CONNECT attempts. The rogue / probing connections of
// this check use the second listener, legitimate helper clients the default one.
type c19Broker struct {
	*fixture.Broker
	ln *bufconn.Listener
}

func c19Start(o fixture.Opts) (*c19Broker, error) {
	ln := bufconn.Listen(16 << 10)
	o.Extra = append(append([]server.Options(nil), o.Extra...), server.WithTCPListener(ln))
	b, err := fixture.Start(o)
	if err != nil {
		ln.Close()
		return nil, err
	}
	return &c19Broker{Broker: b, ln: ln}, nil
}

func (b *c19Broker) dial() (net.Conn, error) { return b.ln.DialContext(context.Background()) }

func c19ConnectsSeen(b *c19Broker) uint64 {
	return b.Srv.StatsManager().GetGlobalStats().PacketStats.ReceivedTotal.Connect
}

func c19PacketsSeen(b *c19Broker) uint64 {
	return b.Srv.StatsManager().GetGlobalStats().PacketStats.ReceivedTotal.Total
}

// c19BrokerClosed: the reader ended because the stream ended (not because of a decode error).
func c19BrokerClosed(cl *fixture.Client) bool {
	closed, err := cl.Closed()
	return closed && fixture.IsEOF(err)
}

// c19Attempt sends raw (an encoded CONNECT) on a fresh connection and determines the
// outcome. The broker does not always answer a refused CONNECT and never closes the
// connection itself, so "refused" is recognised by: a CONNACK with a non-zero code, an end
// of stream, or (synchronisation only) the broker's CONNECT counter having moved — it moves
// after the decision — while no session is registered for sessionID. sessionID == "" skips
// the session probe (the id may legitimately have a session).
func c19Attempt(b *c19Broker, raw []byte, v mw.Version, id, sessionID string) (*fixture.Client, c19Res, error) {
	base := c19ConnectsSeen(b)
	conn, err := b.dial()
	if err != nil {
		return nil, c19Res{}, err
	}
	cl := fixture.NewClient(conn, id, v)
	if err := cl.SendRaw(raw); err != nil {
		cl.Kill()
		return nil, c19Res{}, err
	}
	got := func(p *mw.Packet) c19Res { return c19Res{Code: int(p.ReasonCode)} }
	deadline := time.Now().Add(fixture.DefaultWait)
	for {
		p, err := cl.WaitType(mw.CONNACK, 2*time.Millisecond)
		if err == nil {
			return cl, got(p), nil
		}
		if errors.Is(err, fixture.ErrClosed) {
			return cl, c19Res{Code: -1, Closed: true}, nil
		}
		if c19ConnectsSeen(b) > base {
			registered := false
			if sessionID != "" {
				s, _ := b.Srv.ClientService().GetSession(sessionID)
				registered = s != nil
			}
			// The decision has been made; the CONNACK (or the close) follows, how soon depends on the load of the
			// machine only: a short wait here turned slowness into "no answer" (false alarm seen in a 16-shard run).
			wait := fixture.DefaultWait
			_ = registered
			p, err := cl.WaitType(mw.CONNACK, wait)
			switch {
			case err == nil:
				return cl, got(p), nil
			case errors.Is(err, fixture.ErrClosed):
				return cl, c19Res{Code: -1, Closed: true}, nil
			}
			// (registered and still no CONNACK: the caller's session oracle reports it)
			return cl, c19Res{Code: -1, Silent: true}, nil
		}
		if time.Now().After(deadline) {
			return cl, c19Res{Code: -1}, fmt.Errorf("CONNECT neither answered, nor counted, nor the connection closed within %v", fixture.DefaultWait)
		}
	}
}

// ---------------------------------------------------------------------------------------
// (A) accounts

type c19Step struct {
	Op    string `json:"op"`           // update | delete | restart | connect
	U     int    `json:"u"`            // index into Users
	Pw    string `json:"pw,omitempty"` // update: new plaintext password (token, see c19Expand)
	V     int    `json:"v,omitempty"`
	UF    bool   `json:"uf,omitempty"`
	PF    bool   `json:"pf,omitempty"`
	UC    string `json:"uc,omitempty"` // user-name class
	PC    string `json:"pc,omitempty"` // password class
	Other int    `json:"o,omitempty"`  // password class "other": whose password
	HasAM bool   `json:"has_am,omitempty"`
	AM    string `json:"am,omitempty"`
	AD    bool   `json:"ad,omitempty"`
}

type c19Scen struct {
	Hash  string    `json:"hash"`
	Loc   string    `json:"loc"` // abs | rel_cwd | rel_other
	Users []string  `json:"users"`
	Steps []c19Step `json:"steps"`
	After []c19Step `json:"after"`
	// Bulk further accounts ("fill-00" …) are created through the account API before the history starts; every one
	// of them is probed before and after every restart like the three named users
	Bulk int `json:"bulk,omitempty"`
}

var c19UserPool = []string{"alice", "Alice", "alic", "alicex", "bob", "Ünï", "用户", "a b", "null", "~", "123", "true", "a: b", "- x", "#c",
	"'q'", "\"dq\"", "[x]", "{y}", "*", "&a", "!t", "|", ">", "%", "`", ",", "?", " lead", "trail ", "back\\slash", "@max"}

var c19PwPool = []string{"secret", "Secret", "secre", "secretx", "p", "", "pässwörd", "密码", " lead", "trail ", "123", "0", "null", "true", "~",
	"a: b", "- x", "# h", "'q'", "\"dq\"", "q'uo\"te", "[x]", "{y}", "*s", "&a", "!t", "|p", ">g", "%p", "`t", "@a", ",c", "?", "two  spaces",
	"back\\slash", "5f4dcc3b5aa765d61d8327deb882cf99", "$2a$04$abcdefghijklmnopqrstuv", "@max", "@maxsp"}

// c19Expand turns the tokens "@max" / "@maxsp" into maximal strings: one byte short of the
// limit so that the suffix class still fits (65535 bytes on the wire, 72 bytes for bcrypt).
func c19Expand(tok, hash string, user bool) string {
	n := 65534
	if hash == auth.Bcrypt && !user {
		n = 71
	}
	switch tok {
	case "@max":
		if user {
			return strings.Repeat("u", n)
		}
		return strings.Repeat("m", n)
	case "@maxsp":
		s := strings.Repeat("ab cd  e ", n/9+1)
		return s[:n-1] + "z"
	}
	return tok
}

var c19UClasses = []string{"exact", "exact", "exact", "exact", "exact", "exact", "case", "prefix", "suffix", "empty", "unknown"}
var c19PClasses = []string{"exact", "exact", "exact", "case", "prefix", "suffix", "empty", "other", "hash", "binary"}

func genC19Connect(t *rapid.T) c19Step {
	s := c19Step{Op: "connect", U: rapid.IntRange(0, 2).Draw(t, "user"), V: rapid.SampledFrom([]int{3, 4, 5}).Draw(t, "v")}
	switch rapid.IntRange(0, 9).Draw(t, "flags") {
	case 0:
	case 1:
		s.UF = true
	case 2:
		s.PF = true
	default:
		s.UF, s.PF = true, true
	}
	s.UC = rapid.SampledFrom(c19UClasses).Draw(t, "uclass")
	s.PC = rapid.SampledFrom(c19PClasses).Draw(t, "pclass")
	s.Other = rapid.IntRange(0, 2).Draw(t, "other")
	if s.V == 5 && rapid.IntRange(0, 5).Draw(t, "enh") == 0 {
		s.HasAM = rapid.IntRange(0, 3).Draw(t, "has_am") != 0
		if s.HasAM {
			s.AM = rapid.SampledFrom([]string{"PLAIN", "SCRAM-SHA-1", ""}).Draw(t, "am")
		}
		s.AD = !s.HasAM || rapid.Bool().Draw(t, "ad")
	}
	return s
}

func genC19Pw(t *rapid.T) string {
	if rapid.IntRange(0, 3).Draw(t, "pwkind") == 0 {
		return rapid.StringMatching(`[a-zA-Z0-9 _:#'"-]{0,12}`).Draw(t, "pwrand")
	}
	return rapid.SampledFrom(c19PwPool).Draw(t, "pw")
}

func genC19(t *rapid.T) c19Scen {
	s := c19Scen{
		// bcrypt (MinCost) is the slowest: drawn less often
		Hash: rapid.SampledFrom([]string{auth.Plain, auth.Plain, auth.MD5, auth.MD5, auth.SHA256, auth.SHA256, auth.Bcrypt}).Draw(t, "hash"),
		Loc:  rapid.SampledFrom([]string{"abs", "rel_cwd", "rel_other"}).Draw(t, "loc"),
	}
	s.Users = rapid.SliceOfNDistinct(rapid.SampledFrom(c19UserPool), 3, 3, rapid.ID[string]).Draw(t, "users")
	if s.Hash != auth.Bcrypt {
		s.Bulk = rapid.SampledFrom([]int{0, 0, 0, 0, 5, 16, 17, 18, 25, 45}).Draw(t, "bulk")
		if v := rapid.IntRange(0, 199).Draw(t, "bulk_1003"); v == 137 || v == 61 || v == 93 { // (rapid favours small values and the bounds: a value in the middle is rare)
			s.Bulk = 1003 // more accounts than any page size or batch limit a list API is likely to use
		}
	}
	n := rapid.IntRange(1, 20).Draw(t, "nsteps")
	for i := 0; i < n; i++ {
		switch k := rapid.IntRange(0, 19).Draw(t, "kind"); {
		case k <= 4:
			s.Steps = append(s.Steps, c19Step{Op: "update", U: rapid.IntRange(0, 2).Draw(t, "user"), Pw: genC19Pw(t)})
		case k <= 6:
			s.Steps = append(s.Steps, c19Step{Op: "delete", U: rapid.IntRange(0, 2).Draw(t, "user")})
		case k == 7:
			s.Steps = append(s.Steps, c19Step{Op: "restart"})
		default:
			s.Steps = append(s.Steps, genC19Connect(t))
		}
	}
	m := rapid.IntRange(0, 5).Draw(t, "nafter")
	for i := 0; i < m; i++ {
		s.After = append(s.After, genC19Connect(t))
	}
	return s
}

func c19SwapCase(s string) string {
	for i, r := range s {
		var o rune
		switch {
		case unicode.IsUpper(r):
			o = unicode.ToLower(r)
		case unicode.IsLower(r):
			o = unicode.ToUpper(r)
		default:
			continue
		}
		if o != r && utf8.RuneLen(o) > 0 {
			return s[:i] + string(o) + s[i+utf8.RuneLen(r):]
		}
	}
	return s
}

func c19DropLast(s string) string {
	if s == "" {
		return s
	}
	_, n := utf8.DecodeLastRuneInString(s)
	return s[:len(s)-n]
}

// c19Paths lays out the password file for a location class inside the fresh directory dir.
// It returns ConfigDir and PasswordFile as handed to the broker. Both the path the plugin
// may derive by joining ConfigDir and PasswordFile and the path it may derive by resolving
// PasswordFile against the process working directory lie inside dir, and their directories
// exist; the working directory itself is never used as a target.
func c19Paths(loc, dir string) (configDir, passwordFile string, err error) {
	cwd, err := os.Getwd()
	if err != nil {
		return "", "", err
	}
	if cwd, err = filepath.EvalSymlinks(cwd); err != nil {
		return "", "", err
	}
	if dir, err = filepath.EvalSymlinks(dir); err != nil {
		return "", "", err
	}
	switch loc {
	case "abs":
		// a real deployment: configuration file and password file in one directory
		return dir, filepath.Join(dir, "pw.yml"), nil
	case "rel_cwd":
		rel, err := filepath.Rel(cwd, filepath.Join(dir, "pw.yml"))
		return cwd, rel, err
	case "rel_other":
		// PasswordFile is relative and ConfigDir is not the working directory. Resolved
		// against the working directory it is dir/pw/pw.yml; joined to ConfigDir (dir/cfg/d/d/…
		// with one level per leading "..") it is dir/cfg/<rest>.
		if err := os.MkdirAll(filepath.Join(dir, "pw"), 0o755); err != nil {
			return "", "", err
		}
		rel, err := filepath.Rel(cwd, filepath.Join(dir, "pw", "pw.yml"))
		if err != nil {
			return "", "", err
		}
		configDir = filepath.Join(dir, "cfg")
		rest := rel
		for strings.HasPrefix(rest, ".."+string(filepath.Separator)) {
			rest = rest[3:]
			configDir = filepath.Join(configDir, "d")
		}
		if err := os.MkdirAll(configDir, 0o755); err != nil {
			return "", "", err
		}
		if err := os.MkdirAll(filepath.Dir(filepath.Join(dir, "cfg", rest)), 0o755); err != nil {
			return "", "", err
		}
		return configDir, rel, nil
	}
	return "", "", fmt.Errorf("unknown location class %q", loc)
}

type c19Model struct {
	cur      map[string]string  // user -> plaintext
	last     map[string]string  // last password a user ever had (to derive near misses for deleted users)
	prev     map[string]*string // state before the last API operation on the user in this broker lifetime
	touched  map[string]bool    // user changed through the API in this broker lifetime
	restarts int
}

func (m *c19Model) expect(uf, pf bool, user, pw string, cur map[string]string) (accept, ambiguous bool) {
	if !uf {
		return false, false
	}
	mp, ok := cur[user]
	if !ok {
		return false, false
	}
	if !pf {
		// no password at all against an account with the empty password: the property does
		// not say whether "absent" matches "empty"
		return false, mp == ""
	}
	return mp == pw, false
}

func runC19(s c19Scen, c *ev.Case) *ev.Violation {
	if len(s.Users) != 3 {
		return harnessErr("scenario needs 3 users")
	}
	dir, err := os.MkdirTemp("", "c19-")
	if err != nil {
		return harnessErr("temp dir: %v", err)
	}
	defer os.RemoveAll(dir)
	configDir, pwFile, err := c19Paths(s.Loc, dir)
	if err != nil {
		return harnessErr("layout: %v", err)
	}
	c.Label("hash_" + s.Hash)
	c.Label("loc_" + s.Loc)
	cfg := fixture.WithAuth(fixture.BaseConfig(), configDir, pwFile, s.Hash)
	var b *c19Broker
	var a *auth.Auth
	start := func() error {
		nb, err := c19Start(fixture.Opts{Config: cfg})
		if err != nil {
			return err
		}
		b = nb
		if a = b.AuthPlugin(); a == nil {
			return errors.New("auth plugin not loaded")
		}
		return nil
	}
	if err := start(); err != nil {
		return harnessErr("first start (ConfigDir %q, password_file %q): %v", configDir, pwFile, err)
	}
	defer func() { b.Stop() }()

	users := make([]string, 3)
	for i, u := range s.Users {
		users[i] = c19Expand(u, s.Hash, true)
	}
	m := &c19Model{cur: map[string]string{}, last: map[string]string{}, prev: map[string]*string{}, touched: map[string]bool{}}
	attempt := 0
	nontrivial := false
	for k := 0; k < s.Bulk; k++ {
		u, pw := fmt.Sprintf("fill-%02d", k), fmt.Sprintf("fp-%02d", k)
		if _, err := a.Update(context.Background(), &auth.UpdateAccountRequest{Username: u, Password: pw}); err != nil {
			return ev.Violf("C19.api-effect", "Update(%q, %q) returned an error: %v", u, pw, err).With("hash", s.Hash, "loc", s.Loc)
		}
		users = append(users, u)
		m.cur[u], m.last[u] = pw, pw
	}
	if s.Bulk > 0 {
		c.Label(fmt.Sprintf("bulk_accounts_%d", s.Bulk))
	}

	doConnect := func(st c19Step, phase string) *ev.Violation {
		attempt++
		target := users[st.U]
		base, have := m.cur[target]
		if !have {
			if l, ok := m.last[target]; ok {
				base = l
			} else {
				base = "secret"
			}
		}
		user := target
		switch st.UC {
		case "case":
			user = c19SwapCase(target)
		case "prefix":
			user = c19DropLast(target)
		case "suffix":
			user = target + "x"
		case "empty":
			user = ""
		case "unknown":
			user = "nobody"
		}
		var pw []byte
		switch st.PC {
		case "exact":
			pw = []byte(base)
		case "case":
			pw = []byte(c19SwapCase(base))
		case "prefix":
			pw = []byte(c19DropLast(base))
		case "suffix":
			pw = []byte(base + "x")
		case "empty":
			pw = []byte{}
		case "other":
			if o, ok := m.cur[users[st.Other]]; ok {
				pw = []byte(o)
			} else {
				pw = []byte("otherpw")
			}
		case "hash":
			// the stored hash string itself (read through the account API, never used as oracle)
			if have {
				r, err := a.Get(context.Background(), &auth.GetAccountRequest{Username: target})
				if err != nil || r.Account == nil {
					return ev.Violf("C19.api-effect", "Get(%q) fails for an account the model has: %v", clipStr19(target), err).With("hash", s.Hash)
				}
				pw = []byte(r.Account.Password)
			} else {
				h := md5.Sum([]byte(base))
				pw = []byte(hex.EncodeToString(h[:]))
			}
			if len(pw) > 65535 {
				pw = pw[:65535]
			}
		case "binary":
			pw = append([]byte(c19DropLast(base)), 0x00, 0xff)
		default:
			return harnessErr("unknown password class %q", st.PC)
		}
		if s.Hash == auth.Bcrypt && len(pw) > 72 {
			pw = pw[:72]
		}
		id := fmt.Sprintf("c19-%d", attempt)
		v := ver(st.V)
		name, lvl := mw.ProtoFor(v)
		pkt := &mw.Packet{Type: mw.CONNECT, ProtoName: name, ProtoLevel: lvl, CleanStart: true, KeepAlive: 0, ClientID: id,
			HasUsername: st.UF, HasPassword: st.PF}
		if st.UF {
			pkt.Username = user
		}
		if st.PF {
			pkt.Password = pw
		}
		enhanced := false
		if st.V == 5 && (st.HasAM || st.AD) {
			enhanced = true
			pkt.Props = &mw.Props{}
			if st.HasAM {
				pkt.Props.AuthMethod = strp(st.AM)
			}
			if st.AD {
				pkt.Props.AuthData, pkt.Props.HasAuthData = []byte("data"), true
			}
			c.Label("enhanced_auth_props")
		}
		raw, err := mw.Encode(pkt, v)
		if err != nil {
			return harnessErr("encode CONNECT: %v", err)
		}
		want, ambiguous := m.expect(st.UF, st.PF, user, string(pw), m.cur)
		// near miss: aimed at an existing account, some class other than exact/unknown, and the
		// pair actually differs from the stored one
		if have && st.UF && st.PF && st.UC != "unknown" && !want && (st.UC != "exact" || st.PC != "exact") {
			nontrivial = true
			c.Count("near_miss_attempts", 1)
		}
		c.Logf("%s attempt %d: v%d uf=%v pf=%v uclass=%s pclass=%s user=%q pw=%q enhanced=%v -> model says accept=%v (ambiguous=%v)",
			phase, attempt, st.V, st.UF, st.PF, st.UC, st.PC, clipStr19(user), clipStr19(string(pw)), enhanced, want, ambiguous)
		cl, res, err := c19Attempt(b, raw, v, id, id)
		if cl != nil {
			defer cl.Kill()
		}
		if err != nil {
			if cl == nil {
				return harnessErr("attempt: %v", err)
			}
			return harnessErr("attempt %d: %v", attempt, err)
		}
		c.Logf("   outcome: %s", res)
		feat := []any{"hash", s.Hash, "version", st.V, "uflag", st.UF, "pflag", st.PF, "uclass", st.UC, "pclass", st.PC, "loc", s.Loc,
			"phase", phase, "enhanced", enhanced, "outcome", res.String()}
		got := res.accepted()
		if !got {
			// a refusal must look like one and must leave nothing behind
			if res.Code >= 0 && ((st.V == 5 && res.Code < 0x80) || (st.V != 5 && res.Code > 5)) {
				return ev.Violf("C19.reject-code", "attempt %d refused with CONNACK code %#x, which is not a failure code of MQTT %s", attempt, res.Code, v).With(feat...)
			}
			if sess, _ := b.Srv.ClientService().GetSession(id); sess != nil {
				return ev.Violf("C19.session-after-reject", "attempt %d (%s) left a session for client id %q", attempt, res, id).With(feat...)
			}
			switch {
			case res.Closed:
				c.Count("refused_by_close", 1)
			case res.Silent:
				c.Count("refused_silently", 1)
			default:
				c.Count("refused_by_connack", 1)
			}
		} else {
			c.Count("accepted", 1)
		}
		switch {
		case ambiguous:
			c.Count("ambiguous_absent_vs_empty_password", 1)
			return nil
		case got == want:
			return nil
		case enhanced && !got:
			// an unsupported authentication method may be refused even with valid credentials
			c.Count("valid_credentials_refused_with_auth_method", 1)
			return nil
		}
		// classify the disagreement
		assertion := "C19.reject-invalid"
		if want {
			assertion = "C19.accept-valid"
		}
		if m.touched[user] {
			var prevCur = map[string]string{}
			if p := m.prev[user]; p != nil {
				prevCur[user] = *p
			}
			if old, _ := m.expect(st.UF, st.PF, user, string(pw), prevCur); old == got {
				assertion = "C19.api-effect"
			}
		} else if m.restarts > 0 && phase == "after_restart_exact" {
			// the same probe agreed with the model right before the restart
			assertion = "C19.restart-load"
		}
		return ev.Violf(assertion, "attempt %d (%s, %d restart(s) so far): user %q password %q: model says accept=%v, broker: %s; accounts in the model: %s",
			attempt, phase, m.restarts, clipStr19(user), clipStr19(string(pw)), want, res, m.describe()).With(feat...)
	}

	// probes: the exact credentials of every user name and one unknown user. Run right before
	// and right after every restart so that a disagreement after the restart that was not there
	// before it is attributable to loading.
	probes := func(phase string) *ev.Violation {
		for i := range users {
			// with more than a thousand accounts: the first ten, every 37th and the last thirty
			if len(users) > 100 && i >= 10 && i%37 != 0 && i < len(users)-30 {
				continue
			}
			if v := doConnect(c19Step{Op: "connect", U: i, V: 4, UF: true, PF: true, UC: "exact", PC: "exact"}, phase); v != nil {
				return v
			}
		}
		return doConnect(c19Step{Op: "connect", U: 0, V: 4, UF: true, PF: true, UC: "unknown", PC: "exact"}, phase)
	}
	restart := func() *ev.Violation {
		if v := probes("before_restart"); v != nil {
			return v
		}
		if err := b.Stop(); err != nil {
			return harnessErr("stop: %v", err)
		}
		if err := start(); err != nil {
			// the broker must come up again on what the account API wrote
			return ev.Violf("C19.restart-load", "the broker does not start again on its own password file (hash %s, ConfigDir %q, password_file %q): %v; accounts in the model: %s",
				s.Hash, configDir, pwFile, err, m.describe()).With("hash", s.Hash, "loc", s.Loc)
		}
		m.restarts++
		m.prev, m.touched = map[string]*string{}, map[string]bool{}
		return nil
	}

	for i, st := range s.Steps {
		switch st.Op {
		case "update":
			u, pw := users[st.U], c19Expand(st.Pw, s.Hash, false)
			c.Logf("step %d: Update(%q, %q)", i, clipStr19(u), clipStr19(pw))
			if _, err := a.Update(context.Background(), &auth.UpdateAccountRequest{Username: u, Password: pw}); err != nil {
				return ev.Violf("C19.api-effect", "Update(%q, %q) returned an error: %v", clipStr19(u), clipStr19(pw), err).With("hash", s.Hash, "loc", s.Loc)
			}
			if old, ok := m.cur[u]; ok {
				m.prev[u] = &old
			} else {
				m.prev[u] = nil
			}
			m.cur[u], m.last[u], m.touched[u] = pw, pw, true
		case "delete":
			u := users[st.U]
			c.Logf("step %d: Delete(%q)", i, clipStr19(u))
			if _, err := a.Delete(context.Background(), &auth.DeleteAccountRequest{Username: u}); err != nil {
				return ev.Violf("C19.api-effect", "Delete(%q) returned an error: %v", clipStr19(u), err).With("hash", s.Hash, "loc", s.Loc)
			}
			if old, ok := m.cur[u]; ok {
				m.prev[u] = &old
				c.Label("delete_existing")
			} else {
				m.prev[u] = nil
			}
			delete(m.cur, u)
			m.touched[u] = true
		case "restart":
			c.Logf("step %d: restart", i)
			if v := restart(); v != nil {
				return v
			}
			if v := probes("after_restart_exact"); v != nil {
				return v
			}
			c.Label("restart_mid_history")
		case "connect":
			if v := doConnect(st, "history"); v != nil {
				return v
			}
		default:
			return harnessErr("unknown op %q", st.Op)
		}
	}
	c.Logf("final restart; model: %s", m.describe())
	if v := restart(); v != nil {
		return v
	}
	if v := probes("after_restart_exact"); v != nil {
		return v
	}
	for _, st := range s.After {
		if v := doConnect(st, "after_restart"); v != nil {
			return v
		}
	}
	if nontrivial {
		c.NonTrivial()
	}
	return nil
}

func (m *c19Model) describe() string {
	var ks []string
	for k, v := range m.cur {
		ks = append(ks, fmt.Sprintf("%q:%q", clipStr19(k), clipStr19(v)))
	}
	sort.Strings(ks)
	return "{" + strings.Join(ks, ", ") + "}"
}

func clipStr19(s string) string {
	if len(s) > 48 {
		return fmt.Sprintf("%s…(%d bytes)", s[:24], len(s))
	}
	return s
}

func TestC19Accounts(t *testing.T) {
	ev.SetRule("C19", c19Rule)
	ev.Run(t, "C19", genC19, runC19)
}

// ---------------------------------------------------------------------------------------
// (B) traffic before authentication

type c19Pkt struct {
	K      string `json:"k"` // sub pub unsub pubrel puback disconnect auth ping garbage connect
	QoS    byte   `json:"q,omitempty"`
	NR     bool   `json:"nr,omitempty"` // pub: RETAIN not set (default: retained)
	Filter string `json:"f,omitempty"`
	G      string `json:"g,omitempty"` // garbage kind
}

type c19PreScen struct {
	Auth     string   `json:"auth"`                // plugin | hook | none
	Hash     string   `json:"hash,omitempty"`      // plugin only
	V        int      `json:"v"`                   // protocol version the rogue speaks
	Mode     string   `json:"mode"`                // before | after_reject
	Reject   string   `json:"reject,omitempty"`    // creds | authmethod | proto | emptyid
	Will     bool     `json:"will,omitempty"`      // the rejected CONNECT carries a retained will on v/w
	AsVictim bool     `json:"as_victim,omitempty"` // the rogue CONNECTs use the bystander's client id
	Seq      []c19Pkt `json:"seq"`
}

func genC19Pre(t *rapid.T) c19PreScen {
	s := c19PreScen{
		Auth: rapid.SampledFrom([]string{"plugin", "plugin", "hook", "none"}).Draw(t, "auth"),
		V:    rapid.SampledFrom([]int{3, 4, 5}).Draw(t, "v"),
		Mode: rapid.SampledFrom([]string{"before", "after_reject"}).Draw(t, "mode"),
	}
	if s.Auth == "plugin" {
		s.Hash = rapid.SampledFrom([]string{auth.Plain, auth.MD5, auth.SHA256, auth.Bcrypt}).Draw(t, "hash")
	}
	if s.Mode == "after_reject" {
		// creds / authmethod are refused by CONNACK (the connection stays usable for the rogue),
		// proto / emptyid already fail in the decoder
		rs := []string{"creds", "creds", "creds", "creds", "authmethod", "proto", "emptyid"}
		if s.Auth == "none" {
			rs = []string{"authmethod", "authmethod", "authmethod", "proto", "emptyid"}
		}
		s.Reject = rapid.SampledFrom(rs).Draw(t, "reject")
		if s.Reject == "emptyid" && s.V == 5 {
			s.Reject = "proto"
		}
		if s.Reject == "authmethod" {
			s.V = 5
		}
		s.Will = rapid.IntRange(0, 2).Draw(t, "will") == 0
	}
	s.AsVictim = rapid.IntRange(0, 3).Draw(t, "as_victim") == 0
	n := rapid.IntRange(1, 8).Draw(t, "npkts")
	for i := 0; i < n; i++ {
		k := rapid.SampledFrom([]string{"sub", "sub", "pub", "pub", "pub", "unsub", "pubrel", "puback", "disconnect", "auth", "ping", "garbage", "connect"}).Draw(t, "pkt")
		if k == "connect" && i == 0 && s.Mode == "before" {
			k = "pub" // a CONNECT as the very first packet is an ordinary connect, not pre-auth traffic
		}
		p := c19Pkt{K: k}
		switch k {
		case "pub":
			p.QoS = byte(rapid.IntRange(0, 1).Draw(t, "qos"))
			p.NR = rapid.IntRange(0, 3).Draw(t, "not_retained") == 0
		case "sub":
			p.QoS = byte(rapid.IntRange(0, 2).Draw(t, "qos"))
			p.Filter = rapid.SampledFrom([]string{"v/#", "#", "$vs/bystander"}).Draw(t, "filter")
		case "unsub":
			p.Filter = rapid.SampledFrom([]string{"#", "v/#", "$vs/bystander"}).Draw(t, "filter")
		case "garbage":
			p.G = rapid.SampledFrom([]string{"type0", "type0", "badflags", "varint5", "trunc"}).Draw(t, "garbage")
		}
		s.Seq = append(s.Seq, p)
	}
	return s
}

func c19Hook() *server.Hooks {
	return &server.Hooks{OnBasicAuth: func(ctx context.Context, client server.Client, req *server.ConnectRequest) error {
		if string(req.Connect.Username) == "bad" {
			if packets.IsVersion3X(client.Version()) {
				return codes.NewError(codes.V3NotAuthorized)
			}
			return codes.NewError(codes.NotAuthorized)
		}
		return nil
	}}
}

func runC19Pre(s c19PreScen, c *ev.Case) *ev.Violation {
	c.Label("pre_auth_" + s.Auth)
	c.Label("pre_mode_" + s.Mode)
	cfg := fixture.BaseConfig()
	opts := fixture.Opts{}
	switch s.Auth {
	case "plugin":
		dir, err := os.MkdirTemp("", "c19-")
		if err != nil {
			return harnessErr("temp dir: %v", err)
		}
		defer os.RemoveAll(dir)
		configDir, pwFile, err := c19Paths("abs", dir)
		if err != nil {
			return harnessErr("layout: %v", err)
		}
		cfg = fixture.WithAuth(cfg, configDir, pwFile, s.Hash)
	case "hook":
		opts.Hooks = c19Hook()
	case "none":
	default:
		return harnessErr("unknown auth mode %q", s.Auth)
	}
	opts.Config = cfg
	b, err := c19Start(opts)
	if err != nil {
		return harnessErr("start broker: %v", err)
	}
	defer b.Stop()
	if s.Auth == "plugin" {
		a := b.AuthPlugin()
		if a == nil {
			return harnessErr("auth plugin not loaded")
		}
		if _, err := a.Update(context.Background(), &auth.UpdateAccountRequest{Username: "good", Password: "pw"}); err != nil {
			return harnessErr("Update(good): %v", err)
		}
	}
	feat := []any{"auth", s.Auth, "version", s.V, "mode", s.Mode, "reject", s.Reject, "as_victim", s.AsVictim}

	by, ack, err := b.Connect(fixture.ConnectOpts{ID: "bystander", V: mw.V5, CleanStart: true, AutoAck: true, Username: strp("good"), Password: []byte("pw")})
	if err != nil || ack.ReasonCode != 0 {
		return harnessErr("bystander connect: %v %v", ack, err)
	}
	defer by.Kill()
	if err := subscribeSentinel(by); err != nil {
		return harnessErr("%v", err)
	}
	if code, err := subscribeOne(by, 2, subSpec{Filter: "#", QoS: 1}); err != nil || code != 1 {
		return harnessErr("bystander subscribe #: %v %v", code, err)
	}
	if err := by.Ping(fixture.DefaultWait); err != nil {
		return harnessErr("bystander ping: %v", err)
	}
	legitSessions := map[string]bool{"bystander": true}
	legitSubs := map[string]bool{"bystander|#": true, "bystander|" + fixture.SentinelTopic("bystander"): true}
	live := []*fixture.Client{by}

	oracles := func(when string) *ev.Violation {
		if err := sentinelBarrier(b.Broker, live, "b-"+when); err != nil {
			return ev.Violf("C19.preauth-delivery", "%s: a legitimate client no longer receives (was it disconnected by the unauthenticated connection?): %v", when, err).With(feat...)
		}
		for _, cl := range live {
			for _, r := range cl.All() {
				switch {
				case isSentinel(r.P), r.P.Type == mw.SUBACK, r.P.Type == mw.CONNACK, r.P.Type == mw.PINGRESP:
				default:
					return ev.Violf("C19.preauth-delivery", "%s: client %s received %s although only an unauthenticated connection sent anything", when, cl.ID, r.P).With(feat...)
				}
			}
		}
		var sessions []string
		if err := b.Srv.ClientService().IterateSession(func(se *gmqtt.Session) bool {
			sessions = append(sessions, se.ClientID)
			return true
		}); err != nil {
			return harnessErr("IterateSession: %v", err)
		}
		sort.Strings(sessions)
		if len(sessions) != len(legitSessions) {
			return ev.Violf("C19.preauth-session", "%s: sessions %v, legitimate clients %v", when, sessions, keys19(legitSessions)).With(feat...)
		}
		for _, id := range sessions {
			if !legitSessions[id] {
				return ev.Violf("C19.preauth-session", "%s: sessions %v, legitimate clients %v", when, sessions, keys19(legitSessions)).With(feat...)
			}
		}
		for id := range legitSessions {
			if cl := b.Srv.ClientService().GetClient(id); cl == nil {
				return ev.Violf("C19.preauth-session", "%s: legitimate client %q is no longer registered", when, id).With(feat...)
			}
		}
		var subs []string
		b.Srv.SubscriptionService().Iterate(func(clientID string, sub *gmqtt.Subscription) bool {
			f := sub.TopicFilter
			if sub.ShareName != "" {
				f = "$share/" + sub.ShareName + "/" + f
			}
			subs = append(subs, clientID+"|"+f)
			return true
		}, subscription.IterationOptions{Type: subscription.TypeAll})
		sort.Strings(subs)
		if !eqStrs(subs, keys19(legitSubs)) {
			return ev.Violf("C19.preauth-subscription", "%s: subscriptions %v, legitimate %v", when, subs, keys19(legitSubs)).With(feat...)
		}
		var retained []string
		b.Srv.RetainedService().Iterate(func(msg *gmqtt.Message) bool {
			retained = append(retained, msg.Topic)
			return true
		})
		if len(retained) != 0 || b.Srv.RetainedService().GetRetainedMessage("v/r") != nil || b.Srv.RetainedService().GetRetainedMessage("v/w") != nil {
			return ev.Violf("C19.preauth-retained", "%s: retained store holds %v although nobody authenticated published", when, retained).With(feat...)
		}
		return nil
	}

	// ---- the rogue connection
	rv := ver(s.V)
	rogueID := "rogue"
	if s.AsVictim {
		rogueID = "bystander"
		c.Label("pre_as_victim")
	}
	base := c19PacketsSeen(b)
	expectCounted := uint64(0)
	var rogue *fixture.Client
	if s.Mode == "after_reject" {
		name, lvl := mw.ProtoFor(rv)
		pkt := &mw.Packet{Type: mw.CONNECT, ProtoName: name, ProtoLevel: lvl, CleanStart: true, ClientID: rogueID,
			HasUsername: true, Username: "good", HasPassword: true, Password: []byte("pw")}
		switch s.Reject {
		case "creds":
			if s.Auth == "hook" {
				pkt.Username = "bad"
			} else {
				pkt.Password = []byte("pW")
			}
		case "authmethod":
			// v5 enhanced authentication nobody offers (valid user name and password besides)
			pkt.Props = &mw.Props{AuthMethod: strp("SCRAM-SHA-1"), AuthData: []byte("x"), HasAuthData: true}
		case "proto":
			pkt.ProtoLevel = 6
		case "emptyid":
			pkt.ClientID, pkt.CleanStart = "", false
		}
		if s.Will {
			pkt.Will = &mw.Will{QoS: 1, Retain: true, Topic: "v/w", Payload: []byte("WILL")}
			c.Label("pre_rejected_connect_with_will")
		}
		raw, err := mw.Encode(pkt, rv)
		if err != nil {
			return harnessErr("encode CONNECT: %v", err)
		}
		cl, res, err := c19Attempt(b, raw, rv, "rogue-conn", "")
		if cl != nil {
			defer cl.Kill()
		}
		if err != nil {
			return harnessErr("rogue CONNECT: %v", err)
		}
		c.Logf("rejected CONNECT (%s): %s", s.Reject, res)
		if res.accepted() {
			if s.Reject == "creds" {
				return ev.Violf("C19.reject-invalid", "CONNECT with bad credentials accepted (auth mode %s)", s.Auth).With(feat...)
			}
			// not a matter of this property: the connection is simply a legitimate one
			c.Count("pre_reject_not_rejected", 1)
			return nil
		}
		rogue = cl
		expectCounted++
		c.Label("pre_reject_" + s.Reject)
	} else {
		conn, err := b.dial()
		if err != nil {
			return harnessErr("dial: %v", err)
		}
		// the broker answers a connection that never sent CONNECT in v3 framing
		rogue = fixture.NewClient(conn, "rogue-conn", mw.V311)
		defer rogue.Kill()
	}
	stateChanging := false
	for i, p := range s.Seq {
		var raw []byte
		var err error
		enc := func(p *mw.Packet) { raw, err = mw.Encode(p, rv) }
		switch p.K {
		case "sub":
			enc(&mw.Packet{Type: mw.SUBSCRIBE, PacketID: uint16(i + 1), Subs: []mw.SubReq{{Filter: p.Filter, QoS: p.QoS}}})
			stateChanging = true
		case "pub":
			enc(&mw.Packet{Type: mw.PUBLISH, Topic: "v/r", Retain: !p.NR, QoS: p.QoS, PacketID: uint16(i + 1), Payload: []byte("ROGUE")})
			stateChanging = true
		case "unsub":
			enc(&mw.Packet{Type: mw.UNSUBSCRIBE, PacketID: uint16(i + 1), Filters: []string{p.Filter}})
			stateChanging = true
		case "pubrel":
			enc(&mw.Packet{Type: mw.PUBREL, PacketID: uint16(i + 1)})
		case "puback":
			enc(&mw.Packet{Type: mw.PUBACK, PacketID: uint16(i + 1)})
		case "disconnect":
			enc(&mw.Packet{Type: mw.DISCONNECT})
		case "ping":
			enc(&mw.Packet{Type: mw.PINGREQ})
		case "auth":
			raw, err = mw.Encode(&mw.Packet{Type: mw.AUTH, ReasonCode: 0x18, Props: &mw.Props{AuthMethod: strp("PLAIN"), AuthData: []byte("x"), HasAuthData: true}}, mw.V5)
		case "connect":
			name, lvl := mw.ProtoFor(rv)
			id := rogueID
			if id == "rogue" {
				id = "rogue2"
			}
			enc(&mw.Packet{Type: mw.CONNECT, ProtoName: name, ProtoLevel: lvl, CleanStart: true, ClientID: id,
				HasUsername: true, Username: "good", HasPassword: true, Password: []byte("pw")})
		case "garbage":
			switch p.G {
			case "type0":
				raw = []byte{0x00, 0x00}
			case "badflags":
				raw = []byte{0x80, 0x06, 0x00, 0x01, 0x00, 0x01, 'v', 0x00} // SUBSCRIBE with flags 0
			case "varint5":
				raw = []byte{0x30, 0xff, 0xff, 0xff, 0xff, 0x01}
			case "trunc":
				raw = []byte{0x82, 0x20, 0x00, 0x01, 0x00} // SUBSCRIBE announcing 32 bytes, 3 sent
			default:
				return harnessErr("unknown garbage kind %q", p.G)
			}
		default:
			return harnessErr("unknown packet kind %q", p.K)
		}
		if err != nil {
			return harnessErr("encode %s: %v", p.K, err)
		}
		c.Label("pre_pkt_" + p.K)
		if werr := rogue.SendRaw(raw); werr != nil {
			c.Logf("rogue packet %d (%s): write failed: %v", i, p.K, werr)
			break
		}
		expectCounted++
	}
	if stateChanging {
		c.NonTrivial()
	}
	// synchronisation only (no verdict depends on it): give the broker the chance to read
	// what was sent — every packet it reads is counted — or to close the connection.
	for deadline := time.Now().Add(300 * time.Millisecond); ; {
		if c19BrokerClosed(rogue) {
			c.Count("pre_rogue_closed_by_broker", 1)
			break
		}
		if c19PacketsSeen(b) >= base+expectCounted {
			c.Count("pre_rogue_all_packets_read", 1)
			time.Sleep(2 * time.Millisecond) // read is not yet handled, should anything handle it
			break
		}
		if time.Now().After(deadline) {
			c.Count("pre_sync_timeout", 1)
			break
		}
		time.Sleep(time.Millisecond)
	}
	// what the rogue connection itself is told is not part of the property (state oracles below)
	for _, r := range rogue.All() {
		c.Logf("rogue received %s", r.P)
		c.Count(fmt.Sprintf("pre_rogue_got_%s_%#02x", r.P.Type, r.P.ReasonCode), 1)
	}
	if v := oracles("rogue-open"); v != nil {
		return v
	}
	// close the rogue connection, let a late legitimate subscriber of v/# join: no retained
	// message, no will, nothing changes
	rogue.Kill()
	late, ack, err := b.Connect(fixture.ConnectOpts{ID: "late", V: mw.V311, CleanStart: true, AutoAck: true, Username: strp("good"), Password: []byte("pw")})
	if err != nil || ack.ReasonCode != 0 {
		return harnessErr("late connect: %v %v", ack, err)
	}
	defer late.Kill()
	if err := subscribeSentinel(late); err != nil {
		return harnessErr("%v", err)
	}
	if code, err := subscribeOne(late, 3, subSpec{Filter: "v/#", QoS: 1}); err != nil || code != 1 {
		return harnessErr("late subscribe: %v %v", code, err)
	}
	legitSessions["late"] = true
	legitSubs["late|v/#"], legitSubs["late|"+fixture.SentinelTopic("late")] = true, true
	live = append(live, late)
	return oracles("rogue-closed")
}

func keys19(m map[string]bool) []string {
	var ks []string
	for k := range m {
		ks = append(ks, k)
	}
	sort.Strings(ks)
	return ks
}

func TestC19PreAuth(t *testing.T) {
	ev.SetRule("C19", c19Rule)
	ev.Run(t, "C19", genC19Pre, runC19Pre)
}
