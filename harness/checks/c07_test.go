package checks

// C07 — Retained messages: last value per topic, replayed to new subscriptions per spec.

import (
	"fmt"
	"sort"
	"testing"

	"github.com/DrmagicE/gmqtt"
	"github.com/DrmagicE/gmqtt/retained"
	rtrie "github.com/DrmagicE/gmqtt/retained/trie"
	"pgregory.net/rapid"

	"verif/ev"
	"verif/fixture"
	mw "verif/mqttwire"
	"verif/topicref"
)

// ---------------------------------------------------------------------------------------
// store level

type rOp struct {
	Op    string `json:"op"` // put remove clearall
	Topic string `json:"t,omitempty"`
	QoS   byte   `json:"q,omitempty"`
}

type c07StoreScen struct {
	Ops    []rOp    `json:"ops"`
	Probes []string `json:"probes"` // filters queried after every op
}

func genC07Store(t *rapid.T) c07StoreScen {
	var s c07StoreScen
	n := rapid.IntRange(1, 30).Draw(t, "nops")
	for i := 0; i < n; i++ {
		switch k := rapid.IntRange(0, 19).Draw(t, "kind"); {
		case k <= 11:
			s.Ops = append(s.Ops, rOp{Op: "put", Topic: genTopicName(t, "topic"), QoS: byte(rapid.IntRange(0, 2).Draw(t, "qos"))})
		case k <= 18:
			s.Ops = append(s.Ops, rOp{Op: "remove", Topic: genTopicName(t, "topic")})
		default:
			s.Ops = append(s.Ops, rOp{Op: "clearall"})
		}
	}
	np := rapid.IntRange(1, 5).Draw(t, "nprobes")
	for i := 0; i < np; i++ {
		s.Probes = append(s.Probes, genFilter(t, "probe"))
	}
	return s
}

type rMsg struct {
	UID string
	QoS byte
}

func retainedRows(ms []*gmqtt.Message) []string {
	out := make([]string, 0, len(ms))
	for _, m := range ms {
		if m == nil {
			out = append(out, "<nil>")
			continue
		}
		out = append(out, fmt.Sprintf("%s=%s/q%d/r%v", m.Topic, m.Payload, m.QoS, m.Retained))
	}
	sort.Strings(out)
	return out
}

func modelRows(m map[string]rMsg, filter string) []string {
	var out []string
	for tp, v := range m {
		if filter == "" || topicref.Match(tp, filter) {
			out = append(out, fmt.Sprintf("%s=%s/q%d/r%v", tp, v.UID, v.QoS, true))
		}
	}
	sort.Strings(out)
	return out
}

func checkRetainedStore(st retained.Store, m map[string]rMsg, filters []string, topics []string, c *ev.Case) *ev.Violation {
	for _, f := range filters {
		got, want := retainedRows(st.GetMatchedMessages(f)), modelRows(m, f)
		if !eqStrs(got, want) {
			return ev.Violf("C07.store-match", "GetMatchedMessages(%q) = %v, model says %v", f, got, want).With("filter", f)
		}
		if len(want) > 0 {
			c.Count("nonempty_answers", 1)
		}
	}
	for _, tp := range topics {
		got := st.GetRetainedMessage(tp)
		want, ok := m[tp]
		if ok != (got != nil) || (ok && (string(got.Payload) != want.UID || got.QoS != want.QoS)) {
			return ev.Violf("C07.store-get", "GetRetainedMessage(%q) = %v, model has %v (present=%v)", tp, got, want, ok).With("topic", tp)
		}
	}
	var all []*gmqtt.Message
	st.Iterate(func(msg *gmqtt.Message) bool { all = append(all, msg); return true })
	if got, want := retainedRows(all), modelRows(m, ""); !eqStrs(got, want) {
		return ev.Violf("C07.store-iterate", "Iterate = %v, model says %v", got, want)
	}
	return nil
}

func runC07Store(s c07StoreScen, c *ev.Case) *ev.Violation {
	st := rtrie.NewStore()
	m := map[string]rMsg{}
	uid := 0
	removed := false
	for i, op := range s.Ops {
		c.Logf("step %d: %+v", i, op)
		switch op.Op {
		case "put":
			uid++
			u := fmt.Sprintf("m%d", uid)
			if _, ok := m[op.Topic]; ok {
				removed = true
				c.Label("replace")
			}
			st.AddOrReplace(&gmqtt.Message{Topic: op.Topic, QoS: op.QoS, Retained: true, Payload: []byte(u)})
			m[op.Topic] = rMsg{u, op.QoS}
		case "remove":
			if _, ok := m[op.Topic]; ok {
				removed = true
				c.Label("remove_existing")
			}
			st.Remove(op.Topic)
			delete(m, op.Topic)
		case "clearall":
			if len(m) > 0 {
				removed = true
			}
			st.ClearAll()
			m = map[string]rMsg{}
		}
		filters, topics := s.Probes, []string{op.Topic}
		if i == len(s.Ops)-1 {
			filters, topics = allFilters(), topicUniverse
		}
		before := c.CountOf("nonempty_answers")
		if v := checkRetainedStore(st, m, filters, topics, c); v != nil {
			return v.With("step", i, "op", op.Op)
		}
		if removed && c.CountOf("nonempty_answers") > before {
			c.NonTrivial()
		}
	}
	return nil
}

func TestC07Store(t *testing.T) {
	ev.SetRule("C07", "store: rapid histories (<=30 ops) of AddOrReplace/Remove/ClearAll over topic names of depth<=3 over {a,b,'',$x} against map[topic]msg; sampled filters after every op, ALL valid filters of depth<=3 and all 87 topic names after the last op. wire: generated interleavings of retained publishes / clears (QoS0-2, v3.1.1/v5 publishers) with SUBSCRIBEs (1-2 filters, QoS, RH 0/1/2, RAP, v3.1.1/v5, shared, re-subscription) on a live broker; after every step the messages each subscriber received since the previous step (barrier: ack + API sentinel) are compared with the replay/live model and RetainedService() with the model map. Non-trivial: a replace or clear happened before a lookup/replay with a non-empty answer; distinct by scenario digest.")
	ev.RunN(t, "C07", 4, genC07Store, runC07Store)
}

// ---------------------------------------------------------------------------------------
// wire level

type c07Step struct {
	Op  string `json:"op"` // pub | sub | release
	Pub int    `json:"pub,omitempty"`
	// Hold (pub, QoS 2): the publisher gets its PUBREC and keeps the PUBREL back. A later "release" step of that publisher
	// re-sends the PUBLISH (DUP=1, same packet identifier) and then completes the flow: the retransmission is the same
	// message - it must not be applied to the retained store (or forwarded) a second time
	Hold   bool      `json:"hold,omitempty"`
	Topic  string    `json:"topic,omitempty"`
	QoS    byte      `json:"qos,omitempty"`
	Retain bool      `json:"retain,omitempty"`
	Empty  bool      `json:"empty,omitempty"`
	Client int       `json:"client,omitempty"`
	Subs   []subSpec `json:"subs,omitempty"`
}

type c07Scen struct {
	Mode     string    `json:"mode"`
	SubVers  []int     `json:"sub_versions"`
	Steps    []c07Step `json:"steps"`
	PubVers  []int     `json:"pub_versions"`
	UseStore bool      `json:"-"`
}

func genC07Wire(t *rapid.T) c07Scen {
	s := c07Scen{Mode: rapid.SampledFrom([]string{"overlap", "onlyonce"}).Draw(t, "mode"), PubVers: []int{4, 5}}
	ns := rapid.IntRange(1, 3).Draw(t, "nsubscribers")
	for i := 0; i < ns; i++ {
		s.SubVers = append(s.SubVers, rapid.SampledFrom([]int{3, 4, 5, 5, 5}).Draw(t, "subv"))
	}
	n := rapid.IntRange(2, 12).Draw(t, "nsteps")
	var usedTopics []string
	for i := 0; i < n; i++ {
		if rapid.IntRange(0, 9).Draw(t, "kind") <= 5 {
			st := c07Step{Op: "pub", Pub: rapid.IntRange(0, 1).Draw(t, "pub"), QoS: byte(rapid.IntRange(0, 2).Draw(t, "qos")),
				Retain: rapid.IntRange(0, 5).Draw(t, "retain") != 0}
			if len(usedTopics) > 0 && rapid.IntRange(0, 2).Draw(t, "reuse") != 0 {
				st.Topic = rapid.SampledFrom(usedTopics).Draw(t, "usedtopic")
				st.Empty = rapid.IntRange(0, 2).Draw(t, "empty") == 0
			} else {
				st.Topic = genTopicName(t, "topic")
				st.Empty = rapid.IntRange(0, 9).Draw(t, "empty") == 0
			}
			usedTopics = append(usedTopics, st.Topic)
			if st.QoS == 2 && st.Retain && rapid.IntRange(0, 2).Draw(t, "hold") == 0 {
				// aimed: held back; the other publisher writes the same topic; then the retransmission and the release
				st.Hold = true
				s.Steps = append(s.Steps, st)
				other := c07Step{Op: "pub", Pub: 1 - st.Pub, Topic: st.Topic, QoS: byte(rapid.IntRange(0, 2).Draw(t, "oqos")), Retain: true, Empty: rapid.Bool().Draw(t, "oempty")}
				s.Steps = append(s.Steps, other, c07Step{Op: "release", Pub: st.Pub})
				continue
			}
			s.Steps = append(s.Steps, st)
		} else {
			cl := rapid.IntRange(0, ns-1).Draw(t, "client")
			st := c07Step{Op: "sub", Client: cl}
			k := rapid.IntRange(1, 2).Draw(t, "nfilters")
			id := rapid.SampledFrom([]uint32{0, 0, 5}).Draw(t, "subid")
			for j := 0; j < k; j++ {
				sp := genSubSpec(t, false)
				sp.ID = id
				if s.SubVers[cl] != 5 {
					sp.NL, sp.RAP, sp.RH, sp.ID = false, false, 0, 0
				}
				// the broker accepts $share/<group>/<filter> from every protocol version
				if rapid.IntRange(0, 5).Draw(t, "shared") == 0 {
					sp.Group, sp.NL = fmt.Sprintf("g%d", cl), false // sole member of its own group
				}
				dup := false
				for _, o := range st.Subs {
					if o.full() == sp.full() {
						dup = true
					}
				}
				if !dup {
					st.Subs = append(st.Subs, sp)
				}
			}
			s.Steps = append(s.Steps, st)
		}
	}
	return s
}

type wireMsg struct {
	Topic   string
	Payload string
	QoS     byte
	Retain  bool
}

func (w wireMsg) String() string {
	return fmt.Sprintf("%s=%q/q%d/r%v", w.Topic, w.Payload, w.QoS, w.Retain)
}

func runC07Wire(s c07Scen, c *ev.Case) *ev.Violation {
	for _, v := range s.SubVers {
		if v == 3 {
			c.Label("mqtt31_client")
			break
		}
	}
	cfg := fixture.BaseConfig()
	cfg.MQTT.DeliveryMode = s.Mode
	b, err := fixture.Start(fixture.Opts{Config: cfg})
	if err != nil {
		return harnessErr("start broker: %v", err)
	}
	defer b.Stop()
	kfRetain := ev.KF("F-retained-replay-flag")

	var pubs, subsC []*fixture.Client
	held := map[int][]*mw.Packet{} // per publisher: QoS 2 publishes whose PUBREL is kept back
	for i, v := range s.PubVers {
		cl, ack, err := b.Connect(fixture.ConnectOpts{ID: fmt.Sprintf("p%d", i), V: ver(v), CleanStart: true, AutoAck: true})
		if err != nil || ack.ReasonCode != 0 {
			return ev.Violf("C07.connect", "publisher connect: %v %v", ack, err)
		}
		defer cl.Kill()
		pubs = append(pubs, cl)
	}
	model := map[string]rMsg{}
	subs := make([]map[string]subSpec, len(s.SubVers))
	for i, v := range s.SubVers {
		cl, ack, err := b.Connect(fixture.ConnectOpts{ID: clientName(i), V: ver(v), CleanStart: true, AutoAck: true})
		if err != nil || ack.ReasonCode != 0 {
			return ev.Violf("C07.connect", "subscriber connect: %v %v", ack, err)
		}
		defer cl.Kill()
		if err := subscribeSentinel(cl); err != nil {
			return ev.Violf("C07.suback", "%v", err)
		}
		subsC = append(subsC, cl)
		subs[i] = map[string]subSpec{}
	}
	changed := false
	uid := 0
	for si, st := range s.Steps {
		c.Logf("step %d: %+v", si, st)
		// expected[i] = list of alternatives-free expected messages; kfAlt marks entries whose RETAIN may be 0 under the known finding
		expected := make([][]wireMsg, len(subsC))
		kfAlt := make([]map[string]bool, len(subsC))
		for i := range kfAlt {
			kfAlt[i] = map[string]bool{}
		}
		switch st.Op {
		case "release":
			if len(held[st.Pub]) == 0 {
				c.Count("skipped_ops", 1)
				continue
			}
			pk := held[st.Pub][0]
			held[st.Pub] = held[st.Pub][1:]
			p := pubs[st.Pub]
			dup := *pk
			dup.Dup = true
			if err := p.Send(&dup); err != nil {
				return harnessErr("send: %v", err)
			}
			if _, err := p.WaitAck(mw.PUBREC, pk.PacketID, fixture.DefaultWait); err != nil {
				return ev.Violf("C07.ack", "retransmitted QoS 2 publish not answered by PUBREC: %v", err)
			}
			if err := p.Send(&mw.Packet{Type: mw.PUBREL, PacketID: pk.PacketID}); err != nil {
				return harnessErr("send: %v", err)
			}
			if _, err := p.WaitAck(mw.PUBCOMP, pk.PacketID, fixture.DefaultWait); err != nil {
				return ev.Violf("C07.ack", "PUBREL not answered by PUBCOMP: %v", err)
			}
			if err := p.Ping(fixture.DefaultWait); err != nil {
				return ev.Violf("C07.ping", "%v", err)
			}
			changed = true
			c.Label("qos2_retained_publish_retransmitted_then_released")
		case "pub":
			uid++
			payload := fmt.Sprintf("m%d", uid)
			if st.Empty {
				payload = ""
			}
			pk := &mw.Packet{Topic: st.Topic, QoS: st.QoS, Retain: st.Retain, Payload: []byte(payload)}
			if st.QoS > 0 {
				pk.PacketID = uint16(10 + si)
			}
			p := pubs[st.Pub]
			if st.Hold && st.QoS == 2 {
				pk.Type = mw.PUBLISH
				if err := p.Send(pk); err != nil {
					return harnessErr("send: %v", err)
				}
				if _, err := p.WaitAck(mw.PUBREC, pk.PacketID, fixture.DefaultWait); err != nil {
					return ev.Violf("C07.ack", "QoS 2 publish not answered by PUBREC: %v", err)
				}
				held[st.Pub] = append(held[st.Pub], pk)
				c.Label("qos2_retained_publish_held_before_pubrel")
			} else if _, err := p.Publish(pk); err != nil {
				return ev.Violf("C07.ack", "publish not acknowledged: %v", err)
			}
			if err := p.Ping(fixture.DefaultWait); err != nil {
				return ev.Violf("C07.ping", "%v", err)
			}
			if st.Retain {
				if _, ok := model[st.Topic]; ok {
					changed = true
					if st.Empty {
						c.Label("clear_existing")
					} else {
						c.Label("replace_existing")
					}
				}
				if st.Empty {
					delete(model, st.Topic)
				} else {
					model[st.Topic] = rMsg{payload, st.QoS}
				}
			}
			// live forwarding
			for i := range subsC {
				exp, _ := expectedDeliveries(s.Mode, subs[i], i, c01Pub{By: -2, Topic: st.Topic, QoS: st.QoS, Retain: st.Retain}, payload)
				for _, d := range exp {
					expected[i] = append(expected[i], wireMsg{st.Topic, payload, d.QoS, d.Retain})
				}
				for _, sp := range subs[i] {
					if sp.Group != "" && topicref.Match(st.Topic, sp.Filter) {
						expected[i] = append(expected[i], wireMsg{st.Topic, payload, minB(st.QoS, sp.QoS), st.Retain && sp.RAP})
					}
				}
				if s.Mode == "onlyonce" && st.Retain {
					// RETAIN not asserted when matching subscriptions disagree on RAP
					r0, r1 := false, false
					for _, sp := range subs[i] {
						if sp.Group == "" && topicref.Match(st.Topic, sp.Filter) {
							if sp.RAP {
								r1 = true
							} else {
								r0 = true
							}
						}
					}
					if r0 && r1 {
						for k := range expected[i] {
							kfAlt[i]["any:"+expected[i][k].String()] = true
						}
					}
				}
			}
		case "sub":
			cl := subsC[st.Client]
			var reqs []mw.SubReq
			var props *mw.Props
			for _, sp := range st.Subs {
				r := mw.SubReq{Filter: sp.full(), QoS: sp.QoS}
				if cl.V == mw.V5 {
					r.NoLocal, r.RAP, r.RH = sp.NL, sp.RAP, sp.RH
					if sp.ID != 0 {
						props = &mw.Props{SubscriptionIDs: []uint32{sp.ID}}
					}
				}
				reqs = append(reqs, r)
			}
			if len(reqs) == 0 {
				continue
			}
			ack, err := cl.Subscribe(uint16(200+si), props, reqs...)
			if err != nil {
				return ev.Violf("C07.suback", "SUBSCRIBE not acknowledged: %v", err)
			}
			for k, sp := range st.Subs {
				if k >= len(ack.ReasonCodes) || ack.ReasonCodes[k] != sp.QoS {
					return ev.Violf("C07.suback", "SUBACK codes %v for %v", ack.ReasonCodes, st.Subs)
				}
				_, existed := subs[st.Client][sp.full()]
				replay := sp.Group == "" && (cl.V != mw.V5 || sp.RH == 0 || (sp.RH == 1 && !existed))
				if sp.Group != "" && cl.V != mw.V5 {
					c.Label("shared_subscribe_v3")
				}
				if sp.Group != "" {
					c.Label("shared_subscribe")
				}
				if existed {
					c.Label("resubscribe")
				}
				c.Label(fmt.Sprintf("rh%d", sp.RH))
				if replay {
					for tp, m := range model {
						if topicref.Match(tp, sp.Filter) {
							w := wireMsg{tp, m.UID, minB(m.QoS, sp.QoS), true}
							expected[st.Client] = append(expected[st.Client], w)
							if !sp.RAP {
								kfAlt[st.Client]["r0:"+w.String()] = true
							}
							c.Label("replay")
							if changed {
								c.NonTrivial()
							}
						}
					}
				}
				subs[st.Client][sp.full()] = sp
			}
		}
		if err := sentinelBarrier(b, subsC, fmt.Sprintf("s%d", si)); err != nil {
			return ev.Violf("C07.barrier", "%v", err)
		}
		for i, cl := range subsC {
			var got []wireMsg
			for _, r := range cl.Take(func(p *mw.Packet) bool { return p.Type == mw.PUBLISH }) {
				if isSentinel(r.P) {
					continue
				}
				if r.P.Dup {
					return ev.Violf("C07.dup", "subscriber %d received DUP=1 first transmission %s", i, r.P)
				}
				got = append(got, wireMsg{r.P.Topic, string(r.P.Payload), r.P.QoS, r.P.Retain})
			}
			if v := matchWire(got, expected[i], kfAlt[i], kfRetain, c); v != nil {
				return v.With("step", si, "op", st.Op, "subscriber_version", s.SubVers[i])
			}
		}
		// retained store equals the model
		var all []*gmqtt.Message
		b.Srv.RetainedService().Iterate(func(m *gmqtt.Message) bool { all = append(all, m); return true })
		if got, want := retainedRows(all), modelRows(model, ""); !eqStrs(got, want) {
			return ev.Violf("C07.retained-store", "after step %d the retained store holds %v, model says %v", si, got, want).With("op", st.Op)
		}
	}
	return nil
}

// matchWire compares received and expected messages as multisets. Where the known finding
// F-retained-replay-flag is open, a replayed message for a subscription without RAP may
// arrive with RETAIN=0 (the recorded wrong behaviour) — counted, not reported.
func matchWire(got, want []wireMsg, alt map[string]bool, kfOpen bool, c *ev.Case) *ev.Violation {
	used := make([]bool, len(got))
	find := func(w wireMsg) bool {
		for i, g := range got {
			if !used[i] && g == w {
				used[i] = true
				return true
			}
		}
		return false
	}
	for _, w := range want {
		if find(w) {
			continue
		}
		flipped := w
		flipped.Retain = !w.Retain
		if alt["any:"+w.String()] && find(flipped) {
			continue
		}
		if alt["r0:"+w.String()] && w.Retain {
			if find(flipped) {
				if kfOpen {
					c.Excluded("F-retained-replay-flag")
					continue
				}
				return ev.Violf("C07.replay-retain-flag", "retained message %s replayed on subscribe arrived with RETAIN=0 (must be 1); received %v", w, got).With("rap", false)
			}
		}
		return ev.Violf("C07.delivery", "expected %v not received; received %v, expected %v", w, got, want)
	}
	for i, g := range got {
		if !used[i] {
			return ev.Violf("C07.delivery-extra", "unexpected message %v received; received %v, expected %v", g, got, want)
		}
	}
	return nil
}

func TestC07Wire(t *testing.T) {
	ev.Run(t, "C07", genC07Wire, runC07Wire)
}
