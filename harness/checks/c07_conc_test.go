package checks

// C07 under concurrency: retained publishes and clears arrive on different connections at the same
// time. Operations on DIFFERENT topics commute, so when every topic has exactly one writer the final
// content of the store is decided: per topic the last value its writer put, or nothing if its last
// operation was a clear - whatever the interleaving, and in particular when one writer clears a
// topic while another writer creates a topic below it (the topics are prefixes of each other).
//
// Store level (retained trie, direct API): 2-4 writer goroutines, each owning a disjoint set of
// topics of a chain p, p/x, p/x/x, ... (ownership alternates along the chain, so neighbours belong
// to different writers) and running its own generated sequence of put / clear on its topics; every
// round starts from a generated initial content; after all writers have finished the store is
// compared with the model by Iterate, GetRetainedMessage on every chain topic and
// GetMatchedMessages("#").

import (
	"fmt"
	"strings"
	"sync"
	"testing"

	"github.com/DrmagicE/gmqtt"
	rtrie "github.com/DrmagicE/gmqtt/retained/trie"
	"pgregory.net/rapid"

	"verif/ev"
)

type c07cOp struct {
	T   int  `json:"t"` // index into the writer's own topics
	Put bool `json:"put"`
}

type c07cScen struct {
	Chains  int        `json:"chains"`  // independent chains p0, p1, ...
	Depth   int        `json:"depth"`   // topics per chain: p, p/x, ..., (Depth levels)
	Writers int        `json:"writers"` // topic k of a chain belongs to writer k mod Writers
	Init    []bool     `json:"init"`    // initial presence per (chain, level), row-major
	Ops     [][]c07cOp `json:"ops"`     // per writer
	Rounds  int        `json:"rounds"`  // the same plan is run this many times on fresh stores (more chances for the race)
}

func genC07Conc(t *rapid.T) c07cScen {
	s := c07cScen{Chains: rapid.IntRange(1, 6).Draw(t, "chains"), Depth: rapid.IntRange(2, 5).Draw(t, "depth"), Writers: rapid.IntRange(2, 4).Draw(t, "writers"),
		Rounds: rapid.IntRange(1, 8).Draw(t, "rounds")}
	for i := 0; i < s.Chains*s.Depth; i++ {
		s.Init = append(s.Init, rapid.IntRange(0, 2).Draw(t, "init") > 0)
	}
	for w := 0; w < s.Writers; w++ {
		n := rapid.IntRange(1, 24).Draw(t, "nops")
		var ops []c07cOp
		for i := 0; i < n; i++ {
			ops = append(ops, c07cOp{T: rapid.IntRange(0, 63).Draw(t, "t"), Put: rapid.Bool().Draw(t, "put")})
		}
		s.Ops = append(s.Ops, ops)
	}
	return s
}

func c07cTopic(chain, level int) string {
	return fmt.Sprintf("p%d", chain) + strings.Repeat("/x", level)
}

func runC07Conc(s c07cScen, c *ev.Case) *ev.Violation {
	if s.Chains < 1 || s.Depth < 1 || s.Writers < 1 || len(s.Ops) != s.Writers || len(s.Init) != s.Chains*s.Depth || s.Rounds < 1 || s.Rounds > 32 {
		return harnessErr("bad scenario")
	}
	// topics per writer
	own := make([][]string, s.Writers)
	for ch := 0; ch < s.Chains; ch++ {
		for lv := 0; lv < s.Depth; lv++ {
			w := (ch + lv) % s.Writers
			own[w] = append(own[w], c07cTopic(ch, lv))
		}
	}
	clearBelowPut := false
	for round := 0; round < s.Rounds; round++ {
		st := rtrie.NewStore()
		model := map[string]string{}
		for ch := 0; ch < s.Chains; ch++ {
			for lv := 0; lv < s.Depth; lv++ {
				if s.Init[ch*s.Depth+lv] {
					tp := c07cTopic(ch, lv)
					st.AddOrReplace(&gmqtt.Message{Topic: tp, QoS: 1, Retained: true, Payload: []byte("init")})
					model[tp] = "init"
				}
			}
		}
		var mu sync.Mutex
		var wg sync.WaitGroup
		start := make(chan struct{})
		for w := 0; w < s.Writers; w++ {
			if len(own[w]) == 0 {
				continue
			}
			wg.Add(1)
			go func(w int) {
				defer wg.Done()
				last := map[string]string{}
				cleared := map[string]bool{}
				<-start
				for i, op := range s.Ops[w] {
					tp := own[w][op.T%len(own[w])]
					if op.Put {
						v := fmt.Sprintf("w%d-%d", w, i)
						st.AddOrReplace(&gmqtt.Message{Topic: tp, QoS: 1, Retained: true, Payload: []byte(v)})
						last[tp], cleared[tp] = v, false
					} else {
						st.Remove(tp)
						delete(last, tp)
						cleared[tp] = true
					}
				}
				mu.Lock()
				for tp, v := range last {
					model[tp] = v
				}
				for tp, cl := range cleared {
					if cl {
						delete(model, tp)
					}
				}
				mu.Unlock()
			}(w)
		}
		close(start)
		wg.Wait()
		// compare
		var all []*gmqtt.Message
		st.Iterate(func(m *gmqtt.Message) bool { all = append(all, m); return true })
		got := map[string]string{}
		for _, m := range all {
			got[m.Topic] = string(m.Payload)
		}
		for ch := 0; ch < s.Chains; ch++ {
			for lv := 0; lv < s.Depth; lv++ {
				tp := c07cTopic(ch, lv)
				want, ok := model[tp]
				if g, gok := got[tp]; gok != ok || g != want {
					return ev.Violf("C07.concurrent-store", "round %d: after %d writers (each the only writer of its topics) finished, Iterate has %q for topic %q (present %v), its writer's last operation left %q (present %v); store: %v", round, s.Writers, g, tp, gok, want, ok, got).
						With("writers", s.Writers, "depth", s.Depth)
				}
				m := st.GetRetainedMessage(tp)
				if (m != nil) != ok || (ok && string(m.Payload) != want) {
					return ev.Violf("C07.concurrent-store", "round %d: GetRetainedMessage(%q) = %v, its writer's last operation left %q (present %v)", round, tp, m, want, ok)
				}
			}
		}
		if n := len(st.GetMatchedMessages("#")); n != len(model) {
			return ev.Violf("C07.concurrent-store", "round %d: GetMatchedMessages(\"#\") returns %d messages, %d topics hold one", round, n, len(model))
		}
		if len(got) != len(model) {
			return ev.Violf("C07.concurrent-store", "round %d: Iterate returns %d messages, %d topics hold one: %v", round, len(got), len(model), got)
		}
	}
	// classification: some writer clears a topic while another one puts below it
	for w := range s.Ops {
		for _, op := range s.Ops[w] {
			if !op.Put && len(own[w]) > 0 {
				clearBelowPut = true
			}
		}
	}
	if clearBelowPut && s.Depth >= 2 {
		c.NonTrivial()
	}
	c.Count("concurrent_store_rounds", s.Rounds)
	return nil
}

func TestC07StoreConcurrent(t *testing.T) {
	ev.RunN(t, "C07", 0.25, genC07Conc, runC07Conc)
}
