package checks

// C06 over ONE reader: a sequence of well-formed packets is read from one packets.Reader /
// one bufio.Reader, the bytes arriving in generated chunks (one packet per read, several packets
// per read, a packet cut anywhere). Every decoded packet is a value: it must equal the reference
// decode of its own bytes when it is returned AND still after all later packets of the stream
// have been read through the same reader (decoded fields must not alias the reader's buffers).

import (
	"bufio"
	"fmt"
	"io"
	"testing"

	"github.com/DrmagicE/gmqtt/pkg/packets"
	"pgregory.net/rapid"

	"verif/ev"
	mw "verif/mqttwire"
)

type c06StreamScen struct {
	V    int          `json:"v"`
	Buf  int          `json:"buf"`
	Pkts []*mw.Packet `json:"pkts"`
	// Chunks: lengths of the successive reads the transport delivers (cycled; 0 = exactly up to the end of the
	// current packet, i.e. one packet per read)
	Chunks []int `json:"chunks"`
}

func genC06Stream(t *rapid.T) c06StreamScen {
	s := c06StreamScen{V: rapid.SampledFrom([]int{3, 4, 5, 5, 5}).Draw(t, "v"), Buf: rapid.SampledFrom([]int{16, 64, 512, 2048, 4096}).Draw(t, "buf")}
	n := rapid.IntRange(2, 6).Draw(t, "npkts")
	for i := 0; i < n; i++ {
		p := mw.GenPacket(mw.Version(s.V), mw.ToServer).Draw(t, "pkt")
		s.Pkts = append(s.Pkts, p)
	}
	k := rapid.IntRange(1, 6).Draw(t, "nchunks")
	for i := 0; i < k; i++ {
		s.Chunks = append(s.Chunks, rapid.SampledFrom([]int{0, 0, 0, 1, 2, 7, 100, 5000}).Draw(t, "chunk"))
	}
	return s
}

// c06ChunkReader delivers data in the generated chunk sizes.
type c06ChunkReader struct {
	data   []byte
	ends   []int // packet end offsets
	chunks []int
	pos, k int
}

func (r *c06ChunkReader) Read(p []byte) (int, error) {
	if r.pos >= len(r.data) {
		return 0, io.EOF
	}
	n := r.chunks[r.k%len(r.chunks)]
	r.k++
	if n == 0 {
		for _, e := range r.ends {
			if e > r.pos {
				n = e - r.pos
				break
			}
		}
	}
	if n > len(p) {
		n = len(p)
	}
	if r.pos+n > len(r.data) {
		n = len(r.data) - r.pos
	}
	copy(p, r.data[r.pos:r.pos+n])
	r.pos += n
	return n, nil
}

func runC06Stream(s c06StreamScen, c *ev.Case) *ev.Violation {
	if len(s.Pkts) == 0 || len(s.Chunks) == 0 {
		return harnessErr("empty scenario")
	}
	var stream []byte
	var ends []int
	var refs []*mw.Packet
	for _, p := range s.Pkts {
		p = c06NormRef(p)
		if p.Type == mw.PUBLISH && p.Props != nil && len(p.Props.SubscriptionIDs) > 0 {
			p = c06Clone(p)
			p.Props.SubscriptionIDs = nil
		}
		// known, excluded decode findings are neutralised up front (same list as the single-packet check)
		steps, _ := c06Neutralise(p)
		if len(steps) > 0 {
			p = steps[len(steps)-1]
		}
		enc, err := mw.Encode(p, mw.Version(s.V))
		if err != nil {
			return harnessErr("mqttwire.Encode: %v", err)
		}
		// only packets the single-packet oracle accepts on their own enter the stream
		if r := c06ReadOne(s.V, enc, 4096, false); r.err != nil || r.pkt == nil || r.panicked != "" {
			c.Count("stream_packets_skipped", 1)
			continue
		}
		stream = append(stream, enc...)
		ends = append(ends, len(stream))
		refs = append(refs, p)
	}
	if len(refs) < 2 {
		c.Label("stream_too_short")
		return nil
	}
	buf := s.Buf
	if buf < 16 {
		buf = 16
	}
	cr := &c06ChunkReader{data: stream, ends: ends, chunks: s.Chunks}
	rd := packets.NewReader(bufio.NewReaderSize(cr, buf))
	rd.SetVersion(byte(s.V))
	var decoded []packets.Packet
	var atDecode []string
	for i := range refs {
		var pkt packets.Packet
		var err error
		pan := ""
		func() {
			defer func() {
				if x := recover(); x != nil {
					pan = fmt.Sprint(x)
				}
			}()
			pkt, err = rd.ReadPacket()
		}()
		if pan != "" {
			return ev.Violf("C06.panic", "ReadPacket panicked on packet %d of a stream of well-formed packets: %s", i, pan)
		}
		if err != nil || pkt == nil {
			return ev.Violf("C06.stream-decode", "packet %d (%s) of a stream of %d well-formed packets, each accepted on its own, is rejected when read through one reader (buffer %d, chunks %v): %v", i, refs[i], len(refs), buf, s.Chunks, err)
		}
		got, _ := c06FromG(pkt)
		if !mw.Equal(got, refs[i]) {
			return ev.Violf("C06.stream-decode", "packet %d of the stream reads different values than its own bytes say\n want: %s\n got:  %s", i, refs[i], got)
		}
		decoded = append(decoded, pkt)
		atDecode = append(atDecode, got.String())
		// everything decoded earlier is still what it was
		for j := 0; j < i; j++ {
			now, _ := c06FromG(decoded[j])
			if now == nil || now.String() != atDecode[j] {
				return ev.Violf("C06.decoded-unstable", "packet %d (%s) of the stream changed after packet %d had been read through the same reader (buffer %d, chunks %v)\n at decode time: %s\n afterwards:     %s",
					j, refs[j].Type, i, buf, s.Chunks, atDecode[j], now).With("type", refs[j].Type.String(), "buf", buf)
			}
		}
	}
	c.Count("stream_packets", len(refs))
	big := false
	for k := 1; k < len(ends); k++ {
		if ends[k]-ends[k-1] > 60 {
			big = true
		}
	}
	if big {
		c.NonTrivial() // a later packet is long enough to overwrite a buffer region an earlier one lived in
	}
	return nil
}

func TestC06Stream(t *testing.T) {
	ev.RunN(t, "C06", 0.15, genC06Stream, runC06Stream)
}
