package checks

// C08 — Will message is published exactly when, and only when, it should be.
// Timed lanes (see c12_test.go for the timing discipline).

import (
	"context"
	"fmt"
	"github.com/DrmagicE/gmqtt"
	"github.com/DrmagicE/gmqtt/server"
	"strings"
	"sync"
	"testing"
	"time"

	"pgregory.net/rapid"

	"verif/ev"
	"verif/fixture"
	mw "verif/mqttwire"
)

type c08Lane struct {
	V         int    `json:"v"`
	WillQoS   byte   `json:"will_qos"`
	Retain    bool   `json:"will_retain"`
	DelayS    int    `json:"will_delay_s"`     // v5 only
	ExpiryS   int    `json:"session_expiry_s"` // v5: CONNECT property; v3: 0 = clean session, otherwise persistent
	Props     int    `json:"will_props"`
	Ending    string `json:"ending"`    // disc0 disc4 close malformed keepalive takeover_clean takeover_resume server_close terminate
	After     string `json:"after"`     // none | resume | clean | terminate  (action after the connection ended)
	AfterMs   int    `json:"after_ms"`  // when, relative to the end of the connection
	Subscribe bool   `json:"subscribe"` // the client also had a subscription (irrelevant, exercises session state)
	// DiscExpiryS > 0 (ending disc4, session expiry non-zero at CONNECT): the DISCONNECT carries this new Session
	// Expiry Interval; "session end or delay, whichever comes first" is then decided by the NEW interval
	DiscExpiryS int  `json:"disconnect_expiry_s,omitempty"`
	TKClean     bool `json:"takeover_clean,omitempty"` // ending disc0_takeover: Clean Start of the connection that takes over
	// Then (after = resume): what becomes of the connection that resumed the session (it has no will of its own):
	// "" it stays; close: its socket is closed abruptly; disc0_clean / disc0_terminate: it disconnects normally and the session is then ended by a CONNECT with
	// Clean Start 1 / by TerminateSession - the will of the FIRST connection has been decided long before and must not reappear
	Then string `json:"then,omitempty"`
}

type c08Scen struct {
	Lanes []c08Lane `json:"lanes"`
	Redis bool      `json:"redis,omitempty"` // persistence (sessions with their wills) on the redis backend
}

func genC08(t *rapid.T) c08Scen {
	var s c08Scen
	s.Redis = rapid.IntRange(0, 3).Draw(t, "backend") == 0
	n := rapid.IntRange(6, 10).Draw(t, "nlanes")
	for i := 0; i < n; i++ {
		l := c08Lane{V: rapid.SampledFrom([]int{3, 4, 5, 5, 5}).Draw(t, "v"), WillQoS: byte(rapid.IntRange(0, 2).Draw(t, "wq")), Retain: rapid.Bool().Draw(t, "wr"),
			Props: rapid.IntRange(0, 31).Draw(t, "props"), Subscribe: rapid.Bool().Draw(t, "sub")}
		l.ExpiryS = rapid.SampledFrom([]int{0, 1, 3, 100}).Draw(t, "expiry")
		if l.V == 5 {
			l.DelayS = rapid.SampledFrom([]int{0, 1, 2}).Draw(t, "delay")
		} else {
			l.Props = 0
			if l.ExpiryS != 0 {
				l.ExpiryS = 3600
			}
		}
		ends := []string{"disc0", "close", "close", "malformed", "keepalive", "takeover_clean", "takeover_resume", "server_close", "terminate", "disc0_takeover"}
		if l.V == 5 {
			ends = append(ends, "disc4", "disc4", "disc4")
		}
		l.Ending = rapid.SampledFrom(ends).Draw(t, "ending")
		if l.Ending == "disc4" && l.ExpiryS != 0 && rapid.IntRange(0, 2).Draw(t, "disc_expiry") != 0 {
			l.DiscExpiryS = rapid.SampledFrom([]int{1, 3, 100}).Draw(t, "disc_expiry_s")
			// aim at the interesting region: the new interval puts session end and will delay in the other order
			if l.DelayS > 0 && rapid.Bool().Draw(t, "flip") {
				switch {
				case l.ExpiryS < l.DelayS:
					l.DiscExpiryS = rapid.SampledFrom([]int{3, 100}).Draw(t, "longer")
				case l.DelayS == 2:
					l.DiscExpiryS = 1
				}
			}
		}
		switch l.Ending {
		case "disc0_takeover":
			l.After = "none"
			l.TKClean = rapid.Bool().Draw(t, "tkclean")
		case "takeover_clean", "takeover_resume", "terminate":
			l.After = "none"
		default:
			l.After = rapid.SampledFrom([]string{"none", "resume", "resume", "clean", "terminate"}).Draw(t, "after")
			l.AfterMs = rapid.SampledFrom([]int{400, 1500, 2600}).Draw(t, "afterms")
			if l.After == "resume" {
				l.Then = rapid.SampledFrom([]string{"", "disc0_clean", "disc0_terminate", "close", "close"}).Draw(t, "then")
			}
		}
		s.Lanes = append(s.Lanes, l)
	}
	return s
}

type ival struct{ lo, hi time.Time }

func (a ival) plus(d time.Duration) ival { return ival{a.lo.Add(d), a.hi.Add(d)} }
func minIval(a, b ival) ival {
	out := a
	if b.lo.Before(out.lo) {
		out.lo = b.lo
	}
	if b.hi.Before(out.hi) {
		out.hi = b.hi
	}
	return out
}

func runC08(s c08Scen, c *ev.Case) *ev.Violation {
	for _, l := range s.Lanes {
		if l.V == 3 {
			c.Label("mqtt31_client")
			break
		}
	}
	cfg := fixture.BaseConfig()
	cfg, cleanupBackend, bv := withBackend(cfg, s.Redis, c)
	if bv != nil {
		return bv
	}
	defer cleanupBackend()
	hooks := &server.Hooks{OnMsgArrived: func(ctx context.Context, cl server.Client, req *server.MsgArrivedRequest) error {
		if req.Message != nil && strings.HasPrefix(req.Message.Topic, "slow/") {
			time.Sleep(60 * time.Millisecond) // a slow user hook: the packets behind this PUBLISH wait in the broker
		}
		return nil
	}}
	b, err := fixture.Start(fixture.Opts{Config: cfg, Hooks: hooks})
	if err != nil {
		return harnessErr("start broker: %v", err)
	}
	defer b.Stop()
	// Heartbeat: every 20 ms a publish nobody subscribes to goes through the broker's lock. A heartbeat that took longer
	// than the timing margin proves that the broker was not being scheduled / its lock was not to be had (an overloaded
	// machine), which is the one situation in which a will published in time can end up behind a deadline marker.
	type hbStall struct {
		at time.Time
		d  time.Duration
	}
	var hbMu sync.Mutex
	var stalls []hbStall
	hbStop := make(chan struct{})
	defer close(hbStop)
	go func() {
		for {
			select {
			case <-hbStop:
				return
			case <-time.After(20 * time.Millisecond):
			}
			t := time.Now()
			b.Srv.Publisher().Publish(&gmqtt.Message{Topic: "$hb/none"})
			if d := time.Since(t); d > timingMargin {
				hbMu.Lock()
				stalls = append(stalls, hbStall{t, d})
				hbMu.Unlock()
			}
		}
	}()
	stalledBetween := func(lo, hi time.Time) (bool, time.Duration) {
		hbMu.Lock()
		defer hbMu.Unlock()
		for _, st := range stalls {
			if st.at.Before(hi) && st.at.Add(st.d).After(lo) {
				return true, st.d
			}
		}
		return false, 0
	}

	outs := runLanes(len(s.Lanes), func(i int) (o laneOut) {
		l := s.Lanes[i]
		logf := func(f string, a ...any) { o.log = append(o.log, fmt.Sprintf(f, a...)) }
		id := fmt.Sprintf("w%d", i)
		topic := fmt.Sprintf("will/%d", i)
		fail := func(v *ev.Violation) laneOut {
			o.v = v.With("ending", l.Ending, "after", l.After, "after_ms", l.AfterMs, "v", l.V, "delay_s", l.DelayS, "expiry_s", l.ExpiryS, "will_qos", l.WillQoS)
			return o
		}
		// watcher
		w, ack, err := b.Connect(fixture.ConnectOpts{ID: "watch" + id, V: mw.V5, CleanStart: true, AutoAck: true})
		if err != nil || ack.ReasonCode != 0 {
			return fail(harnessErr("watcher connect: %v %v", ack, err))
		}
		defer w.Kill()
		if err := subscribeSentinel(w); err != nil {
			return fail(harnessErr("%v", err))
		}
		if code, err := subscribeOne(w, 2, subSpec{Filter: topic, QoS: 2, RAP: true}); err != nil || code != 2 {
			return fail(harnessErr("watcher subscribe: %v %v", code, err))
		}
		payload := fmt.Sprintf("will-of-%s", id)
		will := &mw.Will{QoS: l.WillQoS, Retain: l.Retain, Topic: topic, Payload: []byte(payload)}
		connect := func(clean bool, withWill bool) (*fixture.Client, *mw.Packet, error) {
			o := fixture.ConnectOpts{ID: id, V: ver(l.V), CleanStart: clean, AutoAck: true}
			if withWill {
				wl := *will
				if l.V == 5 {
					wl.Props = pubProps(l.Props)
					if l.DelayS > 0 {
						if wl.Props == nil {
							wl.Props = &mw.Props{}
						}
						wl.Props.WillDelay = u32p(uint32(l.DelayS))
					}
				}
				o.Will = &wl
			}
			if l.V == 5 {
				o.Props = &mw.Props{SessionExpiry: u32p(uint32(l.ExpiryS))}
			}
			if l.Ending == "keepalive" && withWill {
				o.KeepAlive = 1
			}
			return b.Connect(o)
		}
		// v3: Clean Session decides whether the session persists
		firstClean := true
		if l.V != 5 {
			firstClean = l.ExpiryS == 0
		}
		cl, ack, err := connect(firstClean, true)
		if err != nil || ack.ReasonCode != 0 {
			return fail(harnessErr("connect: %v %v", ack, err))
		}
		defer func() { cl.Kill() }()
		if l.Subscribe {
			if _, err := subscribeOne(cl, 3, subSpec{Filter: "other/" + id, QoS: 1}); err != nil {
				return fail(harnessErr("subscribe: %v", err))
			}
		}
		if err := cl.Ping(fixture.DefaultWait); err != nil && l.Ending != "keepalive" {
			return fail(harnessErr("ping: %v", err))
		}

		// ---- end the connection; [end.lo, end.hi] bounds the instant the broker saw it end ----
		var end ival
		suppress := false       // a DISCONNECT that suppresses the will
		var sessEnd *ival       // the session was ended explicitly at this time
		reattached := false     // take-over with resume: the session continues at once
		var cl2 *fixture.Client // connection created by a take-over
		end.lo = time.Now()
		switch l.Ending {
		case "disc0":
			_ = cl.Send(&mw.Packet{Type: mw.DISCONNECT})
			cl.Kill()
			suppress = true
		case "disc0_takeover":
			// DISCONNECT 0x00 waits in the broker behind a PUBLISH that a slow hook is holding; once the broker has
			// read it (its statistics say so) a second connection takes the client id over. The DISCONNECT was
			// received: no will, whatever ends the connection first.
			_ = cl.Send(&mw.Packet{Type: mw.PUBLISH, Topic: "slow/" + id, Payload: []byte("x")})
			_ = cl.Send(&mw.Packet{Type: mw.DISCONNECT})
			read := fixture.PollUntilEvery(time.Millisecond, 2*time.Second, func() bool {
				st, ok := b.Srv.StatsManager().GetClientStats(id)
				return ok && st.PacketStats.ReceivedTotal.Disconnect >= 1
			})
			if !read {
				o.inconclusive = true
				cl.Kill()
				return o
			}
			c2, ack, err := connect(l.TKClean, false)
			if err != nil || ack == nil || ack.ReasonCode != 0 {
				return fail(ev.Violf("C08.takeover", "second CONNECT failed: %v %v", ack, err))
			}
			cl2 = c2
			defer cl2.Kill()
			cl.Kill()
			suppress = true
			o.labels = append(o.labels, "disconnect_received_then_taken_over")
		case "disc4":
			dp := &mw.Packet{Type: mw.DISCONNECT, ReasonCode: 0x04}
			if l.DiscExpiryS > 0 {
				dp.Props = &mw.Props{SessionExpiry: u32p(uint32(l.DiscExpiryS))}
				o.labels = append(o.labels, "disconnect_changes_session_expiry")
			}
			_ = cl.Send(dp)
			cl.Kill()
		case "close":
			cl.Kill()
		case "malformed":
			_ = cl.SendRaw([]byte{0x00, 0x00})
			if !cl.WaitClosed(fixture.DefaultWait) {
				return fail(ev.Violf("C08.malformed-not-closed", "connection still open 10 s after a malformed packet"))
			}
		case "keepalive":
			end.lo = time.Now().Add(900 * time.Millisecond) // the broker allows keepalive/2+keepalive whole seconds (= 1 s for keep alive 1) after the last packet
			if !cl.WaitClosed(fixture.DefaultWait) {
				return fail(ev.Violf("C08.keepalive-not-closed", "connection still open 10 s after the keep alive of 1 s expired"))
			}
		case "server_close":
			sc := b.Srv.ClientService().GetClient(id)
			if sc == nil {
				return fail(harnessErr("GetClient returned nil"))
			}
			sc.Close()
			cl.WaitClosed(fixture.DefaultWait)
		case "terminate":
			b.Srv.ClientService().TerminateSession(id)
			cl.WaitClosed(fixture.DefaultWait)
			se := ival{end.lo, time.Now()}
			sessEnd = &se
		case "takeover_clean", "takeover_resume":
			c2, ack, err := connect(l.Ending == "takeover_clean", false)
			if err != nil || ack == nil || ack.ReasonCode != 0 {
				return fail(ev.Violf("C08.takeover", "second CONNECT failed: %v %v", ack, err))
			}
			cl2 = c2
			defer cl2.Kill()
			if l.Ending == "takeover_clean" || !ack.SessionPresent {
				se := ival{end.lo, time.Now()}
				sessEnd = &se
			} else {
				reattached = true
			}
		}
		if l.Ending != "keepalive" && l.Ending != "terminate" && l.Ending != "takeover_clean" && l.Ending != "takeover_resume" {
			waitClientGone(b, id)
		}
		end.hi = time.Now()

		// ---- session lifetime after the connection ended ----
		D := time.Duration(0)
		if l.V == 5 {
			D = time.Duration(l.DelayS) * time.Second
		}
		E := time.Duration(l.ExpiryS) * time.Second
		if l.DiscExpiryS > 0 {
			E = time.Duration(l.DiscExpiryS) * time.Second
		}
		// "Too late" is decided by ORDER, not by a latency bound: one second after the latest moment the will may be
		// published the harness publishes a marker to the watcher. Will and marker pass the same serialised delivery
		// and the watcher's one FIFO queue, so a will that arrives behind the marker was published after it - however
		// slow the machine is. (Markers published later than planned only weaken the check.)
		var markers []string
		var markMu sync.Mutex
		mark := func(tag string, at time.Time) {
			time.AfterFunc(time.Until(at), func() {
				markMu.Lock()
				markers = append(markers, tag)
				markMu.Unlock()
				b.Srv.Publisher().Publish(&gmqtt.Message{Topic: fixture.SentinelTopic(w.ID), Payload: []byte(tag)})
			})
		}
		if !suppress {
			w0 := end.plus(D)
			if E < D {
				w0 = end.plus(E)
			}
			mark("deadline0-"+id, w0.hi.Add(time.Second))
		}
		// ---- later action ----
		var reattach *ival
		switch l.After {
		case "resume", "clean", "terminate":
			time.Sleep(time.Until(end.hi.Add(time.Duration(l.AfterMs) * time.Millisecond)))
			a0 := time.Now()
			switch l.After {
			case "terminate":
				b.Srv.ClientService().TerminateSession(id)
				se := ival{a0, time.Now()}
				if sessEnd == nil {
					sessEnd = &se
				}
			default:
				c3, ack, err := connect(l.After == "clean", false)
				if err != nil || ack == nil || ack.ReasonCode != 0 {
					return fail(ev.Violf("C08.reconnect", "reconnect failed: %v %v", ack, err))
				}
				defer c3.Kill()
				a1 := time.Now()
				if l.After == "resume" && ack.SessionPresent {
					reattach = &ival{a0, a1}
					if l.Then == "close" {
						// the resumed connection registered no will of its own; its socket just goes away. Whatever the first
						// connection had registered was decided at the resume: nothing may be published for this one
						c3.Kill()
						if !waitClientGone(b, id) {
							return fail(harnessErr("client %s still registered 5 s after its socket was closed", id))
						}
						o.labels = append(o.labels, "resumed_then_close")
					}
					if l.Then == "disc0_clean" || l.Then == "disc0_terminate" {
						// the resumed connection leaves normally; then the stored session is ended from outside
						_ = c3.Send(&mw.Packet{Type: mw.DISCONNECT})
						c3.WaitClosed(fixture.DefaultWait)
						c3.Kill()
						if !waitClientGone(b, id) {
							return fail(harnessErr("client %s still registered 5 s after DISCONNECT", id))
						}
						if l.Then == "disc0_terminate" {
							b.Srv.ClientService().TerminateSession(id)
						} else {
							c4, ack4, err := connect(true, false)
							if err != nil || ack4 == nil || ack4.ReasonCode != 0 {
								return fail(ev.Violf("C08.reconnect", "reconnect failed: %v %v", ack4, err))
							}
							defer c4.Kill()
						}
						o.labels = append(o.labels, "resumed_then_"+l.Then)
					}
				} else if sessEnd == nil {
					// clean start, or the session was already gone: whatever session existed ends here at the latest
					sessEnd = &ival{a0, a1}
				}
			}
		}

		if !suppress && sessEnd != nil {
			mark("deadline1-"+id, sessEnd.hi.Add(time.Second))
		}
		// ---- expectation ----
		expectNone := suppress
		var window ival
		inconclusive := false
		if !suppress {
			window = end.plus(D)
			if E < D {
				window = end.plus(E) // the session ends before the delay has passed
			}
			if sessEnd != nil {
				window = minIval(window, *sessEnd)
			}
			if reattached {
				if D > 0 && E > 0 {
					expectNone = true
				}
			} else if reattach != nil {
				switch {
				case reattach.hi.Before(window.lo.Add(-timingMargin)):
					expectNone = true
				case reattach.lo.After(window.hi.Add(timingMargin)):
				default:
					inconclusive = true
				}
			}
		}
		// ---- wait for the horizon, then barrier ----
		horizon := end.hi.Add(D).Add(1500 * time.Millisecond)
		if !suppress && !expectNone && window.hi.Add(1500*time.Millisecond).After(horizon) {
			horizon = window.hi.Add(1500 * time.Millisecond)
		}
		if E < 5*time.Second && end.hi.Add(E).Add(1500*time.Millisecond).After(horizon) {
			horizon = end.hi.Add(E).Add(1500 * time.Millisecond)
		}
		time.Sleep(time.Until(horizon))
		if err := sentinelBarrier(b, []*fixture.Client{w}, "end"+id); err != nil {
			return fail(harnessErr("%v", err))
		}
		var got []*fixture.Recv
		for _, r := range w.All() {
			if r.P.Type == mw.PUBLISH && r.P.Topic == topic && !r.P.Dup {
				got = append(got, r)
			}
		}
		logf("v%d ending=%s after=%s@%dms D=%v E=%v expectNone=%v inconclusive=%v copies=%d window=[%v,%v] rel. to end.lo", l.V, l.Ending, l.After, l.AfterMs, D, E, expectNone, inconclusive, len(got),
			window.lo.Sub(end.lo), window.hi.Sub(end.lo))
		o.labels = append(o.labels, "ending_"+l.Ending)
		if l.Ending != "disc0" || l.After != "none" {
			o.nontrivial = true
		}
		if inconclusive {
			o.inconclusive = true
			if len(got) > 1 {
				return fail(ev.Violf("C08.twice", "will published %d times", len(got)))
			}
			return o
		}
		if expectNone {
			o.labels = append(o.labels, "expect_none")
			if len(got) != 0 {
				what := "after a normal DISCONNECT"
				if !suppress {
					what = "although the client re-attached to its session before the will delay had passed"
				}
				return fail(ev.Violf("C08.unexpected-will", "will published %s (%d copies, first %v after the connection ended)", what, len(got), got[0].At.Sub(end.lo)).With("suppress", suppress))
			}
			return o
		}
		o.labels = append(o.labels, "expect_one")
		if len(got) == 0 {
			return fail(ev.Violf("C08.will-missing", "will never published (connection ended %v ago; expected %v..%v after the end)", time.Since(end.lo), window.lo.Sub(end.lo), window.hi.Sub(end.lo)))
		}
		if len(got) > 1 {
			return fail(ev.Violf("C08.twice", "will published %d times", len(got)))
		}
		at := got[0].At
		if at.Before(window.lo.Add(-5 * time.Millisecond)) {
			return fail(ev.Violf("C08.too-early", "will arrived %v after the connection ended, not before %v was allowed (delay %v, expiry %v)", at.Sub(end.lo), window.lo.Sub(end.lo), D, E))
		}
		// position of the will among the packets the watcher received, and of the deadline markers
		willIdx, firstMarker, firstMarkerTag := -1, -1, ""
		for k, r := range w.All() {
			if r.P.Type != mw.PUBLISH {
				continue
			}
			if r == got[0] {
				willIdx = k
			}
			if isSentinel(r.P) && strings.HasPrefix(string(r.P.Payload), "deadline") && strings.HasSuffix(string(r.P.Payload), "-"+id) && firstMarker < 0 {
				firstMarker, firstMarkerTag = k, string(r.P.Payload)
			}
		}
		if firstMarker >= 0 && willIdx > firstMarker {
			if st, d := stalledBetween(window.lo, at); st {
				// the broker itself was stalled for longer than the margin between the earliest allowed moment and the arrival
				o.inconclusive = true
				o.labels = append(o.labels, "broker_stalled_timing_inconclusive")
				logf("will behind its deadline marker, but a heartbeat through the broker's lock took %v in that period", d)
				return o
			}
			return fail(ev.Violf("C08.too-late", "will arrived %v after the connection ended, behind the marker %s which the harness published one second after the latest moment allowed (%v after the end; delay %v, expiry %v)", at.Sub(end.lo), firstMarkerTag, window.hi.Sub(end.lo), D, E).
				With("session_ended_explicitly", sessEnd != nil))
		}
		if at.After(window.hi.Add(time.Second)) {
			o.labels = append(o.labels, "will_in_time_but_delivered_late") // slow machine: published before the marker, seen late
		}
		// content
		p := got[0].P
		if string(p.Payload) != payload || p.QoS != l.WillQoS || p.Retain != l.Retain {
			return fail(ev.Violf("C08.content", "will arrived as %s, registered payload=%q qos=%d retain=%v", p, payload, l.WillQoS, l.Retain))
		}
		if l.V == 5 {
			want := pubProps(l.Props)
			if want == nil {
				want = &mw.Props{}
			}
			gotp := p.Props
			if gotp == nil {
				gotp = &mw.Props{}
			}
			cmp := *gotp
			cmp.SubscriptionIDs, cmp.MessageExpiry = nil, nil
			if !mw.EqualProps(&cmp, want) {
				return fail(ev.Violf("C08.content-props", "will properties arrived as %s, registered %s", gotp, want))
			}
		}
		return o
	})
	return collectLanes(outs, c)
}

func TestC08Will(t *testing.T) {
	ev.SetRule("C08", "timed lanes: per case one broker and 6-10 concurrent independent lanes: CONNECT (v3.1.1/v5) with a will (QoS 0-2, retain, will delay {0,1,2 s}, property mix) and session expiry {0,1,3,100 s}; the connection ends by DISCONNECT 0x00, DISCONNECT 0x04, socket close, malformed packet, keep-alive timeout (1 s), clean / resuming take-over, Client.Close() or TerminateSession; optionally followed after 0.4/1.5/2.6 s by a resuming reconnect, a clean reconnect or TerminateSession. A v5 watcher (QoS2, RAP) of the will topic records copies and arrival times. Expected: nothing after DISCONNECT 0x00 or when the client re-attached before the delay passed; otherwise exactly one copy no earlier than end+min(delay, expiry, explicit session end) (lower bound of the harness-measured end interval) and no later than the upper bound + 1 s, with the registered topic/payload/QoS/RETAIN/properties. A reconnect whose [sent, CONNACK] interval is within 300 ms of the expected publication window makes the lane timing_inconclusive. Non-trivial lane: the ending is not DISCONNECT 0x00 or something happens afterwards; cases distinct by scenario digest.")
	ev.Run(t, "C08", genC08, runC08)
}
