package checks

// C02 — Subscription index answers match MQTT topic-matching rules after any history.

import (
	"fmt"
	"sort"
	"strings"
	"testing"

	"github.com/DrmagicE/gmqtt"
	"github.com/DrmagicE/gmqtt/persistence/subscription"
	submem "github.com/DrmagicE/gmqtt/persistence/subscription/mem"
	"github.com/DrmagicE/gmqtt/pkg/packets"
	"pgregory.net/rapid"

	"verif/ev"
	"verif/topicref"
)

type subSpec struct {
	Group  string `json:"g,omitempty"`
	Filter string `json:"f"`
	QoS    byte   `json:"q"`
	NL     bool   `json:"nl,omitempty"`
	RAP    bool   `json:"rap,omitempty"`
	RH     byte   `json:"rh,omitempty"`
	ID     uint32 `json:"id,omitempty"`
}

func (s subSpec) full() string {
	if s.Group != "" {
		return "$share/" + s.Group + "/" + s.Filter
	}
	return s.Filter
}

func (s subSpec) gm() *gmqtt.Subscription {
	return &gmqtt.Subscription{ShareName: s.Group, TopicFilter: s.Filter, ID: s.ID, QoS: s.QoS, NoLocal: s.NL, RetainAsPublished: s.RAP, RetainHandling: s.RH}
}

func specOf(s *gmqtt.Subscription) subSpec {
	return subSpec{Group: s.ShareName, Filter: s.TopicFilter, ID: s.ID, QoS: s.QoS, NL: s.NoLocal, RAP: s.RetainAsPublished, RH: s.RetainHandling}
}

type subOp struct {
	Op      string    `json:"op"` // sub | unsub | unsuball
	Client  int       `json:"c"`
	Subs    []subSpec `json:"subs,omitempty"`
	Filters []string  `json:"filters,omitempty"`
}

type c02Scen struct {
	Backend string   `json:"backend"`
	Shared  bool     `json:"shared"` // shared subscriptions generated as bystanders
	Ops     []subOp  `json:"ops"`
	Probes  []string `json:"probes"`
}

var levelAlphabet = []string{"a", "b", ""}

// genFilter draws a valid topic filter of depth 1..3 over a small alphabet with wildcards
// at every legal position; first level may be a '$'-level.
// c02DollarShareLike are ordinary (non-shared) filters / topic names in the '$' namespace that look like the shared
// subscription prefix: only "$share/<group>/<filter>" is a shared subscription.
var c02DollarShareLike = []string{"$share", "$shared/a", "$SHARE/a/b"}

func genFilter(t *rapid.T, label string) string {
	if rapid.IntRange(0, 29).Draw(t, label+".sharelike") == 0 {
		return rapid.SampledFrom(c02DollarShareLike).Draw(t, label+".sharelike_f")
	}
	depth := rapid.IntRange(1, 3).Draw(t, label+".depth")
	var lv []string
	for i := 0; i < depth; i++ {
		opts := []string{"a", "b", "", "+"}
		if i == 0 {
			opts = append(opts, "$x")
		}
		if i == depth-1 {
			opts = append(opts, "#", "#")
		}
		lv = append(lv, rapid.SampledFrom(opts).Draw(t, label+".lv"))
	}
	f := strings.Join(lv, "/")
	if f == "" {
		f = "a"
	}
	return f
}

func genTopicName(t *rapid.T, label string) string {
	if rapid.IntRange(0, 39).Draw(t, label+".sharelike") == 0 {
		return rapid.SampledFrom(c02DollarShareLike).Draw(t, label+".sharelike_t")
	}
	depth := rapid.IntRange(1, 3).Draw(t, label+".depth")
	var lv []string
	for i := 0; i < depth; i++ {
		lv = append(lv, rapid.SampledFrom([]string{"a", "b", "", "$x"}).Draw(t, label+".lv"))
	}
	n := strings.Join(lv, "/")
	if n == "" {
		n = "b"
	}
	return n
}

// topicUniverse is every topic name of depth <= 3 over {a,b,"",$x}.
var topicUniverse = func() []string {
	al := []string{"a", "b", "", "$x"}
	var out []string
	for _, x := range al {
		if x != "" {
			out = append(out, x)
		}
		for _, y := range al {
			out = append(out, x+"/"+y)
			for _, z := range al {
				out = append(out, x+"/"+y+"/"+z)
			}
		}
	}
	return append(out, c02DollarShareLike...)
}()

func genSubSpec(t *rapid.T, shared bool) subSpec {
	s := subSpec{Filter: genFilter(t, "f"), QoS: byte(rapid.IntRange(0, 2).Draw(t, "qos"))}
	s.NL = rapid.Bool().Draw(t, "nl")
	s.RAP = rapid.Bool().Draw(t, "rap")
	s.RH = byte(rapid.IntRange(0, 2).Draw(t, "rh"))
	s.ID = rapid.SampledFrom([]uint32{0, 0, 1, 127, 128, 268435455}).Draw(t, "id")
	if shared && rapid.IntRange(0, 3).Draw(t, "isShared") == 0 {
		s.Group = rapid.SampledFrom([]string{"g1", "g2"}).Draw(t, "group")
		s.NL = false // No Local on a shared subscription is a protocol error
	}
	return s
}

func genSubOps(t *rapid.T, shared bool, maxOps int) []subOp {
	n := rapid.IntRange(1, maxOps).Draw(t, "nops")
	var ops []subOp
	var known []string // full filters used so far: unsubscribe mostly targets these
	for i := 0; i < n; i++ {
		c := rapid.IntRange(0, 3).Draw(t, "client")
		switch k := rapid.IntRange(0, 9).Draw(t, "kind"); {
		case k <= 5:
			m := rapid.IntRange(1, 3).Draw(t, "nsubs")
			op := subOp{Op: "sub", Client: c}
			for j := 0; j < m; j++ {
				var s subSpec
				if len(known) > 0 && rapid.IntRange(0, 2).Draw(t, "re") == 0 {
					// re-subscribe an earlier filter with fresh options
					s = genSubSpec(t, shared)
					g, f := topicref.SplitShare(rapid.SampledFrom(known).Draw(t, "refilter"))
					s.Group, s.Filter = g, f
					if g != "" {
						s.NL = false
					}
				} else {
					s = genSubSpec(t, shared)
				}
				op.Subs = append(op.Subs, s)
				known = append(known, s.full())
			}
			ops = append(ops, op)
		case k <= 8:
			m := rapid.IntRange(1, 2).Draw(t, "nunsub")
			op := subOp{Op: "unsub", Client: c}
			for j := 0; j < m; j++ {
				if len(known) > 0 && rapid.IntRange(0, 4).Draw(t, "knownf") != 0 {
					op.Filters = append(op.Filters, rapid.SampledFrom(known).Draw(t, "unfilter"))
				} else {
					op.Filters = append(op.Filters, genSubSpec(t, shared).full())
				}
			}
			ops = append(ops, op)
		default:
			ops = append(ops, subOp{Op: "unsuball", Client: c})
		}
	}
	return ops
}

func clientName(i int) string { return fmt.Sprintf("c%d", i) }

// subModel is the reference: client -> full filter -> spec.
type subModel struct {
	m     map[string]map[string]subSpec
	total map[string]int // first-time additions per client
	gtot  int
}

func newSubModel() *subModel {
	return &subModel{m: map[string]map[string]subSpec{}, total: map[string]int{}}
}

func (m *subModel) apply(op subOp) (existed []bool) {
	c := clientName(op.Client)
	switch op.Op {
	case "sub":
		for _, s := range op.Subs {
			if m.m[c] == nil {
				m.m[c] = map[string]subSpec{}
			}
			_, ex := m.m[c][s.full()]
			existed = append(existed, ex)
			if !ex {
				m.total[c]++
				m.gtot++
			}
			m.m[c][s.full()] = s
		}
	case "unsub":
		for _, f := range op.Filters {
			delete(m.m[c], f)
		}
	case "unsuball":
		delete(m.m, c)
	}
	return
}

func (m *subModel) live() (n int) {
	for _, fs := range m.m {
		n += len(fs)
	}
	return
}

type subRow struct {
	Client string
	Spec   subSpec
}

func rowsKey(rs []subRow) []string {
	out := make([]string, len(rs))
	for i, r := range rs {
		out[i] = fmt.Sprintf("%s|%+v", r.Client, r.Spec)
	}
	sort.Strings(out)
	return out
}

func (m *subModel) matching(topic string, shared bool) []subRow {
	var out []subRow
	for c, fs := range m.m {
		for _, s := range fs {
			if (s.Group != "") != shared {
				continue
			}
			if topicref.Match(topic, s.Filter) {
				out = append(out, subRow{c, s})
			}
		}
	}
	return out
}

func (m *subModel) exact(full string) []subRow {
	var out []subRow
	for c, fs := range m.m {
		if s, ok := fs[full]; ok {
			out = append(out, subRow{c, s})
		}
	}
	return out
}

func (m *subModel) byClient(c string) []subRow {
	var out []subRow
	for _, s := range m.m[c] {
		out = append(out, subRow{c, s})
	}
	return out
}

func iterRows(st subscription.Store, o subscription.IterationOptions) []subRow {
	var out []subRow
	st.Iterate(func(clientID string, sub *gmqtt.Subscription) bool {
		if sub == nil {
			out = append(out, subRow{clientID, subSpec{Filter: "<nil subscription>"}})
			return true
		}
		out = append(out, subRow{clientID, specOf(sub)})
		return true
	}, o)
	return out
}

func eqStrs(a, b []string) bool {
	if len(a) != len(b) {
		return false
	}
	for i := range a {
		if a[i] != b[i] {
			return false
		}
	}
	return true
}

// checkSubStore compares the store with the model. prefix is the assertion-id prefix.
func checkSubStore(st subscription.Store, m *subModel, topics []string, shared bool, c *ev.Case, pfx string) *ev.Violation {
	nonShared := subscription.TypeNonShared | subscription.TypeSYS
	for _, tp := range topics {
		got := rowsKey(iterRows(st, subscription.IterationOptions{Type: nonShared, TopicName: tp, MatchType: subscription.MatchFilter}))
		want := rowsKey(m.matching(tp, false))
		if !eqStrs(got, want) {
			return ev.Violf(pfx+".match-filter", "topic %q: store returned %v, reference matcher says %v", tp, got, want).With("topic", tp)
		}
		if len(want) > 0 {
			c.Count("nonempty_answers", 1)
		}
		if shared {
			got := rowsKey(iterRows(st, subscription.IterationOptions{Type: subscription.TypeShared, TopicName: tp, MatchType: subscription.MatchFilter}))
			want := rowsKey(m.matching(tp, true))
			if !eqStrs(got, want) {
				return ev.Violf(pfx+".shared-match-filter", "topic %q: shared lookup returned %v, model says %v", tp, got, want).With("topic", tp)
			}
		}
	}
	// lookups by exact filter and by client
	seen := map[string]bool{}
	for cl, fs := range m.m {
		for full, s := range fs {
			if seen[full] {
				continue
			}
			seen[full] = true
			typ := nonShared
			if s.Group != "" {
				typ = subscription.TypeShared
			}
			got := rowsKey(iterRows(st, subscription.IterationOptions{Type: typ, TopicName: full, MatchType: subscription.MatchName}))
			want := rowsKey(m.exact(full))
			if !eqStrs(got, want) {
				return ev.Violf(pfx+".match-name", "filter %q: store returned %v, model says %v", full, got, want).With("filter", full, "shared", s.Group != "")
			}
			got = rowsKey(iterRows(st, subscription.IterationOptions{Type: typ, TopicName: full, MatchType: subscription.MatchName, ClientID: cl}))
			want = rowsKey([]subRow{{cl, s}})
			if !eqStrs(got, want) {
				return ev.Violf(pfx+".match-name-client", "filter %q client %s: store returned %v, model says %v", full, cl, got, want).With("shared", s.Group != "")
			}
		}
	}
	for i := 0; i < 4; i++ {
		cl := clientName(i)
		got := rowsKey(iterRows(st, subscription.IterationOptions{Type: subscription.TypeAll, ClientID: cl}))
		want := rowsKey(m.byClient(cl))
		if !eqStrs(got, want) {
			return ev.Violf(pfx+".by-client", "client %s: store returned %v, model says %v", cl, got, want)
		}
		cs, err := st.GetClientStats(cl)
		if err != nil {
			if m.total[cl] != 0 {
				return ev.Violf(pfx+".client-stats", "client %s: GetClientStats error %v but model has %d additions", cl, err, m.total[cl])
			}
			continue
		}
		if int(cs.SubscriptionsCurrent) != len(m.m[cl]) || int(cs.SubscriptionsTotal) != m.total[cl] {
			return ev.Violf(pfx+".client-stats", "client %s: stats current=%d total=%d, model live=%d additions=%d", cl, cs.SubscriptionsCurrent, cs.SubscriptionsTotal, len(m.m[cl]), m.total[cl]).
				With("shared_involved", modelHasShared(m, cl))
		}
	}
	// full traversal
	got := rowsKey(iterRows(st, subscription.IterationOptions{Type: subscription.TypeAll}))
	var all []subRow
	for cl := range m.m {
		all = append(all, m.byClient(cl)...)
	}
	if want := rowsKey(all); !eqStrs(got, want) {
		return ev.Violf(pfx+".iterate-all", "full iteration returned %v, model says %v", got, want)
	}
	gs := st.GetStats()
	if int(gs.SubscriptionsCurrent) != m.live() || int(gs.SubscriptionsTotal) != m.gtot {
		return ev.Violf(pfx+".stats", "stats current=%d total=%d, model live=%d additions=%d", gs.SubscriptionsCurrent, gs.SubscriptionsTotal, m.live(), m.gtot)
	}
	return nil
}

func modelHasShared(m *subModel, cl string) bool {
	for _, s := range m.m[cl] {
		if s.Group != "" {
			return true
		}
	}
	return false
}

func runSubHistory(st subscription.Store, s c02Scen, c *ev.Case, pfx string) *ev.Violation {
	m := newSubModel()
	removedAfterAdd := false
	added := false
	for i, op := range s.Ops {
		c.Logf("step %d: %+v", i, op)
		cl := clientName(op.Client)
		switch op.Op {
		case "sub":
			var subs []*gmqtt.Subscription
			for _, sp := range op.Subs {
				subs = append(subs, sp.gm())
				if sp.Group != "" {
					c.Label("shared_sub")
				}
				if strings.Contains(sp.Filter, "//") || strings.HasPrefix(sp.Filter, "/") || strings.HasSuffix(sp.Filter, "/") {
					c.Label("empty_level")
				}
				if strings.HasPrefix(sp.Filter, "$") {
					c.Label("dollar_filter")
				}
			}
			rs, err := st.Subscribe(cl, subs...)
			if err != nil {
				return ev.Violf(pfx+".subscribe-error", "Subscribe returned %v", err)
			}
			ex := m.apply(op)
			added = true
			if len(rs) != len(ex) {
				return ev.Violf(pfx+".subscribe-result", "Subscribe returned %d results for %d subscriptions", len(rs), len(ex))
			}
			for j := range ex {
				if rs[j].AlreadyExisted != ex[j] {
					return ev.Violf(pfx+".already-existed", "Subscribe(%s,%q): AlreadyExisted=%v, model says %v", cl, op.Subs[j].full(), rs[j].AlreadyExisted, ex[j]).
						With("shared", op.Subs[j].Group != "")
				}
				if ex[j] {
					c.Label("resubscribe")
				}
			}
		case "unsub":
			for _, f := range op.Filters {
				if _, ok := m.m[cl][f]; ok && added {
					removedAfterAdd = true
				}
			}
			if err := st.Unsubscribe(cl, op.Filters...); err != nil {
				return ev.Violf(pfx+".unsubscribe-error", "Unsubscribe returned %v", err)
			}
			m.apply(op)
		case "unsuball":
			if len(m.m[cl]) > 0 {
				removedAfterAdd = true
				c.Label("unsuball_nonempty")
			}
			if err := st.UnsubscribeAll(cl); err != nil {
				return ev.Violf(pfx+".unsubscribeall-error", "UnsubscribeAll returned %v", err)
			}
			m.apply(op)
		}
		topics := s.Probes
		if i == len(s.Ops)-1 {
			topics = topicUniverse
		}
		before := c.CountOf("nonempty_answers")
		if v := checkSubStore(st, m, topics, s.Shared, c, pfx); v != nil {
			return v.With("step", i, "op", op.Op)
		}
		if removedAfterAdd && c.CountOf("nonempty_answers") > before {
			c.NonTrivial()
		}
	}
	return nil
}

func TestC02StoreSharedBystanders(t *testing.T) {
	ev.Run(t, "C02", func(t *rapid.T) c02Scen {
		s := c02Scen{Backend: "mem", Shared: true}
		s.Ops = genSubOps(t, true, 40)
		np := rapid.IntRange(1, 6).Draw(t, "nprobes")
		for i := 0; i < np; i++ {
			s.Probes = append(s.Probes, genTopicName(t, "probe"))
		}
		return s
	}, func(s c02Scen, c *ev.Case) *ev.Violation {
		return runSubHistory(submem.NewStore(), s, c, "C02")
	})
}

func TestC02Store(t *testing.T) {
	ev.SetRule("C02", "rapid-generated histories (<=40 ops: subscribe 1-3 filters incl. re-subscribe with new options / unsubscribe / unsubscribe-all, 4 clients, filters of depth<=3 over {a,b,'',+,#,$x}) run in lock-step against map[client]map[filter]; after every op sampled topics, after the last op ALL 84 topic names of depth<=3 over {a,b,'',$x} are queried (MatchFilter), plus exact-filter, by-client, full iteration and counters. Non-trivial: a removal of a live subscription followed by a lookup with a non-empty answer; distinct by scenario digest. TopicMatch: all (name,filter) pairs vs reference matcher.")
	ev.Run(t, "C02", func(t *rapid.T) c02Scen {
		s := c02Scen{Backend: "mem"}
		s.Shared = false
		s.Ops = genSubOps(t, s.Shared, 40)
		np := rapid.IntRange(1, 6).Draw(t, "nprobes")
		for i := 0; i < np; i++ {
			s.Probes = append(s.Probes, genTopicName(t, "probe"))
		}
		return s
	}, func(s c02Scen, c *ev.Case) *ev.Violation {
		return runSubHistory(submem.NewStore(), s, c, "C02")
	})
}

// ---- TopicMatch ----

type tmScen struct {
	Topic  string `json:"topic"`
	Filter string `json:"filter"`
}

func TestC02TopicMatch(t *testing.T) {
	ev.RunN(t, "C02", 4, func(t *rapid.T) tmScen {
		return tmScen{Topic: genTopicName(t, "t"), Filter: genFilter(t, "f")}
	}, func(s tmScen, c *ev.Case) *ev.Violation {
		want := topicref.Match(s.Topic, s.Filter)
		got := packets.TopicMatch([]byte(s.Topic), []byte(s.Filter))
		if want {
			c.NonTrivial()
			c.Label("topicmatch_true")
		}
		if got != want {
			return ev.Violf("C02.topicmatch", "TopicMatch(%q,%q)=%v, reference=%v", s.Topic, s.Filter, got, want).With("topic", s.Topic, "filter", s.Filter)
		}
		return nil
	})
}

// TestC02TopicMatchExhaustive sweeps every (name, filter) pair of depth<=3 over the alphabet.
func TestC02TopicMatchExhaustive(t *testing.T) {
	filters := allFilters()
	n := 0
	for _, tp := range topicUniverse {
		for _, f := range filters {
			n++
			want := topicref.Match(tp, f)
			got := packets.TopicMatch([]byte(tp), []byte(f))
			if got != want {
				ev.Fail(t, "C02", ev.Violf("C02.topicmatch", "TopicMatch(%q,%q)=%v, reference=%v", tp, f, got, want).With("topic", tp, "filter", f), tmScen{tp, f})
				return
			}
		}
	}
	ev.AddEvaluations("C02", n, "topicmatch_exhaustive_pairs")
}

func allFilters() []string {
	var out []string
	var rec func(prefix []string, depth int)
	rec = func(prefix []string, depth int) {
		if len(prefix) > 0 {
			out = append(out, strings.Join(prefix, "/"))
		}
		if len(prefix) == depth || (len(prefix) > 0 && prefix[len(prefix)-1] == "#") {
			return
		}
		opts := []string{"a", "b", "", "+", "#"}
		if len(prefix) == 0 {
			opts = append(opts, "$x")
		}
		for _, o := range opts {
			rec(append(append([]string{}, prefix...), o), depth)
		}
	}
	rec(nil, 3)
	var res []string
	for _, f := range out {
		if f != "" && topicref.TopicFilter([]byte(f)) == topicref.Valid {
			res = append(res, f)
		}
	}
	return res
}

// TestC02TopicMatchBytes: arbitrary bytes must not panic; on reference-valid arguments the
// verdicts must agree.
func TestC02TopicMatchBytes(t *testing.T) {
	ev.RunN(t, "C02", 4, func(t *rapid.T) tmScen {
		g := rapid.StringOfN(rapid.RuneFrom([]rune{'a', 'b', '/', '+', '#', '$', 'é', 0x10000}), 0, 8, -1)
		return tmScen{Topic: g.Draw(t, "topic"), Filter: g.Draw(t, "filter")}
	}, func(s tmScen, c *ev.Case) *ev.Violation {
		return c02TopicMatchBytes([]byte(s.Topic), []byte(s.Filter), c)
	})
}
