//go:build verif

package checks

// Membership watcher shared by C16 and C17. The properties are stated for a stable membership;
// serf's failure detector is not driven by the checks, but on a loaded machine it occasionally
// declares a live in-process node failed (the plugin then drops the peer, its session and its
// view of that node, and rebuilds everything when the node is "back"). A case in which that
// happened is undecidable: it is counted (membership_flap_inconclusive) and not judged.

import (
	"fmt"
	"runtime"
	"strings"
	"sync"
	"time"

	"verif/fixture"
)

type fedWatch struct {
	nodes     []*fixture.FedNode
	want      map[string]string // node name -> expected peer table (joined)
	mu        sync.Mutex
	next      map[string]uint64 // "node>peer" -> highest next event id seen
	sess      map[string]uint64 // "node<peer" -> highest expected event id seen
	why       string
	peersOnly bool // counters are not tracked yet (they restart legitimately during the first handshake)
	stop      chan struct{}
	done      chan struct{}
}

// watchFed starts watching: the peer table of every node must stay what it is now, and the
// per-peer event counters must never go backwards (a re-created peer or session starts at 0).
func watchFed(nodes ...*fixture.FedNode) *fedWatch { return newFedWatch(false, nodes...) }

// watchFedPeers watches the peer tables only until trackCounters is called.
func watchFedPeers(nodes ...*fixture.FedNode) *fedWatch { return newFedWatch(true, nodes...) }

func (w *fedWatch) trackCounters() {
	w.mu.Lock()
	w.peersOnly = false
	w.mu.Unlock()
}

func newFedWatch(peersOnly bool, nodes ...*fixture.FedNode) *fedWatch {
	w := &fedWatch{peersOnly: peersOnly, nodes: nodes, want: map[string]string{}, next: map[string]uint64{}, sess: map[string]uint64{}, stop: make(chan struct{}), done: make(chan struct{})}
	for _, n := range nodes {
		w.want[n.Name] = strings.Join(n.Fed.VerifPeers(), ",")
	}
	w.check()
	go func() {
		defer close(w.done)
		for {
			select {
			case <-w.stop:
				return
			case <-time.After(3 * time.Millisecond):
				w.check()
			}
		}
	}()
	return w
}

func (w *fedWatch) check() {
	w.mu.Lock()
	defer w.mu.Unlock()
	if w.why != "" {
		return
	}
	for _, n := range w.nodes {
		peers := n.Fed.VerifPeers()
		if got := strings.Join(peers, ","); got != w.want[n.Name] {
			w.why = fmt.Sprintf("peer table of %s became [%s], was [%s]", n.Name, got, w.want[n.Name])
			return
		}
		if w.peersOnly {
			continue
		}
		for _, p := range peers {
			if _, next, ok := n.Fed.VerifPeerQueue(p); ok {
				k := n.Name + ">" + p
				if next < w.next[k] {
					w.why = fmt.Sprintf("event queue %s restarted (next id %d after %d)", k, next, w.next[k])
					return
				}
				w.next[k] = next
			}
			if sn, ok := n.Fed.VerifSessionNext(p); ok {
				k := n.Name + "<" + p
				if sn < w.sess[k] {
					w.why = fmt.Sprintf("session %s restarted (expects %d after %d)", k, sn, w.sess[k])
					return
				}
				w.sess[k] = sn
			} else if _, had := w.sess[n.Name+"<"+p]; had {
				w.why = fmt.Sprintf("session %s<%s vanished", n.Name, p)
				return
			}
		}
	}
}

// flapped reports (after a last look) whether the membership was disturbed, and how.
func (w *fedWatch) flapped() (bool, string) {
	w.check()
	w.mu.Lock()
	defer w.mu.Unlock()
	return w.why != "", w.why
}

func (w *fedWatch) close() {
	select {
	case <-w.stop:
	default:
		close(w.stop)
	}
	<-w.done
}

// fedGoroutines returns the (clipped) stacks of the goroutines inside plugin/federation that are
// not parked in the usual places; diagnostics for stuck-stream reports.
func fedGoroutines() string {
	buf := make([]byte, 4<<20)
	buf = buf[:runtime.Stack(buf, true)]
	var out []string
	for _, g := range strings.Split(string(buf), "\n\n") {
		if !strings.Contains(g, "plugin/federation.") {
			continue
		}
		if strings.Contains(g, ").eventHandler") || strings.Contains(g, "Federation).Load.func1") {
			continue
		}
		lines := strings.Split(g, "\n")
		var keep []string
		for i, l := range lines {
			if i == 0 || strings.Contains(l, "plugin/federation.") {
				keep = append(keep, strings.TrimSpace(l))
			}
		}
		out = append(out, strings.Join(keep, " | "))
		if len(out) >= 12 {
			break
		}
	}
	return strings.Join(out, "\n")
}
