package checks

// C18 — For MQTT over WebSocket the broker processes exactly the concatenation of the
// payloads of the binary messages it receives, byte for byte, however the MQTT packets are
// split across or packed into WebSocket messages and whatever read sizes the packet reader
// requests; text messages are rejected; everything written for the client arrives as binary
// messages whose concatenation is the written byte stream.
//
// Oracle: differential against the plain stream transport. The generated client byte stream
// (CONNECT, SUBSCRIBE "e" QoS1, PUBLISH QoS1 to "e" ..., PINGREQ ...) is sent in one piece
// over an in-memory connection to a fresh broker (reference run) and, cut into websocket
// messages as the scenario says, over a gorilla/websocket client to a second identical fresh
// broker. The websocket client's received messages must all be binary and their
// concatenation, decoded by the independent codec, must be the reference response stream:
// the packets the connection's handler goroutine writes (CONNACK, SUBACK, PUBACK, PINGRESP)
// in the same order and equal field by field, and the echoed PUBLISH packets (written by the
// session's poller goroutine, so interleaved freely with the former) in the same order and
// equal field by field (ids, payload bytes). A closing PINGREQ in its own binary message
// proves the connection was not dropped.
//
// Text scenario: one message of the segmentation is sent as a TEXT message. The broker must
// close the connection, and no packet that lies wholly or partly in or behind the text message
// may be processed: the websocket client receives at most the responses to the packets that
// ended before the text message, and an independent observer (in-memory connection, same
// broker, subscribed to "e", sentinel barrier after the close) sees no other publish.

import (
	"encoding/json"
	"fmt"
	"github.com/DrmagicE/gmqtt/config"
	"os"
	"path/filepath"
	"sort"
	"strconv"
	"strings"
	"testing"
	"time"

	"pgregory.net/rapid"

	"verif/ev"
	"verif/fixture"
	mw "verif/mqttwire"
)

const (
	c18ClientID = "c18"
	c18Topic    = "e"
	c18MaxEmpty = 3 // at most this many consecutive empty binary messages
)

// c18Wait bounds "the response the reference run got must arrive" waits.
var c18Wait = 10 * time.Second

type c18Item struct {
	K string `json:"k"`           // "pub" | "ping"
	N int    `json:"n,omitempty"` // payload length of a pub
}

type c18Scen struct {
	V     int       `json:"v"`
	Seed  uint64    `json:"seed"`  // payload bytes: LCG on (seed, publish index)
	Items []c18Item `json:"items"` // after CONNECT and SUBSCRIBE
	Cuts  []int     `json:"cuts"`  // offsets into the byte stream where a new websocket message starts (a repeated offset = an empty message)
	Text  int       `json:"text"`  // 0: none; k>0: message number (k-1) mod #messages is sent as a TEXT message
	// TightMax: the broker's mqtt.max_packet_size is the size of the largest packet of the stream plus TightMax-1
	// (0 = the default limit): every packet is legal, but a websocket message packing several packets is longer
	// than the limit - which must not matter, the limit is about MQTT packets
	TightMax int `json:"tight_max_packet_size,omitempty"`
	// WaitBeforePing: the closing PINGREQ is only sent after every other response has arrived - whatever the broker has
	// written for the client must reach it without the help of later traffic
	WaitBeforePing bool `json:"wait_before_ping,omitempty"`
}

// c18Config is the broker configuration of a case (the same for the reference run and the websocket run).
func c18Config(s c18Scen, l *c18Layout) config.Config {
	cfg := fixture.BaseConfig()
	if s.TightMax > 0 {
		largest := 0
		for _, p := range l.Pkts {
			if n := p.End - p.Start; n > largest {
				largest = n
			}
		}
		cfg.MQTT.MaxPacketSize = uint32(largest + s.TightMax - 1)
	}
	return cfg
}

type c18Pkt struct {
	Kind       string // connect subscribe pub ping
	Start, End int    // [Start,End) in the stream
	Payload    []byte
	ID         uint16
}

type c18Layout struct {
	Stream []byte
	Pkts   []c18Pkt
	NPub   int
	NPing  int
}

func c18Payload(seed uint64, idx, n int) []byte {
	x := seed ^ (uint64(idx+1) * 0x9E3779B97F4A7C15)
	b := make([]byte, n)
	for i := range b {
		x = x*6364136223846793005 + 1442695040888963407
		b[i] = byte(x >> 56)
	}
	return b
}

// c18Build encodes the client byte stream of a scenario (without the closing PINGREQ).
func c18Build(v int, seed uint64, items []c18Item) (*c18Layout, error) {
	return c18BuildFor(v, seed, items, c18ClientID, c18Topic)
}

func c18BuildFor(v int, seed uint64, items []c18Item, c18ClientID, c18Topic string) (*c18Layout, error) {
	l := &c18Layout{}
	add := func(kind string, p *mw.Packet) error {
		b, err := mw.Encode(p, ver(v))
		if err != nil {
			return err
		}
		l.Pkts = append(l.Pkts, c18Pkt{Kind: kind, Start: len(l.Stream), End: len(l.Stream) + len(b), Payload: p.Payload, ID: p.PacketID})
		l.Stream = append(l.Stream, b...)
		return nil
	}
	name, lvl := mw.ProtoFor(ver(v))
	if err := add("connect", &mw.Packet{Type: mw.CONNECT, ProtoName: name, ProtoLevel: lvl, CleanStart: true, ClientID: c18ClientID}); err != nil {
		return nil, err
	}
	if err := add("subscribe", &mw.Packet{Type: mw.SUBSCRIBE, PacketID: 1, Subs: []mw.SubReq{{Filter: c18Topic, QoS: 1}}}); err != nil {
		return nil, err
	}
	for _, it := range items {
		switch it.K {
		case "pub":
			n := it.N
			if n < 0 {
				n = 0
			}
			if n > 8000 {
				n = 8000
			}
			id := uint16(10 + l.NPub)
			if err := add("pub", &mw.Packet{Type: mw.PUBLISH, QoS: 1, PacketID: id, Topic: c18Topic, Payload: c18Payload(seed, l.NPub, n)}); err != nil {
				return nil, err
			}
			l.NPub++
		case "ping":
			if err := add("ping", &mw.Packet{Type: mw.PINGREQ}); err != nil {
				return nil, err
			}
			l.NPing++
		}
	}
	return l, nil
}

// c18PayloadFor returns the payload length that makes the whole PUBLISH packet (QoS1, topic
// "e") exactly total bytes long, or -1.
func c18PayloadFor(total, v int) int {
	over := 2 + len(c18Topic) + 2 // topic + packet id
	if v == 5 {
		over++ // empty property section
	}
	for rl := 1; rl <= 3; rl++ {
		rem := total - 1 - rl
		if rem >= over && mw.VarIntLen(uint32(rem)) == rl {
			return rem - over
		}
	}
	return -1
}

// c18NormCuts sorts, clips and bounds the repetition of the cut offsets.
func c18NormCuts(cuts []int, n int) []int {
	var out []int
	for _, c := range cuts {
		if c > 0 && c < n {
			out = append(out, c)
		}
	}
	sort.Ints(out)
	var res []int
	for _, c := range out {
		k := 0
		for i := len(res) - 1; i >= 0 && res[i] == c; i-- {
			k++
		}
		if k <= c18MaxEmpty {
			res = append(res, c)
		}
	}
	return res
}

func c18Messages(stream []byte, cuts []int) [][2]int {
	var m [][2]int
	prev := 0
	for _, c := range cuts {
		m = append(m, [2]int{prev, c})
		prev = c
	}
	return append(m, [2]int{prev, len(stream)})
}

func genC18(t *rapid.T) c18Scen {
	s := c18Scen{V: rapid.SampledFrom([]int{4, 5}).Draw(t, "v"), Seed: rapid.Uint64().Draw(t, "seed")}
	if rapid.IntRange(0, 3).Draw(t, "tight") == 0 {
		s.TightMax = rapid.IntRange(1, 3).Draw(t, "tightmax")
	}
	s.WaitBeforePing = rapid.Bool().Draw(t, "wait_before_ping")
	npub := rapid.IntRange(1, 6).Draw(t, "npub")
	near := func(ts []int) int {
		total := rapid.SampledFrom(ts).Draw(t, "total")
		if rapid.IntRange(0, 3).Draw(t, "off") == 0 {
			total += rapid.IntRange(-3, 3).Draw(t, "delta")
		}
		return c18PayloadFor(total, s.V)
	}
	for i := 0; i < npub; i++ {
		if i > 0 && rapid.IntRange(0, 2).Draw(t, "ping") == 0 {
			s.Items = append(s.Items, c18Item{K: "ping"})
		}
		n := 0
		switch k := rapid.IntRange(0, 11).Draw(t, "lenclass"); {
		case k <= 1:
			n = rapid.IntRange(0, 3000).Draw(t, "n")
		case k <= 3:
			n = rapid.IntRange(0, 20).Draw(t, "n")
		case k <= 7:
			n = near([]int{1023, 1024, 1025})
		case k <= 9:
			n = near([]int{2047, 2048, 2049})
		case k == 10:
			n = rapid.IntRange(1018, 1030).Draw(t, "n")
		default:
			n = rapid.IntRange(2040, 2052).Draw(t, "n")
		}
		s.Items = append(s.Items, c18Item{K: "pub", N: n})
	}
	if rapid.IntRange(0, 2).Draw(t, "ping") == 0 {
		s.Items = append(s.Items, c18Item{K: "ping"})
	}
	l, err := c18Build(s.V, s.Seed, s.Items)
	if err != nil {
		t.Fatalf("@@HARNESS-ERROR build stream: %v", err)
	}
	total := len(l.Stream)
	var cuts []int
	empties := 0
	nshapes := rapid.SampledFrom([]int{0, 1, 1, 1, 2, 2, 3}).Draw(t, "nshapes")
	for i := 0; i < nshapes; i++ {
		switch k := rapid.IntRange(0, 13).Draw(t, "shape"); {
		case k <= 1: // free cuts
			m := rapid.IntRange(1, 8).Draw(t, "nfree")
			for j := 0; j < m; j++ {
				cuts = append(cuts, rapid.IntRange(1, total-1).Draw(t, "cut"))
			}
		case k <= 3: // a run of one-byte messages
			start := rapid.IntRange(0, total-1).Draw(t, "runstart")
			cnt := rapid.IntRange(1, 120).Draw(t, "runlen")
			for j := 0; j <= cnt; j++ {
				cuts = append(cuts, start+j)
			}
		case k == 4: // the whole stream in one-byte messages (small streams only)
			if total <= 4000 {
				for j := 1; j < total; j++ {
					cuts = append(cuts, j)
				}
			}
		case k <= 6: // packet boundaries, exact or off by one
			for _, p := range l.Pkts {
				switch rapid.IntRange(0, 5).Draw(t, "bnd") {
				case 0, 1:
					cuts = append(cuts, p.End)
				case 2:
					cuts = append(cuts, p.End-1)
				case 3:
					cuts = append(cuts, p.End+1)
				}
			}
		case k == 7: // one message per packet, some merged
			for _, p := range l.Pkts {
				if rapid.IntRange(0, 3).Draw(t, "merge") != 0 {
					cuts = append(cuts, p.End)
				}
			}
		case k <= 12: // messages of a fixed length around the reader's buffer size
			L := rapid.SampledFrom([]int{1023, 1024, 1025, 1023, 1024, 1025, 2047, 2048, 2049, 2, 3, 512}).Draw(t, "msglen")
			start := 0
			switch rapid.IntRange(0, 2).Draw(t, "fixstart") {
			case 0:
				start = l.Pkts[rapid.IntRange(0, len(l.Pkts)-1).Draw(t, "fixpkt")].Start
			case 1:
				start = rapid.IntRange(0, total-1).Draw(t, "fixoff")
			default:
				start = l.Pkts[rapid.IntRange(0, len(l.Pkts)-1).Draw(t, "fixpkt")].Start + rapid.IntRange(-1, 1).Draw(t, "fixd")
			}
			cnt := rapid.IntRange(1, 4).Draw(t, "fixcnt")
			for j := 0; j <= cnt; j++ {
				cuts = append(cuts, start+j*L)
			}
		default: // empty messages
			empties += rapid.IntRange(1, c18MaxEmpty).Draw(t, "empties")
		}
	}
	// shapes overlap: keep each offset once, then repeat some for the empty messages
	uniq := []int{}
	for _, ct := range c18NormCuts(cuts, total) {
		if len(uniq) == 0 || uniq[len(uniq)-1] != ct {
			uniq = append(uniq, ct)
		}
	}
	for ; empties > 0 && len(uniq) > 0; empties-- {
		uniq = append(uniq, uniq[rapid.IntRange(0, len(uniq)-1).Draw(t, "dup")])
	}
	s.Cuts = c18NormCuts(uniq, total)
	if s.Cuts == nil {
		s.Cuts = []int{}
	}
	if rapid.IntRange(0, 7).Draw(t, "text") == 0 {
		s.Text = 1 + rapid.IntRange(0, len(s.Cuts)).Draw(t, "textmsg")
	}
	return s
}

func c18LenClass(n int) string {
	switch {
	case n == 0:
		return "0"
	case n == 1:
		return "1"
	case n < 1023:
		return "2..1022"
	case n <= 1025:
		return strconv.Itoa(n)
	case n >= 2047 && n <= 2049:
		return strconv.Itoa(n)
	}
	return ">1025"
}

type c18Resp struct {
	ctl  []*mw.Packet // everything but PUBLISH, in order of arrival
	pubs []*mw.Packet // PUBLISH, in order of arrival
}

func c18IsPub(p *mw.Packet) bool  { return p.Type == mw.PUBLISH }
func c18NotPub(p *mw.Packet) bool { return p.Type != mw.PUBLISH }

// c18Reference sends the stream in one piece over the in-memory transport to a fresh broker
// and returns the responses, after checking them against what MQTT demands.
func c18Reference(s c18Scen, l *c18Layout, wire []byte) (*c18Resp, *ev.Violation) {
	b, err := fixture.Start(fixture.Opts{Config: c18Config(s, l)})
	if err != nil {
		return nil, harnessErr("start reference broker: %v", err)
	}
	defer b.Stop()
	conn, err := b.DialConn()
	if err != nil {
		return nil, harnessErr("dial reference broker: %v", err)
	}
	cl := fixture.NewClient(conn, c18ClientID, ver(s.V))
	defer cl.Kill()
	if err := cl.SendRaw(wire); err != nil {
		return nil, harnessErr("reference send: %v", err)
	}
	r := &c18Resp{}
	nctl := 2 + l.NPub + l.NPing + 1
	for i := 0; i < nctl; i++ {
		p, err := cl.WaitFor(c18NotPub, fixture.DefaultWait)
		if err != nil {
			return nil, harnessErr("reference run over the plain transport: response %d of %d missing: %v", i+1, nctl, err)
		}
		r.ctl = append(r.ctl, p)
	}
	for i := 0; i < l.NPub; i++ {
		p, err := cl.WaitFor(c18IsPub, fixture.DefaultWait)
		if err != nil {
			return nil, harnessErr("reference run over the plain transport: echo %d of %d missing: %v", i+1, l.NPub, err)
		}
		r.pubs = append(r.pubs, p)
	}
	// the reference must be what MQTT says (otherwise the differential proves nothing)
	k := 0
	for _, p := range l.Pkts {
		got := r.ctl[k]
		ok := false
		switch p.Kind {
		case "connect":
			ok = got.Type == mw.CONNACK && got.ReasonCode == 0 && !got.SessionPresent
		case "subscribe":
			ok = got.Type == mw.SUBACK && got.PacketID == 1 && len(got.ReasonCodes) == 1 && got.ReasonCodes[0] == 1
		case "pub":
			ok = got.Type == mw.PUBACK && got.PacketID == p.ID && got.ReasonCode == 0
		case "ping":
			ok = got.Type == mw.PINGRESP
		}
		if !ok {
			return nil, harnessErr("reference run: response %d to %s is %s", k, p.Kind, got)
		}
		k++
	}
	if r.ctl[k].Type != mw.PINGRESP {
		return nil, harnessErr("reference run: closing PINGREQ answered by %s", r.ctl[k])
	}
	k = 0
	for _, p := range l.Pkts {
		if p.Kind != "pub" {
			continue
		}
		e := r.pubs[k]
		if e.Topic != c18Topic || e.QoS != 1 || string(e.Payload) != string(p.Payload) {
			return nil, harnessErr("reference run: echo %d is %s", k, e)
		}
		k++
	}
	return r, nil
}

var c18Ping = []byte{0xC0, 0x00}

func c18PayloadDiff(got, want []byte) string {
	n := len(got)
	if len(want) < n {
		n = len(want)
	}
	for i := 0; i < n; i++ {
		if got[i] != want[i] {
			return fmt.Sprintf(" (payloads differ first at byte %d of %d/%d: %#02x vs %#02x)", i, len(got), len(want), got[i], want[i])
		}
	}
	if len(got) != len(want) {
		return fmt.Sprintf(" (payload lengths %d vs %d, common prefix equal)", len(got), len(want))
	}
	return ""
}

// c18EqualEcho compares two echoed PUBLISH packets in everything but the packet identifier:
// the broker's poller draws identifiers in batches of 100 and returns the unused ones, so the
// identifier of the n-th echo depends on how the poller's rounds interleave with the
// publishes (observed: 5 on one run, 101 on the other), not on the transport.
func c18EqualEcho(a, b *mw.Packet) bool {
	x, y := *a, *b
	x.PacketID, y.PacketID = 0, 0
	return a.PacketID != 0 && b.PacketID != 0 && mw.Equal(&x, &y)
}

func runC18(s c18Scen, c *ev.Case) *ev.Violation {
	if s.V != 4 && s.V != 5 {
		return harnessErr("bad version %d", s.V)
	}
	l, err := c18Build(s.V, s.Seed, s.Items)
	if err != nil {
		return harnessErr("build stream: %v", err)
	}
	stream := l.Stream
	cuts := c18NormCuts(s.Cuts, len(stream))
	msgs := c18Messages(stream, cuts)

	// ---- classification
	bounds := map[int]bool{0: true, len(stream): true}
	for _, p := range l.Pkts {
		bounds[p.End] = true
		switch p.End - p.Start {
		case 1023, 1024, 1025, 2047, 2048, 2049:
			if p.Kind == "pub" {
				c.Label(fmt.Sprintf("pkt_len_%d", p.End-p.Start))
			}
		}
	}
	aligned := true
	for _, ct := range cuts {
		if !bounds[ct] {
			aligned = false
		}
	}
	classes := map[string]bool{}
	oneByte, long := 0, false
	multi := false
	for _, m := range msgs {
		n := m[1] - m[0]
		classes[c18LenClass(n)] = true
		if n == 1 {
			oneByte++
		}
		if n > 1024 {
			long = true
		}
		inside := 0
		for _, p := range l.Pkts {
			if p.Start >= m[0] && p.End <= m[1] {
				inside++
			}
		}
		if inside >= 2 {
			multi = true
		}
	}
	var classList []string
	for k := range classes {
		classList = append(classList, k)
	}
	sort.Strings(classList)
	for _, k := range []string{"1023", "1024", "1025", "2047", "2048", "2049"} {
		if classes[k] {
			c.Label("msg_len_" + k)
		}
	}
	if classes["0"] {
		c.Label("empty_message")
	}
	if oneByte >= 3 {
		c.Label("one_byte_messages")
	}
	if multi {
		c.Label("multi_packet_message")
	}
	if len(msgs) == 1 {
		c.Label("single_message")
	}
	if !aligned {
		c.Label("unaligned_cut")
	}
	if long {
		c.Label("msg_longer_than_buffer")
	}
	c.Label(fmt.Sprintf("v%d", s.V))
	c.Count("ws_messages", len(msgs))
	c.Count("stream_bytes", len(stream))
	textIdx := -1
	if s.Text > 0 {
		textIdx = (s.Text - 1) % len(msgs)
		c.Label("text_message")
	}
	feat := func(v *ev.Violation) *ev.Violation {
		return v.With("msg_len_classes", strings.Join(classList, ","), "cut_at_packet_boundary", aligned, "version", s.V, "text", textIdx >= 0)
	}
	c.Logf("stream %d bytes, %d packets, %d messages, text=%d", len(stream), len(l.Pkts), len(msgs), textIdx)
	for i, p := range l.Pkts {
		c.Logf("  packet %d %s [%d,%d) len %d", i, p.Kind, p.Start, p.End, p.End-p.Start)
	}
	if len(msgs) <= 40 {
		for i, m := range msgs {
			c.Logf("  message %d [%d,%d) len %d", i, m[0], m[1], m[1]-m[0])
		}
	}

	// ---- reference run (plain transport, one piece)
	wire := append(append([]byte(nil), stream...), c18Ping...)
	ref, hv := c18Reference(s, l, wire)
	if hv != nil {
		return hv
	}

	// ---- websocket run
	b, url, err := fixture.StartWS(fixture.Opts{Config: c18Config(s, l)})
	if err != nil {
		return harnessErr("start websocket broker: %v", err)
	}
	if s.TightMax > 0 {
		c.Label("tight_max_packet_size")
	}
	defer b.Stop()

	var obs *fixture.Client
	if textIdx >= 0 {
		o, ack, err := b.Connect(fixture.ConnectOpts{ID: "obs", V: mw.V5, CleanStart: true, AutoAck: true})
		if err != nil || ack.ReasonCode != 0 {
			return harnessErr("observer connect: %v %v", ack, err)
		}
		obs = o
		defer obs.Kill()
		if err := subscribeSentinel(obs); err != nil {
			return harnessErr("%v", err)
		}
		if ack, err := obs.Subscribe(2, nil, mw.SubReq{Filter: c18Topic, QoS: 0}); err != nil || len(ack.ReasonCodes) != 1 || ack.ReasonCodes[0] != 0 {
			return harnessErr("observer subscribe: %v %v", ack, err)
		}
	}

	ws, err := fixture.DialWS(url)
	if err != nil {
		return harnessErr("websocket dial %s: %v", url, err)
	}
	cl := fixture.NewClient(ws, c18ClientID, ver(s.V))
	defer cl.Kill()
	var sendErr error
	sent := 0
	for i, m := range msgs {
		typ := fixture.WSBinary
		if i == textIdx {
			typ = fixture.WSText
		}
		if sendErr = ws.WriteMessage(typ, stream[m[0]:m[1]]); sendErr != nil {
			c.Logf("write of message %d failed: %v", i, sendErr)
			break
		}
		sent++
	}
	pingSent := false
	sendPing := func() {
		if pingSent {
			return
		}
		pingSent = true
		if sendErr == nil {
			if sendErr = ws.WriteMessage(fixture.WSBinary, c18Ping); sendErr != nil {
				c.Logf("write of the closing PINGREQ failed: %v", sendErr)
			}
		}
	}
	if !(s.WaitBeforePing && textIdx < 0) {
		sendPing()
	} else {
		c.Label("closing_ping_after_all_responses")
	}
	nonBinary := func() *ev.Violation {
		for i, f := range ws.Frames() {
			if f.Type != fixture.WSBinary {
				return feat(ev.Violf("C18.binary-frames", "message %d received from the broker has websocket type %d (len %d), want binary (2)", i, f.Type, f.Len))
			}
		}
		return nil
	}
	nontrivial := !aligned || long

	if textIdx >= 0 {
		if v := c18TextOracle(s, c, l, msgs, textIdx, ref, b, cl, obs, feat); v != nil {
			return v
		}
		if v := nonBinary(); v != nil {
			return v
		}
		if nontrivial {
			c.NonTrivial()
		}
		return nil
	}

	failure := func(what string, i int, err error) *ev.Violation {
		if v := nonBinary(); v != nil {
			return v
		}
		_, rerr := cl.Closed()
		switch {
		case err == fixture.ErrTimeout:
			return feat(ev.Violf("C18.stalled", "%s %d never arrived over websocket within %v although the plain-transport reference run got it (sent %d/%d messages)", what, i, c18Wait, sent, len(msgs)))
		case mw.IsMalformed(rerr):
			return feat(ev.Violf("C18.mismatch", "the concatenation of the received messages is not a valid MQTT stream while waiting for %s %d: %v", what, i, rerr))
		default:
			return feat(ev.Violf("C18.dropped", "connection closed by the broker while waiting for %s %d (reader: %v; sent %d/%d messages, send error: %v)", what, i, rerr, sent, len(msgs), sendErr))
		}
	}
	// Packets are compared in order of arrival (so that a wrong one is reported at once, not
	// after waiting for a later one), each against the next one of its own sequence.
	ci, pi := 0, 0
	for ci < len(ref.ctl) || pi < len(ref.pubs) {
		if ci == len(ref.ctl)-1 && pi == len(ref.pubs) {
			sendPing() // everything but the closing PINGRESP is in
		}
		got, err := cl.WaitFor(func(*mw.Packet) bool { return true }, c18Wait)
		if err != nil {
			if ci < len(ref.ctl) {
				return failure("response", ci, err)
			}
			return failure("echoed PUBLISH", pi, err)
		}
		if got.Type == mw.PUBLISH {
			if pi >= len(ref.pubs) {
				return feat(ev.Violf("C18.mismatch", "PUBLISH over websocket that the plain transport did not produce: %s", got))
			}
			if want := ref.pubs[pi]; !c18EqualEcho(got, want) {
				return feat(ev.Violf("C18.mismatch", "echoed PUBLISH %d over websocket is %s, over the plain transport %s%s", pi, got, want, c18PayloadDiff(got.Payload, want.Payload)).With("payload_len", len(want.Payload), "got_payload_len", len(got.Payload)))
			}
			pi++
			continue
		}
		if ci >= len(ref.ctl) {
			return feat(ev.Violf("C18.mismatch", "packet over websocket that the plain transport did not produce: %s", got))
		}
		if want := ref.ctl[ci]; !mw.Equal(got, want) {
			return feat(ev.Violf("C18.mismatch", "response %d over websocket is %s, over the plain transport %s", ci, got, want))
		}
		ci++
	}
	if extra := cl.Take(nil); len(extra) != 0 {
		return feat(ev.Violf("C18.mismatch", "%d packet(s) over websocket that the plain transport did not produce, first: %s", len(extra), extra[0].P))
	}
	if closed, rerr := cl.Closed(); closed {
		return feat(ev.Violf("C18.dropped", "connection closed by the broker after the closing PINGRESP: %v", rerr))
	}
	if v := nonBinary(); v != nil {
		return v
	}
	c.Count("ws_frames_received", len(ws.Frames()))
	if nontrivial {
		c.NonTrivial()
	}
	return nil
}

// c18TextOracle: message textIdx went out as a TEXT message.
func c18TextOracle(s c18Scen, c *ev.Case, l *c18Layout, msgs [][2]int, textIdx int, ref *c18Resp,
	b *fixture.Broker, cl, obs *fixture.Client, feat func(*ev.Violation) *ev.Violation) *ev.Violation {
	textStart := msgs[textIdx][0]
	// packets that ended before the text message began: only those may be processed
	allowedCtl := 0
	var allowedPubs [][]byte
	for _, p := range l.Pkts {
		if p.End <= textStart {
			allowedCtl++
			if p.Kind == "pub" {
				allowedPubs = append(allowedPubs, p.Payload)
			}
		}
	}
	c.Logf("text message %d starts at offset %d: %d packets before it (%d publishes)", textIdx, textStart, allowedCtl, len(allowedPubs))
	examine := func() *ev.Violation {
		nctl, npub := 0, 0
		for _, r := range cl.All() {
			p := r.P
			if p.Type == mw.PUBLISH {
				// echoes: a subsequence of the publishes before the text message
				for npub < len(allowedPubs) && string(allowedPubs[npub]) != string(p.Payload) {
					npub++
				}
				if npub >= len(allowedPubs) {
					return feat(ev.Violf("C18.text-accepted", "after a TEXT message at stream offset %d the client received the echo %s of a PUBLISH that lies in or behind the text message", textStart, p))
				}
				npub++
				continue
			}
			if s.V == 5 && p.Type == mw.DISCONNECT {
				continue // the broker may announce the close
			}
			// responses: a subsequence of the reference responses to the packets before the
			// text message (while it tears the connection down the broker drops queued
			// responses at random, not only a tail of them; the property is silent on that)
			for nctl < allowedCtl && !mw.Equal(p, ref.ctl[nctl]) {
				nctl++
			}
			if nctl >= allowedCtl {
				return feat(ev.Violf("C18.text-accepted", "after a TEXT message at stream offset %d the client received %s, which is not (in order) among the %d reference responses to the packets that end before the text message", textStart, p, allowedCtl))
			}
			nctl++
		}
		return nil
	}
	deadline := time.Now().Add(c18Wait)
	for {
		closed, _ := cl.Closed()
		if v := examine(); v != nil {
			return v
		}
		if closed {
			break
		}
		if time.Now().After(deadline) {
			return feat(ev.Violf("C18.text-accepted", "connection still open %v after a TEXT message (message %d, stream offset %d)", c18Wait, textIdx, textStart))
		}
		cl.WaitClosed(2 * time.Millisecond)
	}
	if _, rerr := cl.Closed(); mw.IsMalformed(rerr) {
		return feat(ev.Violf("C18.mismatch", "the concatenation of the received messages is not a valid MQTT stream: %v", rerr))
	}
	// The broker closes the socket only after the connection's handler goroutines have
	// finished, so whatever the connection published is in the observer's queue by now.
	if err := sentinelBarrier(b, []*fixture.Client{obs}, "end"); err != nil {
		return harnessErr("observer barrier: %v", err)
	}
	k := 0
	for _, r := range obs.Take(c18IsPub) {
		if isSentinel(r.P) {
			continue
		}
		for k < len(allowedPubs) && string(allowedPubs[k]) != string(r.P.Payload) {
			k++
		}
		if k >= len(allowedPubs) {
			return feat(ev.Violf("C18.text-accepted", "a PUBLISH lying in or behind the TEXT message (stream offset %d) was forwarded to an observer: %s", textStart, r.P))
		}
		k++
		c.Count("observer_prefix_publishes", 1)
	}
	return nil
}

const c18Rule = "rapid-generated client byte streams (CONNECT v3.1.1|v5 clean, SUBSCRIBE 'e' QoS1, 1-6 PUBLISH QoS1 to 'e' with LCG payloads of 0..3000 bytes biased so that the whole packet is 1023/1024/1025/2047/2048/2049 bytes, PINGREQs) and a segmentation into websocket messages (union of up to 3 shapes: free cuts, runs of one-byte messages, whole stream in one-byte messages, packet boundaries exact/-1/+1, one message per packet with merges, trains of messages of exactly 1023/1024/1025/2047/2048/2049/2/3/512 bytes from a packet start/+-1/free offset, empty messages; no cut = one message); 1 in 8 cases sends one message as TEXT. Oracle: differential with the same bytes sent in one piece over the in-memory stream transport to an identical fresh broker; all received frames binary; handler responses and echoed PUBLISHes equal to the reference field by field (ids, payload bytes) in order; closing PINGREQ answered; TEXT: connection closed, only responses to packets that ended before the text message, observer (sentinel barrier) sees no later publish. Non-trivial: some message boundary is not a packet boundary, or a message longer than 1024 bytes; distinct by scenario digest. TestC18Concurrent: 2-6 websocket connections on ONE broker at once, each with its own stream (own id, topic, payloads), every websocket message further cut into hand-written websocket FRAMES (fragmented messages, 0-3 ms pauses between frames, so several half-received messages coexist), plus 0-6 roamer connections that are taken over by a second CONNECT (in-memory transport or websocket) while their reader is provably (ping/pong) inside a fragmented message, before and while the streams run; per stream the decoded responses must be CONNACK, SUBACK, one PUBACK/PINGRESP per packet in order and the echoes of exactly its own payload bytes, all binary, connection open at the end; non-trivial there: at least one roamer."

func TestC18Segmentation(t *testing.T) {
	ev.SetRule("C18", c18Rule)
	ev.Run(t, "C18", genC18, runC18)
}

// ---------------------------------------------------------------------------------------
// native fuzz target and corpus replay

// c18FuzzScen maps (seed, cuts) to a scenario: the stream comes from the seed, every pair of
// cut bytes is one offset.
func c18FuzzScen(seed uint64, cutBytes []byte) c18Scen {
	x := seed
	next := func(n int) int {
		x = x*6364136223846793005 + 1442695040888963407
		return int((x >> 33) % uint64(n))
	}
	s := c18Scen{V: 4 + next(2), Seed: seed}
	npub := 1 + next(4)
	for i := 0; i < npub; i++ {
		if next(3) == 0 {
			s.Items = append(s.Items, c18Item{K: "ping"})
		}
		n := 0
		switch next(6) {
		case 0:
			n = next(3001)
		case 1:
			n = next(21)
		case 2, 3:
			n = c18PayloadFor(1022+next(5), s.V)
		case 4:
			n = c18PayloadFor(2046+next(5), s.V)
		default:
			n = 1018 + next(13)
		}
		s.Items = append(s.Items, c18Item{K: "pub", N: n})
	}
	l, err := c18Build(s.V, s.Seed, s.Items)
	if err != nil || len(l.Stream) < 2 {
		return s
	}
	if len(cutBytes) > 2*600 {
		cutBytes = cutBytes[:2*600]
	}
	var cuts []int
	for i := 0; i+1 < len(cutBytes); i += 2 {
		cuts = append(cuts, (int(cutBytes[i])<<8|int(cutBytes[i+1]))%len(l.Stream))
	}
	s.Cuts = c18NormCuts(cuts, len(l.Stream))
	return s
}

func c18CutBytes(offs ...int) []byte {
	var b []byte
	for _, o := range offs {
		b = append(b, byte(o>>8), byte(o))
	}
	return b
}

func FuzzC18Segmentation(f *testing.F) {
	f.Add(uint64(1), []byte{})
	f.Add(uint64(2), c18CutBytes(1, 2, 3, 4, 5, 6, 7, 8))
	f.Add(uint64(3), c18CutBytes(14, 20, 1024+20, 2048+20))
	f.Add(uint64(4), c18CutBytes(13, 19, 19+1023, 19+1023+1025))
	f.Add(uint64(5), c18CutBytes(512, 1024, 1536, 2048, 2049, 2050))
	f.Add(uint64(0xdeadbeef), c18CutBytes(20, 21, 1045, 1046, 3000))
	f.Fuzz(func(t *testing.T, seed uint64, cutBytes []byte) {
		s := c18FuzzScen(seed, cutBytes)
		c := &ev.Case{}
		if v := runC18(s, c); v != nil {
			t.Fatalf("%s\nfeatures: %v\nscenario: %+v", v.Error(), v.Features, s)
		}
	})
}

// c18ReadCorpusFile understands scenario JSON files (*.json: a c18Scen, or a replay envelope
// with a "scenario" member) and Go's native fuzz corpus format of FuzzC18Segmentation.
func c18ReadCorpusFile(path string) (c18Scen, error) {
	var s c18Scen
	raw, err := os.ReadFile(path)
	if err != nil {
		return s, err
	}
	txt := strings.ReplaceAll(string(raw), "\r", "")
	if strings.HasPrefix(txt, "go test fuzz v1") {
		var seed uint64
		var cutBytes []byte
		haveSeed, haveCuts := false, false
		for _, ln := range strings.Split(txt, "\n")[1:] {
			ln = strings.TrimSpace(ln)
			switch {
			case ln == "":
			case strings.HasPrefix(ln, "uint64(") && strings.HasSuffix(ln, ")"):
				seed, err = strconv.ParseUint(ln[len("uint64("):len(ln)-1], 0, 64)
				if err != nil {
					return s, fmt.Errorf("%s: %v", path, err)
				}
				haveSeed = true
			case strings.HasPrefix(ln, "[]byte(") && strings.HasSuffix(ln, ")"):
				q, err := strconv.Unquote(ln[len("[]byte(") : len(ln)-1])
				if err != nil {
					return s, fmt.Errorf("%s: %v", path, err)
				}
				cutBytes = []byte(q)
				haveCuts = true
			default:
				return s, fmt.Errorf("%s: unexpected line %q", path, ln)
			}
		}
		if !haveSeed || !haveCuts {
			return s, fmt.Errorf("%s: want uint64 and []byte arguments", path)
		}
		return c18FuzzScen(seed, cutBytes), nil
	}
	if !strings.HasSuffix(path, ".json") {
		return s, fmt.Errorf("unknown corpus file format: %s", path)
	}
	return c18ParseScenJSON(raw)
}

func c18ParseScenJSON(raw []byte) (c18Scen, error) {
	var env struct {
		Scenario *c18Scen `json:"scenario"`
	}
	if err := json.Unmarshal(raw, &env); err == nil && env.Scenario != nil {
		return *env.Scenario, nil
	}
	var s c18Scen
	err := json.Unmarshal(raw, &s)
	return s, err
}

func TestC18CorpusReplay(t *testing.T) {
	dir := os.Getenv("VERIF_CORPUS")
	if dir == "" {
		dir = "/verif/corpus"
	}
	dir = filepath.Join(dir, "c18")
	var files []string
	_ = filepath.Walk(dir, func(p string, info os.FileInfo, err error) error {
		if err == nil && info.Mode().IsRegular() && !strings.HasPrefix(info.Name(), ".") && !strings.HasSuffix(info.Name(), ".md") {
			files = append(files, p)
		}
		return nil
	})
	sort.Strings(files)
	n := 0
	for _, f := range files {
		s, err := c18ReadCorpusFile(f)
		if err != nil {
			t.Errorf("@@HARNESS-ERROR corpus: %v", err)
			continue
		}
		c := &ev.Case{}
		c.Label("corpus")
		viol := runC18(s, c)
		ev.Direct("C18", c, s)
		n++
		if viol != nil {
			ev.Fail(t, "C18", viol, s)
		}
	}
	t.Logf("replayed %d corpus inputs under %s", n, dir)
}
