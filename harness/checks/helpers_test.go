package checks

import (
	"fmt"
	"github.com/DrmagicE/gmqtt/config"
	"runtime"
	"sort"
	"strings"
	"time"

	"github.com/DrmagicE/gmqtt"

	"verif/ev"
	"verif/fixture"
	mw "verif/mqttwire"
)

func u8p(v byte) *byte      { return &v }
func u16p(v uint16) *uint16 { return &v }
func u32p(v uint32) *uint32 { return &v }
func strp(v string) *string { return &v }
func ver(v int) mw.Version  { return mw.Version(v) }
func isV5(v int) bool       { return v == 5 }
func minB(a, b byte) byte {
	if a < b {
		return a
	}
	return b
}

// harnessErr marks a failure of the harness itself (not of the product).
// withBackend switches cfg to the redis persistence backend (on a fresh harness RESP server) when redis is set.
// The returned cleanup must be deferred.
func withBackend(cfg config.Config, redis bool, c *ev.Case) (config.Config, func(), *ev.Violation) {
	if !redis {
		return cfg, func() {}, nil
	}
	rs, cleanup, err := fixture.StartRedis()
	if err != nil {
		return cfg, func() {}, harnessErr("miniredis: %v", err)
	}
	c.Label("backend_redis")
	return fixture.WithRedis(cfg, rs.Addr()), cleanup, nil
}

func harnessErr(format string, a ...any) *ev.Violation {
	return &ev.Violation{Assertion: "HARNESS", Msg: "@@HARNESS-ERROR " + fmt.Sprintf(format, a...)}
}

// subscribeOne sends one SUBSCRIBE with a single filter (so that it can carry its own
// subscription identifier) and returns the granted code.
func subscribeOne(c *fixture.Client, pid uint16, s subSpec) (byte, error) {
	var props *mw.Props
	req := mw.SubReq{Filter: s.full(), QoS: s.QoS}
	if c.V == mw.V5 {
		req.NoLocal, req.RAP, req.RH = s.NL, s.RAP, s.RH
		if s.ID != 0 {
			props = &mw.Props{SubscriptionIDs: []uint32{s.ID}}
		}
	}
	ack, err := c.Subscribe(pid, props, req)
	if err != nil {
		return 0, err
	}
	if len(ack.ReasonCodes) != 1 {
		return 0, fmt.Errorf("SUBACK carries %d codes for 1 filter", len(ack.ReasonCodes))
	}
	return ack.ReasonCodes[0], nil
}

// sentinelBarrier publishes a QoS0 sentinel through the Publisher API to every client's
// private topic and waits until each client has received it. Everything enqueued for a
// client before the call has then been received (or dropped): one FIFO queue, one poller,
// one writer per client.
func sentinelBarrier(b *fixture.Broker, clients []*fixture.Client, tag string) error {
	for _, c := range clients {
		b.Srv.Publisher().Publish(&gmqtt.Message{Topic: fixture.SentinelTopic(c.ID), Payload: []byte(tag), QoS: 0})
	}
	for _, c := range clients {
		_, err := c.WaitFor(func(p *mw.Packet) bool {
			return p.Type == mw.PUBLISH && p.Topic == fixture.SentinelTopic(c.ID) && string(p.Payload) == tag
		}, fixture.DefaultWait)
		if err != nil {
			return fmt.Errorf("client %s: sentinel %q: %w", c.ID, tag, err)
		}
	}
	return nil
}

// subscribeSentinel subscribes the client to its private barrier topic (QoS 0).
func subscribeSentinel(c *fixture.Client) error {
	code, err := subscribeOne(c, 65000, subSpec{Filter: fixture.SentinelTopic(c.ID), QoS: 0})
	if err != nil {
		return err
	}
	if code != 0 {
		return fmt.Errorf("sentinel subscription refused with code %#x", code)
	}
	return nil
}

func isSentinel(p *mw.Packet) bool { return p.Type == mw.PUBLISH && strings.HasPrefix(p.Topic, "$vs/") }

// delivery is one observed/expected application message copy.
type delivery struct {
	UID    string
	QoS    byte
	Retain bool
	SubIDs []uint32
}

func (d delivery) key(withRetain bool) string {
	ids := append([]uint32(nil), d.SubIDs...)
	sort.Slice(ids, func(i, j int) bool { return ids[i] < ids[j] })
	if withRetain {
		return fmt.Sprintf("%s q%d r%v ids%v", d.UID, d.QoS, d.Retain, ids)
	}
	return fmt.Sprintf("%s q%d ids%v", d.UID, d.QoS, ids)
}

func sortedKeys(ds []delivery, withRetain bool) []string {
	out := make([]string, len(ds))
	for i, d := range ds {
		out[i] = d.key(withRetain)
	}
	sort.Strings(out)
	return out
}

// brokerGoroutines returns the stacks of all goroutines that have a gmqtt frame (diagnostics for
// "the broker did not finish X within the bound" situations).
func brokerGoroutines() string {
	buf := make([]byte, 1<<20)
	buf = buf[:runtime.Stack(buf, true)]
	var out []string
	for _, g := range strings.Split(string(buf), "\n\n") {
		if strings.Contains(g, "DrmagicE/gmqtt/server.") {
			lines := strings.Split(g, "\n")
			if len(lines) > 14 {
				lines = lines[:14]
			}
			out = append(out, strings.Join(lines, "\n"))
		}
	}
	s := strings.Join(out, "\n\n")
	if len(s) > 12000 {
		s = s[:12000] + "…"
	}
	return s
}

// malformedFromBroker reports a violation when the client's reader stopped because the broker sent bytes that
// the independent codec rejects (e.g. a QoS>0 PUBLISH with packet identifier 0), as opposed to a plain close.
func malformedFromBroker(pfx string, cl *fixture.Client) *ev.Violation {
	closed, err := cl.Closed()
	if !closed || err == nil || fixture.IsEOF(err) {
		return nil
	}
	if mw.IsMalformed(err) {
		return ev.Violf(pfx+".malformed-from-broker", "the broker sent client %q a packet the independent codec rejects: %v", cl.ID, err)
	}
	return nil
}

func sleepMs(n int) { time.Sleep(time.Duration(n) * time.Millisecond) }
