package checks

// C06 helpers: conversion between gmqtt packet values and the independent mqttwire packet
// model, a minimal MQTT 5 property-section splitter (for byte-level mutations), and
// string walkers. Nothing here is an oracle.

import (
	"encoding/binary"

	"github.com/DrmagicE/gmqtt/pkg/packets"

	mw "verif/mqttwire"
)

// ---------------------------------------------------------------------------
// gmqtt -> mqttwire

func c06Str(b []byte) *string {
	if b == nil {
		return nil
	}
	s := string(b)
	return &s
}

func c06PropsFromG(p *packets.Properties) *mw.Props {
	if p == nil {
		return nil
	}
	o := &mw.Props{
		PayloadFormat:        p.PayloadFormat,
		MessageExpiry:        p.MessageExpiry,
		ContentType:          c06Str(p.ContentType),
		ResponseTopic:        c06Str(p.ResponseTopic),
		CorrelationData:      p.CorrelationData,
		HasCorrelationData:   p.CorrelationData != nil,
		SubscriptionIDs:      p.SubscriptionIdentifier,
		SessionExpiry:        p.SessionExpiryInterval,
		AssignedClientID:     c06Str(p.AssignedClientID),
		ServerKeepAlive:      p.ServerKeepAlive,
		AuthMethod:           c06Str(p.AuthMethod),
		AuthData:             p.AuthData,
		HasAuthData:          p.AuthData != nil,
		RequestProblemInfo:   p.RequestProblemInfo,
		WillDelay:            p.WillDelayInterval,
		RequestResponseInfo:  p.RequestResponseInfo,
		ResponseInfo:         c06Str(p.ResponseInfo),
		ServerReference:      c06Str(p.ServerReference),
		ReasonString:         c06Str(p.ReasonString),
		ReceiveMax:           p.ReceiveMaximum,
		TopicAliasMax:        p.TopicAliasMaximum,
		TopicAlias:           p.TopicAlias,
		MaximumQoS:           p.MaximumQoS,
		RetainAvailable:      p.RetainAvailable,
		MaxPacketSize:        p.MaximumPacketSize,
		WildcardSubAvailable: p.WildcardSubAvailable,
		SubIDAvailable:       p.SubIDAvailable,
		SharedSubAvailable:   p.SharedSubAvailable,
	}
	for _, u := range p.User {
		o.User = append(o.User, mw.UserProp{K: string(u.K), V: string(u.V)})
	}
	return o
}

// c06FromG renders a gmqtt packet in the mqttwire model. ver is the packet's own Version
// field (0 for the types that have none: PUBREL, PINGREQ, PINGRESP, AUTH).
func c06FromG(p packets.Packet) (out *mw.Packet, ver int) {
	switch x := p.(type) {
	case *packets.Connect:
		o := &mw.Packet{Type: mw.CONNECT, ProtoName: string(x.ProtocolName), ProtoLevel: x.ProtocolLevel,
			CleanStart: x.CleanStart, KeepAlive: x.KeepAlive, ClientID: string(x.ClientID),
			HasUsername: x.UsernameFlag, HasPassword: x.PasswordFlag,
			Username: string(x.Username), Password: x.Password, Props: c06PropsFromG(x.Properties)}
		if x.WillFlag {
			o.Will = &mw.Will{QoS: x.WillQos, Retain: x.WillRetain, Topic: string(x.WillTopic), Payload: x.WillMsg,
				Props: c06PropsFromG(x.WillProperties)}
		}
		return o, int(x.Version)
	case *packets.Connack:
		return &mw.Packet{Type: mw.CONNACK, SessionPresent: x.SessionPresent, ReasonCode: x.Code, Props: c06PropsFromG(x.Properties)}, int(x.Version)
	case *packets.Publish:
		return &mw.Packet{Type: mw.PUBLISH, Dup: x.Dup, QoS: x.Qos, Retain: x.Retain, Topic: string(x.TopicName),
			PacketID: x.PacketID, Payload: x.Payload, Props: c06PropsFromG(x.Properties)}, int(x.Version)
	case *packets.Puback:
		return &mw.Packet{Type: mw.PUBACK, PacketID: x.PacketID, ReasonCode: x.Code, Props: c06PropsFromG(x.Properties)}, int(x.Version)
	case *packets.Pubrec:
		return &mw.Packet{Type: mw.PUBREC, PacketID: x.PacketID, ReasonCode: x.Code, Props: c06PropsFromG(x.Properties)}, int(x.Version)
	case *packets.Pubrel:
		return &mw.Packet{Type: mw.PUBREL, PacketID: x.PacketID, ReasonCode: x.Code, Props: c06PropsFromG(x.Properties)}, 0
	case *packets.Pubcomp:
		return &mw.Packet{Type: mw.PUBCOMP, PacketID: x.PacketID, ReasonCode: x.Code, Props: c06PropsFromG(x.Properties)}, int(x.Version)
	case *packets.Subscribe:
		o := &mw.Packet{Type: mw.SUBSCRIBE, PacketID: x.PacketID, Props: c06PropsFromG(x.Properties)}
		for _, t := range x.Topics {
			o.Subs = append(o.Subs, mw.SubReq{Filter: t.Name, QoS: t.Qos, NoLocal: t.NoLocal, RAP: t.RetainAsPublished, RH: t.RetainHandling})
		}
		return o, int(x.Version)
	case *packets.Suback:
		return &mw.Packet{Type: mw.SUBACK, PacketID: x.PacketID, ReasonCodes: x.Payload, Props: c06PropsFromG(x.Properties)}, int(x.Version)
	case *packets.Unsubscribe:
		return &mw.Packet{Type: mw.UNSUBSCRIBE, PacketID: x.PacketID, Filters: x.Topics, Props: c06PropsFromG(x.Properties)}, int(x.Version)
	case *packets.Unsuback:
		return &mw.Packet{Type: mw.UNSUBACK, PacketID: x.PacketID, ReasonCodes: x.Payload, Props: c06PropsFromG(x.Properties)}, int(x.Version)
	case *packets.Pingreq:
		return &mw.Packet{Type: mw.PINGREQ}, 0
	case *packets.Pingresp:
		return &mw.Packet{Type: mw.PINGRESP}, 0
	case *packets.Disconnect:
		return &mw.Packet{Type: mw.DISCONNECT, ReasonCode: x.Code, Props: c06PropsFromG(x.Properties)}, int(x.Version)
	case *packets.Auth:
		return &mw.Packet{Type: mw.AUTH, ReasonCode: x.Code, Props: c06PropsFromG(x.Properties)}, 0
	}
	return nil, 0
}

// ---------------------------------------------------------------------------
// mqttwire -> gmqtt

func c06Bytes(s *string) []byte {
	if s == nil {
		return nil
	}
	return append([]byte{}, *s...) // non-nil even when empty: present
}

func c06Bin(has bool, b []byte) []byte {
	if !has {
		return nil
	}
	return append([]byte{}, b...)
}

// c06PropsToG builds gmqtt Properties. A nil/empty mqttwire property set becomes nil, or
// an empty non-nil struct when emptyNonNil is set (both are "no properties" in gmqtt).
func c06PropsToG(p *mw.Props, emptyNonNil bool) *packets.Properties {
	if p.IsEmpty() {
		if emptyNonNil {
			return &packets.Properties{}
		}
		return nil
	}
	o := &packets.Properties{
		PayloadFormat:          p.PayloadFormat,
		MessageExpiry:          p.MessageExpiry,
		ContentType:            c06Bytes(p.ContentType),
		ResponseTopic:          c06Bytes(p.ResponseTopic),
		CorrelationData:        c06Bin(p.HasCorrelationData, p.CorrelationData),
		SubscriptionIdentifier: p.SubscriptionIDs,
		SessionExpiryInterval:  p.SessionExpiry,
		AssignedClientID:       c06Bytes(p.AssignedClientID),
		ServerKeepAlive:        p.ServerKeepAlive,
		AuthMethod:             c06Bytes(p.AuthMethod),
		AuthData:               c06Bin(p.HasAuthData, p.AuthData),
		RequestProblemInfo:     p.RequestProblemInfo,
		WillDelayInterval:      p.WillDelay,
		RequestResponseInfo:    p.RequestResponseInfo,
		ResponseInfo:           c06Bytes(p.ResponseInfo),
		ServerReference:        c06Bytes(p.ServerReference),
		ReasonString:           c06Bytes(p.ReasonString),
		ReceiveMaximum:         p.ReceiveMax,
		TopicAliasMaximum:      p.TopicAliasMax,
		TopicAlias:             p.TopicAlias,
		MaximumQoS:             p.MaximumQoS,
		RetainAvailable:        p.RetainAvailable,
		MaximumPacketSize:      p.MaxPacketSize,
		WildcardSubAvailable:   p.WildcardSubAvailable,
		SubIDAvailable:         p.SubIDAvailable,
		SharedSubAvailable:     p.SharedSubAvailable,
	}
	for _, u := range p.User {
		o.User = append(o.User, packets.UserProperty{K: []byte(u.K), V: []byte(u.V)})
	}
	return o
}

// c06ToG builds the gmqtt value of a well-formed mqttwire packet for protocol version v.
// In v3.x the v5-only parts (properties, reason codes of acks) are left zero.
func c06ToG(p *mw.Packet, v int, emptyNonNil bool) packets.Packet {
	ver := byte(v)
	v5 := v == 5
	props := func(q *mw.Props) *packets.Properties {
		if !v5 {
			return nil
		}
		return c06PropsToG(q, emptyNonNil)
	}
	code := func() byte {
		if !v5 {
			return 0
		}
		return p.ReasonCode
	}
	switch p.Type {
	case mw.CONNECT:
		o := &packets.Connect{Version: p.ProtoLevel, ProtocolLevel: p.ProtoLevel, ProtocolName: []byte(p.ProtoName),
			UsernameFlag: p.HasUsername, PasswordFlag: p.HasPassword, CleanStart: p.CleanStart, KeepAlive: p.KeepAlive,
			ClientID: []byte(p.ClientID), Properties: props(p.Props)}
		if p.HasUsername {
			o.Username = []byte(p.Username)
		}
		if p.HasPassword {
			o.Password = append([]byte{}, p.Password...)
		}
		if w := p.Will; w != nil {
			o.WillFlag, o.WillQos, o.WillRetain = true, w.QoS, w.Retain
			o.WillTopic, o.WillMsg = []byte(w.Topic), w.Payload
			o.WillProperties = props(w.Props)
		}
		return o
	case mw.CONNACK:
		return &packets.Connack{Version: ver, Code: p.ReasonCode, SessionPresent: p.SessionPresent, Properties: props(p.Props)}
	case mw.PUBLISH:
		return &packets.Publish{Version: ver, Dup: p.Dup, Qos: p.QoS, Retain: p.Retain, TopicName: []byte(p.Topic),
			PacketID: p.PacketID, Payload: p.Payload, Properties: props(p.Props)}
	case mw.PUBACK:
		return &packets.Puback{Version: ver, PacketID: p.PacketID, Code: code(), Properties: props(p.Props)}
	case mw.PUBREC:
		return &packets.Pubrec{Version: ver, PacketID: p.PacketID, Code: code(), Properties: props(p.Props)}
	case mw.PUBREL:
		return &packets.Pubrel{PacketID: p.PacketID, Code: code(), Properties: props(p.Props)}
	case mw.PUBCOMP:
		return &packets.Pubcomp{Version: ver, PacketID: p.PacketID, Code: code(), Properties: props(p.Props)}
	case mw.SUBSCRIBE:
		o := &packets.Subscribe{Version: ver, PacketID: p.PacketID, Properties: props(p.Props)}
		for _, s := range p.Subs {
			t := packets.Topic{Name: s.Filter}
			t.Qos = s.QoS
			if v5 {
				t.NoLocal, t.RetainAsPublished, t.RetainHandling = s.NoLocal, s.RAP, s.RH
			}
			o.Topics = append(o.Topics, t)
		}
		return o
	case mw.SUBACK:
		return &packets.Suback{Version: ver, PacketID: p.PacketID, Payload: append([]byte(nil), p.ReasonCodes...), Properties: props(p.Props)}
	case mw.UNSUBSCRIBE:
		return &packets.Unsubscribe{Version: ver, PacketID: p.PacketID, Topics: append([]string(nil), p.Filters...), Properties: props(p.Props)}
	case mw.UNSUBACK:
		o := &packets.Unsuback{Version: ver, PacketID: p.PacketID, Properties: props(p.Props)}
		if v5 {
			o.Payload = append([]byte(nil), p.ReasonCodes...)
		}
		return o
	case mw.PINGREQ:
		return &packets.Pingreq{}
	case mw.PINGRESP:
		return &packets.Pingresp{}
	case mw.DISCONNECT:
		return &packets.Disconnect{Version: ver, Code: code(), Properties: props(p.Props)}
	case mw.AUTH:
		return &packets.Auth{Code: p.ReasonCode, Properties: props(p.Props)}
	}
	return nil
}

// ---------------------------------------------------------------------------
// Walkers over the mqttwire model

func c06CloneProps(p *mw.Props) *mw.Props {
	if p == nil {
		return nil
	}
	q := *p
	q.User = append([]mw.UserProp(nil), p.User...)
	q.SubscriptionIDs = append([]uint32(nil), p.SubscriptionIDs...)
	return &q
}

// c06Clone copies the packet deep enough for the walkers below (byte slices are shared).
func c06Clone(p *mw.Packet) *mw.Packet {
	q := *p
	q.Raw = nil
	q.Props = c06CloneProps(p.Props)
	if p.Will != nil {
		w := *p.Will
		w.Props = c06CloneProps(p.Will.Props)
		q.Will = &w
	}
	q.Subs = append([]mw.SubReq(nil), p.Subs...)
	q.Filters = append([]string(nil), p.Filters...)
	return &q
}

func c06MapPropStrings(p *mw.Props, f func(string) string) {
	if p == nil {
		return
	}
	for _, s := range []**string{&p.ContentType, &p.ResponseTopic, &p.AssignedClientID, &p.AuthMethod,
		&p.ResponseInfo, &p.ServerReference, &p.ReasonString} {
		if *s != nil {
			n := f(**s)
			*s = &n
		}
	}
	for i := range p.User {
		p.User[i].K = f(p.User[i].K)
		p.User[i].V = f(p.User[i].V)
	}
}

// c06MapStrings returns a copy of p with f applied to every UTF-8 encoded string field
// (not to the protocol name and not to binary data).
func c06MapStrings(p *mw.Packet, f func(string) string) *mw.Packet {
	q := c06Clone(p)
	q.ClientID = f(q.ClientID)
	if q.HasUsername {
		q.Username = f(q.Username)
	}
	if q.Type == mw.PUBLISH {
		q.Topic = f(q.Topic)
	}
	if q.Will != nil {
		q.Will.Topic = f(q.Will.Topic)
		c06MapPropStrings(q.Will.Props, f)
	}
	for i := range q.Subs {
		q.Subs[i].Filter = f(q.Subs[i].Filter)
	}
	for i := range q.Filters {
		q.Filters[i] = f(q.Filters[i])
	}
	c06MapPropStrings(q.Props, f)
	return q
}

// c06CountProps is the number of properties present (user properties and subscription
// identifiers count individually; will properties included).
func c06CountProps(p *mw.Packet) int {
	n := 0
	cnt := func(q *mw.Props) {
		if q == nil {
			return
		}
		for _, id := range q.Present() {
			switch id {
			case mw.PropUser:
				n += len(q.User)
			case mw.PropSubscriptionID:
				n += len(q.SubscriptionIDs)
			default:
				n++
			}
		}
	}
	cnt(p.Props)
	if p.Will != nil {
		cnt(p.Will.Props)
	}
	return n
}

// ---------------------------------------------------------------------------
// Property section splitter (MQTT 5 §2.2.2.2 data types), for byte-level mutation only.

type c06Kind byte

const (
	c06KByte c06Kind = iota + 1
	c06KU16
	c06KU32
	c06KVar
	c06KStr // UTF-8 string or binary data: two byte length + bytes
	c06KPair
)

var c06PropKinds = map[byte]c06Kind{
	0x01: c06KByte, 0x02: c06KU32, 0x03: c06KStr, 0x08: c06KStr, 0x09: c06KStr, 0x0B: c06KVar,
	0x11: c06KU32, 0x12: c06KStr, 0x13: c06KU16, 0x15: c06KStr, 0x16: c06KStr, 0x17: c06KByte,
	0x18: c06KU32, 0x19: c06KByte, 0x1A: c06KStr, 0x1C: c06KStr, 0x1F: c06KStr, 0x21: c06KU16,
	0x22: c06KU16, 0x23: c06KU16, 0x24: c06KByte, 0x25: c06KByte, 0x26: c06KPair, 0x27: c06KU32,
	0x28: c06KByte, 0x29: c06KByte, 0x2A: c06KByte,
}

// c06SampleProp returns a well-formed encoding of property id (for undefined ids: the id
// followed by one byte).
func c06SampleProp(id byte) []byte {
	switch c06PropKinds[id] {
	case c06KByte:
		return []byte{id, 1}
	case c06KU16:
		return []byte{id, 0, 10}
	case c06KU32:
		return []byte{id, 0, 0, 0, 10}
	case c06KVar:
		return []byte{id, 5}
	case c06KStr:
		return []byte{id, 0, 1, 'x'}
	case c06KPair:
		return []byte{id, 0, 1, 'k', 0, 1, 'v'}
	}
	return []byte{id, 0}
}

// c06SplitProps splits the contents of a property section into single properties.
func c06SplitProps(b []byte) (out [][]byte, ok bool) {
	for len(b) > 0 {
		k := c06PropKinds[b[0]]
		n := 0
		str := func(off int) int { // returns end offset of a length prefixed field at off, or -1
			if len(b) < off+2 {
				return -1
			}
			e := off + 2 + int(binary.BigEndian.Uint16(b[off:]))
			if e > len(b) {
				return -1
			}
			return e
		}
		switch k {
		case c06KByte:
			n = 2
		case c06KU16:
			n = 3
		case c06KU32:
			n = 5
		case c06KVar:
			_, m, err := mw.ReadVarInt(b[1:])
			if err != nil {
				return nil, false
			}
			n = 1 + m
		case c06KStr:
			n = str(1)
		case c06KPair:
			n = str(1)
			if n > 0 {
				n = str(n)
			}
		default:
			return nil, false
		}
		if n <= 0 || n > len(b) {
			return nil, false
		}
		out = append(out, b[:n:n])
		b = b[n:]
	}
	return out, true
}

// c06PropsOffset returns the offset (within the encoded packet enc of value p) of the
// property length field, or -1 when the packet has no property section. will selects the
// will properties of a CONNECT.
func c06PropsOffset(p *mw.Packet, enc []byte, will bool) int {
	_, n, err := mw.ReadVarInt(enc[1:])
	if err != nil {
		return -1
	}
	hdr := 1 + n
	rl := len(enc) - hdr
	off := -1
	switch p.Type {
	case mw.CONNECT:
		name := p.ProtoName
		if name == "" {
			name = "MQTT"
		}
		off = 2 + len(name) + 1 + 1 + 2
		if will {
			if p.Will == nil || hdr+off >= len(enc) {
				return -1
			}
			pl, m, err := mw.ReadVarInt(enc[hdr+off:])
			if err != nil {
				return -1
			}
			off += m + int(pl) + 2 + len(p.ClientID)
		}
	case mw.CONNACK, mw.SUBSCRIBE, mw.SUBACK, mw.UNSUBSCRIBE, mw.UNSUBACK:
		off = 2
	case mw.PUBLISH:
		off = 2 + len(p.Topic)
		if p.QoS > 0 {
			off += 2
		}
	case mw.PUBACK, mw.PUBREC, mw.PUBREL, mw.PUBCOMP:
		if rl > 3 {
			off = 3
		}
	case mw.DISCONNECT, mw.AUTH:
		if rl > 1 {
			off = 1
		}
	}
	if off < 0 || hdr+off >= len(enc) {
		return -1
	}
	return hdr + off
}
