package checks

import (
	"time"

	redigo "github.com/gomodule/redigo/redis"

	"github.com/DrmagicE/gmqtt/persistence/queue"
	redisq "github.com/DrmagicE/gmqtt/persistence/queue/redis"
	"github.com/DrmagicE/gmqtt/persistence/subscription"
	redissub "github.com/DrmagicE/gmqtt/persistence/subscription/redis"

	"verif/miniredis"
)

// newRedisPool starts a fresh in-process RESP server and returns a redigo pool on it.
func newRedisPool() (*miniredis.Server, *redigo.Pool, func(), error) {
	srv := miniredis.New()
	addr, err := srv.Start()
	if err != nil {
		return nil, nil, nil, err
	}
	pool := &redigo.Pool{MaxIdle: 4, MaxActive: 0, IdleTimeout: time.Minute,
		Dial: func() (redigo.Conn, error) { return redigo.Dial("tcp", addr) }}
	return srv, pool, func() { _ = pool.Close(); srv.Close() }, nil
}

func redisQueueFactory(cap int, ie time.Duration, n queue.Notifier) (queue.Store, func(), error) {
	_, pool, cleanup, err := newRedisPool()
	if err != nil {
		return nil, nil, err
	}
	q, err := redisq.New(redisq.Options{MaxQueuedMsg: cap, InflightExpiry: ie, ClientID: "cid", Pool: pool, DefaultNotifier: n})
	if err != nil {
		cleanup()
		return nil, nil, err
	}
	return q, cleanup, nil
}

func redisSubStore() (subscription.Store, func(), error) {
	_, pool, cleanup, err := newRedisPool()
	if err != nil {
		return nil, nil, err
	}
	return redissub.New(pool), cleanup, nil
}
