package checks

// C14 with the real auth plugin in the hook chain (plugin/auth/hooks.go is one of the property's
// anchors): what its OnBasicAuth wrapper decides is what happens, for every protocol version.
// Accounts are created through the plugin's account API; clients of MQTT 3.1, 3.1.1 and 5 connect
// with the right password, a wrong password, an unknown user or no credentials, in generated
// order. A rejected CONNECT gets a failing CONNACK and leaves no session, no subscription, no
// will and no retained message behind; an accepted one gets CONNACK 0.

import (
	"context"
	"fmt"
	"os"
	"testing"

	"github.com/DrmagicE/gmqtt"
	"github.com/DrmagicE/gmqtt/plugin/auth"
	"pgregory.net/rapid"

	"verif/ev"
	"verif/fixture"
	mw "verif/mqttwire"
)

type c14apTry struct {
	V    int    `json:"v"`
	Cred string `json:"cred"` // good | wrong | unknown | none | nopassword
	Will bool   `json:"will,omitempty"`
}

type c14apScen struct {
	Hash  string     `json:"hash"`
	Tries []c14apTry `json:"tries"`
}

func genC14AuthPlugin(t *rapid.T) c14apScen {
	s := c14apScen{Hash: rapid.SampledFrom([]string{"plain", "md5", "sha256", "bcrypt"}).Draw(t, "hash")}
	n := rapid.IntRange(2, 8).Draw(t, "ntries")
	for i := 0; i < n; i++ {
		s.Tries = append(s.Tries, c14apTry{V: rapid.SampledFrom([]int{3, 3, 4, 5}).Draw(t, "v"),
			Cred: rapid.SampledFrom([]string{"good", "wrong", "wrong", "unknown", "none", "nopassword"}).Draw(t, "cred"), Will: rapid.Bool().Draw(t, "will")})
	}
	return s
}

func runC14AuthPlugin(s c14apScen, c *ev.Case) *ev.Violation {
	dir, err := os.MkdirTemp("", "c14ap")
	if err != nil {
		return harnessErr("tempdir: %v", err)
	}
	defer os.RemoveAll(dir)
	cfg := fixture.WithAuth(fixture.BaseConfig(), dir, "pw.yml", s.Hash)
	b, err := fixture.Start(fixture.Opts{Config: cfg})
	if err != nil {
		return harnessErr("start broker: %v", err)
	}
	defer b.Stop()
	a := b.AuthPlugin()
	if a == nil {
		return harnessErr("auth plugin not loaded")
	}
	if _, err := a.Update(context.Background(), &auth.UpdateAccountRequest{Username: "good", Password: "pw"}); err != nil {
		return harnessErr("Update(good): %v", err)
	}
	watcher, ack, err := b.Connect(fixture.ConnectOpts{ID: "watcher", V: mw.V5, CleanStart: true, AutoAck: true, Username: strp("good"), Password: []byte("pw")})
	if err != nil || ack.ReasonCode != 0 {
		return harnessErr("watcher connect: %v %v", ack, err)
	}
	defer watcher.Kill()
	if err := subscribeSentinel(watcher); err != nil {
		return harnessErr("%v", err)
	}
	if code, err := subscribeOne(watcher, 2, subSpec{Filter: "#", QoS: 1}); err != nil || code != 1 {
		return harnessErr("watcher subscribe: %v %v", code, err)
	}
	c.Label("hash_" + s.Hash)
	for i, tr := range s.Tries {
		id := fmt.Sprintf("t%d", i)
		o := fixture.ConnectOpts{ID: id, V: ver(tr.V), CleanStart: true}
		if tr.V == 5 {
			o.Props = &mw.Props{SessionExpiry: u32p(300)}
		} else {
			o.CleanStart = false // v3: a persistent session, so that a wrongly created one would stay
		}
		switch tr.Cred {
		case "good":
			o.Username, o.Password = strp("good"), []byte("pw")
		case "wrong":
			o.Username, o.Password = strp("good"), []byte("pw2")
		case "unknown":
			o.Username, o.Password = strp("nobody"), []byte("pw")
		case "nopassword":
			o.Username = strp("good")
		}
		if tr.Will {
			o.Will = &mw.Will{Topic: "will/" + id, Payload: []byte("will-" + id), QoS: 1, Retain: true}
		}
		want := tr.Cred == "good"
		cl, ack, err := b.Connect(o)
		feat := []any{"version", tr.V, "cred", tr.Cred, "hash", s.Hash}
		if want {
			if err != nil || ack == nil || ack.ReasonCode != 0 {
				return ev.Violf("C14.authplugin-accept", "try %d: MQTT level %d client with the right password was not accepted: %v %v", i, tr.V, ack, err).With(feat...)
			}
			// leave normally: no will, and (v5) end the session
			_ = cl.Send(&mw.Packet{Type: mw.DISCONNECT, Props: disconnectProps(tr.V)})
			cl.WaitClosed(fixture.DefaultWait)
			cl.Kill()
			if !waitClientGone(b, id) {
				return harnessErr("client %s still registered", id)
			}
			b.Srv.ClientService().TerminateSession(id)
			c.Label("authplugin_accepted")
			continue
		}
		c.Label(fmt.Sprintf("authplugin_rejected_v%d", tr.V))
		c.NonTrivial()
		if ack != nil && ack.ReasonCode == 0 {
			// make the damage visible in the message before tearing down
			if cl != nil {
				cl.Kill()
			}
			return ev.Violf("C14.authplugin-reject", "try %d: the auth plugin's hook rejects %s credentials, but the MQTT level %d client got CONNACK 0", i, tr.Cred, tr.V).With(feat...)
		}
		if cl != nil {
			cl.Kill()
		}
		if ack == nil && err != nil {
			// connection closed without CONNACK is a failing answer too
			c.Label("authplugin_rejected_without_connack")
		}
		// nothing left behind
		if sess, _ := b.Srv.ClientService().GetSession(id); sess != nil {
			return ev.Violf("C14.authplugin-side-effects", "try %d: rejected CONNECT of %s left a session behind", i, id).With(feat...)
		}
		if m := b.Srv.RetainedService().GetRetainedMessage("will/" + id); m != nil {
			return ev.Violf("C14.authplugin-side-effects", "try %d: rejected CONNECT of %s left a retained will behind", i, id).With(feat...)
		}
	}
	if err := sentinelBarrier(b, []*fixture.Client{watcher}, "end"); err != nil {
		return harnessErr("%v", err)
	}
	for _, r := range watcher.All() {
		if r.P.Type == mw.PUBLISH && !isSentinel(r.P) {
			return ev.Violf("C14.authplugin-side-effects", "a message was published although no accepted client published anything and every accepted client left normally: %s", r.P)
		}
	}
	var all []*gmqtt.Message
	b.Srv.RetainedService().Iterate(func(m *gmqtt.Message) bool { all = append(all, m); return true })
	if len(all) != 0 {
		return ev.Violf("C14.authplugin-side-effects", "retained store not empty at the end: %v", retainedRows(all))
	}
	return nil
}

func disconnectProps(v int) *mw.Props {
	if v == 5 {
		return &mw.Props{SessionExpiry: u32p(0)}
	}
	return nil
}

func TestC14AuthPlugin(t *testing.T) {
	ev.RunN(t, "C14", 0.1, genC14AuthPlugin, runC14AuthPlugin)
}
