package checks

// C05 — Session lifecycle: resume iff it should, and one connection per client id.

import (
	"bufio"
	"context"
	"fmt"
	"sync"
	"sync/atomic"
	"testing"
	"time"

	"github.com/DrmagicE/gmqtt"
	"github.com/DrmagicE/gmqtt/server"
	"pgregory.net/rapid"

	"verif/ev"
	"verif/fixture"
	mw "verif/mqttwire"
)

// ---------------------------------------------------------------------------------------
// (a) resume-iff, timed lanes

type c05Lane struct {
	V         int    `json:"v"`
	Clean1    bool   `json:"clean1"`
	Expiry1   int    `json:"expiry1_s"` // v5: -1 = property absent
	HoldMs    int    `json:"hold_ms"`   // how long the first connection lasts
	End       string `json:"end"`       // disconnect | disconnect_expiry | kill
	NewExpiry int    `json:"new_expiry_s"`
	Terminate bool   `json:"terminate"`
	WaitMs    int    `json:"wait_ms"` // offline time before the reconnect
	Clean2    bool   `json:"clean2"`
	// third phase (Wait2Ms > 0): the second connection asks for Expiry2 (v5), is killed, and after Wait2Ms a third
	// CONNECT without Clean Start arrives: the session must be there iff the interval of the SECOND connection has
	// not elapsed since its end - whatever the first connection had asked for
	Expiry2 int `json:"expiry2_s,omitempty"`
	Wait2Ms int `json:"wait2_ms,omitempty"`
}

type c05Scen struct {
	CfgExpiryS int       `json:"cfg_session_expiry_s"`
	Redis      bool      `json:"redis,omitempty"` // sessions, subscriptions, queues on the redis backend (harness RESP server)
	Lanes      []c05Lane `json:"lanes"`
}

func genC05(t *rapid.T) c05Scen {
	s := c05Scen{CfgExpiryS: rapid.SampledFrom([]int{1, 2, 3600}).Draw(t, "cfg"), Redis: rapid.IntRange(0, 2).Draw(t, "backend") == 0}
	n := rapid.IntRange(6, 10).Draw(t, "nlanes")
	for i := 0; i < n; i++ {
		l := c05Lane{V: rapid.SampledFrom([]int{3, 4, 5, 5, 5}).Draw(t, "v"), Clean1: rapid.IntRange(0, 3).Draw(t, "clean1") == 0,
			HoldMs: rapid.SampledFrom([]int{0, 0, 1500, 2600}).Draw(t, "hold"), WaitMs: rapid.SampledFrom([]int{0, 400, 1500, 2600}).Draw(t, "wait"),
			Clean2: rapid.IntRange(0, 4).Draw(t, "clean2") == 0, Terminate: rapid.IntRange(0, 7).Draw(t, "term") == 0}
		l.End = rapid.SampledFrom([]string{"disconnect", "kill", "kill"}).Draw(t, "end")
		if l.V == 5 {
			l.Expiry1 = rapid.SampledFrom([]int{-1, 0, 1, 2, 100, 4294967295}).Draw(t, "expiry1") // 0xFFFFFFFF: never expires
			if rapid.IntRange(0, 3).Draw(t, "newexp") == 0 {
				l.End = "disconnect_expiry"
				l.NewExpiry = rapid.SampledFrom([]int{0, 1, 2, 100}).Draw(t, "newexpiry")
			}
		}
		if rapid.Bool().Draw(t, "phase3") {
			l.Expiry2 = rapid.SampledFrom([]int{1, 2, 100}).Draw(t, "expiry2")
			l.Wait2Ms = rapid.SampledFrom([]int{400, 1500, 2600}).Draw(t, "wait2")
		}
		s.Lanes = append(s.Lanes, l)
	}
	return s
}

func minInt(a, b int) int {
	if a < b {
		return a
	}
	return b
}

func runC05(s c05Scen, c *ev.Case) *ev.Violation {
	for _, l := range s.Lanes {
		if l.V == 3 {
			c.Label("mqtt31_client")
			break
		}
	}
	cfg := fixture.BaseConfig()
	cfg.MQTT.SessionExpiry = time.Duration(s.CfgExpiryS) * time.Second
	if s.Redis {
		rs, cleanup, e := fixture.StartRedis()
		if e != nil {
			return harnessErr("miniredis: %v", e)
		}
		defer cleanup()
		cfg = fixture.WithRedis(cfg, rs.Addr())
		c.Label("backend_redis")
	}
	b, err := fixture.Start(fixture.Opts{Config: cfg})
	if err != nil {
		return harnessErr("start broker: %v", err)
	}
	defer b.Stop()
	c.Label(fmt.Sprintf("cfg_expiry_%ds", s.CfgExpiryS))

	outs := runLanes(len(s.Lanes), func(i int) (o laneOut) {
		l := s.Lanes[i]
		logf := func(f string, a ...any) { o.log = append(o.log, fmt.Sprintf(f, a...)) }
		id := fmt.Sprintf("L%d", i)
		topic := fmt.Sprintf("s/%d", i)
		fail := func(v *ev.Violation) laneOut {
			o.v = v.With("v", l.V, "clean1", l.Clean1, "expiry1", l.Expiry1, "hold_ms", l.HoldMs, "end", l.End, "new_expiry", l.NewExpiry, "wait_ms", l.WaitMs, "clean2", l.Clean2, "cfg_expiry_s", s.CfgExpiryS, "terminate", l.Terminate)
			return o
		}
		connect := func(clean bool, expiry int) (*fixture.Client, *mw.Packet, error) {
			op := fixture.ConnectOpts{ID: id, V: ver(l.V), CleanStart: clean, AutoAck: true}
			if l.V == 5 && expiry >= 0 {
				op.Props = &mw.Props{SessionExpiry: u32p(uint32(expiry))}
			}
			return b.Connect(op)
		}
		cl, ack, err := connect(l.Clean1, l.Expiry1)
		if err != nil || ack.ReasonCode != 0 {
			return fail(harnessErr("connect: %v %v", ack, err))
		}
		defer func() { cl.Kill() }()
		if ack.SessionPresent {
			return fail(ev.Violf("C05.session-present-fresh", "Session Present = 1 for a client id that was never used"))
		}
		// effective expiry of the session (seconds)
		eff := 0
		if l.V != 5 {
			if !l.Clean1 {
				eff = s.CfgExpiryS
			}
		} else if l.Expiry1 > 0 {
			eff = minInt(l.Expiry1, s.CfgExpiryS)
		}
		if l.V == 5 && ack.Props != nil && ack.Props.SessionExpiry != nil && int(*ack.Props.SessionExpiry) != eff {
			return fail(ev.Violf("C05.connack-expiry", "CONNACK Session Expiry Interval = %d, expected min(requested %d, configured %d) = %d", *ack.Props.SessionExpiry, l.Expiry1, s.CfgExpiryS, eff))
		}
		if code, err := subscribeOne(cl, 1, subSpec{Filter: topic, QoS: 1}); err != nil || code != 1 {
			return fail(harnessErr("subscribe: %v %v", code, err))
		}
		time.Sleep(time.Duration(l.HoldMs) * time.Millisecond)
		if err := cl.Ping(fixture.DefaultWait); err != nil {
			return fail(ev.Violf("C05.ping", "connection lost while idle: %v", err))
		}
		// end of the first connection
		endKind := l.End
		if endKind == "disconnect_expiry" && eff == 0 && l.NewExpiry != 0 {
			// protocol error [MQTT-3.14.2-2 / 3.14.2.2.2]: a session whose expiry is 0 cannot be given a lifetime at
			// DISCONNECT; the request must not take effect, the session ends with the connection
			endKind = "disconnect_bad_expiry"
		} else if endKind == "disconnect_expiry" && l.NewExpiry > s.CfgExpiryS {
			endKind = "disconnect" // above the configured maximum: precondition, not generated
		}
		var end ival
		end.lo = time.Now()
		switch endKind {
		case "disconnect":
			_ = cl.Send(&mw.Packet{Type: mw.DISCONNECT})
			cl.Kill()
		case "disconnect_expiry":
			_ = cl.Send(&mw.Packet{Type: mw.DISCONNECT, Props: &mw.Props{SessionExpiry: u32p(uint32(l.NewExpiry))}})
			cl.Kill()
			eff = l.NewExpiry
			o.labels = append(o.labels, "expiry_updated_at_disconnect")
		case "disconnect_bad_expiry":
			_ = cl.Send(&mw.Packet{Type: mw.DISCONNECT, Props: &mw.Props{SessionExpiry: u32p(uint32(l.NewExpiry))}})
			cl.WaitClosed(2 * time.Second)
			cl.Kill()
			o.labels = append(o.labels, "disconnect_expiry_on_zero_expiry_session")
			o.nontrivial = true
		case "kill":
			cl.Kill()
		}
		if !waitClientGone(b, id) {
			return fail(harnessErr("client still registered 5 s after close"))
		}
		end.hi = time.Now()
		// something to find (or not) after the reconnect
		b.Srv.Publisher().Publish(&gmqtt.Message{Topic: topic, QoS: 1, Payload: []byte("offline-" + id)})
		terminated := false
		if l.Terminate {
			b.Srv.ClientService().TerminateSession(id)
			terminated = true
			o.labels = append(o.labels, "terminated")
		}
		time.Sleep(time.Until(end.hi.Add(time.Duration(l.WaitMs) * time.Millisecond)))
		r0 := time.Now()
		exp2 := 100
		if l.Wait2Ms > 0 {
			exp2 = l.Expiry2
		}
		cl2, ack2, err := connect(l.Clean2, exp2)
		if err != nil || ack2 == nil || ack2.ReasonCode != 0 {
			return fail(ev.Violf("C05.reconnect", "reconnect failed: %v %v", ack2, err))
		}
		r1 := time.Now()
		defer cl2.Kill()
		offLo, offHi := r0.Sub(end.hi), r1.Sub(end.lo)
		if offLo < 0 {
			offLo = 0
		}
		life := time.Duration(eff) * time.Second
		// does the session still exist when the CONNECT arrives?
		alive, decided := false, true
		switch {
		case eff == 0 || terminated:
			alive = false
		case offHi < life-timingMargin:
			alive = true
		case offLo > life+timingMargin:
			alive = false
		default:
			decided = false
		}
		logf("v%d clean1=%v eff=%ds hold=%dms end=%s offline in [%v,%v] clean2=%v terminated=%v => alive=%v decided=%v; Session Present=%v", l.V, l.Clean1, eff, l.HoldMs, endKind, offLo, offHi, l.Clean2, terminated, alive, decided, ack2.SessionPresent)
		if eff > 0 && !l.Clean2 && !terminated {
			o.nontrivial = true
			if time.Duration(l.HoldMs)*time.Millisecond > life {
				o.labels = append(o.labels, "connection_longer_than_expiry")
			}
		}
		if !decided {
			o.inconclusive = true
			return o
		}
		wantSP := alive && !l.Clean2
		if ack2.SessionPresent != wantSP {
			why := fmt.Sprintf("session expiry %ds, offline for %v..%v after a connection that lasted >= %dms", eff, offLo, offHi, l.HoldMs)
			if terminated {
				why = "the session was terminated administratively"
			}
			return fail(ev.Violf("C05.session-present", "Session Present = %v, expected %v (%s; Clean Start %v)", ack2.SessionPresent, wantSP, why, l.Clean2).
				With("want", wantSP, "held_longer_than_expiry", time.Duration(l.HoldMs)*time.Millisecond > life, "offline_ms_hi", offHi.Milliseconds()))
		}
		o.labels = append(o.labels, fmt.Sprintf("session_present_%v", wantSP))
		// state: subscriptions and undelivered QoS>0 messages intact iff resumed
		if !wantSP {
			if err := subscribeSentinel(cl2); err != nil {
				return fail(harnessErr("%v", err))
			}
		} else {
			// the resumed session has no sentinel subscription: make one now (it does not disturb the old state)
			if err := subscribeSentinel(cl2); err != nil {
				return fail(harnessErr("%v", err))
			}
		}
		b.Srv.Publisher().Publish(&gmqtt.Message{Topic: topic, QoS: 1, Payload: []byte("probe-" + id)})
		if err := sentinelBarrier(b, []*fixture.Client{cl2}, "end"+id); err != nil {
			return fail(ev.Violf("C05.barrier", "%v", err))
		}
		gotOffline, gotProbe := false, false
		for _, r := range cl2.All() {
			if r.P.Type == mw.PUBLISH {
				switch string(r.P.Payload) {
				case "offline-" + id:
					gotOffline = true
				case "probe-" + id:
					gotProbe = true
				}
			}
		}
		if wantSP && (!gotOffline || !gotProbe) {
			return fail(ev.Violf("C05.state-lost", "session resumed (Session Present 1) but offline message received=%v, old subscription still delivering=%v", gotOffline, gotProbe))
		}
		if !wantSP && (gotOffline || gotProbe) {
			return fail(ev.Violf("C05.state-leaked", "new empty session (Session Present 0) but offline message received=%v, old subscription delivering=%v", gotOffline, gotProbe))
		}
		if l.Wait2Ms == 0 {
			return o
		}
		// ---- third phase: the session now lives by what the SECOND connection asked for ----
		eff2 := 0
		if l.V != 5 {
			if !l.Clean2 {
				eff2 = s.CfgExpiryS
			}
		} else {
			eff2 = minInt(l.Expiry2, s.CfgExpiryS)
		}
		if code, err := subscribeOne(cl2, 9, subSpec{Filter: topic + "/2", QoS: 1}); err != nil || code != 1 {
			return fail(harnessErr("subscribe (second connection): %v %v", code, err))
		}
		var end2 ival
		end2.lo = time.Now()
		cl2.Kill()
		if !waitClientGone(b, id) {
			return fail(harnessErr("client still registered 5 s after close"))
		}
		end2.hi = time.Now()
		b.Srv.Publisher().Publish(&gmqtt.Message{Topic: topic + "/2", QoS: 1, Payload: []byte("offline2-" + id)})
		time.Sleep(time.Until(end2.hi.Add(time.Duration(l.Wait2Ms) * time.Millisecond)))
		q0 := time.Now()
		cl3, ack3, err := connect(false, 100)
		if err != nil || ack3 == nil || ack3.ReasonCode != 0 {
			return fail(ev.Violf("C05.reconnect", "third connect failed: %v %v", ack3, err))
		}
		q1 := time.Now()
		defer cl3.Kill()
		off2Lo, off2Hi := q0.Sub(end2.hi), q1.Sub(end2.lo)
		life2 := time.Duration(eff2) * time.Second
		o.labels = append(o.labels, "third_connection")
		want3, decided3 := false, true
		switch {
		case eff2 == 0:
			want3 = false
		case off2Hi < life2-timingMargin:
			want3 = true
		case off2Lo > life2+timingMargin:
			want3 = false
		default:
			decided3 = false
		}
		logf("third phase: second connection asked for %ds (effective %ds), offline in [%v,%v] => Session Present expected %v (decided %v), got %v", l.Expiry2, eff2, off2Lo, off2Hi, want3, decided3, ack3.SessionPresent)
		if !decided3 {
			o.inconclusive = true
			return o
		}
		if eff != eff2 {
			o.labels = append(o.labels, "expiry_changed_by_second_connect")
		}
		if ack3.SessionPresent != want3 {
			return fail(ev.Violf("C05.session-present", "third CONNECT (no Clean Start): Session Present = %v, expected %v: the second connection asked for a session expiry of %ds (effective %ds) and ended %v..%v ago; the first connection's effective expiry was %ds", ack3.SessionPresent, want3, l.Expiry2, eff2, off2Lo, off2Hi, eff).
				With("want", want3, "phase", 3, "eff1", eff, "eff2", eff2))
		}
		if err := subscribeSentinel(cl3); err != nil {
			return fail(harnessErr("%v", err))
		}
		if err := sentinelBarrier(b, []*fixture.Client{cl3}, "end3"+id); err != nil {
			return fail(ev.Violf("C05.barrier", "%v", err))
		}
		got2 := false
		for _, r := range cl3.All() {
			if r.P.Type == mw.PUBLISH && string(r.P.Payload) == "offline2-"+id {
				got2 = true
			}
		}
		if want3 && !got2 {
			return fail(ev.Violf("C05.state-lost", "third connection resumed the session (Session Present 1) but the message queued while it was offline did not arrive"))
		}
		if !want3 && got2 {
			return fail(ev.Violf("C05.state-leaked", "third connection started an empty session but received the message queued for the previous one"))
		}
		return o
	})
	return collectLanes(outs, c)
}

func TestC05Resume(t *testing.T) {
	ev.SetRule("C05", "(a) timed lanes: per case a configured session expiry {1 s, 2 s, 1 h} and 6-10 concurrent lanes, each: CONNECT (v3.1.1/v5, clean or not, expiry absent/0/1/2/100), SUBSCRIBE, keep the connection for 0/1.5/2.6 s, end it (DISCONNECT, DISCONNECT with a new expiry, abrupt close), one QoS1 publish while offline, optional TerminateSession, wait 0/0.4/1.5/2.6 s, reconnect (clean 0|1). The offline time is an interval measured by the harness from the END of the first connection; Session Present must be 1 iff the session was not ended by clean start, termination or expiry (v3: configured expiry for non-clean; v5: min(requested, configured), replaced at DISCONNECT), and then the offline message and the old subscription must be there, otherwise neither; lanes within 300 ms of the expiry boundary are timing_inconclusive. (b) storms of 2-4 CONNECTs with one client id (mixed clean flags and versions, concurrent or 0-5 ms apart): afterwards exactly one connection answers PINGREQ, every other is closed (a DISCONNECT seen there must carry 0x8E), and messages published afterwards arrive on no displaced socket. Non-trivial: (a) a clean=0 reconnect on a session with a finite lifetime, (b) >= 2 CONNECTs in flight together; distinct by scenario digest.")
	ev.Run(t, "C05", genC05, runC05)
}

// ---------------------------------------------------------------------------------------
// (b) one connection per client id

type c05Conn struct {
	V       int  `json:"v"`
	Clean   bool `json:"clean"`
	DelayUs int  `json:"delay_us"`
}

type c05StormScen struct {
	Conns []c05Conn `json:"conns"`
	// Terminate: a connection with the client id exists before the storm and ClientService.TerminateSession is called for
	// it right before the storm starts; ClosedHookUs: the application's OnClosed hook takes this long for that first
	// connection, so its teardown is still in progress while the new CONNECTs arrive
	Terminate    bool `json:"terminate,omitempty"`
	ClosedHookUs int  `json:"closed_hook_us,omitempty"`
}

func genC05Storm(t *rapid.T) c05StormScen {
	var s c05StormScen
	n := rapid.IntRange(2, 4).Draw(t, "n")
	for i := 0; i < n; i++ {
		s.Conns = append(s.Conns, c05Conn{V: rapid.SampledFrom([]int{3, 4, 5, 5}).Draw(t, "v"), Clean: rapid.Bool().Draw(t, "clean"),
			DelayUs: rapid.SampledFrom([]int{0, 0, 0, 200, 1000, 5000}).Draw(t, "delay")})
	}
	if rapid.IntRange(0, 2).Draw(t, "terminate") == 0 {
		s.Terminate = true
		s.ClosedHookUs = rapid.SampledFrom([]int{0, 500, 3000, 20000}).Draw(t, "closed_hook_us")
	}
	return s
}

func runC05Storm(s c05StormScen, c *ev.Case) *ev.Violation {
	var slowClose atomic.Bool
	hooks := &server.Hooks{OnClosed: func(ctx context.Context, client server.Client, err error) {
		if s.ClosedHookUs > 0 && slowClose.CompareAndSwap(true, false) {
			time.Sleep(time.Duration(s.ClosedHookUs) * time.Microsecond)
		}
	}}
	b, err := fixture.Start(fixture.Opts{Config: fixture.BaseConfig(), Hooks: hooks})
	if err != nil {
		return harnessErr("start broker: %v", err)
	}
	defer b.Stop()
	var first *fixture.Client
	if s.Terminate {
		cl, ack, err := b.Connect(fixture.ConnectOpts{ID: "same", V: mw.V5, CleanStart: true, AutoAck: true, Props: &mw.Props{SessionExpiry: u32p(100)}})
		if err != nil || ack.ReasonCode != 0 {
			return harnessErr("first connection: %v %v", ack, err)
		}
		first = cl
		defer first.Kill()
		slowClose.Store(true)
		b.Srv.ClientService().TerminateSession("same")
		c.Label("terminate_session_then_reconnect_storm")
	}
	type res struct {
		cl  *fixture.Client
		ack *mw.Packet
		err error
		at  time.Time
	}
	out := make([]res, len(s.Conns))
	var wg sync.WaitGroup
	start := make(chan struct{})
	for i, cn := range s.Conns {
		wg.Add(1)
		go func(i int, cn c05Conn) {
			defer wg.Done()
			<-start
			time.Sleep(time.Duration(cn.DelayUs) * time.Microsecond)
			op := fixture.ConnectOpts{ID: "same", V: ver(cn.V), CleanStart: cn.Clean, AutoAck: true}
			if cn.V == 5 {
				op.Props = &mw.Props{SessionExpiry: u32p(100)}
			}
			cl, ack, err := b.Connect(op)
			out[i] = res{cl, ack, err, time.Now()}
		}(i, cn)
	}
	close(start)
	wg.Wait()
	defer func() {
		for _, r := range out {
			if r.cl != nil {
				r.cl.Kill()
			}
		}
	}()
	c.NonTrivial()
	acked := 0
	for i, r := range out {
		if r.cl == nil {
			return harnessErr("conn %d: dial failed: %v", i, r.err)
		}
		if r.ack != nil && r.ack.ReasonCode == 0 {
			acked++
		} else if r.ack != nil {
			return ev.Violf("C05.storm-connack", "connection %d got CONNACK code %#x", i, r.ack.ReasonCode)
		}
		// a connection that was displaced before its CONNACK could be written is acceptable
	}
	if acked == 0 {
		return ev.Violf("C05.storm-none", "none of %d simultaneous CONNECTs with one client id was acknowledged", len(out))
	}
	// exactly one survivor
	var alive []int
	for i, r := range out {
		if err := r.cl.Ping(1500 * time.Millisecond); err == nil {
			alive = append(alive, i)
		}
	}
	if len(alive) != 1 {
		// a displaced socket may still be closing: give the closed ones time, then ask again
		time.Sleep(200 * time.Millisecond)
		alive = alive[:0]
		for i, r := range out {
			if err := r.cl.Ping(1500 * time.Millisecond); err == nil {
				alive = append(alive, i)
			}
		}
	}
	if len(alive) != 1 {
		return ev.Violf("C05.one-connection", "%d connections with client id \"same\" answer PINGREQ after the storm (indexes %v), expected exactly 1", len(alive), alive).With("alive", len(alive), "conns", len(out))
	}
	surv := out[alive[0]].cl
	for i, r := range out {
		if i == alive[0] {
			continue
		}
		if !r.cl.WaitClosed(5 * time.Second) {
			return ev.Violf("C05.displaced-open", "displaced connection %d is neither answering nor closed 5 s after the storm", i)
		}
		for _, p := range r.cl.All() {
			if p.P.Type == mw.DISCONNECT && p.P.ReasonCode != 0x8E {
				return ev.Violf("C05.displaced-code", "displaced connection %d got DISCONNECT %#x, expected 0x8E session taken over", i, p.P.ReasonCode)
			}
		}
	}
	// nothing is delivered to a displaced connection afterwards
	if err := subscribeSentinel(surv); err != nil {
		return ev.Violf("C05.survivor", "survivor cannot subscribe: %v", err)
	}
	if code, err := subscribeOne(surv, 5, subSpec{Filter: "storm/t", QoS: 1}); err != nil || code != 1 {
		return ev.Violf("C05.survivor", "survivor cannot subscribe: %v %v", code, err)
	}
	marks := make([]int, len(out))
	for i, r := range out {
		marks[i] = len(r.cl.All())
	}
	for k := 0; k < 3; k++ {
		b.Srv.Publisher().Publish(&gmqtt.Message{Topic: "storm/t", QoS: 1, Payload: []byte(fmt.Sprintf("after-%d", k))})
	}
	if err := sentinelBarrier(b, []*fixture.Client{surv}, "end"); err != nil {
		return ev.Violf("C05.barrier", "%v", err)
	}
	n := 0
	for _, r := range surv.All() {
		if r.P.Type == mw.PUBLISH && r.P.Topic == "storm/t" && !r.P.Dup {
			n++
		}
	}
	if n != 3 {
		return ev.Violf("C05.survivor-delivery", "the surviving connection received %d of 3 messages published after the storm", n)
	}
	for i, r := range out {
		if i == alive[0] {
			continue
		}
		for _, p := range r.cl.All()[marks[i]:] {
			if p.P.Type == mw.PUBLISH {
				return ev.Violf("C05.delivered-to-displaced", "displaced connection %d received %s after the survivor was acknowledged", i, p.P)
			}
		}
	}
	if first != nil && !first.WaitClosed(5*time.Second) {
		return ev.Violf("C05.displaced-open", "the connection whose session was ended by TerminateSession is still open 5 s later")
	}
	if len(out) >= 3 {
		c.Label("storm_3plus")
	}
	return nil
}

func TestC05Storm(t *testing.T) {
	ev.RunN(t, "C05", 25, genC05Storm, runC05Storm)
}

// ---------------------------------------------------------------------------------------
// (c) take-over of a connection whose peer has stopped reading

type c05StallScen struct {
	V      int  `json:"v"`
	Clean2 bool `json:"clean2"`
	Flood  int  `json:"flood"` // messages of 48 KiB queued for the stalled connection
	QoS    byte `json:"qos"`
	TCP    bool `json:"tcp,omitempty"` // loopback TCP instead of the in-memory transport
}

func genC05Stall(t *rapid.T) c05StallScen {
	return c05StallScen{V: rapid.SampledFrom([]int{4, 5}).Draw(t, "v"), Clean2: rapid.Bool().Draw(t, "clean2"),
		Flood: rapid.SampledFrom([]int{0, 8, 24, 60, 120}).Draw(t, "flood"), QoS: byte(rapid.IntRange(0, 1).Draw(t, "qos")),
		TCP: rapid.IntRange(0, 3).Draw(t, "tcp") == 0}
}

func runC05Stall(s c05StallScen, c *ev.Case) *ev.Violation {
	b, err := fixture.Start(fixture.Opts{Config: fixture.BaseConfig(), TCP: s.TCP})
	if err != nil {
		return harnessErr("start broker: %v", err)
	}
	defer b.Stop()
	const wait = 10 * time.Second
	v := ver(s.V)
	conn, err := b.DialConn()
	if err != nil {
		return harnessErr("dial: %v", err)
	}
	defer conn.Close()
	name, lvl := mw.ProtoFor(v)
	br := bufio.NewReaderSize(conn, 4096)
	send := func(p *mw.Packet) error {
		raw, err := mw.Encode(p, v)
		if err != nil {
			return err
		}
		_ = conn.SetWriteDeadline(time.Now().Add(wait))
		_, err = conn.Write(raw)
		return err
	}
	read := func(t mw.Type) error {
		_ = conn.SetReadDeadline(time.Now().Add(wait))
		for {
			p, err := mw.ReadPacket(br, v, mw.ToClient)
			if err != nil {
				return err
			}
			if p.Type == t {
				return nil
			}
		}
	}
	cp := &mw.Packet{Type: mw.CONNECT, ProtoName: name, ProtoLevel: lvl, ClientID: "st", CleanStart: s.V == 5}
	if s.V == 5 {
		cp.Props = &mw.Props{SessionExpiry: u32p(100)}
	}
	if err := send(cp); err != nil {
		return harnessErr("connect A: %v", err)
	}
	if err := read(mw.CONNACK); err != nil {
		return harnessErr("connack A: %v", err)
	}
	if err := send(&mw.Packet{Type: mw.SUBSCRIBE, PacketID: 1, Subs: []mw.SubReq{{Filter: "flood", QoS: s.QoS}}}); err != nil {
		return harnessErr("subscribe A: %v", err)
	}
	if err := read(mw.SUBACK); err != nil {
		return harnessErr("suback A: %v", err)
	}
	// from here on A does not read: the broker's writer for A blocks once the transport's buffers are full
	big := make([]byte, 48*1024)
	for k := 0; k < s.Flood; k++ {
		b.Srv.Publisher().Publish(&gmqtt.Message{Topic: "flood", QoS: s.QoS, Payload: big})
	}
	if s.Flood >= 24 {
		c.Label("writer_of_old_connection_blocked")
		c.NonTrivial()
	}
	time.Sleep(20 * time.Millisecond)
	// the newer CONNECT must displace A and be acknowledged
	cl2, ack2, err := b.Connect(fixture.ConnectOpts{ID: "st", V: v, CleanStart: s.Clean2, AutoAck: true, Props: cp.Props})
	if err != nil || ack2 == nil {
		return ev.Violf("C05.takeover-not-acknowledged", "a CONNECT with the client id of a connection whose peer has stopped reading (%d x 48 KiB queued for it) was not acknowledged within %v: %v", s.Flood, wait, err).
			With("flood", s.Flood, "v", s.V)
	}
	defer cl2.Kill()
	if ack2.ReasonCode != 0 {
		return ev.Violf("C05.takeover-not-acknowledged", "take-over CONNECT refused with %#x", ack2.ReasonCode)
	}
	if ack2.SessionPresent != !s.Clean2 {
		return ev.Violf("C05.session-present", "take-over with Clean Start %v of a live session: Session Present %v", s.Clean2, ack2.SessionPresent)
	}
	// nothing published from now on may reach the displaced connection
	if err := subscribeSentinel(cl2); err != nil {
		return harnessErr("%v", err)
	}
	b.Srv.Publisher().Publish(&gmqtt.Message{Topic: "flood", QoS: s.QoS, Payload: []byte("after-takeover")})
	if err := sentinelBarrier(b, []*fixture.Client{cl2}, "end"); err != nil {
		return ev.Violf("C05.barrier", "%v", err)
	}
	gotAfter := false
	for _, r := range cl2.All() {
		if r.P.Type == mw.PUBLISH && string(r.P.Payload) == "after-takeover" {
			gotAfter = true
		}
	}
	if !s.Clean2 && !gotAfter {
		return ev.Violf("C05.state-lost", "the session was resumed by the take-over (Session Present 1) but its subscription no longer delivers")
	}
	if s.Clean2 && gotAfter {
		return ev.Violf("C05.state-leaked", "take-over with Clean Start 1 but the old subscription still delivers")
	}
	// A: drain what was buffered; the broker must have closed it, and the later message must not be in it
	_ = conn.SetReadDeadline(time.Now().Add(wait))
	for {
		p, err := mw.ReadPacket(br, v, mw.ToClient)
		if err != nil {
			if ne, ok := err.(interface{ Timeout() bool }); ok && ne.Timeout() {
				return ev.Violf("C05.displaced-not-closed", "the displaced connection was not closed by the broker within %v after the newer CONNECT had been acknowledged", wait)
			}
			break // EOF / reset / a packet cut short by the close
		}
		if p.Type == mw.PUBLISH && string(p.Payload) == "after-takeover" {
			return ev.Violf("C05.delivered-to-displaced", "a message published after the newer connection had been acknowledged was delivered on the displaced connection")
		}
	}
	n := 0
	b.Srv.ClientService().IterateClient(func(cl server.Client) bool {
		if cl.ClientOptions().ClientID == "st" {
			n++
		}
		return true
	})
	if n != 1 {
		return ev.Violf("C05.one-connection", "%d connections registered for the client id after the take-over", n)
	}
	return nil
}

func TestC05StalledTakeover(t *testing.T) {
	ev.RunN(t, "C05", 4, genC05Stall, runC05Stall)
}
