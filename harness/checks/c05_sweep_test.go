package checks

// C05 / C20 — the periodic session-expiry check ("sweeper", server.sessionExpireCheck, a 20 s ticker).
//
// The timed lanes of TestC05Resume decide expiry at the reconnect; no case of theirs lives long enough
// for the sweeper to run. Here one broker runs for about 42 s (two sweeps). 6-10 lanes each own a
// persistent session that goes offline at a generated moment of the first 19 s; sessions with a short
// expiry (1-2 s) must disappear through the sweeper - not before their expiry has elapsed, and at the
// latest 45 s after it - together with their subscriptions and queued messages, and a later CONNECT
// without Clean Start must start from an empty session; sessions with a long expiry (100 s, 1 h) must
// survive both sweeps and resume intact. TestC20Sweep runs the same scenario and compares the session
// gauges and totals with the lane outcomes after the second sweep.

import (
	"fmt"
	"sync"
	"testing"
	"time"

	"github.com/DrmagicE/gmqtt"
	"github.com/DrmagicE/gmqtt/persistence/subscription"
	"pgregory.net/rapid"

	"verif/ev"
	"verif/fixture"
	mw "verif/mqttwire"
)

type sweepLane struct {
	V        int    `json:"v"`
	Expiry   int    `json:"expiry_s"`  // v5 only: requested Session Expiry Interval
	OffsetMs int    `json:"offset_ms"` // when the connection ends, relative to the start of the broker
	End      string `json:"end"`       // kill | disconnect
	Shared   bool   `json:"shared,omitempty"`
}

type sweepScen struct {
	CfgExpiryS int         `json:"cfg_session_expiry_s"`
	Redis      bool        `json:"redis,omitempty"`
	Lanes      []sweepLane `json:"lanes"`
}

func genSweep(t *rapid.T) sweepScen {
	s := sweepScen{CfgExpiryS: rapid.SampledFrom([]int{1, 2, 3600}).Draw(t, "cfg"), Redis: rapid.IntRange(0, 3).Draw(t, "backend") == 0}
	n := rapid.IntRange(6, 10).Draw(t, "nlanes")
	for i := 0; i < n; i++ {
		l := sweepLane{V: rapid.SampledFrom([]int{4, 5, 5}).Draw(t, "v"), OffsetMs: rapid.SampledFrom([]int{0, 3000, 9000, 15000, 17500, 18500, 19000}).Draw(t, "offset"),
			End: rapid.SampledFrom([]string{"kill", "disconnect"}).Draw(t, "end"), Shared: rapid.IntRange(0, 3).Draw(t, "shared") == 0}
		if l.V == 5 {
			l.Expiry = rapid.SampledFrom([]int{1, 2, 2, 100}).Draw(t, "expiry")
		}
		s.Lanes = append(s.Lanes, l)
	}
	return s
}

type sweepOut struct {
	laneOut
	swept    bool // the session ended by expiry and was removed by the sweeper
	survived bool // long-lived session, resumed at the end
	final    *fixture.Client
}

// sweepBrokerHook, when set, is called with the broker of a sweeper case right after it has started (TestC15Sweep
// uses it to start its background load).
var sweepBrokerHook func(b *fixture.Broker)

func runSweep(prop string) func(s sweepScen, c *ev.Case) *ev.Violation {
	return func(s sweepScen, c *ev.Case) *ev.Violation {
		cfg := fixture.BaseConfig()
		cfg.MQTT.SessionExpiry = time.Duration(s.CfgExpiryS) * time.Second
		if s.Redis {
			rs, cleanup, e := fixture.StartRedis()
			if e != nil {
				return harnessErr("miniredis: %v", e)
			}
			defer cleanup()
			cfg = fixture.WithRedis(cfg, rs.Addr())
			c.Label("backend_redis")
		}
		t0 := time.Now()
		b, err := fixture.Start(fixture.Opts{Config: cfg})
		if err != nil {
			return harnessErr("start broker: %v", err)
		}
		defer b.Stop()
		if sweepBrokerHook != nil {
			sweepBrokerHook(b)
		}
		c.Label("sweeper_case")
		const sweepPeriod = 20 * time.Second
		secondSweep := t0.Add(2*sweepPeriod + 1500*time.Millisecond) // both ticks have certainly fired by then
		outs := make([]sweepOut, len(s.Lanes))
		var wg sync.WaitGroup
		for i := range s.Lanes {
			wg.Add(1)
			go func(i int) {
				defer wg.Done()
				outs[i] = sweepLaneRun(prop, b, s, i, t0, secondSweep)
			}(i)
		}
		wg.Wait()
		defer func() {
			for _, o := range outs {
				if o.final != nil {
					o.final.Kill()
				}
			}
		}()
		var louts []laneOut
		nSwept, nSurvived := 0, 0
		for _, o := range outs {
			louts = append(louts, o.laneOut)
			if o.swept {
				nSwept++
			}
			if o.survived {
				nSurvived++
			}
		}
		if v := collectLanes(louts, c); v != nil {
			return v
		}
		c.Count("sessions_swept", nSwept)
		c.Count("sessions_survived_two_sweeps", nSurvived)
		if nSwept > 0 && nSurvived > 0 {
			c.NonTrivial()
		}
		if prop != "C20" {
			return nil
		}
		// every lane has reconnected by now: one online session per lane
		g := b.Srv.StatsManager().GetGlobalStats().ConnectionStats
		n := uint64(len(s.Lanes))
		if g.ActiveCurrent != n || g.InactiveCurrent != 0 {
			return ev.Violf("C20.sweep-session-gauges", "after the sweeps and the final reconnects: active sessions %d inactive %d, expected %d and 0 (%d sessions were removed by the expiry check, %d survived it)", g.ActiveCurrent, g.InactiveCurrent, n, nSwept, nSurvived)
		}
		if g.SessionTerminated.Expired != uint64(nSwept) || g.SessionTerminated.Normal != 0 || g.SessionTerminated.TakenOver != 0 {
			return ev.Violf("C20.sweep-terminated", "session terminated totals expired=%d normal=%d taken_over=%d, expected expired=%d and nothing else", g.SessionTerminated.Expired, g.SessionTerminated.Normal, g.SessionTerminated.TakenOver, nSwept)
		}
		if g.SessionCreatedTotal != n+uint64(nSwept) {
			return ev.Violf("C20.sweep-created", "session created total %d, expected %d first sessions + %d sessions created after an expiry", g.SessionCreatedTotal, n, nSwept)
		}
		return nil
	}
}

func sweepLaneRun(prop string, b *fixture.Broker, s sweepScen, i int, t0, secondSweep time.Time) (o sweepOut) {
	l := s.Lanes[i]
	logf := func(f string, a ...any) { o.log = append(o.log, fmt.Sprintf(f, a...)) }
	id := fmt.Sprintf("W%d", i)
	topic := fmt.Sprintf("w/%d", i)
	fail := func(v *ev.Violation) sweepOut {
		o.v = v.With("v", l.V, "expiry", l.Expiry, "offset_ms", l.OffsetMs, "end", l.End, "cfg_expiry_s", s.CfgExpiryS)
		return o
	}
	connect := func(expiry int) (*fixture.Client, *mw.Packet, error) {
		op := fixture.ConnectOpts{ID: id, V: ver(l.V), CleanStart: false, AutoAck: true}
		if l.V == 5 {
			op.Props = &mw.Props{SessionExpiry: u32p(uint32(expiry))}
		}
		return b.Connect(op)
	}
	cl, ack, err := connect(l.Expiry)
	if err != nil || ack.ReasonCode != 0 {
		return fail(harnessErr("connect: %v %v", ack, err))
	}
	defer func() { cl.Kill() }()
	eff := s.CfgExpiryS
	if l.V == 5 {
		eff = minInt(l.Expiry, s.CfgExpiryS)
	}
	sp := subSpec{Filter: topic, QoS: 1}
	if l.Shared && l.V == 5 {
		sp.Group = "g"
	}
	if code, err := subscribeOne(cl, 1, sp); err != nil || code != 1 {
		return fail(harnessErr("subscribe: %v %v", code, err))
	}
	time.Sleep(time.Until(t0.Add(time.Duration(l.OffsetMs) * time.Millisecond)))
	var end ival
	end.lo = time.Now()
	if l.End == "disconnect" {
		_ = cl.Send(&mw.Packet{Type: mw.DISCONNECT})
	}
	cl.Kill()
	if !waitClientGone(b, id) {
		return fail(harnessErr("client still registered 5 s after close"))
	}
	end.hi = time.Now()
	b.Srv.Publisher().Publish(&gmqtt.Message{Topic: topic, QoS: 1, Payload: []byte("offline-" + id)})
	life := time.Duration(eff) * time.Second
	short := eff <= 2
	subsOf := func() int {
		n := 0
		b.Srv.SubscriptionService().Iterate(func(clientID string, sub *gmqtt.Subscription) bool {
			n++
			return true
		}, subscription.IterationOptions{Type: subscription.TypeAll, ClientID: id})
		return n
	}
	if short {
		// watch the session disappear
		var goneLo, goneHi time.Time // it was there at goneLo and gone at goneHi
		goneLo = time.Now()
		limit := end.hi.Add(life + 45*time.Second)
		for {
			now := time.Now()
			sess, _ := b.Srv.ClientService().GetSession(id)
			if sess == nil {
				goneHi = now
				break
			}
			goneLo = now
			if now.After(limit) {
				return fail(ev.Violf(prop+".sweep-never", "session with expiry %ds still listed by ClientService %v after its connection ended (two runs of the 20 s expiry check have passed)", eff, now.Sub(end.lo)))
			}
			time.Sleep(25 * time.Millisecond)
		}
		logf("eff=%ds connection ended in [%v,%v] after broker start; session last seen %v, gone at %v after the end", eff, end.lo.Sub(t0), end.hi.Sub(t0), goneLo.Sub(end.hi), goneHi.Sub(end.lo))
		if goneHi.Before(end.lo.Add(life - timingMargin)) {
			return fail(ev.Violf(prop+".sweep-early", "session with expiry %ds was removed at most %v after the end of its connection", eff, goneHi.Sub(end.lo)))
		}
		if n := subsOf(); n != 0 {
			return fail(ev.Violf(prop+".sweep-subscriptions", "the session was removed by the expiry check but %d of its subscriptions are still in the subscription store", n))
		}
		o.swept = true
		o.labels = append(o.labels, "swept")
	}
	time.Sleep(time.Until(secondSweep))
	if !short {
		if sess, _ := b.Srv.ClientService().GetSession(id); sess == nil {
			return fail(ev.Violf(prop+".sweep-removed-live", "session with expiry %ds is gone %v after the end of its connection (removed by the expiry check?)", eff, time.Since(end.hi)))
		}
		if n := subsOf(); n != 1 {
			return fail(ev.Violf(prop+".sweep-subscriptions", "offline session with expiry %ds has %d subscriptions in the store after two expiry checks, expected 1", eff, n))
		}
	}
	cl2, ack2, err := connect(100)
	if err != nil || ack2 == nil || ack2.ReasonCode != 0 {
		return fail(ev.Violf(prop+".reconnect", "reconnect failed: %v %v", ack2, err))
	}
	o.final = cl2 // closed by the caller, after the gauges have been read
	if ack2.SessionPresent != !short {
		return fail(ev.Violf(prop+".sweep-session-present", "Session Present = %v on a CONNECT without Clean Start %v after the end of a connection whose session had expiry %ds", ack2.SessionPresent, time.Since(end.hi), eff))
	}
	if err := subscribeSentinel(cl2); err != nil {
		return fail(harnessErr("%v", err))
	}
	b.Srv.Publisher().Publish(&gmqtt.Message{Topic: topic, QoS: 1, Payload: []byte("probe-" + id)})
	if err := sentinelBarrier(b, []*fixture.Client{cl2}, "end"+id); err != nil {
		return fail(ev.Violf(prop+".barrier", "%v", err))
	}
	gotOffline, gotProbe := false, false
	for _, r := range cl2.All() {
		if r.P.Type == mw.PUBLISH {
			switch string(r.P.Payload) {
			case "offline-" + id:
				gotOffline = true
			case "probe-" + id:
				gotProbe = true
			}
		}
	}
	if !short && (!gotOffline || !gotProbe) {
		return fail(ev.Violf(prop+".state-lost", "session survived the expiry checks (Session Present 1) but offline message received=%v, old subscription still delivering=%v", gotOffline, gotProbe))
	}
	if short && (gotOffline || gotProbe) {
		return fail(ev.Violf(prop+".state-leaked", "new empty session after expiry but offline message received=%v, old subscription delivering=%v", gotOffline, gotProbe))
	}
	if !short {
		o.survived = true
		o.labels = append(o.labels, "survived_sweeps")
	}
	o.nontrivial = true
	return o
}

// sweepCases: a sweeper case lasts ~42 s. Quick: one case on shard 0. Thorough: two per shard.
func sweepScale() (float64, bool) {
	i, _ := ev.Shard()
	base := float64(ev.BaseChecks())
	if ev.Tier() == "quick" {
		return 1 / base, i == 0
	}
	return 2 / base, true
}

func TestC05Sweep(t *testing.T) {
	scale, run := sweepScale()
	if !run {
		t.Skip("one sweeper case per quick run (shard 0)")
	}
	ev.RunN(t, "C05", scale, genSweep, runSweep("C05"))
}

func TestC20Sweep(t *testing.T) {
	scale, run := sweepScale()
	if !run {
		t.Skip("one sweeper case per quick run (shard 0)")
	}
	ev.RunN(t, "C20", scale, genSweep, runSweep("C20"))
}

// TestC15Sweep runs a sweeper case (see above) in the -race binary while other clients and API callers keep the broker
// busy: the session-expiry loop is one of the goroutines C15 quantifies over, and no ordinary C15 case lives the 20 s
// it takes to fire. Oracles: the race detector, and the sweeper oracles themselves (which must hold under load).
func TestC15Sweep(t *testing.T) {
	scale, run := sweepScale()
	if !run {
		t.Skip("one sweeper case per quick run (shard 0)")
	}
	ev.RunN(t, "C15", scale, genSweep, func(s sweepScen, c *ev.Case) *ev.Violation {
		s.Redis = false // the race binary is about the broker's own memory stores
		c.Label("sweeper_under_load")
		stop := make(chan struct{})
		var wg sync.WaitGroup
		var brokerRef struct {
			sync.Mutex
			b *fixture.Broker
		}
		sweepBrokerHook = func(b *fixture.Broker) {
			brokerRef.Lock()
			brokerRef.b = b
			brokerRef.Unlock()
			for w := 0; w < 3; w++ {
				wg.Add(1)
				go func(w int) {
					defer wg.Done()
					for k := 0; ; k++ {
						select {
						case <-stop:
							return
						default:
						}
						id := fmt.Sprintf("bg%d-%d", w, k%4)
						cl, ack, err := b.Connect(fixture.ConnectOpts{ID: id, V: mw.V5, CleanStart: k%3 == 0, AutoAck: true, Props: &mw.Props{SessionExpiry: u32p(uint32(k % 3))}})
						if err != nil || ack == nil || ack.ReasonCode != 0 {
							time.Sleep(5 * time.Millisecond)
							continue
						}
						_, _ = subscribeOne(cl, 1, subSpec{Filter: fmt.Sprintf("bg/%d/#", w), QoS: byte(k % 3)})
						_, _ = cl.Publish(&mw.Packet{Topic: fmt.Sprintf("bg/%d/x", (w+1)%3), QoS: 1, PacketID: 7, Payload: []byte("bg")})
						b.Srv.StatsManager().GetGlobalStats()
						b.Srv.StatsManager().GetClientStats(id)
						if k%5 == 0 {
							b.Srv.ClientService().TerminateSession(fmt.Sprintf("bg%d-%d", (w+1)%3, k%4))
						}
						b.Srv.ClientService().IterateSession(func(sess *gmqtt.Session) bool { return true })
						if k%2 == 0 {
							cl.Kill()
						} else {
							_ = cl.Send(&mw.Packet{Type: mw.DISCONNECT})
							cl.Kill()
						}
						time.Sleep(time.Duration(1+k%7) * time.Millisecond)
					}
				}(w)
			}
		}
		defer func() { sweepBrokerHook = nil }()
		v := runSweep("C15")(s, c)
		close(stop)
		wg.Wait()
		return v
	})
}
