package checks

// C03 with a queue that overflows. TestC03Outbound keeps the documented drop conditions out of the way (queue 1000);
// here the session queue is tiny and a publisher overruns it while the subscriber acknowledges, with a slow
// OnMsgDropped hook. What a full queue may drop is C10's business; C03's clause is about messages that WERE SENT:
// a QoS 1/2 PUBLISH the client has received and not acknowledged is retransmitted after the reconnect (in-flight
// expiry is off, so nothing that is in flight may be sacrificed), before anything new, with its packet id and DUP=1.

import (
	"context"
	"fmt"
	"sync"
	"testing"
	"time"

	"github.com/DrmagicE/gmqtt"
	"github.com/DrmagicE/gmqtt/server"
	"pgregory.net/rapid"

	"verif/ev"
	"verif/fixture"
	mw "verif/mqttwire"
)

type c03OvScen struct {
	V          int  `json:"v"`
	MaxQueued  int  `json:"max_queued"`
	MI         int  `json:"max_inflight"`
	N          int  `json:"n"`
	NeverEvery int  `json:"never_ack_every"` // messages whose number is a multiple of this are never acknowledged
	DropSlowUs int  `json:"drop_slow_us"`
	PubGapUs   int  `json:"pub_gap_us"`
	AckGapUs   int  `json:"ack_gap_us"`
	Redis      bool `json:"redis,omitempty"`
}

func genC03Ov(t *rapid.T) c03OvScen {
	return c03OvScen{V: rapid.SampledFrom([]int{4, 5}).Draw(t, "v"), MaxQueued: rapid.IntRange(3, 5).Draw(t, "maxq"), MI: rapid.IntRange(2, 3).Draw(t, "mi"),
		N: rapid.IntRange(8, 40).Draw(t, "n"), NeverEvery: rapid.SampledFrom([]int{3, 4, 7}).Draw(t, "never"),
		DropSlowUs: rapid.SampledFrom([]int{0, 300, 2000}).Draw(t, "slow"), PubGapUs: rapid.SampledFrom([]int{0, 100, 500}).Draw(t, "pubgap"),
		AckGapUs: rapid.SampledFrom([]int{0, 100, 1000}).Draw(t, "ackgap"), Redis: rapid.IntRange(0, 4).Draw(t, "backend") == 0}
}

func runC03Ov(s c03OvScen, c *ev.Case) *ev.Violation {
	cfg := fixture.BaseConfig()
	cfg.MQTT.MaxQueuedMsg = s.MaxQueued
	cfg.MQTT.MaxInflight = uint16(s.MI)
	cfg.MQTT.InflightExpiry = 0 // in-flight messages never expire: none may be dropped
	cfg, cleanupBackend, bv := withBackend(cfg, s.Redis, c)
	if bv != nil {
		return bv
	}
	defer cleanupBackend()
	hooks := &server.Hooks{OnMsgDropped: func(ctx context.Context, clientID string, msg *gmqtt.Message, err error) {
		if s.DropSlowUs > 0 {
			time.Sleep(time.Duration(s.DropSlowUs) * time.Microsecond)
		}
	}}
	b, err := fixture.Start(fixture.Opts{Config: cfg, Hooks: hooks})
	if err != nil {
		return harnessErr("start broker: %v", err)
	}
	defer b.Stop()
	opts := fixture.ConnectOpts{ID: "S", V: ver(s.V), CleanStart: s.V == 5}
	if s.V == 5 {
		opts.Props = &mw.Props{SessionExpiry: u32p(1000)}
	}
	cl, ack, err := b.Connect(opts)
	if err != nil || ack.ReasonCode != 0 {
		return harnessErr("connect: %v %v", ack, err)
	}
	defer func() { cl.Kill() }()
	var mu sync.Mutex
	type rcv struct {
		id  uint16
		qos byte
	}
	got := map[string]rcv{} // uid -> what S received on the first connection
	acked := map[string]bool{}
	var order []string
	cl.OnPacket = func(p *mw.Packet) {
		switch p.Type {
		case mw.PUBLISH:
			if isSentinel(p) || p.QoS == 0 {
				return
			}
			u := string(p.Payload)
			var n int
			fmt.Sscanf(u, "m%d", &n)
			mu.Lock()
			if _, dup := got[u]; !dup {
				order = append(order, u)
			}
			got[u] = rcv{p.PacketID, p.QoS}
			never := n%s.NeverEvery == 0
			mu.Unlock()
			if never {
				return
			}
			if s.AckGapUs > 0 {
				time.Sleep(time.Duration(s.AckGapUs) * time.Microsecond)
			}
			mu.Lock()
			acked[u] = true // logged before it is written: an ack is never counted later than it was sent
			mu.Unlock()
			if p.QoS == 1 {
				_ = cl.Send(&mw.Packet{Type: mw.PUBACK, PacketID: p.PacketID})
			} else {
				_ = cl.Send(&mw.Packet{Type: mw.PUBREC, PacketID: p.PacketID})
			}
		case mw.PUBREL:
			_ = cl.Send(&mw.Packet{Type: mw.PUBCOMP, PacketID: p.PacketID})
		}
	}
	if err := subscribeSentinel(cl); err != nil {
		return harnessErr("%v", err)
	}
	if code, err := subscribeOne(cl, 2, subSpec{Filter: "t", QoS: 2}); err != nil || code != 2 {
		return harnessErr("subscribe: %v %v", code, err)
	}
	for k := 1; k <= s.N; k++ {
		b.Srv.Publisher().Publish(&gmqtt.Message{Topic: "t", QoS: byte(1 + k%2), Payload: []byte(fmt.Sprintf("m%d", k))})
		if s.PubGapUs > 0 {
			time.Sleep(time.Duration(s.PubGapUs) * time.Microsecond)
		}
	}
	// let the acknowledgements that are under way reach the broker, then cut
	_ = cl.Ping(fixture.DefaultWait)
	time.Sleep(20 * time.Millisecond)
	_ = cl.Ping(fixture.DefaultWait)
	cl.Kill()
	mu.Lock()
	pending := map[string]rcv{}
	for u, r := range got {
		if !acked[u] {
			pending[u] = r
		}
	}
	firstOrder := append([]string(nil), order...)
	mu.Unlock()
	if len(pending) > 0 {
		c.Label("cut_with_inflight")
	}
	if !waitClientGone(b, "S") {
		return harnessErr("client still registered 5 s after close")
	}
	// resume with prompt acknowledgements
	opts.CleanStart = false
	opts.AutoAck = true
	cl2, ack2, err := b.Connect(opts)
	if err != nil || ack2 == nil || ack2.ReasonCode != 0 {
		return ev.Violf("C03.connect", "reconnect failed: %v %v", ack2, err)
	}
	defer cl2.Kill()
	if !ack2.SessionPresent {
		return ev.Violf("C03.session-present", "reconnect with clean=0: Session Present = 0")
	}
	// barrier: with a tiny queue the QoS0 sentinel itself can be the victim of the drop ladder while the replayed
	// messages are still being acknowledged - publish it again until one copy arrives
	arrived := false
	for attempt := 0; attempt < 200 && !arrived; attempt++ {
		tag := fmt.Sprintf("end-%d", attempt)
		b.Srv.Publisher().Publish(&gmqtt.Message{Topic: fixture.SentinelTopic(cl2.ID), Payload: []byte(tag)})
		if _, err := cl2.WaitFor(func(p *mw.Packet) bool { return p.Type == mw.PUBLISH && string(p.Payload) == tag }, 50*time.Millisecond); err == nil {
			arrived = true
		}
		if closed, _ := cl2.Closed(); closed {
			return ev.Violf("C03.at-least-once", "the resumed connection was closed by the broker during the final drain")
		}
	}
	if !arrived {
		return ev.Violf("C03.at-least-once", "final drain did not complete: no sentinel arrived in 200 attempts")
	}
	again := map[string]*mw.Packet{}
	for _, r := range cl2.All() {
		if r.P.Type == mw.PUBLISH && !isSentinel(r.P) {
			if _, ok := again[string(r.P.Payload)]; !ok {
				again[string(r.P.Payload)] = r.P
			}
		}
	}
	dropsSeen := s.N - len(firstOrder) - 0
	if dropsSeen > 0 {
		c.Label("queue_overflowed")
	}
	for _, u := range firstOrder {
		r, open := pending[u]
		if !open {
			continue
		}
		p := again[u]
		if p == nil {
			return ev.Violf("C03.at-least-once", "message %s was sent to the client (QoS %d, packet id %d) and never acknowledged, but it is not retransmitted after the reconnect (in-flight expiry is off; queue %d, window %d, %d published)", u, r.qos, r.id, s.MaxQueued, s.MI, s.N).
				With("max_queued", s.MaxQueued, "slow_us", s.DropSlowUs)
		}
		if p.PacketID != r.id || !p.Dup {
			return ev.Violf("C03.retransmit-dup", "retransmission of %s: packet id %d DUP=%v, first sent with id %d", u, p.PacketID, p.Dup, r.id)
		}
	}
	if len(pending) > 0 && dropsSeen > 0 {
		c.NonTrivial()
	}
	return nil
}

func TestC03Overflow(t *testing.T) {
	ev.RunN(t, "C03", 1, genC03Ov, runC03Ov)
}
