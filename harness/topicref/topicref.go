// Package topicref is the reference (deliberately naive) implementation of MQTT topic
// name / topic filter validity (§4.7, §1.5.4) and of topic matching (§4.7). It imports
// nothing from gmqtt.
package topicref

import (
	"strings"
	"unicode/utf8"
)

// Verdict is three-valued: the spec has a class of strings a receiver MAY reject.
type Verdict int

const (
	Invalid Verdict = iota // MUST be rejected
	May                    // well-formed but contains code points a receiver MAY reject
	Valid                  // MUST be accepted
)

func (v Verdict) String() string { return [...]string{"invalid", "may", "valid"}[v] }

// UTF8 classifies b as an MQTT UTF-8 encoded string body (§1.5.4).
func UTF8(b []byte) Verdict {
	if len(b) > 65535 {
		return Invalid
	}
	v := Valid
	for i := 0; i < len(b); {
		r, n := utf8.DecodeRune(b[i:])
		if r == utf8.RuneError && n <= 1 {
			return Invalid // ill-formed (includes encoded surrogates and over-long forms)
		}
		if r == 0 {
			return Invalid
		}
		if (r >= 0x01 && r <= 0x1f) || (r >= 0x7f && r <= 0x9f) ||
			(r >= 0xfdd0 && r <= 0xfdef) || (r&0xfffe) == 0xfffe {
			v = May
		}
		i += n
	}
	return v
}

// TopicName classifies b as a topic name for PUBLISH: at least one byte, valid UTF-8,
// no wildcard characters.
func TopicName(b []byte) Verdict {
	if len(b) == 0 {
		return Invalid
	}
	u := UTF8(b)
	if u == Invalid {
		return Invalid
	}
	for _, c := range b {
		if c == '+' || c == '#' {
			return Invalid
		}
	}
	return u
}

// TopicFilter classifies b as a (non-shared) topic filter: at least one byte, valid
// UTF-8, '#' only as the whole last level, '+' only as a whole level.
func TopicFilter(b []byte) Verdict {
	if len(b) == 0 {
		return Invalid
	}
	u := UTF8(b)
	if u == Invalid {
		return Invalid
	}
	levels := strings.Split(string(b), "/")
	for i, lv := range levels {
		if strings.ContainsAny(lv, "+#") && len(lv) != 1 {
			return Invalid
		}
		if lv == "#" && i != len(levels)-1 {
			return Invalid
		}
	}
	return u
}

// V5Filter classifies a v5 SUBSCRIBE filter, which may be a shared subscription
// "$share/<name>/<filter>": name at least one byte without '/', '+', '#'; filter a valid
// topic filter.
func V5Filter(b []byte) Verdict {
	s := string(b)
	if s == "$share" || strings.HasPrefix(s, "$share/") {
		parts := strings.SplitN(s, "/", 3)
		if len(parts) < 3 {
			return Invalid
		}
		if len(parts[1]) == 0 || strings.ContainsAny(parts[1], "+#") {
			return Invalid
		}
		if UTF8([]byte(parts[1])) == Invalid {
			return Invalid
		}
		f := TopicFilter([]byte(parts[2]))
		if f == Invalid {
			return Invalid
		}
		if UTF8([]byte(parts[1])) == May {
			return May
		}
		return f
	}
	return TopicFilter(b)
}

// Match reports whether the valid topic name matches the valid (non-shared) topic filter
// under §4.7: level-wise comparison, '+' matches exactly one level (possibly empty), '#'
// matches any number of remaining levels including the parent level, and a filter that
// starts with a wildcard does not match a name beginning with '$'.
func Match(name, filter string) bool {
	n := strings.Split(name, "/")
	f := strings.Split(filter, "/")
	if strings.HasPrefix(name, "$") && (f[0] == "+" || f[0] == "#") {
		return false
	}
	for i, fl := range f {
		if fl == "#" {
			return true // '#' is last (validity) and matches the rest, including nothing
		}
		if i >= len(n) {
			return false
		}
		if fl != "+" && fl != n[i] {
			return false
		}
	}
	return len(n) == len(f)
}

// SplitShare splits "$share/g/f" into (g, f); for a non-shared filter it returns ("", s).
func SplitShare(s string) (group, filter string) {
	if strings.HasPrefix(s, "$share/") {
		p := strings.SplitN(s, "/", 3)
		if len(p) == 3 {
			return p[1], p[2]
		}
	}
	return "", s
}
