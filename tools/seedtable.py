#!/usr/bin/env python3
"""Regenerate the table of independently seeded changes in DESIGN.md (between the SEEDED-TABLE markers)
from seeded/*/meta.json."""
import json, os, re, glob
V = os.path.dirname(os.path.dirname(os.path.abspath(__file__)))
try:
    HIST = json.load(open(os.path.join(V, "seeded", "HISTORY.json")))
except Exception:
    HIST = {}
rows = ["| change | breaks | what it needs to manifest | our check | history |", "|---|---|---|---|---|"]
for d in sorted(glob.glob(os.path.join(V, "seeded", "*"))):
    try:
        m = json.load(open(os.path.join(d, "meta.json")))
    except Exception:
        continue
    oc = m.get("our_check")
    if isinstance(oc, str):
        verdict = "CAUGHT" if "'verdict': 'CAUGHT'" in oc else ("MISSED" if "MISSED" in oc else "?")
        cmd = "quick"
    else:
        verdict = (oc or {}).get("verdict", "?")
        cmd = "thorough" if "thorough" in (oc or {}).get("cmd", "") else "quick"
    def clip(s, n):
        s = " ".join((s or "").split()).replace("|", "/")
        return s if len(s) <= n else s[:n - 1] + "…"
    rows.append("| %s | %s | %s | %s (%s tier, %ss) | %s |" % (os.path.basename(d), m.get("property"), clip(m.get("summary"), 230) + " — needs: " + clip(m.get("needs"), 200),
                verdict, cmd, (oc or {}).get("wall_s", "?") if not isinstance(oc, str) else "?", "", ) if False else
                "| %s | %s | %s | %s | %s (%s) | %s |" % (os.path.basename(d), m.get("property"), clip(m.get("summary"), 220), clip(m.get("needs"), 200), verdict, cmd, clip(m.get("history") or HIST.get(os.path.basename(d)), 420) or "caught as the check stood"))
rows[0] = "| change | breaks | what the change does | what it needs to manifest | our check | history |"
rows[1] = "|---|---|---|---|---|---|"
p = os.path.join(V, "DESIGN.md")
s = open(p).read()
b, e = "<!-- SEEDED-TABLE-BEGIN -->", "<!-- SEEDED-TABLE-END -->"
if b in s:
    s = s[:s.index(b) + len(b)] + "\n" + "\n".join(rows) + "\n" + s[s.index(e):]
    open(p, "w").write(s)
    print("updated", len(rows) - 2, "rows")
else:
    print("\n".join(rows))
