#!/usr/bin/env python3
"""Regenerate MANIFEST.json from checks.json (claims) + properties.jsonl (not_applicable for the rest)."""
import json, os, subprocess
V = os.path.dirname(os.path.dirname(os.path.abspath(__file__)))
checks = json.load(open(os.path.join(V, "checks.json")))
props = [json.loads(l)["id"] for l in open(os.path.join(V, "properties.jsonl"))]
na_reasons = {}
p = os.path.join(V, "not_applicable.json")
if os.path.exists(p):
    na_reasons = json.load(open(p))
hooks = []
hp = os.path.join(V, "hooks.json")
if os.path.exists(hp):
    hooks = json.load(open(hp))
m = {
 "version": 1,
 "setup_cmd": "./vcheck setup",
 "hooks": {
  "guard": "verif",
  "enable": "go test -tags verif (Go build tag); the harness module /verif/harness replaces github.com/DrmagicE/gmqtt with /repo's working tree",
  "baseline_off_cmd": "cd /repo && go test -vet=off -count=1 -timeout 25m ./...",
  "source_commits": hooks,
  "add_only": True
 },
 "engines": [{"name": "vcheck", "path": "vcheck", "serves_properties": sorted(checks),
   "kind_free_text": "python driver: builds /verif/harness/checks (rapid v1.3.0 property tests + native fuzz targets) against /repo's working tree with -tags verif, runs 8-16 shard processes with per-shard seeds derived from VERIF_SEED, merges shard statistics into evidence/<id>.json, matches failures against known_findings.json"}],
 "checks": [], "not_applicable": [],
 "notes": "known_findings.json lists genuine defects (open = recorded, fixed = repaired by a 'fix:' commit in /repo). replays/<id>/ holds shrunk failing scenarios; ./vcheck replay <file> re-runs one without rapid."
}
for pid in props:
    if pid in checks:
        c = checks[pid]
        m["checks"].append({
          "property_id": pid, "quick_cmd": "./vcheck quick " + pid, "thorough_cmd": "./vcheck thorough " + pid,
          "evidence_file": "evidence/%s.json" % pid, "replay_cmd_template": "./vcheck replay {path}", "engine": "vcheck",
          "level_claimed": {"category": c["level"], "text": c.get("claim", ""), "design_ref": "DESIGN.md §4 " + pid},
          "level_note": c.get("note", "; ".join(c.get("assumptions", []))),
          "technique": c.get("technique", "property-based testing (rapid) against a reference model")})
    else:
        m["not_applicable"].append({"property_id": pid, "reason": na_reasons.get(pid, "check not built yet (planned, see DESIGN.md §4 %s)" % pid)})
json.dump(m, open(os.path.join(V, "MANIFEST.json"), "w"), indent=1)
print("claimed:", [c["property_id"] for c in m["checks"]])
