#!/bin/sh
# usage: tools/sweep.sh <tier> <seed> [ids...]   run checks one after another, one summary line each
tier=$1; seed=$2; shift 2
ids="$*"; [ -z "$ids" ] && ids="C01 C02 C03 C04 C05 C06 C07 C08 C09 C10 C11 C12 C13 C14 C15 C16 C17 C18 C19 C20"
mkdir -p sweeplogs
for c in $ids; do
  s=$(date +%s)
  VERIF_SEED=$seed ./vcheck $tier $c > sweeplogs/$tier-$seed-$c.log 2>&1
  rc=$?
  echo "$c $tier seed=$seed exit=$rc $(( $(date +%s)-s ))s $(grep -a -m1 "^$c $tier" sweeplogs/$tier-$seed-$c.log)"
  grep -a "VIOLATION\|HARNESS\|KNOWN-FINDING" sweeplogs/$tier-$seed-$c.log | cut -c1-300 | head -8
done
