#!/usr/bin/env python3
"""Write /tmp/props/Cxx.txt (what a sub-agent is shown of a property: title, statement, quantifier, anchor file names - nothing else)."""
import json, os
os.makedirs('/tmp/props', exist_ok=True)
for l in open(os.path.join(os.path.dirname(os.path.abspath(__file__)), '..', '..', 'properties.jsonl')):
    p = json.loads(l)
    open('/tmp/props/%s.txt' % p['id'], 'w').write("Property %s: %s\n\nStatement: %s\n\nQuantifier: %s\n\nAnchored in files: %s\n" % (p['id'], p['title'], p['statement'], p['quantifier']['text'], ", ".join(p['anchors']['files'])))
