#!/bin/sh
python3 /tmp/seedN/mkprompt.py $1 $1 "$(cat /tmp/seedN/$1.focus)"
