import sys
name, prop, focus = sys.argv[1], sys.argv[2], sys.argv[3] if len(sys.argv)>3 else ""
t=open('/tmp/seedN/PROMPT.tmpl').read()
p=open('/tmp/props/%s.txt'%prop).read().strip()
t=t.replace('@WT@','/tmp/seedN/'+name).replace('@OUT@','/tmp/seedN/'+name+'.out').replace('@PROP@',p).replace('@ID@',prop).replace('@FOCUS@',focus)
print(t)
