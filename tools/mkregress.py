#!/usr/bin/env python3
"""Curate the replay tier: run every saved failing scenario under replays/<id>/ through the current harness
against /repo; scenarios that still parse and now PASS are copied to regress/<id>/ (deduplicated by scenario),
where ev.RunN replays them before the generated cases of every run (quick and thorough).
usage: tools/mkregress.py [Cxx ...]      (needs ./vcheck build and, for C15, ./vcheck build --race)"""
import json, os, subprocess, sys, hashlib, glob

V = os.path.dirname(os.path.dirname(os.path.abspath(__file__)))
ids = sys.argv[1:] or sorted(os.listdir(os.path.join(V, "replays")))
checks = json.load(open(os.path.join(V, "checks.json")))
for id_ in ids:
    seen = set()
    for f in glob.glob(os.path.join(V, "regress", id_, "*.json")):
        seen.add(hashlib.sha1(json.dumps(json.load(open(f))["scenario"], sort_keys=True).encode()).hexdigest())
    for f in sorted(glob.glob(os.path.join(V, "replays", id_, "*.json"))):
        try:
            d = json.load(open(f))
        except Exception:
            continue
        if "scenario" not in d or "test" not in d:
            continue
        h = hashlib.sha1(json.dumps(d["scenario"], sort_keys=True).encode()).hexdigest()
        if h in seen:
            continue
        binary = os.path.join(V, ".build", "checks.race.test" if checks.get(id_, {}).get("race") else "checks.test")
        env = dict(os.environ, VERIF_REPLAY=f, VERIF_KF=os.path.join(V, "known_findings.json"), VERIF_REPLAY_DIR="/tmp/mkregress-replays", VERIF_REGRESS="/nonexistent")
        r = subprocess.run([binary, "-test.run", "^%s$" % d["test"], "-test.timeout", "300s"], env=env, cwd="/tmp", stdout=subprocess.PIPE, stderr=subprocess.STDOUT, text=True)
        ok = "violations=0" in r.stdout and "HARNESS-ERROR" not in r.stdout and r.returncode == 0
        print(id_, os.path.basename(f), "PASS -> regress" if ok else "skip: " + " | ".join(r.stdout.strip().splitlines()[-3:])[:200])
        if not ok:
            continue
        seen.add(h)
        os.makedirs(os.path.join(V, "regress", id_), exist_ok=True)
        out = {"property": id_, "test": d["test"], "scenario": d["scenario"],
               "origin": {"from": os.path.relpath(f, V), "violation_then": d.get("violation"), "written": d.get("written")}}
        json.dump(out, open(os.path.join(V, "regress", id_, "%s-%s.json" % (d["test"].replace("/", "_"), h[:8])), "w"), indent=1)
