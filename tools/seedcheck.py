#!/usr/bin/env python3
"""Validate an independently written property-breaking change and run our check against it.

usage: tools/seedcheck.py <property> <worktree> <outdir> [name]
  <worktree>  scratch git worktree of /repo (the sub-agent's), <outdir> holds patch.diff, meta.json, demo file.
Steps (all in the scratch worktree, never in /repo):
  1. reset the worktree, apply patch.diff; go build ./...
  2. existing suite: go test -vet=off -count=1 -json ./...  -> all 266 baseline tests must pass
  3. demonstration: fails with the patch, passes without it
  4. our check: VERIF_REPO=<worktree> ./vcheck quick <property>   -> CAUGHT / MISSED
On success the change is stored under /verif/seeded/<name>/ (patch.diff, demo, meta.json with what was run)."""
import json, os, shutil, subprocess, sys, time

V = os.path.dirname(os.path.dirname(os.path.abspath(__file__)))


def sh(cmd, **kw):
    return subprocess.run(cmd, shell=True, stdout=subprocess.PIPE, stderr=subprocess.STDOUT, text=True, **kw)


def suite(wt):
    r = sh("cd %s && go test -vet=off -count=1 -json ./... 2>/dev/null" % wt)
    ok, bad = set(), set()
    for l in r.stdout.splitlines():
        try:
            e = json.loads(l)
        except Exception:
            continue
        if e.get("Test") and e.get("Action") in ("pass", "fail"):
            (ok if e["Action"] == "pass" else bad).add(e["Package"] + "::" + e["Test"])
    base = set(json.load(open("/root/.vp/BASELINE.json"))["stable_pass"])
    return sorted(base - ok), len(ok)


def main():
    prop, wt, out = sys.argv[1], sys.argv[2], sys.argv[3]
    name = sys.argv[4] if len(sys.argv) > 4 else prop + "-" + os.path.basename(out.rstrip("/")).replace(".out", "")
    meta = json.load(open(os.path.join(out, "meta.json")))
    patch = os.path.join(out, "patch.diff")
    rep = {"property": prop, "name": name, "agent_meta": meta}
    sh("cd %s && git checkout -q -- . && git clean -fdq" % wt)
    # always evaluate against the CURRENT /repo HEAD (the scratch worktree may have been created from an older one)
    head = sh("git -C /repo rev-parse HEAD").stdout.strip()
    sh("cd %s && git checkout -q --detach %s" % (wt, head))
    r = sh("cd %s && git apply %s" % (wt, patch))
    if r.returncode != 0:
        print("patch does not apply:", r.stdout)
        return 2
    b = sh("cd %s && go build ./... 2>&1 | tail -5" % wt)
    rep["build"] = "ok" if not b.stdout.strip() else b.stdout.strip()
    missing, npass = suite(wt)
    rep["suite"] = {"baseline_missing": missing, "passed": npass}
    print("build:", rep["build"], "| suite: passed", npass, "baseline tests missing:", missing[:5])
    # demonstration
    demo_file = meta.get("demo_file")
    demo_cmd = meta.get("demo_cmd")
    src = None
    for f in os.listdir(out):
        if f.endswith(".go"):
            src = os.path.join(out, f)
    if demo_file and demo_cmd and src:
        dst = os.path.join(wt, demo_file) if not os.path.isabs(demo_file) else demo_file
        os.makedirs(os.path.dirname(dst), exist_ok=True)
        shutil.copy(src, dst)
        cmd = demo_cmd if demo_cmd.strip().startswith("cd ") else "cd %s && %s" % (wt, demo_cmd)
        w = sh(cmd + " 2>&1 | tail -15")
        with_fail = ("FAIL" in w.stdout) or ("panic" in w.stdout)
        sh("cd %s && git apply -R %s" % (wt, patch))
        wo = sh(cmd + " 2>&1 | tail -15")
        without_ok = ("FAIL" not in wo.stdout) and ("ok" in wo.stdout or "PASS" in wo.stdout)
        sh("cd %s && git apply %s" % (wt, patch))
        os.remove(dst)
        rep["demo"] = {"cmd": demo_cmd, "fails_with_patch": with_fail, "passes_without_patch": without_ok,
                       "with_tail": w.stdout[-600:], "without_tail": wo.stdout[-300:]}
        print("demo: fails with patch:", with_fail, "| passes without:", without_ok)
    else:
        rep["demo"] = {"error": "no demo information"}
        print("demo: missing information", demo_file, demo_cmd, src)
    # our check
    t0 = time.time()
    env = dict(os.environ, VERIF_REPO=wt)
    tier = os.environ.get("SEED_TIER", "quick")
    r = sh("cd %s && ./vcheck %s %s 2>&1 | cut -c1-400 | grep -a 'VIOLATION\\|HARNESS-ERROR\\|%s:\\|  C' | head -6" % (V, tier, prop, tier), env=env)
    verdict = "CAUGHT" if "VIOLATION" in r.stdout else ("HARNESS-ERROR" if "HARNESS" in r.stdout else "MISSED")
    rep["check"] = {"cmd": "VERIF_REPO=<scratch worktree with the patch> ./vcheck %s %s" % (tier, prop), "verdict": verdict, "wall_s": round(time.time() - t0), "output": r.stdout[-900:]}
    print("check:", verdict, "in %.0fs" % (time.time() - t0))
    print(r.stdout[-700:])
    d = os.path.join(V, "seeded", name)
    os.makedirs(d, exist_ok=True)
    shutil.copy(patch, os.path.join(d, "patch.diff"))
    if src:
        shutil.copy(src, os.path.join(d, os.path.basename(src)))
    m = {"property": prop, "summary": meta.get("summary"), "needs": meta.get("needs"), "files": meta.get("files"),
         "demo_file": demo_file, "demo_cmd": demo_cmd,
         "confirmed": {"builds": rep["build"] == "ok", "existing_suite_baseline_missing": missing, "demo_fails_with_patch": rep["demo"].get("fails_with_patch"),
                       "demo_passes_without_patch": rep["demo"].get("passes_without_patch")},
         "our_check": rep["check"], "confirmed_at": time.strftime("%Y-%m-%d %H:%M"), "repo_commit": sh("git -C /repo log --format=%h -1").stdout.strip()}
    try:
        hist = json.load(open(os.path.join(V, "seeded", "HISTORY.json"))).get(name)
    except Exception:
        hist = None
    if hist:
        m["history"] = hist
    json.dump(m, open(os.path.join(d, "meta.json"), "w"), indent=1)
    return 0


if __name__ == "__main__":
    sys.exit(main())
