#!/usr/bin/env python3
"""Sensitivity protocol: apply hand-made property-breaking changes to a scratch worktree of /repo
(never to /repo itself), run the quick tier of the corresponding check against that tree
(VERIF_REPO) and record whether it goes red.  Usage: tools/mutants.py [Cxx ...]
Results are appended to mutants/RESULTS.md; each mutant is stored as mutants/<prop>/<name>.patch."""
import os, subprocess, sys, time, json

V = os.path.dirname(os.path.dirname(os.path.abspath(__file__)))
WT = "/tmp/verif-mutants/wt"

M = [
 # (property, name, file, old, new)
 ("C01", "nolocal-dropped", "server/server.go", "if sub.NoLocal && clientID == srcClientID {", "if false && sub.NoLocal && clientID == srcClientID {"),
 ("C01", "qos-max-instead-of-min", "server/server.go", "\tif msg.QoS > sub.QoS {\n\t\tmsg.QoS = sub.QoS\n\t}\n\tfor _, id := range ids {", "\tif msg.QoS < sub.QoS {\n\t\tmsg.QoS = sub.QoS\n\t}\n\tfor _, id := range ids {"),
 ("C01", "onlyonce-min-qos-sub", "server/server.go", "if d.mq[clientID].sub.QoS < sub.QoS {", "if d.mq[clientID].sub.QoS > sub.QoS {"),
 ("C01", "retain-never-cleared", "server/server.go", "\tif !sub.RetainAsPublished {\n\t\tmsg.Retained = false\n\t}\n\tvar expiry time.Time", "\tvar expiry time.Time"),
 ("C01", "subid-dropped-onlyonce", "server/server.go", "d.mq[clientID].subIDs = append(d.mq[clientID].subIDs, sub.ID)", "_ = sub.ID"),
 ("C02", "hash-parent-match-skipped", "persistence/subscription/mem/topic_trie.go", "\t\tif endFlag {\n\t\t\tsetRs(cnode, rs)\n\t\t\tif n := cnode.children[\"#\"]; n != nil {\n\t\t\t\tsetRs(n, rs)\n\t\t\t}\n\t\t} else {\n\t\t\tcnode.matchTopic(topicSlice[1:], rs)\n\t\t}\n\t}\n\tif cnode := t.children[topicSlice[0]]", "\t\tif endFlag {\n\t\t\tsetRs(cnode, rs)\n\t\t} else {\n\t\t\tcnode.matchTopic(topicSlice[1:], rs)\n\t\t}\n\t}\n\tif cnode := t.children[topicSlice[0]]"),
 ("C02", "prune-node-with-children", "persistence/subscription/mem/topic_trie.go", "\t\tdelete(pNode.clients, clientID)\n\t\tif len(pNode.clients) == 0 && len(pNode.children) == 0 {", "\t\tdelete(pNode.clients, clientID)\n\t\tif len(pNode.clients) == 0 {"),
 ("C02", "stats-not-decremented", "persistence/subscription/mem/trie_db.go", "\t\t\t\tdb.stats.SubscriptionsCurrent--\n", ""),
 ("C02", "topicmatch-no-dollar-guard", "pkg/packets/packets.go", "if (topicFilter[0] == '$' && topic[0] != '$') || (topic[0] == '$' && topicFilter[0] != '$') {", "if false {"),
 ("C03", "retransmit-dup-false", "server/client.go", "\t\t\tm.Dup = true\n", "\t\t\tm.Dup = false\n"),
 ("C03", "markused-skipped", "server/client.go", "\t\t\tclient.pl.markUsedLocked(id)\n\t\t\tclient.write(client.publishWithRemainingExpiry(m.Message, v.At, time.Now()))", "\t\t\tclient.write(client.publishWithRemainingExpiry(m.Message, v.At, time.Now()))"),
 ("C03", "limit-off-by-one", "server/limiter.go", "for p.used >= p.limit && !p.exit {\n\t\tp.cond.Wait()\n\t}\n\tif p.exit {\n\t\treturn nil\n\t}", "for p.used > p.limit && !p.exit {\n\t\tp.cond.Wait()\n\t}\n\tif p.exit {\n\t\treturn nil\n\t}"),
 ("C03", "puback-keeps-element", "server/client.go", "\terr := client.queueStore.Remove(puback.PacketID)\n\tif err != nil {\n\t\treturn converError(err)\n\t}\n\tclient.pl.releaseAcked(puback.PacketID)", "\tvar err error\n\tif err != nil {\n\t\treturn converError(err)\n\t}\n\tclient.pl.releaseAcked(puback.PacketID)"),
 ("C03", "ack-releases-reserved-id", "server/limiter.go", "\tif p.reserved.Get(id) == 0 {\n\t\tp.releaseLocked(id)\n\t}", "\tp.releaseLocked(id)"),
 ("C04", "ignore-exist", "server/client.go", "\t\tif exist {\n\t\t\tdup = true\n\t\t}", "\t\tif exist && false {\n\t\t\tdup = true\n\t\t}"),
 ("C04", "pubrel-keeps-id", "server/client.go", "\terr := client.unackStore.Remove(pubrel.PacketID)\n\tif err != nil {\n\t\treturn converError(err)\n\t}\n\tpubcomp := pubrel.NewPubcomp()", "\tvar err error\n\tif err != nil {\n\t\treturn converError(err)\n\t}\n\tpubcomp := pubrel.NewPubcomp()"),
 ("C04", "unack-reinit-on-resume", "server/server.go", "\t\t\t\terr = ua.Init(false)", "\t\t\t\terr = ua.Init(true)"),
 ("C05", "resume-ignores-expiry", "server/server.go", "\t\t\texpired = now.After(expiredTime)", "\t\t\texpired = false && now.After(expiredTime)"),
 ("C05", "v3-nonclean-expiry-zero", "server/server.go", "\t\t\t\texpiryInterval = uint32(srv.config.MQTT.SessionExpiry.Seconds())\n\t\t\t} else if connect.Properties != nil {", "\t\t\t\texpiryInterval = 0\n\t\t\t} else if connect.Properties != nil {"),
 ("C05", "disconnect-expiry-ignored", "server/server.go", "\t\t\t\tsess.ExpiryInterval = convertUint32(client.disconnect.Properties.SessionExpiryInterval, sess.ExpiryInterval)", "\t\t\t\t_ = convertUint32(client.disconnect.Properties.SessionExpiryInterval, sess.ExpiryInterval)"),
 ("C05", "takeover-does-not-wait", "server/server.go", "\t\t\toldClient.Close()\n\t\t\t<-oldClient.closed\n\t\t\tcontinue", "\t\t\toldClient.Close()\n\t\t\tsrv.mu.Lock()\n\t\t\tbreak"),
 ("C06", "swap-property-ids", "pkg/packets/properties.go", "\tpropertyWriteString(PropContentType, p.ContentType, newBufw)\n\tpropertyWriteString(PropResponseTopic, p.ResponseTopic, newBufw)\n\tpropertyWriteString(PropCorrelationData, p.CorrelationData, newBufw)\n\n", "\tpropertyWriteString(PropResponseTopic, p.ContentType, newBufw)\n\tpropertyWriteString(PropContentType, p.ResponseTopic, newBufw)\n\tpropertyWriteString(PropCorrelationData, p.CorrelationData, newBufw)\n\n"),
 ("C06", "totalbytes-off-at-128", "pkg/packets/packets.go", None, None),
 ("C06", "filter-hash-in-middle", "pkg/packets/packets.go", "\t\tif p[0] == byte('#') && plen != 1 {", "\t\tif false && p[0] == byte('#') && plen != 1 {"),
 ("C07", "empty-payload-stored", "server/client.go", "\t\t\t\tif len(msg.Payload) == 0 {\n\t\t\t\t\tsrv.retainedDB.Remove(msg.Topic)\n\t\t\t\t} else {", "\t\t\t\tif false {\n\t\t\t\t\tsrv.retainedDB.Remove(msg.Topic)\n\t\t\t\t} else {"),
 ("C07", "remove-keeps-msg-with-children", "retained/trie/retain_trie.go", "\tpNode.msg = nil\n\tif len(pNode.children) == 0 {", "\tif len(pNode.children) == 0 {\n\t\tpNode.msg = nil"),
 ("C07", "rh1-replays-on-resubscribe", "server/client.go", "if !isShared && ((!subRs[0].AlreadyExisted && v.RetainHandling != 2) || v.RetainHandling == 0) {", "if !isShared && v.RetainHandling != 2 {"),
 ("C07", "shared-subscribe-replays", "server/client.go", "if !isShared && ((!subRs[0].AlreadyExisted && v.RetainHandling != 2) || v.RetainHandling == 0) {", "if (isShared || !isShared) && ((!subRs[0].AlreadyExisted && v.RetainHandling != 2) || v.RetainHandling == 0) {"),
 ("C07", "replay-qos-not-capped", "server/client.go", "\t\t\t\t\tif v.QoS > subRs[0].Subscription.QoS {\n\t\t\t\t\t\tv.QoS = subRs[0].Subscription.QoS\n\t\t\t\t\t}\n", ""),
 ("C08", "will-after-normal-disconnect", "server/client.go", "\tclient.cleanWillFlag = !(client.version == packets.Version5 && dis.Code == codes.DisconnectWithWillMessage)", "\tclient.cleanWillFlag = false"),
 ("C08", "delayed-will-not-cancelled", "server/server.go", "\t\t\t\tif w, ok := srv.willMessage[client.opts.ClientID]; ok {\n\t\t\t\t\tw.signal(false)\n\t\t\t\t}", "\t\t\t\tif w, ok := srv.willMessage[client.opts.ClientID]; ok {\n\t\t\t\t\t_ = w\n\t\t\t\t}"),
 ("C08", "delay-ignored", "server/server.go", "\t\t\tif willDelayInterval != 0 && storeSession {", "\t\t\tif false && willDelayInterval != 0 && storeSession {"),
 ("C08", "will-properties-dropped", "server/server.go", "\t\t\t\tsetWillProperties(connect.WillProperties, willMsg)", "\t\t\t\t_ = connect.WillProperties"),
 ("C09", "session-set-after-connack", "persistence/session/redis/store.go", None, None),
 ("C09", "unack-set-only-caches", "persistence/unack/redis/redis.go", "\tn, err := redis.Int(c.Do(\"hset\", getKey(s.clientID), id, 1))\n\tif err != nil {\n\t\treturn false, err\n\t}", "\tn, err := 1, error(nil)\n\t_ = c\n\tif err != nil {\n\t\treturn false, err\n\t}"),
 ("C09", "queue-read-no-lset", "persistence/queue/redis/redis.go", "\t\t\terr = conn.Send(\"lset\", getKey(q.clientID), q.current, nb)", "\t\t\terr = nil"),
 ("C10", "capacity-gt", "persistence/queue/mem/mem.go", "\tif q.l.Len() >= q.max {", "\tif q.l.Len() > q.max {"),
 ("C10", "qos0-newcomer-evicts-qos1", "persistence/queue/mem/mem.go", "\t\tif elem.MessageWithID.(*queue.Publish).QoS == packets.Qos0 {\n\t\t\treturn\n\t\t}", ""),
 ("C10", "remove-forgets-notifier", "persistence/queue/mem/mem.go", "\t\t\tq.l.Remove(e)\n\t\t\tq.notifier.NotifyMsgQueueAdded(-1)\n\t\t\tq.notifier.NotifyInflightAdded(-1)", "\t\t\tq.l.Remove(e)\n\t\t\tq.notifier.NotifyMsgQueueAdded(-1)"),
 ("C10", "read-returns-expired", "persistence/queue/mem/mem.go", "\t\tif queue.ElemExpiry(now, v.Value.(*queue.Elem)) {\n\t\t\tq.current = q.current.Next()", "\t\tif false && queue.ElemExpiry(now, v.Value.(*queue.Elem)) {\n\t\t\tq.current = q.current.Next()"),
 ("C10", "redis-replace-off-by-one", "persistence/queue/redis/redis.go", "\t\t\t_, err = conn.Do(\"lset\", getKey(q.clientID), k, eb)", "\t\t\t_, err = conn.Do(\"lset\", getKey(q.clientID), k+1, eb)"),
 ("C11", "flush-to-every-member", "server/server.go", None, None),
 ("C11", "unsubscribe-one-group-deletes-node", "persistence/subscription/mem/topic_trie.go", "\t\t\tif len(pNode.shared) == 0 && len(pNode.children) == 0 {", "\t\t\tif len(pNode.children) == 0 {"),
 ("C11", "unsuball-keeps-shared-member", "persistence/subscription/mem/trie_db.go", "\t\t\tif c := node.shared[shareName]; c != nil {\n\t\t\t\tdelete(c, clientID)", "\t\t\tif c := node.shared[shareName]; c != nil {\n\t\t\t\t_ = clientID"),
 ("C12", "expiry-before", "persistence/queue/queue.go", "\t\treturn now.After(elem.Expiry)", "\t\treturn now.Before(elem.Expiry)"),
 ("C12", "remaining-not-rewritten", "server/client.go", "\t\t\tremaining = msg.MessageExpiry - d\n", "\t\t\tremaining = msg.MessageExpiry\n"),
 ("C12", "drop-not-reported", "persistence/queue/mem/mem.go", "\t\t\tq.current = q.current.Next()\n\t\t\tq.notifier.NotifyDropped(v.Value.(*queue.Elem), queue.ErrDropExpired)", "\t\t\tq.current = q.current.Next()"),
 ("C13", "size-check-skipped", "persistence/queue/mem/mem.go", "if size := pub.TotalBytes(q.version); size > q.readBytesLimit {", "if size := pub.TotalBytes(q.version); false && size > q.readBytesLimit {"),
 ("C13", "alias-max-plus-one", "topicalias/fifo/fifo.go", "\tif l == q.topicAlias.max {", "\tif l == q.topicAlias.max+1 {"),
 ("C13", "quota-never-fails", "server/client.go", "\tif client.serverReceiveMaximumQuota == 0 {\n\t\treturn codes.NewError(codes.RecvMaxExceeded)\n\t}", "\tif false {\n\t\treturn codes.NewError(codes.RecvMaxExceeded)\n\t}"),
 ("C13", "quota-not-restored-on-puback", "server/client.go", "\t\t\tcase *packets.Puback, *packets.Pubcomp:\n\t\t\t\tif client.version == packets.Version5 {\n\t\t\t\t\tclient.addServerQuota()\n\t\t\t\t}", "\t\t\tcase *packets.Pubcomp:\n\t\t\t\tif client.version == packets.Version5 {\n\t\t\t\t\tclient.addServerQuota()\n\t\t\t\t}"),
 ("C14", "wrappers-left-to-right", "server/server.go", "\t\tfor i := len(onSubscribeWrappers); i > 0; i-- {\n\t\t\tonSubscribe = onSubscribeWrappers[i-1](onSubscribe)\n\t\t}", "\t\tfor i := 0; i < len(onSubscribeWrappers); i++ {\n\t\t\tonSubscribe = onSubscribeWrappers[i](onSubscribe)\n\t\t}"),
 ("C14", "suback-from-request", "server/client.go", "\t\tcode := sub.QoS\n\t\tif client.version == packets.Version5 {", "\t\tcode := v.Qos\n\t\tif client.version == packets.Version5 {"),
 ("C14", "msg-instead-of-req-message", "server/client.go", "\t\t\terr = srv.hooks.OnMsgArrived(context.Background(), client, req)\n\t\t\tmsg = req.Message", "\t\t\terr = srv.hooks.OnMsgArrived(context.Background(), client, req)"),
 ("C15", "publishservice-without-lock", "server/publish_service.go", "\tp.server.mu.Lock()\n\tp.server.deliverMessage(\"\", message, defaultIterateOptions(message.Topic))\n\tp.server.mu.Unlock()", "\tp.server.deliverMessage(\"\", message, defaultIterateOptions(message.Topic))"),
 ("C15", "stats-map-without-lock", "server/stats.go", "func (s *statsManager) packetReceived(packet packets.Packet, clientID string) {\n\ts.totalStats.PacketStats.add(packet, true)\n\ts.clientMu.Lock()\n\tdefer s.clientMu.Unlock()", "func (s *statsManager) packetReceived(packet packets.Packet, clientID string) {\n\ts.totalStats.PacketStats.add(packet, true)"),
 ("C15", "stop-does-not-wait", "server/server.go", "\t\t\tgo func() {\n\t\t\t\tfor _, v := range chs {\n\t\t\t\t\t<-v\n\t\t\t\t}\n\t\t\t\tclose(done)\n\t\t\t}()", "\t\t\tgo func() {\n\t\t\t\tclose(done)\n\t\t\t}()"),
 ("C18", "reset-buffer-early", "server/server.go", "\tif ws.r >= len(ws.buf) {", "\tif ws.r+2 >= len(ws.buf) {"),
 ("C18", "write-text-frames", "server/server.go", "\terr = ws.c.WriteMessage(websocket.BinaryMessage, p)", "\terr = ws.c.WriteMessage(websocket.TextMessage, p)"),
 ("C18", "text-frames-accepted", "server/server.go", "\t\tif msgType != websocket.BinaryMessage {\n\t\t\treturn 0, ErrInvalWsMsgType\n\t\t}", "\t\t_ = msgType"),
 ("C19", "unknown-user-accepted", "plugin/auth/auth.go", None, None),
 ("C20", "packet-sent-before-write", "server/client.go", "\t\t\t\thandshake = nil\n\t\t\t\tsrv.statsManager.packetSent(packet, client.opts.ClientID)", "\t\t\t\thandshake = nil\n\t\t\t\tsrv.statsManager.packetSent(packet, client.opts.ClientID)\n\t\t\t\tsrv.statsManager.packetSent(packet, client.opts.ClientID)"),
 ("C20", "handshake-auth-booked-at-once", "server/client.go", "\t\t\tif _, ok := packet.(*packets.Auth); ok && !client.IsConnected() {", "\t\t\tif _, ok := packet.(*packets.Auth); ok && false {"),
 ("C10", "redis-drop-keeps-read-cache", "persistence/queue/redis/redis.go", "\t\t\t\tdelete(q.readCache, dropElem.ID())\n", ""),
 ("C07", "v3-shared-subscribe-replays", "server/client.go", "\t\tisShared := sub.ShareName != \"\"\n", "\t\tisShared := sub.ShareName != \"\" && client.version == packets.Version5\n"),
 ("C20", "session-inactive-not-called", "server/stats.go", "\tatomic.AddUint64(&s.totalStats.ConnectionStats.DisconnectedTotal, 1)\n\ts.sessionInActive()", "\tatomic.AddUint64(&s.totalStats.ConnectionStats.DisconnectedTotal, 1)"),
 ("C20", "qos0-read-not-decremented", "persistence/queue/mem/mem.go", "\t\tif pub.QoS == 0 {\n\t\t\tq.current = q.current.Next()\n\t\t\tq.l.Remove(v)\n\t\t\tmsgQueueDelta--", "\t\tif pub.QoS == 0 {\n\t\t\tq.current = q.current.Next()\n\t\t\tq.l.Remove(v)"),
 ("C16", "duplicate-suppression-removed", "plugin/federation/federation.go", "\tif sess.seenEvents.set(eventID) {", "\tif sess.seenEvents.set(eventID) && false {"),
 ("C16", "set-read-position-ignored", "plugin/federation/peer.go", "\t\tif ev.Id == id {\n\t\t\te.nextRead = elem\n\t\t\treturn\n\t\t}", "\t\tif ev.Id == id {\n\t\t\treturn\n\t\t}"),
 ("C16", "ack-removes-only-acked-id", "plugin/federation/peer.go", "\t\tif req.Id <= id {\n\t\t\te.l.Remove(elem)\n\t\t}", "\t\tif req.Id == id {\n\t\t\te.l.Remove(elem)\n\t\t}"),
 ("C16", "unsubscribe-event-not-applied", "plugin/federation/federation.go", "\t\t_ = f.fedSubStore.Unsubscribe(sess.nodeName, unsub.TopicName)\n", ""),
 ("C17", "forward-to-all-peers", "plugin/federation/hooks.go", "\tfor nodeName := range nonShared {\n\t\tif _, ok := sent[nodeName]; ok {\n\t\t\tcontinue\n\t\t}\n\t\tif p, ok := f.peers[nodeName]; ok {", "\tfor nodeName := range f.peers {\n\t\tif _, ok := sent[nodeName]; ok {\n\t\t\tcontinue\n\t\t}\n\t\tif p, ok := f.peers[nodeName]; ok {"),
 ("C17", "retained-not-cleared-on-peer", "plugin/federation/federation.go", "\t\t\tif len(pubMsg.Payload) == 0 {\n\t\t\t\tf.retainedStore.Remove(pubMsg.Topic)\n\t\t\t} else {", "\t\t\tif false {\n\t\t\t\tf.retainedStore.Remove(pubMsg.Topic)\n\t\t\t} else {"),
 ("C17", "retained-only-to-matching-peers", "plugin/federation/hooks.go", "\tif msg.Retained {\n\t\teventMsg := messageToEvent(msg)\n\t\tfor _, v := range f.peers {", "\tif msg.Retained && len(msg.Payload) == 0 {\n\t\teventMsg := messageToEvent(msg)\n\t\tfor _, v := range f.peers {"),
 ("C05", "sweeper-never-expires", "server/server.go", "\t\tif now.After(expiredTime) {\n\t\t\tzaplog.Info(\"session expired\"", "\t\tif false && now.After(expiredTime) {\n\t\t\tzaplog.Info(\"session expired\""),
 ("C05", "sweeper-expires-everything", "server/server.go", "\t\tif now.After(expiredTime) {\n\t\t\tzaplog.Info(\"session expired\"", "\t\tif true || now.After(expiredTime) {\n\t\t\tzaplog.Info(\"session expired\""),
 ("C11", "expired-member-selected", "server/server.go", "\t\t\tif t, ok := d.srv.offlineClients[m.clientID]; ok && d.now.After(t) {", "\t\t\tif t, ok := d.srv.offlineClients[m.clientID]; false && ok && d.now.After(t) {"),
 ("C12", "retransmission-expiry-stale", "server/client.go", "\t\t\tclient.write(client.publishWithRemainingExpiry(m.Message, v.At, time.Now()))", "\t\t\tclient.write(gmqtt.MessageToPublish(m.Message, client.version))"),
 ("C14", "auth-continue-not-signalled", "server/client.go", "\t\t\t\tcase client.authContinue <- struct{}{}:\n", "\t\t\t\tcase client.authContinue <- struct{}{}:\n\t\t\t\t\t<-client.authContinue\n"),
 ("C17", "will-ignores-iteration-options", "server/server.go", "\tsrv.deliverMessage(clientID, req.Message, req.IterationOptions)", "\tsrv.deliverMessage(clientID, req.Message, defaultIterateOptions(req.Message.Topic))"),
 ("C20", "expired-counted-as-normal", "server/stats.go", "\tcase ExpiredTermination:\n\t\ti = &s.totalStats.ConnectionStats.SessionTerminated.Expired", "\tcase ExpiredTermination:\n\t\ti = &s.totalStats.ConnectionStats.SessionTerminated.Normal"),
]


def sh(cmd, **kw):
    return subprocess.run(cmd, shell=True, stdout=subprocess.PIPE, stderr=subprocess.STDOUT, text=True, **kw)


def main():
    want = set(sys.argv[1:])
    os.makedirs(os.path.dirname(WT), exist_ok=True)
    sh("git -C /repo worktree remove --force %s" % WT)
    r = sh("git -C /repo worktree add --detach %s HEAD" % WT)
    if r.returncode != 0:
        print(r.stdout)
        return 2
    res_path = os.path.join(V, "mutants", "RESULTS.md")
    os.makedirs(os.path.dirname(res_path), exist_ok=True)
    rows = []
    try:
        for prop, name, f, old, new in M:
            if want and prop not in want:
                continue
            if old is None:
                continue
            sh("git -C %s checkout -- ." % WT)
            p = os.path.join(WT, f)
            s = open(p).read()
            if s.count(old) != 1:
                rows.append((prop, name, "NOT-APPLICABLE (pattern found %d times)" % s.count(old), ""))
                print(rows[-1], flush=True)
                continue
            open(p, "w").write(s.replace(old, new))
            b = sh("cd %s && go build ./... 2>&1 | tail -5" % WT)
            if "rror" in b.stdout or b.stdout.strip():
                # try gofmt issues like unused imports
                rows.append((prop, name, "DOES-NOT-COMPILE", b.stdout.strip()[:200]))
                print(rows[-1], flush=True)
                continue
            os.makedirs(os.path.join(V, "mutants", prop), exist_ok=True)
            open(os.path.join(V, "mutants", prop, name + ".patch"), "w").write(sh("git -C %s diff" % WT).stdout)
            t0 = time.time()
            env = dict(os.environ, VERIF_REPO=WT, VERIF_ALT_TAG="mut")
            r = sh("cd %s && ./vcheck quick %s 2>&1 | cut -c1-240 | grep -a 'VIOLATION\\|HARNESS-ERROR\\|quick:\\|  C' | head -4" % (V, prop), env=env)
            out = r.stdout.strip().replace("\n", " | ")
            verdict = "CAUGHT" if "VIOLATION" in out else ("HARNESS-ERROR" if "HARNESS" in out else "MISSED")
            rows.append((prop, name, verdict, "%.0fs %s" % (time.time() - t0, out[:330])))
            print(rows[-1], flush=True)
    finally:
        sh("git -C /repo worktree remove --force %s" % WT)
        with open(res_path, "a") as fh:
            fh.write("\n## run %s (repo %s)\n\n| property | mutant | verdict | detail |\n|---|---|---|---|\n" % (time.strftime("%Y-%m-%d %H:%M"), sh("git -C /repo log --format=%h -1").stdout.strip()))
            for row in rows:
                fh.write("| %s | %s | %s | %s |\n" % tuple(str(x).replace("|", "/") for x in row))
    return 0


if __name__ == "__main__":
    sys.exit(main())
